(* Scalar instance 3: Coquelicot's complex numbers.  The generic theorems are
   instantiated here; a principal N-th root of unity exists (non-vacuity of
   the DFT inversion hypotheses). *)
From Coq Require Import Reals Lra Lia ZArith Ring Bool.
From Coquelicot Require Import Coquelicot.
From EPG Require Import Scalar Synth Dft.
Local Open Scope R_scope.

Definition Ceqb (x y : C) : bool :=
  if Req_EM_T (fst x) (fst y) then (if Req_EM_T (snd x) (snd y) then true else false) else false.

Definition Cops : ScalOps :=
  mkScalOps C (RtoC 0) (RtoC 1) Cplus Cmult Cminus Copp Cconj Ceqb.

Lemma C_ext (x y : C) : fst x = fst y -> snd x = snd y -> x = y.
Proof. destruct x, y; simpl; intros; subst; reflexivity. Qed.

Lemma Claws : ScalLaws Cops.
Proof.
  constructor; simpl.
  - exact C_ring_theory.
  - intros; apply C_ext; simpl; ring.
  - intros; apply C_ext; simpl; ring.
  - intros; apply C_ext; simpl; ring.
  - apply C_ext; simpl; ring.
  - apply C_ext; simpl; ring.
  - intros; apply C_ext; simpl; ring.
  - intros x y. unfold Ceqb. split.
    + destruct (Req_EM_T (fst x) (fst y)); destruct (Req_EM_T (snd x) (snd y)); try discriminate.
      intros _. now apply C_ext.
    + intros ->. destruct (Req_EM_T (fst y) (fst y)); destruct (Req_EM_T (snd y) (snd y)); congruence.
Qed.

Ltac cnorm := change (K Cops) with C in *; change (@kmul Cops) with Cmult in *; change (@kadd Cops) with Cplus in *; change (@ksub Cops) with Cminus in *; change (@kopp Cops) with Copp in *; change (@k0 Cops) with (RtoC 0) in *; change (@k1 Cops) with (RtoC 1) in *.

(* unit-circle points *)
Definition cis (t : R) : C := (cos t, sin t).

Lemma cis_add a b : cis (a + b) = Cmult (cis a) (cis b).
Proof. apply C_ext; simpl; [apply cos_plus|rewrite sin_plus; ring]. Qed.
Lemma cis_0 : cis 0 = RtoC 1.
Proof. apply C_ext; simpl; [apply cos_0|apply sin_0]. Qed.
Lemma cis_inv a : Cmult (cis a) (cis (- a)) = RtoC 1.
Proof. rewrite <- cis_add. replace (a + - a) with 0 by ring. apply cis_0. Qed.
Lemma cis_conj a : Cconj (cis a) = cis (- a).
Proof. apply C_ext; simpl; [now rewrite cos_neg|now rewrite sin_neg]. Qed.

Section Root.
Variable N : nat.
Hypothesis Npos : (0 < N)%nat.
Let th : R := 2 * PI / INR N.
Definition omega : C := cis th.
Definition omega_inv : C := cis (- th).

Lemma omega_inv_ok : (@kmul Cops omega omega_inv) = @k1 Cops.
Proof. apply cis_inv. Qed.

Lemma omega_pow (k : Z) : zpow Cops omega omega_inv k = cis (IZR k * th).
Proof.
  apply (Z.peano_ind (fun k => zpow Cops omega omega_inv k = cis (IZR k * th))).
  - simpl. rewrite Rmult_0_l. symmetry. apply cis_0.
  - intros j IH. unfold Z.succ.
    rewrite (zpow_succ Cops Claws _ _ omega_inv_ok), IH. cnorm.
    rewrite plus_IZR. unfold omega. rewrite <- cis_add. f_equal. ring.
  - intros j IH. unfold Z.pred. replace (j + -1)%Z with (j - 1)%Z by lia.
    rewrite (zpow_pred Cops Claws _ _ omega_inv_ok), IH. cnorm.
    rewrite minus_IZR. unfold omega_inv. rewrite <- cis_add. f_equal. ring.
Qed.

Lemma INR_N_pos : 0 < INR N.
Proof. apply lt_0_INR. exact Npos. Qed.

Lemma omega_N0 : zpow Cops omega omega_inv (Z.of_nat N) = RtoC 1.
Proof.
  rewrite omega_pow. unfold th, cis. rewrite <- INR_IZR_INZ.
  replace (INR N * (2 * PI / INR N)) with (2 * PI) by (field; apply Rgt_not_eq, INR_N_pos).
  now rewrite cos_2PI, sin_2PI.
Qed.

Lemma omega_N (j : Z) : zpow Cops omega omega_inv (j * Z.of_nat N) = RtoC 1.
Proof.
  apply (Z.peano_ind (fun j => zpow Cops omega omega_inv (j * Z.of_nat N) = RtoC 1)).
  - reflexivity.
  - intros i IH. unfold Z.succ. replace ((i + 1) * Z.of_nat N)%Z with (i * Z.of_nat N + Z.of_nat N)%Z by lia.
    rewrite (zpow_add Cops Claws _ _ omega_inv_ok), IH, omega_N0. cnorm. apply Cmult_1_l.
  - intros i IH. unfold Z.pred.
    assert (E : zpow Cops omega omega_inv ((i + -1) * Z.of_nat N + Z.of_nat N) = RtoC 1)
      by (replace ((i + -1) * Z.of_nat N + Z.of_nat N)%Z with (i * Z.of_nat N)%Z by lia; exact IH).
    rewrite (zpow_add Cops Claws _ _ omega_inv_ok), omega_N0 in E. cnorm.
    now rewrite Cmult_1_r in E.
Qed.

(* w^j <> 1 for 0 < |j| < N *)
Lemma omega_pow_neq1 (j : Z) : j <> 0%Z -> (- Z.of_nat N < j < Z.of_nat N)%Z ->
  zpow Cops omega omega_inv j <> RtoC 1.
Proof.
  intros Hj0 Hj. rewrite omega_pow. unfold cis. intros E.
  injection E as Ec Es.
  (* cos x = 1 with x = 2 y  ==> sin y = 0, but 0 < |y| < PI *)
  set (y := IZR j * PI / INR N).
  assert (Hy : IZR j * th = 2 * y) by (unfold th, y; field; apply Rgt_not_eq, INR_N_pos).
  rewrite Hy in Ec. rewrite cos_2a_sin in Ec.
  assert (Hs : sin y = 0) by nra.
  pose proof INR_N_pos as HN. pose proof PI_RGT_0 as Hpi.
  assert (HjN : - INR N < IZR j < INR N).
  { rewrite INR_IZR_INZ. split; [rewrite <- opp_IZR|]; apply IZR_lt; lia. }
  destruct (Z_lt_le_dec 0 j) as [Hp|Hn].
  - assert (0 < IZR j) by (apply IZR_lt; lia).
    assert (0 < y < PI).
    { unfold y. split.
      - apply Rdiv_lt_0_compat; nra.
      - apply (Rmult_lt_reg_r (INR N)); auto. unfold Rdiv. rewrite Rmult_assoc, Rinv_l by lra. nra. }
    pose proof (sin_gt_0 y). lra.
  - assert (IZR j < 0) by (apply IZR_lt; lia).
    assert (0 < - y < PI).
    { unfold y. split.
      - replace (- (IZR j * PI / INR N)) with ((- IZR j) * PI / INR N) by (field; lra).
        apply Rdiv_lt_0_compat; nra.
      - apply (Rmult_lt_reg_r (INR N)); auto.
        replace (- (IZR j * PI / INR N) * INR N) with (- IZR j * PI) by (field; lra). nra. }
    pose proof (sin_gt_0 (- y)). rewrite sin_neg in *. lra.
Qed.

(* geometric sum: (x - 1) * sum_{m<n} x^m = x^n - 1, with x = w^j *)
Lemma geom (j : Z) (n : nat) :
  Cmult (Cminus (zpow Cops omega omega_inv j) (RtoC 1))
        (sumn Cops n (fun m => zpow Cops omega omega_inv (j * Z.of_nat m)))
  = Cminus (zpow Cops omega omega_inv (j * Z.of_nat n)) (RtoC 1).
Proof.
  induction n as [|n IH].
  - simpl. rewrite Z.mul_0_r. cnorm. simpl. ring.
  - cbn [sumn].
    replace (j * Z.of_nat (Datatypes.S n))%Z with (j + j * Z.of_nat n)%Z by lia.
    rewrite (zpow_add Cops Claws _ _ omega_inv_ok).
    revert IH.
    generalize (zpow Cops omega omega_inv j)
               (sumn Cops n (fun m => zpow Cops omega omega_inv (j * Z.of_nat m)))
               (zpow Cops omega omega_inv (j * Z.of_nat n)).
    cnorm. intros x s y IH.
    transitivity (Cplus (Cmult (Cminus x (RtoC 1)) s) (Cmult (Cminus x (RtoC 1)) y)); [ring|].
    rewrite IH. ring.
Qed.

Theorem omega_principal (j : Z) : j <> 0%Z -> (- Z.of_nat N < j < Z.of_nat N)%Z ->
  sumn Cops N (fun m => zpow Cops omega omega_inv (j * Z.of_nat m)) = @k0 Cops.
Proof.
  intros Hj0 Hj. pose proof (geom j N) as G. rewrite omega_N in G.
  replace (Cminus (RtoC 1) (RtoC 1)) with (RtoC 0) in G by ring.
  destruct (Ceqb (sumn Cops N (fun m => zpow Cops omega omega_inv (j * Z.of_nat m))) (RtoC 0)) eqn:E.
  - now apply (keqb_eq Cops Claws) in E.
  - exfalso.
    assert (Hs : sumn Cops N (fun m => zpow Cops omega omega_inv (j * Z.of_nat m)) <> RtoC 0).
    { intros H. apply (keqb_eq Cops Claws) in H. simpl in H. congruence. }
    assert (Hx : Cminus (zpow Cops omega omega_inv j) (RtoC 1) <> RtoC 0).
    { apply Cminus_eq_contra. now apply omega_pow_neq1. }
    exact (Cmult_neq_0 _ _ Hx Hs G).
Qed.

End Root.
