(* Dual numbers a + a' x (x^2 = 0) over any scalar ring: again a scalar ring, and the Euler
   operator  dv (a + a' x) = a' x  is a non-trivial DERIVATION of it (additive, Leibniz).
   Used to show that the hypotheses of the derivation-exactness theorems (C02) are satisfiable
   on an executable instance. *)
From Coq Require Import List ZArith Ring Bool.
From EPG Require Import Scalar.

Section Dual.
Variable S : ScalOps.
Hypothesis L : ScalLaws S.
Add Ring Kr : (k_ring S L).

Definition dual : Type := (S * S)%type.
Definition d_add (x y : dual) : dual := ((fst x + fst y)%K, (snd x + snd y)%K).
Definition d_sub (x y : dual) : dual := ((fst x - fst y)%K, (snd x - snd y)%K).
Definition d_opp (x : dual) : dual := ((- fst x)%K, (- snd x)%K).
Definition d_mul (x y : dual) : dual := ((fst x * fst y)%K, (fst x * snd y + snd x * fst y)%K).
Definition d_conj (x : dual) : dual := (kconj (fst x), kconj (snd x)).
Definition d_eqb (x y : dual) : bool := keqb (fst x) (fst y) && keqb (snd x) (snd y).

Definition DualOps : ScalOps :=
  mkScalOps dual (k0, k0) (k1, k0) d_add d_mul d_sub d_opp d_conj d_eqb.

Lemma dual_ext (x y : dual) : fst x = fst y -> snd x = snd y -> x = y.
Proof. destruct x, y; simpl; intros; subst; reflexivity. Qed.

Lemma DualLaws : ScalLaws DualOps.
Proof.
  constructor; simpl.
  - constructor; intros; apply dual_ext; simpl; ring.
  - intros; apply dual_ext; simpl; now rewrite (conj_add S L).
  - intros; apply dual_ext; simpl; rewrite ?(conj_add S L), !(conj_mul S L); reflexivity.
  - intros; apply dual_ext; simpl; now rewrite (conj_opp S L).
  - apply dual_ext; simpl; apply (conj_0 S L).
  - apply dual_ext; simpl; [apply (conj_1 S L)|apply (conj_0 S L)].
  - intros; apply dual_ext; simpl; apply (conj_invol S L).
  - intros x y. unfold d_eqb. rewrite andb_true_iff, !(keqb_eq S L). split.
    + intros [H1 H2]. now apply dual_ext.
    + intros ->. auto.
Qed.

(* Euler derivation x d/dx *)
Definition dual_dv (x : DualOps) : DualOps := ((k0, snd x) : dual).

Lemma dual_dv_add (x y : DualOps) : dual_dv (@kadd DualOps x y) = @kadd DualOps (dual_dv x) (dual_dv y).
Proof. apply dual_ext; simpl; ring. Qed.

Lemma dual_dv_mul (x y : DualOps) :
  dual_dv (@kmul DualOps x y) = @kadd DualOps (@kmul DualOps (dual_dv x) y) (@kmul DualOps x (dual_dv y)).
Proof. apply dual_ext; simpl; ring. Qed.

End Dual.
