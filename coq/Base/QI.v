(* Executable scalar instance: Gaussian rationals over canonical rationals Qc
   (Leibniz equality, so the generic theorems apply to what is executed). *)
From Coq Require Import QArith Qcanon ZArith Ring Bool.
From EPG Require Import Scalar.

Definition QI : Type := (Qc * Qc)%type.

Definition qi_add (x y : QI) : QI := (fst x + fst y, snd x + snd y)%Qc.
Definition qi_sub (x y : QI) : QI := (fst x - fst y, snd x - snd y)%Qc.
Definition qi_opp (x : QI) : QI := (- fst x, - snd x)%Qc.
Definition qi_mul (x y : QI) : QI :=
  (fst x * fst y - snd x * snd y, fst x * snd y + snd x * fst y)%Qc.
Definition qi_conj (x : QI) : QI := (fst x, - snd x)%Qc.
Definition qi_eqb (x y : QI) : bool :=
  Qc_eq_bool (fst x) (fst y) && Qc_eq_bool (snd x) (snd y).
Definition qi0 : QI := (Q2Qc 0, Q2Qc 0).
Definition qi1 : QI := (Q2Qc 1, Q2Qc 0).

Definition QIops : ScalOps :=
  mkScalOps QI qi0 qi1 qi_add qi_mul qi_sub qi_opp qi_conj qi_eqb.

(* literal: (a # b) + i (c # d) *)
Definition qi (a : Z) (b : positive) (c : Z) (d : positive) : QI :=
  (Q2Qc (a # b), Q2Qc (c # d)).
Definition qr (a : Z) (b : positive) : QI := (Q2Qc (a # b), Q2Qc 0).

Lemma qi_ext (x y : QI) : fst x = fst y -> snd x = snd y -> x = y.
Proof. destruct x, y; simpl; intros; subst; reflexivity. Qed.

Lemma Qc_eq_bool_true (x y : Qc) : Qc_eq_bool x y = true <-> x = y.
Proof.
  split.
  - apply Qc_eq_bool_correct.
  - intros ->. unfold Qc_eq_bool. destruct (Qc_eq_dec y y); congruence.
Qed.

Lemma QIlaws : ScalLaws QIops.
Proof.
  constructor; simpl.
  - constructor; intros; apply qi_ext; simpl; try ring.
    all: try reflexivity.
  - intros; apply qi_ext; simpl; ring.
  - intros; apply qi_ext; simpl; ring.
  - intros; apply qi_ext; simpl; ring.
  - apply qi_ext; simpl; ring.
  - apply qi_ext; simpl; ring.
  - intros; apply qi_ext; simpl; ring.
  - intros x y. unfold qi_eqb. rewrite andb_true_iff, !Qc_eq_bool_true.
    split.
    + intros [H1 H2]; now apply qi_ext.
    + intros ->; auto.
Qed.
