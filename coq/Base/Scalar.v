(* Abstract scalars: a commutative ring with an involutive ring automorphism
   [kconj].  The model functions depend only on [ScalOps]; theorems take the
   laws [ScalLaws] as a section hypothesis, so they hold for every instance
   (Coquelicot's C, Gaussian rationals over Qc, jets, ...). *)
From Coq Require Import List ZArith Lia Ring.
Import ListNotations.

Record ScalOps : Type := mkScalOps {
  K :> Type;
  k0 : K; k1 : K;
  kadd : K -> K -> K;
  kmul : K -> K -> K;
  ksub : K -> K -> K;
  kopp : K -> K;
  kconj : K -> K;
  keqb : K -> K -> bool   (* used only by executable checks *)
}.

Arguments k0 {_}. Arguments k1 {_}. Arguments kadd {_}. Arguments kmul {_}.
Arguments ksub {_}. Arguments kopp {_}. Arguments kconj {_}. Arguments keqb {_}.

Declare Scope K_scope.
Delimit Scope K_scope with K.
Infix "+" := kadd : K_scope.
Infix "*" := kmul : K_scope.
Infix "-" := ksub : K_scope.
Notation "- x" := (kopp x) : K_scope.

Record ScalLaws (S : ScalOps) : Prop := mkScalLaws {
  k_ring : ring_theory (@k0 S) k1 kadd kmul ksub kopp eq;
  conj_add : forall x y : S, kconj (x + y)%K = (kconj x + kconj y)%K;
  conj_mul : forall x y : S, kconj (x * y)%K = (kconj x * kconj y)%K;
  conj_opp : forall x : S, kconj (- x)%K = (- kconj x)%K;
  conj_0 : kconj (@k0 S) = k0;
  conj_1 : kconj (@k1 S) = k1;
  conj_invol : forall x : S, kconj (kconj x) = x;
  keqb_eq : forall x y : S, keqb x y = true <-> x = y
}.

Section Basics.
Variable S : ScalOps.
Hypothesis L : ScalLaws S.
Add Ring Kr : (k_ring S L).
Open Scope K_scope.

Lemma conj_sub (x y : S) : kconj (x - y) = kconj x - kconj y.
Proof.
  replace (x - y) with (x + - y) by ring.
  rewrite (conj_add S L), (conj_opp S L). ring.
Qed.

(* a scalar is "real" when fixed by conjugation *)
Definition kreal (x : S) : Prop := kconj x = x.

Lemma kreal_0 : kreal k0. Proof. apply (conj_0 S L). Qed.
Lemma kreal_1 : kreal k1. Proof. apply (conj_1 S L). Qed.
Lemma kreal_add x y : kreal x -> kreal y -> kreal (x + y).
Proof. unfold kreal; intros Hx Hy. now rewrite (conj_add S L), Hx, Hy. Qed.
Lemma kreal_mul x y : kreal x -> kreal y -> kreal (x * y).
Proof. unfold kreal; intros Hx Hy. now rewrite (conj_mul S L), Hx, Hy. Qed.

End Basics.
