(* Executable model of epgpy.statematrix.ArrayCollection as a state machine
   (statematrix.py, class ArrayCollection), faithful to the code as written:
   order-dependent caches (_shape, _shapes, _axes, _default), check_shape,
   the in-place branch of update, the stale axes cache after pop, one linked child.
   Names of arrays and of named axes are natural numbers.
   Domain restriction of the model (returns EUnsupported): arrays with fewer
   dimensions than the non-ellipsis layout items; a second link. *)
From Coq Require Import List ZArith Lia Bool Arith.
From EPG Require Import Scalar State NdArray.
Import ListNotations.

Inductive litem : Type := LEll | LFix (n : nat) | LName (k : nat) | LFree.
Definition layout := list litem.

Inductive err : Type := EValue | EKey | EIndex | EUnsupported.
Inductive res (A : Type) : Type := Ok (a : A) | Err (e : err).
Arguments Ok {A}. Arguments Err {A}.

Record entry : Type := mkE { e_lay : layout; e_arr : nd }.

Record coll : Type := mkC {
  c_app : bool;                          (* true: expand_axis = -1 (append); false: 0 (prepend) *)
  c_arrays : list (nat * entry);         (* _arrays + _layouts, insertion order *)
  c_shapes : list (nat * list nat);      (* _shapes *)
  c_axes : list (nat * nat);             (* _axes (first match = dict value) *)
  c_default : list nat;                  (* _default *)
  c_shape : list nat }.                  (* _shape *)

(* ---- association lists (python dicts observed through lookups) *)
Fixpoint lookup {A} (k : nat) (m : list (nat * A)) : option A :=
  match m with
  | [] => None
  | (k', v) :: m' => if k =? k' then Some v else lookup k m'
  end.
Fixpoint set_assoc {A} (k : nat) (v : A) (m : list (nat * A)) : list (nat * A) :=
  match m with
  | [] => [(k, v)]
  | (k', v') :: m' => if k =? k' then (k, v) :: m' else (k', v') :: set_assoc k v m'
  end.
Definition del_assoc {A} (k : nat) (m : list (nat * A)) : list (nat * A) :=
  filter (fun p => negb (k =? fst p)) m.

(* ---- layouts *)
Definition is_ell (x : litem) : bool := match x with LEll => true | _ => false end.
Fixpoint ell_index (l : layout) : nat :=
  match l with [] => 0 | x :: l' => if is_ell x then 0 else S (ell_index l') end.
Definition count_ell (l : layout) : nat := length (filter is_ell l).
Definition is_name (ax : nat) (x : litem) : bool := match x with LName k => k =? ax | _ => false end.
Fixpoint name_index (ax : nat) (l : layout) : nat :=
  match l with [] => 0 | x :: l' => if is_name ax x then 0 else S (name_index ax l') end.

(* position in an array of rank ndim of the layout item number i (not the ellipsis) *)
Definition pos_of (ndim : nat) (l : layout) (i : nat) : nat :=
  if i <? ell_index l then i else i + ndim - length l.

(* _get_named_axes: (array axis, axis name) *)
Definition named_axes (ndim : nat) (l : layout) : list (nat * nat) :=
  flat_map (fun i => match nth i l LFree with LName ax => [(pos_of ndim l i, ax)] | _ => [] end)
           (seq 0 (length l)).

(* normal orientation: the expand axis is at the far end *)
Definition ori {A} (app : bool) (l : list A) : list A := if app then l else rev l.
(* view of a shape in normal orientation, 1 beyond its rank *)
Definition vw (app : bool) (s : list nat) (i : nat) : nat := nth i (ori app s) 1.
(* bring a shape to rank n: unit axes added at / surplus axes removed from the expand side
   (_get_shared_shape; the diff<0 / diff>0 branches of check_shape; expand_dims in get) *)
Definition fit (app : bool) (n : nat) (s : list nat) : list nat := ori app (tab n (vw app s)).

(* _get_shared_axes: shape[start : len(shape) - (len(layout) - start - 1)] *)
Definition shared_axes (sh : list nat) (l : layout) : list nat :=
  let st := ell_index l in slice st (length sh - (length l - st - 1)) sh.
(* _get_broadcast_shape: shape[start:end] = shared *)
Definition bshape (S : list nat) (sh : list nat) (l : layout) : list nat :=
  let st := ell_index l in firstn st sh ++ S ++ skipn (length sh - (length l - st - 1)) sh.

Definition list_max (l : list nat) : nat := fold_right Nat.max 0 l.

Definition entry_shared (e : entry) : list nat := shared_axes (shp (e_arr e)) (e_lay e).
Definition shared_list (arrs : list (nat * entry)) (dflt : list nat) : list (list nat) :=
  map (fun p => entry_shared (snd p)) arrs ++ [dflt].
(* _update_shape: rank = max rank; entry i = max over the aligned shared parts *)
Definition calc_shape (app : bool) (sl : list (list nat)) : list nat :=
  ori app (tab (list_max (map (@length nat) sl)) (fun i => list_max (map (fun s => vw app s i) sl))).
Definition calc_shapes (S : list nat) (arrs : list (nat * entry)) : list (nat * list nat) :=
  map (fun p => (fst p, bshape S (shp (e_arr (snd p))) (e_lay (snd p)))) arrs.

Definition with_arrays (c : coll) (arrs : list (nat * entry)) (dflt : list nat) (axes : list (nat * nat)) : coll :=
  let S := calc_shape (c_app c) (shared_list arrs dflt) in
  mkC (c_app c) arrs (calc_shapes S arrs) axes dflt S.

(* get_named_axes(ignore): last writer wins = first match of the reversed list *)
Definition entry_axes (e : entry) : list (nat * nat) :=
  map (fun p => (snd p, nth (fst p) (shp (e_arr e)) 0)) (named_axes (length (shp (e_arr e))) (e_lay e)).
Definition gna (arrs : list (nat * entry)) (ign : option nat) : list (nat * nat) :=
  rev (flat_map (fun p => match ign with
                          | Some k => if k =? fst p then [] else entry_axes (snd p)
                          | None => entry_axes (snd p) end) arrs).

Definition empty_coll (app : bool) (dflt : list nat) : coll :=
  with_arrays (mkC app [] [] [] dflt []) [] dflt [].
(* ArrayCollection(expand_axis=...) *)
Definition init (app : bool) : coll := empty_coll app [1].

(* ---- check_shape *)
Definition dim_ok (d1 d2 : nat) : bool := (d1 =? 1) || (d1 =? d2) || (d2 =? 1).
Definition check_named (axes : list (nat * nat)) (sh : list nat) (l : layout) : bool :=
  forallb (fun i =>
     let d := nth (pos_of (length sh) l i) sh 0 in
     match nth i l LFree with
     | LFix n => d =? n
     | LName ax => match lookup ax axes with Some k => d =? k | None => true end
     | _ => true
     end) (seq 0 (length l)).
Definition check_common (c : coll) (sh : list nat) (l : layout) : bool :=
  (* common = shape[axis : len(shape) - (len(layout) - axis - 1)]  (the broadcast part) *)
  forallb2 dim_ok (fit (c_app c) (length (c_shape c)) (shared_axes sh l)) (c_shape c).
Definition check_shape (c : coll) (sh : list nat) (l : layout) (ign : option nat) : bool :=
  check_named (gna (c_arrays c) ign) sh l && check_common c sh l.

(* ---- _expand_and_broadcast *)
Definition expand_and_broadcast (c : coll) (a : nd) (l : layout) (bcast : bool) : res nd :=
  let S := c_shape c in
  let sh := shp a in
  let ax := ell_index l in
  let nsh := length sh + 1 - length l in
  let E := firstn ax sh ++ fit (c_app c) (length S) (slice ax (ax + nsh) sh) ++ skipn (ax + nsh) sh in
  let T := firstn ax E ++ S ++ skipn (ax + length S) E in
  if bcast && negb (shape_eqb T E)
  then match broadcast_to (mkNd E (dat a)) T with Some r => Ok r | None => Err EValue end
  else Ok (mkNd E (dat a)).

Definition get (c : coll) (name : nat) (bcast : bool) : res (option nd) :=
  match lookup name (c_arrays c) with
  | None => Ok None
  | Some e =>
      match lookup name (c_shapes c) with
      | Some s =>
          if shape_eqb (shp (e_arr e)) s then Ok (Some (e_arr e))
          else match expand_and_broadcast c (e_arr e) (e_lay e) bcast with
               | Ok r => Ok (Some r) | Err x => Err x end
      | None => Err EKey
      end
  end.

(* ---- set *)
Definition resize_named (axes : list (nat * nat)) (a : nd) (l : layout) : nd :=
  fold_left (fun arr p =>
     let size := nth (fst p) (shp arr) 0 in
     match lookup (snd p) axes with
     | Some k => if size =? k then arr else resize_array arr (Z.of_nat k - Z.of_nat size) (fst p) 0%Z
     | None => arr end) (named_axes (length (shp a)) l) a.

Definition set (c : coll) (name : nat) (a : nd) (lay : option layout) (rsz chk : bool) : res coll :=
  let l := match lay with
           | Some l => l
           | None => match lookup name (c_arrays c) with Some e => e_lay e | None => [LEll] end
           end in
  if negb (count_ell l =? 1) then Err EValue
  else if length (shp a) + 1 <? length l then Err EUnsupported
  else
    let a1 := if rsz then resize_named (gna (c_arrays c) (Some name)) a l else a in
    if chk && negb (check_shape c (shp a1) l (Some name)) then Err EValue
    else
      let arrs := set_assoc name (mkE l a1) (c_arrays c) in
      Ok (with_arrays c arrs (c_default c) (gna arrs None)).

(* ---- update: in-place branch when the value broadcasts into the raw array *)
Definition set_data (name : nat) (d : list Z) (arrs : list (nat * entry)) : list (nat * entry) :=
  map (fun p => if name =? fst p then (fst p, mkE (e_lay (snd p)) (mkNd (shp (e_arr (snd p))) d)) else p) arrs.

(* second component: did the call run _update_shape (propagation to linked collections) *)
Definition update (c : coll) (name : nat) (v : nd) (rsz : bool) : res (coll * bool) :=
  match lookup name (c_arrays c) with
  | None => Err EKey
  | Some e =>
      (* self._arrays[name][...] = array *)
      match assign_to v (shp (e_arr e)) with
      | Some d => Ok (mkC (c_app c) (set_data name d (c_arrays c)) (c_shapes c) (c_axes c)
                          (c_default c) (c_shape c), false)
      | None => match set c name v None rsz false with
                | Ok c' => Ok (c', true) | Err x => Err x end
      end
  end.

(* ---- pop: _axes is not refreshed *)
Definition pop (c : coll) (name : nat) : coll * option nd :=
  match lookup name (c_arrays c) with
  | None => (c, None)
  | Some e => (with_arrays c (del_assoc name (c_arrays c)) (c_default c) (c_axes c), Some (e_arr e))
  end.

(* ---- resize of a named axis; _shape is not recomputed, _shapes only for resized arrays *)
Definition has_name (ax : nat) (l : layout) : bool := existsb (is_name ax) l.
Definition resize_entry (ax : nat) (diff : Z) (cst : Z) (e : entry) : entry :=
  let l := e_lay e in
  if has_name ax l
  then mkE l (resize_array (e_arr e) diff (pos_of (length (shp (e_arr e))) l (name_index ax l)) cst)
  else e.
Definition resize (c : coll) (ax size : nat) (cst : Z) : res coll :=
  match lookup ax (c_axes c) with
  | None => Err EValue
  | Some cur =>
      let diff := (Z.of_nat size - Z.of_nat cur)%Z in
      if (diff =? 0)%Z then Ok c
      else
        let arrs := map (fun p => (fst p, resize_entry ax diff cst (snd p))) (c_arrays c) in
        (* for name in _arrays: if ax in layout: _shapes[name] = ... (same keys in both dicts) *)
        let shapes := map (fun q =>
            match lookup (fst q) arrs with
            | Some e => if has_name ax (e_lay e)
                        then (fst q, bshape (c_shape c) (shp (e_arr e)) (e_lay e)) else q
            | None => q end) (c_shapes c) in
        Ok (mkC (c_app c) arrs shapes (gna arrs None) (c_default c) (c_shape c))
  end.

(* ---- expand / reduce / broadcast act on _default *)
Definition expand (c : coll) (k : nat) : coll :=
  let d := if c_app c then c_shape c ++ repeat 1 k else repeat 1 k ++ c_shape c in
  with_arrays c (c_arrays c) d (c_axes c).

Definition reduce (c : coll) (k : nat) : coll :=
  let S := c_shape c in
  let n := length S in
  let d := if c_app c
           then (* shape[n-k : n+1] = [] with python's negative start *)
                firstn (if k <=? n then n - k else n + n - k) S
           else skipn k S in
  with_arrays c (c_arrays c) d (c_axes c).

Definition broadcast (c : coll) (sh : list nat) : res coll :=
  if check_shape c sh [LEll] None then Ok (with_arrays c (c_arrays c) sh (c_axes c)) else Err EValue.

(* ---- operations on one collection *)
Inductive bop : Type :=
| OSet (name : nat) (a : nd) (lay : option layout) (rsz chk : bool)
| OUpdate (name : nat) (a : nd) (rsz : bool)
| OGet (name : nat) (bcast : bool)
| OPop (name : nat)
| OResize (ax size : nat) (cst : Z)
| OExpand (k : nat)
| OReduce (k : nat)
| OBroadcast (sh : list nat).

(* new collection, whether _update_shape ran, returned array *)
Definition bstep (c : coll) (o : bop) : res (coll * bool * option nd) :=
  match o with
  | OSet name a lay rsz chk =>
      match set c name a lay rsz chk with Ok c' => Ok (c', true, None) | Err x => Err x end
  | OUpdate name a rsz =>
      match update c name a rsz with Ok (c', p) => Ok (c', p, None) | Err x => Err x end
  | OGet name b =>
      match get c name b with Ok r => Ok (c, false, r) | Err x => Err x end
  | OPop name =>
      let (c', r) := pop c name in
      Ok (c', match r with Some _ => true | None => false end, r)
  | OResize ax size cst =>
      match resize c ax size cst with Ok c' => Ok (c', false, None) | Err x => Err x end
  | OExpand k => Ok (expand c k, true, None)
  | OReduce k => Ok (reduce c k, true, None)
  | OBroadcast sh =>
      match broadcast c sh with Ok c' => Ok (c', true, None) | Err x => Err x end
  end.

(* ---- a collection with at most one linked child *)
Record state : Type := mkS { main : coll; child : option coll }.

Inductive op : Type :=
| OMain (o : bop)
| OChild (o : bop)
| OCopy
| OLink (app : bool).

(* _update_shape of the parent: other._default = self._shape; other._update_shape() *)
Definition follow (parent : coll) (ch : coll) : coll :=
  with_arrays ch (c_arrays ch) (c_shape parent) (c_axes ch).

(* copy(): fresh dicts with the same content; _linked is shared *)
Definition copy (c : coll) : coll :=
  mkC (c_app c) (c_arrays c) (c_shapes c) (c_axes c) (c_default c) (c_shape c).

Definition step (s : state) (o : op) : res (state * option nd) :=
  match o with
  | OMain b =>
      match bstep (main s) b with
      | Ok (c', p, r) =>
          Ok (mkS c' (if p then option_map (follow c') (child s) else child s), r)
      | Err x => Err x
      end
  | OChild b =>
      match child s with
      | None => Err EUnsupported
      | Some ch =>
          match bstep ch b with
          | Ok (ch', _, r) => Ok (mkS (main s) (Some ch'), r)
          | Err x => Err x
          end
      end
  | OCopy => Ok (mkS (copy (main s)) (child s), None)
  | OLink app =>
      match child s with
      | Some _ => Err EUnsupported
      | None => Ok (mkS (main s) (Some (follow (main s) (init app))), None)
      end
  end.

(* an exception leaves the collection unchanged *)
Definition step_state (s : state) (o : op) : state :=
  match step s o with Ok (s', _) => s' | Err _ => s end.
Definition run (s : state) (h : list op) : state := fold_left step_state h s.

(* ---- observations (what props/c16.py records after every call) *)
Definition get_all (c : coll) : list (nat * res (option nd)) :=
  map (fun p => (fst p, get c (fst p) true)) (c_arrays c).

Record obs : Type := mkO {
  o_res : res (option nd);
  o_shape : list nat;
  o_axes : list (nat * nat);
  o_gets : list (nat * res (option nd));
  o_child : option (list nat * list (nat * res (option nd))) }.

Definition observe (r : res (option nd)) (s : state) : obs :=
  mkO r (c_shape (main s)) (c_axes (main s)) (get_all (main s))
      (option_map (fun ch => (c_shape ch, get_all ch)) (child s)).

Fixpoint trace (s : state) (h : list op) : list obs :=
  match h with
  | [] => []
  | o :: h' =>
      match step s o with
      | Ok (s', r) => observe (Ok r) s' :: trace s' h'
      | Err x => observe (Err x) s :: trace s h'
      end
  end.

(* ---- comparison with the recorded implementation observables *)
Definition err_eqb (a b : err) : bool :=
  match a, b with
  | EValue, EValue | EKey, EKey | EIndex, EIndex | EUnsupported, EUnsupported => true
  | _, _ => false end.
Definition ond_eqb (a b : option nd) : bool :=
  match a, b with Some x, Some y => nd_eqb x y | None, None => true | _, _ => false end.
Definition res_eqb (a b : res (option nd)) : bool :=
  match a, b with Ok x, Ok y => ond_eqb x y | Err x, Err y => err_eqb x y | _, _ => false end.
Definition gets_eqb (a b : list (nat * res (option nd))) : bool :=
  list_eqb (fun p q => (fst p =? fst q) && res_eqb (snd p) (snd q)) a b.
Definition oeq {A} (eqb : A -> A -> bool) (a b : option A) : bool :=
  match a, b with Some x, Some y => eqb x y | None, None => true | _, _ => false end.
(* dicts are compared through lookups of the (few) axis names in use *)
Definition axes_eqb (a b : list (nat * nat)) : bool :=
  forallb (fun k => oeq Nat.eqb (lookup k a) (lookup k b)) (seq 0 4).
Definition obs_eqb (a b : obs) : bool :=
  res_eqb (o_res a) (o_res b) && shape_eqb (o_shape a) (o_shape b) && axes_eqb (o_axes a) (o_axes b)
  && gets_eqb (o_gets a) (o_gets b)
  && oeq (fun p q => shape_eqb (fst p) (fst q) && gets_eqb (snd p) (snd q)) (o_child a) (o_child b).

Definition start (app : bool) : state := mkS (init app) None.
Definition trace_ok (app : bool) (h : list op) (expected : list obs) : bool :=
  list_eqb obs_eqb (trace (start app) h) expected.
(* which calls disagree (diagnostics) *)
Definition trace_cmp (app : bool) (h : list op) (expected : list obs) : list bool :=
  map (fun p => obs_eqb (fst p) (snd p)) (combine (trace (start app) h) expected).
