(* C16 stub: to be written *)
