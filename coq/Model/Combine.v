(* C10 stub: to be written *)
