(* C10: nesting / '*' grouping (flatten_sequence, MultiOperator) and '@' combination
   (scalar_combine / matrix_combine) on the generic 1-D model. *)
From Coq Require Import List ZArith QArith Lia Bool Arith.
From EPG Require Import Scalar State Ops Diff.
Import ListNotations.

Section Combine.
Variable S : ScalOps.
Notation triple := (triple S).
Notation mat3 := (mat3 S).
Notation sm := (sm S).

(* ---- nested sequences: lists within lists, MultiOperators ('*' grouping) ---- *)
Inductive seqtree : Type :=
| Leaf (o : op S) (duration : Q) (nshift : nat) (shape : list nat)
| Node (items : list seqtree)          (* a (nested) Python list *)
| Multi (items : list seqtree).        (* a MultiOperator: '*' flattens nested MultiOperators on append *)

Fixpoint flatten (t : seqtree) : list (op S) :=
  match t with
  | Leaf o _ _ _ => [o]
  | Node l => flat_map flatten l
  | Multi l => flat_map flatten l
  end.

(* applying a nested structure directly: lists are iterated, a MultiOperator applies its members in order *)
Fixpoint run_tree (t : seqtree) (s : sm) : sm :=
  match t with
  | Leaf o _ _ _ => apply o s
  | Node l => fold_left (fun s t' => run_tree t' s) l s
  | Multi l => fold_left (fun s t' => run_tree t' s) l s
  end.

Fixpoint tree_duration (t : seqtree) : Q :=
  match t with
  | Leaf _ d _ _ => d
  | Node l => fold_left (fun a t' => (a + tree_duration t')%Q) l 0%Q
  | Multi l => fold_left (fun a t' => (a + tree_duration t')%Q) l 0%Q
  end.
Fixpoint tree_nshift (t : seqtree) : nat :=
  match t with
  | Leaf _ _ n _ => n
  | Node l => fold_left (fun a t' => a + tree_nshift t')%nat l 0%nat
  | Multi l => fold_left (fun a t' => a + tree_nshift t')%nat l 0%nat
  end.
Fixpoint leaves (t : seqtree) : list (Q * nat) :=
  match t with
  | Leaf _ d n _ => [(d, n)]
  | Node l => flat_map leaves l
  | Multi l => flat_map leaves l
  end.

(* ---- '@' : one operator equivalent to op1 then op2 ---- *)
Definition omat (f : mat3 -> mat3) (o : option mat3) : option mat3 :=
  match o with Some a => Some (f a) | None => None end.

(* matrix_combine(mat1, mat2, mat01, mat02): mat = mat2 mat1; mat0 = mat2 mat01 (+ mat02) *)
Definition matrix_combine (m1 : mat3) (m01 : option mat3) (m2 : mat3) (m02 : option mat3) : mat3 * option mat3 :=
  (mmul m2 m1,
   match m01, m02 with
   | None, None => None
   | None, Some b => Some b
   | Some a, None => Some (mmul m2 a)
   | Some a, Some b => Some (madd (mmul m2 a) b)
   end).

(* scalar_combine: element-wise *)
Definition scalar_combine (a1 : triple) (a01 : option triple) (a2 : triple) (a02 : option triple) : triple * option triple :=
  (sv a2 a1,
   match a01, a02 with
   | None, None => None
   | None, Some b => Some b
   | Some a, None => Some (sv a2 a)
   | Some a, Some b => Some (tadd (sv a2 a) b)
   end).

(* ScalarOp.mat / mat0 (as_matrix): diagonal matrices, used when a ScalarOp meets a MatrixOp *)
Definition as_mat (l : lin S) : option (mat3 * option mat3) :=
  match l with
  | LScalar a a0 => Some (mdiag a, match a0 with Some b => Some (mdiag b) | None => None end)
  | LMatrix m m0 => Some (m, m0)
  | LShift _ _ => None
  end.

(* op1 @ op2 : ScalarOp with ScalarOp stays scalar; anything involving a MatrixOp becomes a MatrixOp;
   shifts are not combinable *)
Definition combine_lin (l1 l2 : lin S) : option (lin S) :=
  match l1, l2 with
  | LScalar a1 a01, LScalar a2 a02 =>
      let r := scalar_combine a1 a01 a2 a02 in Some (LScalar (fst r) (snd r))
  | _, _ =>
      match as_mat l1, as_mat l2 with
      | Some (m1, m01), Some (m2, m02) =>
          let r := matrix_combine m1 m01 m2 m02 in Some (LMatrix (fst r) (snd r))
      | _, _ => None
      end
  end.

(* executable comparison of operator arrays (correspondence) *)
Definition meqb (a b : mat3) : bool := teqb (row0 a) (row0 b) && teqb (row1 a) (row1 b) && teqb (row2 a) (row2 b).
Definition oeqb {A} (f : A -> A -> bool) (x y : option A) : bool :=
  match x, y with Some a, Some b => f a b | None, None => true | _, _ => false end.
Definition lin_eqb (a b : lin S) : bool :=
  match a, b with
  | LScalar x x0, LScalar y y0 => teqb x y && oeqb teqb x0 y0
  | LMatrix x x0, LMatrix y y0 => meqb x y && oeqb meqb x0 y0
  | _, _ => false
  end.
(* left-associated chain l1 @ l2 @ ... *)
Fixpoint combine_chain (acc : lin S) (ls : list (lin S)) : option (lin S) :=
  match ls with
  | [] => Some acc
  | l :: r => match combine_lin acc l with Some c => combine_chain c r | None => None end
  end.
Definition chain_ok (l1 : lin S) (ls : list (lin S)) (obs : lin S) : bool :=
  match combine_chain l1 ls with Some c => lin_eqb c obs | None => false end.

End Combine.

Arguments Leaf {S}. Arguments Node {S}. Arguments Multi {S}.
Arguments flatten {S}. Arguments run_tree {S}. Arguments combine_lin {S}.
Arguments matrix_combine {S}. Arguments scalar_combine {S}. Arguments chain_ok {S}. Arguments lin_eqb {S}. Arguments combine_chain {S}.
