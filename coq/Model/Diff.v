(* Differentiation bookkeeping of epgpy/diff.py, transcribed literally:
   DiffOperator.__call__, _apply_order1, _apply_order2, combine_partials, accumulate,
   derive0 / derive1 / derive2, parameters_order1 / parameters_order2, Jacobian / Hessian probes.
   Python dicts are association lists with unique keys (insertion order kept);
   variables and parameters are natural numbers (variables: rank in Python's string order,
   which is what the comparisons v1 >= v2 / Pair sorting in _apply_order2 use). *)
From Coq Require Import List ZArith Lia Bool Arith.
From EPG Require Import Scalar State Ops.
Import ListNotations.

Section Diff.
Variable S : ScalOps.
Notation triple := (triple S).
Notation mat3 := (mat3 S).
Notation sm := (sm S).

Definition var := nat.
Definition param := nat.
Definition pair := (nat * nat)%type.
Definition Pair (a b : nat) : pair := if b <? a then (b, a) else (a, b).
Definition pair_eqb (x y : pair) : bool := Nat.eqb (fst x) (fst y) && Nat.eqb (snd x) (snd y).

(* ---- association lists ---- *)
Section Assoc.
Context {Kt V : Type} (eqb : Kt -> Kt -> bool).
Fixpoint alookup (k : Kt) (d : list (Kt * V)) : option V :=
  match d with [] => None | (k', v) :: t => if eqb k k' then Some v else alookup k t end.
Definition amem (k : Kt) (d : list (Kt * V)) : bool :=
  match alookup k d with Some _ => true | None => false end.
(* dict1[k] = f(old) if present else append *)
Fixpoint aupsert (k : Kt) (v : V) (f : V -> V) (d : list (Kt * V)) : list (Kt * V) :=
  match d with
  | [] => [(k, v)]
  | (k', v') :: t => if eqb k k' then (k', f v') :: t else (k', v') :: aupsert k v f t
  end.
End Assoc.

(* ---- the linear part of an operator: ScalarOp / MatrixOp arrays, or a 1-D shift ---- *)
Inductive lin : Type :=
| LScalar (a : triple) (a0 : option triple)
| LMatrix (m : mat3) (m0 : option mat3)
| LShift (d : Z) (nmax : option nat).

Definition lin_op (l : lin) : op S :=
  match l with
  | LScalar a a0 => OScalar a a0
  | LMatrix m m0 => OMatrix m m0
  | LShift d n => OShift d n
  end.
Definition apply_lin (l : lin) (s : sm) : sm := apply (lin_op l) s.

Definition zero_equ (s : sm) : sm := mkSM (st s) (map (fun _ => t0) (equ s)).

(* StateMatrix * coeff  and  StateMatrix += StateMatrix (numpy broadcast when the addend has one state) *)
Definition sm_scale (c : S) (s : sm) : sm := mkSM (map (tscale c) (st s)) (equ s).
Definition sm_add (a b : sm) : sm :=
  match st b with
  | [x] => mkSM (map (fun y => tadd y x) (st a)) (equ a)
  | _ => mkSM (tab (length (st a)) (fun i => tadd (nth i (st a) t0) (nth i (st b) t0))) (equ a)
  end.
(* the in-place addition is feasible iff shapes broadcast *)
Definition sm_add_ok (a b : sm) : bool :=
  Nat.eqb (length (st b)) 1 || Nat.eqb (length (st a)) (length (st b)).

Record dop : Type := mkDop {
  d_lin : lin;
  d_darrs : list (param * lin);                 (* dO/dparam (with recovery part) *)
  d_d2arrs : list (pair * lin);                 (* d2O/dp dq, keyed by the sorted pair *)
  d_order1 : list (var * list (param * S));     (* self.order1 : var -> {param: coeff} *)
  d_order2 : list (pair * list (param * S));    (* self.order2 : Pair(var,var) -> {param: coeff} *)
  d_auto : bool;                                (* auto_cross_derivatives *)
  d_params2 : list pair                         (* PARAMETERS_ORDER2 (sorted pairs) *)
}.

Record dstate : Type := mkD {
  d_main : sm;
  d_p1 : list (var * sm);
  d_p2 : list (pair * sm);
  d_ok : bool            (* false once an in-place += would have raised *)
}.

Definition derive0 (o : dop) (s : sm) : sm := apply_lin (d_lin o) s.
Definition derive1 (o : dop) (s : sm) (p : param) : option sm :=
  match alookup Nat.eqb p (d_darrs o) with
  | Some l => Some (zero_equ (apply_lin l s))
  | None => None
  end.
Definition derive2 (o : dop) (s : sm) (pq : pair) : option sm :=
  match alookup pair_eqb (Pair (fst pq) (snd pq)) (d_d2arrs o) with
  | Some l => Some (zero_equ (apply_lin l s))
  | None => None
  end.

(* accumulate one entry; returns the dictionary and whether the += was feasible *)
Definition acc1 {Kt} (eqb : Kt -> Kt -> bool) (k : Kt) (v : sm) (dk : list (Kt * sm) * bool) :=
  let (d, ok) := dk in
  match alookup eqb k d with
  | Some old => (aupsert eqb k v (fun o => sm_add o v) d, ok && sm_add_ok old v)
  | None => (d ++ [(k, v)], ok)
  end.

(* combine_partials(variables, partials) *)
Definition combine_partials {Kv Kp} (eqv : Kv -> Kv -> bool) (eqp : Kp -> Kp -> bool)
  (variables : list (Kv * list (Kp * S))) (partials : list (Kp * sm)) : list (Kv * sm) * bool :=
  fold_left (fun acc vp =>
    fold_left (fun acc pc =>
      match alookup eqp (fst pc) partials with
      | Some s => acc1 eqv (fst vp) (sm_scale (snd pc) s) acc
      | None => acc
      end) (snd vp) acc) variables ([], true).

(* accumulate(dict1, *dicts) *)
Definition accumulate {Kt} (eqb : Kt -> Kt -> bool) (d1 : list (Kt * sm) * bool) (ds : list (list (Kt * sm) * bool)) :=
  fold_left (fun acc other =>
    let acc' := fold_left (fun a kv => acc1 eqb (fst kv) (snd kv) a) (fst other) acc in
    (fst acc', snd acc' && snd other)) ds d1.

Fixpoint dedup {A} (eqb : A -> A -> bool) (l : list A) : list A :=
  match l with
  | [] => []
  | x :: t => if existsb (eqb x) t then dedup eqb t else x :: dedup eqb t
  end.

(* parameters used by self.order1 *)
Definition parameters_order1 (o : dop) : list param :=
  dedup Nat.eqb (flat_map (fun vp => map fst (snd vp)) (d_order1 o)).

Definition order1_get (o : dop) (v : var) : list (param * S) :=
  match alookup Nat.eqb v (d_order1 o) with Some l => l | None => [] end.

(* parameters_order2: valid parameter pairs reached by the declared variable pairs *)
Definition parameters_order2 (o : dop) : list pair :=
  dedup pair_eqb (flat_map (fun vc =>
    let '(v1, v2) := fst vc in
    flat_map (fun p1 => flat_map (fun p2 =>
      if existsb (pair_eqb (Pair (fst p1) (fst p2))) (d_params2 o) then [Pair (fst p1) (fst p2)] else [])
      (order1_get o v2)) (order1_get o v1)) (d_order2 o)).

Definition filter_some {A B} (l : list (A * option B)) : list (A * B) :=
  flat_map (fun kv => match snd kv with Some v => [(fst kv, v)] | None => [] end) l.

Definition apply_order1 (o : dop) (s : sm) (order1 : list (var * sm)) : list (var * sm) * bool :=
  let previous := map (fun vs => (fst vs, derive0 o (snd vs))) order1 in
  let partials := filter_some (map (fun p => (p, derive1 o s p)) (parameters_order1 o)) in
  let current := combine_partials Nat.eqb Nat.eqb (d_order1 o) partials in
  accumulate Nat.eqb (previous, true) [current].

Definition dict_set {Kt V} (eqb : Kt -> Kt -> bool) (k : Kt) (v : V) (d : list (Kt * V)) : list (Kt * V) :=
  aupsert eqb k v (fun _ => v) d.

Definition apply_order2 (o : dop) (s : sm) (order1 : list (var * sm)) (order2 : list (pair * sm))
  : list (pair * sm) * bool :=
  (* previous second-order partials *)
  let previous := map (fun ps => (fst ps, derive0 o (snd ps))) order2 in
  (* second-order coefficient of the variables times first derivative of the operator *)
  let params1 := dedup Nat.eqb (flat_map (fun pc => map fst (snd pc)) (d_order2 o)) in
  let partials1 := filter_some (map (fun p => (p, derive1 o s p)) params1) in
  let coefterm := combine_partials pair_eqb Nat.eqb (d_order2 o) partials1 in
  (* second derivatives of the operator *)
  let partials2 := filter_some (map (fun pq => (pq, derive2 o s pq)) (parameters_order2 o)) in
  (* coeffs[Pair(p1,p2)] = coeffs.get(Pair(p1,p2), 0) + c1*c2 : colliding products accumulate *)
  let coeffs2 := map (fun vc =>
      let '(v1, v2) := fst vc in
      (Pair v1 v2,
       fold_left (fun d p1 => fold_left (fun d p2 =>
           aupsert pair_eqb (Pair (fst p1) (fst p2)) (kadd k0 (kmul (snd p1) (snd p2)))
                   (fun old => kadd old (kmul (snd p1) (snd p2))) d) (order1_get o v2) d)
         (order1_get o v1) [])) (d_order2 o) in
  let current := combine_partials pair_eqb pair_eqb coeffs2 partials2 in
  (* cross terms: first derivative of the operator on previous first-order partials *)
  let vars_cross :=
    if d_auto o then dedup pair_eqb (flat_map (fun v1 => map (fun v2 => Pair (fst v1) (fst v2)) order1) (d_order1 o))
    else map fst (d_order2 o) in
  let params_cross := dedup Nat.eqb (flat_map (fun pq =>
      map fst (order1_get o (fst pq)) ++ map fst (order1_get o (snd pq))) vars_cross) in
  let partialsx := filter_some (flat_map (fun vs => map (fun p => ((p, fst vs), derive1 o (snd vs) p)) params_cross) order1) in
  let mk (cmp : nat -> nat -> bool) :=
    flat_map (fun v1 => flat_map (fun v2 =>
       if existsb (pair_eqb (Pair (fst v1) (fst v2))) vars_cross && cmp (fst v1) (fst v2)
       then [(Pair (fst v1) (fst v2), map (fun pc => ((fst pc, fst v1), snd pc)) (snd v2))] else [])
       (d_order1 o)) order1 in
  (* a dict comprehension keyed by Pair(v1,v2): later entries overwrite *)
  let as_dict (l : list (pair * list (pair * S))) :=
    fold_left (fun d kv => dict_set pair_eqb (fst kv) (snd kv) d) l [] in
  let cross1 := combine_partials pair_eqb pair_eqb (as_dict (mk (fun a b => b <=? a))) partialsx in
  let cross2 := combine_partials pair_eqb pair_eqb (as_dict (mk (fun a b => a <=? b))) partialsx in
  accumulate pair_eqb (previous, true) [coefterm; current; cross1; cross2].

Definition nonempty {A} (l : list A) : bool := match l with [] => false | _ => true end.

(* DiffOperator.__call__ (T, Phi, E, P, R, S, ScalarOp, MatrixOp) *)
Definition dapply (o : dop) (ds : dstate) : dstate :=
  let s := d_main ds in
  let r2 := if nonempty (d_p2 ds) || nonempty (d_order2 o)
            then apply_order2 o s (d_p1 ds) (d_p2 ds) else (d_p2 ds, true) in
  let r1 := if nonempty (d_p1 ds) || nonempty (d_order1 o)
            then apply_order1 o s (d_p1 ds) else (d_p1 ds, true) in
  mkD (apply_lin (d_lin o) s) (fst r1) (fst r2) (d_ok ds && snd r1 && snd r2).

Inductive dinstr : Type :=
| DOp (o : dop)           (* differentiable operator *)
| DPlain (o : op S).      (* Operator.__call__: the operator also acts on every partial derivative *)

(* Operator._apply_partial: the operator itself (the equilibrium of a partial derivative is zero, so only its linear
   part acts); PD overrides it: the density is a constant, its partials stay (reset=False) or become zero *)
Definition apply_partial (o : op S) (s : sm) : sm :=
  match o with
  | OPD _ r => if r then mkSM (map (fun _ => t0) (st s)) (equ s) else s
  | _ => apply o s
  end.
Definition map_partials {Kt} (o : op S) (l : list (Kt * sm)) : list (Kt * sm) :=
  map (fun kv => (fst kv, apply_partial o (snd kv))) l.

Definition dstep (i : dinstr) (ds : dstate) : dstate :=
  match i with
  | DOp o => dapply o ds
  | DPlain o => mkD (apply o (d_main ds)) (map_partials o (d_p1 ds)) (map_partials o (d_p2 ds)) (d_ok ds)
  end.
Definition drun (prog : list dinstr) (ds : dstate) : dstate := fold_left (fun d i => dstep i d) prog ds.
Definition dinit (s : sm) : dstate := mkD s [] [] true.

(* probes *)
Definition f0 (s : sm) : S := fp (centre (st s)).
Definition jacobian (ds : dstate) (vars : list var) : list S :=
  map (fun v => match alookup Nat.eqb v (d_p1 ds) with Some s => f0 s | None => k0 end) vars.
Definition hessian (ds : dstate) (vars : list var) : list (list S) :=
  map (fun v1 => map (fun v2 =>
     match alookup pair_eqb (Pair v1 v2) (d_p2 ds) with Some s => f0 s | None => k0 end) vars) vars.

(* comparison helpers for the correspondence *)
Definition klist_eqb (x y : list S) : bool := all2 keqb x y.
Definition assoc_eqb {Kt} (eqb : Kt -> Kt -> bool) (model : list (Kt * sm)) (obs : list (Kt * sm)) : bool :=
  Nat.eqb (length model) (length obs) &&
  forallb (fun kv => match alookup eqb (fst kv) model with
                     | Some s => sm_eqb s (snd kv) | None => false end) obs.
Definition dstate_eqb (a : dstate) (main : sm) (o1 : list (var * sm)) (o2 : list (pair * sm)) : bool :=
  d_ok a && sm_eqb (d_main a) main && assoc_eqb Nat.eqb (d_p1 a) o1 && assoc_eqb pair_eqb (d_p2 a) o2.

End Diff.

Arguments LScalar {S}. Arguments LMatrix {S}. Arguments LShift {S}.
Arguments mkDop {S}. Arguments mkD {S}. Arguments DOp {S}. Arguments DPlain {S}.
Arguments drun {S}. Arguments dstep {S}. Arguments apply_partial {S}. Arguments map_partials {S} {Kt}. Arguments dapply {S}. Arguments dinit {S}.
Arguments jacobian {S}. Arguments hessian {S}. Arguments dstate_eqb {S}.
Arguments d_main {S}. Arguments d_p1 {S}. Arguments d_p2 {S}. Arguments d_ok {S}.
Arguments apply_order1 {S}. Arguments apply_order2 {S}. Arguments apply_lin {S}.
Arguments sm_add {S}. Arguments sm_scale {S}. Arguments zero_equ {S}.
