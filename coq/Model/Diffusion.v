(* C05 stub: to be written *)
