(* C05: model of epgpy/diffusion.py  D._apply.

   (a) structure (generic scalar): with per-state attenuation factors DT (transverse) and DL (longitudinal),
         states[..., 0] = DT * states[..., 0]
         states[..., 2] = DL * states[..., 2]
         states[..., 1] = states[..., ::-1, 0].conj()          (F- rebuilt from the UPDATED F+, mirrored)
       [d_apply_idx] takes the factors per array index (this is what is executed against the implementation's own
       exp() values), [d_apply] takes them as functions of the signed phase-state number k = index - nstate (this is
       what the pathway theorem is about).
   (b) b-matrices (rationals, executed): bL from sm.k, bT from the linear ramp (sm.k - shift -> sm.k) with
       shift = self.k * sm.kvalue, or bT = bL when self.k is None; sm.k = coords * kvalue; entry formulas are the
       GENERATED rational twins bmatQ / bmat_constQ of Gen/Diffusion.v. *)
From Coq Require Import List ZArith QArith Qabs Qcanon Lia Bool.
From EPG Require Import Scalar QI State Ops.
From EPG.Gen Require Import Diffusion.
Import ListNotations.

Section DModel.
Variable S : ScalOps.
Notation triple := (triple S).
Notation sm := (sm S).

Definition d_apply_list (aT aL : nat -> S) (l : list triple) : list triple :=
  let N := length l in
  tab N (fun i =>
    mk3 (aT i * fp (nth i l t0))%K
        (kconj (aT (N - 1 - i)%nat * fp (nth (N - 1 - i) l t0))%K)
        (aL i * fz (nth i l t0))%K).

Definition d_apply_idx (aT aL : nat -> S) (s : sm) : sm :=
  mkSM (d_apply_list aT aL (st s)) (equ s).

(* 1-D: state index i holds phase state k = i - nstate *)
Definition d_apply (aT aL : Z -> S) (s : sm) : sm :=
  let n := Z.of_nat ((length (st s) - 1) / 2) in
  d_apply_idx (fun i => aT (Z.of_nat i - n)%Z) (fun i => aL (Z.of_nat i - n)%Z) s.

(* one [RF matrix, integer shift, diffusion] block of a sequence *)
Record block : Type := mkB { b_rf : mat3 S; b_d : Z; b_aT : Z -> S; b_aL : Z -> S }.
Definition apply_block (B : block) (s : sm) : sm :=
  d_apply (b_aT B) (b_aL B) (apply (OShift (b_d B) None) (apply (OMatrix (b_rf B) None) s)).
Definition run_blocks (bs : list block) (s : sm) : sm := fold_left (fun s B => apply_block B s) bs s.

End DModel.

Arguments d_apply_list {S}. Arguments d_apply_idx {S}. Arguments d_apply {S}.
Arguments mkB {S}. Arguments b_rf {S}. Arguments b_d {S}. Arguments b_aT {S}. Arguments b_aL {S}.
Arguments apply_block {S}. Arguments run_blocks {S}.

(* ------------------------------------------------------------------ executed side (rationals) *)
Local Open Scope Q_scope.

(* sm.k = coords * kvalue (scalar kvalue) *)
Definition ks_of (kvalue : Q) (coords : list (list Q)) : list (list Q) :=
  map (map (fun c => c * kvalue)) coords.
(* sm.k with a vector kvalue: coords * kvalue[:kdim], axis by axis *)
Definition ks_ofv (kvalues : list Q) (coords : list (list Q)) : list (list Q) :=
  map (fun c => map (fun p => fst p * snd p) (combine c kvalues)) coords.
(* shift = self.k * sm.kvalue; a SCALAR self.k on kdim > 1 coordinates acts along the first axis only
   (shift * [1, 0, ..., 0]), an array self.k axis by axis *)
Definition shift_scalar (k : Q) (kvalues : list Q) : list Q :=
  match kvalues with [] => [] | kv0 :: r => (k * kv0) :: map (fun _ => 0) r end.
Definition shift_vector (k kvalues : list Q) : list Q := map (fun p => fst p * snd p) (combine k kvalues).
(* a per-axis kvalue may be longer than the state's wavenumber dimension: kvalue[:kdim], kdim = shape(sm.k)[-1]
   (ks_ofv truncates the same way through [combine]) *)
Definition kdim_of (coords : list (list Q)) : nat := length (hd [] coords).
Definition shift_scalar_on (k : Q) (kvalues : list Q) (coords : list (list Q)) : list Q :=
  shift_scalar k (firstn (kdim_of coords) kvalues).
Definition shift_vector_on (k kvalues : list Q) (coords : list (list Q)) : list Q :=
  shift_vector k (firstn (kdim_of coords) kvalues).
(* 1-D state matrix without coords: _setup_coords(nstate, 1) = [[-n], ..., [n]] *)
Definition coords1 (len : nat) : list (list Q) :=
  tab len (fun i => [inject_Z (Z.of_nat i - Z.of_nat ((len - 1) / 2))]).

Definition bmat_of (tau : Q) (k1 k2 : list Q) : list (list Q) :=
  map (fun a => map (fun b => bmatQ tau (fst a) (fst b) (snd a) (snd b)) (combine k1 k2)) (combine k1 k2).
Definition bmatc_of (tau : Q) (k1 : list Q) : list (list Q) :=
  map (fun a => map (fun b => bmat_constQ tau a b) k1) k1.
Definition vsub (a b : list Q) : list Q := map (fun p => fst p - snd p) (combine a b).

(* D._apply, b-matrix part: per state (bL, bT) *)
Definition d_bmats (tau : Q) (shift : option (list Q)) (ks : list (list Q)) : list (list (list Q) * list (list Q)) :=
  map (fun k => (bmatc_of tau k,
                 match shift with None => bmatc_of tau k | Some sh => bmat_of tau (vsub k sh) k end)) ks.

(* comparison with the implementation's binary64 b-matrices: |x - y| <= tol * (1 + |y|) *)
Definition q_close (tol x y : Q) : bool := Qle_bool (Qabs (x - y)) (tol * (1 + Qabs y)).
Fixpoint all2q {A B} (f : A -> B -> bool) (x : list A) (y : list B) : bool :=
  match x, y with
  | [], [] => true
  | u :: x', v :: y' => f u v && all2q f x' y'
  | _, _ => false
  end.
Definition mat_close (tol : Q) (a b : list (list Q)) : bool := all2q (all2q (q_close tol)) a b.
Definition bmats_ok (tol tau : Q) (shift : option (list Q)) (ks : list (list Q))
    (obsL obsT : list (list (list Q))) : bool :=
  let m := d_bmats tau shift ks in
  all2q (mat_close tol) (map fst m) obsL && all2q (mat_close tol) (map snd m) obsT.

(* states after D._apply, with the implementation's own factors, compared with relative tolerance
   |x - y|^2 <= tol^2 (1 + |y|^2) per component *)
Definition qi_abs2 (x : QI) : Qc := (fst x * fst x + snd x * snd x)%Qc.
Definition qi_close (tol : Qc) (x y : QI) : bool :=
  Qle_bool (this (qi_abs2 (qi_sub x y))) (this (tol * tol * (Q2Qc 1 + qi_abs2 y))%Qc).
Definition t_close (tol : Qc) (x y : triple QIops) : bool :=
  qi_close tol (fp x) (fp y) && qi_close tol (fm x) (fm y) && qi_close tol (fz x) (fz y).
Definition d_states_ok (tol : Qc) (DT DL : list QI) (pre post : list (triple QIops)) : bool :=
  Nat.eqb (length DT) (length pre) && Nat.eqb (length DL) (length pre) &&
  all2q (t_close tol) (@d_apply_list QIops (fun i => nth i DT qi0) (fun i => nth i DL qi0) pre) post.

(* side condition of C08_wf_run_with_diffusion on the implementation's own longitudinal factors:
   DL is real and even about the centre state (DL[i] = conj DL[N-1-i]), up to the same relative tolerance *)
Definition dl_even_ok (tol : Qc) (DL : list QI) : bool :=
  all2q (qi_close tol) DL (rev (map qi_conj DL)).
