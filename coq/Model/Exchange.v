(* C06 stub: to be written *)
