(* C06 -- model of epgpy/exchange.py (operator X, exchange_matrix, exchange_operator).
   Generic over the scalars [S : ScalOps] plus an inverse [inv : S -> S] (a field) and the
   constant [twopii] = 2 pi i.  Matrices over N compartments are index functions
   [nat -> nat -> S] (entries outside [0,N) are irrelevant); n-d arrays are (shape, row-major data)
   accessed index-wise with numpy's "size 1 -> index 0" broadcasting, LEFT aligned as everywhere in
   epgpy (common.broadcastable(..., append=True)).
   The matrix exponential is NOT modelled: the operator's [mat] array is an input of [x_apply]
   (injected from the implementation), and [x_generator] is the array handed to [expm]. *)
From Coq Require Import List ZArith Lia Bool Arith.
From EPG Require Import Scalar State.
Import ListNotations.

Section Exchange.
Variable S : ScalOps.

(* ---------------------------------------------------------------- finite sums, N x N matrices *)
Fixpoint ksum (n : nat) (f : nat -> S) : S :=
  match n with O => k0 | Datatypes.S m => (ksum m f + f m)%K end.

Definition matN : Type := nat -> nat -> S.
Definition delta (i j : nat) : S := if Nat.eqb i j then k1 else k0.
Definition midN : matN := delta.
Definition diagN (d : nat -> S) : matN := fun i j => (d i * delta i j)%K.
Definition mmulN (n : nat) (A B : matN) : matN := fun i j => ksum n (fun l => A i l * B l j)%K.
Definition mvN (n : nat) (A : matN) (v : nat -> S) : nat -> S := fun i => ksum n (fun j => A i j * v j)%K.
Definition conjN (A : matN) : matN := fun i j => kconj (A i j).
Definition moppN (A : matN) : matN := fun i j => (- A i j)%K.
Definition of_rows (l : list (list S)) : matN := fun i j => nth j (nth i l []) k0.
Definition colsum (n : nat) (A : matN) (j : nat) : S := ksum n (fun i => A i j).

Fixpoint knat (n : nat) : S := match n with O => k0 | Datatypes.S m => (knat m + k1)%K end.

(* ---------------------------------------------------------------- exchange_matrix (exchange.py:127-151)
   kron = eye(n) + (eye(n) - 1)/(n - 1);  kron /= densities (last axis);  k * kron *)
Variable inv : S -> S.

Definition kron (n : nat) (dens : option (nat -> S)) : matN := fun i j =>
  let e := (delta i j + (delta i j - k1) * inv (knat (n - 1)))%K in
  match dens with None => e | Some d => (e * inv (d j))%K end.
Definition exchange_matrix (k : S) (n : nat) (dens : option (nat -> S)) : matN :=
  fun i j => (k * kron n dens i j)%K.

(* ---------------------------------------------------------------- generators (exchange.py:185-187)
   xT = -khi + (-1/T2 + 2j pi g)[..., NAX] * eye ;  xL = -khi + (-1/T1)[..., NAX] * eye ;  1/inf = 0 *)
Variable twopii : S.
Definition rate_inv (T : option S) : S := match T with None => k0 | Some t => inv t end.
Definition rateT (T2 : option S) (g : S) : S := (- rate_inv T2 + twopii * g)%K.
Definition rateL (T1 : option S) : S := (- rate_inv T1)%K.
Definition xiT (khi : matN) (T2 : nat -> option S) (g : nat -> S) : matN :=
  fun i j => (- khi i j + rateT (T2 i) (g i) * delta i j)%K.
Definition xiL (khi : matN) (T1 : nat -> option S) : matN :=
  fun i j => (- khi i j + rateL (T1 i) * delta i j)%K.

(* ---------------------------------------------------------------- X._apply on one fibre
   (N compartments x phase states, all other batch indices fixed): mat . (states - equilibrium) + equilibrium,
   with [mT, conj mT, mL] acting on F+, F-, Z. *)
Definition fibre : Type := nat -> nat -> triple S.     (* compartment j, phase-state index k *)

Definition x_apply_fibre (n : nat) (MT MC ML : matN) (st eq : fibre) : fibre := fun i k =>
  mk3 (ksum n (fun j => MT i j * (fp (st j k) - fp (eq j k))) + fp (eq i k))%K
      (ksum n (fun j => MC i j * (fm (st j k) - fm (eq j k))) + fm (eq i k))%K
      (ksum n (fun j => ML i j * (fz (st j k) - fz (eq j k))) + fz (eq i k))%K.

(* conservation test of X._apply:  khi . density = 0 (one fibre) *)
Definition conservesb (n : nat) (khi : matN) (dens : nat -> S) : bool :=
  forallb (fun i => keqb (ksum n (fun j => khi i j * dens j)%K) k0) (seq 0 n).

(* ---------------------------------------------------------------- n-d arrays *)
Definition prodl (l : list nat) : nat := fold_right Nat.mul 1%nat l.
Fixpoint ravel (shape idx : list nat) (acc : nat) : nat :=
  match shape, idx with
  | d :: sh, i :: ix => ravel sh ix (acc * d + (if Nat.eqb d 1 then 0 else i))
  | _, _ => acc
  end.
Fixpoint unravel (shape : list nat) (n : nat) : list nat :=
  match shape with
  | [] => []
  | d :: sh => (n / prodl sh) :: unravel sh (n mod prodl sh)
  end.
Definition get (shape : list nat) (data : list S) (idx : list nat) : S := nth (ravel shape idx 0) data k0.
Fixpoint set_at (p v : nat) (l : list nat) : list nat :=
  match l, p with
  | [], _ => []
  | _ :: t, O => v :: t
  | h :: t, Datatypes.S q => h :: set_at q v t
  end.
Fixpoint insert_at (p v : nat) (l : list nat) : list nat :=
  match p, l with
  | O, _ => v :: l
  | Datatypes.S q, h :: t => h :: insert_at q v t
  | Datatypes.S q, [] => [v]
  end.
(* left-aligned broadcast of two shapes (None: incompatible) *)
Fixpoint bshape (a b : list nat) : option (list nat) :=
  match a, b with
  | [], _ => Some b
  | _, [] => Some a
  | x :: a', y :: b' =>
      match bshape a' b' with
      | None => None
      | Some r => if Nat.eqb x y then Some (x :: r) else if Nat.eqb x 1 then Some (y :: r)
                  else if Nat.eqb y 1 then Some (x :: r) else None
      end
  end.
Definition all_idx (shape : list nat) : list (list nat) := map (unravel shape) (seq 0 (prodl shape)).

(* ---------------------------------------------------------------- constructor guards (exchange.py:44-56) *)
Inductive guard := GOk (axis : nat) | GErrNdim | GErrSquare | GErrColumns.

Definition norm_axis (len : nat) (axis : Z) : nat :=
  if (axis <? 0)%Z then Z.to_nat (Z.of_nat len + axis) else Z.to_nat axis.

Definition x_guard (khishape : list nat) (khi : list S) (axis : Z) : guard :=
  if length khishape <? 2 then GErrNdim else
  let bs := removelast khishape in
  let n := last khishape 0 in
  let ax := norm_axis (length bs) axis in
  if negb (Nat.eqb (nth ax bs 0) n) then GErrSquare else
  if forallb (fun idx => forallb (fun j =>
        keqb (ksum n (fun i => get khishape khi (set_at ax i idx ++ [j]))) k0) (seq 0 n))
       (all_idx (set_at ax 1 bs))
  then GOk ax else GErrColumns.

(* ---------------------------------------------------------------- exchange_operator with expm = identity:
   the stacked array [xT*tau, conj(xT*tau), xL*tau] with the two compartment axes at (axis, axis+1).
   Parameter arrays are (shape, data) pairs, T = None encodes an infinite entry. *)
Definition arr : Type := (list nat * list S)%type.
Definition oarr : Type := (list nat * list (option S))%type.
Definition geto (a : oarr) (idx : list nat) : option S := nth (ravel (fst a) idx 0) (snd a) None.

Definition bshape4 (a b c d e : list nat) : option (list nat) :=
  match bshape a b with None => None | Some r1 =>
  match bshape r1 c with None => None | Some r2 =>
  match bshape r2 d with None => None | Some r3 => bshape r3 e end end end.

Definition x_generator (ax : nat) (khi : arr) (tau : arr) (T1 T2 : oarr) (g : arr) : option arr :=
  let bs := removelast (fst khi) in
  let n := last (fst khi) 0 in
  match bshape4 (fst tau) (fst T1) (fst T2) (fst g) bs with
  | None => None
  | Some shape =>
    let oshape := insert_at (ax + 1) n shape ++ [3] in
    Some (oshape, map (fun m =>
      let idx := unravel oshape m in
      let c := last idx 0 in
      let full := removelast idx in                  (* b with i at ax and j at ax+1 *)
      let i := nth ax full 0 in let j := nth (ax + 1) full 0 in
      let b := firstn (ax + 1) full ++ skipn (ax + 2) full in     (* batch index incl. i at ax *)
      let K : matN := fun i' j' => get (fst khi) (snd khi) (firstn (length bs) (set_at ax i' b) ++ [j']) in
      let t2 : nat -> option S := fun i' => geto T2 (set_at ax i' b) in
      let t1 : nat -> option S := fun i' => geto T1 (set_at ax i' b) in
      let gg : nat -> S := fun i' => get (fst g) (snd g) (set_at ax i' b) in
      let ta := get (fst tau) (snd tau) b in
      match c with
      | 0 => (xiT K t2 gg i j * ta)%K
      | 1 => kconj (xiT K t2 gg i j * ta)%K
      | _ => (xiL K t1 i j * ta)%K
      end) (seq 0 (prodl oshape)))
  end.

(* ---------------------------------------------------------------- X._apply on arrays (exchange.py:89-120) *)
Record xop : Type := mkX { x_ax : nat; x_shape : list nat; x_mat : list S; x_khi : arr }.
Record smN : Type := mkSMN { s_shape : list nat; s_ns : nat; s_st : list S; s_eq : arr; s_dens : list S }.
Inductive xres := XOk (shape : list nat) (states : list S) | XErrConserve | XErrShape.

Definition sel (c : nat) (t : triple S) : S := match c with 0 => fp t | 1 => fm t | _ => fz t end.

(* index set of the conservation test: khi (batch axes, left aligned) broadcast against the density;
   every member of a batch of kinetic matrices is tested, also along axes where the state has size 1 *)
Definition cons_shape (o : xop) (s : smN) : list nat :=
  match bshape (removelast (fst (x_khi o))) (s_shape s) with
  | Some r => set_at (x_ax o) 1 r
  | None => set_at (x_ax o) 1 (s_shape s)
  end.

(* one entry (row-major position m) of the result array of shape oshape ++ [ns; 3] *)
Definition x_entry (o : xop) (s : smN) (oshape : list nat) (m : nat) : S :=
  let ax := x_ax o in
  let n := nth ax (x_shape o) 0 in
  let full := oshape ++ [s_ns s; 3] in
  let mshape := insert_at (ax + 1) n (x_shape o) ++ [3] in
  let stshape := s_shape s ++ [s_ns s; 3] in
  let idx := unravel full m in
  let nd := length oshape in
  let b := firstn nd idx in
  let k := nth nd idx 0 in let c := nth (nd + 1) idx 0 in
  let i := nth ax b 0 in
  let M (c' : nat) : matN := fun i' j' =>
    get mshape (x_mat o) (insert_at (ax + 1) j' (set_at ax i' (firstn (length (x_shape o)) b)) ++ [c']) in
  let fib (sh : list nat) (d : list S) : fibre := fun j' k' =>
    mk3 (get sh d (set_at ax j' b ++ [k'; 0])) (get sh d (set_at ax j' b ++ [k'; 1]))
        (get sh d (set_at ax j' b ++ [k'; 2])) in
  sel c (x_apply_fibre n (M 0) (M 1) (M 2) (fib stshape (s_st s)) (fib (fst (s_eq s)) (snd (s_eq s))) i k).

Definition x_apply (o : xop) (s : smN) : xres :=
  let ax := x_ax o in
  let n := nth ax (x_shape o) 0 in
  let kbs := removelast (fst (x_khi o)) in
  let khiN (b : list nat) : matN := fun i j =>
    get (fst (x_khi o)) (snd (x_khi o)) (firstn (length kbs) (set_at ax i b) ++ [j]) in
  let densN (b : list nat) : nat -> S := fun j => get (s_shape s) (s_dens s) (set_at ax j b) in
  if negb (forallb (fun b => conservesb n (khiN b) (densN b)) (all_idx (cons_shape o s)))
  then XErrConserve
  else if negb (Nat.eqb (nth ax (s_shape s) 0) 1 || Nat.eqb (nth ax (s_shape s) 0) n) then XErrShape
  else match bshape (x_shape o) (set_at ax n (s_shape s)) with
  | None => XErrShape
  | Some oshape => XOk oshape (map (x_entry o s oshape) (seq 0 (prodl (oshape ++ [s_ns s; 3]))))
  end.

(* executable comparisons *)
Fixpoint leqb (l1 l2 : list S) : bool :=
  match l1, l2 with
  | [], [] => true
  | x :: a, y :: b => keqb x y && leqb a b
  | _, _ => false
  end.
Fixpoint shape_eqb (l1 l2 : list nat) : bool :=
  match l1, l2 with
  | [], [] => true
  | x :: a, y :: b => Nat.eqb x y && shape_eqb a b
  | _, _ => false
  end.
(* observed: 0 = ok, 1 = conservation error, 2 = shape error *)
Definition x_apply_ok (o : xop) (s : smN) (code : nat) (oshape : list nat) (obs : list S) : bool :=
  match x_apply o s, code with
  | XOk sh d, 0 => shape_eqb sh oshape && leqb d obs
  | XErrConserve, 1 => true
  | XErrShape, 2 => true
  | _, _ => false
  end.
Definition x_generator_ok (ax : nat) (khi tau : arr) (T1 T2 : oarr) (g : arr) (oshape : list nat) (obs : list S) : bool :=
  match x_generator ax khi tau T1 T2 g with
  | Some (sh, d) => shape_eqb sh oshape && leqb d obs
  | None => false
  end.
(* observed guard code: 0 ok (with normalised axis), 1 ndim, 2 square, 3 columns *)
Definition x_guard_ok (khishape : list nat) (khi : list S) (axis : Z) (code ax : nat) : bool :=
  match x_guard khishape khi axis, code with
  | GOk a, 0 => Nat.eqb a ax
  | GErrNdim, 1 => true | GErrSquare, 2 => true | GErrColumns, 3 => true
  | _, _ => false
  end.
Definition exchange_matrix_ok_b (k : S) (n : nat) (dens : option (list S)) (obs : list S) : bool :=
  leqb (map (fun m => exchange_matrix k n (option_map (fun l j => nth j l k0) dens) (m / n) (m mod n)) (seq 0 (n * n))) obs.

End Exchange.

Arguments ksum {S}. Arguments delta {S}. Arguments midN {S}. Arguments diagN {S}. Arguments mmulN {S}.
Arguments mvN {S}. Arguments conjN {S}. Arguments moppN {S}. Arguments of_rows {S}. Arguments colsum {S}.
Arguments x_apply_fibre {S}. Arguments conservesb {S}. Arguments knat {S}.

(* ---------------------------------------------------------------- executed instance: Gaussian rationals with division *)
From Coq Require Import QArith Qcanon.
From EPG Require Import QI.
Definition qi_inv (x : QI) : QI :=
  let n := (fst x * fst x + snd x * snd x)%Qc in ((fst x / n)%Qc, (- snd x / n)%Qc).
