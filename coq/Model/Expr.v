(* C11 -- model of the symbolic layer of epgpy/sequence.py.
   * expression trees (Constant / Variable / Proxy / Expression(function, arguments));
   * evaluation [geval], generic in the number type: instance R (theorems) and instance option Qc (executed);
     the meaning of every `math` function is its GENERATED forward formula (Gen/SeqTables.v) over ten
     python/numpy primitives;
   * [derive] follows Expression.derive literally and reads the GENERATED derivative templates;
   * substitution (Expression.map / __call__ of virtual operators), repeat();
   * the finite check of the virtual-operator table against the generated __init__ signatures. *)
From Coq Require Import List String ZArith QArith Qcanon Qabs Reals Bool Lia.
From EPG Require Import SeqTables.
Import ListNotations.
Local Open Scope string_scope.

(* ------------------------------------------------------------------ syntax *)
Inductive prim := Padd | Psub | Pmul | Pdiv | Ppow | Pneg | Psign | Pabs | Plog | Pexp.
Inductive fn := Fleft | Fright | Fsign | Fneg | Fabs | Fadd | Fsub | Fmul | Finv | Fdiv | Fpow | Flog | Fexp.

Definition all_fns := [Fleft; Fright; Fsign; Fneg; Fabs; Fadd; Fsub; Fmul; Finv; Fdiv; Fpow; Flog; Fexp].

Definition fn_name (f : fn) : string :=
  match f with
  | Fleft => "left" | Fright => "right" | Fsign => "sign" | Fneg => "neg" | Fabs => "abs"
  | Fadd => "add" | Fsub => "sub" | Fmul => "mul" | Finv => "inv" | Fdiv => "div" | Fpow => "pow"
  | Flog => "log" | Fexp => "exp"
  end.

Definition fn_eqb (f g : fn) : bool := String.eqb (fn_name f) (fn_name g).

Definition prim_names : list (string * prim) :=
  [("py.add", Padd); ("py.sub", Psub); ("py.mul", Pmul); ("py.truediv", Pdiv); ("py.pow", Ppow);
   ("py.neg", Pneg); ("np.sign", Psign); ("np.abs", Pabs); ("np.log", Plog); ("np.exp", Pexp)].

Fixpoint assoc {A} (k : string) (l : list (string * A)) : option A :=
  match l with
  | [] => None
  | (k', a) :: l' => if String.eqb k k' then Some a else assoc k l'
  end.

Definition prim_of_name (s : string) : option prim := assoc s prim_names.
Definition fn_of_name (s : string) : option fn := find (fun f => String.eqb (fn_name f) s) all_fns.

(* forward formula of a python function over its parameters *)
Inductive fexpr := FArg (i : nat) | FCst (q : Q) | FPrim (p : prim) (args : list fexpr).
(* expression trees of sequence.py *)
Inductive expr := Const (q : Q) | Var (x : string) | Proxy (n : nat) | App (f : fn) (args : list expr).

Section all_opt.
  Context {A B : Type} (g : A -> option B).
  Fixpoint all_opt (l : list A) : option (list B) :=
    match l with
    | [] => Some []
    | a :: l' => match g a, all_opt l' with Some x, Some y => Some (x :: y) | _, _ => None end
    end.
End all_opt.

Fixpoint resolve_f (r : rexpr) : option fexpr :=
  match r with
  | RConst q => Some (FCst q)
  | RArg i => Some (FArg i)
  | RProxy _ => None
  | RApp f args =>
      match prim_of_name f,
            (fix go (l : list rexpr) := match l with
               | [] => Some []
               | a :: l' => match resolve_f a, go l' with Some x, Some y => Some (x :: y) | _, _ => None end
               end) args with
      | Some p, Some l => Some (FPrim p l)
      | _, _ => None
      end
  end.

Fixpoint resolve_e (r : rexpr) : option expr :=
  match r with
  | RConst q => Some (Const q)
  | RProxy n => Some (Proxy n)
  | RArg _ => None
  | RApp f args =>
      match fn_of_name f,
            (fix go (l : list rexpr) := match l with
               | [] => Some []
               | a :: l' => match resolve_e a, go l' with Some x, Some y => Some (x :: y) | _, _ => None end
               end) args with
      | Some g, Some l => Some (App g l)
      | _, _ => None
      end
  end.

(* ------------------------------------------------------------------ tables computed from Gen/SeqTables.v *)
Definition find_math (name : string) : option math_entry :=
  find (fun m => String.eqb (m_name m) name) math_table.

Definition fn_entry (f : fn) : option (nat * fexpr * list (option expr)) :=
  match find_math (fn_name f) with
  | None => None
  | Some m =>
      match resolve_f (m_forward m) with
      | None => None
      | Some fw =>
          match m_derivs m with
          | None => Some (m_arity m, fw, [])         (* Function(...) without derivatives *)
          | Some ds =>
              match all_opt (fun d => match d with
                                      | None => Some None
                                      | Some r => option_map Some (resolve_e r) end) ds with
              | Some l => Some (m_arity m, fw, l)
              | None => None
              end
          end
      end
  end.

(* every function of the source table is modelled and every modelled function resolves *)
Definition tables_closed : bool :=
  forallb (fun m => match fn_of_name (m_name m) with Some _ => true | None => false end) math_table
  && forallb (fun f => match fn_entry f with Some _ => true | None => false end) all_fns
  && (List.length math_table =? List.length all_fns)%nat.

Definition fn_table : list (fn * (nat * fexpr * list (option expr))) :=
  Eval vm_compute in
    flat_map (fun f => match fn_entry f with Some e => [(f, e)] | None => [] end) all_fns.

Definition fn_lookup (f : fn) : nat * fexpr * list (option expr) :=
  match find (fun p => fn_eqb (fst p) f) fn_table with
  | Some p => snd p
  | None => (0%nat, FCst 0, [])
  end.

Definition arity (f : fn) : nat := fst (fst (fn_lookup f)).
Definition fwd (f : fn) : fexpr := snd (fst (fn_lookup f)).
Definition dtab (f : fn) (i : nat) : option expr :=
  match nth_error (snd (fn_lookup f)) i with Some (Some t) => Some t | _ => None end.

(* ------------------------------------------------------------------ generic evaluation *)
Section Eval.
  (* st: how undefinedness of an argument propagates (python evaluates every argument: strict) *)
  Context {K : Type} (ofQ : Q -> K) (ps : prim -> list K -> K) (st : list K -> K -> K).

  Fixpoint feval (args : list K) (e : fexpr) : K :=
    match e with
    | FArg i => nth i args (ofQ 0)
    | FCst q => ofQ q
    | FPrim p l => ps p (map (feval args) l)
    end.

  (* px: values of the proxies (only derivative templates contain them) *)
  Fixpoint geval (rho : string -> K) (px : nat -> K) (e : expr) : K :=
    match e with
    | Const q => ofQ q
    | Var x => rho x
    | Proxy n => px n
    | App f args => let l := map (geval rho px) args in st l (feval l (fwd f))
    end.
End Eval.

(* ---- instance R *)
Local Open Scope R_scope.

Definition sgn (x : R) : R := if Rlt_dec 0 x then 1 else if Rlt_dec x 0 then -1 else 0.

Definition int_of (y : R) : option Z :=
  if Req_EM_T y (IZR (Int_part y)) then Some (Int_part y) else None.

(* python/numpy float power restricted to the real-valued cases: positive base, or integer exponent;
   everything else (complex / nan in the implementation) is mapped to 0 and excluded by [wd] *)
Definition powR (x y : R) : R :=
  if Rlt_dec 0 x then Rpower x y
  else match int_of y with Some n => powerRZ x n | None => 0 end.

Definition primR (p : prim) (l : list R) : R :=
  match p, l with
  | Padd, [a; b] => a + b
  | Psub, [a; b] => a - b
  | Pmul, [a; b] => a * b
  | Pdiv, [a; b] => a / b
  | Ppow, [a; b] => powR a b
  | Pneg, [a] => - a
  | Psign, [a] => sgn a
  | Pabs, [a] => Rabs a
  | Plog, [a] => ln a
  | Pexp, [a] => exp a
  | _, _ => 0
  end.

Definition stR (_ : list R) (r : R) : R := r.
Definition eval (rho : string -> R) (e : expr) : R := geval Q2R primR stR rho (fun _ => 0) e.
Definition peval (rho : string -> R) (px : nat -> R) (e : expr) : R := geval Q2R primR stR rho px e.
Local Close Scope R_scope.

(* ---- instance option Qc (executed with vm_compute): None = not a rational computation / undefined *)
Definition lift1 (g : Qc -> option Qc) (a : option Qc) : option Qc :=
  match a with Some x => g x | None => None end.
Definition lift2 (g : Qc -> Qc -> option Qc) (a b : option Qc) : option Qc :=
  match a, b with Some x, Some y => g x y | _, _ => None end.

Definition qc_is0 (a : Qc) : bool := Qc_eq_bool a (Q2Qc 0).
Definition qc_sign (a : Qc) : Qc :=
  match (this a ?= 0)%Q with Gt => Q2Qc 1 | Lt => Q2Qc (-1) | Eq => Q2Qc 0 end.
Definition qc_abs (a : Qc) : Qc :=
  match (this a ?= 0)%Q with Lt => Qcopp a | _ => a end.
Definition qc_int (a : Qc) : option Z :=
  match Qden (this a) with xH => Some (Qnum (this a)) | _ => None end.
Definition qc_pow (a b : Qc) : option Qc :=
  match qc_int b with
  | None => None
  | Some n =>
      if (0 <=? n)%Z then Some (Qcpower a (Z.to_nat n))
      else if qc_is0 a then None
      else Some (Qcinv (Qcpower a (Z.to_nat (- n))))
  end.

Definition primQ (p : prim) (l : list (option Qc)) : option Qc :=
  match p, l with
  | Padd, [a; b] => lift2 (fun x y => Some (Qcplus x y)) a b
  | Psub, [a; b] => lift2 (fun x y => Some (Qcminus x y)) a b
  | Pmul, [a; b] => lift2 (fun x y => Some (Qcmult x y)) a b
  | Pdiv, [a; b] => lift2 (fun x y => if qc_is0 y then None else Some (Qcdiv x y)) a b
  | Ppow, [a; b] => lift2 qc_pow a b
  | Pneg, [a] => lift1 (fun x => Some (Qcopp x)) a
  | Psign, [a] => lift1 (fun x => Some (qc_sign x)) a
  | Pabs, [a] => lift1 (fun x => Some (qc_abs x)) a
  | _, _ => None
  end.

Definition stQ (l : list (option Qc)) (r : option Qc) : option Qc :=
  if forallb (fun a => match a with Some _ => true | None => false end) l then r else None.
Definition evalQ (rho : string -> option Qc) (e : expr) : option Qc :=
  geval (fun q => Some (Q2Qc q)) primQ stQ rho (fun _ => None) e.

(* ------------------------------------------------------------------ variables, proxies, substitution *)
Fixpoint vars (e : expr) : list string :=
  match e with
  | Var x => [x]
  | App _ args => flat_map vars args
  | _ => []
  end.
Definition has_var (v : string) (e : expr) : bool := existsb (String.eqb v) (vars e).
Definition is_var (e : expr) : bool := match e with Var _ => true | _ => false end.

Fixpoint proxies_raw (e : expr) : list nat :=
  match e with
  | Proxy n => [n]
  | App _ args => flat_map proxies_raw args
  | _ => []
  end.
Fixpoint insert_nat (n : nat) (l : list nat) : list nat :=
  match l with
  | [] => [n]
  | m :: l' => if (n <? m)%nat then n :: l else if (n =? m)%nat then l else m :: insert_nat n l'
  end.
(* Expression.proxies: the distinct proxies of the tree sorted by position *)
Definition proxies (e : expr) : list nat := fold_right insert_nat [] (proxies_raw e).

Fixpoint assoc_nat {A} (k : nat) (l : list (nat * A)) : option A :=
  match l with
  | [] => None
  | (k', a) :: l' => if (k =? k')%nat then Some a else assoc_nat k l'
  end.

(* partial.map(dict(zip(partial.proxies, arguments))): simultaneous, unmapped proxies stay *)
Fixpoint subst_proxies (m : list (nat * expr)) (t : expr) : expr :=
  match t with
  | Proxy n => match assoc_nat n m with Some a => a | None => t end
  | App f args => App f (map (subst_proxies m) args)
  | _ => t
  end.

(* Expression.map(mapping): simultaneous substitution of variables (values already passed
   through to_expression: str -> Var, Expression -> itself, number -> Const) *)
Fixpoint subst (m : list (string * expr)) (e : expr) : expr :=
  match e with
  | Var x => match assoc x m with Some a => a | None => e end
  | App f args => App f (map (subst m) args)
  | _ => e
  end.

(* ------------------------------------------------------------------ Expression.derive *)
(* self.function.derive(i) with its proxies solved by the arguments *)
Definition partial (f : fn) (args : list expr) (i : nat) : expr :=
  match dtab f i with
  | Some t => subst_proxies (combine (proxies t) args) t
  | None => Const 0        (* the implementation raises ValueError; excluded by [wd] *)
  end.

(*  if not isinstance(arg, Variable): partial = arg.derive(variable) * partial  *)
Definition term (f : fn) (args : list expr) (i : nat) (a da : expr) : expr :=
  if is_var a then partial f args i else App Fmul [da; partial f args i].

(*  d_expr = Constant(0); for i, arg: if variable in arg.variables: d_expr += <term>  *)
Fixpoint chain_sum (v : string) (f : fn) (args : list expr) (i : nat) (l dl : list expr) (acc : expr) : expr :=
  match l, dl with
  | a :: l', da :: dl' =>
      chain_sum v f args (S i) l' dl' (if has_var v a then App Fadd [acc; term f args i a da] else acc)
  | _, _ => acc
  end.

Fixpoint derive (v : string) (e : expr) : expr :=
  match e with
  | Const _ => Const 0
  | Var x => if String.eqb x v then Const 1 else Const 0
  | Proxy _ => Const 0      (* the implementation raises NotImplementedError; excluded by [wd] *)
  | App f args => chain_sum v f args 0 args (map (derive v) args) (Const 0)
  end.

(* ------------------------------------------------------------------ repeat(ops, **mapping) *)
(* an operator is represented by its argument expressions; one mapping per repetition
   (the n-th elements of list values / "name_{}".format(n+1) / constants, prepared by the caller) *)
Definition repeat_ops (ops : list (list expr)) (maps : list (list (string * expr))) : list (list (list expr)) :=
  map (fun m => map (map (subst m)) ops) maps.

(* ------------------------------------------------------------------ virtual operator table *)
Definition mem (s : string) (l : list string) : bool := existsb (String.eqb s) l.

Fixpoint prefixb (p l : list string) : bool :=
  match p, l with
  | [], _ => true
  | a :: p', b :: l' => String.eqb a b && prefixb p' l'
  | _ :: _, [] => false
  end.

Definition find_class (c : string) : option class_entry :=
  find (fun e => String.eqb (c_name e) c) class_table.

(* the __init__ a class uses: its own, else the one of its first base (single-inheritance chains only:
   Spoiler / Reset / EmptyOperator -> Operator) *)
Fixpoint init_of (fuel : nat) (c : string) : option init_sig :=
  match fuel with
  | O => None
  | S k =>
      match find_class c with
      | None => None
      | Some e =>
          match c_init e with
          | Some i => Some i
          | None => match c_bases e with b :: _ => init_of k b | [] => None end
          end
      end
  end.

(* keyword names a constructor accepts, following **kwargs to the base classes *)
Fixpoint accepts (fuel : nat) (c : string) (o : string) : bool :=
  match fuel with
  | O => false
  | S k =>
      match find_class c with
      | None => false
      | Some e =>
          match c_init e with
          | Some i => mem o (i_pos i) || mem o (i_kwonly i)
                      || (i_varkw i && existsb (fun b => accepts k b o) (c_bases e))
          | None => existsb (fun b => accepts k b o) (c_bases e)
          end
      end
  end.

Definition FUEL := 8%nat.

(* documented aliases: virtual name -> concrete class name when they differ by design *)
Definition class_alias : list (string * string) := [("Null", "EmptyOperator")].
Definition expected_class (v : string) : string :=
  match assoc v class_alias with Some c => c | None => v end.

(* the concrete class is the class the virtual operator is named after *)
Definition vop_class_ok (v : vop_entry) : bool :=
  String.eqb (v_class v) (expected_class (v_name v))
  && match find_class (v_class v) with Some _ => true | None => false end.

(* POSITIONALS are the leading positional parameters of the constructor, in signature order
   (build() passes them as *args); KEYWORDS are further named parameters *)
Definition vop_pos_ok (v : vop_entry) : bool :=
  match init_of FUEL (v_class v) with
  | Some i => prefixb (v_pos v) (i_pos i)
  | None => false
  end.
Definition vop_kw_ok (v : vop_entry) : bool :=
  match init_of FUEL (v_class v) with
  | Some i => forallb (fun k => (mem k (skipn (List.length (v_pos v)) (i_pos i)) || mem k (i_kwonly i))
                                && negb (mem k (v_pos v))) (v_kw v)
  | None => false
  end.
Definition vop_binding_ok (v : vop_entry) : bool := vop_class_ok v && vop_pos_ok v && vop_kw_ok v.

(* OPTIONS are forwarded as keyword arguments: each must be accepted by the constructor
   ("<Ellipsis>" = any option, needs **kwargs; anything else that is not a name is wrong) *)
Definition vop_opt_ok (v : vop_entry) : bool :=
  forallb (fun o => if String.eqb o "<Ellipsis>"
                    then match init_of FUEL (v_class v) with Some i => i_varkw i | None => false end
                    else accepts FUEL (v_class v) o) (v_opt v).

(* verdicts computed from the generated tables *)
Definition vop_bad : list string :=
  Eval vm_compute in map v_name (filter (fun v => negb (vop_binding_ok v)) vop_table).
Definition vop_bad_options : list string :=
  Eval vm_compute in map v_name (filter (fun v => negb (vop_opt_ok v)) vop_table).

(* templates: the k-th proxy present must be Proxy k (otherwise zip(partial.proxies, arguments)
   binds a proxy to the wrong argument) *)
Definition proxies_ok : bool :=
  forallb (fun f => forallb (fun d => match d with
                                      | Some t => forallb (fun p => (fst p =? S (snd p))%nat)
                                                    (combine (proxies t) (seq 0 (arity f)))
                                                  && (List.length (proxies t) <=? arity f)%nat
                                      | None => true end) (snd (fn_lookup f))) all_fns.

(* ------------------------------------------------------------------ well-definedness (used by the theorems) *)
Local Open Scope R_scope.
Definition upd (rho : string -> R) (v : string) (t : R) : string -> R :=
  fun y => if String.eqb y v then t else rho y.

(* real-analysis side conditions of one node: values of the arguments, and which arguments contain
   the differentiation variable *)
Definition fn_dom (f : fn) (vals : list R) (varies : list bool) : Prop :=
  match f, vals, varies with
  | Finv, [a], _ => a <> 0
  | Fdiv, [_; b], _ => b <> 0
  | Flog, [a], _ => 0 < a
  | Fabs, [a], [va] => va = true -> a <> 0
  | Fpow, [a; b], [va; vb] =>
      0 < a \/ (vb = false /\ exists n : Z, b = IZR n /\ (va = true -> a <> 0 \/ (1 <= n)%Z))
  | _, _, _ => True
  end.

(* Function.derive(i) raises when the table has no i-th derivative *)
Definition derivs_defined (f : fn) (varies : list bool) : Prop :=
  forall i, nth i varies false = true -> dtab f i <> None.

Fixpoint wd (v : string) (rho : string -> R) (e : expr) : Prop :=
  match e with
  | Const _ | Var _ => True
  | Proxy _ => False
  | App f args =>
      List.length args = arity f
      /\ (fix all (l : list expr) : Prop := match l with [] => True | a :: l' => wd v rho a /\ all l' end) args
      /\ derivs_defined f (map (has_var v) args)
      /\ fn_dom f (map (eval rho) args) (map (has_var v) args)
  end.

(* ------------------------------------------------------------------ statement of the table theorem *)
Definition set_nth (i : nat) (u : R) (l : list R) : list R := firstn i l ++ u :: skipn (S i) l.

(* domain of the i-th derivative template of f at the argument values *)
Definition entry_dom (f : fn) (i : nat) (args : list R) : Prop :=
  match f, args with
  | Finv, [a] => a <> 0
  | Fdiv, [_; b] => b <> 0
  | Flog, [a] => 0 < a
  | Fabs, [a] => a <> 0
  | Fpow, [a; b] =>
      match i with
      | O => 0 < a \/ exists n : Z, b = IZR n /\ (a <> 0 \/ (1 <= n)%Z)   (* p2 * p1 ** (p2 + -1) *)
      | _ => 0 < a                                                        (* log(p1) * p1 ** p2 *)
      end
  | _, _ => True
  end.

(* the semantic function of a table entry, and the value of a template with Proxy k = k-th argument *)
Definition fn_sem (f : fn) (args : list R) : R := feval Q2R primR args (fwd f).
Definition template_val (t : expr) (args : list R) : R :=
  peval (fun _ => 0) (fun n => nth (pred n) args 0) t.

(* ------------------------------------------------------------------ interface of the correspondence check *)
Definition renv (l : list (string * Q)) : string -> R :=
  fun s => match assoc s l with Some q => Q2R q | None => 0 end.
Definition qenv (l : list (string * Q)) : string -> option Qc :=
  fun s => option_map Q2Qc (assoc s l).

(* model value (exact rational, or None = undefined) against the observed binary64 value (exact
   rational, or None = the implementation raised ZeroDivisionError / FloatingPointError):
   |model - obs| <= tol * (1 + |model|), tol = 0 for dyadic-exact cases *)
Definition okq (m : option Qc) (obs : option Q) (tol : Q) : bool :=
  match m, obs with
  | Some a, Some b => Qle_bool (Qabs (this a - b)) (tol * (1 + Qabs (this a)))
  | None, None => true
  | _, _ => false
  end.
