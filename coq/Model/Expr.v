(* C11 stub: to be written *)
