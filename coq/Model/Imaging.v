(* C15 -- model of epgpy.utils.imaging / probe.Imaging._acquire / operator.System over R and
   Coquelicot's C.  One output element (one batch entry b, one position p) is

     value = sum over kept phase states j of   w * ( form(k_j) * mod(t_j) * F_j ) * exp(i k_j . x)

   exactly as utils.imaging computes it (utils.py 58-102):
     form   = 1 ('point')  or  prod_axis sinc_np (k_axis * size_axis / 2 / pi)  ('box'),
     mod    = exp(|t| * re(modulation)) [* cis(t * 2 * pi * im(modulation)) if modulation is complex]
              [* cis(phase * pi / 180)],   mod = phase factor only when there is no time axis / no modulation,
     masks  : a state is dropped when |form| <= tol ('box') or exp(|t| re) <= tol (modulated),
     k . x  = sum over the first len(x) wavenumber columns,
     weights multiply the un-reduced output; reduce only sums it.
   Faithfulness to the numpy code is established by the correspondence check (props/c15.py), which
   evaluates [img_list] inside Coq with the Interval tactic on the exact inputs of the real run. *)
From Coq Require Import Reals List Bool.
From Coquelicot Require Import Coquelicot.
From EPG Require Import Scalar CInst.
Import ListNotations.
Local Open Scope R_scope.

(* numpy.sinc: sin(pi u)/(pi u), 1 at u = 0 *)
Definition sinc_np (u : R) : R := if Req_EM_T u 0 then 1 else sin (PI * u) / (PI * u).

(* one phase state as the probe sees it: sm.F[j], sm.k[j, :], sm.t[j] *)
Record pstate := mkPS { sF : C; sk : list R; st : R }.

Inductive vshape := Point | Box.

(* modulation argument: real array -> (re, None); complex array -> (re, Some im) *)
Record icfg := mkCfg {
  shape : vshape;
  vsize : list R;                 (* voxel_size broadcast to the wavenumber columns *)
  tol : R;
  timed : bool;                   (* acctime is not None  (sm.kdim == 4) *)
  modul : option (R * option R);
  phase : option R;               (* degrees *)
  weight : option C
}.

Fixpoint prodR (l : list R) : R := match l with [] => 1 | a :: r => a * prodR r end.
Fixpoint sumC (l : list C) : C := match l with [] => RtoC 0 | a :: r => Cplus a (sumC r) end.
Fixpoint sumR (l : list R) : R := match l with [] => 0 | a :: r => a + sumR r end.

Fixpoint map2 {A B X} (f : A -> B -> X) (la : list A) (lb : list B) : list X :=
  match la, lb with a :: ra, b :: rb => f a b :: map2 f ra rb | _, _ => [] end.

(* the scaling constant of the sinc argument is the source's  k * voxel_size / 2 / np.pi  (utils.py:62);
   props/c15.py re-extracts it from the ast on every run *)
Definition sinc_arg (k d : R) : R := k * d / 2 / PI.

Definition boxform (ds ks : list R) : R := prodR (map2 (fun k d => sinc_np (sinc_arg k d)) ks ds).

Definition form (c : icfg) (s : pstate) : R :=
  match shape c with Point => 1 | Box => boxform (vsize c) (sk s) end.

(* k[..., :kdim] . pos *)
Fixpoint kdot (ks xs : list R) : R :=
  match ks, xs with k :: rk, x :: rx => k * x + kdot rk rx | _, _ => 0 end.

(* the modulation in force: only with a time axis *)
Definition modul_eff (c : icfg) : option (R * option R) := if timed c then modul c else None.

Definition modre (c : icfg) (s : pstate) : R :=
  match modul_eff c with Some (re, _) => exp (Rabs (st s) * re) | None => 1 end.

Definition modim (c : icfg) (s : pstate) : C :=
  match modul_eff c with Some (_, Some im) => cis (st s * 2 * PI * im) | _ => RtoC 1 end.

Definition phasefac (c : icfg) : C :=
  match phase c with Some p => cis (p * PI / 180) | None => RtoC 1 end.

Definition wfac (c : icfg) : C := match weight c with Some w => w | None => RtoC 1 end.

(* mod of the source (after the phase offset) *)
Definition modfac (c : icfg) (s : pstate) : C :=
  Cmult (Cmult (RtoC (modre c s)) (modim c s)) (phasefac c).

(* im[..., j] = (voxel * mod * F) * exp(1j * kpos) * weights *)
Definition term (c : icfg) (x : list R) (s : pstate) : C :=
  Cmult (Cmult (Cmult (Cmult (RtoC (form c s)) (modfac c s)) (sF s)) (cis (kdot (sk s) x))) (wfac c).

(* masks, as propositions (what the Interval tie proves per state) ... *)
Definition kkeepP (c : icfg) (s : pstate) : Prop :=
  match shape c with Point => True | Box => tol c < Rabs (form c s) end.
Definition kdropP (c : icfg) (s : pstate) : Prop :=
  match shape c with Point => False | Box => Rabs (form c s) <= tol c end.
Definition mkeepP (c : icfg) (s : pstate) : Prop :=
  match modul_eff c with Some _ => tol c < modre c s | None => True end.
Definition mdropP (c : icfg) (s : pstate) : Prop :=
  match modul_eff c with Some _ => modre c s <= tol c | None => False end.
Definition keepP (c : icfg) (s : pstate) : Prop := kkeepP c s /\ mkeepP c s.
Definition dropP (c : icfg) (s : pstate) : Prop := kdropP c s \/ mdropP c s.

(* ... and as the decision the code takes *)
Definition kkeepb (c : icfg) (s : pstate) : bool :=
  match shape c with Point => true | Box => if Rlt_dec (tol c) (Rabs (form c s)) then true else false end.
Definition mkeepb (c : icfg) (s : pstate) : bool :=
  match modul_eff c with Some _ => if Rlt_dec (tol c) (modre c s) then true else false | None => true end.
Definition keepb (c : icfg) (s : pstate) : bool := kkeepb c s && mkeepb c s.

(* value with an explicit keep list (general: the source's masks are `any` over all batch/position
   entries, so with entry-dependent modulation a state is kept as soon as one entry keeps it) *)
Fixpoint img_list (keeps : list bool) (c : icfg) (x : list R) (l : list pstate) : C :=
  match keeps, l with
  | b :: rb, s :: rs => Cplus (if b then term c x s else RtoC 0) (img_list rb c x rs)
  | _, _ => RtoC 0
  end.

(* the value of one output element when masks are decided by this element alone *)
Definition img (c : icfg) (x : list R) (l : list pstate) : C :=
  img_list (map (keepb c) l) c x l.

(* no masking at all *)
Definition img_all (c : icfg) (x : list R) (l : list pstate) : C :=
  sumC (map (term c x) l).

(* the same value in polar form (one cos / sin per state): proved equal to [img_list] in
   Proofs/ImagingProofs.v (img_list_polar); this is the expression handed to the Interval tactic *)
Definition theta (c : icfg) (x : list R) (s : pstate) : R :=
  kdot (sk s) x
  + match modul_eff c with Some (_, Some im) => st s * 2 * PI * im | _ => 0 end
  + match phase c with Some p => p * PI / 180 | None => 0 end.
Definition amp (c : icfg) (s : pstate) : R := form c s * modre c s.
Definition term_polar (c : icfg) (x : list R) (s : pstate) : C :=
  let g := Cmult (sF s) (wfac c) in
  (amp c s * (fst g * cos (theta c x s) - snd g * sin (theta c x s)),
   amp c s * (fst g * sin (theta c x s) + snd g * cos (theta c x s))).
Fixpoint img_polar (keeps : list bool) (c : icfg) (x : list R) (l : list pstate) : C :=
  match keeps, l with
  | b :: rb, s :: rs => Cplus (if b then term_polar c x s else RtoC 0) (img_polar rb c x rs)
  | _, _ => RtoC 0
  end.

(* ---- reduce: the un-reduced output is a (batch x position) matrix ---- *)
Definition reduce_ax1 (m : list (list C)) : list C := map sumC m.
Fixpoint addrows (a b : list C) : list C :=
  match a, b with x :: ra, y :: rb => Cplus x y :: addrows ra rb | _, _ => [] end.
Fixpoint reduce_ax0 (ncol : nat) (m : list (list C)) : list C :=
  match m with [] => repeat (RtoC 0) ncol | r :: rest => addrows r (reduce_ax0 ncol rest) end.
Definition reduce_all (m : list (list C)) : C := sumC (map sumC m).

(* un-reduced output: entry (b, p) has its own weight / modulation (cfgs b p), states of batch entry b,
   position p *)
Definition out_matrix (cfgs : list (list icfg)) (xs : list (list R)) (sts : list (list pstate)) : list (list C) :=
  map2 (fun crow l => map2 (fun c x => img c x l) crow xs) cfgs sts.

(* ---- Imaging._acquire: option resolution, System ---- *)
Record popts := mkOpts { o_modul : option (R * option R); o_weight : option C }.
Record psystem := mkSys { s_modul : option (R * option R); s_weight : option C }.

Definition resolve {A} (arg sys : option A) : option A :=
  match arg with Some v => Some v | None => sys end.

(* base: everything that is neither modulation nor weights (voxel_shape, voxel_size, tol, phase, timed).
   The probe reads its options (probe.py works on a copy of self.opts since the fix of the option-popping
   defect found by this check), so an acquisition leaves the probe's options as they were. *)
Definition resolve_cfg (base : icfg) (o : popts) (sys : psystem) : icfg :=
  mkCfg (shape base) (vsize base) (tol base) (timed base)
        (resolve (o_modul o) (s_modul sys)) (phase base) (resolve (o_weight o) (s_weight sys)).

Definition acquire (base : icfg) (o : popts) (sys : psystem) (x : list R) (l : list pstate)
  : C * popts :=
  (img (resolve_cfg base o sys) x l, o).

Definition acquire2 (base : icfg) (o : popts) (sys : psystem) (x : list R) (l : list pstate)
  : C * C :=
  let '(v1, o1) := acquire base o sys x l in
  let '(v2, _) := acquire base o1 sys x l in (v1, v2).
