(* C15 stub: to be written *)
