(* Small total model of the numpy primitives used by epgpy.statematrix.ArrayCollection:
   arrays are (shape, row-major integer data).  List functions are index-wise ([tab]);
   faithfulness to numpy is established by the C16 correspondence (props/c16.py). *)
From Coq Require Import List ZArith Lia Bool Arith.
From EPG Require Import Scalar State.
Import ListNotations.

Record nd : Type := mkNd { shp : list nat; dat : list Z }.

Definition prod (l : list nat) : nat := fold_right Nat.mul 1%nat l.

(* [chunksN k m l] = the first k consecutive blocks of length m of l *)
Definition chunksN {A} (k m : nat) (l : list A) : list (list A) :=
  tab k (fun i => firstn m (skipn (i * m) l)).

(* python slice l[lo:hi] for 0 <= lo, hi *)
Definition slice {A} (lo hi : nat) (l : list A) : list A := firstn (hi - lo) (skipn lo l).

Fixpoint list_eqb {A} (eqb : A -> A -> bool) (l1 l2 : list A) : bool :=
  match l1, l2 with
  | [], [] => true
  | x :: l1', y :: l2' => eqb x y && list_eqb eqb l1' l2'
  | _, _ => false
  end.
Definition shape_eqb := list_eqb Nat.eqb.
Definition data_eqb := list_eqb Z.eqb.
Definition nd_eqb (a b : nd) : bool := shape_eqb (shp a) (shp b) && data_eqb (dat a) (dat b).

Fixpoint forallb2 {A B} (f : A -> B -> bool) (l1 : list A) (l2 : list B) : bool :=
  match l1, l2 with
  | [], [] => true
  | x :: l1', y :: l2' => f x y && forallb2 f l1' l2'
  | _, _ => false
  end.

(* ---- broadcasting of equal-rank shapes: source dim is 1 or equal to the target dim *)
Definition bc_dim (s t : nat) : bool := (s =? t) || (s =? 1).
Definition bc_okb (ss ts : list nat) : bool := forallb2 bc_dim ss ts.

Fixpoint bc (ss ts : list nat) (d : list Z) : list Z :=
  match ss, ts with
  | s :: ss', t :: ts' =>
      if s =? t then concat (map (bc ss' ts') (chunksN s (prod ss') d))
      else concat (repeat (bc ss' ts' d) t)
  | _, _ => d
  end.

(* numpy.broadcast_to (right-aligned) *)
Definition broadcast_to (a : nd) (ts : list nat) : option nd :=
  let k := length ts - length (shp a) in
  let ss := repeat 1%nat k ++ shp a in
  if (length (shp a) <=? length ts) && bc_okb ss ts
  then Some (mkNd ts (bc ss ts (dat a))) else None.

(* value part of  target[:] = value : leading unit axes of the value may be dropped *)
Definition assign_to (v : nd) (ts : list nat) : option (list Z) :=
  let k := length (shp v) - length ts in
  if forallb (Nat.eqb 1) (firstn k (shp v))
  then match broadcast_to (mkNd (skipn k (shp v)) (dat v)) ts with
       | Some r => Some (dat r) | None => None end
  else None.

(* ---- ArrayCollection.resize_array along [axis] to [size] entries (centre pad / crop):
   the array is cut into [outer] blocks, each a list of n sub-blocks of [inner] entries;
   the list of sub-blocks is resized with State.resize_list (padding sub-block = constant) *)
Definition resize_axis (a : nd) (axis size : nat) (c : Z) : nd :=
  let sh := shp a in
  let n := nth axis sh 0%nat in
  let outer := prod (firstn axis sh) in
  let inner := prod (skipn (S axis) sh) in
  mkNd (firstn axis sh ++ size :: skipn (S axis) sh)
       (concat (map (fun b => concat (resize_list (repeat c inner) (chunksN n inner b) size))
                    (chunksN outer (n * inner) (dat a)))).

(* resize_array(array, diff, axis): new size = n + diff (empty when negative) *)
Definition resize_array (a : nd) (diff : Z) (axis : nat) (c : Z) : nd :=
  let n := nth axis (shp a) 0%nat in
  if (diff =? 0)%Z then a else resize_axis a axis (Z.to_nat (Z.of_nat n + diff)) c.
