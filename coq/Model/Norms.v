(* C14 — norms of a state matrix (K = C) and the small language of REAL operators whose
   coefficient arrays are the GENERATED ones (Gen/Transition.v, Gen/Evolution.v).

   [norm2 s]      = sum_{k=-n..n} 1/2|F+(k)|^2 + 1/2|F-(k)|^2 + |Z(k)|^2      (the physical norm, squared)
   [code_norm2 s] = sum_{k=-n..n} |F-(k)|^2 + |Z(k)|^2                         (utils.get_norm squared:
                                     xp.sum(xp.abs(states[..., 1:]) ** 2, axis=(-2, -1)))
   [dev2 s]       = norm2 of (states - equilibrium)
   Sums over the window of phase states are [sumZ] of Spec/Synth.v at the real-number scalar
   instance [Rops] (conjugation = identity). *)
From Coq Require Import Reals ZArith List Bool.
From Coquelicot Require Import Coquelicot.
From EPG Require Import Scalar State Ops CInst Synth Views WfProof Transition Evolution CoefPhys.
From EPG.Model Require Import Diffusion.
Import ListNotations.
Local Open Scope R_scope.

(* ---- the reals as a scalar instance ---- *)
Definition Reqb (x y : R) : bool := if Req_EM_T x y then true else false.
Definition Rops : ScalOps := mkScalOps R 0 1 Rplus Rmult Rminus Ropp (fun x => x) Reqb.

Definition rsum (lo : Z) (n : nat) (f : Z -> R) : R := sumZ Rops lo n f.
(* sum over the phase states k in [-n, n] *)
Definition win (n : nat) (f : Z -> R) : R := rsum (- Z.of_nat n) (2 * n + 1) f.

(* ---- norms ---- *)
Definition norm2 (s : sm Cops) : R := win (nstate s) (fun k => wnorm2 (get Cops s k)).

Definition code_norm2 (s : sm Cops) : R :=
  win (nstate s) (fun k => cnorm2 (fm (get Cops s k)) + cnorm2 (fz (get Cops s k))).

(* deviation from equilibrium, state by state *)
Definition dev (s : sm Cops) (k : Z) : triple Cops := tsub (get Cops s k) (gete Cops s k).
Definition dev2 (s : sm Cops) : R := win (nstate s) (fun k => wnorm2 (dev s k)).

(* the three partial sums *)
Definition tp2 (s : sm Cops) : R := win (nstate s) (fun k => cnorm2 (fp (get Cops s k))).
Definition tm2 (s : sm Cops) : R := win (nstate s) (fun k => cnorm2 (fm (get Cops s k))).
Definition zz2 (s : sm Cops) : R := win (nstate s) (fun k => cnorm2 (fz (get Cops s k))).

(* ---- operators with the generated coefficient arrays ---- *)
Definition op_T (alpha phi : R) : op Cops := OMatrix (T_op alpha phi) None.
Definition op_Phi (phi : R) : op Cops := OMatrix (Phi_op phi) None.
Definition op_P (tau g : R) : op Cops := OScalar (fst (P_op tau g)) (snd (P_op tau g)).
Definition op_E (tau T1 T2 g : R) : op Cops := OScalar (fst (E_op tau T1 T2 g)) (snd (E_op tau T1 T2 g)).

(* diffusion, abstract form: D._apply with real attenuation factors aT(k) (transverse) and aL(k)
   (longitudinal) per phase state: F+(k) <- aT(k) F+(k), Z(k) <- aL(k) Z(k), F-(k) <- conj F+(-k) (updated) *)
Definition apply_atten (aT aL : Z -> R) (s : sm Cops) : sm Cops :=
  @d_apply Cops (fun k => RtoC (aT k)) (fun k => RtoC (aL k)) s.

(* programs of real operators covered by the signal bound *)
Inductive rop : Type :=
| RT (alpha phi : R)              (* epg.T(alpha, phi) *)
| RPhi (phi : R)                  (* epg.Phi(phi) *)
| RP (tau g : R)                  (* epg.P(tau, g) *)
| RE (tau T1 T2 g : R)            (* epg.E(tau, T1, T2, g) *)
| RS (d : Z)                      (* epg.S(d), no nmax / max_nstate *)
| RSpoil                          (* epg.SPOILER *)
| RReset                          (* epg.RESET *)
| RWait                           (* epg.Wait / ADC / probes *)
| RD (aT aL : Z -> R).            (* epg.D(tau, D, k): factors exp(-bT:D), exp(-bL:D) per state *)

Definition rapply (o : rop) (s : sm Cops) : sm Cops :=
  match o with
  | RT a p => apply (op_T a p) s
  | RPhi p => apply (op_Phi p) s
  | RP tau g => apply (op_P tau g) s
  | RE tau T1 T2 g => apply (op_E tau T1 T2 g) s
  | RS d => apply (OShift d None) s
  | RSpoil => apply OSpoil s
  | RReset => apply OReset s
  | RWait => s
  | RD aT aL => apply_atten aT aL s
  end.

Definition rrun (ops : list rop) (s : sm Cops) : sm Cops := fold_left (fun s o => rapply o s) ops s.

(* side conditions: physical relaxation with T2 <= 2 T1, attenuation factors in [0,1], longitudinal factor even in k *)
Definition rvalid (o : rop) : Prop :=
  match o with
  | RE tau T1 T2 g => 0 <= tau /\ 0 < T1 /\ 0 < T2 /\ T2 <= 2 * T1
  | RD aT aL => (forall k, 0 <= aT k <= 1) /\ (forall k, 0 <= aL k <= 1) /\ (forall k, aL (- k)%Z = aL k)
  | _ => True
  end.

(* the invariant of the signal bound *)
Definition bounded (PD : R) (s : sm Cops) : Prop :=
  WfProof.wf Cops s /\ fz (gete Cops s 0) = RtoC PD /\ norm2 s <= PD * PD.

(* ---- utils.get_norm on the array itself (generic scalars; executed at QIops against the implementation) ---- *)
Definition sq2 {S : ScalOps} (x : triple S) : S := (fm x * kconj (fm x) + fz x * kconj (fz x))%K.
Definition list_norm2 {S : ScalOps} (l : list (triple S)) : S := fold_right (fun x acc => (sq2 x + acc)%K) k0 l.

(* observed float norm (exact rational) against the model: |obs^2 - N| <= tol (1 + N), N real *)
From Coq Require Import QArith Qabs Qcanon.
From EPG Require Import QI.
Definition norm_obs_ok (tol obs : Qc) (l : list (triple QIops)) : bool :=
  let N := @list_norm2 QIops l in
  Qle_bool (Qabs (this (obs * obs - fst N)%Qc)) (this (tol * (Q2Qc 1 + fst N))%Qc) && Qeq_bool (this (snd N)) 0.
