(* C14 stub: to be written *)
