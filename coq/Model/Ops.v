(* Operators on a (scalar, un-batched) state matrix and the simulate loop.
   Mirrors: opscalar.scalar_apply, opmatrix.matrix_apply, shift.S._apply
   (shift-1d) + shift1d(inplace), operator.Spoiler/Reset/PD/Wait,
   functions.simulate_simple.                                             *)
From Coq Require Import List ZArith Lia Bool.
From EPG Require Import Scalar State.
Import ListNotations.

Section Ops.
Variable S : ScalOps.
Notation triple := (triple S).
Notation mat3 := (mat3 S).
Notation sm := (sm S).

Inductive op : Type :=
| OScalar (a : triple) (a0 : option triple)
| OMatrix (m : mat3) (m0 : option mat3)
| OShift (d : Z) (nmax : option nat)
| OSpoil
| OReset
| OPD (p : S) (reset : bool)
| OWait.

(* states <- arr*states (+ arr0*equilibrium), state by state *)
Definition apply_scalar (a : triple) (a0 : option triple) (s : sm) : sm :=
  match a0 with
  | None => mkSM (map (sv a) (st s)) (equ s)
  | Some b => mkSM (tab (length (st s))
                (fun i => tadd (sv a (nth i (st s) t0)) (sv b (nth i (equ s) t0)))) (equ s)
  end.

Definition apply_matrix (m : mat3) (m0 : option mat3) (s : sm) : sm :=
  match m0 with
  | None => mkSM (map (mv m) (st s)) (equ s)
  | Some b => mkSM (tab (length (st s))
                (fun i => tadd (mv m (nth i (st s) t0)) (mv b (nth i (equ s) t0)))) (equ s)
  end.

(* shift1d(states, d, inplace=True) on an array of fixed length:
   F+[i] <- F+[i-d], F-[i] <- F-[i+d], zero fill where the source index falls outside *)
Definition shift1d (l : list triple) (d : Z) : list triple :=
  tab (length l) (fun i =>
    mk3 (fp (nthZ t0 l (Z.of_nat i - d))) (fm (nthZ t0 l (Z.of_nat i + d))) (fz (nth i l t0))).

(* S._apply, shift-1d: resize(min(nstate+|d|, nmax)) then shift in place *)
Definition apply_shift (d : Z) (nmax : option nat) (s : sm) : sm :=
  let n := (nstate s + Z.abs_nat d)%nat in
  let n' := match nmax with None => n | Some m => Nat.min n m end in
  let s' := resize s n' in
  mkSM (shift1d (st s') d) (equ s').

Definition apply_spoil (s : sm) : sm :=
  mkSM (map (fun x => mk3 k0 k0 (fz x)) (st s)) (equ s).

(* Reset: states[:] = equilibrium, then resize(0) *)
Definition apply_reset (s : sm) : sm := resize (mkSM (equ s) (equ s)) 0.

(* PD: equilibrium <- (0,0,pd) in the centre state (zero elsewhere);
   reset -> states[:] = equilibrium (state count unchanged) *)
Definition pd_equ (p : S) (len : nat) : list triple :=
  resize_list t0 [mk3 k0 k0 p] len.
Definition apply_pd (p : S) (reset : bool) (s : sm) : sm :=
  let e := pd_equ p (length (equ s)) in
  mkSM (if reset then e else st s) e.

Definition apply (o : op) (s : sm) : sm :=
  match o with
  | OScalar a a0 => apply_scalar a a0 s
  | OMatrix m m0 => apply_matrix m m0 s
  | OShift d nmax => apply_shift d nmax s
  | OSpoil => apply_spoil s
  | OReset => apply_reset s
  | OPD p r => apply_pd p r s
  | OWait => s
  end.

Definition run (ops : list op) (s : sm) : sm := fold_left (fun s o => apply o s) ops s.

(* all intermediate states, for step-by-step correspondence *)
Fixpoint trace (ops : list op) (s : sm) : list sm :=
  match ops with
  | [] => []
  | o :: t => let s' := apply o s in s' :: trace t s'
  end.

Definition init (pd : S) : sm := mkSM [mk3 k0 k0 pd] [mk3 k0 k0 pd].

(* F0 / Z0 as read by the probes: centre state *)
Definition probe_ok (ops : list op) (s0 : sm) (f0 z0 : S) : bool :=
  let s := run ops s0 in
  keqb (fp (centre (st s))) f0 && keqb (fz (centre (st s))) z0.

Fixpoint leqb (x y : list triple) : bool :=
  match x, y with
  | [], [] => true
  | u :: x', v :: y' => teqb u v && leqb x' y'
  | _, _ => false
  end.
Definition sm_eqb (a b : sm) : bool := leqb (st a) (st b) && leqb (equ a) (equ b).

Fixpoint all2 {A B} (f : A -> B -> bool) (x : list A) (y : list B) : bool :=
  match x, y with
  | [], [] => true
  | u :: x', v :: y' => f u v && all2 f x' y'
  | _, _ => false
  end.
(* correspondence verdict: model trace equals the observed snapshots *)
Definition trace_ok (ops : list op) (s0 : sm) (obs : list sm) : bool :=
  all2 sm_eqb (trace ops s0) obs.

End Ops.

Arguments OScalar {S}. Arguments OMatrix {S}. Arguments OShift {S}. Arguments OSpoil {S}.
Arguments OReset {S}. Arguments OPD {S}. Arguments OWait {S}.
Arguments apply {S}. Arguments run {S}. Arguments trace {S}. Arguments init {S}.
Arguments sm_eqb {S}. Arguments trace_ok {S}. Arguments probe_ok {S}. Arguments all2 {A B}. Arguments shift1d {S}. Arguments apply_shift {S}.
Arguments apply_scalar {S}. Arguments apply_matrix {S}. Arguments apply_spoil {S}.
Arguments apply_reset {S}. Arguments apply_pd {S}.
