(* C09 -- the public API as a PURE function over an append-only store of immutable values.
   A history is a list of calls referring to earlier values by store index.
   [sem] appends exactly one entry per call (so store index = position in the history) and never
   modifies an existing entry, except for [CApply _ sm true] (in-place application), where the API
   contract says that the state matrix [sm] IS modified: the entry of [sm] is replaced.

   The model is faithful to the code that exists (epgpy/operator.py, diff.py, functions.py):
   - DiffOperator.__call__ (T, E, S, ScalarOp, MatrixOp ...): one semantics [dstep] for both modes;
   - Operator.__call__ of a non-differentiable operator and of a MultiOperator (since /repo 8521bf9): the
     operator also acts on every order1/order2 partial carried by the state (Operator._apply_partial),
     in place AND out of place -- out of place on copies, the input's partials are untouched;
     a MultiOperator called on a state applies its members in turn (since /repo c26a99a);
   - StateMatrix.copy(): states/equilibrium/options copied, partials dropped;
   - simulate(seq, init=sm, max_nstate=n, probe=p): runs on init.copy() with merged options, applies every
     operator in place, records probe values.
   Memory aliasing and process state cannot be exhibited here: the history correspondence of
   props/c09.py checks that the implementation behaves like this pure function.                    *)
From Coq Require Import List ZArith Lia Bool Arith.
From EPG Require Import Scalar State Ops Diff.
Import ListNotations.

Section Purity.
Variable S : ScalOps.
Notation dstate := (dstate S).
Notation dinstr := (dinstr S).
Notation dop := (dop S).

Inductive probe : Type :=
| PF0 | PZ0
| PF0Z0                      (* a probe returning SEVERAL quantities at once: Probe('(F0, Z0)'), Probe(lambda sm: (sm.F0, sm.Z0)) *)
| PJac (vars : list var)
| PHess (vars : list var).

Inductive item : Type := IOp (i : dinstr) | IProbe (p : probe).

(* a state matrix value: states + partials, and the option max_nstate *)
Record smval : Type := mkSmv { sv_d : dstate; sv_nmax : option nat }.

Inductive value : Type :=
| VSm (s : smval)
| VOp (i : dinstr)              (* one operator instance *)
| VMulti (l : list dinstr)      (* MultiOperator (flat list) *)
| VProbe (p : probe)
| VSeq (l : list item)          (* a (flattened) sequence: operators and probes *)
| VRes (r : list (list S))      (* what simulate / acquire return: one list of numbers per acquisition *)
| VNone                         (* placeholder appended by an in-place call *)
| VErr.                         (* ill-typed call *)

Inductive call : Type :=
| CApply (op sm : nat) (inplace : bool)
| CCopy (sm : nat)
| CMul (a b : nat)
| CMkSeq (refs : list nat)
| CSimulate (seq : nat) (init : option nat) (nmax : option nat) (pr : option nat)
| CAcquire (p sm : nat).

Definition store := list value.
Definition look (st : store) (r : nat) : value := nth r st VErr.

(* references read by a call *)
Definition refs (c : call) : list nat :=
  match c with
  | CApply o s _ => [o; s]
  | CCopy s => [s]
  | CMul a b => [a; b]
  | CMkSeq l => l
  | CSimulate q i _ p => q :: (match i with Some r => [r] | None => [] end) ++ (match p with Some r => [r] | None => [] end)
  | CAcquire p s => [p; s]
  end.

(* ---- operators ---- *)
(* sm.options["max_nstate"] overrides the operator's own nmax (shift.S._apply) *)
Definition with_nmax (n : option nat) (i : dinstr) : dinstr :=
  match n with
  | None => i
  | Some m =>
    match i with
    | DOp o =>
      match d_lin S o with
      | LShift d _ => DOp (mkDop (LShift d (Some m)) (d_darrs S o) (d_d2arrs S o) (d_order1 S o) (d_order2 S o)
                                 (d_auto S o) (d_params2 S o))
      | _ => i
      end
    | DPlain (OShift d _) => DPlain (OShift d (Some m))
    | _ => i
    end
  end.

(* the zeroth-order operator of an instruction (what _apply does to the states) *)
Definition prim_op (i : dinstr) : op S :=
  match i with DOp o => lin_op S (d_lin S o) | DPlain o => o end.

Definition drop_partials (d : dstate) : dstate := mkD (d_main d) [] [] (d_ok d).

(* in place: DiffOperator.__call__ / Operator.__call__ with inplace=True  ==  Diff.dstep *)
Definition apply_in (n : option nat) (i : dinstr) (d : dstate) : dstate := dstep (with_nmax n i) d.

(* out of place: the same value, for a DiffOperator and for a plain operator (Operator.__call__ copies the state
   and every partial through prepare(), then applies _apply / _apply_partial to the copies) *)
Definition apply_out (n : option nat) (i : dinstr) (d : dstate) : dstate := dstep (with_nmax n i) d.

(* MultiOperator.__call__ (since /repo c26a99a): the members are called in turn (the first one out of place if requested,
   the others in place), each with its full semantics -- differentiable members do their derivative bookkeeping, plain
   members propagate the partials.  Same value in both modes; an empty MultiOperator leaves the state unchanged. *)
Definition multi_in (n : option nat) (l : list dinstr) (d : dstate) : dstate :=
  fold_left (fun d i => dstep (with_nmax n i) d) l d.
Definition multi_out (n : option nat) (l : list dinstr) (d : dstate) : dstate := multi_in n l d.

Definition apply_value (vo vs : value) (inplace : bool) : value :=
  match vo, vs with
  | VOp i, VSm s =>
      VSm (mkSmv ((if inplace then apply_in else apply_out) (sv_nmax s) i (sv_d s)) (sv_nmax s))
  | VMulti l, VSm s =>
      VSm (mkSmv ((if inplace then multi_in else multi_out) (sv_nmax s) l (sv_d s)) (sv_nmax s))
  | _, _ => VErr
  end.

Definition copy_value (vs : value) : value :=
  match vs with
  | VSm s => VSm (mkSmv (drop_partials (sv_d s)) (sv_nmax s))
  | _ => VErr
  end.

Definition ops_of (v : value) : option (list dinstr) :=
  match v with VOp i => Some [i] | VMulti l => Some l | _ => None end.

(* Operator.__mul__ : a NEW MultiOperator of both operand lists *)
Definition mul_value (a b : value) : value :=
  match ops_of a, ops_of b with
  | Some x, Some y => VMulti (x ++ y)
  | _, _ => VErr
  end.

Definition items_of (v : value) : option (list item) :=
  match v with
  | VOp i => Some [IOp i]
  | VMulti l => Some (map IOp l)
  | VProbe p => Some [IProbe p]
  | VSeq l => Some l
  | _ => None
  end.

Fixpoint mkseq_items (vs : list value) : option (list item) :=
  match vs with
  | [] => Some []
  | v :: t => match items_of v, mkseq_items t with
              | Some x, Some y => Some (x ++ y)
              | _, _ => None
              end
  end.
Definition mkseq_value (vs : list value) : value :=
  match mkseq_items vs with Some l => VSeq l | None => VErr end.

(* ---- probes ---- *)
Definition z0 (s : sm S) : S := fz (centre (st s)).
Definition acquire (p : probe) (d : dstate) : list S :=
  match p with
  | PF0 => [f0 S (d_main d)]
  | PZ0 => [z0 (d_main d)]
  | PF0Z0 => [f0 S (d_main d); z0 (d_main d)]
  | PJac vars => jacobian d vars
  | PHess vars => concat (hessian d vars)
  end.

Definition acquire_value (vp vs : value) : value :=
  match vp, vs with
  | VProbe p, VSm s => VRes [acquire p (sv_d s)]
  | _, _ => VErr
  end.

(* ---- simulate ---- *)
(* simulate_simple: every operator in place; at a probe record (custom probe or the probe itself) *)
Fixpoint sim_loop (n : option nat) (custom : option probe) (items : list item) (d : dstate)
  : list (list S) :=
  match items with
  | [] => []
  | IOp i :: t => sim_loop n custom t (apply_in n i d)
  | IProbe p :: t => acquire (match custom with Some q => q | None => p end) d :: sim_loop n custom t d
  end.

Definition merge_nmax (opt init : option nat) : option nat :=
  match opt with Some m => Some m | None => init end.

Definition simulate_value (vq : value) (vi : option value) (nmax : option nat) (vp : option value) : value :=
  let start :=
    match vi with
    | None => Some (dinit (init k1), nmax)
    | Some (VSm s) => Some (dinit (d_main (sv_d s)), merge_nmax nmax (sv_nmax s))
    | Some _ => None
    end in
  let custom :=
    match vp with
    | None => Some None
    | Some (VProbe p) => Some (Some p)
    | Some _ => None
    end in
  match vq, start, custom with
  | VSeq l, Some (d, n), Some cp => VRes (sim_loop n cp l d)
  | _, _, _ => VErr
  end.

(* ---- the API as a function of the ARGUMENT VALUES only ---- *)
Definition call_fun (c : call) (args : list value) : value :=
  match c, args with
  | CApply _ _ inplace, [vo; vs] => apply_value vo vs inplace
  | CCopy _, [vs] => copy_value vs
  | CMul _ _, [a; b] => mul_value a b
  | CMkSeq _, vs => mkseq_value vs
  | CSimulate _ None n None, [vq] => simulate_value vq None n None
  | CSimulate _ (Some _) n None, [vq; vi] => simulate_value vq (Some vi) n None
  | CSimulate _ None n (Some _), [vq; vp] => simulate_value vq None n (Some vp)
  | CSimulate _ (Some _) n (Some _), [vq; vi; vp] => simulate_value vq (Some vi) n (Some vp)
  | CAcquire _ _, [vp; vs] => acquire_value vp vs
  | _, _ => VErr
  end.

Definition result (st : store) (c : call) : value := call_fun c (map (look st) (refs c)).

Fixpoint upd {A} (k : nat) (v : A) (l : list A) : list A :=
  match l, k with
  | [], _ => []
  | _ :: t, O => v :: t
  | x :: t, Datatypes.S k' => x :: upd k' v t
  end.

Definition is_sm (v : value) : bool := match v with VSm _ => true | _ => false end.

(* the only call that replaces an entry: in-place application, on its state-matrix argument,
   and only when the call is well-typed (result is a state matrix) *)
Definition inplace_target (st : store) (c : call) : option nat :=
  match c with
  | CApply _ s true => if is_sm (result st c) && is_sm (look st s) then Some s else None
  | _ => None
  end.

Definition sem (st : store) (c : call) : store * value :=
  let v := result st c in
  match inplace_target st c with
  | Some s => (upd s v st ++ [VNone], v)
  | None => (st ++ [v], v)
  end.

Definition history := list call.

Fixpoint run_hist (st : store) (h : history) : store * list value :=
  match h with
  | [] => (st, [])
  | c :: t => let (st', v) := sem st c in
              let (st'', vs) := run_hist st' t in (st'', v :: vs)
  end.

Definition out_of_place (c : call) : bool :=
  match c with CApply _ _ true => false | _ => true end.

End Purity.

Arguments IOp {S}. Arguments IProbe {S}.
Arguments mkSmv {S}. Arguments sv_d {S}. Arguments sv_nmax {S}.
Arguments VSm {S}. Arguments VOp {S}. Arguments VMulti {S}. Arguments VProbe {S}. Arguments VSeq {S}.
Arguments VRes {S}. Arguments VNone {S}. Arguments VErr {S}.
Arguments look {S}. Arguments result {S}. Arguments sem {S}. Arguments run_hist {S}.
Arguments call_fun {S}. Arguments apply_value {S}. Arguments copy_value {S}. Arguments mul_value {S}.
Arguments mkseq_value {S}. Arguments simulate_value {S}. Arguments acquire_value {S}. Arguments acquire {S}.
Arguments apply_in {S}. Arguments apply_out {S}. Arguments multi_in {S}. Arguments multi_out {S}.
Arguments drop_partials {S}. Arguments with_nmax {S}. Arguments prim_op {S}. Arguments sim_loop {S}.
Arguments inplace_target {S}. Arguments is_sm {S}. Arguments upd {A}.

(* ---- correspondence verdict (executed over QIops by props/c09.py) ---- *)
Section Check.
Variable S : ScalOps.

Inductive obsv : Type :=
| ObSm (m : sm S) (o1 : list (nat * sm S)) (o2 : list ((nat * nat) * sm S))
| ObRes (r : list (list S))
| ObNone.

Definition value_obs_eqb (v : value S) (o : obsv) : bool :=
  match o, v with
  | ObNone, _ => true
  | ObSm m o1 o2, VSm s => dstate_eqb (sv_d s) m o1 o2
  | ObRes r', VRes r => all2 (all2 (@keqb S)) r r'
  | _, _ => false
  end.

(* every call result equals the observed result, and at the end every listed store entry equals the
   observed final content of the corresponding implementation object *)
Definition hist_ok (st0 : list (value S)) (h : list call) (obs : list obsv) (final : list (nat * obsv)) : bool :=
  let (st, vs) := run_hist st0 h in
  all2 value_obs_eqb vs obs &&
  forallb (fun ko => value_obs_eqb (look st (fst ko)) (snd ko)) final.

End Check.

Arguments ObSm {S}. Arguments ObRes {S}. Arguments ObNone {S}. Arguments hist_ok {S}. Arguments value_obs_eqb {S}.
