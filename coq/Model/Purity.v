(* C09 stub: to be written *)
