(* C18 — shaped RF pulses (epgpy/rfpulse.py).

   The model is written once over an abstract number interface [NumOps] and used at two
   instances: canonical rationals [QcNum] (EXECUTED with vm_compute by the correspondence
   check against the operator list that RFPulse(...) really builds) and the reals [RNum]
   (theorems, with the GENERATED matrices T_op / Phi_op / E_op / P_op of Gen/*.v).

   A sample of the waveform is the pair (|v|, arg v in degree) -- exactly the two numbers
   make_pulse_sequence extracts from the complex value with np.abs / np.angle(deg=True).

   Mirrors:
     make_pulse_sequence  rfpulse.py:141-197      [make_pulse_sequence]
     rfpulse()            rfpulse.py:104-138      [resolve_rf], [rfpulse]
     functions.modify / default_modifier 251-347  [modify_op], [modify]
     MultiOperator.append duration bookkeeping    [total_duration]
     estimate_alpha / estimate_rf (constant-phase branch) 200-259
     encode_phase         rfpulse.py:321-346      [encode_phase]                          *)
From Coq Require Import List ZArith QArith Qcanon Reals Bool Lia.
From Coquelicot Require Import Coquelicot.
From EPG Require Import Scalar State Ops CInst Transition Evolution.
Import ListNotations.

Record NumOps : Type := mkNum {
  num :> Type;
  nofZ : Z -> num;
  nadd : num -> num -> num;
  nmul : num -> num -> num;
  nopp : num -> num;
  ndiv : num -> num -> num;
  neqb : num -> num -> bool;
  nltb : num -> num -> bool
}.

Definition QcNum : NumOps :=
  mkNum Qc (fun z => Q2Qc (inject_Z z)) Qcplus Qcmult Qcopp Qcdiv Qc_eq_bool
        (fun a b => match (a ?= b)%Qc with Lt => true | _ => false end).

(* rational literal a/b (used by the generated case files) *)
Definition qq (a : Z) (b : positive) : Qc := Q2Qc (a # b).

Definition RNum : NumOps :=
  mkNum R IZR Rplus Rmult Ropp Rdiv
        (fun a b => if Req_EM_T a b then true else false)
        (fun a b => if Rlt_dec a b then true else false).

Section PulseModel.
Variable N : NumOps.

(* the operators an RFPulse is made of, with the attributes the implementation stores *)
Inductive pop : Type :=
| PPhi (phi : N)                       (* transition.Phi(phi), duration 0 *)
| PT (alpha phi dur : N)               (* transition.T(alpha, phi, duration=dur) *)
| PE (tau T1 T2 g : N)                 (* evolution.E(tau, T1, T2, g, duration=0) *)
| PP (tau g : N).                      (* evolution.P(tau, g, duration=0) *)

Definition pop_duration (o : pop) : N :=
  match o with PT _ _ d => d | _ => nofZ N 0 end.

(* MultiOperator.__init__/append: self.duration = 0; self.duration += op.duration, in order *)
Definition total_duration (ops : list pop) : N :=
  fold_left (fun acc o => nadd N acc (pop_duration o)) ops (nofZ N 0).

Definition sample : Type := (N * N)%type.      (* (|v|, arg v [degree]) *)

Inductive dspec : Type :=
| DScalar (d : N)                      (* np.isscalar(duration) *)
| DList (ds : list N).                 (* one duration per sample *)

(* durations = np.ones(nvalue) * duration / nvalue   |   np.asarray(duration) if len matches *)
Definition sample_durations (n : nat) (dur : dspec) : option (list N) :=
  match dur with
  | DScalar d => Some (repeat (ndiv N (nmul N (nofZ N 1) d) (nofZ N (Z.of_nat n))) n)
  | DList ds => if Nat.eqb (length ds) n then Some ds else None
  end.

Definition pulse_body (vals : list sample) (ds : list N) (rf : N) : list pop :=
  map (fun vd => PT (nmul N (nmul N (nofZ N 180) (fst (fst vd))) rf) (snd (fst vd)) (snd vd))
      (combine vals ds).

(* `if offset:` -- None and 0 give no Phi pair *)
Definition wrap_offset (offset : option N) (body : list pop) : list pop :=
  match offset with
  | None => body
  | Some o => if neqb N o (nofZ N 0) then body else PPhi (nopp N o) :: body ++ [PPhi o]
  end.

(* None = ValueError (empty waveform: np.max of an empty array; a magnitude > 1; duration list of the
   wrong length; a negative duration, rejected by Operator.__init__ of the T being built) *)
Definition make_pulse_sequence (vals : list sample) (dur : dspec) (rf : N) (offset : option N)
  : option (list pop) :=
  if Nat.eqb (length vals) 0 then None
  else if existsb (fun v => nltb N (nofZ N 1) (fst v)) vals then None
  else match sample_durations (length vals) dur with
       | None => None
       | Some ds =>
         if existsb (fun d => nltb N d (nofZ N 0)) ds then None
         else Some (wrap_offset offset (pulse_body vals ds rf))
       end.

(* functions.default_modifier (no 'att'): an operator with duration > 0 is followed by P (g only)
   or by E (T1 or T2 given; missing ones default to 1e10, 1e10, 0), both with duration 0 *)
Definition dflt (d : N) (x : option N) : N := match x with Some v => v | None => d end.
Definition big : N := nofZ N 10000000000.

Definition modify_op (T1 T2 g : option N) (o : pop) : list pop :=
  if nltb N (nofZ N 0) (pop_duration o) then
    match T1, T2, g with
    | None, None, None => [o]
    | None, None, Some f => [o; PP (pop_duration o) f]
    | _, _, _ => [o; PE (pop_duration o) (dflt big T1) (dflt big T2) (dflt (nofZ N 0) g)]
    end
  else [o].

(* functions.modify(seq, T1=, T2=, g=, expand=False) followed by the flattening done by
   MultiOperator.append (a MultiOperator operand is extended in place) *)
Definition modify (T1 T2 g : option N) (ops : list pop) : list pop :=
  flat_map (modify_op T1 T2 g) ops.

(* constant-phase branch of estimate_rf: alpha / 180 / np.abs(np.sum(values)) *)
Definition estimate_rf_const (abs_sum alpha : N) : N := ndiv N (ndiv N alpha (nofZ N 180)) abs_sum.

(* rfpulse(): rf given -> used as is (alpha only stored); only alpha -> estimate_rf; none -> ValueError *)
Definition resolve_rf (abs_sum : N) (rf alpha : option N) : option N :=
  match rf, alpha with
  | Some r, _ => Some r
  | None, Some a => Some (estimate_rf_const abs_sum a)
  | None, None => None
  end.

Definition rfpulse (vals : list sample) (dur : dspec) (rf alpha phi T1 T2 g : option N) (abs_sum : N)
  : option (list pop) :=
  match resolve_rf abs_sum rf alpha with
  | None => None
  | Some r =>
    match make_pulse_sequence vals dur r phi with
    | None => None
    | Some seq =>
      Some (match T1, T2, g with
            | None, None, None => seq
            | _, _, _ => modify (Some (dflt big T1)) (Some (dflt big T2)) (Some (dflt (nofZ N 0) g)) seq
            end)
    end
  end.

(* utils.space_to_freq: grad * 1e-6 * gamma * position *)
Definition space_to_freq (grad gamma x : N) : N :=
  nmul N (nmul N (nmul N grad (ndiv N (nofZ N 1) (nofZ N 1000000))) gamma) x.

(* encode_phase at one spatial position x (the implementation carries the whole position array on a
   new axis; every operator acts element-wise along it): modify(pulse, g=freqs) and the optional
   rewinder P(pulse.duration * rewind, g=-freqs) *)
Definition encode_phase (ops : list pop) (pulse_duration grad gamma x : N) (rewind : option N) : list pop :=
  let f := space_to_freq grad gamma x in
  modify None None (Some f) ops ++
  match rewind with None => [] | Some rw => [PP (nmul N pulse_duration rw) (nopp N f)] end.

(* ---- executable comparison with the observed operator list ---- *)
Definition nabs (x : N) : N := if nltb N x (nofZ N 0) then nopp N x else x.
Definition nleb (a b : N) : bool := negb (nltb N b a).
(* |x - y| <= eps * (1 + |y|); eps = 0 means exact equality *)
Definition close (eps x y : N) : bool :=
  nleb (nabs (nadd N x (nopp N y))) (nmul N eps (nadd N (nofZ N 1) (nabs y))).

Definition pop_close (eps : N) (a b : pop) : bool :=
  match a, b with
  | PPhi p, PPhi p' => close eps p p'
  | PT a1 p1 d1, PT a2 p2 d2 => close eps a1 a2 && close eps p1 p2 && close eps d1 d2
  | PE t a1 a2 g1, PE t' b1 b2 g2 => close eps t t' && close eps a1 b1 && close eps a2 b2 && close eps g1 g2
  | PP t g1, PP t' g2 => close eps t t' && close eps g1 g2
  | _, _ => false
  end.

Definition ops_close (eps : N) (m o : option (list pop)) : bool :=
  match m, o with
  | None, None => true
  | Some a, Some b => all2 (pop_close eps) a b
  | _, _ => false
  end.

End PulseModel.

Arguments PPhi {N}. Arguments PT {N}. Arguments PE {N}. Arguments PP {N}.
Arguments DScalar {N}. Arguments DList {N}.

(* ======================= real-number semantics ======================= *)
Local Open Scope R_scope.

(* action of one operator on one phase state x, e = equilibrium entry of that phase state *)
Definition act_coef (c : triple Cops * option (triple Cops)) (e x : triple Cops) : triple Cops :=
  match snd c with
  | None => sv (fst c) x
  | Some b => tadd (sv (fst c) x) (sv b e)
  end.

Definition act (o : pop RNum) (e x : triple Cops) : triple Cops :=
  match o with
  | PPhi p => mv (Phi_op p) x
  | PT a p _ => mv (T_op a p) x
  | PE tau T1 T2 g => act_coef (E_op tau T1 T2 g) e x
  | PP tau g => act_coef (P_op tau g) e x
  end.

(* operators are applied in list order *)
Definition act_list (ops : list (pop RNum)) (e x : triple Cops) : triple Cops :=
  fold_left (fun y o => act o e y) ops x.

(* the same operators as operators of the state-matrix model (Model/Ops.v) *)
Definition to_op (o : pop RNum) : op Cops :=
  match o with
  | PPhi p => OMatrix (Phi_op p) None
  | PT a p _ => OMatrix (T_op a p) None
  | PE tau T1 T2 g => OScalar (fst (E_op tau T1 T2 g)) (snd (E_op tau T1 T2 g))
  | PP tau g => OScalar (fst (P_op tau g)) (snd (P_op tau g))
  end.

(* ordered matrix product  M_n . ... . M_1 . Id  of a list [M_1; ...; M_n] *)
Definition mprod (ms : list (mat3 Cops)) : mat3 Cops :=
  fold_left (fun acc m => mmul m acc) ms mid.

(* opmatrix.matrix_combine_multi: mat = mats[0]; for m in mats[1:]: mat = m @ mat *)
Definition combine_multi (ms : list (mat3 Cops)) : mat3 Cops :=
  match ms with
  | [] => mid
  | h :: t => fold_left (fun acc m => mmul m acc) t h
  end.

(* matrix of a relaxation-free operator *)
Definition mat_of (o : pop RNum) : mat3 Cops :=
  match o with
  | PPhi p => Phi_op p
  | PT a p _ => T_op a p
  | _ => mid
  end.
Definition is_rot (o : pop RNum) : Prop :=
  match o with PPhi _ | PT _ _ _ => True | _ => False end.

Definition e3 : triple Cops := @mk3 Cops (RtoC 0) (RtoC 0) (RtoC 1).

(* np.clip(z, -1, 1) = minimum(maximum(z, -1), 1) *)
Definition clip1 (z : R) : R := Rmin (Rmax z (-1)) 1.

(* estimate_alpha(values, rf), lines 200-223 (after fix 4cedc70: the cosine is clipped, no mod wrapping) *)
Definition estimate_alpha_post (z : R) : R := acos (clip1 z) / PI * 180.
Definition estimate_alpha (vals : list (R * R)) (rf : R) : R :=
  let M := combine_multi (map (fun v => rotation_operator (rf * 180 * fst v) (snd v)) vals) in
  estimate_alpha_post (fst (fz (mv M e3))).

(* complex value of a sample and np.abs(np.sum(values)) *)
Definition polar (v : R * R) : C := (fst v * cos (snd v * PI / 180), fst v * sin (snd v * PI / 180)).
Definition csum (vals : list (R * R)) : C := fold_right Cplus (RtoC 0) (map polar vals).
Definition estimate_rf (vals : list (R * R)) (alpha : R) : R :=
  estimate_rf_const RNum (Cmod (csum vals)) alpha.

(* constant-phase waveform: v = s * exp(i p) with a signed real amplitude s; numpy reports a negative
   amplitude as magnitude -s and phase p +/- 180, and a zero sample with whatever phase *)
Definition cp_sample (p s : R) (v : R * R) : Prop :=
  fst v = Rabs s /\ (s = 0 \/ (0 < s /\ snd v = p) \/ (s < 0 /\ (snd v = p + 180 \/ snd v = p - 180))).
Definition rsum (l : list R) : R := fold_right Rplus 0 l.

Definition shift_phase (o : R) (b : pop RNum) : pop RNum :=
  match b with
  | PT a p d => PT a (p + o) d
  | other => other
  end.
