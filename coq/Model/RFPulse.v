(* C18 stub: to be written *)
