(* C12 stub: to be written *)
