(* C12 — the simulate loop with probes, acquisition times, flatten, modify.
   Mirrors epgpy/functions.py: simulate / simulate_simple (probe override,
   post of the in-sequence operator, times, transposition, single-probe
   flattening), get_adc_times, flatten_sequence, modify / default_modifier;
   epgpy/probe.py: Probe / Adc (_acquire: weights, reduce; _post: phasor);
   epgpy/operator.py: durations (MultiOperator = sum of members).

   State: a 1-D batch (shape (B,)) of independent scalar state matrices; every
   operator of Model/Ops.v acts on each member.  Weights / reduce / phasor are
   modelled for this 1-D batch axis (numpy broadcasting of 1-D arrays whose
   sizes are equal or 1).  Durations are scalars (Qc).

   External constructors (coefficients of T / E / P are the business of C01,
   C02; here only WHICH operator is built from WHICH parameters matters) are
   section variables: [par] parameter values, [mkT mkE mkP] constructors.     *)
From Coq Require Import List ZArith Lia Bool QArith Qcanon.
From EPG Require Import Scalar State Ops.
Import ListNotations.

(* 0 < d on canonical rationals, executable *)
Definition qc_pos (d : Qc) : bool := (0 <? Qnum (this d))%Z.

Section Run.
Variable S : ScalOps.
Notation sm := (sm S).
Notation op := (op S).

(* ------------------------------------------------------------------ batch *)
Definition bstate := list sm.
Definition bapply (o : op) (b : bstate) : bstate := map (apply o) b.
Definition brun (ops : list op) (b : bstate) : bstate :=
  fold_left (fun b o => bapply o b) ops b.

(* ------------------------------------------------------------------ probes *)
(* what a probe reads: F0, Z0 (centre state) or any function of the state
   (Probe("expression") / Probe(callable)) *)
Inductive quantity : Type :=
| QF0 | QZ0 | QFun (f : sm -> S)
| QTuple (fs : list (sm -> list S)).   (* Probe("(F0, Z0)"), Probe(lambda sm: (sm.F, sm.Z)): tuple / list of arrays *)
Definition qeval (q : quantity) (s : sm) : S :=
  match q with
  | QF0 => fp (centre (st s))
  | QZ0 => fz (centre (st s))
  | QFun f => f s
  | QTuple _ => k0                      (* a tuple has no single value: see [qarr] *)
  end.
(* the array a probe reads on a batch: one number per member; for a tuple the components one after
   the other (component-major, as numpy stacks them), each over the batch, each possibly an array *)
Definition qarr (q : quantity) (b : bstate) : list S :=
  match q with
  | QTuple fs => flat_map (fun f => flat_map f b) fs
  | _ => map (qeval q) b
  end.

(* a recorded value: 1-D array over the batch axis, or a single number (0-d) after reduction *)
Definition value := list S.

(* numpy broadcasting x (op) y of two 1-D arrays whose sizes are equal or 1 *)
Definition bcast2 (f : S -> S -> S) (x y : value) : value :=
  match x, y with
  | [a], _ => map (f a) y
  | _, [c] => map (fun u => f u c) x
  | _, _ => map (fun uv => f (fst uv) (snd uv)) (combine x y)
  end.

Fixpoint ksum (l : value) : S :=
  match l with [] => k0 | x :: t => (x + ksum t)%K end.

(* Adc(attr, phase=, reduce=, weights=):  reduce argument as given *)
Inductive reduce_arg : Type := RNone | RTrue | RFalse | RAxes.

Record probe : Type := mkProbe {
  pq : quantity;
  pweights : option value;      (* weights (1-D or size 1) *)
  preduce : reduce_arg;
  pphasor : option value        (* exp(i*phase) : size 1 or batch size; None when phase is None *)
}.

(* Adc.__init__: reduce=None with weights -> all weights axes; _acquire: None/False -> no sum *)
Definition reduces (p : probe) : bool :=
  match preduce p with
  | RNone => match pweights p with Some _ => true | None => false end
  | RTrue | RAxes => true
  | RFalse => false
  end.

(* Adc._acquire: attribute, times weights, summed when reducing *)
Definition pacq (p : probe) (b : bstate) : value :=
  let arr := qarr (pq p) b in
  let arr := match pweights p with None => arr | Some w => bcast2 kmul arr w end in
  if reduces p then [ksum arr] else arr.

(* Adc._post: phase compensation, after reduction *)
Definition ppost (p : probe) (v : value) : value :=
  match pphasor p with None => v | Some ph => bcast2 kmul v ph end.

(* Probe.acquire(sm, post=...) *)
Definition acquire (pb : probe) (post : value -> value) (b : bstate) : value := post (pacq pb b).

(* ------------------------------------------------------------------ sequences *)
Variable par : Type.                         (* parameter values (angles, T1, T2, g, att) *)
Variable mkT : par -> par -> op.             (* operators.T(alpha, phi) *)
Variable mkE : Qc -> par -> par -> par -> op.  (* operators.E(tau, T1, T2, g) *)
Variable mkP : Qc -> par -> op.              (* operators.P(tau, g) *)
Variable pscale : par -> par -> par.         (* alpha * att *)
Variable is_one : par -> bool.               (* np.allclose(att, 1) *)
Variable pbig pzero : par.                   (* 1e10, 0 *)

(* operator descriptions: a ready-made operator, or one of the constructors modify() knows/creates *)
Inductive opd : Type :=
| DOp (o : op)
| DT (alpha phi : par)
| DE (tau : Qc) (T1 T2 g : par)
| DP (tau : Qc) (g : par).
Definition den (x : opd) : op :=
  match x with
  | DOp o => o
  | DT a p => mkT a p
  | DE t a b g => mkE t a b g
  | DP t g => mkP t g
  end.

(* a flat sequence item; [id] stands for Python object identity (same id = same object) *)
Inductive item : Type :=
| IOp (id : nat) (x : opd) (d : Qc)
| IProbe (id : nat) (p : probe) (d : Qc).
Definition dur (i : item) : Qc := match i with IOp _ _ d => d | IProbe _ _ d => d end.
Definition item_id (i : item) : nat := match i with IOp n _ _ => n | IProbe n _ _ => n end.
Definition is_probe (i : item) : bool := match i with IProbe _ _ _ => true | _ => false end.

(* nested lists and MultiOperators ([multi] = true) *)
Inductive tree : Type :=
| Leaf (i : item)
| Node (multi : bool) (l : list tree).

(* flatten_sequence (flatten_multi=True) *)
Fixpoint flat (t : tree) : list item :=
  match t with
  | Leaf i => [i]
  | Node _ l => flat_map flat l
  end.
Definition flat_seq (l : list tree) : list item := flat_map flat l.

Fixpoint qsum (l : list Qc) : Qc := match l with [] => Q2Qc 0 | x :: t => x + qsum t end.

(* MultiOperator.duration: accumulated by append(), a nested MultiOperator contributes its own duration *)
Fixpoint tree_dur (t : tree) : Qc :=
  match t with
  | Leaf i => dur i
  | Node _ l => qsum (map tree_dur l)
  end.

(* simulate_simple: returns (rows, times); a row has one value per override probe (or one) *)
Definition overrides := list (option probe).
Definition row_of (p : probe) (ov : overrides) (b : bstate) : list value :=
  map (fun pb => acquire (match pb with Some q => q | None => p end) (ppost p) b)
      (match ov with [] => [None] | _ => ov end).

Fixpoint sim (seq : list item) (ov : overrides) (b : bstate) (tic : Qc) : list (list value) * list Qc :=
  match seq with
  | [] => ([], [])
  | IOp _ x d :: t => sim t ov (bapply (den x) b) (tic + d)
  | IProbe _ p d :: t =>
      let tic' := tic + d in
      let r := sim t ov b tic' in
      (row_of p ov b :: fst r, tic' :: snd r)
  end.

(* get_adc_times *)
Fixpoint adc_times_from (seq : list item) (tim : Qc) : list Qc :=
  match seq with
  | [] => []
  | i :: t => let tim' := tim + dur i in
              if is_probe i then tim' :: adc_times_from t tim' else adc_times_from t tim'
  end.
Definition adc_times (seq : list item) : list Qc := adc_times_from seq (Q2Qc 0).
Definition get_adc_times (l : list tree) : list Qc := adc_times (flat_seq l).

(* simulate(): values = tuple(zip( *values )), single flattening *)
Definition nprobes (ov : overrides) : nat := match ov with [] => 1%nat | _ => length ov end.
Definition transpose (n : nat) (rows : list (list value)) : list (list value) :=
  tab n (fun j => map (fun r => nth j r []) rows).
Inductive simout : Type := Single (l : list value) | Multi (ll : list (list value)).
Definition simulate_model (l : list tree) (ov : overrides) (b : bstate) : simout * list Qc :=
  let r := sim (flat_seq l) ov b (Q2Qc 0) in
  let v := transpose (nprobes ov) (fst r) in
  (match v with [x] => Single x | _ => Multi v end, snd r).

(* ------------------------------------------------------------------ modify *)
Record mparams : Type := mkMP { mT1 : option par; mT2 : option par; mg : option par; matt : option par }.

Definition odefault (d : par) (x : option par) : par := match x with Some v => v | None => d end.

(* the evolution default_modifier attaches to an operator of duration d *)
Definition evol_of (P : mparams) (d : Qc) : option opd :=
  match mT1 P, mT2 P, mg P with
  | None, None, None => None
  | None, None, Some g => Some (DP d g)
  | a, b, g => Some (DE d (odefault pbig a) (odefault pbig b) (odefault pzero g))
  end.

(* ids of the objects modify() creates for the original object [n]: (new T, attached evolution) *)
Definition tid (n : nat) : nat := (3 * n + 1)%nat.
Definition eid (n : nat) : nat := (3 * n + 2)%nat.

(* B1 attenuation: a T operator is rebuilt with alpha*att (same phi, same duration) *)
Definition att_item (P : mparams) (i : item) : item :=
  match i with
  | IOp n (DT a p) d =>
      match matt P with
      | None => i
      | Some k => if is_one k then i else IOp (tid n) (DT (pscale a k) p) d
      end
  | _ => i
  end.

(* default_modifier: returns the operator itself or the MultiOperator  op * E(duration=0) *)
Definition modifier (P : mparams) (i : item) : tree :=
  let i' := att_item P i in
  if qc_pos (dur i') then
    match evol_of P (dur i') with
    | None => Leaf i'
    | Some e => Node true [Leaf i'; Leaf (IOp (eid (item_id i)) e (Q2Qc 0))]
    end
  else Leaf i'.

Fixpoint lookup (n : nat) (memo : list (nat * tree)) : option tree :=
  match memo with
  | [] => None
  | (m, t) :: r => if Nat.eqb n m then Some t else lookup n r
  end.

(* the loop of modify(): memo [opdict] keyed by operator object *)
Fixpoint modify_go (P : mparams) (seq : list item) (memo : list (nat * tree)) : list tree :=
  match seq with
  | [] => []
  | i :: t =>
      match lookup (item_id i) memo with
      | Some tr => tr :: modify_go P t memo
      | None => let tr := modifier P i in tr :: modify_go P t ((item_id i, tr) :: memo)
      end
  end.

Definition has_params (P : mparams) : bool :=
  match mT1 P, mT2 P, mg P, matt P with None, None, None, None => false | _, _, _, _ => true end.

(* modify(sequence, **params) with the default modifier: list of (Multi)operators.
   [kw]: some keyword was passed (possibly with value None); without any keyword the
   sequence itself is returned *)
Definition modify_model (l : list tree) (P : mparams) (kw : bool) : list tree :=
  if kw then modify_go P (flat_seq l) [] else l.

(* specification: after every item of positive duration, an evolution of that duration
   (own duration 0); flip angles of T scaled by att *)
Definition insert_E (seq : list item) (P : mparams) : list item :=
  flat_map (fun i =>
    let i' := att_item P i in
    i' :: (if qc_pos (dur i) then
             match evol_of P (dur i) with Some e => [IOp (eid (item_id i)) e (Q2Qc 0)] | None => [] end
           else [])) seq.

(* ------------------------------------------------------------------ executable comparisons *)
Fixpoint list_eq_nat (x y : list nat) : bool :=
  match x, y with
  | [], [] => true
  | a :: x', b :: y' => Nat.eqb a b && list_eq_nat x' y'
  | _, _ => false
  end.
Definition veqb (x y : value) : bool := all2 keqb x y.
Definition vseqb (x y : list value) : bool := all2 veqb x y.
Definition qceqb (x y : list Qc) : bool := all2 Qc_eq_bool x y.
Definition simout_eqb (a b : simout) : bool :=
  match a, b with
  | Single x, Single y => vseqb x y
  | Multi x, Multi y => all2 vseqb x y
  | _, _ => false
  end.
(* same with a caller-supplied comparison of scalars (tolerance for the inexact float phasor) *)
Definition simout_cmp (cmp : S -> S -> bool) (a b : simout) : bool :=
  match a, b with
  | Single x, Single y => all2 (all2 cmp) x y
  | Multi x, Multi y => all2 (all2 (all2 cmp)) x y
  | _, _ => false
  end.

(* durations of the MultiOperators of a nested sequence, pre-order *)
Fixpoint multi_durs (t : tree) : list Qc :=
  match t with
  | Leaf _ => []
  | Node m l => (if m then [tree_dur t] else []) ++ flat_map multi_durs l
  end.

(* verdict of one correspondence case: values, times of simulate(adc_time=True), get_adc_times,
   MultiOperator.duration attributes *)
Definition sim_ok_by (cmp : S -> S -> bool) (l : list tree) (ov : overrides) (b : bstate)
    (vals : simout) (times adc mdur : list Qc) : bool :=
  let r := simulate_model l ov b in
  simout_cmp cmp (fst r) vals && qceqb (snd r) times && qceqb (get_adc_times l) adc
  && qceqb (flat_map multi_durs l) mdur.
Definition sim_ok := sim_ok_by keqb.

(* ---- structural comparison of modify() output (object identity by first occurrence) ---- *)
Variable par_eqb : par -> par -> bool.
Definition opd_eqb (x y : opd) : bool :=
  match x, y with
  | DOp _, DOp _ => true                       (* ready-made operators are compared by identity (ids) *)
  | DT a p, DT a' p' => par_eqb a a' && par_eqb p p'
  | DE t a b g, DE t' a' b' g' => Qc_eq_bool t t' && par_eqb a a' && par_eqb b b' && par_eqb g g'
  | DP t g, DP t' g' => Qc_eq_bool t t' && par_eqb g g'
  | _, _ => false
  end.
(* original objects carry ids = 0 mod 3 and must coincide; created objects are matched by content *)
Definition id_ok (n m : nat) : bool :=
  if Nat.eqb (n mod 3) 0 then Nat.eqb n m else negb (Nat.eqb (m mod 3) 0).
Definition item_eqb (i j : item) : bool :=
  match i, j with
  | IOp n x d, IOp m y e => id_ok n m && opd_eqb x y && Qc_eq_bool d e
  | IProbe n _ d, IProbe m _ e => Nat.eqb n m && Qc_eq_bool d e
  | _, _ => false
  end.
Fixpoint tree_eqb (s t : tree) : bool :=
  match s, t with
  | Leaf i, Leaf j => item_eqb i j
  | Node m l, Node m' l' =>
      Bool.eqb m m' &&
      (fix go (a b : list tree) : bool :=
         match a, b with
         | [], [] => true
         | x :: a', y :: b' => tree_eqb x y && go a' b'
         | _, _ => false
         end) l l'
  | _, _ => false
  end.
Fixpoint index_of (n : nat) (l : list nat) : nat :=
  match l with [] => 0%nat | m :: r => if Nat.eqb n m then 0%nat else Datatypes.S (index_of n r) end.
Definition first_occ (l : list nat) : list nat := map (fun n => index_of n l) l.
(* modify() returned [obs]: same nesting, same operators, same sharing of objects, same durations *)
Definition modify_ok (l : list tree) (P : mparams) (kw : bool) (obs : list tree)
    (times times_mod : list Qc) : bool :=
  let m := modify_model l P kw in
  all2 tree_eqb m obs
  && list_eq_nat (first_occ (map item_id (flat_seq m))) (first_occ (map item_id (flat_seq obs)))
  && qceqb (get_adc_times l) times && qceqb (get_adc_times m) times_mod.
(* a MultiOperator passed to modify(): the result is one MultiOperator of the flattened members *)
Definition modify_ok_multi (l : list tree) (P : mparams) (obs : list item) (times times_mod : list Qc) : bool :=
  let m := flat_seq (modify_model l P true) in
  all2 item_eqb m obs
  && list_eq_nat (first_occ (map item_id m)) (first_occ (map item_id obs))
  && qceqb (get_adc_times l) times && qceqb (adc_times m) times_mod.

End Run.

Arguments QF0 {S}. Arguments QZ0 {S}. Arguments QFun {S}. Arguments QTuple {S}. Arguments qarr {S}.
Arguments mkProbe {S}. Arguments pq {S}. Arguments pweights {S}. Arguments preduce {S}. Arguments pphasor {S}.
Arguments qeval {S}. Arguments bcast2 {S}. Arguments ksum {S}. Arguments pacq {S}. Arguments ppost {S}.
Arguments acquire {S}. Arguments reduces {S}. Arguments bapply {S}. Arguments brun {S}.
Arguments DOp {S par}. Arguments DT {S par}. Arguments DE {S par}. Arguments DP {S par}.
Arguments IOp {S par}. Arguments IProbe {S par}. Arguments Leaf {S par}. Arguments Node {S par}.
Arguments dur {S par}. Arguments item_id {S par}. Arguments is_probe {S par}.
Arguments flat {S par}. Arguments flat_seq {S par}. Arguments tree_dur {S par}.
Arguments adc_times_from {S par}. Arguments adc_times {S par}. Arguments get_adc_times {S par}.
Arguments Single {S}. Arguments Multi {S}. Arguments transpose {S}. Arguments nprobes {S}.
Arguments row_of {S}. Arguments veqb {S}. Arguments vseqb {S}. Arguments simout_eqb {S}.
Arguments mkMP {par}. Arguments mT1 {par}. Arguments mT2 {par}. Arguments mg {par}. Arguments matt {par}.
