(* C04 stub: to be written *)
