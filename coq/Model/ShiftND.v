(* C04 / C13(n-D part): wavenumber-keyed state matrices and the n-D / gridded shift back-ends.
   Mirrors epgpy/shift.py: unique_1d, shiftnd, shiftmerge, shiftprune, round, get_shift_method,
   S._apply (padding of the shift to kdim, kvalue/tvalue scaling), G, C;
   statematrix.py: _setup_coords / setup_coords, k, t, ktvalue.

   Layout.  A (batched) state is  keys : list key  (one FLATTENED key per row: the concatenation over the
   batch entries of the kdim-vector of that row, exactly the slices np.unique(axis=-2) compares) and one
   list of triples (F+,F-,Z) per batch entry, in array order.  The index maps of the shifts depend on the keys
   only; amplitudes are relocated per batch entry; prune masks look at all batch entries.
   numpy scatter  a[idx] = v  (last write wins)  and  np.add.at(a, idx, v)  on a zero array are
   modelled index-wise ([assign_fn], [addat_fn]) as CONVENTIONS.md prescribes. *)
From Coq Require Import List ZArith Lia Bool QArith Qcanon Qround.
From EPG Require Import Scalar State.
Import ListNotations.

(* ------------------------------------------------------------------ scatter *)
Section Scatter.
Variable S : ScalOps.

Fixpoint ksum (l : list S) : S :=
  match l with [] => k0 | x :: t => (x + ksum t)%K end.

(* np.add.at(zeros, idx, src)[j] *)
Definition addat_fn (ps : list (nat * S)) (j : nat) : S :=
  ksum (map (fun p => if Nat.eqb (fst p) j then snd p else k0) ps).

(* zeros[idx] = src : the last write to a cell wins *)
Fixpoint lastmatch {B} (ps : list (nat * B)) (j : nat) : option B :=
  match ps with
  | [] => None
  | (a, v) :: t => match lastmatch t j with
                   | Some x => Some x
                   | None => if Nat.eqb a j then Some v else None
                   end
  end.
Definition assign_fn (ps : list (nat * S)) (j : nat) : S :=
  match lastmatch ps j with Some v => v | None => k0 end.

(* pairs (target cell, value) with the entries whose target was cropped away removed *)
Fixpoint opairs {B} (idx : list (option nat)) (vs : list B) : list (nat * B) :=
  match idx, vs with
  | Some a :: it, v :: vt => (a, v) :: opairs it vt
  | None :: it, _ :: vt => opairs it vt
  | _, _ => []
  end.
End Scatter.
Arguments ksum {S}. Arguments addat_fn {S}. Arguments assign_fn {S}.

(* boolean-mask indexing a[mask] *)
Fixpoint select {B} (mask : list bool) (l : list B) : list B :=
  match mask, l with
  | true :: m, x :: t => x :: select m t
  | false :: m, _ :: t => select m t
  | _, _ => []
  end.

(* ------------------------------------------------------------------ unique_1d *)
Section Unique.
Variable A : Type.
Variable le : A -> A -> bool.     (* lexicographic <= of the rows *)
Variable eqb : A -> A -> bool.
Variable dflt : A.

(* xp.lexsort(values.T[::-1]): stable argsort, column 0 most significant.
   Stable insertion sort of the row indices: [ins i l] puts i before the first j with key i <= key j;
   indices are inserted from the last to the first, so equal keys keep their original order. *)
Fixpoint ins (vals : list A) (i : nat) (l : list nat) : list nat :=
  match l with
  | [] => [i]
  | j :: t => if le (nth i vals dflt) (nth j vals dflt) then i :: l else j :: ins vals i t
  end.
Definition argsort (vals : list A) : list nat := fold_right (ins vals) [] (seq 0 (length vals)).

(* mask = r_[True, any(diff(sorted) != 0)], unique = sorted[mask], cums = cumsum(mask) - 1, fused in one pass:
   [p] = previous row (= unique[c-1]), [c] = number of unique rows so far *)
Fixpoint dd (p : A) (c : nat) (l : list A) : list A * list nat :=
  match l with
  | [] => ([], [])
  | x :: t => if eqb p x then let '(u, cs) := dd p c t in (u, (c - 1)%nat :: cs)
              else let '(u, cs) := dd x (Datatypes.S c) t in (x :: u, c :: cs)
  end.
Definition dedup (sorted : list A) : list A * list nat :=
  match sorted with
  | [] => ([], [])
  | x :: t => let '(u, cs) := dd x 1 t in (x :: u, 0%nat :: cs)
  end.

(* returns (unique, inverse): inverse[indices] = cumsum(mask) - 1 *)
Definition unique_1d (vals : list A) : list A * list nat :=
  let perm := argsort vals in
  let sorted := map (fun i => nth i vals dflt) perm in
  let '(u, cs) := dedup sorted in
  (u, tab (length vals) (fun i => match lastmatch (combine perm cs) i with Some c => c | None => 0%nat end)).
End Unique.
Arguments ins {A}. Arguments argsort {A}. Arguments dd {A}. Arguments dedup {A}. Arguments unique_1d {A}.

(* ------------------------------------------------------------------ integer keys *)
Definition key := list Z.

Fixpoint lex_cmp (a b : key) : comparison :=
  match a, b with
  | [], [] => Eq
  | [], _ => Lt
  | _, [] => Gt
  | x :: a', y :: b' => match Z.compare x y with Eq => lex_cmp a' b' | c => c end
  end.
Definition key_le (a b : key) : bool := match lex_cmp a b with Gt => false | _ => true end.
Definition key_eqb (a b : key) : bool := match lex_cmp a b with Eq => true | _ => false end.

Fixpoint vadd (a b : key) : key :=
  match a, b with x :: a', y :: b' => (x + y)%Z :: vadd a' b' | _, _ => [] end.
Definition vneg (a : key) : key := map Z.opp a.
Definition vsub (a b : key) : key := vadd a (vneg b).

Definition unique_keys (vals : list key) := unique_1d key_le key_eqb [] vals.

(* split a flattened key into its per-batch kdim-vectors *)
Fixpoint chunks (fuel kdim : nat) (l : key) : list key :=
  match fuel with
  | O => []
  | Datatypes.S f => match l with [] => [] | _ => firstn kdim l :: chunks f kdim (skipn kdim l) end
  end.
(* any over batch entries of all(|k| <= nmax over the kdim components) *)
Definition within (kdim : nat) (nmax : Z) (k : key) : bool :=
  existsb (fun v => forallb (fun x => (Z.abs x <=? nmax)%Z) v) (chunks (length k) (Nat.max kdim 1) k).

(* mapidx = -ones; mapidx[keep] = arange(count) *)
Fixpoint mapidx (c : nat) (keep : list bool) : list (option nat) :=
  match keep with
  | [] => []
  | true :: t => Some c :: mapidx (Datatypes.S c) t
  | false :: t => None :: mapidx c t
  end.

(* ------------------------------------------------------------------ shiftnd *)
Section ShiftND.
Variable S : ScalOps.
Notation triple := (triple S).

Record plan : Type := mkPlan { pk : list key; pL : list (option nat); pT : list (option nat) }.

(* index bookkeeping of shiftnd (depends on the wavenumbers only) *)
Definition shiftnd_plan (keys : list key) (dk : key) (kdim : nat) (nmax : option Z) : plan :=
  let n1 := length keys in
  let kL := keys in
  let k1T := map (fun k => vadd k dk) kL in
  let k2T := map (fun k => vsub k dk) kL in
  let '(k2, idx) := unique_keys (kL ++ k1T ++ k2T) in
  let idxL := firstn n1 idx in
  let idxT := firstn n1 (skipn n1 idx) in
  match nmax with
  | None => mkPlan k2 (map Some idxL) (map Some idxT)
  | Some m =>
      let keep := map (within kdim m) k2 in
      if forallb (fun b => b) keep then mkPlan k2 (map Some idxL) (map Some idxT)
      else let mi := mapidx 0 keep in
           mkPlan (select keep k2) (map (fun i => nth i mi None) idxL) (map (fun i => nth i mi None) idxT)
  end.

(* sm2[idxL,2] = sm[:,2]; sm2[idxT,0] = sm[:,0]; sm2[:,1] = conj(sm2[::-1,0]) for one batch entry *)
Definition relocate (p : plan) (amps : list triple) : list triple :=
  let n2 := length (pk p) in
  let F2 := assign_fn (opairs (pT p) (map (@fp S) amps)) in
  let Z2 := assign_fn (opairs (pL p) (map (@fz S) amps)) in
  tab n2 (fun j => mk3 (F2 j) (kconj (F2 (n2 - 1 - j)%nat)) (Z2 j)).

(* ~all(isclose(sm2, 0, atol=tol)) over the batch entries and the 3 components; [negl] = the tolerance test *)
Definition nonzero_mask (negl : triple -> bool) (n2 : nat) (outs : list (list triple)) : list bool :=
  tab n2 (fun j => existsb (fun o => negb (negl (nth j o t0))) outs).
Definition keep_centre (m : list bool) : list bool :=
  let c := ((length m - 1) / 2)%nat in tab (length m) (fun j => Nat.eqb j c || nth j m false).

(* shiftnd(states, indices, shift, nmax=, prune=, tol=) : (keys, one amplitude list per batch entry) *)
Definition shiftnd (negl : triple -> bool) (keys : list key) (amps : list (list triple)) (dk : key)
    (kdim : nat) (nmax : option Z) (prune : bool) : list key * list (list triple) :=
  let p := shiftnd_plan keys dk kdim nmax in
  let outs := map (relocate p) amps in
  if prune then
    let m := keep_centre (nonzero_mask negl (length (pk p)) outs) in
    (select m (pk p), map (select m) outs)
  else (pk p, outs).

(* un-batched, no crop, no pruning: rows (key, triple) *)
Definition shiftnd1 (rows : list (key * triple)) (dk : key) : list (key * triple) :=
  let p := shiftnd_plan (map fst rows) dk 1 None in
  combine (pk p) (relocate p (map snd rows)).

(* position-space synthesis with a character chi of the wavenumber group *)
Definition synthP (chi : key -> S) (rows : list (key * triple)) : S :=
  ksum (map (fun r => (chi (fst r) * fp (snd r))%K) rows).
Definition synthM (chi : key -> S) (rows : list (key * triple)) : S :=
  ksum (map (fun r => (chi (fst r) * fm (snd r))%K) rows).
Definition synthZ (chi : key -> S) (rows : list (key * triple)) : S :=
  ksum (map (fun r => (chi (fst r) * fz (snd r))%K) rows).

(* function view: amplitude stored at wavenumber k (zero when absent) *)
Fixpoint lookup (rows : list (key * triple)) (k : key) : triple :=
  match rows with
  | [] => t0
  | (k', x) :: t => if key_eqb k' k then x else lookup t k
  end.

(* well-formed n-D state: odd length, antisymmetric coordinates, F-(k) = conj F+(-k), Z(-k) = conj Z(k),
   in array terms (row n-1-i mirrors row i) *)
Definition wf_rows (rows : list (key * triple)) : Prop :=
  let n := length rows in
  Nat.odd n = true /\
  forall i, (i < n)%nat ->
    fst (nth (n - 1 - i) rows ([], t0)) = vneg (fst (nth i rows ([], t0))) /\
    fm (snd (nth i rows ([], t0))) = kconj (fp (snd (nth (n - 1 - i) rows ([], t0)))) /\
    fz (snd (nth (n - 1 - i) rows ([], t0))) = kconj (fz (snd (nth i rows ([], t0)))).

Definition triple_is0 (x : triple) : bool := keqb (fp x) k0 && keqb (fm x) k0 && keqb (fz x) k0.

(* canonical content: non-zero rows sorted by wavenumber (insertion sort on the key) *)
Fixpoint ins_row (r : key * triple) (l : list (key * triple)) : list (key * triple) :=
  match l with
  | [] => [r]
  | r' :: t => if key_le (fst r) (fst r') then r :: l else r' :: ins_row r t
  end.
Definition content (rows : list (key * triple)) : list (key * triple) :=
  fold_right ins_row [] (filter (fun r => negb (triple_is0 (snd r))) rows).
Fixpoint rows_eqb (a b : list (key * triple)) : bool :=
  match a, b with
  | [], [] => true
  | (k, x) :: a', (k', y) :: b' => key_eqb k k' && teqb x y && rows_eqb a' b'
  | _, _ => false
  end.

(* ---- StateMatrix._setup_coords(nstate, kdim): [-n..n] in column 0, zeros elsewhere *)
Definition setup_coords (n kdim : nat) : list key :=
  tab (2 * n + 1) (fun i => (Z.of_nat i - Z.of_nat n)%Z :: repeat 0%Z (kdim - 1)).
(* setup_coords on existing coords: append zero columns *)
Definition extend_coords (coords : list key) (diff : nat) : list key :=
  map (fun k => k ++ repeat 0%Z diff) coords.
(* np.pad(shift, (0, diff)) *)
Definition pad_shift (dk : key) (diff : nat) : key := dk ++ repeat 0%Z diff.

(* S._apply, "shift-nd" branch for an un-batched state (list of triples of the 1-D layout, coords None or given) *)
Definition apply_S_nd (negl : triple -> bool) (coords : option (list key)) (amps : list triple) (dk : key)
    (nmax : option Z) (prune : bool) : list key * list triple :=
  let kdim := length dk in
  let n := ((length amps - 1) / 2)%nat in
  let '(cs, dk') :=
    match coords with
    | None => (setup_coords n kdim, dk)
    | Some c => let cd := length (nth 0 c []) in
                if (cd <? kdim)%nat then (extend_coords c (kdim - cd), dk)
                else (c, pad_shift dk (cd - kdim))
    end in
  let '(k2, outs) := shiftnd negl cs [amps] dk' (length dk') nmax prune in
  (k2, nth 0 outs []).

End ShiftND.
Arguments shiftnd_plan : clear implicits.
Arguments mkPlan : clear implicits.
Arguments relocate {S}. Arguments shiftnd {S}. Arguments shiftnd1 {S}.
Arguments synthP {S}. Arguments synthM {S}. Arguments synthZ {S}. Arguments lookup {S}. Arguments wf_rows {S}.
Arguments content {S}. Arguments rows_eqb {S}. Arguments triple_is0 {S}. Arguments nonzero_mask {S}.
Arguments apply_S_nd {S}.

(* ------------------------------------------------------------------ rational wavenumbers: rounding *)
Definition qhalf : Q := 1 # 2.
(* np.around / np.rint: round half to even *)
Definition Qrint (x : Q) : Z :=
  let f := Qfloor x in
  let r := (x - inject_Z f)%Q in
  match Qcompare r qhalf with
  | Lt => f
  | Gt => (f + 1)%Z
  | Eq => if Z.even f then f else (f + 1)%Z
  end.
(* np.around(x, decimals=8) = rint(x * 1e8) / 1e8 *)
Definition ten8 : Q := 100000000 # 1.
Definition Qaround8 (x : Q) : Q := (inject_Z (Qrint (x * ten8)) / ten8)%Q.
(* astype(int): truncation towards zero *)
Definition Qtrunc (x : Q) : Z := if Qle_bool 0 x then Qfloor x else Qceiling x.
(* shift.round(arr).astype(int) = trunc(arr - 0.5 + (arr > 0)) *)
Definition Qround_shift (x : Q) : Z :=
  Qtrunc (x - qhalf + (if Qle_bool x 0 then 0 else 1))%Q.

Definition qvec := list Q.
Fixpoint qvadd (a b : qvec) : qvec :=
  match a, b with x :: a', y :: b' => (x + y)%Q :: qvadd a' b' | _, _ => [] end.
Fixpoint qvsub (a b : qvec) : qvec :=
  match a, b with x :: a', y :: b' => (x - y)%Q :: qvsub a' b' | _, _ => [] end.
Fixpoint qvdiv (a b : qvec) : qvec :=
  match a, b with x :: a', y :: b' => (x / y)%Q :: qvdiv a' b' | _, _ => [] end.
Fixpoint qvmul (a b : qvec) : qvec :=
  match a, b with x :: a', y :: b' => (x * y)%Q :: qvmul a' b' | _, _ => [] end.
Definition qvscale (c : Q) (a : qvec) : qvec := map (fun x => (c * x)%Q) a.
Fixpoint qvsum (d : nat) (l : list qvec) : qvec :=
  match l with [] => repeat 0%Q d | x :: t => qvadd x (qvsum d t) end.
Fixpoint qsum (l : list Q) : Q := match l with [] => 0%Q | x :: t => (x + qsum t)%Q end.
Definition qvec_eqb (a b : qvec) : bool :=
  Nat.eqb (length a) (length b) && forallb (fun p => Qeq_bool (fst p) (snd p)) (combine a b).

(* ------------------------------------------------------------------ shiftmerge / shiftprune *)
Section Merge.
Variable S : ScalOps.
Variable wabs : S -> Q.            (* |amplitude| (numpy abs of a complex number) *)
Notation triple := (triple S).

Record mplan : Type := mkMPlan {
  mq : list key; mL : list nat; m1T : list nat; m2T : list nat;
  mkL : list qvec; mk1T : list qvec; mk2T : list qvec }.

(* quantisation to the grid and unique cells; [rnd] = rounding to an integer, [pre] = the 8-decimal clean-up *)
Definition merge_plan (pre : Q -> Q) (rnd : Q -> Z) (wav : list qvec) (dk grid : qvec) : mplan :=
  let n1 := length wav in
  let kL := map (map pre) wav in
  let k1T := map (fun k => qvadd k dk) kL in
  let k2T := map (fun k => qvsub k dk) kL in
  let qL := map (fun p => map rnd (qvdiv (qvscale qhalf (qvsub (fst p) (snd p))) grid)) (combine kL (rev kL)) in
  let q1T := map (fun k => map rnd (qvdiv k grid)) k1T in
  let q2T := map vneg (rev q1T) in
  let '(q2, idx) := unique_keys (qL ++ q1T ++ q2T) in
  mkMPlan q2 (firstn n1 idx) (firstn n1 (skipn n1 idx)) (skipn (2 * n1) idx) kL k1T k2T.

(* add_at(sm2, idxL, Z); add_at(sm2, idx1T, F+); F- = mirror conjugate *)
Definition merge_amps (p : mplan) (amps : list triple) : list triple :=
  let n2 := length (mq p) in
  let F2 := addat_fn (combine (m1T p) (map (@fp S) amps)) in
  let Z2 := addat_fn (combine (mL p) (map (@fz S) amps)) in
  tab n2 (fun j => mk3 (F2 j) (kconj (F2 (n2 - 1 - j)%nat)) (Z2 j)).

(* w = sum over the batch entries of |sm|, per row and component *)
Definition merge_w (amps : list (list triple)) (i : nat) : Q * Q * Q :=
  (qsum (map (fun a => wabs (fp (nth i a t0))) amps),
   qsum (map (fun a => wabs (fm (nth i a t0))) amps),
   qsum (map (fun a => wabs (fz (nth i a t0))) amps)).

Definition qaddat (ps : list (nat * Q)) (j : nat) : Q :=
  qsum (map (fun p => if Nat.eqb (fst p) j then snd p else 0%Q) ps).
Definition qvaddat (d : nat) (ps : list (nat * qvec)) (j : nat) : qvec :=
  qvsum d (map (fun p => if Nat.eqb (fst p) j then snd p else repeat 0%Q d) ps).

(* amplitude-weighted mean wavenumber of the cell j *)
Definition merge_k2 (p : mplan) (d : nat) (w : nat -> Q * Q * Q) (nonzero : list bool) (j : nat) : qvec :=
  let n1 := length (mkL p) in
  let ws := tab n1 w in
  let wZ := map (fun x => snd x) ws in
  let wP := map (fun x => fst (fst x)) ws in
  let wM := map (fun x => snd (fst x)) ws in
  let wn := (qaddat (combine (mL p) wZ) j + qaddat (combine (m1T p) wP) j + qaddat (combine (m2T p) wM) j)%Q in
  let wn' := if nth j nonzero false then wn else 1%Q in
  let num := qvadd (qvadd (qvaddat d (combine (mL p) (map (fun x => qvscale (snd x) (fst x)) (combine (mkL p) wZ))) j)
                          (qvaddat d (combine (m1T p) (map (fun x => qvscale (snd x) (fst x)) (combine (mk1T p) wP))) j))
                   (qvaddat d (combine (m2T p) (map (fun x => qvscale (snd x) (fst x)) (combine (mk2T p) wM))) j) in
  map (fun x => (x / wn')%Q) num.

Definition shiftmerge (negl : triple -> bool) (wav : list qvec) (amps : list (list triple)) (dk grid : qvec)
    (prune : bool) : list qvec * list (list triple) :=
  let p := merge_plan Qaround8 Qrint wav dk grid in
  let n2 := length (mq p) in
  let outs := map (merge_amps p) amps in
  let nz := nonzero_mask negl n2 outs in
  let k2 := tab n2 (merge_k2 p (length dk) (merge_w amps) nz) in
  if prune then let m := keep_centre nz in (select m k2, map (select m) outs)
  else (k2, outs).

(* shiftprune: no 8-decimal clean-up, its own rounding, wavenumbers = cell centres, always pruned;
   [negl] = (norm <= tol) *)
Definition shiftprune (negl : triple -> bool) (wav : list qvec) (amps : list (list triple)) (dk grid : qvec)
    : list qvec * list (list triple) :=
  let p := merge_plan (fun x => x) Qround_shift wav dk grid in
  let n2 := length (mq p) in
  let outs := map (merge_amps p) amps in
  let nz := nonzero_mask negl n2 outs in
  let nzs := tab n2 (fun j => nth j nz false && nth (n2 - 1 - j) nz false) in
  let m := keep_centre nzs in
  let k2 := map (fun q => qvmul (map inject_Z q) grid) (mq p) in
  (select m k2, map (select m) outs).

(* S._apply float branches: coords*ktvalue -> shift -> wavenums/ktvalue *)
Definition ktvalue (kvalue tvalue : Q) (kdim : nat) : qvec :=
  repeat kvalue (Nat.min kdim 3) ++ (if Nat.eqb kdim 4 then [tvalue] else []).
Definition apply_S_merge (negl : triple -> bool) (coords : list qvec) (amps : list (list triple)) (dk : qvec)
    (kvalue tvalue : Q) (grid : qvec) (prune : bool) : list qvec * list (list triple) :=
  let kt := ktvalue kvalue tvalue (length dk) in
  let '(k2, outs) := shiftmerge negl (map (fun c => qvmul c kt) coords) amps (qvmul dk kt) grid prune in
  (map (fun k => qvdiv k kt) k2, outs).
End Merge.
Arguments merge_plan : clear implicits.
Arguments merge_amps {S}. Arguments shiftmerge {S}. Arguments shiftprune {S}. Arguments apply_S_merge {S}.
Arguments merge_w {S}. Arguments merge_k2 : clear implicits.

(* ------------------------------------------------------------------ dispatch: get_shift_method *)
Inductive ktype := KPyInt | KArrInt | KArrFloat | KArrOther.
Inductive ctype := CNone | CInt | CFloat | COther.
Inductive method := M1d | Mnd | Mmerge | Mprune | Mnone.
(* [lead] = np.sum(np.shape(k)[:-1]) (0 for a Python int) *)
Definition get_shift_method (k : ktype) (c : ctype) (lead : nat) : method :=
  let m :=
    match c, k with
    | CNone, KPyInt => M1d
    | CNone, KArrInt => Mnd
    | CNone, KArrFloat => Mmerge
    | CInt, KPyInt => Mnd
    | CInt, KArrInt => Mnd
    | CInt, KArrFloat => Mmerge
    | CFloat, _ => Mmerge
    | _, _ => Mnone
    end in
  match m with Mmerge => if (1 <? lead)%nat then Mprune else Mmerge | _ => m end.
(* a Python int on a state with coords becomes the vector [k, 0, ..., 0] *)
Definition int_shift (k : Z) (kdim : nat) : key := k :: repeat 0%Z (kdim - 1).

(* ------------------------------------------------------------------ G and C *)
(* utils.get_wavenumber(tau, gradient) = 2*pi*gamma * tau * 1e-3 * gradient, gamma_1H = 42.576e3 kHz/T;
   [twopi] is the value used for 2*pi *)
Definition gamma_1H : Q := 42576 # 1.
Definition get_wavenumber (twopi : Q) (tau : Q) (grad : qvec) : qvec :=
  map (fun g => (twopi * gamma_1H * tau * (1 # 1000) * g)%Q) grad.
(* C(tau): k = [0, 0, 0, tau] *)
Definition C_shift (tau : Q) : qvec := [0%Q; 0%Q; 0%Q; tau].
Definition G_shift (twopi tau : Q) (grad : qvec) : qvec := get_wavenumber twopi tau grad.

(* sm.k = coords[..., :3] * kvalue ; sm.t = coords[..., 3] * tvalue (0 when kdim < 4) *)
Definition sm_k (kvalue : Q) (coords : list qvec) : list qvec := map (fun c => qvscale kvalue (firstn 3 c)) coords.
Definition sm_t (tvalue : Q) (coords : list qvec) : list Q := map (fun c => (tvalue * nth 3 c 0)%Q) coords.
