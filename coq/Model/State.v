(* EPG state matrix, array layout: a list of 2n+1 triples (F+, F-, Z), index
   i <-> phase state k = i - n; plus the equilibrium array of the same length.
   Mirrors epgpy/statematrix.py (StateMatrix with the "nstate" named axis,
   ArrayCollection.resize / resize_array centre pad / crop). *)
From Coq Require Import List ZArith Lia Bool.
From EPG Require Import Scalar.
Import ListNotations.

Section State.
Variable S : ScalOps.

Record triple : Type := mk3 { fp : S; fm : S; fz : S }.
Definition t0 : triple := mk3 k0 k0 k0.

Definition tadd (x y : triple) := mk3 (fp x + fp y)%K (fm x + fm y)%K (fz x + fz y)%K.
Definition tscale (c : S) (x : triple) := mk3 (c * fp x)%K (c * fm x)%K (c * fz x)%K.
(* component-wise product (ScalarOp coefficients) *)
Definition sv (a x : triple) := mk3 (fp a * fp x)%K (fm a * fm x)%K (fz a * fz x)%K.
Definition dot (a x : triple) : S := (fp a * fp x + fm a * fm x + fz a * fz x)%K.

Record mat3 : Type := mkM { row0 : triple; row1 : triple; row2 : triple }.
Definition mv (m : mat3) (x : triple) := mk3 (dot (row0 m) x) (dot (row1 m) x) (dot (row2 m) x).

(* 3x3 matrix algebra (used by '@' combination and by the coefficient proofs) *)
Definition col0 (m : mat3) := mk3 (fp (row0 m)) (fp (row1 m)) (fp (row2 m)).
Definition col1 (m : mat3) := mk3 (fm (row0 m)) (fm (row1 m)) (fm (row2 m)).
Definition col2 (m : mat3) := mk3 (fz (row0 m)) (fz (row1 m)) (fz (row2 m)).
Definition rowmul (r : triple) (b : mat3) := mk3 (dot r (col0 b)) (dot r (col1 b)) (dot r (col2 b)).
Definition mmul (a b : mat3) := mkM (rowmul (row0 a) b) (rowmul (row1 a) b) (rowmul (row2 a) b).
Definition tsub (x y : triple) := mk3 (fp x - fp y)%K (fm x - fm y)%K (fz x - fz y)%K.
Definition madd (a b : mat3) := mkM (tadd (row0 a) (row0 b)) (tadd (row1 a) (row1 b)) (tadd (row2 a) (row2 b)).
Definition msub (a b : mat3) := mkM (tsub (row0 a) (row0 b)) (tsub (row1 a) (row1 b)) (tsub (row2 a) (row2 b)).
Definition mscale (c : S) (a : mat3) := mkM (tscale c (row0 a)) (tscale c (row1 a)) (tscale c (row2 a)).
Definition mid : mat3 := mkM (mk3 k1 k0 k0) (mk3 k0 k1 k0) (mk3 k0 k0 k1).
(* diagonal matrix of a ScalarOp coefficient triple *)
Definition mdiag (a : triple) : mat3 := mkM (mk3 (fp a) k0 k0) (mk3 k0 (fm a) k0) (mk3 k0 k0 (fz a)).

Definition teqb (x y : triple) : bool :=
  keqb (fp x) (fp y) && keqb (fm x) (fm y) && keqb (fz x) (fz y).

Record sm : Type := mkSM { st : list triple; equ : list triple }.

Definition nstate (s : sm) : nat := (length (st s) - 1) / 2.

(* index-defined lists: [tab n f] = [f 0; ...; f (n-1)];  [nthZ] = signed, total access *)
Definition tab {A} (n : nat) (f : nat -> A) : list A := map f (seq 0 n).
Definition nthZ {A} (d : A) (l : list A) (j : Z) : A :=
  if ((0 <=? j) && (j <? Z.of_nat (length l)))%Z then nth (Z.to_nat j) l d else d.

(* ArrayCollection.resize_array along one axis: crop or pad about the centre.
   diff = size - len;  pad (diff/2 before, (diff+1)/2 after);
   crop [(-diff)/2 : len - (-diff+1)/2].  New index i holds old index i + off. *)
Definition resize_off (len size : nat) : Z :=
  if size <=? len then Z.of_nat ((len - size) / 2) else (- Z.of_nat ((size - len) / 2))%Z.
Definition resize_list {A} (pad : A) (l : list A) (size : nat) : list A :=
  tab size (fun i => nthZ pad l (Z.of_nat i + resize_off (length l) size)).

(* StateMatrix.resize(n): every array with the named axis is resized to 2n+1 *)
Definition resize (s : sm) (n : nat) : sm :=
  if Nat.eqb n (nstate s) then s
  else mkSM (resize_list t0 (st s) (2 * n + 1)) (resize_list t0 (equ s) (2 * n + 1)).

(* phase-state access by signed index *)
Definition getZ {A} (d : A) (l : list A) (k : Z) : A :=
  nthZ d l (k + Z.of_nat ((length l - 1) / 2)).

Definition centre (l : list triple) : triple := nth ((length l - 1) / 2) l t0.

End State.

Arguments mk3 {S}. Arguments fp {S}. Arguments fm {S}. Arguments fz {S}.
Arguments t0 {S}. Arguments tadd {S}. Arguments tscale {S}. Arguments sv {S}.
Arguments dot {S}. Arguments mkM {S}. Arguments row0 {S}. Arguments row1 {S}.
Arguments row2 {S}. Arguments mv {S}. Arguments teqb {S}. Arguments mkSM {S}.
Arguments st {S}. Arguments equ {S}. Arguments nstate {S}. Arguments resize {S}.
Arguments centre {S}.
Arguments mmul {S}. Arguments madd {S}. Arguments msub {S}. Arguments mscale {S}. Arguments mid {S}. Arguments mdiag {S}. Arguments tsub {S}.
Arguments col0 {S}. Arguments col1 {S}. Arguments col2 {S}. Arguments rowmul {S}.
Arguments tab {A}. Arguments nthZ {A}. Arguments getZ {A}. Arguments resize_list {A}.
