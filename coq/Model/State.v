(* EPG state matrix, array layout: a list of 2n+1 triples (F+, F-, Z), index
   i <-> phase state k = i - n; plus the equilibrium array of the same length.
   Mirrors epgpy/statematrix.py (StateMatrix with the "nstate" named axis,
   ArrayCollection.resize / resize_array centre pad / crop). *)
From Coq Require Import List ZArith Lia Bool.
From EPG Require Import Scalar.
Import ListNotations.

Section State.
Variable S : ScalOps.

Record triple : Type := mk3 { fp : S; fm : S; fz : S }.
Definition t0 : triple := mk3 k0 k0 k0.

Definition tadd (x y : triple) := mk3 (fp x + fp y)%K (fm x + fm y)%K (fz x + fz y)%K.
Definition tscale (c : S) (x : triple) := mk3 (c * fp x)%K (c * fm x)%K (c * fz x)%K.
(* component-wise product (ScalarOp coefficients) *)
Definition sv (a x : triple) := mk3 (fp a * fp x)%K (fm a * fm x)%K (fz a * fz x)%K.
Definition dot (a x : triple) : S := (fp a * fp x + fm a * fm x + fz a * fz x)%K.

Record mat3 : Type := mkM { row0 : triple; row1 : triple; row2 : triple }.
Definition mv (m : mat3) (x : triple) := mk3 (dot (row0 m) x) (dot (row1 m) x) (dot (row2 m) x).

Definition teqb (x y : triple) : bool :=
  keqb (fp x) (fp y) && keqb (fm x) (fm y) && keqb (fz x) (fz y).

Record sm : Type := mkSM { st : list triple; equ : list triple }.

Definition nstate (s : sm) : nat := (length (st s) - 1) / 2.

(* index-defined lists: [tab n f] = [f 0; ...; f (n-1)];  [nthZ] = signed, total access *)
Definition tab {A} (n : nat) (f : nat -> A) : list A := map f (seq 0 n).
Definition nthZ {A} (d : A) (l : list A) (j : Z) : A :=
  if ((0 <=? j) && (j <? Z.of_nat (length l)))%Z then nth (Z.to_nat j) l d else d.

(* ArrayCollection.resize_array along one axis: crop or pad about the centre.
   diff = size - len;  pad (diff/2 before, (diff+1)/2 after);
   crop [(-diff)/2 : len - (-diff+1)/2].  New index i holds old index i + off. *)
Definition resize_off (len size : nat) : Z :=
  if size <=? len then Z.of_nat ((len - size) / 2) else (- Z.of_nat ((size - len) / 2))%Z.
Definition resize_list {A} (pad : A) (l : list A) (size : nat) : list A :=
  tab size (fun i => nthZ pad l (Z.of_nat i + resize_off (length l) size)).

(* StateMatrix.resize(n): every array with the named axis is resized to 2n+1 *)
Definition resize (s : sm) (n : nat) : sm :=
  if Nat.eqb n (nstate s) then s
  else mkSM (resize_list t0 (st s) (2 * n + 1)) (resize_list t0 (equ s) (2 * n + 1)).

(* phase-state access by signed index *)
Definition getZ {A} (d : A) (l : list A) (k : Z) : A :=
  nthZ d l (k + Z.of_nat ((length l - 1) / 2)).

Definition centre (l : list triple) : triple := nth ((length l - 1) / 2) l t0.

End State.

Arguments mk3 {S}. Arguments fp {S}. Arguments fm {S}. Arguments fz {S}.
Arguments t0 {S}. Arguments tadd {S}. Arguments tscale {S}. Arguments sv {S}.
Arguments dot {S}. Arguments mkM {S}. Arguments row0 {S}. Arguments row1 {S}.
Arguments row2 {S}. Arguments mv {S}. Arguments teqb {S}. Arguments mkSM {S}.
Arguments st {S}. Arguments equ {S}. Arguments nstate {S}. Arguments resize {S}.
Arguments centre {S}.
Arguments tab {A}. Arguments nthZ {A}. Arguments getZ {A}. Arguments resize_list {A}.
