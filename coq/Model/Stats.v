(* C17 stub: to be written *)
