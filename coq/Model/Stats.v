(* C17 -- model of epgpy/stats.py: crlb (cost and gradient), crlb_split, confint.

   Scalars: a field with conjugation ([FieldOps] = [ScalOps] + inverse + 1/2).  Arrays are lists (matrix = list
   of rows, rank-3 tensor = list of matrices), every function is defined index-wise with [tab]; the einsum
   contractions are the primitives of the menu generated in Gen/StatsTables.v ([einsum_prim]).
   `numpy.linalg.inv` is a parameter [inv] of every model function (an external numeric); the executable
   instance is the adjugate inverse [minv_adj], whose result is checked (A * inv A = I = inv A * A) by
   [inv_ok_b] next to every evaluation.  `.real` is [kre z = 1/2 (z + conj z)]; the real numbers of the
   code (sigma2, W, t, dof) are real elements of the field.
   One batch element is modelled; leading batch axes are [map] ([crlb_batch]). *)
From Coq Require Import List ZArith QArith Qabs Qcanon Lia Bool.
From EPG Require Import Scalar QI State StatsTables.
Import ListNotations.

Record FieldOps : Type := mkFieldOps {
  fscal :> ScalOps;
  kinv : fscal -> fscal;
  khalf : fscal
}.
Arguments kinv {_}. Arguments khalf {_}.

Record FieldLaws (F : FieldOps) : Prop := mkFieldLaws {
  f_scal : ScalLaws F;
  kinv_l : forall x : F, x <> k0 -> (kinv x * x)%K = k1;
  khalf_2 : (@khalf F + khalf)%K = k1
}.

Section Model.
Variable F : FieldOps.

Fixpoint ksum (n : nat) (f : nat -> F) : F :=
  match n with O => k0 | S m => (ksum m f + f m)%K end.

Definition kre (z : F) : F := (khalf * (z + kconj z))%K.
Fixpoint kofnat (n : nat) : F := match n with O => k0 | S m => (kofnat m + k1)%K end.

Definition vec := list F.
Definition mat := list (list F).
Definition ten3 := list (list (list F)).
Definition vget (v : vec) (i : nat) : F := nth i v k0.
Definition mget (M : mat) (i j : nat) : F := nth j (nth i M []) k0.
Definition t3get (T : ten3) (i j k : nat) : F := nth k (nth j (nth i T []) []) k0.
Definition mtab (r c : nat) (f : nat -> nat -> F) : mat := tab r (fun i => tab c (fun j => f i j)).
Definition t3tab (a b c : nat) (f : nat -> nat -> nat -> F) : ten3 :=
  tab a (fun i => tab b (fun j => tab c (fun k => f i j k))).
Definition kdelta (i j : nat) : F := if Nat.eqb i j then k1 else k0.

(* ---- menu of contractions (einsum_prim) *)
(* EGram  "...np,...nq->...pq" (X.conj(), X) *)
Definition gram (n p : nat) (J : mat) : mat :=
  mtab p p (fun a b => ksum n (fun k => (kconj (mget J k a) * mget J k b)%K)).
(* EHJ  "...npx,...nq->...qpx" (H.conj(), J) *)
Definition ehj (n p nx : nat) (H : ten3) (J : mat) : ten3 :=
  t3tab p p nx (fun q a x => ksum n (fun k => (kconj (t3get H k a x) * mget J k q)%K)).
(* EGrad  "...pq,...qrx,...rp->...x" (A, B, C) *)
Definition egrad (p nx : nat) (A : mat) (B : ten3) (C : mat) : vec :=
  tab nx (fun x => ksum p (fun a => ksum p (fun q => ksum p (fun r =>
     (mget A a q * t3get B q r x * mget C r a)%K)))).
(* EHessOuter  "...nqp,...y->...pq" : n and y are summed independently *)
Definition ehess_outer (n p : nat) (H : ten3) (res : vec) : mat :=
  mtab p p (fun a b => ksum n (fun k => ksum n (fun y => (kconj (t3get H k b a) * vget res y)%K))).
(* EHessContract  "...nqp,...n->...pq" *)
Definition ehess_contract (n p : nat) (H : ten3) (res : vec) : mat :=
  mtab p p (fun a b => ksum n (fun k => (kconj (t3get H k b a) * vget res k)%K)).
(* EPredVar  "...np,...pq,...nq->...n" (jac.conj(), cov, jac) *)
Definition epredvar (n p : nat) (J cov : mat) : vec :=
  tab n (fun k => ksum p (fun a => ksum p (fun b => (kconj (mget J k a) * mget cov a b * mget J k b)%K))).

Definition mre (r c : nat) (M : mat) : mat := mtab r c (fun i j => kre (mget M i j)).

(* ---- crlb *)
(* I = 1 / sigma2 * einsum(EGram).real *)
Definition fisher (n p : nat) (sigma2 : F) (J : mat) : mat :=
  mtab p p (fun a b => (kinv sigma2 * kre (mget (gram n p J) a b))%K).

(* W = asarray(W)[..., newaxis] or 1 ;  (W * lb)[a][b] = W[a] * lb[a][b] *)
Definition wget (W : option vec) (a : nat) : F := match W with None => k1 | Some w => vget w a end.
Definition wscale (p : nat) (W : option vec) (B : mat) : mat := mtab p p (fun a b => (wget W a * mget B a b)%K).
Definition mtrace (p : nat) (M : mat) : F := ksum p (fun a => mget M a a).

Section WithInv.
Variable inv : mat -> mat.        (* numpy.linalg.inv *)

Definition crlb_lb (n p : nat) (J : mat) (sigma2 : F) : mat := inv (fisher n p sigma2 J).

(* cost = trace(W * lb) *)
Definition crlb (n p : nat) (J : mat) (W : option vec) (sigma2 : F) : F :=
  mtrace p (wscale p W (crlb_lb n p J sigma2)).

(* HJ = einsum(EHJ) * 1 / sigma2 ; HJ += moveaxis(HJ, -3, -2).conj() *)
Definition hj1 (n p nx : nat) (H : ten3) (J : mat) (sigma2 : F) : ten3 :=
  t3tab p p nx (fun q a x => (t3get (ehj n p nx H J) q a x * k1 * kinv sigma2)%K).
Definition hj2 (p nx : nat) (HJ : ten3) : ten3 :=
  t3tab p p nx (fun a b x => (t3get HJ a b x + kconj (t3get HJ b a x))%K).
Definition t3re (a b c : nat) (T : ten3) : ten3 := t3tab a b c (fun i j k => kre (t3get T i j k)).

(* grad = -einsum(EGrad)(W * lb, HJ.real, lb) *)
Definition crlb_grad (n p nx : nat) (J : mat) (H : ten3) (W : option vec) (sigma2 : F) : vec :=
  let lb := crlb_lb n p J sigma2 in
  let HJ := hj2 p nx (hj1 n p nx H J sigma2) in
  map kopp (egrad p nx (wscale p W lb) (t3re p p nx HJ) lb).

(* crlb_split: crb = diag(lb) ; crb *= W  (the returned array has the parameter axis first: harness) *)
Definition crlb_split (n p : nat) (J : mat) (W : option vec) (sigma2 : F) : vec :=
  let lb := crlb_lb n p J sigma2 in
  tab p (fun a => match W with None => mget lb a a | Some w => (mget lb a a * vget w a)%K end).

(* ---- confint *)
Definition residual (n : nat) (obs pred : vec) : vec := tab n (fun k => (vget obs k - vget pred k)%K).
(* sse = sum(res * res.conj()).real *)
Definition sse (n : nat) (res : vec) : F := kre (ksum n (fun k => (vget res k * kconj (vget res k))%K)).

(* Hessian branch.  [outer]/[plus] are the switches read off the source by the translator
   (confint_hess_outer / confint_hess_plus): which contraction, and the sign with which the term enters. *)
Definition hess_term (outer : bool) (n p : nat) (H : ten3) (res : vec) : mat :=
  mre p p (if outer then ehess_outer n p H res else ehess_contract n p H res).
Definition hmle (outer plus : bool) (n p : nat) (J : mat) (H : ten3) (res : vec) : mat :=
  let G := mre p p (gram n p J) in
  let T := hess_term outer n p H res in
  mtab p p (fun a b => if plus then (mget G a b + mget T a b)%K else (mget G a b - mget T a b)%K).

(* matrix handed to linalg.inv *)
Definition confint_info (outer plus : bool) (n p : nat) (J : mat) (H : option ten3) (res : vec) : mat :=
  match H with
  | None => mre p p (gram n p J)
  | Some h => hmle outer plus n p J h res
  end.

(* cov = inv(...) ; cov *= sse / dof *)
Definition confint_cov (outer plus : bool) (n p : nat) (obs pred : vec) (J : mat) (H : option ten3) : mat :=
  let res := residual n obs pred in
  let c := inv (confint_info outer plus n p J H res) in
  mtab p p (fun a b => (mget c a b * (sse n res * kinv (kofnat (n - p))))%K).

(* variances: cints = tval * sqrt(var_a), cband = tval * sqrt(predvar_k) *)
Definition confint_var (outer plus : bool) (n p : nat) (obs pred : vec) (J : mat) (H : option ten3) : vec :=
  let cov := confint_cov outer plus n p obs pred J H in tab p (fun a => mget cov a a).
Definition confint_predvar (outer plus : bool) (n p : nat) (obs pred : vec) (J : mat) (H : option ten3) : vec :=
  let cov := confint_cov outer plus n p obs pred J H in
  tab n (fun k => kre (vget (epredvar n p J cov) k)).

(* the returned half-widths, with the square root as a parameter (numpy.sqrt on reals) *)
Definition confint_cints (sqrt : F -> F) (tval : F) (outer plus : bool) (n p : nat) (obs pred : vec) (J : mat)
  (H : option ten3) : vec := map (fun v => (tval * sqrt v)%K) (confint_var outer plus n p obs pred J H).
Definition confint_cband (sqrt : F -> F) (tval : F) (outer plus : bool) (n p : nat) (obs pred : vec) (J : mat)
  (H : option ten3) : vec := map (fun v => (tval * sqrt v)%K) (confint_predvar outer plus n p obs pred J H).

(* leading batch axes: one independent problem per batch element *)
Definition crlb_batch (n p : nat) (Js : list mat) (W : option vec) (sigma2 : F) : list F :=
  map (fun J => crlb n p J W sigma2) Js.

End WithInv.

(* ---- executable inverse: adjugate / determinant by Laplace expansion (sizes <= 4 in practice) *)
Definition drop_nth {A} (j : nat) (l : list A) : list A := firstn j l ++ skipn (S j) l.
Definition ksign (j : nat) (x : F) : F := if Nat.even j then x else kopp x.
Fixpoint det (fuel : nat) (M : mat) : F :=
  match fuel with
  | O => k1
  | S f => match M with
           | [] => k1
           | row :: rest =>
             ksum (length row) (fun j => (ksign j (nth j row k0) * det f (map (drop_nth j) rest))%K)
           end
  end.
Definition minor (i j : nat) (M : mat) : mat := map (drop_nth j) (drop_nth i M).
Definition minv_adj (M : mat) : mat :=
  let p := length M in
  let d := kinv (det p M) in
  mtab p p (fun i j => (d * ksign (i + j) (det (p - 1) (minor j i M)))%K).

Definition lmul (p : nat) (A B : mat) : mat := mtab p p (fun i j => ksum p (fun k => (mget A i k * mget B k j)%K)).
Definition meqb (p : nat) (A B : mat) : bool :=
  forallb (fun i => forallb (fun j => keqb (mget A i j) (mget B i j)) (seq 0 p)) (seq 0 p).
Definition mident (p : nat) : mat := mtab p p kdelta.
(* the hypothesis of the theorems, as a check evaluated next to every result *)
Definition inv_ok_b (inv : mat -> mat) (p : nat) (A : mat) : bool :=
  meqb p (lmul p A (inv A)) (mident p) && meqb p (lmul p (inv A) A) (mident p).

End Model.

Arguments ksum {F}. Arguments kre {F}. Arguments kofnat {F}. Arguments vget {F}. Arguments mget {F}.
Arguments t3get {F}. Arguments mtab {F}. Arguments t3tab {F}. Arguments kdelta {F}.
Arguments gram {F}. Arguments ehj {F}. Arguments egrad {F}. Arguments ehess_outer {F}.
Arguments ehess_contract {F}. Arguments epredvar {F}. Arguments mre {F}. Arguments fisher {F}.
Arguments wget {F}. Arguments wscale {F}. Arguments mtrace {F}. Arguments crlb_lb {F}. Arguments crlb {F}.
Arguments hj1 {F}. Arguments hj2 {F}. Arguments t3re {F}. Arguments crlb_grad {F}. Arguments crlb_split {F}.
Arguments residual {F}. Arguments sse {F}. Arguments hess_term {F}. Arguments hmle {F}.
Arguments confint_info {F}. Arguments confint_cov {F}. Arguments confint_var {F}.
Arguments confint_predvar {F}. Arguments confint_cints {F}. Arguments confint_cband {F}.
Arguments crlb_batch {F}. Arguments det {F}. Arguments minor {F}. Arguments minv_adj {F}.
Arguments lmul {F}. Arguments meqb {F}. Arguments mident {F}. Arguments inv_ok_b {F}. Arguments ksign {F}.

(* the menu entries the model functions above are written for; Proofs/StatsProofs.v proves that the generated
   lists coincide with them (so a change of contraction in the source breaks an obligation) *)
Definition crlb_menu : list einsum_prim := [EGram; EHJ; EGrad].
Definition crlb_split_menu : list einsum_prim := [EGram].
Definition confint_menu (outer plus : bool) : list einsum_prim :=
  (* source order of the einsum calls: the first assigned term of Hmle, the accumulated one, jac2, predvar *)
  let h := if outer then EHessOuter else EHessContract in
  (if plus then [h; EGram] else [EGram; h]) ++ [EGram; EPredVar].

(* ---- t table *)
Definition tstat_lookup (level : Q) (nu : nat) : option Q :=
  match find (fun e => Qeq_bool (fst (fst e)) level && Nat.eqb (snd (fst e)) nu) tstat_table with
  | Some e => Some (snd e)
  | None => None
  end.

(* ---- executable instance: Gaussian rationals with division *)
Definition qi_inv (x : QI) : QI :=
  let d := (fst x * fst x + snd x * snd x)%Qc in (fst x / d, - snd x / d)%Qc.
Definition QIF : FieldOps := mkFieldOps QIops qi_inv (qr 1 2).

(* tolerance comparison of the real parts, used only by the correspondence:
   |re x - re y| <= tol * (1 + |re y|)  and the imaginary part of the model value is 0 *)
Definition qc_close (tol : Q) (x y : QI) : bool :=
  Qle_bool (Qabs (this (fst x) - this (fst y))) (tol * (1 + Qabs (this (fst y)))) && Qc_eq_bool (snd y) (Q2Qc 0).
Definition qc_pos (x : QI) : bool := Qle_bool 0 (this (fst x)) && negb (Qeq_bool 0 (this (fst x))).
Fixpoint all2 {A B} (f : A -> B -> bool) (l : list A) (m : list B) : bool :=
  match l, m with
  | [], [] => true
  | a :: l', b :: m' => f a b && all2 f l' m'
  | _, _ => false
  end.

(* ---- real-number level: Student t specification of the table, and the log10 variant *)
From Coq Require Import Reals Qreals.
From Coquelicot Require Import Coquelicot.

(* Gamma((nu+1)/2) / Gamma(nu/2), closed form: g(1) = 1/sqrt(pi), g(2) = sqrt(pi)/2, g(nu+2) = (nu+1)/nu * g(nu) *)
Fixpoint t_gratio (nu : nat) : R :=
  match nu with
  | O => 0%R
  | S O => (/ sqrt PI)%R
  | S (S O) => (sqrt PI / 2)%R
  | S (S m) => (IZR (Z.of_nat (S m)) / IZR (Z.of_nat m) * t_gratio m)%R
  end.
(* density of Student's t with nu degrees of freedom: t_norm nu * t_kernel nu x *)
Definition t_norm (nu : nat) : R := (t_gratio nu / sqrt (IZR (Z.of_nat nu) * PI))%R.
Definition t_kernel (nu : nat) (x : R) : R :=
  let b := (1 + x * x / IZR (Z.of_nat nu))%R in
  if Nat.odd nu then (/ (b ^ (Nat.div2 (S nu))))%R else (/ (b ^ (Nat.div2 nu) * sqrt b))%R.
(* P(|T| <= t) = level, to 1e-8 (the literals themselves are only good to 9e-10: entry (0.95, 39)) *)
Definition tstat_ok (level : Q) (nu : nat) (t : Q) : Prop :=
  (Rabs (2 * t_norm nu * RInt (t_kernel nu) 0 (Q2R t) - Q2R level) <= / 100000000)%R.
Definition tstat_entry_ok (e : Q * nat * Q) : Prop := tstat_ok (fst (fst e)) (snd (fst e)) (snd e).

(* crlb(..., log=True): cost_log = log10(cost), grad_log = grad / cost / ln 10 *)
Definition crlb_log_cost (cost : R) : R := (ln cost / ln 10)%R.
Definition crlb_log_grad (cost grad : R) : R := (grad / cost / ln 10)%R.
