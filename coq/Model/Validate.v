(* C20 -- input validation guards of epgpy, one boolean/verdict function per class of
   invalid input, composed as the constructors / prepare / _format_states /
   _parse_partials / check / simulate do.

   Inputs are described abstractly: real numbers as rationals [Q], complex numbers as
   Gaussian rationals [QI] (Base/QI.v), arrays as shape (list nat) + flat row-major data.
   A guard returns [Accept] or [Reject e] with [e] the Python exception class.

   np.allclose(a, b) is modelled literally over the reals:
       |a - b| <= atol + rtol * |b|,   atol = 1e-8, rtol = 1e-5
   (for complex entries the moduli are square roots; the comparison is decided exactly
   on the squares by [le_sqrt_aff]: x <= a + r y  <=>  x <= a  or  L <= 0  or  L^2 <= 4 a^2 x^2
   with L = x^2 + a^2 - r^2 y^2; this derivation is a comment, not a Coq theorem about sqrt --
   Proofs/ValidateProofs.v proves the rational facts close_within_atol / far_not_close).  Binary64 rounding inside numpy is NOT modelled: the
   correspondence keeps its inputs away from the tolerance threshold.

   No finding switch is left: every defect found through this model has been repaired in /repo
   (the remaining known finding, Sequence.hessian's pair filter, is modelled as it is: the
   harness hands [seq_build_ok] the pairs that survive the filter).                   *)
From Coq Require Import List ZArith QArith Qcanon Qabs Bool String Lia.
From EPG Require Import Scalar QI.
Import ListNotations.

(* ------------------------------------------------------------------ verdicts *)
Inductive exn : Type :=
  ValueError | TypeError | AttributeError | RuntimeError | IndexError | OtherError.
Inductive verdict : Type := Accept | Reject (e : exn).

Definition exn_eqb (a b : exn) : bool :=
  match a, b with
  | ValueError, ValueError | TypeError, TypeError | AttributeError, AttributeError
  | RuntimeError, RuntimeError | IndexError, IndexError | OtherError, OtherError => true
  | _, _ => false
  end.
Definition verdict_eqb (a b : verdict) : bool :=
  match a, b with
  | Accept, Accept => true
  | Reject x, Reject y => exn_eqb x y
  | _, _ => false
  end.
(* raised / not raised only *)
Definition same_outcome (a b : verdict) : bool :=
  match a, b with Accept, Accept => true | Reject _, Reject _ => true | _, _ => false end.

(* sequential composition of checks: the first failing check raises *)
Definition andv (a b : verdict) : verdict := match a with Accept => b | r => r end.
Infix ">>" := andv (at level 61, left associativity).
Definition guard (bad : bool) (e : exn) : verdict := if bad then Reject e else Accept.

(* ------------------------------------------------------------------ numbers *)
Definition atol : Q := 1 # 100000000.
Definition rtol : Q := 1 # 100000.
Definition Qltb (x y : Q) : bool := negb (Qle_bool y x).
(* np.any(x < 0) *)
Definition any_neg (l : list Q) : bool := existsb (fun d => Qltb d 0) l.
(* one entry of np.allclose(x, 0), x real: |x - 0| <= atol + rtol*|0| *)
Definition close0 (x : Q) : bool := Qle_bool (Qabs x) atol.
Definition allclose0 (l : list Q) : bool := forallb close0 l.

Definition qre (z : QI) : Q := this (fst z).
Definition qim (z : QI) : Q := this (snd z).
Definition abs2 (z : QI) : Q := qre z * qre z + qim z * qim z.
(* decides  sqrt A <= atol + rtol * sqrt B  for A, B >= 0 *)
Definition le_sqrt_aff (A B : Q) : bool :=
  Qle_bool A (atol * atol) ||
  (let L := A + atol * atol - rtol * rtol * B in
   Qle_bool L 0 || Qle_bool (L * L) (4 * (atol * atol) * A)).
(* one entry of np.allclose(a, b), complex *)
Definition cclose (a b : QI) : bool := le_sqrt_aff (abs2 (qi_sub a b)) (abs2 b).

Definition prodn (l : list nat) : nat := fold_right Nat.mul 1%nat l.
Definition lastd (s : list nat) : nat := last s 0%nat.
Definition butlast {A} (s : list A) : list A := removelast s.
Definition sumQ (l : list Q) : Q := fold_right Qplus 0 l.

(* ------------------------------------------------------------------ 1. durations
   operator.Operator.__init__:  duration None -> 0 ; np.any(np.asarray(duration) < 0) -> ValueError *)
Definition duration_ok (d : option (list Q)) : verdict :=
  match d with None => Accept | Some l => guard (any_neg l) ValueError end.

(* duration argument of E, P, D, X, G, C: True means "use tau" *)
Inductive durarg : Type := DNone | DTrue | DVal (l : list Q).
Definition eff_duration (d : durarg) (tau : list Q) : option (list Q) :=
  match d with DNone => None | DTrue => Some tau | DVal l => Some l end.
(* E, P, D, X: tau itself is not checked, only the resulting duration *)
Definition timed_op_ok (d : durarg) (tau : list Q) : verdict := duration_ok (eff_duration d tau).
Definition wait_ok (d : list Q) : verdict := duration_ok (Some d).
(* Offset: super().__init__(duration=abs(duration)) then self.duration = duration *)
Definition offset_ok (d : list Q) : verdict := duration_ok (Some (map Qabs d)).

(* ------------------------------------------------------------------ 2./3./4. shifts
   shift.S.__init__: np.allclose(k,0) -> TypeError; not int: atleast_2d, last dim in 1..4 else ValueError *)
Inductive karg : Type :=
| KInt (z : Z)                                        (* python int *)
| KArr (isfloat : bool) (shape : list nat) (data : list Q).  (* anything else, via np.atleast_2d *)

Definition atleast_2d (s : list nat) : list nat :=
  match s with [] => [1; 1] | [n] => [1; n] | _ => s end%nat.
Definition k_data (k : karg) : list Q :=
  match k with KInt z => [inject_Z z] | KArr _ _ d => d end.
Definition kdim_of (k : karg) : nat :=
  match k with KInt _ => 1%nat | KArr _ s _ => lastd (atleast_2d s) end.
Definition kdim_ok (k : karg) : bool :=
  match k with KInt _ => true | KArr _ _ _ => (1 <=? kdim_of k)%nat && (kdim_of k <=? 4)%nat end.
(* row b of the (rows x kdim) array of shifts is zero within the allclose tolerance *)
Definition row_zero (data : list Q) (kd b : nat) : bool :=
  forallb (fun c => close0 (nth (b * kd + c) data 0)) (seq 0 kd).
Definition any_zero_row (k : karg) : bool :=
  let kd := kdim_of k in
  existsb (row_zero (k_data k) kd) (seq 0 (List.length (k_data k) / kd)).
(* an all-zero array, or (arrays only, after atleast_2d) any all-zero row of the batch *)
Definition S_ok (k : karg) (d : option (list Q)) : verdict :=
  guard (allclose0 (k_data k)) TypeError >>
  guard (any_zero_row k) TypeError >>
  guard (negb (kdim_ok k)) ValueError >> duration_ok d.

(* G(tau, gradient): k = c * gradient * tau (c = 2 pi gamma 1e-3 > 0); the model covers the
   calls where tau or gradient is a scalar, so that the entries of k are all products *)
Definition outer (c : Q) (tau g : list Q) : list Q :=
  flat_map (fun t => map (fun x => c * x * t) g) tau.
Definition G_kshape (tau_shape g_shape : list nat) : list nat :=
  match g_shape with [] => tau_shape | _ => match tau_shape with [] => g_shape | _ => tau_shape ++ g_shape end end.
Definition G_ok (c : Q) (tau_shape : list nat) (tau : list Q) (g_shape : list nat) (g : list Q)
           (d : durarg) : verdict :=
  guard (any_neg tau) ValueError >>
  guard (match g_shape with [] => false | _ => (3 <? lastd g_shape)%nat end) ValueError >>
  S_ok (KArr true (G_kshape tau_shape g_shape) (outer c tau g)) (eff_duration d tau).
(* C(tau): k = stack([0,0,0,tau], axis=-1) *)
Definition C_ok (tau_shape : list nat) (tau : list Q) (d : durarg) : verdict :=
  guard (any_neg tau) ValueError >>
  S_ok (KArr true (tau_shape ++ [4%nat]) (flat_map (fun t => [0; 0; 0; t]) tau)) (eff_duration d tau).

(* 5. float shift without a grid: S._apply / get_shift_method *)
Inductive coords : Type := CNone | CInt | CFloat.
Definition float_method (k : karg) (c : coords) : bool :=
  match c with
  | CFloat => true
  | _ => match k with KInt _ => false | KArr f _ _ => f end
  end.
(* sm.options.get("kgrid") or self.kgrid *)
Definition pick_grid (a b : option Q) : option Q :=
  match a with Some q => if Qeq_bool q 0 then b else Some q | None => b end.
Definition is_none {A} (o : option A) : bool := match o with None => true | _ => false end.
Definition S_apply_ok (k : karg) (c : coords) (grid_sm grid_op : option Q) : verdict :=
  guard (float_method k c && is_none (pick_grid grid_sm grid_op)) AttributeError.

(* ------------------------------------------------------------------ 6. state matrices
   statematrix._format_states *)
Definition at3 (data : list QI) (n b i c : nat) : QI := nth ((b * n + i) * 3 + c) data qi0.
Definition fsym_at (data : list QI) (n b i : nat) : bool :=
  cclose (at3 data n b i 1) (qi_conj (at3 data n b (n - 1 - i) 0)).
Definition zsym_at (data : list QI) (n b i : nat) : bool :=
  cclose (at3 data n b i 2) (qi_conj (at3 data n b (n - 1 - i) 2)).
Definition all2d (nb n : nat) (f : nat -> nat -> bool) : bool :=
  forallb (fun b => forallb (f b) (seq 0 n)) (seq 0 nb).
Definition sym_ok (data : list QI) (nb n : nat) : verdict :=
  guard (negb (all2d nb n (fsym_at data n))) ValueError >>
  guard (negb (all2d nb n (zsym_at data n))) ValueError.
Definition states_ok (shape : list nat) (data : list QI) : verdict :=
  match shape with
  | [] => Reject IndexError
  | [m] => guard (negb (m =? 3)%nat) ValueError >> sym_ok data 1 1
  | _ => let c := lastd shape in
         let n := lastd (butlast shape) in
         let nb := prodn (butlast (butlast shape)) in
         guard (negb (c =? 3)%nat) ValueError >> guard (Nat.even n) ValueError >> sym_ok data nb n
  end.

(* ------------------------------------------------------------------ 7./8. operator coefficients *)
Definition perm102 (c : nat) : nat := match c with 0 => 1 | 1 => 0 | _ => c end%nat.
Definition at2 (data : list QI) (b c : nat) : QI := nth (b * 3 + c) data qi0.
Definition ssym_at (data : list QI) (b c : nat) : bool :=
  cclose (at2 data b c) (qi_conj (at2 data b (perm102 c))).
(* opscalar.scalar_format *)
Definition scalar_format_ok (shape : list nat) (data : list QI) : verdict :=
  let shape' := match shape with [m] => [1%nat; m] | _ => shape end in
  guard ((List.length shape' <? 2)%nat || negb (lastd shape' =? 3)%nat) ValueError >>
  guard (negb (all2d (prodn (butlast shape')) 3 (ssym_at data))) ValueError.

Definition at33 (data : list QI) (b i j : nat) : QI := nth (b * 9 + i * 3 + j) data qi0.
Definition msym_at (data : list QI) (b ij : nat) : bool :=
  let i := (ij / 3)%nat in let j := (ij mod 3)%nat in
  cclose (at33 data b i j) (qi_conj (at33 data b (perm102 i) (perm102 j))).
(* opmatrix.matrix_format *)
Definition matrix_format_ok (shape : list nat) (data : list QI) : verdict :=
  let shape' := match shape with [a; b] => [1%nat; a; b] | _ => shape end in
  guard ((List.length shape' <? 3)%nat || negb (lastd shape' =? 3)%nat
         || negb (lastd (butlast shape') =? 3)%nat) ValueError >>
  guard (negb (all2d (prodn (butlast (butlast shape'))) 9 (msym_at data))) ValueError.

(* numpy broadcasting of two shapes (new axes are prepended): xp.broadcast_arrays(arr, arr0) *)
Definition pad_pre (n : nat) (s : list nat) : list nat := repeat 1%nat (n - List.length s) ++ s.
Definition dims_compat (a b : nat) : bool := (a =? 1)%nat || (b =? 1)%nat || (a =? b)%nat.
Definition np_broadcastable (s1 s2 : list nat) : bool :=
  let n := Nat.max (List.length s1) (List.length s2) in
  forallb (fun i => dims_compat (nth i (pad_pre n s1) 1%nat) (nth i (pad_pre n s2) 1%nat)) (seq 0 n).

Definition coef : Type := (list nat * list QI)%type.
(* ScalarOp(arr, arr0): scalar_setup *)
Definition scalar_coef_ok (a : coef) (a0 : option coef) : verdict :=
  scalar_format_ok (fst a) (snd a) >>
  match a0 with
  | None => Accept
  | Some b => scalar_format_ok (fst b) (snd b) >>
      guard (negb (np_broadcastable (match fst a with [m] => [1%nat; m] | s => s end)
                                    (match fst b with [m] => [1%nat; m] | s => s end))) ValueError
  end.
Definition matrix_coef_ok (a : coef) (a0 : option coef) : verdict :=
  matrix_format_ok (fst a) (snd a) >>
  match a0 with
  | None => Accept
  | Some b => matrix_format_ok (fst b) (snd b) >>
      guard (negb (np_broadcastable (match fst a with [x; y] => [1%nat; x; y] | s => s end)
                                    (match fst b with [x; y] => [1%nat; x; y] | s => s end))) ValueError
  end.

(* ------------------------------------------------------------------ 9. operator / state shapes
   common.expand_shapes(append=True), broadcastable, broadcast_shapes *)
Definition pad_app (n : nat) (s : list nat) : list nat := s ++ repeat 1%nat (n - List.length s).
Definition dim_app (n : nat) (s : list nat) (i : nat) : nat := nth i (pad_app n s) 1%nat.
(* len(set(dims) - {1}) <= 1 for two shapes *)
Definition broadcastable_app (s1 s2 : list nat) : bool :=
  let n := Nat.max (List.length s1) (List.length s2) in
  forallb (fun i => dims_compat (dim_app n s1 i) (dim_app n s2 i)) (seq 0 n).
(* Operator.prepare *)
Definition prepare_ok (is_statematrix : bool) (sm_shape op_shape : list nat) : verdict :=
  guard (negb is_statematrix) TypeError >>
  guard (negb (broadcastable_app sm_shape op_shape)) ValueError.

Definition maxlen (shapes : list (list nat)) : nat := fold_right (fun s m => Nat.max (List.length s) m) 0%nat shapes.
Definition axis_dims (shapes : list (list nat)) (n i : nat) : list nat :=
  filter (fun d => (1 <? d)%nat) (map (fun s => dim_app n s i) shapes).
Definition all_eq (l : list nat) : bool :=
  match l with [] => true | x :: t => forallb (Nat.eqb x) t end.
(* broadcast_shapes(shapes..., append=True) does not raise *)
Definition bshapes_ok (shapes : list (list nat)) : bool :=
  let n := maxlen shapes in forallb (fun i => all_eq (axis_dims shapes n i)) (seq 0 n).
Definition bshape (shapes : list (list nat)) : list nat :=
  let n := maxlen shapes in map (fun i => hd 1%nat (axis_dims shapes n i)) (seq 0 n).

(* MultiOperator(items): append each item; None = not an Operator *)
Fixpoint multi_ok (cur : list nat) (items : list (option (list nat))) : verdict :=
  match items with
  | [] => Accept
  | None :: _ => Reject TypeError
  | Some s :: t => if bshapes_ok [cur; s] then multi_ok (bshape [cur; s]) t else Reject ValueError
  end.
Definition multioperator_ok (items : list (option (list nat))) : verdict := multi_ok [1%nat] items.

(* ------------------------------------------------------------------ 10. kinetic matrices
   exchange.X.__init__ (axis=-1), exchange_matrix, X._apply *)
Inductive khiarg : Type := KhiScalar (q : Q) | KhiArr (shape : list nat) (data : list Q).
Definition at_khi (data : list Q) (n b i j : nat) : Q := nth ((b * n + i) * n + j) data 0.
Definition colsum (data : list Q) (n b j : nat) : Q :=
  sumQ (map (fun i => at_khi data n b i j) (seq 0 n)).
Definition khi_ok (khi : khiarg) : verdict :=
  match khi with
  | KhiScalar q => guard (Qltb q 0) ValueError
  | KhiArr shape data =>
      guard (List.length shape <? 2)%nat ValueError >>
      (let n := lastd shape in
       let r := lastd (butlast shape) in
       let nb := prodn (butlast (butlast shape)) in
       guard (negb (r =? n)%nat) ValueError >>
       guard (negb (forallb (fun j => forallb (fun b => close0 (colsum data n b j)) (seq 0 nb)) (seq 0 n)))
             ValueError)
  end.
(* X(tau, khi, duration=d) with scalar tau and T1 = T2 = g = None *)
Definition X_ok (tau : Q) (khi : khiarg) (d : durarg) : verdict :=
  khi_ok khi >> duration_ok (eff_duration d [tau]).

(* X._apply on an un-batched n x n matrix: prepare, then khi . density ~ 0 row by row *)
Definition rowdot (data : list Q) (n : nat) (dens : list Q) (i : nat) : Q :=
  sumQ (map (fun j => at_khi data n 0 i j * nth (if (List.length dens =? 1)%nat then 0%nat else j) dens 0) (seq 0 n)).
Definition X_apply_ok (n : nat) (data : list Q) (dens : list Q) : verdict :=
  prepare_ok true [List.length dens] [n] >>
  guard (negb (forallb (fun i => close0 (rowdot data n dens i)) (seq 0 n))) RuntimeError.

(* the same X object applied to several state matrices one after the other: every application
   is checked against the density of ITS state matrix (no memory of earlier applications) *)
Definition X_reuse_ok (n : nat) (data : list Q) (densities : list (list Q)) : list verdict :=
  map (X_apply_ok n data) densities.

(* ------------------------------------------------------------------ 11. diffusion
   diffusion.get_shape(tau, D, k) *)
Definition last2_differ (s : list nat) : bool :=
  match rev s with a :: b :: _ => negb (a =? b)%nat | _ => false end.
Definition D_shape_ok (tau_shape D_shape : list nat) (k_shape : option (list nat)) : verdict :=
  let ks := match k_shape with None => [] | Some [n] => [1%nat; n] | Some s => s end in
  guard (List.length D_shape =? 1)%nat ValueError >>
  guard (last2_differ D_shape) ValueError >>
  guard (negb (List.length D_shape =? 0)%nat && negb (List.length ks =? 0)%nat
         && negb (lastd D_shape =? lastd ks)%nat) ValueError >>
  guard (negb (bshapes_ok [tau_shape; butlast (butlast D_shape); butlast ks; [1%nat]])) ValueError.

(* D._apply on a state whose coordinates have s components (1 when there are none), with a tensor
   whose last dimension is m (None = scalar D) and an optional shift k with kk components.
   An argument of higher dimension first upgrades the coordinates (sm.setup_coords(need));
   sm.k keeps the first three components; then both dimensions must equal that of sm.k:
   a lower-dimensional argument (and anything above 3) is refused. *)
Definition differs (o : option nat) (kd : nat) : bool :=
  match o with None => false | Some j => negb (j =? kd)%nat end.
Definition dim_or_1 (o : option nat) : nat := match o with None => 1%nat | Some j => j end.
Definition D_kdim (m kk : option nat) (s : nat) : nat :=
  Nat.min (Nat.max s (Nat.max (dim_or_1 m) (dim_or_1 kk))) 3.
Definition D_apply_ok (m kk : option nat) (s : nat) : verdict :=
  guard (differs m (D_kdim m kk s)) ValueError >> guard (differs kk (D_kdim m kk s)) ValueError.

(* ------------------------------------------------------------------ 12. differentiation arguments
   diff.DiffOperator._parse_partials *)
Open Scope string_scope.
Definition smem (s : string) (l : list string) : bool := existsb (String.eqb s) l.
Inductive o1arg : Type :=
| O1False | O1True | O1Str (s : string) | O1List (l : list string)
| O1Alias (l : list (string * string)) | O1Coef (l : list (string * list string)) | O1Bad.
Inductive o2arg : Type :=
| O2False | O2True | O2Str (s : string) | O2StrList (l : list string)
| O2Pairs (l : list (string * string))
| O2Dict (l : list ((string * string) * list string)) | O2Bad.

Definition o1_falsy (a : o1arg) : bool :=
  match a with O1False => true | O1List [] => true | O1Alias [] => true | O1Coef [] => true | _ => false end.
Definition o2_falsy (a : o2arg) : bool :=
  match a with O2False => true | O2StrList [] => true | O2Pairs [] => true | O2Dict [] => true | _ => false end.
(* order1 normalised to {variable: {parameter: coeff}}; None = "Invalid parameter 'order1' value" *)
Definition norm_o1 (params : list string) (a : o1arg) : option (list (string * list string)) :=
  if o1_falsy a then Some [] else
  match a with
  | O1True => Some (map (fun p => (p, [p])) params)
  | O1Str s => Some [(s, [s])]
  | O1List l => Some (map (fun p => (p, [p])) l)
  | O1Alias l => Some (map (fun vp => (fst vp, [snd vp])) l)
  | O1Coef l => Some l
  | _ => None
  end.
Definition pair_touches (vars : list string) (p : string * string) : bool :=
  smem (fst p) vars || smem (snd p) vars.
Definition pair_inside (vars : list string) (p : string * string) : bool :=
  smem (fst p) vars && smem (snd p) vars.
Definition parse_partials_ok (params : list string) (params2 : list (string * string))
           (a1 : o1arg) (a2 : o2arg) : verdict :=
  let a1' := if o1_falsy a1 then match a2 with O2True => O1True | O2Str s => O1Str s | _ => a1 end else a1 in
  match norm_o1 params a1' with
  | None => Reject ValueError
  | Some o1 =>
      guard (existsb (fun vc => existsb (fun p => negb (smem p params)) (snd vc)) o1) ValueError >>
      if o2_falsy a2 then Accept else
      guard (match o1 with [] => true | _ => false end) ValueError >>
      (let vars := map fst o1 in
       let o2 : option (list ((string * string) * list string)) :=
         match a2 with
         | O2True => Some (map (fun p => (p, [])) params2)
         | O2Str s => Some [((s, s), [])]
         | O2StrList l => Some (flat_map (fun a => map (fun b => ((a, b), [])) l) l)
         | O2Pairs l => Some (map (fun p => (p, [])) l)
         | O2Dict l => Some l
         | _ => None
         end in
       match o2 with
       | None => Reject ValueError
       | Some pairs =>
           guard (existsb (fun pc => negb (pair_touches vars (fst pc))) pairs) ValueError >>
           guard (existsb (fun pc => negb (pair_inside vars (fst pc))
                                     && match snd pc with [] => false | _ => true end) pairs) ValueError >>
           guard (existsb (fun pc => existsb (fun p => negb (smem p params)) (snd pc)) pairs) ValueError
       end)
  end.

(* ------------------------------------------------------------------ 13. sequences
   functions.flatten_sequence + getshape + simulate's probe check *)
Inductive item : Type :=
| IOp (shape : list nat)        (* an operator that is not a probe *)
| IProbe                        (* Probe / ADC *)
| IMulti (ops : list item)      (* MultiOperator *)
| IList (l : list item)         (* nested python list *)
| INonOp.                       (* anything else: number, str, None, tuple ... *)

(* flat list of leaves, None when an invalid item is met *)
Fixpoint flatten (fuel : nat) (l : list item) : option (list item) :=
  match fuel with
  | O => None
  | S f =>
      match l with
      | [] => Some []
      | x :: t =>
          match (match x with
                 | IOp _ | IProbe => Some [x]
                 | IMulti ops | IList ops => flatten f ops
                 | INonOp => None
                 end), flatten f t with
          | Some a, Some b => Some (a ++ b)%list
          | _, _ => None
          end
      end
  end.
Definition leaf_shape (x : item) : list nat := match x with IOp s => s | _ => [1%nat] end.
Definition is_probe (x : item) : bool := match x with IProbe => true | _ => false end.
(* flatten_sequence + getshape: shared by simulate and modify *)
Definition flatten_shape_ok (fuel : nat) (l : list item) : verdict :=
  match flatten fuel l with
  | None => Reject ValueError
  | Some leaves =>
      guard (match leaves with [] => true | _ => false end) ValueError >>   (* max() of an empty list *)
      guard (negb (bshapes_ok (map leaf_shape leaves))) ValueError
  end.
Definition has_probe (fuel : nat) (l : list item) : bool :=
  match flatten fuel l with Some leaves => existsb is_probe leaves | None => false end.
Definition simulate_ok (fuel : nat) (l : list item) : verdict :=
  flatten_shape_ok fuel l >> guard (negb (has_probe fuel l)) ValueError.
(* the keyword options of simulate(): none of them takes part in the validation of the sequence --
   in particular a custom `probe=` (string, list, tuple, Probe object, callable) only supersedes
   what is acquired at the probes of the sequence, it does not stand in for a missing one *)
Inductive probe_arg : Type :=
  PrNone | PrEmpty | PrStr | PrList (n : nat) | PrTuple (n : nat) | PrObject | PrCallable.
Record sim_options : Type := mkSimOpts {
  so_probe : probe_arg; so_adc_time : bool; so_asarray : bool; so_init_given : bool;
  so_max_nstate : option nat; so_callback : bool }.
Definition simulate_call_ok (o : sim_options) (fuel : nat) (l : list item) : verdict := simulate_ok fuel l.

(* functions.modify(sequence, modifier, ...) *)
Definition modify_ok (fuel : nat) (l : list item) (modifier_callable : bool) : verdict :=
  flatten_shape_ok fuel l >> guard (negb modifier_callable) TypeError.

(* sequence.Sequence: check() on the flattened items (true = VirtualOperator or known string) *)
Definition seq_check_ok (items : list bool) : verdict := guard (negb (forallb (fun b => b) items)) ValueError.
(* Sequence.build + Variable.__call__: every variable of the sequence needs a value;
   order1 / order2 variables must belong to the sequence ("magnitude" is filtered out) *)
Definition seq_values_ok (variables given : list string) : verdict :=
  guard (existsb (fun v => negb (smem v given)) variables) ValueError.
Definition not_magnitude (s : string) : bool := negb (String.eqb s "magnitude").
(* every name requested in order2 except "magnitude" itself must be a variable of the sequence,
   also when it only occurs in pairs with "magnitude" *)
Definition unknown_var (variables : list string) (v : string) : bool :=
  not_magnitude v && negb (smem v variables).
Definition seq_build_ok (variables order1 : list string) (order2 : list (string * string))
           (given : list string) : verdict :=
  guard (existsb (fun v => negb (smem v variables)) (filter not_magnitude order1)) ValueError >>
  guard (existsb (fun p => unknown_var variables (fst p) || unknown_var variables (snd p)) order2) ValueError >>
  seq_values_ok variables given.
Close Scope string_scope.

(* ------------------------------------------------------------------ 14. RF pulses
   rfpulse.rfpulse + make_pulse_sequence (+ the duration check of each T) *)
Inductive pulsedur : Type := PScalar (d : Q) | PList (l : list Q).
(* rf / alpha: None = not given.  "Either rf or alpha must be provided" tests `is None`:
   a zero flip angle or a zero amplitude is a value, not an absence *)
Definition pulse_ok (rf alpha : option Q) (ndim : nat) (values : list QI) (dur : pulsedur) : verdict :=
  guard (is_none rf && is_none alpha) ValueError >>
  guard (1 <? ndim)%nat ValueError >>
  guard (existsb (fun v => Qltb 1 (abs2 v)) values) ValueError >>
  match dur with
  | PScalar d => guard (Qltb d 0) ValueError
  | PList l => guard (negb (List.length l =? List.length values)%nat) ValueError >> duration_ok (Some l)
  end.
