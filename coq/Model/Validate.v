(* C20 stub: to be written *)
