(* C07 stub: to be written *)
