(* C07 — shape algebra of epgpy's vectorised operators, and the vectorised run of the 1-D model.
   Mirrors (faithfully, defects included):
     epgpy/common.py     expand_shapes, broadcastable, broadcast_shapes, set_axes (+ numpy.expand_dims)
     epgpy/opscalar.py   scalar_prod  : arr[(...,) + (NAX,)*ndim + (SL,)] if ndim > 1 else arr[..., NAX, :]
     epgpy/opmatrix.py   matrix_prod  : same insertion; in-place matmul(mat, states,
                                         axes=[(-2,-1),(-1,-2),(-1,-2)], out=states) with ValueError fall-back
                                         matmul(mat, states[..., NAX])[..., 0]
     epgpy/operator.py   Operator.prepare (broadcastable(append=True) check + StateMatrix.expand)
     epgpy/functions.py  getshape, StateMatrix(shape=getshape(seq)), output stacking of simulate
   numpy rules modelled: right-aligned broadcasting of two shapes, which element of an operand a
   result index reads ([np_proj]), acceptance of an in-place ufunc / of a gufunc [out=] operand.
   Shapes are [list nat]; an index is a [list nat] of the same length.  The trailing coefficient
   axis (3, or 3x3 core) is the same on both operands and is left out; the phase-state axis [ns]
   is kept because it is the axis the new-axis insertion is about.
   Uses NdArray.bc_dim / shape_eqb (numpy "source dim broadcasts to target dim"). *)
From Coq Require Import List ZArith Lia Bool Arith.
From EPG Require Import Scalar State Ops NdArray.
Import ListNotations.

Definition shape := list nat.

Fixpoint map2 {A B C} (f : A -> B -> C) (x : list A) (y : list B) : list C :=
  match x, y with
  | a :: x', b :: y' => f a b :: map2 f x' y'
  | _, _ => []
  end.

Fixpoint sequence {A} (l : list (option A)) : option (list A) :=
  match l with
  | [] => Some []
  | None :: _ => None
  | Some a :: r => match sequence r with Some r' => Some (a :: r') | None => None end
  end.

(* ------------------------------------------------------------------ epgpy.common *)
Definition maxlen (ss : list shape) : nat := fold_right (fun s m => Nat.max (length s) m) 0 ss.
Definition pad_app (n : nat) (s : shape) : shape := s ++ repeat 1 (n - length s).
Definition pad_pre (n : nat) (s : shape) : shape := repeat 1 (n - length s) ++ s.

(* expand_shapes(shapes.., append) ; (python raises on an empty argument list: max([])) *)
Definition expand_shapes (append : bool) (ss : list shape) : list shape :=
  map (if append then pad_app (maxlen ss) else pad_pre (maxlen ss)) ss.

(* i-th tuple of zip over the shapes *)
Definition col (i : nat) (ss : list shape) : list nat := map (fun s => nth i s 1) ss.

(* len(set(dims) - {1}) <= 1 *)
Definition non1 (dims : list nat) : list nat := filter (fun d => negb (d =? 1)) dims.
Definition all_same (l : list nat) : bool :=
  match l with [] => true | d :: r => forallb (Nat.eqb d) r end.

Definition broadcastable (append : bool) (ss : list shape) : bool :=
  let es := expand_shapes append ss in
  forallb (fun i => all_same (non1 (col i es))) (seq 0 (maxlen ss)).

(* broadcast_shapes: dims = {shape[i] for shape in shapes if shape[i] > 1};
   none -> 1 ; two different -> ValueError (None) ; else that size.
   NB the filter is [> 1] here and [- {1}] in broadcastable: they differ on 0-sized axes. *)
Definition gt1 (dims : list nat) : list nat := filter (fun d => 1 <? d) dims.
Definition bs_col (dims : list nat) : option nat :=
  match gt1 dims with
  | [] => Some 1
  | d :: r => if forallb (Nat.eqb d) r then Some d else None
  end.
Definition broadcast_shapes (append : bool) (ss : list shape) : option shape :=
  let es := expand_shapes append ss in
  sequence (map (fun i => bs_col (col i es)) (seq 0 (maxlen ss))).

(* numpy.expand_dims(arr, newdims): result rank |s| + |newdims|; axis i is new iff i in newdims *)
Definition mem (i : nat) (l : list nat) : bool := existsb (Nat.eqb i) l.
Fixpoint expand_dims_aux (fuel i : nat) (s : shape) (nd : list nat) : shape :=
  match fuel with
  | 0 => []
  | S f => if mem i nd then 1 :: expand_dims_aux f (S i) s nd
           else match s with d :: s' => d :: expand_dims_aux f (S i) s' nd | [] => [] end
  end.
Definition expand_dims (s : shape) (nd : list nat) : shape :=
  expand_dims_aux (length s + length nd) 0 s nd.

(* set_axes(ndim=core, arr, axes): axes int a -> range(a, a + nbatch); tuple as given;
   newdims = [i for i in range(max(axes)) if i not in axes]; expand_dims(arr, newdims).
   The shape [s] includes the [core] trailing coefficient axes. *)
Definition set_axes (core : nat) (s : shape) (axes : nat + list nat) : option shape :=
  let nb := length s - core in
  let ax := match axes with inl a => seq a nb | inr l => l end in
  match ax with
  | [] => None                                (* max(()) raises ValueError *)
  | _ => let m := fold_right Nat.max 0 ax in
         Some (expand_dims s (filter (fun i => negb (mem i ax)) (seq 0 m)))
  end.

(* ------------------------------------------------------------------ numpy broadcasting *)
(* two dims: equal, or one of them is 1 (NdArray.bc_dim s t = "s broadcasts to t") *)
Definition np_bdim (a b : nat) : option nat :=
  if bc_dim a b then Some b else if bc_dim b a then Some a else None.
(* right-aligned broadcast of two shapes; None = "operands could not be broadcast together" *)
Definition np_bshape (s t : shape) : option shape :=
  let n := Nat.max (length s) (length t) in
  sequence (map2 np_bdim (pad_pre n s) (pad_pre n t)).

(* which element of an operand of shape [s] does result index [idx] read:
   the last |s| components of idx, 0 on the operand's singleton axes
   (idx is left-padded with 0 when shorter: an [out=] operand of lower rank) *)
Definition sel (d i : nat) : nat := if d =? 1 then 0 else i.
Definition align_r (n : nat) (idx : list nat) : list nat :=
  repeat 0 (n - length idx) ++ skipn (length idx - n) idx.
Definition np_proj (s : shape) (idx : list nat) : list nat := map2 sel s (align_r (length s) idx).

(* what the property demands: axis i of the operand = axis i of the result (append semantics) *)
Definition aproj (s : shape) (idx : list nat) : list nat :=
  map2 sel s (idx ++ repeat 0 (length s - length idx)).

(* in-place ufunc  out *= x : the broadcast shape must be exactly out's shape *)
Definition np_inplace_ok (out x : shape) : bool :=
  match np_bshape out x with Some r => shape_eqb r out | None => false end.
(* gufunc [out=] operand with loop shape [out] against broadcast loop shape [r]:
   out is left-padded with new axes; every padded axis must have size 1 in r
   ("output operand requires a reduction" otherwise), the others must match. *)
Definition np_out_ok (r out : shape) : bool :=
  (length out <=? length r) && shape_eqb r (repeat 1 (length r - length out) ++ out).

(* ------------------------------------------------------------------ scalar_prod / matrix_prod *)
(* A = operator batch shape (arr.shape[:-1] / mat.shape[:-2]), B = state batch shape.
   ndim = states.ndim - arr.ndim = |B| + 1 - |A| (same number for matrix_prod);
   inserted axes: ndim if ndim > 1 else 1  *)
Definition ins (A B : shape) : shape :=
  A ++ repeat 1 (Nat.max 1 (S (length B) - length A)).

(* element-wise product / fall-back matmul: loop shapes  ins A B  vs  B ++ [ns] *)
Definition prod_shape (A B : shape) (ns : nat) : option shape := np_bshape (ins A B) (B ++ [ns]).
Definition prod_op (A B : shape) (idx : list nat) : list nat :=
  firstn (length A) (np_proj (ins A B) idx).
Definition prod_st (B : shape) (ns : nat) (idx : list nat) : list nat := np_proj (B ++ [ns]) idx.
(* scalar_prod in place (states *= arr) is accepted iff the product shape is the state's shape;
   the fall-back states * arr has the same alignment *)
Definition scalar_inplace_ok (A B : shape) (ns : nat) : bool :=
  np_inplace_ok (B ++ [ns]) (ins A B).

(* matrix_prod, in-place branch  matmul(bmat, states, axes=[(-2,-1),(-1,-2),(-1,-2)], out=states):
   the phase-state axis of [states] is a CORE dimension, so the loop shapes are  bmat  vs  B ,
   and out = states has loop shape B.  mat = ins A B (already re-assigned) and
   bmat = mat[..., 0, :, :] : the inserted axis standing for the state axis is dropped, only the
   missing batch axes remain. *)
Definition mp_bmat (A B : shape) : shape := removelast (ins A B).
Definition mp_inplace_ok (A B : shape) : bool :=
  match np_bshape (mp_bmat A B) B with Some r => np_out_ok r B | None => false end.
Definition mp_inplace_op (A B : shape) (bidx : list nat) : list nat :=
  firstn (length A) (np_proj (mp_bmat A B) bidx).

Definition all_ones (A : shape) : bool := forallb (Nat.eqb 1) A.

(* result batch shape, operator element and state element read at batch index [bidx].
   [ismat] = the operator is a MatrixOp; ns = number of phase states (any value) *)
Record prodinfo := mkPI { pi_shape : shape; pi_op : list nat -> list nat; pi_st : list nat -> list nat }.
Definition vprod (ismat : bool) (A B : shape) (ns : nat) : option prodinfo :=
  if ismat && mp_inplace_ok A B
  then Some (mkPI B (mp_inplace_op A B) (np_proj B))
  else match prod_shape A B ns with
       | Some r => Some (mkPI (removelast r)
                              (fun bidx => prod_op A B (bidx ++ [0]))
                              (fun bidx => removelast (prod_st B ns (bidx ++ [0]))))
       | None => None
       end.

(* Operator.prepare: ValueError unless broadcastable(sm.shape, op.shape, append=True);
   sm.expand(op.ndim) appends singleton axes *)
Definition prepare (A B : shape) : option shape :=
  if broadcastable true [B; A]
  then Some (if length B <? length A then pad_app (length A) B else B)
  else None.

(* functions.getshape *)
Definition getshape (shapes : list shape) : option shape := broadcast_shapes true shapes.
(* shape of simulate(seq) with one probe: (n_acquisitions,) + final state-matrix shape *)
Definition simulate_shape (nacq : nat) (final : shape) : shape := nacq :: final.

(* ------------------------------------------------------------------ vectorised run of the 1-D model *)
Section VRun.
Variable S : ScalOps.

(* an operator with array-valued coefficients: batch shape + the scalar operator at each index *)
Record vop := mkVop { vshape : shape; vget : list nat -> op S; vmat : bool }.
(* a batched state matrix *)
Record vsm := mkVsm { bshape : shape; sget : list nat -> sm S }.

Definition vapply (ns : nat) (o : vop) (s : vsm) : option vsm :=
  match prepare (vshape o) (bshape s) with
  | None => None
  | Some B' =>
      match vprod (vmat o) (vshape o) B' ns with
      | None => None
      | Some p => Some (mkVsm (pi_shape p)
                    (fun idx => apply (vget o (pi_op p idx))
                                      (sget s (firstn (length (bshape s)) (pi_st p idx)))))
      end
  end.

Fixpoint vrun (ns : nat) (ops : list vop) (s : vsm) : option vsm :=
  match ops with
  | [] => Some s
  | o :: r => match vapply ns o s with Some s' => vrun ns r s' | None => None end
  end.

(* the scalar run at grid index idx: every operator with that index's coefficients *)
Definition scalar_ops (ops : list vop) (idx : list nat) : list (op S) :=
  map (fun o => vget o (aproj (vshape o) idx)) ops.

End VRun.

Arguments mkVop {S}. Arguments vshape {S}. Arguments vget {S}. Arguments vmat {S}.
Arguments mkVsm {S}. Arguments bshape {S}. Arguments sget {S}.
Arguments vapply {S}. Arguments vrun {S}. Arguments scalar_ops {S}.

(* ------------------------------------------------------------------ verdict helpers for the correspondence *)
Definition oshape_eqb (a b : option shape) : bool :=
  match a, b with
  | Some x, Some y => shape_eqb x y
  | None, None => true
  | _, _ => false
  end.
Fixpoint lshape_eqb (a b : list shape) : bool :=
  match a, b with
  | [], [] => true
  | x :: a', y :: b' => shape_eqb x y && lshape_eqb a' b'
  | _, _ => false
  end.
(* all indices of a shape, row-major *)
Fixpoint indices (s : shape) : list (list nat) :=
  match s with
  | [] => [[]]
  | d :: r => flat_map (fun i => map (cons i) (indices r)) (seq 0 d)
  end.

(* ------------------------------------------------------------------ operator shape from its parameters
   T/Phi/E/P/R: parameters are append-expanded (expand_arrays(append=True)) and broadcast,
   an all-scalar operator has shape (1,) (atleast_1d / arr[NAX]); then set_axes on the
   coefficient array (core = 1 for ScalarOp, 2 for MatrixOp trailing axes) *)
Definition op_shape (params : list shape) (core : nat) (axes : option (nat + list nat)) : option shape :=
  match broadcast_shapes true params with
  | None => None
  | Some b =>
      let b' := match b with [] => [1] | _ => b end in
      match axes with
      | None => Some b'
      | Some ax => match set_axes core (b' ++ repeat 3 core) ax with
                   | Some s => Some (firstn (length s - core) s)
                   | None => None
                   end
      end
  end.

Definition list_nat_eqb (a b : list nat) : bool := shape_eqb a b.

(* verdict of a direct scalar_prod / fall-back call: shape and the elements read at sample indices *)
Definition prod_check (A B : shape) (ns : nat) (obs : option shape)
           (samples : list (list nat * list nat * list nat)) : bool :=
  oshape_eqb (prod_shape A B ns) obs &&
  forallb (fun t => match t with (idx, oi, si) =>
             shape_eqb (prod_op A B idx) oi && shape_eqb (prod_st B ns idx) si end) samples.

(* verdict of matrix_prod(inplace=True):
   batch shape of the result, and elements read at sample batch indices *)
Definition mprod_check (A B : shape) (ns : nat) (obs : option shape)
           (samples : list (list nat * list nat * list nat)) : bool :=
  match vprod true A B ns, obs with
  | None, None => true
  | Some p, Some r =>
      shape_eqb (pi_shape p) r &&
      forallb (fun t => match t with (idx, oi, si) =>
                 shape_eqb (pi_op p idx) oi && shape_eqb (pi_st p idx) si end) samples
  | _, _ => false
  end.
