(* Boolean well-formedness predicate (C08), evaluated on model states and on
   the implementation's observed arrays. *)
From Coq Require Import List ZArith Lia Bool.
From EPG Require Import Scalar State Ops.
Import ListNotations.

Section Wf.
Variable S : ScalOps.
Notation triple := (triple S).
Notation sm := (sm S).

Definition seqb (x y : S) := keqb x y.
Fixpoint klist_eqb (x y : list S) : bool :=
  match x, y with
  | [], [] => true
  | u :: x', v :: y' => keqb u v && klist_eqb x' y'
  | _, _ => false
  end.

Definition wfb (s : sm) : bool :=
  let l := st s in let e := equ s in
  Nat.eqb (length l) (length e) && Nat.odd (length l) &&
  klist_eqb (map fm l) (rev (map (fun x => kconj (fp x)) l)) &&
  klist_eqb (map fz l) (rev (map (fun x => kconj (fz x)) l)) &&
  leqb S e (pd_equ S (fz (centre e)) (length e)).

End Wf.
Arguments wfb {S}.
