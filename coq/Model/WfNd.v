(* Well-formedness predicate of C08 on OBSERVED arrays (floating-point values converted exactly to
   rationals), with a relative tolerance for the conjugate-symmetry clauses; includes the
   coordinates array of the n-D / gridded shift back-ends. *)
From Coq Require Import List ZArith QArith Qcanon Bool.
From EPG Require Import Scalar QI State Ops Wf.
Import ListNotations.

Definition qc_le (x y : Qc) : bool := Qle_bool (this x) (this y).
Definition qi_abs2 (x : QI) : Qc := (fst x * fst x + snd x * snd x)%Qc.
(* |x - y|^2 <= tol^2 * (1 + |y|^2) *)
Definition qi_close (tol : Qc) (x y : QI) : bool :=
  qc_le (qi_abs2 (qi_sub x y)) (tol * tol * (Q2Qc 1 + qi_abs2 y))%Qc.
Definition qi_is0 (x : QI) : bool := qi_eqb x qi0.

Fixpoint all2b {A B} (f : A -> B -> bool) (x : list A) (y : list B) : bool :=
  match x, y with
  | [], [] => true
  | u :: x', v :: y' => f u v && all2b f x' y'
  | _, _ => false
  end.

Definition wfb_obs (tol : Qc) (st equ : list (triple QIops)) (coords : option (list (list Qc))) : bool :=
  let n2 := length st in
  Nat.eqb n2 (length equ) && Nat.odd n2 &&
  all2b (qi_close tol) (map (@fm QIops) st) (rev (map (fun x : triple QIops => qi_conj (fp x)) st)) &&
  all2b (qi_close tol) (map (@fz QIops) st) (rev (map (fun x : triple QIops => qi_conj (fz x)) st)) &&
  (* equilibrium: zero except the Z component of the centre state *)
  forallb (fun ie : nat * triple QIops => let '(i, e) := ie in
             qi_is0 (fp e) && qi_is0 (fm e) && (Nat.eqb i ((n2 - 1) / 2) || qi_is0 (fz e)))
          (combine (seq 0 n2) equ) &&
  match coords with
  | None => true
  | Some cs =>
      Nat.eqb (length cs) n2 &&
      all2b (fun a b => all2b (fun u v => qi_close tol (u, Q2Qc 0) ((- v)%Qc, Q2Qc 0)) a b) cs (rev cs) &&
      (* merged wavenumbers are amplitude-weighted means: the centre is 0 up to rounding (1e-17 observed) *)
      forallb (fun u => qi_close tol (u, Q2Qc 0) (Q2Qc 0, Q2Qc 0)) (nth ((n2 - 1) / 2) cs [])
  end.

(* hypotheses of C08_exchange_keeps_symmetry on the matrices of a real X operator (its [mat] array, channels
   F+, F-, Z flattened in the same order): the F- matrix is the conjugate of the F+ matrix, the Z matrix is real *)
Definition xmat_sym_ok (tol : Qc) (m0 m1 m2 : list QI) : bool :=
  all2b (qi_close tol) m1 (map qi_conj m0) && all2b (qi_close tol) m2 (map qi_conj m2).
