(* Component-wise derivatives of C-, triple- and matrix-valued functions of a real
   variable (Coquelicot's is_derive on real and imaginary parts). *)
From Coq Require Import Reals Lra.
From Coquelicot Require Import Coquelicot.
From EPG Require Import Scalar State CInst.
Local Open Scope R_scope.

Definition derC (f : R -> C) (x : R) (l : C) : Prop :=
  is_derive (fun t => fst (f t)) x (fst l) /\ is_derive (fun t => snd (f t)) x (snd l).

Definition derT (f : R -> triple Cops) (x : R) (l : triple Cops) : Prop :=
  derC (fun t => fp (f t)) x (fp l) /\ derC (fun t => fm (f t)) x (fm l) /\ derC (fun t => fz (f t)) x (fz l).

Definition derM (f : R -> mat3 Cops) (x : R) (l : mat3 Cops) : Prop :=
  derT (fun t => row0 (f t)) x (row0 l) /\ derT (fun t => row1 (f t)) x (row1 l) /\
  derT (fun t => row2 (f t)) x (row2 l).

Lemma derC_ext f g x l : (forall t, f t = g t) -> derC f x l -> derC g x l.
Proof.
  intros H [H1 H2]. split.
  - apply (is_derive_ext (fun t => fst (f t))); auto. intros t. now rewrite H.
  - apply (is_derive_ext (fun t => snd (f t))); auto. intros t. now rewrite H.
Qed.

Lemma derC_eq f x l l' : l = l' -> derC f x l -> derC f x l'.
Proof. now intros ->. Qed.

Lemma derC_const c x : derC (fun _ => c) x (RtoC 0).
Proof. split; simpl; apply @is_derive_const. Qed.

Lemma derC_plus f g x lf lg : derC f x lf -> derC g x lg -> derC (fun t => Cplus (f t) (g t)) x (Cplus lf lg).
Proof.
  intros [F1 F2] [G1 G2]. split; simpl.
  - apply (is_derive_plus (fun t => fst (f t)) (fun t => fst (g t))); auto.
  - apply (is_derive_plus (fun t => snd (f t)) (fun t => snd (g t))); auto.
Qed.

Lemma derC_minus f g x lf lg : derC f x lf -> derC g x lg -> derC (fun t => Cminus (f t) (g t)) x (Cminus lf lg).
Proof.
  intros [F1 F2] [G1 G2]. split; simpl.
  - apply (is_derive_minus (fun t => fst (f t)) (fun t => fst (g t))); auto.
  - apply (is_derive_minus (fun t => snd (f t)) (fun t => snd (g t))); auto.
Qed.

Lemma derC_mult f g x lf lg : derC f x lf -> derC g x lg ->
  derC (fun t => Cmult (f t) (g t)) x (Cplus (Cmult lf (g x)) (Cmult (f x) lg)).
Proof.
  intros [F1 F2] [G1 G2]. split; simpl.
  - evar_last.
    + apply (is_derive_minus (fun t => fst (f t) * fst (g t)) (fun t => snd (f t) * snd (g t))).
      * apply (is_derive_mult (fun t => fst (f t)) (fun t => fst (g t))); eauto. intros; apply Rmult_comm.
      * apply (is_derive_mult (fun t => snd (f t)) (fun t => snd (g t))); eauto. intros; apply Rmult_comm.
    + unfold minus, plus, opp, mult; simpl. unfold mult; simpl. ring.
  - evar_last.
    + apply (is_derive_plus (fun t => fst (f t) * snd (g t)) (fun t => snd (f t) * fst (g t))).
      * apply (is_derive_mult (fun t => fst (f t)) (fun t => snd (g t))); eauto. intros; apply Rmult_comm.
      * apply (is_derive_mult (fun t => snd (f t)) (fun t => fst (g t))); eauto. intros; apply Rmult_comm.
    + unfold minus, plus, opp, mult; simpl. unfold mult; simpl. ring.
Qed.

(* chain rule with t |-> -t *)
Lemma derC_neg_arg f x l : derC f (- x) l -> derC (fun t => f (- t)) x (Copp l).
Proof.
  intros [F1 F2]. split; simpl.
  - evar_last.
    + apply (is_derive_comp (fun u => fst (f u)) (fun t => - t)); [exact F1|].
      apply @is_derive_opp. apply @is_derive_id.
    + unfold scal, opp, one; simpl. unfold mult; simpl. ring.
  - evar_last.
    + apply (is_derive_comp (fun u => snd (f u)) (fun t => - t)); [exact F2|].
      apply @is_derive_opp. apply @is_derive_id.
    + unfold scal, opp, one; simpl. unfold mult; simpl. ring.
Qed.

(* ---- dot products, rows, matrices ---- *)
Lemma derC_dot (a b : R -> triple Cops) x la lb : derT a x la -> derT b x lb ->
  derC (fun t => @dot Cops (a t) (b t)) x (Cplus (@dot Cops la (b x)) (@dot Cops (a x) lb)).
Proof.
  intros (A1 & A2 & A3) (B1 & B2 & B3).
  pose proof (derC_mult _ _ _ _ _ A1 B1) as P1.
  pose proof (derC_mult _ _ _ _ _ A2 B2) as P2.
  pose proof (derC_mult _ _ _ _ _ A3 B3) as P3.
  pose proof (derC_plus _ _ _ _ _ (derC_plus _ _ _ _ _ P1 P2) P3) as P.
  eapply derC_eq; [|exact P].
  unfold dot. change (@kmul Cops) with Cmult. change (@kadd Cops) with Cplus. ring.
Qed.

Lemma derT_col0 (b : R -> mat3 Cops) x lb : derM b x lb -> derT (fun t => col0 (b t)) x (col0 lb).
Proof. intros ((A1&_&_) & (B1&_&_) & (C1&_&_)). repeat split; simpl; apply A1 || apply B1 || apply C1. Qed.
Lemma derT_col1 (b : R -> mat3 Cops) x lb : derM b x lb -> derT (fun t => col1 (b t)) x (col1 lb).
Proof. intros ((_&A1&_) & (_&B1&_) & (_&C1&_)). repeat split; simpl; apply A1 || apply B1 || apply C1. Qed.
Lemma derT_col2 (b : R -> mat3 Cops) x lb : derM b x lb -> derT (fun t => col2 (b t)) x (col2 lb).
Proof. intros ((_&_&A1) & (_&_&B1) & (_&_&C1)). repeat split; simpl; apply A1 || apply B1 || apply C1. Qed.

Lemma derT_rowmul (r : R -> triple Cops) (b : R -> mat3 Cops) x lr lb : derT r x lr -> derM b x lb ->
  derT (fun t => rowmul (r t) (b t)) x (tadd (rowmul lr (b x)) (rowmul (r x) lb)).
Proof.
  intros Hr Hb. unfold rowmul, derT, tadd. cbn [fp fm fz].
  change (@kadd Cops) with Cplus.
  split; [|split].
  - exact (derC_dot r (fun t => col0 (b t)) x lr (col0 lb) Hr (derT_col0 b x lb Hb)).
  - exact (derC_dot r (fun t => col1 (b t)) x lr (col1 lb) Hr (derT_col1 b x lb Hb)).
  - exact (derC_dot r (fun t => col2 (b t)) x lr (col2 lb) Hr (derT_col2 b x lb Hb)).
Qed.

(* product rule for matrix products *)
Lemma derM_mmul (a b : R -> mat3 Cops) x la lb : derM a x la -> derM b x lb ->
  derM (fun t => mmul (a t) (b t)) x (madd (mmul la (b x)) (mmul (a x) lb)).
Proof.
  intros (A0 & A1 & A2) Hb. unfold mmul, madd, derM. cbn [row0 row1 row2].
  split; [|split].
  - exact (derT_rowmul _ b x _ lb A0 Hb).
  - exact (derT_rowmul _ b x _ lb A1 Hb).
  - exact (derT_rowmul _ b x _ lb A2 Hb).
Qed.

Lemma derT_const c x : derT (fun _ => c) x t0.
Proof. unfold derT. split; [|split]; exact (derC_const _ x). Qed.
Lemma derM_const c x : derM (fun _ => c) x (mkM t0 t0 t0).
Proof. unfold derM. split; [|split]; exact (derT_const _ x). Qed.

Lemma derM_eq f x l l' : l = l' -> derM f x l -> derM f x l'.
Proof. now intros ->. Qed.
Lemma derT_ext f g x l : (forall t, f t = g t) -> derT f x l -> derT g x l.
Proof.
  intros H (A & B & C). split; [|split].
  - exact (derC_ext (fun t => fp (f t)) (fun t => fp (g t)) x _ (fun t => f_equal fp (H t)) A).
  - exact (derC_ext (fun t => fm (f t)) (fun t => fm (g t)) x _ (fun t => f_equal fm (H t)) B).
  - exact (derC_ext (fun t => fz (f t)) (fun t => fz (g t)) x _ (fun t => f_equal fz (H t)) C).
Qed.
Lemma derM_ext f g x l : (forall t, f t = g t) -> derM f x l -> derM g x l.
Proof.
  intros H (A & B & C). split; [|split].
  - exact (derT_ext (fun t => row0 (f t)) (fun t => row0 (g t)) x _ (fun t => f_equal row0 (H t)) A).
  - exact (derT_ext (fun t => row1 (f t)) (fun t => row1 (g t)) x _ (fun t => f_equal row1 (H t)) B).
  - exact (derT_ext (fun t => row2 (f t)) (fun t => row2 (g t)) x _ (fun t => f_equal row2 (H t)) C).
Qed.

Definition topp (a : triple Cops) : triple Cops := @tscale Cops (RtoC (-1)) a.
Definition mopp (a : mat3 Cops) : mat3 Cops := @mscale Cops (RtoC (-1)) a.

Lemma Copp_m1 (l : C) : Copp l = Cmult (RtoC (-1)) l.
Proof. apply injective_projections; simpl; ring. Qed.

Lemma derT_neg_arg f x l : derT f (- x) l -> derT (fun t => f (- t)) x (topp l).
Proof.
  intros (A & B & C). unfold derT, topp, tscale. cbn [fp fm fz]. change (@kmul Cops) with Cmult.
  rewrite <- !Copp_m1.
  split; [|split].
  - exact (derC_neg_arg (fun u => fp (f u)) x _ A).
  - exact (derC_neg_arg (fun u => fm (f u)) x _ B).
  - exact (derC_neg_arg (fun u => fz (f u)) x _ C).
Qed.
Lemma derM_neg_arg f x l : derM f (- x) l -> derM (fun t => f (- t)) x (mopp l).
Proof.
  intros (A & B & C). unfold derM, mopp, mscale. cbn [row0 row1 row2].
  split; [|split].
  - exact (derT_neg_arg (fun u => row0 (f u)) x _ A).
  - exact (derT_neg_arg (fun u => row1 (f u)) x _ B).
  - exact (derT_neg_arg (fun u => row2 (f u)) x _ C).
Qed.

Lemma derT_tsub (a b : R -> triple Cops) x la lb : derT a x la -> derT b x lb ->
  derT (fun t => tsub (a t) (b t)) x (tsub la lb).
Proof.
  intros (A0 & A1 & A2) (B0 & B1 & B2). unfold derT, tsub. cbn [fp fm fz].
  change (@ksub Cops) with Cminus.
  split; [exact (derC_minus _ _ _ _ _ A0 B0)|split; [exact (derC_minus _ _ _ _ _ A1 B1)|exact (derC_minus _ _ _ _ _ A2 B2)]].
Qed.

Lemma derM_msub (a b : R -> mat3 Cops) x la lb : derM a x la -> derM b x lb ->
  derM (fun t => msub (a t) (b t)) x (msub la lb).
Proof.
  intros (A0 & A1 & A2) (B0 & B1 & B2). unfold derM, msub. cbn [row0 row1 row2].
  split; [exact (derT_tsub _ _ _ _ _ A0 B0)|split; [exact (derT_tsub _ _ _ _ _ A1 B1)|exact (derT_tsub _ _ _ _ _ A2 B2)]].
Qed.
