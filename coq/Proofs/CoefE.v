(* Coefficient-level facts about the GENERATED evolution arrays (Gen/Evolution.v):
   derivative tables of E, P, R -- first and second order, recovery term included. *)
From Coq Require Import Reals Lra Psatz.
From Coquelicot Require Import Coquelicot.
From EPG Require Import Scalar State CInst Evolution CDeriv.
Local Open Scope R_scope.

Definition opt0 (o : option (triple Cops)) : triple Cops :=
  match o with Some x => x | None => t0 end.

(* derivative of an (arr, arr0) pair: both the coefficient array and the recovery array *)
Definition derA (f : R -> triple Cops * option (triple Cops)) (x : R)
                (l : triple Cops * option (triple Cops)) : Prop :=
  derT (fun t => fst (f t)) x (fst l) /\ derT (fun t => opt0 (snd (f t))) x (opt0 (snd l)).

Ltac split_derA := split; (split; [|split]); split.
Ltac fin := unfold Rdiv; field.
Ltac norm_A := cbn [fst snd opt0 fp fm fz t0]; change (@k0 Cops) with (RtoC 0); cbn [fst snd RtoC].

Ltac derA_tac := split_derA; norm_A; auto_derive; trivial; try fin.

(* ============ E ============ *)
Section E.
Variables tau T1 T2 g : R.
Hypothesis HT1 : T1 <> 0.
Hypothesis HT2 : T2 <> 0.

Theorem E_d_tau_correct : derA (fun x => E_op x T1 T2 g) tau (E_d_tau tau T1 T2 g).
Proof. unfold E_op, E_d_tau, relaxation_operator, relaxation_d_tau, derA, derT, derC. derA_tac; auto. Qed.
Theorem E_d_T1_correct : derA (fun x => E_op tau x T2 g) T1 (E_d_T1 tau T1 T2 g).
Proof. unfold E_op, E_d_T1, relaxation_operator, relaxation_d_T1, derA, derT, derC. derA_tac; auto. Qed.
Theorem E_d_T2_correct : derA (fun x => E_op tau T1 x g) T2 (E_d_T2 tau T1 T2 g).
Proof. unfold E_op, E_d_T2, relaxation_operator, relaxation_d_T2, derA, derT, derC. derA_tac; auto. Qed.
Theorem E_d_g_correct : derA (fun x => E_op tau T1 T2 x) g (E_d_g tau T1 T2 g).
Proof. unfold E_op, E_d_g, relaxation_operator, relaxation_d_g, derA, derT, derC. derA_tac; auto. Qed.

(* second order, both orders of differentiation for the mixed entries *)
Theorem E_d2_tau_tau_correct : derA (fun x => E_d_tau x T1 T2 g) tau (E_d2_tau_tau tau T1 T2 g).
Proof. unfold E_d_tau, E_d2_tau_tau, relaxation_d_tau, relaxation_d2_tau, derA, derT, derC. derA_tac; auto. Qed.
Theorem E_d2_T1_T1_correct : derA (fun x => E_d_T1 tau x T2 g) T1 (E_d2_T1_T1 tau T1 T2 g).
Proof. unfold E_d_T1, E_d2_T1_T1, relaxation_d_T1, relaxation_d2_T1, derA, derT, derC. derA_tac; auto. Qed.
Theorem E_d2_T2_T2_correct : derA (fun x => E_d_T2 tau T1 x g) T2 (E_d2_T2_T2 tau T1 T2 g).
Proof. unfold E_d_T2, E_d2_T2_T2, relaxation_d_T2, relaxation_d2_T2, derA, derT, derC. derA_tac; auto. Qed.
Theorem E_d2_g_g_correct : derA (fun x => E_d_g tau T1 T2 x) g (E_d2_g_g tau T1 T2 g).
Proof. unfold E_d_g, E_d2_g_g, relaxation_d_g, relaxation_d2_g, derA, derT, derC. derA_tac; auto. Qed.
Theorem E_d2_T1_tau_correct : derA (fun x => E_d_T1 x T1 T2 g) tau (E_d2_T1_tau tau T1 T2 g).
Proof. unfold E_d_T1, E_d2_T1_tau, relaxation_d_T1, relaxation_d_tau_T1, derA, derT, derC. derA_tac; auto. Qed.
Theorem E_d2_tau_T1_correct : derA (fun x => E_d_tau tau x T2 g) T1 (E_d2_T1_tau tau T1 T2 g).
Proof. unfold E_d_tau, E_d2_T1_tau, relaxation_d_tau, relaxation_d_tau_T1, derA, derT, derC. derA_tac; auto. Qed.
Theorem E_d2_T2_tau_correct : derA (fun x => E_d_T2 x T1 T2 g) tau (E_d2_T2_tau tau T1 T2 g).
Proof. unfold E_d_T2, E_d2_T2_tau, relaxation_d_T2, relaxation_d_tau_T2, derA, derT, derC. derA_tac; auto. Qed.
Theorem E_d2_tau_T2_correct : derA (fun x => E_d_tau tau T1 x g) T2 (E_d2_T2_tau tau T1 T2 g).
Proof. unfold E_d_tau, E_d2_T2_tau, relaxation_d_tau, relaxation_d_tau_T2, derA, derT, derC. derA_tac; auto. Qed.
Theorem E_d2_g_tau_correct : derA (fun x => E_d_g x T1 T2 g) tau (E_d2_g_tau tau T1 T2 g).
Proof. unfold E_d_g, E_d2_g_tau, relaxation_d_g, relaxation_d_tau_g, derA, derT, derC. derA_tac; auto. Qed.
Theorem E_d2_tau_g_correct : derA (fun x => E_d_tau tau T1 T2 x) g (E_d2_g_tau tau T1 T2 g).
Proof. unfold E_d_tau, E_d2_g_tau, relaxation_d_tau, relaxation_d_tau_g, derA, derT, derC. derA_tac; auto. Qed.
Theorem E_d2_T2_g_correct : derA (fun x => E_d_T2 tau T1 T2 x) g (E_d2_T2_g tau T1 T2 g).
Proof. unfold E_d_T2, E_d2_T2_g, relaxation_d_T2, relaxation_d_T2_g, derA, derT, derC. derA_tac; auto. Qed.
Theorem E_d2_g_T2_correct : derA (fun x => E_d_g tau T1 x g) T2 (E_d2_T2_g tau T1 T2 g).
Proof. unfold E_d_g, E_d2_T2_g, relaxation_d_g, relaxation_d_T2_g, derA, derT, derC. derA_tac; auto. Qed.

(* pairs absent from PARAMETERS_ORDER2 have a vanishing mixed derivative, so omitting them is sound *)
Definition Azero : triple Cops * option (triple Cops) := (t0, None).
Theorem E_d2_T1_T2_zero : derA (fun x => E_d_T1 tau T1 x g) T2 Azero.
Proof. unfold E_d_T1, relaxation_d_T1, Azero, derA, derT, derC. derA_tac; auto. Qed.
Theorem E_d2_T2_T1_zero : derA (fun x => E_d_T2 tau x T2 g) T1 Azero.
Proof. unfold E_d_T2, relaxation_d_T2, Azero, derA, derT, derC. derA_tac; auto. Qed.
Theorem E_d2_T1_g_zero : derA (fun x => E_d_T1 tau T1 T2 x) g Azero.
Proof. unfold E_d_T1, relaxation_d_T1, Azero, derA, derT, derC. derA_tac; auto. Qed.
Theorem E_d2_g_T1_zero : derA (fun x => E_d_g tau x T2 g) T1 Azero.
Proof. unfold E_d_g, relaxation_d_g, Azero, derA, derT, derC. derA_tac; auto. Qed.
End E.

(* ============ P ============ *)
Section P.
Variables tau g : R.
Theorem P_d_tau_correct : derA (fun x => P_op x g) tau (P_d_tau tau g).
Proof. unfold P_op, P_d_tau, precession_operator, precession_d_tau, derA, derT, derC. derA_tac; auto. Qed.
Theorem P_d_g_correct : derA (fun x => P_op tau x) g (P_d_g tau g).
Proof. unfold P_op, P_d_g, precession_operator, precession_d_g, derA, derT, derC. derA_tac; auto. Qed.
Theorem P_d2_tau_tau_correct : derA (fun x => P_d_tau x g) tau (P_d2_tau_tau tau g).
Proof. unfold P_d_tau, P_d2_tau_tau, precession_d_tau, precession_d2_tau, derA, derT, derC. derA_tac; auto. Qed.
Theorem P_d2_g_g_correct : derA (fun x => P_d_g tau x) g (P_d2_g_g tau g).
Proof. unfold P_d_g, P_d2_g_g, precession_d_g, precession_d2_g, derA, derT, derC. derA_tac; auto. Qed.
Theorem P_d2_g_tau_correct : derA (fun x => P_d_g x g) tau (P_d2_g_tau tau g).
Proof. unfold P_d_g, P_d2_g_tau, precession_d_g, precession_d_tau_g, derA, derT, derC. derA_tac; auto. Qed.
Theorem P_d2_tau_g_correct : derA (fun x => P_d_tau tau x) g (P_d2_g_tau tau g).
Proof. unfold P_d_tau, P_d2_g_tau, precession_d_tau, precession_d_tau_g, derA, derT, derC. derA_tac; auto. Qed.
End P.

(* ============ R (derivative with respect to the real part of rT, and rL, r0) ============ *)
Section R.
Variables rT_re rT_im rL r0 : R.
Theorem R_d_rT_correct : derA (fun x => R_op x rT_im rL r0) rT_re (R_d_rT rT_re rT_im rL r0).
Proof. unfold R_op, R_d_rT, evolution_operator, evolution_d_rT, derA, derT, derC. derA_tac; auto. Qed.
Theorem R_d_rL_correct : derA (fun x => R_op rT_re rT_im x r0) rL (R_d_rL rT_re rT_im rL r0).
Proof. unfold R_op, R_d_rL, evolution_operator, evolution_d_rL, derA, derT, derC. derA_tac; auto. Qed.
Theorem R_d_r0_correct : derA (fun x => R_op rT_re rT_im rL x) r0 (R_d_r0 rT_re rT_im rL r0).
Proof. unfold R_op, R_d_r0, evolution_operator, evolution_d_r0, derA, derT, derC. derA_tac; auto. Qed.
Theorem R_d2_rT_rT_correct : derA (fun x => R_d_rT x rT_im rL r0) rT_re (R_d2_rT_rT rT_re rT_im rL r0).
Proof. unfold R_d_rT, R_d2_rT_rT, evolution_d_rT, evolution_d2_rT, derA, derT, derC. derA_tac; auto. Qed.
Theorem R_d2_rL_rL_correct : derA (fun x => R_d_rL rT_re rT_im x r0) rL (R_d2_rL_rL rT_re rT_im rL r0).
Proof. unfold R_d_rL, R_d2_rL_rL, evolution_d_rL, evolution_d2_rL, derA, derT, derC. derA_tac; auto. Qed.
Theorem R_d2_r0_r0_correct : derA (fun x => R_d_r0 rT_re rT_im rL x) r0 (R_d2_r0_r0 rT_re rT_im rL r0).
Proof. unfold R_d_r0, R_d2_r0_r0, evolution_d_r0, evolution_d2_r0, derA, derT, derC. derA_tac; auto. Qed.
Theorem R_d2_rT_rL_zero : derA (fun x => R_d_rT rT_re rT_im x r0) rL Azero.
Proof. unfold R_d_rT, evolution_d_rT, Azero, derA, derT, derC. derA_tac; auto. Qed.
Theorem R_d2_rT_r0_zero : derA (fun x => R_d_rT rT_re rT_im rL x) r0 Azero.
Proof. unfold R_d_rT, evolution_d_rT, Azero, derA, derT, derC. derA_tac; auto. Qed.
Theorem R_d2_rL_rT_zero : derA (fun x => R_d_rL x rT_im rL r0) rT_re Azero.
Proof. unfold R_d_rL, evolution_d_rL, Azero, derA, derT, derC. derA_tac; auto. Qed.
Theorem R_d2_rL_r0_zero : derA (fun x => R_d_rL rT_re rT_im rL x) r0 Azero.
Proof. unfold R_d_rL, evolution_d_rL, Azero, derA, derT, derC. derA_tac; auto. Qed.
Theorem R_d2_r0_rT_zero : derA (fun x => R_d_r0 x rT_im rL r0) rT_re Azero.
Proof. unfold R_d_r0, evolution_d_r0, Azero, derA, derT, derC. derA_tac; auto. Qed.
Theorem R_d2_r0_rL_zero : derA (fun x => R_d_r0 rT_re rT_im x r0) rL Azero.
Proof. unfold R_d_r0, evolution_d_r0, Azero, derA, derT, derC. derA_tac; auto. Qed.
End R.
