(* Physical meaning of the GENERATED coefficient arrays: RF pulse = rotation
   (Rodrigues), Phi = z-rotation, E/P/R solve the Bloch equations in tau,
   validity (conjugate symmetry) of all generated operators, weighted isometry. *)
From Coq Require Import Reals Lra Psatz Nsatz.
From Coquelicot Require Import Coquelicot.
From EPG Require Import Scalar State Ops CInst Transition Evolution CDeriv WfProof.
Local Open Scope R_scope.

(* real magnetisation vector -> (M+, M-, Mz) *)
Definition of_xyz (v : R * R * R) : triple Cops :=
  let '(x, y, z) := v in @mk3 Cops (x, y) (x, - y) (z, 0).

(* right-handed rotation by angle a about the axis (cos p, sin p, 0)  (Rodrigues' formula) *)
Definition rodrigues (a p : R) (v : R * R * R) : R * R * R :=
  let '(x, y, z) := v in
  let nx := cos p in let ny := sin p in
  let nv := nx * x + ny * y in
  (x * cos a + (ny * z) * sin a + nx * nv * (1 - cos a),
   y * cos a + (- nx * z) * sin a + ny * nv * (1 - cos a),
   z * cos a + (nx * y - ny * x) * sin a).

Definition rot_z (p : R) (v : R * R * R) : R * R * R :=
  let '(x, y, z) := v in (x * cos p - y * sin p, x * sin p + y * cos p, z).

Ltac trig_setup alpha phi :=
  let h := fresh "h" in
  set (h := PI / 180 * alpha / 2);
  try replace (PI / 180 * alpha) with (2 * h) by (unfold h; field);
  try replace (- phi * PI / 180) with (- (PI / 180 * phi)) by field;
  try replace (phi * PI / 180) with (PI / 180 * phi) by field;
  rewrite ?cos_neg, ?sin_neg, ?sin_2a, ?cos_2a;
  let Hh := fresh "Hh" in let Hp := fresh "Hp" in
  pose proof (sin2_cos2 h) as Hh; pose proof (sin2_cos2 (PI / 180 * phi)) as Hp;
  unfold Rsqr in *;
  generalize dependent (sin h); generalize dependent (cos h);
  generalize dependent (sin (PI / 180 * phi)); generalize dependent (cos (PI / 180 * phi));
  intros cp sp Hp ch sh Hh;
  let Hf := fresh "Hf" in
  assert (Hf : 2 * (1 / 2) = 1) by lra; generalize dependent (1 / 2); intros hf Hf.

Theorem T_is_rotation alpha phi x y z :
  mv (T_op alpha phi) (of_xyz (x, y, z)) =
  of_xyz (rodrigues (PI / 180 * alpha) (PI / 180 * phi) (x, y, z)).
Proof.
  unfold T_op, rotation_operator, of_xyz, rodrigues, mv, dot.
  cbn [row0 row1 row2 fp fm fz].
  change (@kmul Cops) with Cmult; change (@kadd Cops) with Cplus.
  trig_setup alpha phi.
  f_equal; apply injective_projections; simpl; nsatz.
Qed.

Theorem Phi_is_z_rotation phi x y z :
  mv (Phi_op phi) (of_xyz (x, y, z)) = of_xyz (rot_z (PI / 180 * phi) (x, y, z)).
Proof.
  unfold Phi_op, rotation_phi, of_xyz, rot_z, mv, dot.
  cbn [row0 row1 row2 fp fm fz].
  change (@kmul Cops) with Cmult; change (@kadd Cops) with Cplus.
  replace (phi * PI / 180) with (PI / 180 * phi) by field.
  rewrite ?cos_neg, ?sin_neg.
  f_equal; apply injective_projections; simpl; ring.
Qed.

(* ---- validity of the generated operators (what scalar_format / matrix_format check) ---- *)
Theorem T_wf alpha phi : wf_mat Cops (T_op alpha phi).
Proof.
  unfold wf_mat, kreal, T_op, rotation_operator. cbn [row0 row1 row2 fp fm fz kconj Cops].
  replace (- phi * PI / 180) with (- (phi * PI / 180)) by field.
  rewrite ?cos_neg, ?sin_neg.
  repeat split; apply injective_projections; simpl; ring.
Qed.

Theorem Phi_wf phi : wf_mat Cops (Phi_op phi).
Proof.
  unfold wf_mat, kreal, Phi_op, rotation_phi. cbn [row0 row1 row2 fp fm fz kconj Cops].
  rewrite ?cos_neg, ?sin_neg.
  repeat split; apply injective_projections; simpl; ring.
Qed.

Definition wf_pair (a : triple Cops * option (triple Cops)) : Prop :=
  wf_coef Cops (fst a) /\ wf_opt (wf_coef Cops) (snd a).

Theorem E_wf tau T1 T2 g : wf_pair (E_op tau T1 T2 g).
Proof.
  unfold wf_pair, wf_coef, wf_opt, kreal, E_op, relaxation_operator.
  cbn [fst snd fp fm fz kconj Cops].
  repeat split; apply injective_projections; simpl; ring.
Qed.
Theorem P_wf tau g : wf_pair (P_op tau g).
Proof.
  unfold wf_pair, wf_coef, wf_opt, kreal, P_op, precession_operator.
  cbn [fst snd fp fm fz kconj Cops].
  repeat split; apply injective_projections; simpl; ring.
Qed.
Theorem R_wf rT_re rT_im rL r0 : wf_pair (R_op rT_re rT_im rL r0).
Proof.
  unfold wf_pair, wf_coef, wf_opt, kreal, R_op, evolution_operator.
  cbn [fst snd fp fm fz kconj Cops].
  repeat split; apply injective_projections; simpl; ring.
Qed.

(* ---- E solves the Bloch equations in tau ---- *)
Definition opt0 (o : option (triple Cops)) : triple Cops :=
  match o with Some x => x | None => t0 end.

(* magnetisation after time t, from m0 with equilibrium (0,0,pd) *)
Definition evolve (op : triple Cops * option (triple Cops)) (m0 : triple Cops) (pd : C) : triple Cops :=
  tadd (sv (fst op) m0) (sv (opt0 (snd op)) (@mk3 Cops (RtoC 0) (RtoC 0) pd)).

(* Bloch right-hand side: dM+/dt = (-1/T2 + 2 pi i g) M+,  dM-/dt = conj-rate,  dMz/dt = -(Mz - pd)/T1 *)
Definition bloch_rhs (T1 T2 g : R) (m : triple Cops) (pd : C) : triple Cops :=
  @mk3 Cops (Cmult (- / T2, 2 * PI * g) (fp m)) (Cmult (- / T2, - (2 * PI * g)) (fm m))
            (Cmult (RtoC (- / T1)) (Cminus (fz m) pd)).

Theorem E_solves_bloch T1 T2 g (m0 : triple Cops) (pd : C) tau : T1 <> 0 -> T2 <> 0 ->
  derT (fun t => evolve (E_op t T1 T2 g) m0 pd) tau
       (bloch_rhs T1 T2 g (evolve (E_op tau T1 T2 g) m0 pd) pd).
Proof.
  intros H1 H2. destruct m0 as [[a b] [c d] [e f]]. destruct pd as [p q].
  unfold derT, derC, evolve, bloch_rhs, E_op, relaxation_operator, tadd, sv, opt0.
  cbn [fst snd fp fm fz]. change (@kmul Cops) with Cmult; change (@kadd Cops) with Cplus.
  split; [|split]; split; simpl; auto_derive; trivial; unfold Rdiv; field; auto.
Qed.

Theorem E_identity_at_0 T1 T2 g (m0 : triple Cops) (pd : C) : T1 <> 0 -> T2 <> 0 ->
  evolve (E_op 0 T1 T2 g) m0 pd = m0.
Proof.
  intros H1 H2. destruct m0 as [[a b] [c d] [e f]]. destruct pd as [p q].
  unfold evolve, E_op, relaxation_operator, tadd, sv, opt0.
  cbn [fst snd fp fm fz]. change (@kmul Cops) with Cmult; change (@kadd Cops) with Cplus.
  replace (0 * (1 / T2)) with 0 by (field; auto). replace (0 * (2 * PI * g)) with 0 by ring.
  replace (0 / T1) with 0 by (field; auto).
  rewrite ?Ropp_0, ?exp_0, ?cos_0, ?sin_0.
  f_equal; apply injective_projections; simpl; ring.
Qed.

Theorem P_solves_precession g (m0 : triple Cops) (pd : C) tau :
  derT (fun t => evolve (P_op t g) m0 pd) tau
       (@mk3 Cops (Cmult (0, 2 * PI * g) (fp (evolve (P_op tau g) m0 pd)))
                  (Cmult (0, - (2 * PI * g)) (fm (evolve (P_op tau g) m0 pd))) (RtoC 0)).
Proof.
  destruct m0 as [[a b] [c d] [e f]]. destruct pd as [p q].
  unfold derT, derC, evolve, P_op, precession_operator, tadd, sv, opt0.
  cbn [fst snd fp fm fz]. change (@kmul Cops) with Cmult; change (@kadd Cops) with Cplus.
  split; [|split]; split; simpl; auto_derive; trivial; unfold Rdiv; try field; try ring.
Qed.

(* ---- weighted isometry of RF pulses, phase offsets and precession (C14) ---- *)
Definition cnorm2 (z : C) : R := fst z * fst z + snd z * snd z.
(* 1/2 |F+|^2 + 1/2 |F-|^2 + |Z|^2 *)
Definition wnorm2 (v : triple Cops) : R :=
  / 2 * cnorm2 (fp v) + / 2 * cnorm2 (fm v) + cnorm2 (fz v).

Theorem T_isometry alpha phi (v : triple Cops) : wnorm2 (mv (T_op alpha phi) v) = wnorm2 v.
Proof.
  destruct v as [[a b] [c d] [e f]].
  unfold T_op, rotation_operator, wnorm2, cnorm2, mv, dot.
  cbn [row0 row1 row2 fp fm fz].
  change (@kmul Cops) with Cmult; change (@kadd Cops) with Cplus.
  trig_setup alpha phi.
  assert (Hi : 2 * / 2 = 1) by lra. generalize dependent (/ 2). intros i2 Hi.
  simpl. nsatz.
Qed.

Theorem Phi_isometry phi (v : triple Cops) : wnorm2 (mv (Phi_op phi) v) = wnorm2 v.
Proof.
  destruct v as [[a b] [c d] [e f]].
  unfold Phi_op, rotation_phi, wnorm2, cnorm2, mv, dot.
  cbn [row0 row1 row2 fp fm fz].
  change (@kmul Cops) with Cmult; change (@kadd Cops) with Cplus.
  rewrite ?cos_neg, ?sin_neg.
  pose proof (sin2_cos2 (phi * PI / 180)) as Hp. unfold Rsqr in Hp.
  generalize dependent (sin (phi * PI / 180)). generalize dependent (cos (phi * PI / 180)).
  intros cp sp Hp. simpl. nsatz.
Qed.

Theorem P_isometry tau g (v : triple Cops) : wnorm2 (sv (fst (P_op tau g)) v) = wnorm2 v.
Proof.
  destruct v as [[a b] [c d] [e f]].
  unfold P_op, precession_operator, wnorm2, cnorm2, sv.
  cbn [fst snd fp fm fz]. change (@kmul Cops) with Cmult.
  rewrite ?Ropp_0, ?exp_0, ?cos_neg, ?sin_neg.
  pose proof (sin2_cos2 (2 * PI * g * tau)) as Hp. unfold Rsqr in Hp.
  generalize dependent (sin (2 * PI * g * tau)). generalize dependent (cos (2 * PI * g * tau)).
  intros cp sp Hp. simpl. nsatz.
Qed.
