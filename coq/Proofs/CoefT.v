(* Coefficient-level facts about the GENERATED transition matrices (Gen/Transition.v):
   derivative tables of T and Phi (C02, C03), rotation semantics (C01), symmetry (C08). *)
From Coq Require Import Reals Lra Psatz.
From Coquelicot Require Import Coquelicot.
From EPG Require Import Scalar State CInst Transition CDeriv.
Local Open Scope R_scope.

Ltac split_derM := split; [|split]; (split; [|split]); split.

Ltac half_angle alpha :=
  let h := fresh "h" in
  set (h := PI / 180 * alpha * / 2);
  try replace (alpha * PI / 180) with (2 * h) by (unfold h; field);
  try replace (PI / 180 * alpha) with (2 * h) by (unfold h; field);
  rewrite ?sin_2a, ?cos_2a; generalize (sin h) (cos h); intros; field.

Ltac fin := unfold Rdiv; field.
Ltac proj_norm := cbn [row0 row1 row2 fp fm fz fst snd].

(* ---- leaf matrices ---- *)
Lemma d_rotation_alpha alpha : derM rotation_alpha alpha (rotation_alpha_d alpha).
Proof.
  unfold derM, derT, derC, rotation_alpha, rotation_alpha_d. proj_norm.
  split_derM; auto_derive; trivial; half_angle alpha.
Qed.

Lemma d_rotation_alpha_d alpha : derM rotation_alpha_d alpha (rotation_alpha_d2 alpha).
Proof.
  unfold derM, derT, derC, rotation_alpha_d, rotation_alpha_d2. proj_norm.
  split_derM; auto_derive; trivial; fin.
Qed.

Lemma d_rotation_phi phi : derM rotation_phi phi (rotation_phi_d phi).
Proof.
  unfold derM, derT, derC, rotation_phi, rotation_phi_d. proj_norm.
  split_derM; auto_derive; trivial; fin.
Qed.

Lemma d_rotation_phi_d phi : derM rotation_phi_d phi (rotation_phi_d2 phi).
Proof.
  unfold derM, derT, derC, rotation_phi_d, rotation_phi_d2. proj_norm.
  split_derM; auto_derive; trivial; fin.
Qed.

(* ---- structure of the composite matrices, as written in transition.py ---- *)
Lemma C_eq (x y : C) : fst x = fst y -> snd x = snd y -> x = y.
Proof. destruct x, y; simpl; intros; subst; reflexivity. Qed.

Lemma mat3_eq (a b : mat3 Cops) :
  row0 a = row0 b -> row1 a = row1 b -> row2 a = row2 b -> a = b.
Proof. destruct a, b; simpl; intros; subst; reflexivity. Qed.
Lemma triple_eq (a b : triple Cops) : fp a = fp b -> fm a = fm b -> fz a = fz b -> a = b.
Proof. destruct a, b; simpl; intros; subst; reflexivity. Qed.

Ltac mat_ring :=
  apply mat3_eq; apply triple_eq;
  cbn [mmul madd msub mscale rowmul dot col0 col1 col2 row0 row1 row2 fp fm fz tadd tsub tscale mopp];
  change (@kmul Cops) with Cmult; change (@kadd Cops) with Cplus; change (@ksub Cops) with Cminus;
  apply C_eq; simpl; ring.

Lemma rotation_operator_struct alpha phi :
  rotation_operator alpha phi = mmul (rotation_phi phi) (mmul (rotation_alpha alpha) (rotation_phi (- phi))).
Proof. unfold rotation_operator, rotation_phi, rotation_alpha. mat_ring. Qed.

Lemma rotation_d_alpha_struct alpha phi :
  rotation_d_alpha alpha phi = mmul (rotation_phi phi) (mmul (rotation_alpha_d alpha) (rotation_phi (- phi))).
Proof. unfold rotation_d_alpha, rotation_phi, rotation_alpha_d. mat_ring. Qed.

Lemma rotation_d2_alpha_struct alpha phi :
  rotation_d2_alpha alpha phi = mmul (rotation_phi phi) (mmul (rotation_alpha_d2 alpha) (rotation_phi (- phi))).
Proof. unfold rotation_d2_alpha, rotation_phi, rotation_alpha_d2. mat_ring. Qed.

Lemma rotation_d_phi_struct alpha phi :
  rotation_d_phi alpha phi =
  msub (mmul (rotation_phi_d phi) (mmul (rotation_alpha alpha) (rotation_phi (- phi))))
       (mmul (rotation_phi phi) (mmul (rotation_alpha alpha) (rotation_phi_d (- phi)))).
Proof. unfold rotation_d_phi, rotation_phi, rotation_alpha, rotation_phi_d. mat_ring. Qed.

Lemma rotation_d_alpha_phi_struct alpha phi :
  rotation_d_alpha_phi alpha phi =
  msub (mmul (rotation_phi_d phi) (mmul (rotation_alpha_d alpha) (rotation_phi (- phi))))
       (mmul (rotation_phi phi) (mmul (rotation_alpha_d alpha) (rotation_phi_d (- phi)))).
Proof. unfold rotation_d_alpha_phi, rotation_phi, rotation_alpha_d, rotation_phi_d. mat_ring. Qed.

Lemma rotation_d2_phi_struct alpha phi :
  rotation_d2_phi alpha phi =
  msub (madd (mmul (rotation_phi_d2 phi) (mmul (rotation_alpha alpha) (rotation_phi (- phi))))
             (mmul (rotation_phi phi) (mmul (rotation_alpha alpha) (rotation_phi_d2 (- phi)))))
       (@mscale Cops (RtoC 2) (mmul (rotation_phi_d phi) (mmul (rotation_alpha alpha) (rotation_phi_d (- phi))))).
Proof. unfold rotation_d2_phi, rotation_phi, rotation_alpha, rotation_phi_d, rotation_phi_d2. mat_ring. Qed.

(* ---- generic sandwich rules (matrices treated as opaque) ---- *)
Definition mzero : mat3 Cops := mkM t0 t0 t0.

Ltac mat_alg :=
  apply mat3_eq; apply triple_eq;
  cbn [mmul madd msub mscale rowmul dot col0 col1 col2 row0 row1 row2 fp fm fz tadd tsub tscale mopp mzero t0];
  change (@kmul Cops) with Cmult; change (@kadd Cops) with Cplus; change (@ksub Cops) with Cminus;
  change (@k0 Cops) with (RtoC 0); apply C_eq; simpl; ring.

Lemma derM_sandwich (A B : mat3 Cops) (f : R -> mat3 Cops) x l :
  derM f x l -> derM (fun t => mmul A (mmul (f t) B)) x (mmul A (mmul l B)).
Proof.
  intros Hf.
  pose proof (derM_mmul (fun _ => A) (fun t => mmul (f t) B) x mzero _ (derM_const A x)
                (derM_mmul f (fun _ => B) x l mzero Hf (derM_const B x))) as P.
  eapply derM_eq; [|exact P]. mat_alg.
Qed.

Lemma derM_sandwich2 (F G : R -> mat3 Cops) (Mid F' G' : mat3 Cops) x :
  derM F x F' -> derM G (- x) G' ->
  derM (fun p => mmul (F p) (mmul Mid (G (- p)))) x
       (msub (mmul F' (mmul Mid (G (- x)))) (mmul (F x) (mmul Mid G'))).
Proof.
  intros HF HG.
  pose proof (derM_neg_arg G x G' HG) as HG'.
  pose proof (derM_mmul F (fun p => mmul Mid (G (- p))) x F' _ HF
                (derM_mmul (fun _ => Mid) (fun p => G (- p)) x mzero _ (derM_const Mid x) HG')) as P.
  eapply derM_eq; [|exact P]. mat_alg.
Qed.

Lemma derM_madd (a b : R -> mat3 Cops) x la lb : derM a x la -> derM b x lb ->
  derM (fun t => madd (a t) (b t)) x (madd la lb).
Proof.
  intros (A0 & A1 & A2) (B0 & B1 & B2).
  assert (T : forall (u v : R -> triple Cops) lu lv, derT u x lu -> derT v x lv ->
              derT (fun t => tadd (u t) (v t)) x (tadd lu lv)).
  { intros u v lu lv (U0 & U1 & U2) (V0 & V1 & V2). unfold derT, tadd. cbn [fp fm fz].
    change (@kadd Cops) with Cplus.
    split; [exact (derC_plus _ _ _ _ _ U0 V0)|split; [exact (derC_plus _ _ _ _ _ U1 V1)|exact (derC_plus _ _ _ _ _ U2 V2)]]. }
  unfold derM, madd. cbn [row0 row1 row2].
  split; [exact (T _ _ _ _ A0 B0)|split; [exact (T _ _ _ _ A1 B1)|exact (T _ _ _ _ A2 B2)]].
Qed.

Lemma derM_mscale (c : C) (a : R -> mat3 Cops) x la : derM a x la ->
  derM (fun t => @mscale Cops c (a t)) x (@mscale Cops c la).
Proof.
  intros (A0 & A1 & A2).
  assert (Cc : forall (u : R -> C) lu, derC u x lu -> derC (fun t => Cmult c (u t)) x (Cmult c lu)).
  { intros u lu U. eapply derC_eq; [|exact (derC_mult (fun _ => c) u x _ _ (derC_const c x) U)].
    apply C_eq; simpl; ring. }
  assert (T : forall (u : R -> triple Cops) lu, derT u x lu -> derT (fun t => @tscale Cops c (u t)) x (@tscale Cops c lu)).
  { intros u lu (U0 & U1 & U2). unfold derT, tscale. cbn [fp fm fz]. change (@kmul Cops) with Cmult.
    split; [exact (Cc _ _ U0)|split; [exact (Cc _ _ U1)|exact (Cc _ _ U2)]]. }
  unfold derM, mscale. cbn [row0 row1 row2].
  split; [exact (T _ _ A0)|split; [exact (T _ _ A1)|exact (T _ _ A2)]].
Qed.

(* ================= derivative table of T (RF pulse) ================= *)
Theorem T_d_alpha_correct alpha phi :
  derM (fun a => T_op a phi) alpha (T_d_alpha alpha phi).
Proof.
  unfold T_op, T_d_alpha. rewrite rotation_d_alpha_struct.
  eapply derM_ext; [intros t; symmetry; apply rotation_operator_struct|].
  apply derM_sandwich, d_rotation_alpha.
Qed.

Theorem T_d_phi_correct alpha phi :
  derM (fun p => T_op alpha p) phi (T_d_phi alpha phi).
Proof.
  unfold T_op, T_d_phi. rewrite rotation_d_phi_struct.
  eapply derM_ext; [intros t; symmetry; apply rotation_operator_struct|].
  apply (derM_sandwich2 rotation_phi rotation_phi (rotation_alpha alpha)); apply d_rotation_phi.
Qed.

Theorem T_d2_alpha_alpha_correct alpha phi :
  derM (fun a => T_d_alpha a phi) alpha (T_d2_alpha_alpha alpha phi).
Proof.
  unfold T_d_alpha, T_d2_alpha_alpha. rewrite rotation_d2_alpha_struct.
  eapply derM_ext; [intros t; symmetry; apply rotation_d_alpha_struct|].
  apply derM_sandwich, d_rotation_alpha_d.
Qed.

Theorem T_d2_alpha_phi_correct alpha phi :
  derM (fun p => T_d_alpha alpha p) phi (T_d2_alpha_phi alpha phi).
Proof.
  unfold T_d_alpha, T_d2_alpha_phi. rewrite rotation_d_alpha_phi_struct.
  eapply derM_ext; [intros t; symmetry; apply rotation_d_alpha_struct|].
  apply (derM_sandwich2 rotation_phi rotation_phi (rotation_alpha_d alpha)); apply d_rotation_phi.
Qed.

(* the mixed derivative taken in the other order gives the same table entry *)
Theorem T_d2_phi_alpha_correct alpha phi :
  derM (fun a => T_d_phi a phi) alpha (T_d2_alpha_phi alpha phi).
Proof.
  unfold T_d_phi, T_d2_alpha_phi. rewrite rotation_d_alpha_phi_struct.
  eapply derM_ext; [intros t; symmetry; apply rotation_d_phi_struct|].
  apply derM_msub; apply derM_sandwich, d_rotation_alpha.
Qed.

Theorem T_d2_phi_phi_correct alpha phi :
  derM (fun p => T_d_phi alpha p) phi (T_d2_phi_phi alpha phi).
Proof.
  unfold T_d_phi, T_d2_phi_phi. rewrite rotation_d2_phi_struct.
  eapply derM_ext; [intros t; symmetry; apply rotation_d_phi_struct|].
  pose proof (derM_msub _ _ phi _ _
    (derM_sandwich2 rotation_phi_d rotation_phi (rotation_alpha alpha) _ _ phi (d_rotation_phi_d phi) (d_rotation_phi (- phi)))
    (derM_sandwich2 rotation_phi rotation_phi_d (rotation_alpha alpha) _ _ phi (d_rotation_phi phi) (d_rotation_phi_d (- phi)))) as P.
  eapply derM_eq; [|exact P]. mat_alg.
Qed.

(* ================= derivative table of Phi ================= *)
Theorem Phi_d_phi_correct phi : derM Phi_op phi (Phi_d_phi phi).
Proof. apply d_rotation_phi. Qed.
Theorem Phi_d2_phi_phi_correct phi : derM Phi_d_phi phi (Phi_d2_phi_phi phi).
Proof. apply d_rotation_phi_d. Qed.
