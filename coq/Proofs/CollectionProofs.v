(* Proofs about the ArrayCollection state machine (Model/Collection.v). *)
From Coq Require Import List ZArith Lia Bool Arith.
From EPG Require Import Scalar State ListLemmas NdArray NdArrayProofs Collection.
Import ListNotations.

(* ------------------------------------------------------------------ association lists *)
Lemma lookup_map_snd {A B} (f : nat -> A -> B) k m :
  lookup k (map (fun p => (fst p, f (fst p) (snd p))) m) = option_map (f k) (lookup k m).
Proof.
  induction m as [|[k' v] m IH]; simpl; auto.
  destruct (Nat.eqb_spec k k') as [->|]; simpl; auto.
Qed.

Lemma in_set_assoc {A} k (v : A) m k' v' :
  In (k', v') (set_assoc k v m) -> (k' = k /\ v' = v) \/ In (k', v') m.
Proof.
  induction m as [|[k0 v0] m IH]; simpl.
  - intros [E|[]]. inversion E. auto.
  - destruct (Nat.eqb_spec k k0) as [->|NE]; simpl.
    + intros [E|H]; [inversion E; auto|auto].
    + intros [E|H]; [auto|]. destruct (IH H); auto.
Qed.

Lemma lookup_in {A} k (m : list (nat * A)) v : lookup k m = Some v -> In (k, v) m.
Proof.
  induction m as [|[k' v'] m IH]; simpl; [discriminate|].
  destruct (Nat.eqb_spec k k') as [->|]; [intros E; inversion E; auto|auto].
Qed.

Lemma in_lookup {A} k (m : list (nat * A)) v : In (k, v) m -> exists v', lookup k m = Some v'.
Proof.
  induction m as [|[k' v'] m IH]; simpl; [intros []|].
  destruct (Nat.eqb_spec k k') as [->|NE]; [eauto|].
  intros [E|H]; [inversion E; congruence|auto].
Qed.

Lemma in_del_assoc {A} k (m : list (nat * A)) p : In p (del_assoc k m) -> In p m.
Proof. unfold del_assoc. rewrite filter_In. tauto. Qed.

(* ------------------------------------------------------------------ layouts with one ellipsis *)
Definition wf_entry (e : entry) : Prop :=
  exists pre rest, e_lay e = pre ++ LEll :: rest /\ count_ell pre = 0 /\ count_ell rest = 0 /\
                   length pre + length rest <= length (shp (e_arr e)).

Lemma count_one_split l :
  count_ell l = 1 -> exists pre rest, l = pre ++ LEll :: rest /\ count_ell pre = 0 /\ count_ell rest = 0.
Proof.
  unfold count_ell. induction l as [|x l IH]; simpl; [discriminate|].
  destruct x; simpl; intros H;
    try (destruct (IH H) as [pre [rest [-> [H1 H2]]]]; eexists (_ :: pre), rest; simpl; repeat split; auto).
  exists [], l. simpl. repeat split; auto.
Qed.

Lemma count_split_one pre rest : count_ell pre = 0 -> count_ell rest = 0 -> count_ell (pre ++ LEll :: rest) = 1.
Proof. unfold count_ell. intros H1 H2. rewrite filter_app, app_length. simpl. lia. Qed.

Lemma ell_index_split pre rest : count_ell pre = 0 -> ell_index (pre ++ LEll :: rest) = length pre.
Proof.
  unfold count_ell. induction pre as [|x pre IH]; simpl; auto.
  destruct x; simpl; intros H; try discriminate H; f_equal; auto.
Qed.

Lemma nth_ell_split pre rest : nth (length pre) (pre ++ LEll :: rest) LFree = LEll.
Proof. rewrite app_nth2 by lia. now rewrite Nat.sub_diag. Qed.

Lemma shared_axes_split pre rest sh :
  count_ell pre = 0 ->
  shared_axes sh (pre ++ LEll :: rest) = slice (length pre) (length sh - length rest) sh.
Proof.
  intros H. unfold shared_axes. rewrite ell_index_split by assumption. rewrite app_length. simpl.
  f_equal. lia.
Qed.

Lemma bshape_split S pre rest sh :
  count_ell pre = 0 ->
  bshape S sh (pre ++ LEll :: rest) = firstn (length pre) sh ++ S ++ skipn (length sh - length rest) sh.
Proof.
  intros H. unfold bshape. rewrite ell_index_split by assumption. rewrite app_length. simpl.
  do 3 f_equal. lia.
Qed.

Lemma name_index_lt ax l : has_name ax l = true -> name_index ax l < length l.
Proof.
  unfold has_name. induction l as [|x l IH]; simpl; [discriminate|].
  destruct (is_name ax x); simpl; [lia|]. intros H. specialize (IH H). lia.
Qed.

Lemma name_index_nth ax l : has_name ax l = true -> is_name ax (nth (name_index ax l) l LFree) = true.
Proof.
  unfold has_name. induction l as [|x l IH]; simpl; [discriminate|].
  destruct (is_name ax x) eqn:E; simpl; auto.
Qed.

(* positions of the non-ellipsis items lie outside the broadcast part *)
Lemma pos_of_split pre rest ndim i :
  count_ell pre = 0 -> i < length (pre ++ LEll :: rest) -> i <> length pre ->
  length pre + length rest <= ndim ->
  pos_of ndim (pre ++ LEll :: rest) i < ndim /\
  (pos_of ndim (pre ++ LEll :: rest) i < length pre \/ ndim - length rest <= pos_of ndim (pre ++ LEll :: rest) i).
Proof.
  intros Hc Hi Hne Hr. unfold pos_of. rewrite ell_index_split by assumption.
  rewrite app_length in *. simpl in *.
  destruct (Nat.ltb_spec i (length pre)); lia.
Qed.

Lemma named_axes_split pre rest ndim p :
  count_ell pre = 0 -> length pre + length rest <= ndim ->
  In p (named_axes ndim (pre ++ LEll :: rest)) ->
  fst p < ndim /\ (fst p < length pre \/ ndim - length rest <= fst p).
Proof.
  intros Hc Hr Hin. unfold named_axes in Hin. apply in_flat_map in Hin.
  destruct Hin as [i [Hi Hp]]. apply in_seq in Hi.
  destruct (Nat.eq_dec i (length pre)) as [->|Hne]; [rewrite nth_ell_split in Hp; contradiction|].
  destruct (nth i (pre ++ LEll :: rest) LFree) eqn:E; try contradiction.
  destruct Hp as [<-|[]]. simpl fst. apply pos_of_split; auto. lia.
Qed.

(* ------------------------------------------------------------------ resize keeps rank and shared part *)
Lemma resize_array_rank a diff axis c :
  axis < length (shp a) -> length (shp (resize_array a diff axis c)) = length (shp a).
Proof.
  intros H. unfold resize_array. destruct (diff =? 0)%Z; auto.
  now apply length_resize_axis_shape.
Qed.

Lemma resize_array_nth a diff axis c j :
  axis < length (shp a) -> j <> axis ->
  nth j (shp (resize_array a diff axis c)) 0 = nth j (shp a) 0.
Proof.
  intros H Hj. unfold resize_array. destruct (diff =? 0)%Z; auto.
  rewrite nth_resize_axis_shape by assumption. destruct (Nat.eqb_spec j axis); [contradiction|reflexivity].
Qed.

Lemma resize_array_slice a diff axis c lo hi :
  axis < length (shp a) -> (axis < lo \/ hi <= axis) -> hi <= length (shp a) ->
  slice lo hi (shp (resize_array a diff axis c)) = slice lo hi (shp a).
Proof.
  intros H Hout Hhi. apply (nth_ext _ _ 0 0).
  - rewrite !length_slice; auto. now rewrite resize_array_rank.
  - intros i Hi. rewrite length_slice in Hi by (now rewrite resize_array_rank).
    rewrite !nth_slice by lia. apply resize_array_nth; [assumption|lia].
Qed.

Lemma resize_entry_pos ax e pre rest :
  e_lay e = pre ++ LEll :: rest -> count_ell pre = 0 ->
  length pre + length rest <= length (shp (e_arr e)) -> has_name ax (e_lay e) = true ->
  let p := pos_of (length (shp (e_arr e))) (e_lay e) (name_index ax (e_lay e)) in
  p < length (shp (e_arr e)) /\ (p < length pre \/ length (shp (e_arr e)) - length rest <= p).
Proof.
  intros Hl Hc Hr Hn. pose proof (name_index_lt _ _ Hn) as Hlt. pose proof (name_index_nth _ _ Hn) as Hnth.
  rewrite Hl in *. apply pos_of_split; auto.
  intros E. rewrite E, nth_ell_split in Hnth. discriminate.
Qed.

Lemma resize_entry_lay ax diff cst e : e_lay (resize_entry ax diff cst e) = e_lay e.
Proof. unfold resize_entry. destruct (has_name ax (e_lay e)); reflexivity. Qed.

Lemma resize_entry_wf ax diff cst e : wf_entry e -> wf_entry (resize_entry ax diff cst e).
Proof.
  intros [pre [rest [Hl [Hc [Hc' Hr]]]]]. exists pre, rest. rewrite resize_entry_lay.
  split; [auto|split; [auto|split; [auto|]]].
  unfold resize_entry. destruct (has_name ax (e_lay e)) eqn:Hn; [|exact Hr]. simpl.
  destruct (resize_entry_pos ax e pre rest Hl Hc Hr Hn) as [Hp _].
  now rewrite resize_array_rank.
Qed.

Lemma resize_entry_shared ax diff cst e :
  wf_entry e -> entry_shared (resize_entry ax diff cst e) = entry_shared e.
Proof.
  intros [pre [rest [Hl [Hc [Hc' Hr]]]]]. unfold entry_shared. rewrite resize_entry_lay.
  unfold resize_entry. destruct (has_name ax (e_lay e)) eqn:Hn; [|reflexivity]. simpl.
  destruct (resize_entry_pos ax e pre rest Hl Hc Hr Hn) as [Hp Hout].
  rewrite Hl in *. rewrite !shared_axes_split by assumption.
  rewrite resize_array_rank by assumption.
  apply resize_array_slice; [assumption|lia|lia].
Qed.

Lemma resize_named_rank axes a pre rest :
  count_ell pre = 0 -> length pre + length rest <= length (shp a) ->
  let l := pre ++ LEll :: rest in
  length (shp (resize_named axes a l)) = length (shp a) /\
  shared_axes (shp (resize_named axes a l)) l = shared_axes (shp a) l.
Proof.
  intros Hc Hr l.
  set (ndim := length (shp a)). set (lo := length pre). set (hi := ndim - length rest).
  assert (Hall : forall p, In p (named_axes ndim l) -> fst p < ndim /\ (fst p < lo \/ hi <= fst p))
    by (intros p; apply named_axes_split; assumption).
  assert (G : forall L arr, (forall p, In p L -> fst p < ndim /\ (fst p < lo \/ hi <= fst p)) ->
            length (shp arr) = ndim ->
            let r := fold_left (fun arr p =>
              let size := nth (fst p) (shp arr) 0 in
              match lookup (snd p) axes with
              | Some k => if size =? k then arr else resize_array arr (Z.of_nat k - Z.of_nat size) (fst p) 0%Z
              | None => arr end) L arr in
            length (shp r) = ndim /\ slice lo hi (shp r) = slice lo hi (shp arr)).
  { induction L as [|p L IH]; intros arr HL Ha; simpl; [auto|].
    set (arr' := match lookup (snd p) axes with
                 | Some k => if nth (fst p) (shp arr) 0 =? k then arr
                             else resize_array arr (Z.of_nat k - Z.of_nat (nth (fst p) (shp arr) 0)) (fst p) 0%Z
                 | None => arr end).
    assert (Hp : fst p < ndim /\ (fst p < lo \/ hi <= fst p)) by (apply HL; left; reflexivity).
    assert (H' : length (shp arr') = ndim /\ slice lo hi (shp arr') = slice lo hi (shp arr)).
    { unfold arr'. destruct (lookup (snd p) axes); [|auto].
      destruct (_ =? _); [auto|]. split.
      - rewrite resize_array_rank; lia.
      - apply resize_array_slice; unfold hi in *; lia. }
    destruct H' as [H1 H2].
    destruct (IH arr' (fun q Hq => HL q (or_intror Hq)) H1) as [H3 H4].
    split; [exact H3|exact (eq_trans H4 H2)]. }
  assert (R : length (shp (resize_named axes a l)) = ndim /\
              slice lo hi (shp (resize_named axes a l)) = slice lo hi (shp a))
    by exact (G _ a Hall eq_refl).
  destruct R as [G1 G2]. split; [exact G1|].
  subst l. rewrite !shared_axes_split by assumption. rewrite G1. exact G2.
Qed.

(* ------------------------------------------------------------------ the cache invariant *)
(* cached shape = recomputation from arrays + default; per-array broadcast shapes coherent;
   stored layouts ellipsis-first with enough axes *)
Definition CacheInv (c : coll) : Prop :=
  c_shape c = calc_shape (c_app c) (shared_list (c_arrays c) (c_default c)) /\
  (forall nm e, lookup nm (c_arrays c) = Some e ->
                lookup nm (c_shapes c) = Some (bshape (c_shape c) (shp (e_arr e)) (e_lay e))) /\
  (forall nm e, In (nm, e) (c_arrays c) -> wf_entry e).

Lemma lookup_calc_shapes S arrs nm :
  lookup nm (calc_shapes S arrs) =
  option_map (fun e => bshape S (shp (e_arr e)) (e_lay e)) (lookup nm arrs).
Proof. unfold calc_shapes. apply (lookup_map_snd (fun _ e => bshape S (shp (e_arr e)) (e_lay e))). Qed.

Lemma cache_with_arrays c arrs dflt axes :
  (forall nm e, In (nm, e) arrs -> wf_entry e) -> CacheInv (with_arrays c arrs dflt axes).
Proof.
  intros H. unfold CacheInv, with_arrays. simpl. split; [reflexivity|]. split; [|exact H].
  intros nm e Hl. rewrite lookup_calc_shapes, Hl. reflexivity.
Qed.

Lemma cache_init app : CacheInv (init app).
Proof. apply cache_with_arrays. intros nm e []. Qed.

Lemma set_layout_wf c name lay :
  (forall nm e, In (nm, e) (c_arrays c) -> wf_entry e) ->
  let l := match lay with Some l => l | None =>
             match lookup name (c_arrays c) with Some e => e_lay e | None => [LEll] end end in
  count_ell l = 1 -> exists pre rest, l = pre ++ LEll :: rest /\ count_ell pre = 0 /\ count_ell rest = 0.
Proof. intros _ l H. now apply count_one_split. Qed.

Lemma cache_set c name a lay rsz chk c' :
  CacheInv c -> set c name a lay rsz chk = Ok c' -> CacheInv c'.
Proof.
  intros [_ [_ Hwf]] Hs. unfold set in Hs.
  set (l := match lay with Some l => l | None =>
             match lookup name (c_arrays c) with Some e => e_lay e | None => [LEll] end end) in *.
  destruct (Nat.eqb_spec (count_ell l) 1) as [Hone|]; [|discriminate]. cbn [negb] in Hs.
  destruct (count_one_split l Hone) as [pre [rest [Hl [Hc Hc']]]].
  destruct (Nat.ltb_spec (length (shp a) + 1) (length l)) as [|Hrank]; [discriminate|].
  rewrite Hl, app_length in Hrank. simpl in Hrank.
  match type of Hs with (if ?b then _ else _) = _ => destruct b; [discriminate|] end.
  inversion Hs; subst c'. apply cache_with_arrays.
  intros nm e Hin. apply in_set_assoc in Hin. destruct Hin as [[_ ->]|Hin]; [|eauto].
  exists pre, rest. simpl. split; [auto|split; [auto|split; [auto|]]].
  destruct rsz; [|lia]. rewrite Hl.
  destruct (resize_named_rank (gna (c_arrays c) (Some name)) a pre rest) as [-> _]; auto; lia.
Qed.

Lemma set_data_lookup name d arrs nm e' :
  lookup nm (set_data name d arrs) = Some e' ->
  exists e, lookup nm arrs = Some e /\ e_lay e' = e_lay e /\ shp (e_arr e') = shp (e_arr e).
Proof.
  unfold set_data. induction arrs as [|[k v] arrs IH]; simpl; [discriminate|].
  destruct (name =? k); simpl; destruct (nm =? k); auto;
    intros E; inversion E; subst; eexists; (split; [reflexivity|split; reflexivity]).
Qed.

Lemma set_data_in name d arrs nm e' :
  In (nm, e') (set_data name d arrs) ->
  exists e, In (nm, e) arrs /\ e_lay e' = e_lay e /\ shp (e_arr e') = shp (e_arr e).
Proof.
  unfold set_data. intros H. apply in_map_iff in H. destruct H as [[k v] [E Hin]]. simpl in E.
  destruct (name =? k); inversion E; subst; eexists; (split; [exact Hin|split; reflexivity]).
Qed.

Lemma set_data_shared name d arrs dflt :
  shared_list (set_data name d arrs) dflt = shared_list arrs dflt.
Proof.
  unfold shared_list, set_data. f_equal. rewrite map_map. apply map_ext.
  intros [k v]. simpl. destruct (name =? k); reflexivity.
Qed.

Lemma cache_update c name v rsz c' p :
  CacheInv c -> update c name v rsz = Ok (c', p) -> CacheInv c'.
Proof.
  intros HI Hu. unfold update in Hu.
  destruct (lookup name (c_arrays c)) as [e|] eqn:E; [|discriminate].
  destruct (assign_to v (shp (e_arr e))) as [d|].
  - inversion Hu; subst. destruct HI as [H1 [H2 H3]].
    unfold CacheInv. simpl. split; [|split].
    + rewrite set_data_shared. exact H1.
    + intros nm e' Hl. apply set_data_lookup in Hl. destruct Hl as [e0 [Hl [-> ->]]]. auto.
    + intros nm e' Hin. apply set_data_in in Hin. destruct Hin as [e0 [Hin [Hlay Hshp]]].
      destruct (H3 _ _ Hin) as [pre [rest [Ha [Hb [Hc Hd]]]]]. exists pre, rest. rewrite Hlay, Hshp. auto.
  - destruct (set c name v None rsz false) as [c1|] eqn:Es; [|discriminate].
    inversion Hu; subst. eapply cache_set; [exact HI|exact Es].
Qed.

Lemma cache_pop c name : CacheInv c -> CacheInv (fst (pop c name)).
Proof.
  intros HI. unfold pop. destruct (lookup name (c_arrays c)); [|exact HI]. simpl.
  apply cache_with_arrays. intros nm e1 Hin. apply in_del_assoc in Hin.
  destruct HI as [_ [_ H]]. eauto.
Qed.

Lemma cache_resize c ax size cst c' : CacheInv c -> resize c ax size cst = Ok c' -> CacheInv c'.
Proof.
  intros HI Hr. unfold resize in Hr.
  destruct (lookup ax (c_axes c)); [|discriminate].
  destruct (_ =? 0)%Z; [inversion Hr; subst; exact HI|].
  inversion Hr; subst c'; clear Hr. destruct HI as [H1 [H2 H3]].
  unfold CacheInv. simpl. split; [|split].
  - rewrite H1 at 1. f_equal. unfold shared_list. f_equal. rewrite map_map. simpl.
    apply map_ext_in. intros [k e] Hin. simpl. symmetry. apply resize_entry_shared. eauto.
  - intros nm e' Hl.
    rewrite (lookup_map_snd (fun _ e => resize_entry ax _ cst e)) in Hl.
    destruct (lookup nm (c_arrays c)) as [e|] eqn:E; [|discriminate]. simpl in Hl. inversion Hl; subst e'; clear Hl.
    specialize (H2 _ _ E).
    set (arrs := map _ (c_arrays c)).
    assert (Hla : lookup nm arrs = Some (resize_entry ax (Z.of_nat size - Z.of_nat n) cst e)).
    { unfold arrs. rewrite (lookup_map_snd (fun _ e => resize_entry ax _ cst e)), E. reflexivity. }
    transitivity (option_map (fun s =>
       match lookup nm arrs with
       | Some e1 => if has_name ax (e_lay e1) then bshape (c_shape c) (shp (e_arr e1)) (e_lay e1) else s
       | None => s end) (lookup nm (c_shapes c))).
    { clear. induction (c_shapes c) as [|[k s] m IH]; simpl; auto.
      destruct (Nat.eqb_spec nm k) as [->|NE].
      - destruct (lookup k arrs) as [e1|]; simpl; [|now rewrite Nat.eqb_refl].
        destruct (has_name ax (e_lay e1)); simpl; now rewrite Nat.eqb_refl.
      - destruct (lookup k arrs) as [e1|]; simpl.
        + destruct (has_name ax (e_lay e1)); simpl; destruct (Nat.eqb_spec nm k); try contradiction; auto.
        + destruct (Nat.eqb_spec nm k); try contradiction; auto. }
    rewrite H2, Hla. simpl. rewrite resize_entry_lay.
    destruct (has_name ax (e_lay e)) eqn:Hn; [reflexivity|].
    unfold resize_entry. rewrite Hn. reflexivity.
  - intros nm e' Hin. apply in_map_iff in Hin. destruct Hin as [[k e] [Eq Hin]].
    inversion Eq; subst. apply resize_entry_wf. eauto.
Qed.

Lemma cache_same_arrays c dflt axes : CacheInv c -> CacheInv (with_arrays c (c_arrays c) dflt axes).
Proof. intros [_ [_ H]]. apply cache_with_arrays. exact H. Qed.

Lemma copy_id c : copy c = c.
Proof. destruct c; reflexivity. Qed.

Lemma cache_bstep c o c' p r :
  CacheInv c -> bstep c o = Ok (c', p, r) -> CacheInv c'.
Proof.
  intros HI Hs. destruct o; simpl in Hs.
  - destruct (set c name a lay rsz chk) eqn:E; inversion Hs; subst.
    eapply cache_set; [exact HI|exact E].
  - destruct (update c name a rsz) as [[c1 p1]|] eqn:E; inversion Hs; subst.
    eapply cache_update; eauto.
  - destruct (get c name bcast); inversion Hs; subst. exact HI.
  - pose proof (cache_pop c name HI) as H. destruct (pop c name). inversion Hs; subst. exact H.
  - destruct (resize c ax size cst) eqn:E; inversion Hs; subst. eapply cache_resize; eauto.
  - inversion Hs; subst. now apply cache_same_arrays.
  - inversion Hs; subst. now apply cache_same_arrays.
  - unfold broadcast in Hs. destruct (check_shape c sh [LEll] None); inversion Hs; subst.
    now apply cache_same_arrays.
Qed.

Definition CacheInvS (s : state) : Prop :=
  CacheInv (main s) /\ forall ch, child s = Some ch -> CacheInv ch.

Lemma cache_follow parent ch : CacheInv ch -> CacheInv (follow parent ch).
Proof. apply cache_same_arrays. Qed.

Lemma cache_step s o : CacheInvS s -> CacheInvS (step_state s o).
Proof.
  intros [Hm Hc]. unfold step_state.
  destruct (step s o) as [[s' r]|] eqn:E; [|split; assumption].
  destruct o; simpl in E.
  - destruct (bstep (main s) o) as [[[c' p] r']|] eqn:Eb; inversion E; subst; clear E.
    split; simpl.
    + exact (cache_bstep _ _ _ _ _ Hm Eb).
    + intros ch Hch. destruct p; [|auto].
      destruct (child s) as [ch0|]; simpl in Hch; inversion Hch; subst.
      apply cache_follow. auto.
  - destruct (child s) as [ch|] eqn:Ech; [|discriminate].
    destruct (bstep ch o) as [[[c' p] r']|] eqn:Eb; inversion E; subst; clear E.
    split; simpl; [assumption|]. intros ch' Hch'. inversion Hch'; subst.
    exact (cache_bstep _ _ _ _ _ (Hc _ eq_refl) Eb).
  - inversion E; subst. split; simpl; [now rewrite copy_id|assumption].
  - destruct (child s) eqn:Ech; inversion E; subst. split; simpl; [assumption|].
    intros ch Hch. inversion Hch; subst. apply cache_follow, cache_init.
Qed.

Lemma cache_start app : CacheInvS (start app).
Proof. split; [apply cache_init|]. simpl. discriminate. Qed.

Lemma cache_run s h : CacheInvS s -> CacheInvS (run s h).
Proof.
  unfold run. revert s. induction h as [|o h IH]; intros s HI; simpl; [assumption|].
  apply IH. now apply cache_step.
Qed.

(* the shape caches are coherent after every call history, both expand conventions *)
Theorem cache_reachable app h : CacheInvS (run (start app) h).
Proof. apply cache_run, cache_start. Qed.

(* ------------------------------------------------------------------ copy *)
(* copy() returns a collection with the same observable state (independence of the memory is
   checked on the implementation by props/c16.py: the model has no aliasing) *)
Theorem copy_equal s r : observe r (fst (match step s OCopy with Ok x => x | Err _ => (s, None) end)) = observe r s.
Proof. simpl. rewrite copy_id. destruct s; reflexivity. Qed.

(* ------------------------------------------------------------------ refuted clauses (faithful model) *)
Definition zeros (sh : list nat) : nd := mkNd sh (repeat 0%Z (prod sh)).
Definition all_ok (s : state) (h : list op) : bool :=
  forallb (fun x => match o_res x with Ok _ => true | Err _ => false end) (trace s h).
Definition gets_ok (c : coll) : bool :=
  forallb (fun p => match snd p with Ok _ => true | Err _ => false end) (get_all c).

(* regression (repaired check_shape): with the ellipsis not first, the incompatible insertion
   broadcast((3,)); set('c', zeros((3,2)), layout=['n', ...]) now raises ValueError *)
Lemma set_incompatible_nonleading_example :
  step (run (start false) [OMain (OBroadcast [3])])
       (OMain (OSet 2 (zeros [3; 2]) (Some [LName 0; LEll]) false true)) = Err EValue.
Proof. vm_compute. reflexivity. Qed.

(* regression (repaired update): a stored 0-d array is updated in place *)
Lemma update_0d_example :
  let s := run (start false) [OMain (OSet 0 (mkNd [] [7%Z]) None false true);
                              OMain (OUpdate 0 (mkNd [] [8%Z]) false)] in
  get (main s) 0 true = Ok (Some (mkNd [1] [8%Z])).
Proof. vm_compute. reflexivity. Qed.

(* update falls back to set(check=False): ellipsis-first layouts, every call returns normally,
   afterwards a stored array cannot be returned *)
Lemma update_unchecked_refuted :
  exists app h, all_ok (start app) h = true /\
                get (main (run (start app) h)) 1 true = Err EValue.
Proof.
  exists false, [OMain (OSet 0 (zeros [2]) None false true); OMain (OSet 1 (zeros [2]) None false true);
                 OMain (OUpdate 0 (zeros [3]) false)].
  vm_compute. split; reflexivity.
Qed.

(* ... or a named axis has two sizes *)
Lemma update_named_axis_refuted :
  exists app h, all_ok (start app) h = true /\
    let c := main (run (start app) h) in
    option_map (fun e => shp (e_arr e)) (lookup 0 (c_arrays c)) = Some [5] /\
    option_map (fun e => shp (e_arr e)) (lookup 1 (c_arrays c)) = Some [3] /\
    option_map e_lay (lookup 0 (c_arrays c)) = Some [LEll; LName 0] /\
    option_map e_lay (lookup 1 (c_arrays c)) = Some [LEll; LName 0].
Proof.
  exists false, [OMain (OSet 0 (zeros [3]) (Some [LEll; LName 0]) false true);
                 OMain (OSet 1 (zeros [3]) (Some [LEll; LName 0]) false true);
                 OMain (OUpdate 0 (zeros [5]) false)].
  vm_compute. repeat split; reflexivity.
Qed.

(* pop does not refresh the named-axes cache *)
Lemma pop_axes_stale :
  exists app h, all_ok (start app) h = true /\
    let c := main (run (start app) h) in c_axes c = [(0, 3)] /\ gna (c_arrays c) None = [].
Proof.
  exists false, [OMain (OSet 0 (zeros [2; 3]) (Some [LEll; LName 0]) false true); OMain (OPop 0)].
  vm_compute. repeat split; reflexivity.
Qed.

(* a linked collection's default is overwritten by the parent's shape without any check *)
Lemma link_child_refuted :
  exists app h, all_ok (start app) h = true /\
    match child (run (start app) h) with Some ch => get ch 0 true = Err EValue | None => False end.
Proof.
  exists false, [OMain (OSet 0 (zeros [2]) None false true); OLink false;
                 OChild (OSet 0 (zeros [2]) None false true); OMain (OPop 0);
                 OMain (OSet 0 (zeros [3]) None false true)].
  vm_compute. split; reflexivity.
Qed.

(* ================================================================== the full invariant *)
(* ---- views in normal orientation *)
Lemma ori_invol {A} app (l : list A) : ori app (ori app l) = l.
Proof. destruct app; simpl; auto using rev_involutive. Qed.
Lemma length_ori {A} app (l : list A) : length (ori app l) = length l.
Proof. destruct app; simpl; auto using rev_length. Qed.
Lemma in_ori {A} app (l : list A) x : In x (ori app l) -> In x l.
Proof. destruct app; simpl; auto. intros H. now apply in_rev. Qed.

Lemma vw_ori_tab app n f i : vw app (ori app (tab n f)) i = if i <? n then f i else 1.
Proof.
  unfold vw. rewrite ori_invol. destruct (Nat.ltb_spec i n).
  - now apply nth_tab.
  - apply nth_overflow. now rewrite length_tab.
Qed.
Lemma vw_fit app n s i : vw app (fit app n s) i = if i <? n then vw app s i else 1.
Proof. apply vw_ori_tab. Qed.
Lemma length_fit app n s : length (fit app n s) = n.
Proof. unfold fit. rewrite length_ori. apply length_tab. Qed.
Lemma vw_out app s i : length s <= i -> vw app s i = 1.
Proof. intros. unfold vw. apply nth_overflow. now rewrite length_ori. Qed.

Definition pos_shape (s : list nat) : Prop := forall x, In x s -> 1 <= x.
Lemma vw_pos app s i : pos_shape s -> 1 <= vw app s i.
Proof.
  intros H. unfold vw. destruct (Nat.lt_ge_cases i (length (ori app s))).
  - apply H. apply (in_ori app). now apply nth_In.
  - now rewrite nth_overflow.
Qed.

(* ---- maxima *)
Lemma lmax_ge l x : In x l -> x <= list_max l.
Proof. induction l; simpl; [intros []|]. intros [->|H]; [lia|]. specialize (IHl H). lia. Qed.
Lemma lmax_in l : l <> [] -> In (list_max l) l.
Proof.
  induction l as [|a l IH]; [congruence|]. intros _. simpl.
  destruct l as [|b l]; [left; simpl; lia|].
  destruct (Nat.max_spec a (list_max (b :: l))) as [[_ ->]|[_ ->]]; [right; apply IH; discriminate|now left].
Qed.
Lemma lmax_coh l t :
  l <> [] -> (forall x, In x l -> 1 <= x) -> (forall x, In x l -> x = 1 \/ x = t) ->
  forall x, In x l -> x = 1 \/ x = list_max l.
Proof.
  intros Hne Hpos Hc x Hx. pose proof (lmax_in l Hne) as Hm. pose proof (lmax_ge l x Hx).
  destruct (Hc x Hx) as [?|?]; auto. destruct (Hc _ Hm) as [E|E].
  - left. specialize (Hpos x Hx). lia.
  - right. lia.
Qed.

Definition mx app (sl : list (list nat)) i := list_max (map (fun s => vw app s i) sl).
Lemma vw_calc app sl i : sl <> [] -> vw app (calc_shape app sl) i = mx app sl i.
Proof.
  intros Hne. unfold calc_shape. rewrite vw_ori_tab. fold (mx app sl i).
  destruct (Nat.ltb_spec i (list_max (map (@length nat) sl))); [reflexivity|].
  unfold mx. symmetry.
  assert (Hn : map (fun s => vw app s i) sl <> []) by (destruct sl; [congruence|discriminate]).
  pose proof (lmax_in _ Hn) as Hin. apply in_map_iff in Hin. destruct Hin as [s [Hs Hin]].
  rewrite <- Hs. apply vw_out.
  assert (length s <= list_max (map (@length nat) sl)) by (apply lmax_ge; now apply in_map).
  lia.
Qed.

Definition compat app (s S : list nat) : Prop := forall i, vw app s i = 1 \/ vw app s i = vw app S i.
Definition coh app (sl : list (list nat)) : Prop :=
  forall i, exists t, forall s, In s sl -> vw app s i = 1 \/ vw app s i = t.

Lemma compat_calc app sl :
  sl <> [] -> (forall s, In s sl -> pos_shape s) -> coh app sl ->
  forall s, In s sl -> compat app s (calc_shape app sl).
Proof.
  intros Hne Hpos Hc s Hs i. rewrite vw_calc by assumption. unfold mx. destruct (Hc i) as [t Ht].
  apply (lmax_coh _ t).
  - destruct sl; [congruence|discriminate].
  - intros x Hx. apply in_map_iff in Hx. destruct Hx as [s' [<- Hs']]. apply vw_pos; auto.
  - intros x Hx. apply in_map_iff in Hx. destruct Hx as [s' [<- Hs']]. auto.
  - apply (in_map (fun s => vw app s i)). exact Hs.
Qed.

(* every stored broadcast part (and the default) is positive and broadcast-compatible with the
   cached common shape *)
Definition Compat (c : coll) : Prop :=
  forall s, In s (shared_list (c_arrays c) (c_default c)) ->
            pos_shape s /\ compat (c_app c) s (c_shape c).
Definition Inv (c : coll) : Prop := CacheInv c /\ Compat c.

Lemma shared_list_ne arrs dflt : shared_list arrs dflt <> [].
Proof. unfold shared_list. intros H. apply app_eq_nil in H. destruct H. discriminate. Qed.

Lemma compat_with_arrays c arrs dflt axes :
  (forall s, In s (shared_list arrs dflt) -> pos_shape s) -> coh (c_app c) (shared_list arrs dflt) ->
  Compat (with_arrays c arrs dflt axes).
Proof.
  intros Hpos Hc s Hs. unfold with_arrays in *. simpl in *. split; [auto|].
  apply compat_calc; auto using shared_list_ne.
Qed.

Lemma coh_add app sl S snew sl' :
  (forall s, In s sl -> compat app s S) ->
  (forall i, dim_ok (vw app snew i) (vw app S i) = true) ->
  (forall s, In s sl' -> s = snew \/ In s sl) -> coh app sl'.
Proof.
  intros Hc Hd Hsub i. specialize (Hd i). unfold dim_ok in Hd.
  rewrite !orb_true_iff, !Nat.eqb_eq in Hd.
  destruct (Nat.eq_dec (vw app S i) 1) as [E|NE].
  - exists (vw app snew i). intros s Hs. destruct (Hsub s Hs) as [->|Hin]; auto.
    destruct (Hc s Hin i) as [?|?]; auto. left; congruence.
  - exists (vw app S i). intros s Hs. destruct (Hsub s Hs) as [->|Hin]; [|apply Hc; auto].
    destruct Hd as [[?|?]|?]; auto. contradiction.
Qed.

(* ---- forallb2 through indices and orientation *)
Lemma forallb2_app {A B} (f : A -> B -> bool) a1 a2 b1 b2 :
  length a1 = length a2 ->
  forallb2 f (a1 ++ b1) (a2 ++ b2) = forallb2 f a1 a2 && forallb2 f b1 b2.
Proof.
  revert a2. induction a1 as [|x a1 IH]; intros [|y a2] H; simpl in *; try discriminate; auto.
  rewrite IH by lia. now rewrite andb_assoc.
Qed.
Lemma forallb2_length {A B} (f : A -> B -> bool) l1 l2 : forallb2 f l1 l2 = true -> length l1 = length l2.
Proof.
  revert l2. induction l1 as [|x l1 IH]; intros [|y l2] H; simpl in *; try discriminate; auto.
  apply andb_true_iff in H. destruct H. f_equal. auto.
Qed.
Lemma forallb2_rev {A B} (f : A -> B -> bool) l1 l2 :
  forallb2 f l1 l2 = true -> forallb2 f (rev l1) (rev l2) = true.
Proof.
  revert l2. induction l1 as [|x l1 IH]; intros [|y l2] H; simpl in *; try discriminate; auto.
  apply andb_true_iff in H. destruct H as [H1 H2].
  rewrite forallb2_app by (rewrite !rev_length; now apply forallb2_length in H2).
  rewrite IH by assumption. simpl. now rewrite H1.
Qed.
Lemma forallb2_ori {A B} (f : A -> B -> bool) app l1 l2 :
  forallb2 f l1 l2 = true -> forallb2 f (ori app l1) (ori app l2) = true.
Proof. destruct app; simpl; auto using forallb2_rev. Qed.
Lemma forallb2_nth {A B} (f : A -> B -> bool) l1 l2 da db :
  forallb2 f l1 l2 = true -> forall i, i < length l1 -> f (nth i l1 da) (nth i l2 db) = true.
Proof.
  revert l2. induction l1 as [|x l1 IH]; intros [|y l2] H i Hi; simpl in *; try discriminate; try lia.
  apply andb_true_iff in H. destruct H. destruct i; auto. apply IH; auto. lia.
Qed.
Lemma forallb2_of_nth {A B} (f : A -> B -> bool) l1 l2 da db :
  length l1 = length l2 -> (forall i, i < length l1 -> f (nth i l1 da) (nth i l2 db) = true) ->
  forallb2 f l1 l2 = true.
Proof.
  revert l2. induction l1 as [|x l1 IH]; intros [|y l2] Hl H; simpl in *; try discriminate; auto.
  rewrite (H 0) by lia. simpl. apply IH; [lia|]. intros i Hi. apply (H (S i)). lia.
Qed.

(* the shape test of check_shape, read in normal orientation *)
Lemma check_dims app s S :
  forallb2 dim_ok (fit app (length S) s) S = true ->
  forall i, dim_ok (vw app s i) (vw app S i) = true.
Proof.
  intros H i. destruct (Nat.lt_ge_cases i (length S)) as [Hi|Hi].
  - apply (forallb2_ori _ app) in H.
    pose proof (forallb2_nth _ _ _ 1 1 H i) as Hn.
    rewrite length_ori, length_fit in Hn. specialize (Hn Hi).
    change (dim_ok (vw app (fit app (length S) s) i) (vw app S i) = true) in Hn.
    rewrite vw_fit in Hn. destruct (Nat.ltb_spec i (length S)); [exact Hn|lia].
  - rewrite (vw_out app S i Hi). unfold dim_ok. rewrite Nat.eqb_refl. apply orb_true_r.
Qed.

Lemma in_firstn' {A} n (l : list A) x : In x (firstn n l) -> In x l.
Proof.
  revert l. induction n; intros l; simpl; [intros []|]. destruct l; simpl; [intros []|].
  intros [->|H]; auto.
Qed.
Lemma in_skipn' {A} n (l : list A) x : In x (skipn n l) -> In x l.
Proof. revert l. induction n; intros l; simpl; auto. destruct l; simpl; auto. Qed.

Lemma in_shared_list arrs dflt s :
  In s (shared_list arrs dflt) -> s = dflt \/ exists nm e, In (nm, e) arrs /\ s = entry_shared e.
Proof.
  unfold shared_list. intros H. apply in_app_or in H. destruct H as [H|[<-|[]]]; auto.
  apply in_map_iff in H. destruct H as [[nm e] [<- Hin]]. right. exists nm, e. auto.
Qed.
Lemma shared_list_in_arr arrs dflt nm e : In (nm, e) arrs -> In (entry_shared e) (shared_list arrs dflt).
Proof.
  intros H. unfold shared_list. apply in_or_app. left.
  apply (in_map (fun p => entry_shared (snd p))) in H. exact H.
Qed.
Lemma shared_list_in_dflt arrs dflt : In dflt (shared_list arrs dflt).
Proof. unfold shared_list. apply in_or_app. right. now left. Qed.

Lemma compat_of_Compat c : Compat c ->
  forall s, In s (shared_list (c_arrays c) (c_default c)) -> compat (c_app c) s (c_shape c).
Proof. intros H s Hs. apply H. exact Hs. Qed.

(* ---- set with the shape check on *)
Lemma inv_set c name a lay rsz c' :
  pos_shape (shp a) -> Inv c -> set c name a lay rsz true = Ok c' -> Inv c'.
Proof.
  intros Hpos [HC HK] Hs. split; [eapply cache_set; eauto|].
  unfold set in Hs.
  set (l := match lay with Some l => l | None =>
             match lookup name (c_arrays c) with Some e => e_lay e | None => [LEll] end end) in *.
  destruct (Nat.eqb_spec (count_ell l) 1) as [Hone|]; [|discriminate]. cbn [negb] in Hs.
  destruct (count_one_split l Hone) as [pre [rest [Hl [Hc Hc']]]].
  destruct (Nat.ltb_spec (length (shp a) + 1) (length l)) as [|Hrank]; [discriminate|].
  rewrite Hl, app_length in Hrank. simpl in Hrank.
  set (a1 := if rsz then resize_named (gna (c_arrays c) (Some name)) a l else a) in *.
  assert (Ha1 : shared_axes (shp a1) l = shared_axes (shp a) l).
  { unfold a1. destruct rsz; [|auto]. rewrite Hl. apply resize_named_rank; auto; lia. }
  cbn [andb] in Hs. destruct (check_shape c (shp a1) l (Some name)) eqn:Hchk; [|discriminate].
  cbn [negb] in Hs. inversion Hs; subst c'; clear Hs.
  unfold check_shape in Hchk. apply andb_true_iff in Hchk. destruct Hchk as [_ Hcc].
  unfold check_common in Hcc. rewrite Ha1 in Hcc.
  set (snew := shared_axes (shp a) l) in *.
  assert (Hnew : entry_shared (mkE l a1) = snew) by exact Ha1.
  assert (Hsub : forall s, In s (shared_list (set_assoc name (mkE l a1) (c_arrays c)) (c_default c)) ->
                 s = snew \/ In s (shared_list (c_arrays c) (c_default c))).
  { intros s Hin. apply in_shared_list in Hin. destruct Hin as [->|[nm [e [Hin ->]]]].
    - right. apply shared_list_in_dflt.
    - apply in_set_assoc in Hin. destruct Hin as [[_ ->]|Hin]; [left; exact Hnew|].
      right. eapply shared_list_in_arr; eauto. }
  apply compat_with_arrays.
  - intros s Hin. destruct (Hsub s Hin) as [->|Hold]; [|apply HK; exact Hold].
    intros x Hx. apply Hpos. unfold snew, shared_axes, slice in Hx.
    apply in_firstn' in Hx. now apply in_skipn' in Hx.
  - eapply (coh_add _ _ (c_shape c) snew); [apply (compat_of_Compat c HK)| |exact Hsub].
    apply check_dims. exact Hcc.
Qed.

Lemma shared_axes_ell sh : shared_axes sh [LEll] = sh.
Proof. unfold shared_axes, slice. simpl. rewrite !Nat.sub_0_r. apply firstn_all. Qed.

Lemma inv_broadcast c sh c' : pos_shape sh -> Inv c -> broadcast c sh = Ok c' -> Inv c'.
Proof.
  intros Hpos [HC HK] Hb. unfold broadcast in Hb.
  destruct (check_shape c sh [LEll] None) eqn:Hchk; inversion Hb; subst c'; clear Hb.
  split; [now apply cache_same_arrays|].
  unfold check_shape in Hchk. apply andb_true_iff in Hchk. destruct Hchk as [_ Hcc].
  unfold check_common in Hcc. rewrite shared_axes_ell in Hcc.
  assert (Hsub : forall s, In s (shared_list (c_arrays c) sh) ->
                 s = sh \/ In s (shared_list (c_arrays c) (c_default c))).
  { intros s Hin. apply in_shared_list in Hin. destruct Hin as [->|[nm [e [Hin ->]]]]; [now left|].
    right. eapply shared_list_in_arr; eauto. }
  apply compat_with_arrays.
  - intros s Hin. destruct (Hsub s Hin) as [->|Hold]; [exact Hpos|apply HK; exact Hold].
  - eapply (coh_add _ _ (c_shape c) sh); [apply (compat_of_Compat c HK)| |exact Hsub].
    apply check_dims. exact Hcc.
Qed.

(* ---- operations that replace the default by a part of the common shape *)
Lemma coh_sub app sl S d sl' :
  (forall s, In s sl -> compat app s S) -> compat app d S ->
  (forall s, In s sl' -> s = d \/ In s sl) -> coh app sl'.
Proof.
  intros Hc Hd Hsub i. exists (vw app S i). intros s Hs.
  destruct (Hsub s Hs) as [->|Hin]; [apply Hd|apply Hc; exact Hin].
Qed.

Lemma pos_calc app sl : sl <> [] -> (forall s, In s sl -> pos_shape s) -> pos_shape (calc_shape app sl).
Proof.
  intros Hne Hpos x Hx. unfold calc_shape in Hx. apply in_ori in Hx.
  unfold tab in Hx. apply in_map_iff in Hx. destruct Hx as [i [<- _]].
  assert (Hn : map (fun s => vw app s i) sl <> []) by (destruct sl; [congruence|discriminate]).
  pose proof (lmax_in _ Hn) as Hin. apply in_map_iff in Hin. destruct Hin as [s [Hs Hin]].
  rewrite <- Hs. apply vw_pos. auto.
Qed.

Lemma inv_new_default c d axes :
  Inv c -> pos_shape d -> compat (c_app c) d (c_shape c) ->
  Inv (with_arrays c (c_arrays c) d axes).
Proof.
  intros [HC HK] Hpos Hd. split; [now apply cache_same_arrays|].
  assert (Hsub : forall s, In s (shared_list (c_arrays c) d) ->
                 s = d \/ In s (shared_list (c_arrays c) (c_default c))).
  { intros s Hin. apply in_shared_list in Hin. destruct Hin as [->|[nm [e [Hin ->]]]]; [now left|].
    right. eapply shared_list_in_arr; eauto. }
  apply compat_with_arrays.
  - intros s Hin. destruct (Hsub s Hin) as [->|Hold]; [exact Hpos|apply HK; exact Hold].
  - eapply (coh_sub _ _ (c_shape c) d); [apply (compat_of_Compat c HK)|exact Hd|exact Hsub].
Qed.

Lemma pos_shape_cached c : Inv c -> pos_shape (c_shape c).
Proof.
  intros [[H1 _] HK]. rewrite H1. apply pos_calc; [apply shared_list_ne|]. intros s Hs. apply HK. exact Hs.
Qed.

Lemma rev_repeat' {A} (x : A) n : rev (repeat x n) = repeat x n.
Proof.
  induction n; simpl; auto. rewrite IHn. clear. induction n; simpl; auto. now rewrite <- IHn.
Qed.

Lemma nth_app_ones l k i : nth i (l ++ repeat 1 k) 1 = nth i l 1.
Proof.
  destruct (Nat.lt_ge_cases i (length l)).
  - now apply app_nth1.
  - rewrite app_nth2 by assumption. rewrite (nth_overflow l) by assumption.
    destruct (Nat.lt_ge_cases (i - length l) k); [now apply nth_repeat'|].
    apply nth_overflow. now rewrite repeat_length.
Qed.

Lemma inv_expand c k : Inv c -> Inv (expand c k).
Proof.
  intros HI. unfold expand. pose proof (pos_shape_cached c HI) as HS. apply inv_new_default; auto.
  - intros x Hx. destruct (c_app c); apply in_app_or in Hx; destruct Hx as [Hx|Hx]; auto;
      apply repeat_spec in Hx; lia.
  - intros i. right. unfold vw. destruct (c_app c); simpl.
    + apply nth_app_ones.
    + rewrite rev_app_distr, rev_repeat'. apply nth_app_ones.
Qed.

Lemma nth_firstn_one l m i : nth i (firstn m l) 1 = 1 \/ nth i (firstn m l) 1 = nth i l 1.
Proof.
  destruct (Nat.lt_ge_cases i m); [right; now apply nth_firstn'|].
  left. apply nth_overflow. pose proof (firstn_le_length m l). lia.
Qed.

Lemma inv_reduce c k : Inv c -> Inv (reduce c k).
Proof.
  intros HI. unfold reduce. pose proof (pos_shape_cached c HI) as HS. apply inv_new_default; auto.
  - intros x Hx. destruct (c_app c); [apply in_firstn' in Hx|apply in_skipn' in Hx]; auto.
  - intros i. unfold vw. destruct (c_app c); simpl.
    + apply nth_firstn_one.
    + assert (E : rev (skipn k (c_shape c)) = firstn (length (c_shape c) - k) (rev (c_shape c))).
      { rewrite firstn_rev. f_equal.
        destruct (Nat.le_gt_cases k (length (c_shape c))); [f_equal; lia|].
        rewrite (skipn_all2 (n := k)) by lia.
        replace (length (c_shape c) - (length (c_shape c) - k)) with (length (c_shape c)) by lia.
        now rewrite skipn_all. }
      rewrite E. apply nth_firstn_one.
Qed.

Lemma inv_pop c name : Inv c -> Inv (fst (pop c name)).
Proof.
  intros [HC HK]. split; [now apply cache_pop|].
  unfold pop. destruct (lookup name (c_arrays c)); [|exact HK]. simpl.
  assert (Hsub : forall s, In s (shared_list (del_assoc name (c_arrays c)) (c_default c)) ->
                 In s (shared_list (c_arrays c) (c_default c))).
  { intros s Hin. apply in_shared_list in Hin. destruct Hin as [->|[nm [e1 [Hin ->]]]].
    - apply shared_list_in_dflt.
    - apply in_del_assoc in Hin. eapply shared_list_in_arr; eauto. }
  apply compat_with_arrays.
  - intros s Hin. apply HK. auto.
  - intros i. exists (vw (c_app c) (c_shape c) i). intros s Hs. apply HK. auto.
Qed.

Lemma inv_resize c ax size cst c' : Inv c -> resize c ax size cst = Ok c' -> Inv c'.
Proof.
  intros [HC HK] Hr. split; [eapply cache_resize; eauto|].
  unfold resize in Hr. destruct (lookup ax (c_axes c)); [|discriminate].
  destruct (_ =? 0)%Z; [inversion Hr; subst; exact HK|].
  inversion Hr; subst c'; clear Hr. unfold Compat. simpl.
  replace (shared_list _ (c_default c)) with (shared_list (c_arrays c) (c_default c)); [exact HK|].
  unfold shared_list. f_equal. rewrite map_map. simpl.
  apply map_ext_in. intros [k e] Hin. simpl. symmetry. apply resize_entry_shared.
  destruct HC as [_ [_ Hwf]]. eauto.
Qed.

Lemma inv_update_inplace c name v rsz c' :
  Inv c -> update c name v rsz = Ok (c', false) -> Inv c'.
Proof.
  intros [HC HK] Hu. split; [eapply cache_update; eauto|].
  unfold update in Hu.
  destruct (lookup name (c_arrays c)) as [e|]; [|discriminate].
  destruct (assign_to v _) as [d|].
  - inversion Hu; subst. unfold Compat. simpl. rewrite set_data_shared. exact HK.
  - destruct (set c name v None rsz false); inversion Hu.
Qed.

Lemma inv_init app : Inv (init app).
Proof.
  split; [apply cache_init|]. apply compat_with_arrays.
  - intros s [<-|[]] x [<-|[]]. lia.
  - intros i. exists 1. intros s [<-|[]]. destruct i as [|[|i]]; destruct app; simpl; auto.
Qed.

(* ---- calls inside the property's precondition: explicit layouts ellipsis-first, no empty axes,
   the shape check not disabled by the caller, and an update whose fallback insertion (which the
   code performs with check=False) would have passed the check *)
Definition bop_ok (c : coll) (o : bop) : Prop :=
  match o with
  | OSet _ a lay _ chk => pos_shape (shp a) /\ chk = true
  | OUpdate name v rsz =>
      pos_shape (shp v) /\
      forall c1, update c name v rsz = Ok (c1, true) -> set c name v None rsz true = Ok c1
  | OBroadcast sh => pos_shape sh
  | _ => True
  end.

Lemma update_fallback c name v rsz c1 :
  update c name v rsz = Ok (c1, true) -> set c name v None rsz false = Ok c1.
Proof.
  unfold update. destruct (lookup name (c_arrays c)); [|discriminate].
  destruct (assign_to v _); [intros H; inversion H|].
  destruct (set c name v None rsz false); intros H; inversion H; reflexivity.
Qed.

Lemma inv_bstep c o c' p r : bop_ok c o -> Inv c -> bstep c o = Ok (c', p, r) -> Inv c'.
Proof.
  intros Hok HI Hs. destruct o; simpl in Hs, Hok.
  - destruct Hok as [Hp ->].
    destruct (set c name a lay rsz true) eqn:E; inversion Hs; subst. eapply inv_set; eauto.
  - destruct Hok as [Hp Hf].
    destruct (update c name a rsz) as [[c1 p1]|] eqn:E; inversion Hs; subst.
    destruct p; [|eapply inv_update_inplace; eauto].
    eapply (inv_set c name a None rsz); [exact Hp|exact HI|apply Hf; reflexivity].
  - destruct (get c name bcast); inversion Hs; subst. exact HI.
  - pose proof (inv_pop c name HI) as H. destruct (pop c name). inversion Hs; subst. exact H.
  - destruct (resize c ax size cst) eqn:E; inversion Hs; subst. eapply inv_resize; eauto.
  - inversion Hs; subst. now apply inv_expand.
  - inversion Hs; subst. now apply inv_reduce.
  - destruct (broadcast c sh) eqn:E; inversion Hs; subst. eapply inv_broadcast; eauto.
Qed.

(* ---- all call histories *)
Definition op_ok (s : state) (o : op) : Prop :=
  match o with
  | OMain b => bop_ok (main s) b
  | _ => True
  end.
Fixpoint ok_run (s : state) (h : list op) : Prop :=
  match h with [] => True | o :: h' => op_ok s o /\ ok_run (step_state s o) h' end.

(* the collection satisfies the full invariant; its linked child the cache invariant only
   (link_child_refuted: the child's default is overwritten without a check) *)
Definition InvS (s : state) : Prop := Inv (main s) /\ forall ch, child s = Some ch -> CacheInv ch.

Lemma inv_step s o : op_ok s o -> InvS s -> InvS (step_state s o).
Proof.
  intros Hok [Hm Hc]. unfold step_state.
  destruct (step s o) as [[s' r]|] eqn:E; [|split; assumption].
  destruct o; simpl in E, Hok.
  - destruct (bstep (main s) o) as [[[c' p] r']|] eqn:Eb; inversion E; subst; clear E.
    split; simpl.
    + exact (inv_bstep _ _ _ _ _ Hok Hm Eb).
    + intros ch Hch. destruct p; [|auto].
      destruct (child s) as [ch0|]; simpl in Hch; inversion Hch; subst.
      apply cache_follow. auto.
  - destruct (child s) as [ch|] eqn:Ech; [|discriminate].
    destruct (bstep ch o) as [[[c' p] r']|] eqn:Eb; inversion E; subst; clear E.
    split; simpl; [assumption|]. intros ch' Hch'. inversion Hch'; subst.
    exact (cache_bstep _ _ _ _ _ (Hc _ eq_refl) Eb).
  - inversion E; subst. split; simpl; [now rewrite copy_id|assumption].
  - destruct (child s) eqn:Ech; inversion E; subst. split; simpl; [assumption|].
    intros ch Hch. inversion Hch; subst. apply cache_follow, cache_init.
Qed.

Lemma inv_run s h : ok_run s h -> InvS s -> InvS (run s h).
Proof.
  unfold run. revert s. induction h as [|o h IH]; intros s Hok HI; simpl; [assumption|].
  destruct Hok as [H1 H2]. apply IH; [assumption|]. now apply inv_step.
Qed.

Theorem inv_reachable app h : ok_run (start app) h -> InvS (run (start app) h).
Proof.
  intros H. apply inv_run; [assumption|]. split; [apply inv_init|]. simpl. discriminate.
Qed.

(* ---- what the invariant says about get *)
Lemma list_eqb_eq l1 l2 : shape_eqb l1 l2 = true -> l1 = l2.
Proof.
  unfold shape_eqb. revert l2. induction l1 as [|x l1 IH]; intros [|y l2] H; simpl in *; try discriminate; auto.
  apply andb_true_iff in H. destruct H as [H1 H2]. apply Nat.eqb_eq in H1. f_equal; auto.
Qed.

Lemma forallb2_refl {A} (f : A -> A -> bool) l : (forall x, f x x = true) -> forallb2 f l l = true.
Proof. intros H. induction l; simpl; auto. now rewrite H. Qed.

Lemma compat_bc app s S :
  compat app s S -> bc_okb (fit app (length S) s) S = true.
Proof.
  intros Hc. unfold bc_okb.
  assert (H : forallb2 bc_dim (ori app (ori app (fit app (length S) s))) (ori app (ori app S)) = true).
  { apply forallb2_ori.
    apply (forallb2_of_nth _ _ _ 1 1).
    - now rewrite !length_ori, length_fit.
    - intros i Hi. rewrite length_ori, length_fit in Hi.
      change (bc_dim (vw app (fit app (length S) s) i) (vw app S i) = true).
      rewrite vw_fit. destruct (Nat.ltb_spec i (length S)); [|lia].
      unfold bc_dim. destruct (Hc i) as [-> | ->]; [apply orb_true_r|now rewrite Nat.eqb_refl]. }
  now rewrite !ori_invol in H.
Qed.

Lemma firstn_app_exact {A} (a b : list A) : firstn (length a) (a ++ b) = a.
Proof. rewrite firstn_app, Nat.sub_diag, firstn_O, app_nil_r. apply firstn_all. Qed.
Lemma skipn_app_exact {A} (a b : list A) : skipn (length a) (a ++ b) = b.
Proof. rewrite skipn_app, Nat.sub_diag, skipn_all. reflexivity. Qed.

(* every stored array is returned; its shape is: own sizes of the items before the ellipsis, the
   common shape in the broadcast axes, own sizes of the items after the ellipsis *)
Theorem inv_get c nm e :
  Inv c -> lookup nm (c_arrays c) = Some e ->
  exists r pre rest,
    get c nm true = Ok (Some r) /\ e_lay e = pre ++ LEll :: rest /\
    shp r = firstn (length pre) (shp (e_arr e)) ++ c_shape c ++
            skipn (length (shp (e_arr e)) - length rest) (shp (e_arr e)).
Proof.
  intros [[H1 [H2 H3]] HK] Hl.
  destruct (H3 _ _ (lookup_in _ _ _ Hl)) as [pre [rest [Hlay [Hc [Hc' Hr]]]]].
  specialize (H2 _ _ Hl). rewrite Hlay, bshape_split in H2 by assumption.
  set (sh := shp (e_arr e)) in *. set (S := c_shape c) in *.
  set (A := firstn (length pre) sh) in *. set (P := skipn (length sh - length rest) sh) in *.
  unfold get. rewrite Hl, H2. fold sh.
  destruct (shape_eqb sh (A ++ S ++ P)) eqn:Eq.
  - exists (e_arr e), pre, rest. apply list_eqb_eq in Eq. auto.
  - unfold expand_and_broadcast. rewrite Hlay. rewrite ell_index_split by assumption. fold sh. fold S.
    assert (Hn : length sh + 1 - length (pre ++ LEll :: rest) = length sh - length pre - length rest)
      by (rewrite app_length; simpl; lia).
    rewrite Hn.
    replace (length pre + (length sh - length pre - length rest)) with (length sh - length rest) by lia.
    fold A. fold P.
    set (mid := slice (length pre) (length sh - length rest) sh).
    assert (Hmid : In mid (shared_list (c_arrays c) (c_default c))).
    { replace mid with (entry_shared e).
      - eapply shared_list_in_arr. eapply lookup_in; eauto.
      - unfold entry_shared. rewrite Hlay, shared_axes_split by assumption. reflexivity. }
    destruct (HK _ Hmid) as [_ Hcm]. fold S in Hcm.
    set (F := fit (c_app c) (length S) mid).
    assert (HA : length A = length pre) by (unfold A; rewrite firstn_length; lia).
    assert (HF : length F = length S) by apply length_fit.
    assert (HT : firstn (length pre) (A ++ F ++ P) ++ S ++ skipn (length pre + length S) (A ++ F ++ P)
                 = A ++ S ++ P).
    { rewrite <- HA, <- HF. rewrite firstn_app_exact. do 2 f_equal.
      rewrite skipn_app. rewrite skipn_all2 by lia. cbn [app].
      replace (length A + length F - length A) with (length F) by lia. apply skipn_app_exact. }
    rewrite HT. cbn [andb].
    destruct (shape_eqb (A ++ S ++ P) (A ++ F ++ P)) eqn:ET.
    + cbn [negb]. exists (mkNd (A ++ F ++ P) (dat (e_arr e))), pre, rest.
      apply list_eqb_eq in ET. simpl. auto.
    + cbn [negb]. unfold broadcast_to. cbn [shp dat].
      assert (HL : length (A ++ F ++ P) = length (A ++ S ++ P)) by (rewrite !app_length, HF; reflexivity).
      rewrite HL, Nat.sub_diag. cbn [repeat app].
      rewrite Nat.leb_refl. cbn [andb].
      assert (Hrefl : forall x, bc_dim x x = true) by (intros x; unfold bc_dim; now rewrite Nat.eqb_refl).
      assert (Hbc : bc_okb (A ++ F ++ P) (A ++ S ++ P) = true).
      { unfold bc_okb. rewrite forallb2_app by reflexivity. rewrite (forallb2_refl bc_dim A Hrefl).
        cbn [andb]. rewrite forallb2_app by exact HF.
        fold (bc_okb F S). unfold F. rewrite compat_bc by exact Hcm.
        apply forallb2_refl. exact Hrefl. }
      rewrite Hbc. exists (mkNd (A ++ S ++ P) (bc (A ++ F ++ P) (A ++ S ++ P) (dat (e_arr e)))), pre, rest. auto.
Qed.

(* shape-incompatible insertions raise, for every layout with one ellipsis (anywhere), check not
   disabled: if some aligned axis of the broadcast part clashes with the common shape, set
   returns ValueError *)
Theorem set_incompatible_raises c name a l :
  count_ell l = 1 -> length l <= length (shp a) + 1 ->
  (exists i, dim_ok (vw (c_app c) (shared_axes (shp a) l) i) (vw (c_app c) (c_shape c) i) = false) ->
  set c name a (Some l) false true = Err EValue.
Proof.
  intros Hc Hr [i Hi]. unfold set. rewrite Hc. cbn [Nat.eqb negb].
  destruct (Nat.ltb_spec (length (shp a) + 1) (length l)) as [H|_]; [lia|].
  cbn [andb]. unfold check_shape.
  destruct (check_common c (shp a) l) eqn:Hcc.
  - exfalso. unfold check_common in Hcc. pose proof (check_dims _ _ _ Hcc i) as Hd. congruence.
  - rewrite andb_false_r. reflexivity.
Qed.

(* non-vacuity: a history inside the precondition, executed *)
Definition demo_history : list op :=
  [OMain (OSet 0 (mkNd [2; 1; 3] [1; 2; 3; 4; 5; 6]%Z) (Some [LEll; LName 0; LFix 3]) false true);
   OMain (OSet 1 (mkNd [3; 3] [0; 0; 1; 0; 0; 1; 0; 0; 1]%Z) (Some [LEll; LName 0; LFix 3]) true true);
   OLink true;
   OMain (OResize 0 3 0%Z);
   OMain (OSet 2 (mkNd [3; 2] [1; 2; 3; 4; 5; 6]%Z) (Some [LName 0; LEll]) false true);
   OMain (OUpdate 0 (mkNd [3; 3] [1; 1; 1; 2; 2; 2; 3; 3; 3]%Z) false);
   OMain (OBroadcast [2; 4]); OMain (OExpand 1); OCopy; OMain (OReduce 1); OMain (OPop 1)].

Ltac solve_pos := let x := fresh in let H := fresh in
  intros x H; simpl in H; repeat (destruct H as [<-|H]; [lia|]); destruct H.

Lemma demo_ok : ok_run (start true) demo_history /\ all_ok (start true) demo_history = true /\
                gets_ok (main (run (start true) demo_history)) = true.
Proof.
  split; [|split; vm_compute; reflexivity].
  unfold demo_history. cbn [ok_run op_ok bop_ok].
  repeat match goal with
  | |- _ /\ _ => split
  | |- True => exact I
  | |- true = true => reflexivity
  | |- pos_shape _ => solve_pos
  | |- forall c1, update _ _ _ _ = Ok (c1, true) -> _ =>
      let c1 := fresh in let E := fresh in intros c1 E; vm_compute in E; discriminate
  end.
Qed.

(* ================================================================== named axes *)
Definition names (l : layout) : list nat :=
  flat_map (fun x => match x with LName k => [k] | _ => [] end) l.

(* every named axis of every stored array has the size recorded in the axes cache: in particular
   one size across all arrays (and inside one array) *)
Definition AxesOk (c : coll) : Prop :=
  NoDup (map fst (c_arrays c)) /\
  (forall nm e, In (nm, e) (c_arrays c) -> NoDup (names (e_lay e))) /\
  (forall nm e ax z, In (nm, e) (c_arrays c) -> In (ax, z) (entry_axes e) -> lookup ax (c_axes c) = Some z).

Lemma in_entry_axes e ax z :
  In (ax, z) (entry_axes e) <->
  exists i, i < length (e_lay e) /\ nth i (e_lay e) LFree = LName ax /\
            z = nth (pos_of (length (shp (e_arr e))) (e_lay e) i) (shp (e_arr e)) 0.
Proof.
  unfold entry_axes, named_axes. split.
  - intros H. apply in_map_iff in H. destruct H as [p [Hp Hin]].
    apply in_flat_map in Hin. destruct Hin as [i [Hi Hm]]. apply in_seq in Hi.
    destruct (nth i (e_lay e) LFree) eqn:E; try contradiction.
    destruct Hm as [<-|[]]. simpl in Hp. inversion Hp; subst. exists i. repeat split; auto. lia.
  - intros [i [Hi [Hn ->]]]. apply in_map_iff.
    exists (pos_of (length (shp (e_arr e))) (e_lay e) i, ax). split; [reflexivity|].
    apply in_flat_map. exists i. split; [apply in_seq; lia|]. rewrite Hn. now left.
Qed.

Lemma entry_axes_ext e e' :
  e_lay e' = e_lay e -> shp (e_arr e') = shp (e_arr e) -> entry_axes e' = entry_axes e.
Proof. intros H1 H2. unfold entry_axes. now rewrite H1, H2. Qed.

Lemma in_gna arrs ign ax z :
  In (ax, z) (gna arrs ign) <->
  exists nm e, In (nm, e) arrs /\ (forall k, ign = Some k -> k <> nm) /\ In (ax, z) (entry_axes e).
Proof.
  unfold gna. rewrite <- in_rev, in_flat_map. split.
  - intros [[nm e] [Hin H]]. simpl in H. exists nm, e. destruct ign as [k|].
    + destruct (Nat.eqb_spec k nm); [contradiction|]. repeat split; auto. intros k' E. inversion E. now subst.
    + repeat split; auto. discriminate.
  - intros [nm [e [Hin [Hk H]]]]. exists (nm, e). split; [assumption|]. simpl. destruct ign as [k|]; [|assumption].
    destruct (Nat.eqb_spec k nm) as [->|]; [|assumption]. exfalso. now apply (Hk nm).
Qed.

Lemma lookup_consistent {A} (M : list (nat * A)) k v :
  In (k, v) M -> (forall v', In (k, v') M -> v' = v) -> lookup k M = Some v.
Proof.
  intros H Hc. destruct (in_lookup _ _ _ H) as [v' Hv]. rewrite Hv. f_equal. apply Hc. now apply lookup_in.
Qed.

(* ---- keys *)
Lemma in_set_assoc_strong {A} k (v : A) m k' v' :
  NoDup (map fst m) -> In (k', v') (set_assoc k v m) -> (k' = k /\ v' = v) \/ (k' <> k /\ In (k', v') m).
Proof.
  induction m as [|[k0 v0] m IH]; simpl; intros Hnd.
  - intros [E|[]]. inversion E. auto.
  - inversion Hnd as [|? ? Hnotin Hnd']; subst.
    destruct (Nat.eqb_spec k k0) as [->|NE]; simpl.
    + intros [E|H]; [inversion E; auto|]. right. split; [|auto].
      intros ->. apply Hnotin. apply (in_map fst) in H. exact H.
    + intros [E|H]; [inversion E; subst; right; split; auto|].
      destruct (IH Hnd' H) as [?|[? ?]]; auto.
Qed.

Lemma set_assoc_keys {A} k (v : A) m : NoDup (map fst m) -> NoDup (map fst (set_assoc k v m)).
Proof.
  induction m as [|[k0 v0] m IH]; simpl; intros Hnd.
  - constructor; [intros []|constructor].
  - inversion Hnd as [|? ? Hnotin Hnd']; subst.
    destruct (Nat.eqb_spec k k0) as [->|NE]; simpl; [constructor; auto|].
    constructor; [|auto]. intros Hin. apply in_map_iff in Hin. destruct Hin as [[k1 v1] [E Hin]].
    simpl in E. subst k1. apply in_set_assoc in Hin. destruct Hin as [[? _]|Hin]; [congruence|].
    apply Hnotin. apply (in_map fst) in Hin. exact Hin.
Qed.

Lemma filter_keys {A} (f : nat * A -> bool) m : NoDup (map fst m) -> NoDup (map fst (filter f m)).
Proof.
  induction m as [|p m IH]; simpl; intros Hnd; [constructor|].
  inversion Hnd as [|? ? Hnotin Hnd']; subst.
  destruct (f p); simpl; [|auto]. constructor; [|auto].
  intros Hin. apply Hnotin. apply in_map_iff in Hin. destruct Hin as [q [E Hq]].
  apply filter_In in Hq. destruct Hq as [Hq _]. rewrite <- E. now apply in_map.
Qed.

(* ---- distinct names inside a layout *)
Lemma names_index l ax i j :
  NoDup (names l) -> nth i l LFree = LName ax -> nth j l LFree = LName ax -> i = j.
Proof.
  revert i j. induction l as [|x l IH]; intros i j Hnd Hi Hj.
  - destruct i; discriminate.
  - assert (Hin : forall k, nth k l LFree = LName ax -> In ax (names l)).
    { intros k Hk. unfold names. apply in_flat_map. exists (LName ax). split; [|now left].
      rewrite <- Hk. apply nth_In. destruct (Nat.lt_ge_cases k (length l)); [assumption|].
      rewrite nth_overflow in Hk by assumption. discriminate. }
    destruct i, j; simpl in Hi, Hj; auto.
    + subst x. simpl in Hnd. inversion Hnd; subst. exfalso. eauto.
    + subst x. simpl in Hnd. inversion Hnd; subst. exfalso. eauto.
    + f_equal. apply IH; auto. unfold names in *. simpl in Hnd.
      destruct x; simpl in Hnd; auto. now inversion Hnd.
Qed.

Lemma pos_of_inj pre rest ndim i j :
  count_ell pre = 0 -> length pre + length rest <= ndim ->
  i < length (pre ++ LEll :: rest) -> j < length (pre ++ LEll :: rest) ->
  i <> length pre -> j <> length pre -> i <> j ->
  pos_of ndim (pre ++ LEll :: rest) i <> pos_of ndim (pre ++ LEll :: rest) j.
Proof.
  intros Hc Hr Hi Hj Hi' Hj' Hne. unfold pos_of. rewrite ell_index_split by assumption.
  rewrite app_length in *. simpl in *.
  destruct (Nat.ltb_spec i (length pre)); destruct (Nat.ltb_spec j (length pre)); lia.
Qed.

(* ---- set *)
Lemma check_named_spec axes sh l i ax :
  check_named axes sh l = true -> i < length l -> nth i l LFree = LName ax ->
  forall k, lookup ax axes = Some k -> nth (pos_of (length sh) l i) sh 0 = k.
Proof.
  unfold check_named. intros H Hi Hn k Hk. rewrite forallb_forall in H.
  specialize (H i). rewrite Hn, Hk in H. apply Nat.eqb_eq. apply H. apply in_seq. lia.
Qed.

Lemma axes_set c name a lay rsz c' :
  (forall l, lay = Some l -> NoDup (names l)) ->
  AxesOk c -> set c name a lay rsz true = Ok c' -> AxesOk c'.
Proof.
  intros Hlay [Hk [Hn Hax]] Hs. unfold set in Hs.
  set (l := match lay with Some l => l | None =>
             match lookup name (c_arrays c) with Some e => e_lay e | None => [LEll] end end) in *.
  assert (Hl : NoDup (names l)).
  { unfold l. destruct lay; [now apply Hlay|]. destruct (lookup name (c_arrays c)) eqn:E.
    - apply lookup_in in E. eauto.
    - constructor. }
  destruct (negb (count_ell l =? 1)); [discriminate|].
  destruct (length (shp a) + 1 <? length l); [discriminate|].
  set (a1 := if rsz then resize_named (gna (c_arrays c) (Some name)) a l else a) in *.
  cbn [andb] in Hs. destruct (check_shape c (shp a1) l (Some name)) eqn:Hchk; [|discriminate].
  cbn [negb] in Hs. inversion Hs; subst c'; clear Hs.
  unfold check_shape in Hchk. apply andb_true_iff in Hchk. destruct Hchk as [Hcn _].
  set (arrs := set_assoc name (mkE l a1) (c_arrays c)).
  unfold AxesOk, with_arrays. simpl. fold arrs.
  split; [now apply set_assoc_keys|]. split.
  - intros nm e Hin. apply in_set_assoc in Hin. destruct Hin as [[_ ->]|Hin]; [exact Hl|eauto].
  - (* pairwise consistency of the named sizes in the new dictionary *)
    assert (Hold : forall nm e ax z, In (nm, e) arrs -> nm <> name -> In (ax, z) (entry_axes e) ->
                   lookup ax (c_axes c) = Some z).
    { intros nm e ax z Hin Hne Hz. apply (in_set_assoc_strong _ _ _ _ _ Hk) in Hin.
      destruct Hin as [[? _]|[_ Hin]]; [contradiction|eauto]. }
    assert (Hnewold : forall ax z nm e z', In (ax, z) (entry_axes (mkE l a1)) ->
                      In (nm, e) (c_arrays c) -> nm <> name -> In (ax, z') (entry_axes e) -> z = z').
    { intros ax z nm e z' Hz Hin Hne Hz'.
      apply in_entry_axes in Hz. simpl in Hz. destruct Hz as [i [Hi [Hni ->]]].
      assert (Hg : In (ax, z') (gna (c_arrays c) (Some name))).
      { apply in_gna. exists nm, e. repeat split; auto. intros k E. inversion E. congruence. }
      destruct (in_lookup _ _ _ Hg) as [v Hv].
      assert (v = z').
      { apply lookup_in, in_gna in Hv. destruct Hv as [nm3 [e3 [Hin3 [_ Hz3]]]].
        pose proof (Hax _ _ _ _ Hin3 Hz3). pose proof (Hax _ _ _ _ Hin Hz'). congruence. }
      subst v. exact (check_named_spec _ _ _ _ _ Hcn Hi Hni _ Hv). }
    intros nm e ax z Hin Hz. apply lookup_consistent.
    + apply in_gna. exists nm, e. repeat split; auto. discriminate.
    + intros z' Hz'. apply in_gna in Hz'. destruct Hz' as [nm2 [e2 [Hin2 [_ Hz2]]]].
      apply (in_set_assoc_strong _ _ _ _ _ Hk) in Hin. apply (in_set_assoc_strong _ _ _ _ _ Hk) in Hin2.
      destruct Hin as [[-> ->]|[Hne Hin]]; destruct Hin2 as [[-> ->]|[Hne2 Hin2]].
      * apply in_entry_axes in Hz, Hz2. simpl in Hz, Hz2.
        destruct Hz as [i [_ [Hi ->]]]. destruct Hz2 as [j [_ [Hj ->]]].
        now rewrite (names_index l ax i j Hl Hi Hj).
      * symmetry. eapply Hnewold; eauto.
      * eapply Hnewold; eauto.
      * pose proof (Hax _ _ _ _ Hin Hz). pose proof (Hax _ _ _ _ Hin2 Hz2). congruence.
Qed.

(* ---- resize of a named axis *)
Lemma resize_array_nth_axis a diff axis c :
  axis < length (shp a) -> (diff =? 0)%Z = false ->
  nth axis (shp (resize_array a diff axis c)) 0 = Z.to_nat (Z.of_nat (nth axis (shp a) 0) + diff).
Proof.
  intros H Hd. unfold resize_array. rewrite Hd. rewrite nth_resize_axis_shape by assumption.
  now rewrite Nat.eqb_refl.
Qed.

Lemma is_name_eq ax x : is_name ax x = true -> x = LName ax.
Proof. destruct x; simpl; try discriminate. intros H. apply Nat.eqb_eq in H. now subst. Qed.

Lemma resize_entry_axes ax diff cst e cur ax' z' :
  wf_entry e -> NoDup (names (e_lay e)) -> (diff =? 0)%Z = false ->
  (forall z0, In (ax, z0) (entry_axes e) -> z0 = cur) ->
  In (ax', z') (entry_axes (resize_entry ax diff cst e)) ->
  (ax' = ax /\ z' = Z.to_nat (Z.of_nat cur + diff)) \/ (ax' <> ax /\ In (ax', z') (entry_axes e)).
Proof.
  intros [pre [rest [Hl [Hc [Hc' Hr]]]]] Hnd Hd Hcur Hin.
  unfold resize_entry in Hin. destruct (has_name ax (e_lay e)) eqn:Hn.
  - apply in_entry_axes in Hin. simpl in Hin. destruct Hin as [i [Hi [Hni ->]]].
    destruct (resize_entry_pos ax e pre rest Hl Hc Hr Hn) as [Hp0 _].
    pose proof (name_index_lt _ _ Hn) as Hi0. pose proof (is_name_eq _ _ (name_index_nth _ _ Hn)) as Hn0.
    set (i0 := name_index ax (e_lay e)) in *. set (ndim := length (shp (e_arr e))) in *.
    set (p0 := pos_of ndim (e_lay e) i0) in *.
    rewrite resize_array_rank by assumption. fold ndim.
    destruct (Nat.eq_dec ax' ax) as [->|Hne].
    + left. split; [reflexivity|]. rewrite (names_index _ _ _ _ Hnd Hni Hn0). fold p0.
      rewrite resize_array_nth_axis by assumption. f_equal. f_equal. f_equal.
      apply Hcur. apply in_entry_axes. exists i0. repeat split; auto.
    + right. split; [assumption|]. apply in_entry_axes. exists i. repeat split; auto.
      apply resize_array_nth; [assumption|]. unfold p0. rewrite Hl in *.
      apply pos_of_inj; auto.
      * intros E. rewrite E, nth_ell_split in Hni. discriminate.
      * intros E. rewrite E, nth_ell_split in Hn0. discriminate.
      * intros E. rewrite E in Hni. rewrite Hni in Hn0. inversion Hn0. congruence.
  - right. split; [|assumption]. intros ->.
    apply in_entry_axes in Hin. destruct Hin as [i [Hi [Hni _]]].
    unfold has_name in Hn. assert (existsb (is_name ax) (e_lay e) = true); [|congruence].
    apply existsb_exists. exists (LName ax). split; [rewrite <- Hni; now apply nth_In|].
    simpl. apply Nat.eqb_refl.
Qed.

Lemma axes_resize c ax size cst c' :
  CacheInv c -> AxesOk c -> resize c ax size cst = Ok c' -> AxesOk c'.
Proof.
  intros [_ [_ Hwf]] [Hk [Hn Hax]] Hr. unfold resize in Hr.
  destruct (lookup ax (c_axes c)) as [cur|] eqn:Ecur; [|discriminate].
  destruct (Z.of_nat size - Z.of_nat cur =? 0)%Z eqn:Hd; [inversion Hr; subst; repeat split; auto|].
  inversion Hr; subst c'; clear Hr. set (diff := (Z.of_nat size - Z.of_nat cur)%Z) in *.
  set (arrs := map (fun p => (fst p, resize_entry ax diff cst (snd p))) (c_arrays c)).
  unfold AxesOk. simpl. fold arrs.
  assert (Hin' : forall nm e', In (nm, e') arrs -> exists e, In (nm, e) (c_arrays c) /\ e' = resize_entry ax diff cst e).
  { intros nm e' H. apply in_map_iff in H. destruct H as [[k e] [E H]]. inversion E; subst. eauto. }
  split; [|split].
  - unfold arrs. rewrite map_map. simpl. exact Hk.
  - intros nm e' H. destruct (Hin' _ _ H) as [e [Hin ->]]. rewrite resize_entry_lay. eauto.
  - assert (Hcls : forall nm e' ax' z', In (nm, e') arrs -> In (ax', z') (entry_axes e') ->
               (ax' = ax /\ z' = Z.to_nat (Z.of_nat cur + diff)) \/ (ax' <> ax /\ lookup ax' (c_axes c) = Some z')).
    { intros nm e' ax' z' H Hz. destruct (Hin' _ _ H) as [e [Hin ->]].
      destruct (resize_entry_axes ax diff cst e cur ax' z' (Hwf _ _ Hin) (Hn _ _ Hin) Hd) as [?|[? ?]]; auto.
      - intros z0 Hz0. pose proof (Hax _ _ _ _ Hin Hz0). congruence.
      - right. split; eauto. }
    intros nm e' ax' z' H Hz. apply lookup_consistent.
    + apply in_gna. exists nm, e'. repeat split; auto. discriminate.
    + intros z2 Hz2. apply in_gna in Hz2. destruct Hz2 as [nm2 [e2 [H2 [_ Hz2]]]].
      destruct (Hcls _ _ _ _ H Hz) as [[? ?]|[? ?]]; destruct (Hcls _ _ _ _ H2 Hz2) as [[? ?]|[? ?]];
        try contradiction; congruence.
Qed.

(* ---- the remaining operations keep arrays' shapes and the cache, or only drop arrays *)
Lemma axes_same_arrays c d : AxesOk c -> AxesOk (with_arrays c (c_arrays c) d (c_axes c)).
Proof. intros H. exact H. Qed.

Lemma axes_pop c name : AxesOk c -> AxesOk (fst (pop c name)).
Proof.
  intros [Hk [Hn Hax]]. unfold pop. destruct (lookup name (c_arrays c)); [|repeat split; auto]. simpl.
  unfold AxesOk, with_arrays. simpl. split; [now apply filter_keys|]. split.
  - intros nm e1 Hin. apply in_del_assoc in Hin. eauto.
  - intros nm e1 ax z Hin. apply in_del_assoc in Hin. eauto.
Qed.

Lemma axes_update_inplace c name v rsz c' :
  AxesOk c -> update c name v rsz = Ok (c', false) -> AxesOk c'.
Proof.
  intros [Hk [Hn Hax]] Hu. unfold update in Hu.
  destruct (lookup name (c_arrays c)) as [e|]; [|discriminate].
  destruct (assign_to v _) as [d|].
  - inversion Hu; subst. unfold AxesOk. simpl. split; [|split].
    + unfold set_data. rewrite map_map.
      replace (map (fun x => fst (if name =? fst x then (fst x, mkE (e_lay (snd x)) (mkNd (shp (e_arr (snd x))) d)) else x)) (c_arrays c))
        with (map fst (c_arrays c)); [exact Hk|].
      apply map_ext. intros [k x]. simpl. destruct (name =? k); reflexivity.
    + intros nm e' Hin. apply set_data_in in Hin. destruct Hin as [e0 [Hin [-> _]]]. eauto.
    + intros nm e' ax z Hin Hz. apply set_data_in in Hin. destruct Hin as [e0 [Hin [H1 H2]]].
      rewrite (entry_axes_ext e0 e' H1 H2) in Hz. eauto.
  - destruct (set c name v None rsz false); inversion Hu.
Qed.

Lemma axes_init app : AxesOk (init app).
Proof. unfold AxesOk, init, empty_coll, with_arrays. simpl. split; [constructor|]. split; intros; contradiction. Qed.

(* ---- full invariant over all call histories *)
Definition bop_names (o : bop) : Prop :=
  match o with OSet _ _ (Some l) _ _ => NoDup (names l) | _ => True end.

Definition Full (c : coll) : Prop := Inv c /\ AxesOk c.

Lemma full_bstep c o c' p r :
  bop_ok c o -> bop_names o -> Full c -> bstep c o = Ok (c', p, r) -> Full c'.
Proof.
  intros Hok Hnm [HI HA] Hs. split; [exact (inv_bstep _ _ _ _ _ Hok HI Hs)|].
  destruct o; simpl in Hs, Hok, Hnm.
  - destruct Hok as [Hp ->].
    destruct (set c name a lay rsz true) eqn:E; inversion Hs; subst.
    eapply axes_set; [|exact HA|exact E]. intros l ->. exact Hnm.
  - destruct Hok as [Hp Hf].
    destruct (update c name a rsz) as [[c1 p1]|] eqn:E; inversion Hs; subst.
    destruct p; [|eapply axes_update_inplace; eauto].
    eapply (axes_set c name a None rsz); [discriminate|exact HA|apply Hf; reflexivity].
  - destruct (get c name bcast); inversion Hs; subst. exact HA.
  - pose proof (axes_pop c name HA) as H. destruct (pop c name). inversion Hs; subst. exact H.
  - destruct (resize c ax size cst) eqn:E; inversion Hs; subst. eapply axes_resize; eauto. apply HI.
  - inversion Hs; subst. exact HA.
  - inversion Hs; subst. exact HA.
  - unfold broadcast in Hs. destruct (check_shape c sh [LEll] None); inversion Hs; subst. exact HA.
Qed.

Definition op_names (o : op) : Prop := match o with OMain b => bop_names b | _ => True end.
Fixpoint names_run (h : list op) : Prop :=
  match h with [] => True | o :: h' => op_names o /\ names_run h' end.

Definition FullS (s : state) : Prop := Full (main s) /\ forall ch, child s = Some ch -> CacheInv ch.

Lemma full_step s o : op_ok s o -> op_names o -> FullS s -> FullS (step_state s o).
Proof.
  intros Hok Hnm [[HI HA] Hc].
  destruct (inv_step s o Hok (conj HI Hc)) as [HI' Hc'].
  split; [split; [exact HI'|]|exact Hc'].
  unfold step_state. destruct (step s o) as [[s' r]|] eqn:E; [|exact HA].
  destruct o; simpl in E, Hok, Hnm.
  - destruct (bstep (main s) o) as [[[c' p] r']|] eqn:Eb; inversion E; subst; clear E. simpl.
    exact (proj2 (full_bstep _ _ _ _ _ Hok Hnm (conj HI HA) Eb)).
  - destruct (child s) as [ch|]; [|discriminate].
    destruct (bstep ch o) as [[[c' p] r']|]; inversion E; subst. exact HA.
  - inversion E; subst. simpl. now rewrite copy_id.
  - destruct (child s); inversion E; subst. exact HA.
Qed.

Theorem full_reachable app h :
  ok_run (start app) h -> names_run h -> FullS (run (start app) h).
Proof.
  assert (G : forall h s, ok_run s h -> names_run h -> FullS s -> FullS (run s h)).
  { unfold run. induction h0 as [|o h0 IH]; intros s Hok Hnm HF; simpl; [assumption|].
    destruct Hok as [H1 H2]. destruct Hnm as [N1 N2]. apply IH; auto. now apply full_step. }
  intros Hok Hnm. apply G; auto. split; [split; [apply inv_init|apply axes_init]|]. simpl. discriminate.
Qed.

(* named axes have one size across all arrays *)
Theorem named_axes_single c nm1 e1 nm2 e2 ax z1 z2 :
  AxesOk c -> In (nm1, e1) (c_arrays c) -> In (nm2, e2) (c_arrays c) ->
  In (ax, z1) (entry_axes e1) -> In (ax, z2) (entry_axes e2) -> z1 = z2.
Proof.
  intros [_ [_ H]] H1 H2 Hz1 Hz2. pose proof (H _ _ _ _ H1 Hz1). pose proof (H _ _ _ _ H2 Hz2). congruence.
Qed.

Lemma demo_names : names_run demo_history.
Proof. unfold demo_history. cbn [names_run op_names bop_names]. repeat split; repeat constructor; simpl; intuition discriminate. Qed.
