(* Proofs about the ArrayCollection state machine (Model/Collection.v). *)
From Coq Require Import List ZArith Lia Bool Arith.
From EPG Require Import Scalar State ListLemmas NdArray NdArrayProofs Collection.
Import ListNotations.

(* ------------------------------------------------------------------ association lists *)
Lemma lookup_map_snd {A B} (f : nat -> A -> B) k m :
  lookup k (map (fun p => (fst p, f (fst p) (snd p))) m) = option_map (f k) (lookup k m).
Proof.
  induction m as [|[k' v] m IH]; simpl; auto.
  destruct (Nat.eqb_spec k k') as [->|]; simpl; auto.
Qed.

Lemma in_set_assoc {A} k (v : A) m k' v' :
  In (k', v') (set_assoc k v m) -> (k' = k /\ v' = v) \/ In (k', v') m.
Proof.
  induction m as [|[k0 v0] m IH]; simpl.
  - intros [E|[]]. inversion E. auto.
  - destruct (Nat.eqb_spec k k0) as [->|NE]; simpl.
    + intros [E|H]; [inversion E; auto|auto].
    + intros [E|H]; [auto|]. destruct (IH H); auto.
Qed.

Lemma lookup_in {A} k (m : list (nat * A)) v : lookup k m = Some v -> In (k, v) m.
Proof.
  induction m as [|[k' v'] m IH]; simpl; [discriminate|].
  destruct (Nat.eqb_spec k k') as [->|]; [intros E; inversion E; auto|auto].
Qed.

Lemma in_lookup {A} k (m : list (nat * A)) v : In (k, v) m -> exists v', lookup k m = Some v'.
Proof.
  induction m as [|[k' v'] m IH]; simpl; [intros []|].
  destruct (Nat.eqb_spec k k') as [->|NE]; [eauto|].
  intros [E|H]; [inversion E; congruence|auto].
Qed.

Lemma in_del_assoc {A} k (m : list (nat * A)) p : In p (del_assoc k m) -> In p m.
Proof. unfold del_assoc. rewrite filter_In. tauto. Qed.

(* ------------------------------------------------------------------ ellipsis-first layouts *)
Definition lay_first (l : layout) : Prop := exists rest, l = LEll :: rest /\ count_ell rest = 0.
Definition wf_entry (e : entry) : Prop :=
  exists rest, e_lay e = LEll :: rest /\ count_ell rest = 0 /\ length rest <= length (shp (e_arr e)).

Lemma shared_axes_first rest sh :
  shared_axes sh (LEll :: rest) = firstn (length sh - length rest) sh.
Proof.
  unfold shared_axes, slice. simpl. f_equal. lia.
Qed.

Lemma bshape_first S rest sh :
  bshape S sh (LEll :: rest) = S ++ skipn (length sh - length rest) sh.
Proof.
  unfold bshape. simpl. do 2 f_equal. lia.
Qed.

Lemma count_ell_first rest : count_ell rest = 0 -> count_ell (LEll :: rest) = 1.
Proof. unfold count_ell. simpl. intros ->. reflexivity. Qed.

Lemma name_index_lt ax l : has_name ax l = true -> name_index ax l < length l.
Proof.
  unfold has_name. induction l as [|x l IH]; simpl; [discriminate|].
  destruct (is_name ax x); simpl; [lia|]. intros H. specialize (IH H). lia.
Qed.

(* positions of the non-ellipsis items of an ellipsis-first layout lie behind the shared part *)
Lemma pos_of_first rest ndim i :
  1 <= i -> i <= length rest -> length rest <= ndim ->
  pos_of ndim (LEll :: rest) i = ndim - length rest + (i - 1) /\
  ndim - length rest <= pos_of ndim (LEll :: rest) i < ndim.
Proof.
  intros H1 H2 H3. unfold pos_of. simpl.
  destruct (Nat.ltb_spec i 0); [lia|]. lia.
Qed.

Lemma named_axes_first rest ndim p :
  length rest <= ndim -> In p (named_axes ndim (LEll :: rest)) ->
  ndim - length rest <= fst p < ndim.
Proof.
  intros Hr Hin. unfold named_axes in Hin. apply in_flat_map in Hin.
  destruct Hin as [i [Hi Hp]]. apply in_seq in Hi.
  destruct i as [|i]; [simpl in Hp; contradiction|].
  destruct (nth (S i) (LEll :: rest) LFree) eqn:E; try contradiction.
  destruct Hp as [<-|[]]. simpl fst.
  apply pos_of_first; simpl in *; lia.
Qed.

(* ------------------------------------------------------------------ resize keeps rank and shared part *)
Lemma resize_array_rank a diff axis c :
  axis < length (shp a) -> length (shp (resize_array a diff axis c)) = length (shp a).
Proof.
  intros H. unfold resize_array. destruct (diff =? 0)%Z; auto.
  now apply length_resize_axis_shape.
Qed.

Lemma resize_array_firstn a diff axis c k :
  k <= axis -> axis < length (shp a) ->
  firstn k (shp (resize_array a diff axis c)) = firstn k (shp a).
Proof.
  intros Hk H. unfold resize_array. destruct (diff =? 0)%Z; auto.
  rewrite resize_axis_shape, firstn_app, firstn_firstn, firstn_length.
  replace (k - Nat.min axis (length (shp a))) with 0 by lia.
  rewrite firstn_O, app_nil_r. f_equal. lia.
Qed.

Lemma resize_entry_wf ax diff cst e : wf_entry e -> wf_entry (resize_entry ax diff cst e).
Proof.
  intros [rest [Hl [Hc Hr]]]. unfold resize_entry.
  destruct (has_name ax (e_lay e)) eqn:Hn; [|exists rest; auto].
  exists rest. simpl. split; [auto|split; auto].
  rewrite resize_array_rank; auto.
  rewrite Hl in *. pose proof (name_index_lt _ _ Hn) as Hlt.
  assert (Hi : name_index ax (LEll :: rest) = S (name_index ax rest)) by reflexivity.
  rewrite Hi in *. simpl in Hlt.
  apply pos_of_first; lia.
Qed.

Lemma resize_entry_lay ax diff cst e : e_lay (resize_entry ax diff cst e) = e_lay e.
Proof. unfold resize_entry. destruct (has_name ax (e_lay e)); reflexivity. Qed.

Lemma resize_entry_shared ax diff cst e :
  wf_entry e -> entry_shared (resize_entry ax diff cst e) = entry_shared e.
Proof.
  intros [rest [Hl [Hc Hr]]]. unfold entry_shared. rewrite resize_entry_lay.
  unfold resize_entry. destruct (has_name ax (e_lay e)) eqn:Hn; [|reflexivity]. simpl.
  rewrite Hl in *. pose proof (name_index_lt _ _ Hn) as Hlt.
  assert (Hi : name_index ax (LEll :: rest) = S (name_index ax rest)) by reflexivity.
  rewrite Hi in *. simpl in Hlt.
  set (ndim := length (shp (e_arr e))) in *.
  destruct (pos_of_first rest ndim (S (name_index ax rest))) as [_ Hp]; try lia.
  rewrite !shared_axes_first. rewrite resize_array_rank by (fold ndim; lia). fold ndim.
  apply resize_array_firstn; fold ndim; lia.
Qed.

Lemma resize_named_rank axes a rest :
  length rest <= length (shp a) ->
  length (shp (resize_named axes a (LEll :: rest))) = length (shp a) /\
  firstn (length (shp a) - length rest) (shp (resize_named axes a (LEll :: rest))) =
  firstn (length (shp a) - length rest) (shp a).
Proof.
  intros Hr. unfold resize_named.
  set (ndim := length (shp a)).
  assert (Hall : forall p, In p (named_axes ndim (LEll :: rest)) -> ndim - length rest <= fst p < ndim)
    by (intros p; apply named_axes_first; assumption).
  assert (G : forall L arr, (forall p, In p L -> ndim - length rest <= fst p < ndim) ->
            length (shp arr) = ndim ->
            let r := fold_left (fun arr p =>
              let size := nth (fst p) (shp arr) 0 in
              match lookup (snd p) axes with
              | Some k => if size =? k then arr else resize_array arr (Z.of_nat k - Z.of_nat size) (fst p) 0%Z
              | None => arr end) L arr in
            length (shp r) = ndim /\ firstn (ndim - length rest) (shp r) = firstn (ndim - length rest) (shp arr)).
  { induction L as [|p L IH]; intros arr HL Ha; simpl; [auto|].
    set (arr' := match lookup (snd p) axes with
                 | Some k => if nth (fst p) (shp arr) 0 =? k then arr
                             else resize_array arr (Z.of_nat k - Z.of_nat (nth (fst p) (shp arr) 0)) (fst p) 0%Z
                 | None => arr end).
    assert (Hp : ndim - length rest <= fst p < ndim) by (apply HL; left; reflexivity).
    assert (H' : length (shp arr') = ndim /\
                 firstn (ndim - length rest) (shp arr') = firstn (ndim - length rest) (shp arr)).
    { unfold arr'. destruct (lookup (snd p) axes); [|auto].
      destruct (_ =? _); [auto|]. split.
      - rewrite resize_array_rank; lia.
      - apply resize_array_firstn; lia. }
    destruct H' as [H1 H2].
    destruct (IH arr' (fun q Hq => HL q (or_intror Hq)) H1) as [H3 H4].
    split; [exact H3|exact (eq_trans H4 H2)]. }
  apply (G _ a Hall eq_refl).
Qed.

(* ------------------------------------------------------------------ the cache invariant *)
(* cached shape = recomputation from arrays + default; per-array broadcast shapes coherent;
   stored layouts ellipsis-first with enough axes *)
Definition CacheInv (c : coll) : Prop :=
  c_shape c = calc_shape (c_app c) (shared_list (c_arrays c) (c_default c)) /\
  (forall nm e, lookup nm (c_arrays c) = Some e ->
                lookup nm (c_shapes c) = Some (bshape (c_shape c) (shp (e_arr e)) (e_lay e))) /\
  (forall nm e, In (nm, e) (c_arrays c) -> wf_entry e).

Lemma lookup_calc_shapes S arrs nm :
  lookup nm (calc_shapes S arrs) =
  option_map (fun e => bshape S (shp (e_arr e)) (e_lay e)) (lookup nm arrs).
Proof. unfold calc_shapes. apply (lookup_map_snd (fun _ e => bshape S (shp (e_arr e)) (e_lay e))). Qed.

Lemma cache_with_arrays c arrs dflt axes :
  (forall nm e, In (nm, e) arrs -> wf_entry e) -> CacheInv (with_arrays c arrs dflt axes).
Proof.
  intros H. unfold CacheInv, with_arrays. simpl. split; [reflexivity|]. split; [|exact H].
  intros nm e Hl. rewrite lookup_calc_shapes, Hl. reflexivity.
Qed.

Lemma cache_init app : CacheInv (init app).
Proof. apply cache_with_arrays. intros nm e []. Qed.

Lemma cache_set c name a lay rsz chk c' :
  (forall l, lay = Some l -> lay_first l) ->
  CacheInv c -> set c name a lay rsz chk = Ok c' -> CacheInv c'.
Proof.
  intros Hlay [_ [_ Hwf]] Hs. unfold set in Hs.
  set (l := match lay with Some l => l | None =>
             match lookup name (c_arrays c) with Some e => e_lay e | None => [LEll] end end) in *.
  assert (Hl : lay_first l).
  { unfold l. destruct lay; [now apply Hlay|].
    destruct (lookup name (c_arrays c)) eqn:E.
    - apply lookup_in in E. destruct (Hwf _ _ E) as [rest [H1 [H2 _]]]. exists rest. auto.
    - exists []. auto. }
  destruct Hl as [rest [Hl Hc]]. rewrite Hl in *.
  destruct (negb (count_ell (LEll :: rest) =? 1)); [discriminate|].
  destruct (Nat.ltb_spec (length (shp a) + 1) (length (LEll :: rest))); [discriminate|].
  simpl in H.
  match type of Hs with (if ?b then _ else _) = _ => destruct b; [discriminate|] end.
  inversion Hs; subst c'. apply cache_with_arrays.
  intros nm e Hin. apply in_set_assoc in Hin. destruct Hin as [[_ ->]|Hin]; [|eauto].
  exists rest. simpl. split; [auto|split; auto].
  destruct rsz; [|lia].
  destruct (resize_named_rank (gna (c_arrays c) (Some name)) a rest) as [-> _]; lia.
Qed.

Lemma set_data_lookup name d arrs nm e' :
  lookup nm (set_data name d arrs) = Some e' ->
  exists e, lookup nm arrs = Some e /\ e_lay e' = e_lay e /\ shp (e_arr e') = shp (e_arr e).
Proof.
  unfold set_data. induction arrs as [|[k v] arrs IH]; simpl; [discriminate|].
  destruct (name =? k); simpl; destruct (nm =? k); auto;
    intros E; inversion E; subst; eexists; (split; [reflexivity|split; reflexivity]).
Qed.

Lemma set_data_in name d arrs nm e' :
  In (nm, e') (set_data name d arrs) ->
  exists e, In (nm, e) arrs /\ e_lay e' = e_lay e /\ shp (e_arr e') = shp (e_arr e).
Proof.
  unfold set_data. intros H. apply in_map_iff in H. destruct H as [[k v] [E Hin]]. simpl in E.
  destruct (name =? k); inversion E; subst; eexists; (split; [exact Hin|split; reflexivity]).
Qed.

Lemma set_data_shared name d arrs dflt :
  shared_list (set_data name d arrs) dflt = shared_list arrs dflt.
Proof.
  unfold shared_list, set_data. f_equal. rewrite map_map. apply map_ext.
  intros [k v]. simpl. destruct (name =? k); reflexivity.
Qed.

Lemma cache_update c name v rsz c' p :
  CacheInv c -> update c name v rsz = Ok (c', p) -> CacheInv c'.
Proof.
  intros HI Hu. unfold update in Hu.
  destruct (lookup name (c_arrays c)) as [e|] eqn:E; [|discriminate].
  destruct (shp (e_arr e)) eqn:Esh; [discriminate|]. rewrite <- Esh in Hu.
  destruct (assign_to v (shp (e_arr e))) as [d|].
  - inversion Hu; subst. destruct HI as [H1 [H2 H3]].
    unfold CacheInv. simpl. split; [|split].
    + rewrite set_data_shared. exact H1.
    + intros nm e' Hl. apply set_data_lookup in Hl. destruct Hl as [e0 [Hl [-> ->]]]. auto.
    + intros nm e' Hin. apply set_data_in in Hin. destruct Hin as [e0 [Hin [Hlay Hshp]]].
      destruct (H3 _ _ Hin) as [rest [Ha [Hb Hc]]]. exists rest. rewrite Hlay, Hshp. auto.
  - destruct (set c name v None rsz false) as [c1|] eqn:Es; [|discriminate].
    inversion Hu; subst. eapply cache_set; [|exact HI|exact Es]. discriminate.
Qed.

Lemma cache_pop c name : CacheInv c -> CacheInv (fst (pop c name)).
Proof.
  intros HI. unfold pop. destruct (lookup name (c_arrays c)); [|exact HI]. simpl.
  apply cache_with_arrays. intros nm e1 Hin. apply in_del_assoc in Hin.
  destruct HI as [_ [_ H]]. eauto.
Qed.

Lemma cache_resize c ax size cst c' : CacheInv c -> resize c ax size cst = Ok c' -> CacheInv c'.
Proof.
  intros HI Hr. unfold resize in Hr.
  destruct (lookup ax (c_axes c)); [|discriminate].
  destruct (_ =? 0)%Z; [inversion Hr; subst; exact HI|].
  inversion Hr; subst c'; clear Hr. destruct HI as [H1 [H2 H3]].
  unfold CacheInv. simpl. split; [|split].
  - rewrite H1 at 1. f_equal. unfold shared_list. f_equal. rewrite map_map. simpl.
    apply map_ext_in. intros [k e] Hin. simpl. symmetry. apply resize_entry_shared. eauto.
  - intros nm e' Hl.
    rewrite (lookup_map_snd (fun _ e => resize_entry ax _ cst e)) in Hl.
    destruct (lookup nm (c_arrays c)) as [e|] eqn:E; [|discriminate]. simpl in Hl. inversion Hl; subst e'; clear Hl.
    specialize (H2 _ _ E).
    set (arrs := map _ (c_arrays c)).
    assert (Hla : lookup nm arrs = Some (resize_entry ax (Z.of_nat size - Z.of_nat n) cst e)).
    { unfold arrs. rewrite (lookup_map_snd (fun _ e => resize_entry ax _ cst e)), E. reflexivity. }
    transitivity (option_map (fun s =>
       match lookup nm arrs with
       | Some e1 => if has_name ax (e_lay e1) then bshape (c_shape c) (shp (e_arr e1)) (e_lay e1) else s
       | None => s end) (lookup nm (c_shapes c))).
    { clear. induction (c_shapes c) as [|[k s] m IH]; simpl; auto.
      destruct (Nat.eqb_spec nm k) as [->|NE].
      - destruct (lookup k arrs) as [e1|]; simpl; [|now rewrite Nat.eqb_refl].
        destruct (has_name ax (e_lay e1)); simpl; now rewrite Nat.eqb_refl.
      - destruct (lookup k arrs) as [e1|]; simpl.
        + destruct (has_name ax (e_lay e1)); simpl; destruct (Nat.eqb_spec nm k); try contradiction; auto.
        + destruct (Nat.eqb_spec nm k); try contradiction; auto. }
    rewrite H2, Hla. simpl. rewrite resize_entry_lay.
    destruct (has_name ax (e_lay e)) eqn:Hn; [reflexivity|].
    unfold resize_entry. rewrite Hn. reflexivity.
  - intros nm e' Hin. apply in_map_iff in Hin. destruct Hin as [[k e] [Eq Hin]].
    inversion Eq; subst. apply resize_entry_wf. eauto.
Qed.

Lemma cache_same_arrays c dflt axes : CacheInv c -> CacheInv (with_arrays c (c_arrays c) dflt axes).
Proof. intros [_ [_ H]]. apply cache_with_arrays. exact H. Qed.

Lemma copy_id c : copy c = c.
Proof. destruct c; reflexivity. Qed.

(* explicit layouts of a call history are ellipsis-first (the only ones StateMatrix uses) *)
Definition bop_first (o : bop) : Prop :=
  match o with OSet _ _ (Some l) _ _ => lay_first l | _ => True end.
Definition op_first (o : op) : Prop :=
  match o with OMain b | OChild b => bop_first b | _ => True end.

Lemma cache_bstep c o c' p r :
  bop_first o -> CacheInv c -> bstep c o = Ok (c', p, r) -> CacheInv c'.
Proof.
  intros Hf HI Hs. destruct o; simpl in Hs.
  - destruct (set c name a lay rsz chk) eqn:E; inversion Hs; subst.
    eapply cache_set; [|exact HI|exact E]. intros l ->. exact Hf.
  - destruct (update c name a rsz) as [[c1 p1]|] eqn:E; inversion Hs; subst.
    eapply cache_update; eauto.
  - destruct (get c name bcast); inversion Hs; subst. exact HI.
  - pose proof (cache_pop c name HI) as H. destruct (pop c name). inversion Hs; subst. exact H.
  - destruct (resize c ax size cst) eqn:E; inversion Hs; subst. eapply cache_resize; eauto.
  - inversion Hs; subst. now apply cache_same_arrays.
  - inversion Hs; subst. now apply cache_same_arrays.
  - unfold broadcast in Hs. destruct (check_shape c sh [LEll] None); inversion Hs; subst.
    now apply cache_same_arrays.
Qed.

Definition CacheInvS (s : state) : Prop :=
  CacheInv (main s) /\ forall ch, child s = Some ch -> CacheInv ch.

Lemma cache_follow parent ch : CacheInv ch -> CacheInv (follow parent ch).
Proof. apply cache_same_arrays. Qed.

Lemma cache_step s o : op_first o -> CacheInvS s -> CacheInvS (step_state s o).
Proof.
  intros Hf [Hm Hc]. unfold step_state.
  destruct (step s o) as [[s' r]|] eqn:E; [|split; assumption].
  destruct o; simpl in E.
  - destruct (bstep (main s) o) as [[[c' p] r']|] eqn:Eb; inversion E; subst; clear E.
    split; simpl.
    + exact (cache_bstep _ _ _ _ _ Hf Hm Eb).
    + intros ch Hch. destruct p; [|auto].
      destruct (child s) as [ch0|]; simpl in Hch; inversion Hch; subst.
      apply cache_follow. auto.
  - destruct (child s) as [ch|] eqn:Ech; [|discriminate].
    destruct (bstep ch o) as [[[c' p] r']|] eqn:Eb; inversion E; subst; clear E.
    split; simpl; [assumption|]. intros ch' Hch'. inversion Hch'; subst.
    exact (cache_bstep _ _ _ _ _ Hf (Hc _ eq_refl) Eb).
  - inversion E; subst. split; simpl; [now rewrite copy_id|assumption].
  - destruct (child s) eqn:Ech; inversion E; subst. split; simpl; [assumption|].
    intros ch Hch. inversion Hch; subst. apply cache_follow, cache_init.
Qed.

Lemma cache_start app : CacheInvS (start app).
Proof. split; [apply cache_init|]. simpl. discriminate. Qed.

Lemma cache_run s h : List.Forall op_first h -> CacheInvS s -> CacheInvS (run s h).
Proof.
  unfold run. revert s. induction h as [|o h IH]; intros s Hf HI; simpl; [assumption|].
  inversion Hf; subst. apply IH; [assumption|]. now apply cache_step.
Qed.

(* the shape caches are coherent after every call history, both expand conventions *)
Theorem cache_reachable app h : List.Forall op_first h -> CacheInvS (run (start app) h).
Proof. intros H. apply cache_run; [assumption|apply cache_start]. Qed.

(* ------------------------------------------------------------------ copy *)
(* copy() returns a collection with the same observable state (independence of the memory is
   checked on the implementation by props/c16.py: the model has no aliasing) *)
Theorem copy_equal s r : observe r (fst (match step s OCopy with Ok x => x | Err _ => (s, None) end)) = observe r s.
Proof. simpl. rewrite copy_id. destruct s; reflexivity. Qed.

(* ------------------------------------------------------------------ refuted clauses (faithful model) *)
Definition zeros (sh : list nat) : nd := mkNd sh (repeat 0%Z (prod sh)).
Definition all_ok (s : state) (h : list op) : bool :=
  forallb (fun x => match o_res x with Ok _ => true | Err _ => false end) (trace s h).
Definition gets_ok (c : coll) : bool :=
  forallb (fun p => match snd p with Ok _ => true | Err _ => false end) (get_all c).

(* check_shape slices the broadcast part wrongly when the ellipsis is not the first item:
   a shape-incompatible insertion is accepted and the next get raises *)
Lemma set_incompatible_raises_refuted :
  exists app h, all_ok (start app) h = true /\
                get (main (run (start app) h)) 2 true = Err EValue.
Proof.
  exists false, [OMain (OBroadcast [3]); OMain (OSet 2 (zeros [3; 2]) (Some [LName 0; LEll]) false true)].
  vm_compute. split; reflexivity.
Qed.

(* update falls back to set(check=False): ellipsis-first layouts, every call returns normally,
   afterwards a stored array cannot be returned *)
Lemma update_unchecked_refuted :
  exists app h, List.Forall op_first h /\ all_ok (start app) h = true /\
                get (main (run (start app) h)) 1 true = Err EValue.
Proof.
  exists false, [OMain (OSet 0 (zeros [2]) None false true); OMain (OSet 1 (zeros [2]) None false true);
                 OMain (OUpdate 0 (zeros [3]) false)].
  split; [repeat constructor|]. vm_compute. split; reflexivity.
Qed.

(* ... or a named axis has two sizes *)
Lemma update_named_axis_refuted :
  exists app h, List.Forall op_first h /\ all_ok (start app) h = true /\
    let c := main (run (start app) h) in
    option_map (fun e => shp (e_arr e)) (lookup 0 (c_arrays c)) = Some [5] /\
    option_map (fun e => shp (e_arr e)) (lookup 1 (c_arrays c)) = Some [3] /\
    option_map e_lay (lookup 0 (c_arrays c)) = Some [LEll; LName 0] /\
    option_map e_lay (lookup 1 (c_arrays c)) = Some [LEll; LName 0].
Proof.
  exists false, [OMain (OSet 0 (zeros [3]) (Some [LEll; LName 0]) false true);
                 OMain (OSet 1 (zeros [3]) (Some [LEll; LName 0]) false true);
                 OMain (OUpdate 0 (zeros [5]) false)].
  split; [repeat constructor; exists [LName 0]; split; reflexivity|]. vm_compute. repeat split; reflexivity.
Qed.

(* update of a stored 0-d array raises IndexError, whatever the value *)
Lemma update_0d_refuted :
  exists app h v, all_ok (start app) h = true /\
    step (run (start app) h) (OMain (OUpdate 0 v false)) = Err EIndex.
Proof.
  exists false, [OMain (OSet 0 (mkNd [] [7%Z]) None false true)], (mkNd [] [8%Z]).
  vm_compute. split; reflexivity.
Qed.

(* pop does not refresh the named-axes cache *)
Lemma pop_axes_stale :
  exists app h, all_ok (start app) h = true /\
    let c := main (run (start app) h) in c_axes c = [(0, 3)] /\ gna (c_arrays c) None = [].
Proof.
  exists false, [OMain (OSet 0 (zeros [2; 3]) (Some [LEll; LName 0]) false true); OMain (OPop 0)].
  vm_compute. repeat split; reflexivity.
Qed.

(* a linked collection's default is overwritten by the parent's shape without any check *)
Lemma link_child_refuted :
  exists app h, List.Forall op_first h /\ all_ok (start app) h = true /\
    match child (run (start app) h) with Some ch => get ch 0 true = Err EValue | None => False end.
Proof.
  exists false, [OMain (OSet 0 (zeros [2]) None false true); OLink false;
                 OChild (OSet 0 (zeros [2]) None false true); OMain (OPop 0);
                 OMain (OSet 0 (zeros [3]) None false true)].
  split; [repeat constructor|]. vm_compute. split; reflexivity.
Qed.
