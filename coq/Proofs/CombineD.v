(* C10, first-order partials of '@'.
   opscalar/opmatrix _combine builds the derivative arrays of (op1 @ op2) by running op2's own
   _apply_order1 on op1's arrays:   new.dmats[k] = op2.mat . op1.dmats[k]  +  sum_{(p,c) in op2.order1[k]}
   c * (op2.dmats[p] . op1.mat, op2.dmats[p] . op1.mat0 + op2.dmats0[p])      (cd below; None = zero),
   and declares order1 = {**op1.order1, **op2.order1}.  These three facts (combined_ok) are what the
   correspondence checks on the implementation's combined operators.  Theorem combine_order1: when both
   operands declare their parameters under their own names with unit coefficients (order1=True / a name /
   a list of names) and carry derivative arrays only for declared parameters, applying the combined
   operator gives, for EVERY state and EVERY previously carried partials, the same first-order partials as
   applying op1 then op2.  (With aliases or coefficient maps the keys of new.dmats mix variable and
   parameter names and the statement fails: known finding.) *)
From Coq Require Import List ZArith Lia Bool Arith Ring.
From EPG Require Import Scalar State Ops ListLemmas Views Diff DiffLemmas DiffExact Combine CombineProofs.
Import ListNotations.

Section CombineD.
Variable S : ScalOps.
Hypothesis L : ScalLaws S.
Add Ring KrC : (k_ring S L).
Notation triple := (triple S).
Notation mat3 := (mat3 S).
Notation sm := (sm S).
Notation get := (get S).
Notation gete := (gete S).
Notation lact := (lact S).
Notation lmat := (lmat S).
Notation lmat0 := (lmat0 S).
Notation mzero := (DiffExact.mzero S).
Local Open Scope Z_scope.

(* ---- what one differentiable operator does to the partial of v, phase state by phase state ---- *)
Lemma dapply_p1_sem o ds v n k : is_shift S (d_lin S o) = false -> darrs_ok S o ->
  shaped S (d_main ds) n -> opshaped S n (alookup Nat.eqb v (d_p1 ds)) ->
  oget S (alookup Nat.eqb v (d_p1 (dapply o ds))) k =
    tadd (lact (lmat (d_lin S o)) (lmat0 (d_lin S o)) (oget S (alookup Nat.eqb v (d_p1 ds)) k) t0)
         (lact (fst (eff S o v)) (snd (eff S o v)) (get (d_main ds) k) (gete (d_main ds) k))
  /\ opshaped S n (alookup Nat.eqb v (d_p1 (dapply o ds))).
Proof.
  intros Hl Hd Hs Hp.
  assert (Hnew : alookup Nat.eqb v (d_p1 (dapply o ds)) =
     oadd S (omap (derive0 S o) (alookup Nat.eqb v (d_p1 ds))) (osum S (terms S o (d_main ds) v) None)).
  { unfold dapply. cbn [d_p1].
    destruct (nonempty (d_p1 ds) || nonempty (d_order1 S o)) eqn:E.
    - apply lookup_order1.
    - apply orb_false_elim in E. destruct E as [E1 E2].
      destruct (d_p1 ds); [|discriminate]. cbn [fst alookup omap].
      unfold terms, entries. destruct (d_order1 S o); [|discriminate]. reflexivity. }
  destruct (terms_sem S L o (d_main ds) v n k Hd Hs) as [Tsh Tsem].
  assert (Hprev : opshaped S n (omap (derive0 S o) (alookup Nat.eqb v (d_p1 ds)))).
  { destruct (alookup Nat.eqb v (d_p1 ds)) as [p|]; simpl; auto. destruct Hp as [Hp1 Hp2]. split.
    - now apply lin_shaped.
    - intros j. unfold derive0. rewrite gete_lin by auto. apply Hp2. }
  destruct (osum_sem S L (terms S o (d_main ds) v) None n k I Tsh) as [Osem Osh].
  destruct (oadd_sem S L _ _ n k Hprev Osh) as [E Esh].
  rewrite Hnew. split; [|exact Esh].
  rewrite E, Osem, Tsem. cbn [oget].
  destruct (alookup Nat.eqb v (d_p1 ds)) as [p|]; cbn [omap oget] in *.
  - destruct Hp as [Hp1 Hp2]. unfold derive0. rewrite (get_lin S L _ _ n k Hl Hp1), Hp2.
    apply (triple_ext S); unfold tadd; simpl; ring.
  - rewrite (lact_t0 S L). apply (triple_ext S); unfold tadd; simpl; ring.
Qed.

(* ---- derivative arrays as matrix pairs (None = zero, scalar arrays = diagonal matrices) ---- *)
Definition mp : Type := (mat3 * mat3)%type.
Definition dlook (o : dop S) (k : nat) : mp :=
  match alookup Nat.eqb k (d_darrs S o) with Some d => (lmat d, lmat0 d) | None => (mzero, mzero) end.

(* the derivative arrays _combine assembles for key k *)
Definition cd (o1 o2 : dop S) (k : nat) : mp :=
  let M2 := lmat (d_lin S o2) in
  let M1 := lmat (d_lin S o1) in
  let M10 := lmat0 (d_lin S o1) in
  let cur := fold_left (fun acc pc =>
       let d := dlook o2 (fst pc) in
       (madd (fst acc) (mscale (snd pc) (mmul (fst d) M1)),
        madd (snd acc) (mscale (snd pc) (madd (mmul (fst d) M10) (snd d)))))
       (entries S o2 k) (mzero, mzero) in
  (madd (mmul M2 (fst (dlook o1 k))) (fst cur), madd (mmul M2 (snd (dlook o1 k))) (snd cur)).

Definition entries_merged (o1 o2 : dop S) (v : var) : list (param * S) :=
  if amem Nat.eqb v (d_order1 S o2) then entries S o2 v else entries S o1 v.

Record combined_ok (o1 o2 oc : dop S) : Prop := {
  c_lin : combine_lin (d_lin S o1) (d_lin S o2) = Some (d_lin S oc);
  c_darrs : forall k, dlook oc k = cd o1 o2 k;
  c_order1 : forall v, entries S oc v = entries_merged o1 o2 v;
  c_dok : darrs_ok S oc
}.

(* identity declarations: a variable is the parameter of the same name, coefficient 1 *)
Definition no_alias (o : dop S) : Prop :=
  forall v, entries S o v = [] \/ entries S o v = [(v, k1)].
(* derivative arrays only for declared parameters *)
Definition darrs_active (o : dop S) : Prop :=
  forall k, entries S o k = [] -> dlook o k = (mzero, mzero).
(* the keys of the order1 dictionary are exactly the variables with entries *)
Definition entries_keys (o : dop S) : Prop :=
  forall v, amem Nat.eqb v (d_order1 S o) = true <-> entries S o v <> [].

Lemma mv_mscale (c : S) (A : mat3) (x : triple) : mv (mscale c A) x = tscale c (mv A x).
Proof. apply (triple_ext S); unfold mv, mscale, tscale, dot; simpl; ring. Qed.
Lemma tscale_1 (y : triple) : tscale k1 y = y.
Proof. apply (triple_ext S); unfold tscale; simpl; ring. Qed.

(* keep the matrix-vector products opaque for ring *)
Ltac gen_atoms := repeat match goal with |- context [@mv ?S0 ?m ?x] =>
                           let a := fresh "a" in generalize (@mv S0 m x); intro a end.
Ltac tring := gen_atoms; apply (triple_ext S); unfold tadd, tscale, t0; cbn [fp fm fz]; ring.
Ltac lin_norm := unfold DiffExact.lact;
  repeat (progress rewrite ?(mv_madd S L), ?(mv_mmul S L), ?mv_mscale, ?tscale_1, ?(mv_mzero S L), ?(mv_tadd S L), ?(mv_t0 S L)).

Lemma eff_nil o v : entries S o v = [] -> eff S o v = (mzero, mzero).
Proof. intros H. unfold eff. now rewrite H. Qed.
Lemma eff_one o v : entries S o v = [(v, k1)] ->
  forall x e, lact (fst (eff S o v)) (snd (eff S o v)) x e = lact (fst (dlook o v)) (snd (dlook o v)) x e.
Proof.
  intros H x e. unfold eff. rewrite H. cbn [fold_left]. unfold eff_step, dlook. cbn [fst snd].
  destruct (alookup Nat.eqb v (d_darrs S o)) as [l|]; cbn [fst snd].
  - lin_norm. tring.
  - reflexivity.
Qed.

Lemma lact_zero x e : lact mzero mzero x e = t0.
Proof. unfold DiffExact.lact. rewrite !(mv_mzero S L). apply (tadd_t0 S L). Qed.

Lemma not_shift_of_combine l1 l2 lc : combine_lin l1 l2 = Some lc ->
  is_shift S l1 = false /\ is_shift S l2 = false /\ is_shift S lc = false.
Proof.
  destruct l1 as [a1 a01|m1 m01|d1 n1]; destruct l2 as [a2 a02|m2 m02|d2 n2]; simpl; intros H;
    try discriminate; inversion H; auto.
Qed.

(* the algebraic heart: product rule for x |-> M2 (M1 x + M10 e) + M20 e *)
Lemma product_rule (M2 M1 M10 D1 D10 D2 D20 : mat3) (x e : triple) :
  lact (madd (mmul M2 D1) (madd mzero (mscale k1 (mmul D2 M1))))
       (madd (mmul M2 D10) (madd mzero (mscale k1 (madd (mmul D2 M10) D20)))) x e =
  tadd (lact M2 mzero (lact D1 D10 x e) t0) (lact D2 D20 (lact M1 M10 x e) e).
Proof. lin_norm. tring. Qed.

Theorem combine_order1 o1 o2 oc ds n :
  combined_ok o1 o2 oc -> no_alias o1 -> no_alias o2 -> darrs_active o1 -> entries_keys o2 ->
  darrs_ok S o1 -> darrs_ok S o2 ->
  shaped S (d_main ds) n -> (forall v, opshaped S n (alookup Nat.eqb v (d_p1 ds))) ->
  d_main (dapply oc ds) = d_main (dapply o2 (dapply o1 ds)) /\
  forall v k, oget S (alookup Nat.eqb v (d_p1 (dapply oc ds))) k =
              oget S (alookup Nat.eqb v (d_p1 (dapply o2 (dapply o1 ds)))) k.
Proof.
  intros [Hlin Hdar Hord Hdok] N1 N2 A1 K2 D1 D2 Hs Hp.
  destruct (not_shift_of_combine _ _ _ Hlin) as (S1 & S2 & Sc).
  split.
  { unfold dapply. cbn [d_main]. exact (combine_apply_states S L _ _ _ _ n Hlin Hs). }
  intros v k.
  (* combined operator *)
  destruct (dapply_p1_sem oc ds v n k Sc Hdok Hs (Hp v)) as [Ec _].
  (* op1, then op2 *)
  destruct (dapply_p1_sem o1 ds v n k S1 D1 Hs (Hp v)) as [E1 P1].
  assert (Hs1 : shaped S (d_main (dapply o1 ds)) n) by (unfold dapply; cbn [d_main]; now apply lin_shaped).
  destruct (dapply_p1_sem o2 (dapply o1 ds) v n k S2 D2 Hs1 P1) as [E2 _].
  rewrite Ec, E2, E1. clear Ec E2 E1.
  set (P := oget S (alookup Nat.eqb v (d_p1 ds)) k).
  set (x := get (d_main ds) k). set (e := gete (d_main ds) k).
  assert (Gx : get (d_main (dapply o1 ds)) k = lact (lmat (d_lin S o1)) (lmat0 (d_lin S o1)) x e).
  { unfold dapply. cbn [d_main]. exact (get_lin S L _ _ n k S1 Hs). }
  assert (Ge : gete (d_main (dapply o1 ds)) k = e).
  { unfold dapply. cbn [d_main]. exact (gete_lin S _ _ k S1). }
  rewrite Gx, Ge.
  (* the action of the combined arrays on a partial (zero equilibrium) *)
  assert (Hc : lact (lmat (d_lin S oc)) (lmat0 (d_lin S oc)) P t0 =
               lact (lmat (d_lin S o2)) (lmat0 (d_lin S o2))
                    (lact (lmat (d_lin S o1)) (lmat0 (d_lin S o1)) P t0) t0).
  { pose (sp := mkSM (tab (2 * n + 1) (fun i => if Nat.eqb i n then P else t0)) (tab (2 * n + 1) (fun _ => @t0 S))).
    assert (Hsp : shaped S sp n) by (split; unfold sp; cbn [st equ]; now rewrite length_tab).
    assert (G0 : get sp 0 = P).
    { unfold Views.get, sp. cbn [st]. rewrite (getZ_odd t0 _ n 0) by now rewrite length_tab.
      rewrite Z.add_0_l, nthZ_nat, nth_tab by lia. now rewrite Nat.eqb_refl. }
    assert (Ge0 : gete sp 0 = t0).
    { unfold Views.gete, sp. cbn [equ]. rewrite (getZ_odd t0 _ n 0) by now rewrite length_tab.
      rewrite Z.add_0_l, nthZ_nat, nth_tab by lia. reflexivity. }
    pose proof (f_equal (fun s => get s 0) (combine_apply_states S L _ _ _ sp n Hlin Hsp)) as Q. cbv beta in Q.
    assert (Hsp1 : shaped S (apply_lin (d_lin S o1) sp) n) by now apply lin_shaped.
    rewrite (get_lin S L _ _ n 0 Sc Hsp), (get_lin S L _ _ n 0 S2 Hsp1), (get_lin S L _ _ n 0 S1 Hsp) in Q.
    rewrite (gete_lin S _ _ 0 S1), G0, Ge0 in Q. exact Q. }
  rewrite Hc.
  (* the derivative part, case by case on which operand declares v *)
  assert (Hd : lact (fst (eff S oc v)) (snd (eff S oc v)) x e =
               tadd (lact (lmat (d_lin S o2)) mzero (lact (fst (eff S o1 v)) (snd (eff S o1 v)) x e) t0)
                    (lact (fst (eff S o2 v)) (snd (eff S o2 v))
                          (lact (lmat (d_lin S o1)) (lmat0 (d_lin S o1)) x e) e)).
  { pose proof (Hord v) as Ho. unfold entries_merged in Ho. pose proof (Hdar v) as Hk. unfold cd in Hk.
    destruct (N2 v) as [Z2|O2].
    - (* v not declared by op2 *)
      assert (Ho' : entries S oc v = entries S o1 v).
      { destruct (amem Nat.eqb v (d_order1 S o2)) eqn:Em; [|exact Ho].
        apply (K2 v) in Em. now rewrite Z2 in Em. }
      rewrite (eff_nil o2 v Z2). cbn [fst snd]. rewrite lact_zero.
      rewrite Z2 in Hk. cbn [fold_left fst snd] in Hk.
      destruct (N1 v) as [Z1|O1].
      + rewrite (eff_nil o1 v Z1), (eff_nil oc v) by now rewrite Ho'. cbn [fst snd].
        rewrite !lact_zero. lin_norm. tring.
      + rewrite (eff_one oc v) by now rewrite Ho'. rewrite (eff_one o1 v O1). rewrite Hk. cbn [fst snd].
        lin_norm. tring.
    - (* v declared by op2 *)
      assert (Em : amem Nat.eqb v (d_order1 S o2) = true) by (apply (K2 v); rewrite O2; discriminate).
      rewrite Em in Ho. rewrite (eff_one oc v) by now rewrite Ho. rewrite (eff_one o2 v O2).
      rewrite Hk, O2. cbn [fold_left fst snd].
      destruct (N1 v) as [Z1|O1].
      + rewrite (eff_nil o1 v Z1), (A1 v Z1). cbn [fst snd].
        rewrite product_rule, !lact_zero. reflexivity.
      + rewrite (eff_one o1 v O1). apply product_rule. }
  rewrite Hd.
  lin_norm. tring.
Qed.

(* ---- executable form of combined_ok over a finite set of keys (for the correspondence) ---- *)
Definition mp_eqb (a b : mp) : bool := meqb S (fst a) (fst b) && meqb S (snd a) (snd b).
Definition pc_eqb (a b : list (param * S)) : bool :=
  Nat.eqb (length a) (length b) &&
  forallb (fun ab => Nat.eqb (fst (fst ab)) (fst (snd ab)) && keqb (snd (fst ab)) (snd (snd ab))) (combine a b).
Definition combined_okb (o1 o2 oc : dop S) (keys : list nat) : bool :=
  match combine_lin (d_lin S o1) (d_lin S o2) with
  | Some lc => lin_eqb lc (d_lin S oc)
  | None => false
  end &&
  forallb (fun k => mp_eqb (dlook oc k) (cd o1 o2 k)) keys &&
  forallb (fun v => pc_eqb (entries S oc v) (entries_merged o1 o2 v)) keys.

End CombineD.
