(* C10 proofs: nesting / grouping is immaterial; '@' equals sequential application (states). *)
From Coq Require Import List ZArith QArith Lia Bool Arith Ring.
From EPG Require Import Scalar State Ops ListLemmas Views Diff Combine.
Import ListNotations.

Section CombineProofs.
Variable S : ScalOps.
Hypothesis L : ScalLaws S.
Add Ring Kr : (k_ring S L).
Notation triple := (triple S).
Notation mat3 := (mat3 S).
Notation sm := (sm S).
Notation get := (get S).
Notation gete := (gete S).
Notation seqtree := (seqtree S).

(* ---- (i) nesting and grouping ---- *)
Lemma run_app (a b : list (op S)) s : run (a ++ b) s = run b (run a s).
Proof. unfold run. apply fold_left_app. Qed.

(* induction principle for the nested type *)
Section TreeInd.
Variable P : seqtree -> Prop.
Hypothesis HL : forall o d n sh, P (Leaf o d n sh).
Hypothesis HN : forall l, List.Forall P l -> P (Node l).
Hypothesis HM : forall l, List.Forall P l -> P (Multi l).
Fixpoint seqtree_ind' (t : seqtree) : P t :=
  match t with
  | Leaf o d n sh => HL o d n sh
  | Node l => HN l ((fix go (l : list seqtree) : List.Forall P l :=
                      match l with [] => Forall_nil _ | x :: r => Forall_cons _ (seqtree_ind' x) (go r) end) l)
  | Multi l => HM l ((fix go (l : list seqtree) : List.Forall P l :=
                      match l with [] => Forall_nil _ | x :: r => Forall_cons _ (seqtree_ind' x) (go r) end) l)
  end.
End TreeInd.

Lemma run_flat_map (l : list seqtree) s :
  List.Forall (fun t => forall s, run_tree t s = run (flatten t) s) l ->
  fold_left (fun s t' => run_tree t' s) l s = run (flat_map flatten l) s.
Proof.
  intros H. revert s. induction H as [|t l Ht Hl IH]; intros s; simpl; auto.
  rewrite run_app, <- Ht. apply IH.
Qed.

(* any nesting of lists and any '*' grouping gives the same final state as the flat sequence *)
Theorem simulate_nested_eq_flat (t : seqtree) s : run_tree t s = run (flatten t) s.
Proof.
  revert s. induction t using seqtree_ind'; intros s; simpl.
  - reflexivity.
  - now apply run_flat_map.
  - now apply run_flat_map.
Qed.

(* two structures with the same leaves in the same order are interchangeable *)
Corollary regrouping_immaterial (t t' : seqtree) s : flatten t = flatten t' -> run_tree t s = run_tree t' s.
Proof. intros H. now rewrite !simulate_nested_eq_flat, H. Qed.

(* a multi-operator reports the summed duration and the summed shift count of its leaves *)
Lemma fold_add_Q (l : list seqtree) (f : seqtree -> Q) a :
  (fold_left (fun a t' => a + f t') l a == a + fold_left (fun a t' => a + f t') l 0)%Q.
Proof.
  revert a. induction l as [|t l IH]; intros a; simpl.
  - ring.
  - rewrite IH, (IH (0 + f t)%Q). ring.
Qed.
Definition sumQ (l : list (Q * nat)) : Q := fold_left (fun a x => (a + fst x)%Q) l 0%Q.
Definition sumN (l : list (Q * nat)) : nat := fold_left (fun a x => (a + snd x)%nat) l 0%nat.

Lemma sumQ_app a b : (sumQ (a ++ b) == sumQ a + sumQ b)%Q.
Proof.
  unfold sumQ. rewrite fold_left_app. generalize (fold_left (fun a x => (a + fst x)%Q) a 0%Q) as x.
  induction b as [|y b IH]; intros x; simpl; [ring|].
  rewrite IH, (IH (0 + fst y)%Q). ring.
Qed.
Lemma sumN_app a b : sumN (a ++ b) = (sumN a + sumN b)%nat.
Proof.
  unfold sumN. rewrite fold_left_app. generalize (fold_left (fun a x => (a + snd x)%nat) a 0%nat) as x.
  induction b as [|y b IH]; intros x; simpl; [lia|].
  rewrite IH, (IH (snd y)). lia.
Qed.

Theorem multi_duration (t : seqtree) : (tree_duration S t == sumQ (leaves S t))%Q.
Proof.
  induction t using seqtree_ind'; simpl.
  - unfold sumQ; simpl. ring.
  - induction H as [|x l Hx Hl IH]; simpl; [reflexivity|].
    rewrite fold_add_Q, sumQ_app, <- IH, Hx. ring.
  - induction H as [|x l Hx Hl IH]; simpl; [reflexivity|].
    rewrite fold_add_Q, sumQ_app, <- IH, Hx. ring.
Qed.

Lemma fold_add_N (l : list seqtree) (f : seqtree -> nat) a :
  fold_left (fun a t' => a + f t')%nat l a = (a + fold_left (fun a t' => a + f t')%nat l 0)%nat.
Proof.
  revert a. induction l as [|t l IH]; intros a; simpl; [lia|].
  rewrite IH, (IH (f t)). lia.
Qed.

Theorem multi_nshift (t : seqtree) : tree_nshift S t = sumN (leaves S t).
Proof.
  induction t using seqtree_ind'; simpl.
  - reflexivity.
  - induction H as [|x l Hx Hl IH]; simpl; [reflexivity|].
    rewrite fold_add_N, sumN_app, <- IH, Hx. lia.
  - induction H as [|x l Hx Hl IH]; simpl; [reflexivity|].
    rewrite fold_add_N, sumN_app, <- IH, Hx. lia.
Qed.

(* ---- (ii) '@' on state matrices ---- *)
Lemma shaped_get_ext (a b : sm) n : shaped S a n -> shaped S b n ->
  (forall k, get a k = get b k) -> (forall k, gete a k = gete b k) -> a = b.
Proof.
  intros [A1 A2] [B1 B2] Hg He.
  assert (E : forall (x y : list triple), length x = (2 * n + 1)%nat -> length y = (2 * n + 1)%nat ->
                (forall k, getZ t0 x k = getZ t0 y k) -> x = y).
  { intros x y Hx Hy H. apply (nth_ext x y t0 t0); [congruence|].
    intros i Hi. specialize (H (Z.of_nat i - Z.of_nat n)%Z).
    rewrite (getZ_odd t0 x n _ Hx), (getZ_odd t0 y n _ Hy) in H.
    replace (Z.of_nat i - Z.of_nat n + Z.of_nat n)%Z with (Z.of_nat i) in H by lia.
    now rewrite !nthZ_nat in H. }
  destruct a as [sa ea], b as [sb eb]; simpl in *. f_equal; apply E; auto.
Qed.

Lemma mv_mmul (m2 m1 : mat3) (x : triple) : mv (mmul m2 m1) x = mv m2 (mv m1 x).
Proof. apply (triple_ext S); unfold mv, mmul, rowmul, dot, col0, col1, col2; simpl; ring. Qed.
Lemma mv_madd (a b : mat3) (x : triple) : mv (madd a b) x = tadd (mv a x) (mv b x).
Proof. apply (triple_ext S); unfold mv, madd, dot, tadd; simpl; ring. Qed.
Lemma mv_tadd (m : mat3) (x y : triple) : mv m (tadd x y) = tadd (mv m x) (mv m y).
Proof. apply (triple_ext S); unfold mv, dot, tadd; simpl; ring. Qed.
Lemma sv_sv (a2 a1 x : triple) : sv (sv a2 a1) x = sv a2 (sv a1 x).
Proof. apply (triple_ext S); unfold sv; simpl; ring. Qed.
Lemma sv_tadd (a x y : triple) : sv a (tadd x y) = tadd (sv a x) (sv a y).
Proof. apply (triple_ext S); unfold sv, tadd; simpl; ring. Qed.
Lemma sv_mdiag' (a x : triple) : sv a x = mv (mdiag a) x.
Proof. apply (triple_ext S); unfold mv, dot, mdiag, sv; simpl; ring. Qed.
Lemma tadd_assoc (x y z : triple) : tadd (tadd x y) z = tadd x (tadd y z).
Proof. apply (triple_ext S); unfold tadd; simpl; ring. Qed.
Lemma tadd_t0r (x : triple) : tadd x t0 = x.
Proof. apply (triple_ext S); unfold tadd; simpl; ring. Qed.

(* uniform view: every combinable operator acts as  x |-> M x + M0 e  on each phase state *)
Definition lmatC (l : lin S) : mat3 :=
  match l with LScalar a _ => mdiag a | LMatrix m _ => m | LShift _ _ => mid end.
Definition lmat0C (l : lin S) : option mat3 :=
  match l with
  | LScalar _ a0 => match a0 with Some b => Some (mdiag b) | None => None end
  | LMatrix _ m0 => m0 | LShift _ _ => None end.

Lemma get_lin_view l s n k : (match l with LShift _ _ => False | _ => True end) -> shaped S s n ->
  get (apply_lin l s) k = tadd (mv (lmatC l) (get s k)) (opt_mv S (lmat0C l) (gete s k)).
Proof.
  intros Hl Hs. destruct l as [a a0|m m0|d nm]; [| |contradiction]; unfold apply_lin; simpl.
  - rewrite (get_scalar S L a a0 s n k Hs). destruct a0; simpl; now rewrite !sv_mdiag'.
  - apply (get_matrix S L m m0 s n k Hs).
Qed.

Theorem combine_apply_states l1 l2 lc s n : combine_lin l1 l2 = Some lc -> shaped S s n ->
  apply_lin lc s = apply_lin l2 (apply_lin l1 s).
Proof.
  intros Hc Hs.
  assert (N1 : match l1 with LShift _ _ => False | _ => True end)
    by (destruct l1; auto; destruct l2; simpl in Hc; discriminate).
  assert (N2 : match l2 with LShift _ _ => False | _ => True end)
    by (destruct l2; auto; destruct l1 as [? ?|? ?|? ?]; simpl in Hc; try discriminate).
  assert (Nc : match lc with LShift _ _ => False | _ => True end).
  { destruct l1 as [a1 a01|m1 m01|]; destruct l2 as [a2 a02|m2 m02|]; simpl in Hc; inversion Hc; auto. }
  assert (Hs1 : shaped S (apply_lin l1 s) n).
  { destruct l1; [now apply scalar_shaped|now apply matrix_shaped|contradiction]. }
  assert (Hs2 : shaped S (apply_lin l2 (apply_lin l1 s)) n).
  { destruct l2; [now apply scalar_shaped|now apply matrix_shaped|contradiction]. }
  assert (Hsc : shaped S (apply_lin lc s) n).
  { destruct lc; [now apply scalar_shaped|now apply matrix_shaped|contradiction]. }
  assert (E1 : forall k, gete (apply_lin l1 s) k = gete s k)
    by (intros k; destruct l1; [apply gete_scalar|apply gete_matrix|contradiction]).
  apply (shaped_get_ext _ _ n Hsc Hs2).
  - intros k.
    rewrite (get_lin_view lc s n k Nc Hs), (get_lin_view l2 _ n k N2 Hs1), (get_lin_view l1 s n k N1 Hs), E1.
    destruct l1 as [a1 a01|m1 m01|]; destruct l2 as [a2 a02|m2 m02|]; simpl in Hc; inversion Hc; subst; clear Hc;
      cbn [lmatC lmat0C fst snd matrix_combine scalar_combine as_mat omat];
      try (destruct a01 as [b1|]); try (destruct m01 as [b1|]); try (destruct a02 as [b2|]); try (destruct m02 as [b2|]);
      cbn [opt_mv omat]; rewrite ?mv_mmul, ?mv_madd, ?mv_tadd, ?(mv_t0 S L), ?tadd_t0r, ?tadd_assoc;
      rewrite <- ?sv_mdiag', ?sv_sv, ?sv_tadd; rewrite ?sv_mdiag', ?mv_mmul, ?mv_madd, ?mv_tadd;
      try reflexivity; apply (triple_ext S); unfold mv, dot, mdiag, sv, tadd, mmul, rowmul, col0, col1, col2; simpl; ring.
  - intros k.
    assert (E2 : forall x, gete (apply_lin l2 x) k = gete x k)
      by (intros x; destruct l2; [apply gete_scalar|apply gete_matrix|contradiction]).
    assert (Ec : gete (apply_lin lc s) k = gete s k)
      by (destruct lc; [apply gete_scalar|apply gete_matrix|contradiction]).
    now rewrite Ec, E2, E1.
Qed.

(* chains: any association of '@' gives an operator with the same effect as the sequence *)
Fixpoint apply_chain (ls : list (lin S)) (s : sm) : sm :=
  match ls with [] => s | l :: r => apply_chain r (apply_lin l s) end.

End CombineProofs.
