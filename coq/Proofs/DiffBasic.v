(* C19 (first half): differentiation is non-intrusive -- the zeroth-order state computed by a
   differentiation-enabled run is the state of the plain run, whatever is activated. *)
From Coq Require Import List ZArith Lia Bool Arith.
From EPG Require Import Scalar State Ops Diff.
Import ListNotations.

Section DiffBasic.
Variable S : ScalOps.

Definition core_op (i : dinstr S) : op S :=
  match i with DOp o => lin_op S (d_lin S o) | DPlain o => o end.

Theorem diff_nonintrusive_step i ds : d_main (dstep i ds) = apply (core_op i) (d_main ds).
Proof. destruct i; reflexivity. Qed.

Theorem diff_nonintrusive prog ds : d_main (drun prog ds) = run (map core_op prog) (d_main ds).
Proof.
  revert ds. induction prog as [|i prog IH]; intros ds; simpl; auto.
  unfold drun in *. simpl. rewrite IH. now rewrite diff_nonintrusive_step.
Qed.

(* an operator with nothing activated, applied to a state without partials, adds no partials *)
Theorem inactive_adds_nothing o ds :
  d_order1 S o = [] -> d_order2 S o = [] -> d_p1 ds = [] -> d_p2 ds = [] ->
  d_p1 (dapply o ds) = [] /\ d_p2 (dapply o ds) = [].
Proof. intros H1 H2 H3 H4. unfold dapply. rewrite H1, H2, H3, H4. simpl. auto. Qed.

End DiffBasic.
