(* C02 / C19 core (algebraic): for ANY derivation dv of the scalar ring (additive, Leibniz),
   if every operator's coefficient arrays have  dv(array) = sum_p c_{v,p} * darray_p  (the chain rule
   through the declared coefficients), then the first-order partial state carried for variable v by
   the bookkeeping of diff.py equals dv applied to the simulated state -- for every program. *)
From Coq Require Import List ZArith Lia Bool Arith Ring.
From EPG Require Import Scalar State Ops ListLemmas Views Diff DiffLemmas.
Import ListNotations.

Section DiffExact.
Variable S : ScalOps.
Hypothesis L : ScalLaws S.
Add Ring Kr : (k_ring S L).
Notation triple := (triple S).
Notation mat3 := (mat3 S).
Notation sm := (sm S).
Notation get := (get S).
Notation gete := (gete S).
Local Open Scope Z_scope.

Variable dv : S -> S.
Hypothesis dv_add : forall x y, dv (x + y)%K = (dv x + dv y)%K.
Hypothesis dv_mul : forall x y, dv (x * y)%K = (dv x * y + x * dv y)%K.

Lemma dv_0 : dv k0 = k0.
Proof.
  assert (H : dv k0 = (dv k0 + dv k0)%K) by (rewrite <- dv_add; f_equal; ring).
  transitivity ((dv k0 + dv k0) - dv k0)%K; [rewrite <- H; ring|ring].
Qed.

Definition dT (t : triple) : triple := mk3 (dv (fp t)) (dv (fm t)) (dv (fz t)).
Definition dM (m : mat3) : mat3 := mkM (dT (row0 m)) (dT (row1 m)) (dT (row2 m)).

Lemma dT_t0 : dT t0 = t0.
Proof. unfold dT, t0; simpl. now rewrite dv_0. Qed.

Lemma dT_tadd x y : dT (tadd x y) = tadd (dT x) (dT y).
Proof. unfold dT, tadd; simpl. now rewrite !dv_add. Qed.

Lemma dT_mv m x : dT (mv m x) = tadd (mv (dM m) x) (mv m (dT x)).
Proof.
  unfold dT, mv, dot, tadd, dM; simpl. rewrite !dv_add, !dv_mul.
  apply (triple_ext S); simpl; ring.
Qed.

(* ---- uniform matrix view of ScalarOp / MatrixOp arrays ---- *)
Definition mzero : mat3 := mkM t0 t0 t0.
Definition lmat (l : lin S) : mat3 :=
  match l with LScalar a _ => mdiag a | LMatrix m _ => m | LShift _ _ => mid end.
Definition lmat0 (l : lin S) : mat3 :=
  match l with
  | LScalar _ (Some b) => mdiag b
  | LMatrix _ (Some b) => b
  | _ => mzero
  end.
Definition is_shift (l : lin S) : bool := match l with LShift _ _ => true | _ => false end.
Definition lact (m m0 : mat3) (x e : triple) : triple := tadd (mv m x) (mv m0 e).

Lemma sv_mdiag a x : sv a x = mv (mdiag a) x.
Proof. apply (triple_ext S); unfold mv, dot, mdiag; simpl; ring. Qed.
Lemma mv_mzero x : mv mzero x = t0.
Proof. apply (triple_ext S); unfold mv, dot, mzero; simpl; ring. Qed.

Lemma get_lin l s n k : is_shift l = false -> shaped S s n ->
  get (apply_lin l s) k = lact (lmat l) (lmat0 l) (get s k) (gete s k).
Proof.
  intros Hl Hs. destruct l as [a a0|m m0|d nm]; try discriminate; unfold apply_lin, lact; simpl.
  - rewrite (get_scalar S L a a0 s n k Hs). destruct a0; simpl; now rewrite ?sv_mdiag, ?mv_mzero.
  - rewrite (get_matrix S L m m0 s n k Hs). destruct m0; simpl; now rewrite ?mv_mzero.
Qed.
Lemma gete_lin l s k : is_shift l = false -> gete (apply_lin l s) k = gete s k.
Proof.
  intros Hl. destruct l as [a a0|m m0|d nm]; try discriminate; unfold apply_lin; simpl.
  - apply gete_scalar. - apply gete_matrix.
Qed.
Lemma lin_shaped l s n : is_shift l = false -> shaped S s n -> shaped S (apply_lin l s) n.
Proof.
  intros Hl Hs. destruct l as [a a0|m m0|d nm]; try discriminate; unfold apply_lin; simpl.
  - now apply scalar_shaped. - now apply matrix_shaped.
Qed.

(* ---- helpers on state matrices used by the bookkeeping ---- *)
Lemma zero_equ_shaped s n : shaped S s n -> shaped S (zero_equ s) n.
Proof. intros [H1 H2]. split; simpl; auto. now rewrite map_length. Qed.
Lemma get_zero_equ s k : get (zero_equ s) k = get s k.
Proof. reflexivity. Qed.
Lemma gete_zero_equ s k : gete (zero_equ s) k = t0.
Proof.
  unfold Views.gete, zero_equ, getZ; simpl. rewrite map_length.
  now rewrite (nthZ_map (fun _ : triple => @t0 S) t0 t0).
Qed.

Lemma scale_shaped c s n : shaped S s n -> shaped S (sm_scale c s) n.
Proof. intros [H1 H2]. split; simpl; auto. now rewrite map_length. Qed.
Lemma get_scale c s k : get (sm_scale c s) k = tscale c (get s k).
Proof.
  unfold Views.get, sm_scale, getZ; simpl. rewrite map_length.
  apply nthZ_map. apply (triple_ext S); simpl; ring.
Qed.
Lemma gete_scale c s k : gete (sm_scale c s) k = gete s k.
Proof. reflexivity. Qed.

Lemma add_shaped a b n : shaped S a n -> shaped S b n -> shaped S (sm_add a b) n.
Proof.
  intros [A1 A2] [B1 B2]. unfold sm_add. destruct (st b) as [|x [|y t]]; split; simpl; auto;
  rewrite ?map_length, ?length_tab; auto.
Qed.
Lemma get_add a b n k : shaped S a n -> shaped S b n ->
  get (sm_add a b) k = tadd (get a k) (get b k).
Proof.
  intros [A1 A2] [B1 B2]. unfold sm_add.
  destruct (st b) as [|x [|y t]] eqn:Eb.
  - simpl in B1. lia.
  - (* broadcast branch: one state, so n = 0 *)
    assert (n = 0)%nat by (simpl in B1; lia). subst n.
    unfold Views.get at 1. simpl. unfold getZ. rewrite map_length.
    rewrite (nthZ_map (fun y => tadd y x) t0 (tadd t0 x)) by reflexivity.
    unfold Views.get. rewrite Eb. unfold getZ. rewrite A1. simpl.
    destruct (st a) as [|y0 [|? ?]] eqn:Ea; simpl in A1; try lia.
    unfold nthZ; simpl.
    destruct ((0 <=? k + 0) && (k + 0 <? 1)) eqn:E; simpl; auto.
    destruct (Z.to_nat (k + 0)) as [|m]; simpl; auto. destruct m; reflexivity.
  - unfold Views.get at 1. simpl.
    rewrite <- Eb.
    pose proof (getZ_tab_pointwise S (mkSM (st a) (st b)) n (fun u w => tadd u w) k) as P.
    simpl in P. rewrite P; auto.
    + split; simpl; auto.
    + apply (triple_ext S); simpl; ring.
Qed.
Lemma gete_add a b k : gete (sm_add a b) k = gete a k.
Proof. unfold sm_add. destruct (st b) as [|x [|y t]]; reflexivity. Qed.

End DiffExact.
