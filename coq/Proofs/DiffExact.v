(* C02 / C19 core (algebraic): for ANY derivation dv of the scalar ring (additive, Leibniz),
   if every operator's coefficient arrays have  dv(array) = sum_p c_{v,p} * darray_p  (the chain rule
   through the declared coefficients), then the first-order partial state carried for variable v by
   the bookkeeping of diff.py equals dv applied to the simulated state -- for every program. *)
From Coq Require Import List ZArith Lia Bool Arith Ring.
From EPG Require Import Scalar State Ops ListLemmas Views Diff DiffLemmas.
Import ListNotations.

Section DiffExact.
Variable S : ScalOps.
Hypothesis L : ScalLaws S.
Add Ring Kr : (k_ring S L).
Notation triple := (triple S).
Notation mat3 := (mat3 S).
Notation sm := (sm S).
Notation get := (get S).
Notation gete := (gete S).
Local Open Scope Z_scope.

Variable dv : S -> S.
Hypothesis dv_add : forall x y, dv (x + y)%K = (dv x + dv y)%K.
Hypothesis dv_mul : forall x y, dv (x * y)%K = (dv x * y + x * dv y)%K.

Lemma dv_0 : dv k0 = k0.
Proof.
  assert (H : dv k0 = (dv k0 + dv k0)%K) by (rewrite <- dv_add; f_equal; ring).
  transitivity ((dv k0 + dv k0) - dv k0)%K; [ring|rewrite <- H; ring].
Qed.

Definition dT (t : triple) : triple := mk3 (dv (fp t)) (dv (fm t)) (dv (fz t)).
Definition dM (m : mat3) : mat3 := mkM (dT (row0 m)) (dT (row1 m)) (dT (row2 m)).

Lemma dT_t0 : dT t0 = t0.
Proof. unfold dT, t0; simpl. now rewrite dv_0. Qed.

Lemma dT_tadd x y : dT (tadd x y) = tadd (dT x) (dT y).
Proof. unfold dT, tadd; simpl. now rewrite !dv_add. Qed.

Lemma dT_mv m x : dT (mv m x) = tadd (mv (dM m) x) (mv m (dT x)).
Proof.
  unfold dT, mv, dot, tadd, dM; simpl. rewrite !dv_add, !dv_mul.
  apply (triple_ext S); simpl; ring.
Qed.

(* ---- uniform matrix view of ScalarOp / MatrixOp arrays ---- *)
Definition mzero : mat3 := mkM t0 t0 t0.
Definition lmat (l : lin S) : mat3 :=
  match l with LScalar a _ => mdiag a | LMatrix m _ => m | LShift _ _ => mid end.
Definition lmat0 (l : lin S) : mat3 :=
  match l with
  | LScalar _ (Some b) => mdiag b
  | LMatrix _ (Some b) => b
  | _ => mzero
  end.
Definition is_shift (l : lin S) : bool := match l with LShift _ _ => true | _ => false end.
Definition lact (m m0 : mat3) (x e : triple) : triple := tadd (mv m x) (mv m0 e).
Arguments lact : simpl never.

Lemma sv_mdiag (a x : triple) : sv a x = mv (mdiag a) x.
Proof. apply (triple_ext S); unfold mv, dot, mdiag; simpl; ring. Qed.
Lemma mv_mzero (x : triple) : mv mzero x = t0.
Proof. apply (triple_ext S); unfold mv, dot, mzero; simpl; ring. Qed.

Lemma get_lin l s n k : is_shift l = false -> shaped S s n ->
  get (apply_lin l s) k = lact (lmat l) (lmat0 l) (get s k) (gete s k).
Proof.
  intros Hl Hs. destruct l as [a a0|m m0|d nm]; try discriminate; unfold apply_lin, lact; simpl.
  - rewrite (get_scalar S L a a0 s n k Hs). destruct a0; simpl; now rewrite ?sv_mdiag, ?mv_mzero.
  - rewrite (get_matrix S L m m0 s n k Hs). destruct m0; simpl; now rewrite ?mv_mzero.
Qed.
Lemma gete_lin l s k : is_shift l = false -> gete (apply_lin l s) k = gete s k.
Proof.
  intros Hl. destruct l as [a a0|m m0|d nm]; try discriminate; unfold apply_lin; simpl.
  - apply gete_scalar. - apply gete_matrix.
Qed.
Lemma lin_shaped l s n : is_shift l = false -> shaped S s n -> shaped S (apply_lin l s) n.
Proof.
  intros Hl Hs. destruct l as [a a0|m m0|d nm]; try discriminate; unfold apply_lin; simpl.
  - now apply scalar_shaped. - now apply matrix_shaped.
Qed.

(* ---- helpers on state matrices used by the bookkeeping ---- *)
Lemma zero_equ_shaped s n : shaped S s n -> shaped S (zero_equ s) n.
Proof. intros [H1 H2]. split; simpl; auto. now rewrite map_length. Qed.
Lemma get_zero_equ s k : get (zero_equ s) k = get s k.
Proof. reflexivity. Qed.
Lemma gete_zero_equ s k : gete (zero_equ s) k = t0.
Proof.
  unfold Views.gete, zero_equ, getZ; simpl. rewrite map_length.
  now rewrite (nthZ_map (fun _ : triple => @t0 S) t0 t0).
Qed.

Lemma scale_shaped c s n : shaped S s n -> shaped S (sm_scale c s) n.
Proof. intros [H1 H2]. split; simpl; auto. now rewrite map_length. Qed.
Lemma get_scale c s k : get (sm_scale c s) k = tscale c (get s k).
Proof.
  unfold Views.get, sm_scale, getZ; simpl. rewrite map_length.
  apply nthZ_map. apply (triple_ext S); simpl; ring.
Qed.
Lemma gete_scale c s k : gete (sm_scale c s) k = gete s k.
Proof. reflexivity. Qed.

Lemma add_shaped a b n : shaped S a n -> shaped S b n -> shaped S (sm_add a b) n.
Proof.
  intros [A1 A2] [B1 B2]. unfold sm_add. destruct (st b) as [|x [|y t]]; split; simpl; auto;
  rewrite ?map_length, ?length_tab; auto.
Qed.
Lemma get_add a b n k : shaped S a n -> shaped S b n ->
  get (sm_add a b) k = tadd (get a k) (get b k).
Proof.
  intros [A1 A2] [B1 B2]. unfold sm_add.
  destruct (st b) as [|x [|y t]] eqn:Eb.
  - simpl in B1. lia.
  - (* broadcast branch: one state, so n = 0 *)
    assert (n = 0)%nat by (simpl in B1; lia). subst n.
    destruct (st a) as [|y0 [|? ?]] eqn:Ea; simpl in A1; try lia.
    unfold Views.get. cbn [st]. rewrite Ea, Eb. cbn [map].
    rewrite !getZ_single. destruct (k =? 0); auto.
    apply (triple_ext S); simpl; ring.
  - unfold Views.get at 1. cbn [st].
    pose proof (getZ_tab_pointwise S (mkSM (st a) (st b)) n (fun u w => tadd u w) k) as P.
    cbn [st equ] in P. rewrite Eb in P. rewrite P.
    + unfold Views.get, Views.gete. cbn [st equ]. rewrite Eb. reflexivity.
    + split; cbn [st equ]; auto.
    + apply (triple_ext S); simpl; ring.
Qed.
Lemma gete_add a b k : gete (sm_add a b) k = gete a k.
Proof. unfold sm_add. destruct (st b) as [|x [|y t]]; reflexivity. Qed.


(* ================= what a lookup in the new order1 dictionary returns ================= *)
Lemma nat_eqb_spec x y : reflect (x = y) (Nat.eqb x y).
Proof. apply Nat.eqb_spec. Qed.

Definition entries (o : dop S) (v : var) : list (param * S) :=
  flat_map (fun vp => if Nat.eqb v (fst vp) then snd vp else []) (d_order1 S o).

(* the first-order terms contributed by operator o for variable v *)
Definition terms (o : dop S) (s : sm) (v : var) : list sm :=
  flat_map (fun pc => match derive1 S o s (fst pc) with
                      | Some x => [sm_scale (snd pc) x] | None => [] end) (entries o v).

Lemma In_dedup {A} (eqb : A -> A -> bool) (Hs : forall x y, reflect (x = y) (eqb x y)) x l :
  In x (dedup eqb l) <-> In x l.
Proof.
  induction l as [|y l IH]; simpl; [tauto|].
  destruct (existsb (eqb y) l) eqn:E.
  - rewrite IH. split; auto. intros [->|H]; auto.
    apply existsb_exists in E. destruct E as [z [Hz Hyz]].
    destruct (Hs x z); [subst; auto|discriminate].
  - simpl. now rewrite IH.
Qed.

Lemma alookup_filter_some {B} (f : nat -> option B) l p :
  alookup Nat.eqb p (filter_some (map (fun q => (q, f q)) l)) = if existsb (Nat.eqb p) l then f p else None.
Proof.
  induction l as [|q l IH]; simpl; auto.
  unfold filter_some in *. simpl.
  destruct (f q) as [b|] eqn:Fq; simpl.
  - destruct (Nat.eqb_spec p q) as [->|Hne]; simpl; auto.
  - destruct (Nat.eqb_spec p q) as [->|Hne]; simpl; auto.
    rewrite IH. now destruct (existsb (Nat.eqb q) l).
Qed.

Lemma existsb_In p l : existsb (Nat.eqb p) l = true <-> In p l.
Proof.
  rewrite existsb_exists. split.
  - intros [x [Hx E]]. apply Nat.eqb_eq in E. now subst.
  - intros H. exists p. split; auto. apply Nat.eqb_refl.
Qed.

Lemma entries_params o v p c : In (p, c) (entries o v) -> In p (parameters_order1 S o).
Proof.
  unfold entries, parameters_order1. intros H.
  apply (In_dedup Nat.eqb nat_eqb_spec).
  apply in_flat_map in H. destruct H as [[v' ps] [Hin Hp]]. simpl in Hp.
  destruct (Nat.eqb v v'); [|contradiction].
  apply in_flat_map. exists (v', ps). split; auto. simpl.
  apply in_map_iff. exists (p, c). auto.
Qed.

Lemma pick_inner (partials : list (nat * sm)) (f : nat -> option sm) v v' ps :
  (forall p c, In (p, c) ps -> v = v' -> alookup Nat.eqb p partials = f p) ->
  pick S Nat.eqb v (flat_map (fun pc : nat * S =>
       match alookup Nat.eqb (fst pc) partials with
       | Some x => [(v', sm_scale (snd pc) x)] | None => [] end) ps)
  = flat_map (fun pc : nat * S => match f (fst pc) with Some x => [sm_scale (snd pc) x] | None => [] end)
             (if Nat.eqb v v' then ps else []).
Proof.
  intros H. unfold pick.
  induction ps as [|[p c] ps IH]; cbn [flat_map].
  - now destruct (Nat.eqb v v').
  - rewrite flat_map_app. rewrite IH by (intros p0 c0 Hin Hv; apply (H p0 c0); [now right|exact Hv]).
    destruct (Nat.eqb_spec v v') as [->|Hne]; cbn [flat_map].
    + cbn [fst snd]. rewrite (H p c) by (auto; now left).
      destruct (f p); cbn [flat_map fst snd app]; [now rewrite Nat.eqb_refl|reflexivity].
    + cbn [fst snd]. destruct (alookup Nat.eqb p partials); cbn [flat_map fst snd app]; auto.
      destruct (Nat.eqb_spec v v'); [congruence|reflexivity].
Qed.

Lemma pick_flat_terms_gen (partials : list (nat * sm)) (f : nat -> option sm) vs v :
  (forall v' ps p c, In (v', ps) vs -> v = v' -> In (p, c) ps -> alookup Nat.eqb p partials = f p) ->
  pick S Nat.eqb v (flat_terms S Nat.eqb vs partials) =
  flat_map (fun pc : nat * S => match f (fst pc) with Some x => [sm_scale (snd pc) x] | None => [] end)
           (flat_map (fun vp : nat * list (nat * S) => if Nat.eqb v (fst vp) then snd vp else []) vs).
Proof.
  intros H. unfold flat_terms.
  induction vs as [|[v' ps] vs IH]; cbn [flat_map]; auto.
  unfold pick in *. rewrite !flat_map_app.
  rewrite IH by (intros v0 ps0 p0 c0 Hin Hv Hp; apply (H v0 ps0 p0 c0); [now right|exact Hv|exact Hp]).
  f_equal. cbn [fst snd].
  apply (pick_inner partials f v v' ps). intros p c Hin Hv. eapply (H v' ps p c); auto. now left.
Qed.

Lemma pick_flat_terms o s v :
  pick S Nat.eqb v (flat_terms S Nat.eqb (d_order1 S o)
     (filter_some (map (fun p => (p, derive1 S o s p)) (parameters_order1 S o)))) = terms o s v.
Proof.
  unfold terms, entries.
  apply (pick_flat_terms_gen _ (derive1 S o s)).
  intros v' ps p c Hin Hv Hp. subst v'.
  rewrite alookup_filter_some.
  assert (E : existsb (Nat.eqb p) (parameters_order1 S o) = true).
  { apply existsb_In. apply (entries_params o v p c). unfold entries.
    apply in_flat_map. exists (v, ps). split; auto. simpl. now rewrite Nat.eqb_refl. }
  now rewrite E.
Qed.

(* keys of a dictionary built by acc1 stay unique *)
Lemma keys_aupsert_present {V} k (v : V) f d :
  amem Nat.eqb k d = true -> map fst (aupsert Nat.eqb k v f d) = map fst d.
Proof.
  unfold amem. induction d as [|[k' v'] d IH]; simpl; [discriminate|].
  destruct (Nat.eqb_spec k k') as [->|Hne]; simpl; auto.
  intros H. now rewrite IH.
Qed.

Lemma alookup_None_notin {V} k (d : list (nat * V)) : alookup Nat.eqb k d = None -> ~ In k (map fst d).
Proof.
  induction d as [|[k' v'] d IH]; simpl; auto.
  destruct (Nat.eqb_spec k k') as [->|Hne]; [discriminate|].
  intros H [E|Hin]; [congruence|now apply IH].
Qed.

Lemma acc1_nodup k v d ok : NoDup (map fst d) -> NoDup (map fst (fst (acc1 S Nat.eqb k v (d, ok)))).
Proof.
  intros H. unfold acc1. destruct (alookup Nat.eqb k d) eqn:E; simpl.
  - rewrite keys_aupsert_present; auto. unfold amem. now rewrite E.
  - rewrite map_app. simpl. apply alookup_None_notin in E.
    clear -H E. induction (map fst d) as [|x l IH]; simpl.
    + constructor; [intros []|constructor].
    + inversion H; subst. constructor.
      * intros Hin. apply in_app_or in Hin. destruct Hin as [Hin|[->|[]]]; [auto|]. apply E. now left.
      * apply IH; auto. intros Hin. apply E. now right.
Qed.

Lemma fold_acc1_nodup l d ok : NoDup (map fst d) ->
  NoDup (map fst (fst (fold_left (fun a kv => acc1 S Nat.eqb (fst kv) (snd kv) a) l (d, ok)))).
Proof.
  revert d ok. induction l as [|[k v] l IH]; intros d ok H; auto.
  cbn [fold_left fst snd].
  pose proof (acc1_nodup k v d ok H) as H'.
  destruct (acc1 S Nat.eqb k v (d, ok)) as [d' ok']. now apply IH.
Qed.

Lemma pick_unique k (d : list (nat * sm)) : NoDup (map fst d) ->
  pick S Nat.eqb k d = match alookup Nat.eqb k d with Some x => [x] | None => [] end.
Proof.
  unfold pick. induction d as [|[k' v] d IH]; intros H; simpl; auto.
  inversion H as [|? ? Hnin Hnd]; subst.
  destruct (Nat.eqb_spec k k') as [->|Hne]; simpl.
  - rewrite IH by auto.
    destruct (alookup Nat.eqb k' d) eqn:E; auto.
    exfalso. apply Hnin. clear -E. induction d as [|[k2 v2] d IH]; simpl in *; [discriminate|].
    destruct (Nat.eqb_spec k' k2); [now left|right; auto].
  - now apply IH.
Qed.

Definition omap {A B} (f : A -> B) (o : option A) : option B :=
  match o with Some x => Some (f x) | None => None end.

Lemma alookup_map_values {V W} (f : V -> W) k (d : list (nat * V)) :
  alookup Nat.eqb k (map (fun kv => (fst kv, f (snd kv))) d) = omap f (alookup Nat.eqb k d).
Proof. induction d as [|[k' v] d IH]; simpl; auto. destruct (Nat.eqb k k'); auto. Qed.

Theorem lookup_order1 o s old v :
  alookup Nat.eqb v (fst (apply_order1 o s old)) =
  oadd S (omap (derive0 S o) (alookup Nat.eqb v old)) (osum S (terms o s v) None).
Proof.
  unfold apply_order1, accumulate. cbn [fold_left fst snd].
  rewrite (alookup_fold_acc1 S Nat.eqb nat_eqb_spec). cbn [fst].
  rewrite alookup_map_values.
  rewrite combine_partials_flat.
  rewrite pick_unique by (apply fold_acc1_nodup; constructor).
  rewrite (alookup_fold_acc1 S Nat.eqb nat_eqb_spec). cbn [fst alookup].
  rewrite pick_flat_terms.
  destruct (osum S (terms o s v) None); destruct (omap (derive0 S o) (alookup Nat.eqb v old)); reflexivity.
Qed.

(* ================= semantic values ================= *)
Definition pshaped (n : nat) (s : sm) : Prop := shaped S s n /\ forall k, gete s k = t0.
Definition oget (o : option sm) (k : Z) : triple := match o with Some s => get s k | None => t0 end.
Definition opshaped (n : nat) (o : option sm) : Prop := match o with Some s => pshaped n s | None => True end.

Lemma tadd_t0_l (x : triple) : tadd t0 x = x.
Proof. apply (triple_ext S); simpl; ring. Qed.

Lemma oadd_sem a b n k : opshaped n a -> opshaped n b ->
  oget (oadd S a b) k = tadd (oget a k) (oget b k) /\ opshaped n (oadd S a b).
Proof.
  destruct a as [x|], b as [y|]; simpl; intros Ha Hb.
  - destruct Ha as [Ha Ea], Hb as [Hb Eb]. split.
    + apply (get_add x y n k Ha Hb).
    + split; [now apply add_shaped|]. intros j. rewrite gete_add. apply Ea.
  - split; auto. now rewrite (tadd_t0_r S L).
  - split; auto. now rewrite tadd_t0_l.
  - split; auto. now rewrite tadd_t0_l.
Qed.

Lemma osum_sem l init n k : opshaped n init -> List.Forall (pshaped n) l ->
  oget (osum S l init) k = fold_left (fun acc x => tadd acc (get x k)) l (oget init k)
  /\ opshaped n (osum S l init).
Proof.
  revert init. induction l as [|x l IH]; intros init Hi Hl; simpl; auto.
  inversion Hl as [|? ? Hx Hl']; subst.
  destruct (oadd_sem init (Some x) n k Hi Hx) as [E1 E2].
  destruct (IH (oadd S init (Some x)) E2 Hl') as [E3 E4].
  split; auto. unfold osum in *. simpl. rewrite E3, E1. reflexivity.
Qed.

(* effective derivative matrices of operator o with respect to variable v *)
Definition eff_step (o : dop S) (acc : mat3 * mat3) (pc : param * S) : mat3 * mat3 :=
  match alookup Nat.eqb (fst pc) (d_darrs S o) with
  | Some l => (madd (fst acc) (mscale (snd pc) (lmat l)), madd (snd acc) (mscale (snd pc) (lmat0 l)))
  | None => acc
  end.
Definition eff (o : dop S) (v : var) : mat3 * mat3 :=
  fold_left (eff_step o) (entries o v) (mzero, mzero).

Definition darrs_ok (o : dop S) : Prop :=
  forall p l, alookup Nat.eqb p (d_darrs S o) = Some l -> is_shift l = false.

Lemma lact_madd M M0 c N N0 (x e : triple) :
  tadd (lact M M0 x e) (tscale c (lact N N0 x e)) =
  lact (madd M (mscale c N)) (madd M0 (mscale c N0)) x e.
Proof.
  unfold lact, mv, dot, madd, mscale, tadd, tscale; simpl.
  apply (triple_ext S); simpl; ring.
Qed.

Lemma terms_sem o s v n k : darrs_ok o -> shaped S s n ->
  List.Forall (pshaped n) (terms o s v) /\
  forall init, fold_left (fun acc x => tadd acc (get x k)) (terms o s v) init =
    tadd init (lact (fst (eff o v)) (snd (eff o v)) (get s k) (gete s k)).
Proof.
  intros Hd Hs. unfold terms, eff.
  assert (G : forall es M M0,
     List.Forall (pshaped n) (flat_map (fun pc => match derive1 S o s (fst pc) with
                      | Some x => [sm_scale (snd pc) x] | None => [] end) es) /\
     forall init, fold_left (fun acc x => tadd acc (get x k))
        (flat_map (fun pc => match derive1 S o s (fst pc) with
                      | Some x => [sm_scale (snd pc) x] | None => [] end) es)
        (tadd init (lact M M0 (get s k) (gete s k))) =
      tadd init (lact (fst (fold_left (eff_step o) es (M, M0))) (snd (fold_left (eff_step o) es (M, M0)))
                      (get s k) (gete s k))).
  { induction es as [|[p c] es IH]; intros M M0; cbn [flat_map fold_left].
    - split; [constructor|reflexivity].
    - unfold derive1, eff_step at 2 4. cbn [fst snd].
      destruct (alookup Nat.eqb p (d_darrs S o)) as [l|] eqn:El.
      + pose proof (Hd p l El) as Hl.
        destruct (IH (madd M (mscale c (lmat l))) (madd M0 (mscale c (lmat0 l)))) as [F1 F2].
        split.
        * cbn [app]. constructor; auto. split.
          -- apply scale_shaped, zero_equ_shaped, lin_shaped; auto.
          -- intros j. rewrite gete_scale. apply gete_zero_equ.
        * intros init. cbn [app fold_left].
          rewrite get_scale, get_zero_equ, (get_lin l s n k Hl Hs).
          rewrite <- F2. f_equal.
          rewrite <- lact_madd. apply (triple_ext S); simpl; ring.
      + apply IH. }
  destruct (G (entries o v) mzero mzero) as [G1 G2]. split; auto.
  intros init. rewrite <- G2. f_equal.
  unfold lact. rewrite !mv_mzero. apply (triple_ext S); simpl; ring.
Qed.

(* ================= exactness of the carried first-order partial ================= *)
Lemma dT_lact M M0 (x e : triple) :
  dT (lact M M0 x e) = tadd (lact (dM M) (dM M0) x e) (lact M M0 (dT x) (dT e)).
Proof.
  unfold lact. rewrite dT_tadd, !dT_mv.
  apply (triple_ext S); simpl; ring.
Qed.

(* chain rule hypothesis: dv of the operator arrays is the declared combination of derivative arrays *)
Definition coef_ok (o : dop S) (v : var) : Prop :=
  forall x e : triple,
    lact (dM (lmat (d_lin S o))) (dM (lmat0 (d_lin S o))) x e =
    lact (fst (eff o v)) (snd (eff o v)) x e.

Definition instr_ok (v : var) (i : dinstr S) : Prop :=
  match i with
  | DOp o => darrs_ok o /\
             (if is_shift (d_lin S o) then d_order1 S o = [] else coef_ok o v)
  | DPlain OWait | DPlain OSpoil | DPlain OReset => True
  | DPlain (OPD p _) => dv p = k0          (* the density is a constant *)
  | DPlain _ => False                      (* ScalarOp / MatrixOp / S are differentiable operators: DOp *)
  end.

Definition inv (v : var) (n : nat) (ds : dstate S) : Prop :=
  shaped S (d_main ds) n /\
  (forall k, dT (gete (d_main ds) k) = t0) /\
  opshaped n (alookup Nat.eqb v (d_p1 ds)) /\
  (forall k, oget (alookup Nat.eqb v (d_p1 ds)) k = dT (get (d_main ds) k)).

Lemma lact_t0 M M0 : lact M M0 t0 t0 = @t0 S.
Proof. unfold lact. rewrite !(mv_t0 S L). apply (tadd_t0 S L). Qed.

Lemma step_nonshift v n o ds : is_shift (d_lin S o) = false -> darrs_ok o -> coef_ok o v ->
  inv v n ds -> inv v n (dapply o ds).
Proof.
  intros Hl Hd Hc (Hs & He & Hp & Hv).
  assert (Hnew : alookup Nat.eqb v (d_p1 (dapply o ds)) =
     oadd S (omap (derive0 S o) (alookup Nat.eqb v (d_p1 ds))) (osum S (terms o (d_main ds) v) None)).
  { unfold dapply. cbn [d_p1].
    destruct (nonempty (d_p1 ds) || nonempty (d_order1 S o)) eqn:E.
    - apply lookup_order1.
    - apply orb_false_elim in E. destruct E as [E1 E2].
      destruct (d_p1 ds); [|discriminate]. cbn [fst alookup omap].
      unfold terms, entries. destruct (d_order1 S o); [|discriminate]. reflexivity. }
  destruct (terms_sem o (d_main ds) v n 0 Hd Hs) as [Tsh _].
  assert (Hprev : opshaped n (omap (derive0 S o) (alookup Nat.eqb v (d_p1 ds)))).
  { destruct (alookup Nat.eqb v (d_p1 ds)) as [p|]; simpl; auto. destruct Hp as [Hp1 Hp2]. split.
    - now apply lin_shaped.
    - intros k. unfold derive0. rewrite gete_lin by auto. apply Hp2. }
  split; [|split; [|split]].
  - unfold dapply; cbn [d_main]. now apply lin_shaped.
  - intros k. unfold dapply; cbn [d_main]. rewrite gete_lin by auto. apply He.
  - rewrite Hnew.
    destruct (osum_sem (terms o (d_main ds) v) None n 0 I Tsh) as [_ Osh].
    apply (oadd_sem _ _ n 0 Hprev Osh).
  - intros k. rewrite Hnew.
    destruct (terms_sem o (d_main ds) v n k Hd Hs) as [_ Tsem].
    destruct (osum_sem (terms o (d_main ds) v) None n k I Tsh) as [Osem Osh].
    destruct (oadd_sem _ _ n k Hprev Osh) as [E _]. rewrite E, Osem, Tsem. cbn [oget].
    unfold dapply; cbn [d_main]. rewrite (get_lin _ _ n k Hl Hs), dT_lact, He, Hc.
    specialize (Hv k).
    destruct (alookup Nat.eqb v (d_p1 ds)) as [p|]; cbn [omap oget] in *.
    + destruct Hp as [Hp1 Hp2]. unfold derive0. rewrite (get_lin _ _ n k Hl Hp1), Hp2, Hv.
      unfold lact. rewrite !(mv_t0 S L). apply (triple_ext S); simpl; ring.
    + rewrite <- Hv. rewrite lact_t0. apply (triple_ext S); simpl; ring.
Qed.

Lemma get_resize_dT s p n n' : shaped S s n -> shaped S p n ->
  (forall k, get p k = dT (get s k)) -> forall k, get (resize p n') k = dT (get (resize s n') k).
Proof.
  intros Hs Hp H k. rewrite (get_resize S p n n' k Hp), (get_resize S s n n' k Hs).
  destruct (inwin n' k); [apply H|now rewrite dT_t0].
Qed.

Lemma step_shift v n o ds d nm : d_lin S o = LShift d nm -> d_order1 S o = [] ->
  inv v n ds -> inv v (shift_n d nm n) (dapply o ds).
Proof.
  intros Hl Ho (Hs & He & Hp & Hv).
  assert (Hnew : alookup Nat.eqb v (d_p1 (dapply o ds)) = omap (derive0 S o) (alookup Nat.eqb v (d_p1 ds))).
  { unfold dapply. cbn [d_p1]. rewrite Ho.
    destruct (nonempty (d_p1 ds) || nonempty []) eqn:E.
    - rewrite lookup_order1. unfold terms, entries. rewrite Ho. cbn [flat_map osum fold_left].
      now destruct (omap (derive0 S o) (alookup Nat.eqb v (d_p1 ds))).
    - apply orb_false_elim in E. destruct E as [E1 _].
      destruct (d_p1 ds); [reflexivity|discriminate]. }
  unfold inv. rewrite Hnew. unfold dapply; cbn [d_main]. unfold derive0, apply_lin. rewrite Hl. cbn [lin_op apply].
  split; [|split; [|split]].
  - now apply shift_shaped.
  - intros k. rewrite (gete_shift S d nm _ n k Hs), (gete_resize S _ n _ k Hs).
    destruct (inwin (shift_n d nm n) k); [apply He|apply dT_t0].
  - destruct (alookup Nat.eqb v (d_p1 ds)) as [p|]; cbn [omap opshaped]; auto.
    destruct Hp as [Hp1 Hp2]. split; [now apply shift_shaped|].
    intros k. rewrite (gete_shift S d nm _ n k Hp1), (gete_resize S _ n _ k Hp1).
    destruct (inwin (shift_n d nm n) k); [apply Hp2|reflexivity].
  - intros k. rewrite (get_shift S d nm _ n k Hs). cbv zeta.
    destruct (alookup Nat.eqb v (d_p1 ds)) as [p|]; cbn [omap oget] in *.
    + destruct Hp as [Hp1 Hp2]. rewrite (get_shift S d nm _ n k Hp1). cbv zeta.
      pose proof (get_resize_dT _ p n (shift_n d nm n) Hs Hp1 Hv) as R.
      destruct (inwin (shift_n d nm n) k); [|now rewrite dT_t0].
      rewrite !R. reflexivity.
    + assert (R : forall j, dT (get (resize (d_main ds) (shift_n d nm n)) j) = t0).
      { intros j. rewrite (get_resize S _ n _ j Hs). destruct (inwin _ j); [now rewrite <- Hv|apply dT_t0]. }
      destruct (inwin (shift_n d nm n) k); [|now rewrite dT_t0].
      unfold dT in *. cbn [fp fm fz].
      pose proof (R (k - d)) as R1. pose proof (R (k + d)) as R2. pose proof (R k) as R3.
      unfold t0 in *. injection R1 as A1 _ _. injection R2 as _ A2 _. injection R3 as _ _ A3.
      now rewrite A1, A2, A3.
Qed.

Definition instr_n (i : dinstr S) (n : nat) : nat :=
  match i with
  | DOp o => match d_lin S o with LShift d nm => shift_n d nm n | _ => n end
  | DPlain o => op_n S o n
  end.

Theorem order1_step v n i ds : instr_ok v i -> inv v n ds -> inv v (instr_n i n) (dstep i ds).
Proof.
  intros Hi Hinv. destruct i as [o|o]; cbn [dstep instr_n].
  - destruct Hi as [Hd Hc]. destruct (d_lin S o) as [a a0|m m0|d nm] eqn:El; cbn [is_shift] in Hc.
    + apply step_nonshift; auto. now rewrite El.
    + apply step_nonshift; auto. now rewrite El.
    + now apply (step_shift v n o ds d nm).
  - destruct Hinv as (Hs & He & Hp & Hv).
    unfold inv. cbn [d_main d_p1]. unfold map_partials. rewrite alookup_map_values.
    destruct o as [| | | | |p r|]; try contradiction; cbn [op_n Views.op_n apply apply_partial instr_ok] in *.
    + (* SPOILER: transverse components zeroed, in the state and in the partial *)
      split; [now apply spoil_shaped|split; [exact He|split]].
      * destruct (alookup Nat.eqb v (d_p1 ds)) as [q|]; cbn [omap opshaped apply_partial apply]; auto.
        destruct Hp as [Hq1 Hq2]. split; [now apply spoil_shaped|exact Hq2].
      * intros k. rewrite get_spoil. specialize (Hv k).
        destruct (alookup Nat.eqb v (d_p1 ds)) as [q|]; cbn [omap oget apply_partial apply] in *.
        -- rewrite get_spoil, Hv. unfold dT; cbn [fp fm fz]. now rewrite dv_0.
        -- unfold dT in *; cbn [fp fm fz]. unfold t0 in *. injection Hv as _ _ H3. now rewrite dv_0, <- H3.
    + (* RESET: back to the (constant) equilibrium; the partial, whose equilibrium is zero, becomes zero *)
      split; [now apply (reset_shaped S (d_main ds) n)|split; [|split]].
      * intros k. rewrite (gete_reset S _ n k Hs). destruct (k =? 0); [apply He|apply dT_t0].
      * destruct (alookup Nat.eqb v (d_p1 ds)) as [q|]; cbn [omap opshaped apply_partial apply]; auto.
        destruct Hp as [Hq1 Hq2]. split; [now apply (reset_shaped S q n)|].
        intros k. rewrite (gete_reset S _ n k Hq1). destruct (k =? 0); auto.
      * intros k. rewrite (get_reset S _ n k Hs).
        assert (E : dT (if k =? 0 then gete (d_main ds) 0 else t0) = t0) by (destruct (k =? 0); [apply He|apply dT_t0]).
        rewrite E. destruct (alookup Nat.eqb v (d_p1 ds)) as [q|]; cbn [omap oget opshaped apply_partial apply] in *; auto.
        destruct Hp as [Hq1 Hq2]. rewrite (get_reset S _ n k Hq1). destruct (k =? 0); auto.
    + (* PD: only the equilibrium changes, by a constant; with reset the partial becomes zero *)
      assert (Ee : forall k, dT (gete (apply_pd p r (d_main ds)) k) = t0).
      { intros k. rewrite (gete_pd S p r _ n k Hs). destruct (k =? 0); [|apply dT_t0].
        unfold dT; cbn [fp fm fz]. now rewrite Hi, dv_0. }
      split; [now apply pd_shaped|split; [exact Ee|]].
      destruct r.
      * split.
        -- destruct (alookup Nat.eqb v (d_p1 ds)) as [q|]; cbn [omap opshaped apply_partial apply]; auto.
           destruct Hp as [[Hq1 Hq3] Hq2]. split; [split; cbn [st equ]; [now rewrite map_length|exact Hq3]|exact Hq2].
        -- intros k. rewrite (get_pd S p true _ n k Hs).
           assert (E : dT (if k =? 0 then mk3 k0 k0 p else t0) = t0).
           { destruct (k =? 0); [|apply dT_t0]. unfold dT; cbn [fp fm fz]. now rewrite Hi, dv_0. }
           rewrite E. destruct (alookup Nat.eqb v (d_p1 ds)) as [q|]; cbn [omap oget apply_partial apply]; auto.
           unfold Views.get. cbn [st]. change (map (fun _ : triple => t0) (st q)) with (map (fun _ : triple => @t0 S) (st q)).
           rewrite (getZ_map_st S q (fun _ => t0) k eq_refl). reflexivity.
      * split.
        -- destruct (alookup Nat.eqb v (d_p1 ds)) as [q|]; cbn [omap opshaped apply_partial apply]; auto.
        -- intros k. rewrite (get_pd S p false _ n k Hs). specialize (Hv k).
           destruct (alookup Nat.eqb v (d_p1 ds)) as [q|]; cbn [omap oget apply_partial apply] in *; auto.
    + (* Wait *)
      split; [exact Hs|split; [exact He|split]].
      * destruct (alookup Nat.eqb v (d_p1 ds)) as [q|]; cbn [omap opshaped apply_partial apply]; auto.
      * intros k. specialize (Hv k). destruct (alookup Nat.eqb v (d_p1 ds)) as [q|]; cbn [omap oget apply_partial apply] in *; auto.
Qed.

Fixpoint run_n (prog : list (dinstr S)) (n : nat) : nat :=
  match prog with [] => n | i :: t => run_n t (instr_n i n) end.

(* every program: the partial carried for v IS the derivation of the simulated state *)
Theorem order1_run v prog n ds :
  List.Forall (instr_ok v) prog -> inv v n ds -> inv v (run_n prog n) (drun prog ds).
Proof.
  revert n ds. induction prog as [|i prog IH]; intros n ds Hok Hinv; simpl; auto.
  inversion Hok as [|? ? Hi Hrest]; subst.
  unfold drun in *. simpl. apply IH; auto. now apply order1_step.
Qed.

(* simulate() starts from a constant state without partials *)
Lemma inv_init v pd : dv pd = k0 -> inv v 0 (dinit (init pd)).
Proof.
  intros Hpd. unfold inv, dinit, init. cbn [d_main d_p1 alookup opshaped oget].
  split; [split; reflexivity|split; [|split]]; auto.
  - intros k. unfold Views.gete. cbn [equ]. rewrite getZ_single.
    destruct (k =? 0); [|apply dT_t0]. unfold dT; cbn [fp fm fz]. now rewrite Hpd, dv_0.
  - intros k. unfold Views.get. cbn [st]. rewrite getZ_single.
    destruct (k =? 0); [|now rewrite dT_t0]. unfold dT; cbn [fp fm fz]. now rewrite Hpd, dv_0.
Qed.

(* Jacobian probe: the column of v is dv of the signal; a variable no operator carries yields zero *)
Theorem jacobian_exact v prog pd :
  dv pd = k0 -> List.Forall (instr_ok v) prog ->
  jacobian (drun prog (dinit (init pd))) [v] = [dv (f0 S (d_main (drun prog (dinit (init pd)))))].
Proof.
  intros Hpd Hok.
  destruct (order1_run v prog 0 _ Hok (inv_init v pd Hpd)) as (Hs & _ & Hp & Hv).
  set (ds := drun prog (dinit (init pd))) in *. set (n := run_n prog 0) in *.
  unfold jacobian. cbn [map]. f_equal.
  specialize (Hv 0).
  assert (C : forall s, shaped S s n -> f0 S s = fp (get s 0)).
  { intros s [H1 _]. unfold f0, centre, Views.get. rewrite (getZ_odd t0 _ n 0 H1), H1, half_odd.
    rewrite Z.add_0_l. now rewrite nthZ_nat. }
  rewrite (C _ Hs).
  destruct (alookup Nat.eqb v (d_p1 ds)) as [p|]; cbn [oget opshaped] in *.
  - destruct Hp as [Hp1 _]. rewrite (C _ Hp1), Hv. reflexivity.
  - unfold dT in Hv. unfold t0 in Hv. now injection Hv as <- _ _.
Qed.

End DiffExact.
