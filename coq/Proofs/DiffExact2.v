(* C03 core (algebraic): exactness of the SECOND-order bookkeeping of diff.py (_apply_order2).
   For any two derivations dv1, dv2 of the scalar ring (additive, Leibniz; for variables given in
   the other order also commuting), if every operator satisfies the second-order chain rule through
   its declared coefficients, then the state carried in sm.order2 under Pair(v1,v2) is
   dv1 (dv2 (state)) component-wise -- for every program. *)
From Coq Require Import List ZArith Lia Bool Arith Ring.
From EPG Require Import Scalar State Ops ListLemmas Views Diff DiffLemmas DiffExact DiffOrder2 DiffExact2Lemmas.
Import ListNotations.

(* ================================================================================== *)
(* Part 1: semantic value of the four term lists (no derivation involved)             *)
(* ================================================================================== *)
Section Sem2.
Variable S : ScalOps.
Hypothesis L : ScalLaws S.
Add Ring Kr2 : (k_ring S L).
Notation triple := (triple S).
Notation mat3 := (mat3 S).
Notation sm := (sm S).
Notation get := (get S).
Notation gete := (gete S).
Local Open Scope Z_scope.

Definition tsum (l : list triple) : triple := fold_right tadd t0 l.

Lemma tadd_assoc (x y z : triple) : tadd (tadd x y) z = tadd x (tadd y z).
Proof. apply (triple_ext S); simpl; ring. Qed.
Lemma tadd_comm (x y : triple) : tadd x y = tadd y x.
Proof. apply (triple_ext S); simpl; ring. Qed.
Lemma tscale_t0 (c : S) : tscale c (@t0 S) = t0.
Proof. apply (triple_ext S); simpl; ring. Qed.
Lemma tscale_tadd (c : S) (x y : triple) : tscale c (tadd x y) = tadd (tscale c x) (tscale c y).
Proof. apply (triple_ext S); simpl; ring. Qed.
Lemma tscale_kadd (a b : S) (x : triple) : tscale (a + b)%K x = tadd (tscale a x) (tscale b x).
Proof. apply (triple_ext S); simpl; ring. Qed.
Lemma tscale_0add (b : S) (x : triple) : tscale (k0 + b)%K x = tscale b x.
Proof. apply (triple_ext S); simpl; ring. Qed.

Lemma tsum_app l l' : tsum (l ++ l') = tadd (tsum l) (tsum l').
Proof.
  induction l as [|x l IH]; simpl.
  - now rewrite (tadd_t0_l S L).
  - now rewrite IH, tadd_assoc.
Qed.

Lemma fold_left_tadd {A} (g : A -> triple) l init :
  fold_left (fun acc x => tadd acc (g x)) l init = tadd init (tsum (map g l)).
Proof.
  revert init. induction l as [|x l IH]; intros init; simpl.
  - now rewrite (tadd_t0_r S L).
  - now rewrite IH, tadd_assoc.
Qed.

Lemma tsum_t0 {A} (l : list A) (g : A -> triple) : (forall a, In a l -> g a = t0) -> tsum (map g l) = t0.
Proof.
  induction l as [|x l IH]; intros H; simpl; auto.
  rewrite (H x) by now left. rewrite IH by (intros a Ha; apply H; now right). apply (tadd_t0 S L).
Qed.

Lemma tsum_map_ext_in {A} (l : list A) (f g : A -> triple) :
  (forall a, In a l -> f a = g a) -> tsum (map f l) = tsum (map g l).
Proof. intros H. f_equal. now apply map_ext_in. Qed.

(* ---- a list of scaled partials: shapes and the sum of its phase-state-k entries ---- *)
Lemma scaled_sem {Kp} (eqp : Kp -> Kp -> bool) (partials : list (Kp * sm)) (es : list (Kp * S)) n k :
  (forall p c x, In (p, c) es -> alookup eqp p partials = Some x -> pshaped S n x) ->
  List.Forall (pshaped S n) (scaled S eqp partials es) /\
  forall init, fold_left (fun acc x => tadd acc (get x k)) (scaled S eqp partials es) init =
     tadd init (tsum (map (fun pc => tscale (snd pc) (oget S (alookup eqp (fst pc) partials) k)) es)).
Proof.
  unfold scaled. induction es as [|[p c] es IH]; intros H; cbn [flat_map map].
  - split; [constructor|]. intros init. simpl. now rewrite (tadd_t0_r S L).
  - destruct IH as [F1 F2]; [intros p0 c0 x Hin; apply (H p0 c0 x); now right|].
    cbn [fst snd]. destruct (alookup eqp p partials) as [x|] eqn:E; cbn [app oget].
    + pose proof (H p c x (or_introl eq_refl) E) as [Hx1 Hx2]. split.
      * constructor; auto. split; [now apply scale_shaped|]. intros j. apply Hx2.
      * intros init. cbn [fold_left]. rewrite F2, (get_scale S L). cbn [tsum fold_right].
        now rewrite tadd_assoc.
    + split; auto. intros init. rewrite F2. cbn [tsum fold_right].
      now rewrite tscale_t0, (tadd_t0_l S L).
Qed.

Lemma osum_scaled {Kp} (eqp : Kp -> Kp -> bool) (partials : list (Kp * sm)) (es : list (Kp * S)) n k :
  (forall p c x, In (p, c) es -> alookup eqp p partials = Some x -> pshaped S n x) ->
  opshaped S n (osum S (scaled S eqp partials es) None) /\
  oget S (osum S (scaled S eqp partials es) None) k =
    tsum (map (fun pc => tscale (snd pc) (oget S (alookup eqp (fst pc) partials) k)) es).
Proof.
  intros H. destruct (scaled_sem eqp partials es n k H) as [F1 F2].
  destruct (osum_sem S L (scaled S eqp partials es) None n k I F1) as [E1 E2].
  split; auto. rewrite E1, F2. cbn [oget]. apply (tadd_t0_l S L).
Qed.

(* ---- action of the derivative arrays on a (state, equilibrium) pair ---- *)
Definition lapp (l : lin S) (x e : triple) : triple := lact S (lmat S l) (lmat0 S l) x e.
Definition d1act (o : dop S) (p : param) (x e : triple) : triple :=
  match alookup Nat.eqb p (d_darrs S o) with Some l => lapp l x e | None => t0 end.
(* second derivative arrays are used only for the pairs listed in PARAMETERS_ORDER2 *)
Definition d2act (o : dop S) (pq : pair) (x e : triple) : triple :=
  if existsb (pair_eqb pq) (d_params2 S o)
  then match alookup pair_eqb pq (d_d2arrs S o) with Some l => lapp l x e | None => t0 end
  else t0.

(* sum_p c_p * (dO/dp)(x,e) over a coefficient list *)
Definition lsum (o : dop S) (es : list (param * S)) (x e : triple) : triple :=
  tsum (map (fun pc => tscale (snd pc) (d1act o (fst pc) x e)) es).
(* (dO/dv)(x,e) through the order1 coefficients of variable v *)
Definition act1 (o : dop S) (v : var) (x e : triple) : triple := lsum o (entries S o v) x e.
(* second-order coefficients of the variable pair times first derivatives of the operator *)
Definition ctact (o : dop S) (P : pair) (x e : triple) : triple :=
  lsum o (sel S pair_eqb P (d_order2 S o)) x e.
(* sum_{p in order1[v1], q in order1[v2]} c_p c_q * (d2O/dp dq)(x,e) *)
Definition pair_act (o : dop S) (v1 v2 : var) (x e : triple) : triple :=
  tsum (flat_map (fun pc : param * S => map (fun qd : param * S =>
          tscale (snd pc * snd qd)%K (d2act o (Pair (fst pc) (fst qd)) x e)) (order1_get S o v2))
        (order1_get S o v1)).
Definition cuact (o : dop S) (P : pair) (x e : triple) : triple :=
  tsum (map (fun vc : pair * list (param * S) =>
          if pair_eqb P (Pair (fst (fst vc)) (snd (fst vc)))
          then pair_act o (fst (fst vc)) (snd (fst vc)) x e else t0) (d_order2 S o)).

Lemma lapp_t0 l : lapp l t0 t0 = t0.
Proof. apply (lact_t0 S L). Qed.
Lemma d1act_t0 o p : d1act o p t0 t0 = t0.
Proof. unfold d1act. destruct (alookup Nat.eqb p (d_darrs S o)); auto. apply lapp_t0. Qed.
Lemma lsum_t0 o es : lsum o es t0 t0 = t0.
Proof. unfold lsum. apply tsum_t0. intros a _. now rewrite d1act_t0, tscale_t0. Qed.
Lemma lsum_nil o x e : lsum o [] x e = t0.
Proof. reflexivity. Qed.

Lemma lact_mzero (x e : triple) : lact S (mzero S) (mzero S) x e = t0.
Proof. unfold lact. rewrite !(mv_mzero S L). apply (tadd_t0 S L). Qed.

(* act1 is the action of the effective matrices of DiffExact *)
Lemma act1_eff o v x e : act1 o v x e = lact S (fst (eff S o v)) (snd (eff S o v)) x e.
Proof.
  unfold act1, eff, lsum.
  assert (G : forall es M M0,
     tadd (lact S M M0 x e) (tsum (map (fun pc => tscale (snd pc) (d1act o (fst pc) x e)) es)) =
     lact S (fst (fold_left (eff_step S o) es (M, M0))) (snd (fold_left (eff_step S o) es (M, M0))) x e).
  { induction es as [|[p c] es IH]; intros M M0; cbn [map tsum fold_right fold_left fst snd].
    - apply (tadd_t0_r S L).
    - unfold d1act at 1.
      change (eff_step S o (M, M0) (p, c)) with
        (match alookup Nat.eqb p (d_darrs S o) with
         | Some l => (madd M (mscale c (lmat S l)), madd M0 (mscale c (lmat0 S l)))
         | None => (M, M0) end).
      destruct (alookup Nat.eqb p (d_darrs S o)) as [l|].
      + rewrite <- IH, <- (lact_madd S L). unfold lapp. now rewrite tadd_assoc.
      + rewrite <- IH. now rewrite tscale_t0, (tadd_t0_l S L). }
  rewrite <- G, lact_mzero. now rewrite (tadd_t0_l S L).
Qed.

Definition d2arrs_ok (o : dop S) : Prop :=
  forall pq l, alookup pair_eqb pq (d_d2arrs S o) = Some l -> is_shift S l = false.
(* Python dictionaries have unique keys *)
Definition wf1 (o : dop S) : Prop := NoDup (map fst (d_order1 S o)).

Lemma zlin_pshaped l s n : is_shift S l = false -> shaped S s n -> pshaped S n (zero_equ (apply_lin l s)).
Proof.
  intros Hl Hs. split.
  - now apply zero_equ_shaped, lin_shaped.
  - intros j. apply gete_zero_equ.
Qed.

Lemma derive1_sem o s p n k : darrs_ok S o -> shaped S s n ->
  opshaped S n (derive1 S o s p) /\ oget S (derive1 S o s p) k = d1act o p (get s k) (gete s k).
Proof.
  intros Hd Hs. unfold derive1, d1act.
  destruct (alookup Nat.eqb p (d_darrs S o)) as [l|] eqn:E; cbn [opshaped oget]; auto.
  pose proof (Hd p l E) as Hl. split; [now apply zlin_pshaped|].
  rewrite get_zero_equ. now apply (get_lin S L l s n k).
Qed.

Lemma derive1_None o s s' p : derive1 S o s p = None -> derive1 S o s' p = None.
Proof. unfold derive1. now destruct (alookup Nat.eqb p (d_darrs S o)). Qed.

Lemma Pair_idem a b : Pair (fst (Pair a b)) (snd (Pair a b)) = Pair a b.
Proof. unfold Pair. destruct (Nat.ltb_spec b a); simpl; destruct (Nat.ltb_spec a b); destruct (Nat.ltb_spec b a); auto; lia. Qed.

Lemma derive2_pshaped o s pq x n : d2arrs_ok o -> shaped S s n -> derive2 S o s pq = Some x -> pshaped S n x.
Proof.
  intros Hd Hs. unfold derive2.
  destruct (alookup pair_eqb (Pair (fst pq) (snd pq)) (d_d2arrs S o)) as [l|] eqn:E; [|discriminate].
  intros H. injection H as <-. apply zlin_pshaped; auto. exact (Hd _ l E).
Qed.

(* ================= term 1: coefficient term ================= *)
Lemma coef_sem o s P n k : darrs_ok S o -> shaped S s n ->
  opshaped S n (osum S (t_coef S o s P) None) /\
  oget S (osum S (t_coef S o s P) None) k = ctact o P (get s k) (gete s k).
Proof.
  intros Hd Hs. unfold t_coef, ctact, lsum.
  assert (A : forall p c, In (p, c) (sel S pair_eqb P (d_order2 S o)) ->
             alookup Nat.eqb p (partials1 S o s) = derive1 S o s p).
  { intros p c Hin. unfold partials1. rewrite alookup_filter_some.
    assert (E : existsb (Nat.eqb p) (params1 S o) = true).
    { apply existsb_In. unfold params1. apply (In_dedup Nat.eqb nat_eqb_spec).
      unfold sel in Hin. apply in_flat_map in Hin. destruct Hin as [[k' ps] [Hin Hp]]. cbn [fst snd] in Hp.
      destruct (pair_eqb P k'); [|contradiction].
      apply in_flat_map. exists (k', ps). split; auto. cbn [snd].
      apply in_map_iff. exists (p, c). auto. }
    now rewrite E. }
  destruct (osum_scaled Nat.eqb (partials1 S o s) (sel S pair_eqb P (d_order2 S o)) n k) as [E1 E2].
  { intros p c x Hin Hx. rewrite (A p c Hin) in Hx.
    destruct (derive1_sem o s p n k Hd Hs) as [Sh _]. rewrite Hx in Sh. exact Sh. }
  split; auto. rewrite E2. apply tsum_map_ext_in. intros [p c] Hin. cbn [fst snd].
  rewrite (A p c Hin). destruct (derive1_sem o s p n k Hd Hs) as [_ Sv]. now rewrite Sv.
Qed.

(* ================= term 2: second derivatives of the operator ================= *)
Section DictSum.
Variable X : pair -> triple.
Let G (d : list (pair * S)) : triple := tsum (map (fun kc => tscale (snd kc) (X (fst kc))) d).

Lemma G_aupsert k c d :
  G (aupsert pair_eqb k (k0 + c)%K (fun old => (old + c)%K) d) = tadd (G d) (tscale c (X k)).
Proof.
  unfold G. induction d as [|[k' c'] d IH]; cbn [aupsert map tsum fold_right fst snd].
  - now rewrite tscale_0add, (tadd_t0_l S L), (tadd_t0_r S L).
  - destruct (pair_eqb_spec k k') as [->|Hne]; cbn [map tsum fold_right fst snd].
    + rewrite tscale_kadd. apply (triple_ext S); simpl; ring.
    + fold (tsum (map (fun kc => tscale (snd kc) (X (fst kc))) (aupsert pair_eqb k (k0 + c)%K (fun old => (old + c)%K) d))).
      rewrite IH. now rewrite tadd_assoc.
Qed.

Lemma G_inner (p1 : param * S) (l2 : list (param * S)) d :
  G (fold_left (fun d p2 => aupsert pair_eqb (Pair (fst p1) (fst p2)) (k0 + snd p1 * snd p2)%K
                                    (fun old => (old + snd p1 * snd p2)%K) d) l2 d) =
  tadd (G d) (tsum (map (fun p2 => tscale (snd p1 * snd p2)%K (X (Pair (fst p1) (fst p2)))) l2)).
Proof.
  revert d. induction l2 as [|p2 l2 IH]; intros d; cbn [fold_left map tsum fold_right].
  - now rewrite (tadd_t0_r S L).
  - rewrite IH, G_aupsert. now rewrite tadd_assoc.
Qed.

Lemma G_coefdict l1 l2 :
  G (coefdict S l1 l2) =
  tsum (flat_map (fun p1 : param * S => map (fun p2 : param * S =>
           tscale (snd p1 * snd p2)%K (X (Pair (fst p1) (fst p2)))) l2) l1).
Proof.
  unfold coefdict.
  assert (H : forall d, G (fold_left (fun d p1 => fold_left (fun d p2 =>
      aupsert pair_eqb (Pair (fst p1) (fst p2)) (k0 + snd p1 * snd p2)%K
              (fun old => (old + snd p1 * snd p2)%K) d) l2 d) l1 d) =
      tadd (G d) (tsum (flat_map (fun p1 : param * S => map (fun p2 : param * S =>
           tscale (snd p1 * snd p2)%K (X (Pair (fst p1) (fst p2)))) l2) l1))).
  { induction l1 as [|p1 l1 IH]; intros d; cbn [fold_left flat_map].
    - cbn [tsum fold_right]. now rewrite (tadd_t0_r S L).
    - rewrite IH, G_inner, tsum_app. now rewrite tadd_assoc. }
  rewrite H. unfold G. cbn [map tsum fold_right]. apply (tadd_t0_l S L).
Qed.
End DictSum.

Lemma in_params2 o a b cs p c q d :
  In ((a, b), cs) (d_order2 S o) -> In (p, c) (order1_get S o a) -> In (q, d) (order1_get S o b) ->
  existsb (pair_eqb (Pair p q)) (parameters_order2 S o) = existsb (pair_eqb (Pair p q)) (d_params2 S o).
Proof.
  intros Hvc Hp Hq.
  destruct (existsb (pair_eqb (Pair p q)) (d_params2 S o)) eqn:E.
  - apply (existsb_In_g pair_eqb pair_eqb_spec). unfold parameters_order2.
    apply (In_dedup pair_eqb pair_eqb_spec).
    apply in_flat_map. exists ((a, b), cs). split; auto. cbn [fst].
    apply in_flat_map. exists (p, c). split; auto.
    apply in_flat_map. exists (q, d). split; auto. cbn [fst]. rewrite E. now left.
  - destruct (existsb (pair_eqb (Pair p q)) (parameters_order2 S o)) eqn:E'; auto.
    apply (existsb_In_g pair_eqb pair_eqb_spec) in E'. unfold parameters_order2 in E'.
    apply (proj1 (In_dedup pair_eqb pair_eqb_spec _ _)) in E'.
    apply in_flat_map in E'. destruct E' as [[[a' b'] cs'] [_ E']]. cbn [fst] in E'.
    apply in_flat_map in E'. destruct E' as [p1 [_ E']].
    apply in_flat_map in E'. destruct E' as [p2 [_ E']].
    destruct (existsb (pair_eqb (Pair (fst p1) (fst p2))) (d_params2 S o)) eqn:E2; [|contradiction].
    destruct E' as [E'|[]]. rewrite E' in E2. congruence.
Qed.

Lemma cur_sem o s P n k : d2arrs_ok o -> shaped S s n ->
  opshaped S n (osum S (t_cur S o s P) None) /\
  oget S (osum S (t_cur S o s P) None) k = cuact o P (get s k) (gete s k).
Proof.
  intros Hd Hs. unfold t_cur.
  destruct (osum_scaled pair_eqb (partials2 S o s) (sel S pair_eqb P (coeffs2 S o)) n k) as [E1 E2].
  { intros pq c x _ Hx. unfold partials2 in Hx. rewrite (alookup_filter_some_g pair_eqb pair_eqb_spec) in Hx.
    destruct (existsb (pair_eqb pq) (parameters_order2 S o)); [|discriminate].
    exact (derive2_pshaped o s pq x n Hd Hs Hx). }
  split; auto. rewrite E2. clear E1 E2.
  unfold cuact, sel, coeffs2.
  (* only the membership of the entries in d_order2 matters *)
  assert (G : forall l, (forall vc, In vc l -> In vc (d_order2 S o)) ->
    tsum (map (fun pc : pair * S => tscale (snd pc) (oget S (alookup pair_eqb (fst pc) (partials2 S o s)) k))
       (flat_map (fun vp : pair * list (pair * S) => if pair_eqb P (fst vp) then snd vp else [])
          (map (fun vc : pair * list (param * S) => let '(v1, v2) := fst vc in
                  (Pair v1 v2, coefdict S (order1_get S o v1) (order1_get S o v2))) l))) =
    tsum (map (fun vc : pair * list (param * S) =>
          if pair_eqb P (Pair (fst (fst vc)) (snd (fst vc)))
          then pair_act o (fst (fst vc)) (snd (fst vc)) (get s k) (gete s k) else t0) l)).
  { induction l as [|[[a b] cs] l IH]; intros Hl; cbn [map flat_map]; auto.
    rewrite map_app, tsum_app. cbn [tsum fold_right fst snd].
    rewrite IH by (intros vc Hvc; apply Hl; now right). f_equal.
    destruct (pair_eqb P (Pair a b)); [|reflexivity].
    rewrite (G_coefdict (fun pq => oget S (alookup pair_eqb pq (partials2 S o s)) k)).
    unfold pair_act. f_equal.
    assert (Hin : In ((a, b), cs) (d_order2 S o)) by (apply Hl; now left).
    assert (Fe : forall (A B : Type) (f g : A -> list B) (l0 : list A),
               (forall x, In x l0 -> f x = g x) -> flat_map f l0 = flat_map g l0).
    { intros A B f g l0. induction l0 as [|y l0 IH0]; intros Hfg; simpl; auto.
      rewrite (Hfg y) by now left. f_equal. apply IH0. intros x Hx. apply Hfg. now right. }
    apply Fe. intros [p c] Hp. apply map_ext_in. intros [q d] Hq. cbn [fst snd]. f_equal.
    unfold partials2. rewrite (alookup_filter_some_g pair_eqb pair_eqb_spec).
    rewrite (in_params2 o a b cs p c q d Hin Hp Hq). unfold d2act.
    destruct (existsb (pair_eqb (Pair p q)) (d_params2 S o)); [|reflexivity].
    unfold derive2. rewrite Pair_idem.
    destruct (alookup pair_eqb (Pair p q) (d_d2arrs S o)) as [l0|] eqn:El; [|reflexivity].
    cbn [oget]. rewrite get_zero_equ. apply (get_lin S L _ _ n); auto. exact (Hd _ l0 El). }
  apply G. auto.
Qed.

(* ================= terms 3, 4: cross terms ================= *)
Lemma filter_some_app {A B} (l l' : list (A * option B)) :
  filter_some (l ++ l') = filter_some l ++ filter_some l'.
Proof. unfold filter_some. apply flat_map_app. Qed.

Lemma alookup_px_head {B} (f : nat -> option B) pcs p w v :
  alookup pair_eqb (p, w) (filter_some (map (fun p' => ((p', v), f p')) pcs)) =
  if Nat.eqb w v then (if existsb (Nat.eqb p) pcs then f p else None) else None.
Proof.
  induction pcs as [|q l IH]; cbn [map existsb].
  - now destruct (Nat.eqb w v).
  - unfold filter_some in *. cbn [flat_map snd fst].
    destruct (f q) as [b|] eqn:Fq; cbn [app alookup].
    + unfold pair_eqb at 1. cbn [fst snd].
      destruct (Nat.eqb_spec p q) as [->|Hne]; cbn [andb orb].
      * destruct (Nat.eqb w v); auto.
      * exact IH.
    + rewrite IH. destruct (Nat.eqb_spec p q) as [->|Hne]; cbn [orb]; auto.
      rewrite Fq. now destruct (Nat.eqb w v); destruct (existsb (Nat.eqb q) l).
Qed.

Lemma alookup_partialsx_gen o pcs (l : list (var * sm)) p w :
  alookup pair_eqb (p, w) (filter_some (flat_map (fun vs : var * sm =>
      map (fun p' => ((p', fst vs), derive1 S o (snd vs) p')) pcs) l)) =
  if existsb (Nat.eqb p) pcs
  then match alookup Nat.eqb w l with Some s' => derive1 S o s' p | None => None end
  else None.
Proof.
  induction l as [|[v s'] l IH]; cbn [flat_map alookup fst snd].
  - now destruct (existsb (Nat.eqb p) pcs).
  - rewrite filter_some_app, alookup_app, alookup_px_head, IH.
    destruct (Nat.eqb w v); [|reflexivity].
    destruct (existsb (Nat.eqb p) pcs); [|reflexivity].
    destruct (derive1 S o s' p) eqn:E; [reflexivity|].
    destruct (alookup Nat.eqb w l) as [s''|]; [|reflexivity].
    apply (derive1_None o s' s'' p E).
Qed.

Lemma alookup_partialsx o order1 p w :
  alookup pair_eqb (p, w) (partialsx S o order1) =
  if existsb (Nat.eqb p) (params_cross S o order1)
  then match alookup Nat.eqb w order1 with Some s' => derive1 S o s' p | None => None end
  else None.
Proof. apply alookup_partialsx_gen. Qed.

Lemma entries_get o v : wf1 o -> entries S o v = order1_get S o v.
Proof. intros Hw. unfold entries, order1_get. now apply (sel_alookup Nat.eqb nat_eqb_spec). Qed.

Lemma Pair_cases a b : Pair a b = (a, b) \/ Pair a b = (b, a).
Proof. unfold Pair. destruct (b <? a)%nat; auto. Qed.

Lemma vars_cross_auto o (order1 : list (var * sm)) u ps w s' :
  d_auto S o = true -> In (u, ps) (d_order1 S o) -> In (w, s') order1 -> In (Pair u w) (vars_cross S o order1).
Proof.
  intros Ha Hu Hw. unfold vars_cross. rewrite Ha.
  apply (In_dedup pair_eqb pair_eqb_spec).
  apply in_flat_map. exists (u, ps). split; auto.
  apply in_map_iff. exists (w, s'). auto.
Qed.

(* which of the alternatives makes the cross term of operator variable u complete *)
Definition cross_ok1 (o : dop S) (P : pair) (u : var) : Prop :=
  d_auto S o = true \/ In P (map fst (d_order2 S o)) \/ entries S o u = [].

(* operator variable u, state variable w, selected by the comparison cmp *)
Lemma cross_sem o (order1 : list (var * sm)) cmp P u w n k :
  wf1 o -> darrs_ok S o ->
  Pair w u = P -> cmp w u = true ->
  (forall a b, Pair a b = P -> cmp a b = true -> a = w /\ b = u) ->
  opshaped S n (alookup Nat.eqb w order1) ->
  cross_ok1 o P u ->
  opshaped S n (osum S (t_cross S o order1 cmp P) None) /\
  oget S (osum S (t_cross S o order1 cmp P) None) k =
    act1 o u (oget S (alookup Nat.eqb w order1) k) t0.
Proof.
  intros Hwf Hd HP Hcmp Huniq Hsh Hx.
  unfold t_cross. unfold sel.
  rewrite (sel_alookup pair_eqb pair_eqb_spec) by apply (as_dict_nodup pair_eqb pair_eqb_spec).
  (* the value read in a partial of the state variable *)
  assert (Val : forall p, opshaped S n (match alookup Nat.eqb w order1 with Some s' => derive1 S o s' p | None => None end) /\
           oget S (match alookup Nat.eqb w order1 with Some s' => derive1 S o s' p | None => None end) k =
           d1act o p (oget S (alookup Nat.eqb w order1) k) t0).
  { intros p. destruct (alookup Nat.eqb w order1) as [s'|]; cbn [oget opshaped].
    - destruct Hsh as [Hs1 Hs2]. destruct (derive1_sem o s' p n k Hd Hs1) as [A1 A2].
      split; auto. now rewrite A2, Hs2.
    - split; auto. now rewrite d1act_t0. }
  destruct (alookup pair_eqb P (as_dict pair_eqb (mkcross S o order1 cmp))) as [val|] eqn:ED.
  - apply (as_dict_Some pair_eqb pair_eqb_spec) in ED. unfold mkcross in ED.
    apply in_flat_map in ED. destruct ED as [[w' s'] [Hw' ED]].
    apply in_flat_map in ED. destruct ED as [[u' ps] [Hu' ED]]. cbn [fst snd] in ED.
    destruct (existsb (pair_eqb (Pair w' u')) (vars_cross S o order1)) eqn:Evc; [|contradiction].
    destruct (cmp w' u') eqn:Ec; [|contradiction]. cbn [andb] in ED.
    destruct ED as [ED|[]]. injection ED as EP Eval.
    destruct (Huniq w' u' EP Ec) as [-> ->].
    assert (Eg : order1_get S o u = ps).
    { unfold order1_get. now rewrite (NoDup_alookup Nat.eqb nat_eqb_spec u (d_order1 S o) ps Hwf Hu'). }
    assert (Hpc : forall p c, In (p, c) ps -> existsb (Nat.eqb p) (params_cross S o order1) = true).
    { intros p c Hin. apply existsb_In. unfold params_cross. apply (In_dedup Nat.eqb nat_eqb_spec).
      apply in_flat_map. exists P. split.
      - apply (existsb_In_g pair_eqb pair_eqb_spec). now rewrite <- EP.
      - apply in_or_app. rewrite <- HP.
        destruct (Pair_cases w u) as [E|E]; rewrite E; cbn [fst snd]; [right|left];
          rewrite Eg; apply in_map_iff; exists (p, c); auto. }
    subst val. cbv beta iota.
    destruct (osum_scaled pair_eqb (partialsx S o order1)
               (map (fun pc : param * S => ((fst pc, w), snd pc)) ps) n k) as [E1 E2].
    { intros pq c x Hin Hlk. apply in_map_iff in Hin. destruct Hin as [[p c'] [E Hin]]. cbn [fst snd] in E.
      injection E as <- <-. rewrite alookup_partialsx, (Hpc p c' Hin) in Hlk.
      destruct (Val p) as [V1 _]. rewrite Hlk in V1. exact V1. }
    split; auto. rewrite E2, map_map. cbn [fst snd].
    unfold act1, lsum. rewrite (entries_get o u Hwf), Eg.
    apply tsum_map_ext_in. intros [p c] Hin. cbn [fst snd].
    rewrite alookup_partialsx, (Hpc p c Hin). destruct (Val p) as [_ V2]. now rewrite V2.
  - cbn [scaled flat_map osum fold_left opshaped oget]. split; auto.
    destruct (alookup Nat.eqb w order1) as [s'|] eqn:Ew; cbn [oget]; [|now rewrite lsum_t0].
    unfold act1. rewrite (entries_get o u Hwf). unfold order1_get.
    destruct (alookup Nat.eqb u (d_order1 S o)) as [ps|] eqn:Eu; [|reflexivity].
    apply (alookup_In Nat.eqb nat_eqb_spec) in Ew. apply (alookup_In Nat.eqb nat_eqb_spec) in Eu.
    pose proof (as_dict_None pair_eqb pair_eqb_spec P _ ED) as Hnone.
    (* both present: the entry is missing only if the pair is not in vars_cross *)
    assert (Evc : existsb (pair_eqb P) (vars_cross S o order1) = false).
    { destruct (existsb (pair_eqb P) (vars_cross S o order1)) eqn:Evc; auto. exfalso.
      apply (Hnone (map (fun pc : param * S => ((fst pc, w), snd pc)) ps)).
      unfold mkcross. apply in_flat_map. exists (w, s'). split; auto.
      apply in_flat_map. exists (u, ps). split; auto. cbn [fst snd].
      rewrite HP, Evc, Hcmp. now left. }
    destruct Hx as [Ha|[Hdecl|He]].
    + exfalso. pose proof (vars_cross_auto o order1 u ps w s' Ha Eu Ew) as Hin.
      rewrite Pair_comm, HP in Hin. apply (existsb_In_g pair_eqb pair_eqb_spec) in Hin. congruence.
    + exfalso. assert (Hin : In P (vars_cross S o order1)).
      { destruct (d_auto S o) eqn:Ha.
        - pose proof (vars_cross_auto o order1 u ps w s' Ha Eu Ew) as Hin. now rewrite Pair_comm, HP in Hin.
        - unfold vars_cross. now rewrite Ha. }
      apply (existsb_In_g pair_eqb pair_eqb_spec) in Hin. congruence.
    + rewrite (entries_get o u Hwf) in He. unfold order1_get in He.
      rewrite (NoDup_alookup Nat.eqb nat_eqb_spec u (d_order1 S o) ps Hwf Eu) in He. subst ps. reflexivity.
Qed.

End Sem2.
