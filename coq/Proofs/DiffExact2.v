(* C03 core (algebraic): exactness of the SECOND-order bookkeeping of diff.py (_apply_order2).
   For any two derivations dv1, dv2 of the scalar ring (additive, Leibniz; for variables given in
   the other order also commuting), if every operator satisfies the second-order chain rule through
   its declared coefficients, then the state carried in sm.order2 under Pair(v1,v2) is
   dv1 (dv2 (state)) component-wise -- for every program. *)
From Coq Require Import List ZArith Lia Bool Arith Ring.
From EPG Require Import Scalar State Ops ListLemmas Views Diff DiffLemmas DiffExact DiffOrder2 DiffExact2Lemmas.
Import ListNotations.

(* ================================================================================== *)
(* Part 1: semantic value of the four term lists (no derivation involved)             *)
(* ================================================================================== *)
Section Sem2.
Variable S : ScalOps.
Hypothesis L : ScalLaws S.
Add Ring Kr2 : (k_ring S L).
Notation triple := (triple S).
Notation mat3 := (mat3 S).
Notation sm := (sm S).
Notation get := (get S).
Notation gete := (gete S).
Local Open Scope Z_scope.

Definition tsum (l : list triple) : triple := fold_right tadd t0 l.

Lemma tadd_assoc (x y z : triple) : tadd (tadd x y) z = tadd x (tadd y z).
Proof. apply (triple_ext S); simpl; ring. Qed.
Lemma tadd_comm (x y : triple) : tadd x y = tadd y x.
Proof. apply (triple_ext S); simpl; ring. Qed.
Lemma tscale_t0 (c : S) : tscale c (@t0 S) = t0.
Proof. apply (triple_ext S); simpl; ring. Qed.
Lemma tscale_tadd (c : S) (x y : triple) : tscale c (tadd x y) = tadd (tscale c x) (tscale c y).
Proof. apply (triple_ext S); simpl; ring. Qed.
Lemma tscale_kadd (a b : S) (x : triple) : tscale (a + b)%K x = tadd (tscale a x) (tscale b x).
Proof. apply (triple_ext S); simpl; ring. Qed.
Lemma tscale_0add (b : S) (x : triple) : tscale (k0 + b)%K x = tscale b x.
Proof. apply (triple_ext S); simpl; ring. Qed.

Lemma tsum_app l l' : tsum (l ++ l') = tadd (tsum l) (tsum l').
Proof.
  induction l as [|x l IH]; simpl.
  - now rewrite (tadd_t0_l S L).
  - now rewrite IH, tadd_assoc.
Qed.

Lemma fold_left_tadd {A} (g : A -> triple) l init :
  fold_left (fun acc x => tadd acc (g x)) l init = tadd init (tsum (map g l)).
Proof.
  revert init. induction l as [|x l IH]; intros init; simpl.
  - now rewrite (tadd_t0_r S L).
  - now rewrite IH, tadd_assoc.
Qed.

Lemma tsum_t0 {A} (l : list A) (g : A -> triple) : (forall a, In a l -> g a = t0) -> tsum (map g l) = t0.
Proof.
  induction l as [|x l IH]; intros H; simpl; auto.
  rewrite (H x) by now left. rewrite IH by (intros a Ha; apply H; now right). apply (tadd_t0 S L).
Qed.

Lemma tsum_map_ext_in {A} (l : list A) (f g : A -> triple) :
  (forall a, In a l -> f a = g a) -> tsum (map f l) = tsum (map g l).
Proof. intros H. f_equal. now apply map_ext_in. Qed.

(* ---- a list of scaled partials: shapes and the sum of its phase-state-k entries ---- *)
Lemma scaled_sem {Kp} (eqp : Kp -> Kp -> bool) (partials : list (Kp * sm)) (es : list (Kp * S)) n k :
  (forall p c x, In (p, c) es -> alookup eqp p partials = Some x -> pshaped S n x) ->
  List.Forall (pshaped S n) (scaled S eqp partials es) /\
  forall init, fold_left (fun acc x => tadd acc (get x k)) (scaled S eqp partials es) init =
     tadd init (tsum (map (fun pc => tscale (snd pc) (oget S (alookup eqp (fst pc) partials) k)) es)).
Proof.
  unfold scaled. induction es as [|[p c] es IH]; intros H; cbn [flat_map map].
  - split; [constructor|]. intros init. simpl. now rewrite (tadd_t0_r S L).
  - destruct IH as [F1 F2]; [intros p0 c0 x Hin; apply (H p0 c0 x); now right|].
    cbn [fst snd]. destruct (alookup eqp p partials) as [x|] eqn:E; cbn [app oget].
    + pose proof (H p c x (or_introl eq_refl) E) as [Hx1 Hx2]. split.
      * constructor; auto. split; [now apply scale_shaped|]. intros j. apply Hx2.
      * intros init. cbn [fold_left]. rewrite F2, (get_scale S L). cbn [tsum fold_right].
        now rewrite tadd_assoc.
    + split; auto. intros init. rewrite F2. cbn [tsum fold_right].
      now rewrite tscale_t0, (tadd_t0_l S L).
Qed.

Lemma osum_scaled {Kp} (eqp : Kp -> Kp -> bool) (partials : list (Kp * sm)) (es : list (Kp * S)) n k :
  (forall p c x, In (p, c) es -> alookup eqp p partials = Some x -> pshaped S n x) ->
  opshaped S n (osum S (scaled S eqp partials es) None) /\
  oget S (osum S (scaled S eqp partials es) None) k =
    tsum (map (fun pc => tscale (snd pc) (oget S (alookup eqp (fst pc) partials) k)) es).
Proof.
  intros H. destruct (scaled_sem eqp partials es n k H) as [F1 F2].
  destruct (osum_sem S L (scaled S eqp partials es) None n k I F1) as [E1 E2].
  split; auto. rewrite E1, F2. cbn [oget]. apply (tadd_t0_l S L).
Qed.

(* ---- action of the derivative arrays on a (state, equilibrium) pair ---- *)
Definition lapp (l : lin S) (x e : triple) : triple := lact S (lmat S l) (lmat0 S l) x e.
Definition d1act (o : dop S) (p : param) (x e : triple) : triple :=
  match alookup Nat.eqb p (d_darrs S o) with Some l => lapp l x e | None => t0 end.
(* second derivative arrays are used only for the pairs listed in PARAMETERS_ORDER2 *)
Definition d2act (o : dop S) (pq : pair) (x e : triple) : triple :=
  if existsb (pair_eqb pq) (d_params2 S o)
  then match alookup pair_eqb pq (d_d2arrs S o) with Some l => lapp l x e | None => t0 end
  else t0.

(* sum_p c_p * (dO/dp)(x,e) over a coefficient list *)
Definition lsum (o : dop S) (es : list (param * S)) (x e : triple) : triple :=
  tsum (map (fun pc => tscale (snd pc) (d1act o (fst pc) x e)) es).
(* (dO/dv)(x,e) through the order1 coefficients of variable v *)
Definition act1 (o : dop S) (v : var) (x e : triple) : triple := lsum o (entries S o v) x e.
(* second-order coefficients of the variable pair times first derivatives of the operator *)
Definition ctact (o : dop S) (P : pair) (x e : triple) : triple :=
  lsum o (sel S pair_eqb P (d_order2 S o)) x e.
(* sum_{p in order1[v1], q in order1[v2]} c_p c_q * (d2O/dp dq)(x,e) *)
Definition pair_act (o : dop S) (v1 v2 : var) (x e : triple) : triple :=
  tsum (flat_map (fun pc : param * S => map (fun qd : param * S =>
          tscale (snd pc * snd qd)%K (d2act o (Pair (fst pc) (fst qd)) x e)) (order1_get S o v2))
        (order1_get S o v1)).
Definition cuact (o : dop S) (P : pair) (x e : triple) : triple :=
  tsum (map (fun vc : pair * list (param * S) =>
          if pair_eqb P (Pair (fst (fst vc)) (snd (fst vc)))
          then pair_act o (fst (fst vc)) (snd (fst vc)) x e else t0) (d_order2 S o)).

Lemma lapp_t0 l : lapp l t0 t0 = t0.
Proof. apply (lact_t0 S L). Qed.
Lemma d1act_t0 o p : d1act o p t0 t0 = t0.
Proof. unfold d1act. destruct (alookup Nat.eqb p (d_darrs S o)); auto. apply lapp_t0. Qed.
Lemma lsum_t0 o es : lsum o es t0 t0 = t0.
Proof. unfold lsum. apply tsum_t0. intros a _. now rewrite d1act_t0, tscale_t0. Qed.
Lemma lsum_nil o x e : lsum o [] x e = t0.
Proof. reflexivity. Qed.

Lemma lact_mzero (x e : triple) : lact S (mzero S) (mzero S) x e = t0.
Proof. unfold lact. rewrite !(mv_mzero S L). apply (tadd_t0 S L). Qed.

(* act1 is the action of the effective matrices of DiffExact *)
Lemma act1_eff o v x e : act1 o v x e = lact S (fst (eff S o v)) (snd (eff S o v)) x e.
Proof.
  unfold act1, eff, lsum.
  assert (G : forall es M M0,
     tadd (lact S M M0 x e) (tsum (map (fun pc => tscale (snd pc) (d1act o (fst pc) x e)) es)) =
     lact S (fst (fold_left (eff_step S o) es (M, M0))) (snd (fold_left (eff_step S o) es (M, M0))) x e).
  { induction es as [|[p c] es IH]; intros M M0; cbn [map tsum fold_right fold_left fst snd].
    - apply (tadd_t0_r S L).
    - unfold d1act at 1.
      change (eff_step S o (M, M0) (p, c)) with
        (match alookup Nat.eqb p (d_darrs S o) with
         | Some l => (madd M (mscale c (lmat S l)), madd M0 (mscale c (lmat0 S l)))
         | None => (M, M0) end).
      destruct (alookup Nat.eqb p (d_darrs S o)) as [l|].
      + rewrite <- IH, <- (lact_madd S L). unfold lapp. now rewrite tadd_assoc.
      + rewrite <- IH. now rewrite tscale_t0, (tadd_t0_l S L). }
  rewrite <- G, lact_mzero. now rewrite (tadd_t0_l S L).
Qed.

Definition d2arrs_ok (o : dop S) : Prop :=
  forall pq l, alookup pair_eqb pq (d_d2arrs S o) = Some l -> is_shift S l = false.
(* Python dictionaries have unique keys *)
Definition wf1 (o : dop S) : Prop := NoDup (map fst (d_order1 S o)).

Lemma zlin_pshaped l s n : is_shift S l = false -> shaped S s n -> pshaped S n (zero_equ (apply_lin l s)).
Proof.
  intros Hl Hs. split.
  - now apply zero_equ_shaped, lin_shaped.
  - intros j. apply gete_zero_equ.
Qed.

Lemma derive1_sem o s p n k : darrs_ok S o -> shaped S s n ->
  opshaped S n (derive1 S o s p) /\ oget S (derive1 S o s p) k = d1act o p (get s k) (gete s k).
Proof.
  intros Hd Hs. unfold derive1, d1act.
  destruct (alookup Nat.eqb p (d_darrs S o)) as [l|] eqn:E; cbn [opshaped oget]; auto.
  pose proof (Hd p l E) as Hl. split; [now apply zlin_pshaped|].
  rewrite get_zero_equ. now apply (get_lin S L l s n k).
Qed.

Lemma derive1_None o s s' p : derive1 S o s p = None -> derive1 S o s' p = None.
Proof. unfold derive1. now destruct (alookup Nat.eqb p (d_darrs S o)). Qed.

Lemma Pair_idem a b : Pair (fst (Pair a b)) (snd (Pair a b)) = Pair a b.
Proof. unfold Pair. destruct (Nat.ltb_spec b a); simpl; destruct (Nat.ltb_spec a b); destruct (Nat.ltb_spec b a); auto; lia. Qed.

Lemma derive2_pshaped o s pq x n : d2arrs_ok o -> shaped S s n -> derive2 S o s pq = Some x -> pshaped S n x.
Proof.
  intros Hd Hs. unfold derive2.
  destruct (alookup pair_eqb (Pair (fst pq) (snd pq)) (d_d2arrs S o)) as [l|] eqn:E; [|discriminate].
  intros H. injection H as <-. apply zlin_pshaped; auto. exact (Hd _ l E).
Qed.

(* ================= term 1: coefficient term ================= *)
Lemma coef_sem o s P n k : darrs_ok S o -> shaped S s n ->
  opshaped S n (osum S (t_coef S o s P) None) /\
  oget S (osum S (t_coef S o s P) None) k = ctact o P (get s k) (gete s k).
Proof.
  intros Hd Hs. unfold t_coef, ctact, lsum.
  assert (A : forall p c, In (p, c) (sel S pair_eqb P (d_order2 S o)) ->
             alookup Nat.eqb p (partials1 S o s) = derive1 S o s p).
  { intros p c Hin. unfold partials1. rewrite alookup_filter_some.
    assert (E : existsb (Nat.eqb p) (params1 S o) = true).
    { apply existsb_In. unfold params1. apply (In_dedup Nat.eqb nat_eqb_spec).
      unfold sel in Hin. apply in_flat_map in Hin. destruct Hin as [[k' ps] [Hin Hp]]. cbn [fst snd] in Hp.
      destruct (pair_eqb P k'); [|contradiction].
      apply in_flat_map. exists (k', ps). split; auto. cbn [snd].
      apply in_map_iff. exists (p, c). auto. }
    now rewrite E. }
  destruct (osum_scaled Nat.eqb (partials1 S o s) (sel S pair_eqb P (d_order2 S o)) n k) as [E1 E2].
  { intros p c x Hin Hx. rewrite (A p c Hin) in Hx.
    destruct (derive1_sem o s p n k Hd Hs) as [Sh _]. rewrite Hx in Sh. exact Sh. }
  split; auto. rewrite E2. apply tsum_map_ext_in. intros [p c] Hin. cbn [fst snd].
  rewrite (A p c Hin). destruct (derive1_sem o s p n k Hd Hs) as [_ Sv]. now rewrite Sv.
Qed.

(* ================= term 2: second derivatives of the operator ================= *)
Section DictSum.
Variable X : pair -> triple.
Let G (d : list (pair * S)) : triple := tsum (map (fun kc => tscale (snd kc) (X (fst kc))) d).

Lemma G_aupsert k c d :
  G (aupsert pair_eqb k (k0 + c)%K (fun old => (old + c)%K) d) = tadd (G d) (tscale c (X k)).
Proof.
  unfold G. induction d as [|[k' c'] d IH]; cbn [aupsert map tsum fold_right fst snd].
  - now rewrite tscale_0add, (tadd_t0_l S L), (tadd_t0_r S L).
  - destruct (pair_eqb_spec k k') as [->|Hne]; cbn [map tsum fold_right fst snd].
    + rewrite tscale_kadd. apply (triple_ext S); simpl; ring.
    + fold (tsum (map (fun kc => tscale (snd kc) (X (fst kc))) (aupsert pair_eqb k (k0 + c)%K (fun old => (old + c)%K) d))).
      rewrite IH. now rewrite tadd_assoc.
Qed.

Lemma G_inner (p1 : param * S) (l2 : list (param * S)) d :
  G (fold_left (fun d p2 => aupsert pair_eqb (Pair (fst p1) (fst p2)) (k0 + snd p1 * snd p2)%K
                                    (fun old => (old + snd p1 * snd p2)%K) d) l2 d) =
  tadd (G d) (tsum (map (fun p2 => tscale (snd p1 * snd p2)%K (X (Pair (fst p1) (fst p2)))) l2)).
Proof.
  revert d. induction l2 as [|p2 l2 IH]; intros d; cbn [fold_left map tsum fold_right].
  - now rewrite (tadd_t0_r S L).
  - rewrite IH, G_aupsert. now rewrite tadd_assoc.
Qed.

Lemma G_coefdict l1 l2 :
  G (coefdict S l1 l2) =
  tsum (flat_map (fun p1 : param * S => map (fun p2 : param * S =>
           tscale (snd p1 * snd p2)%K (X (Pair (fst p1) (fst p2)))) l2) l1).
Proof.
  unfold coefdict.
  assert (H : forall d, G (fold_left (fun d p1 => fold_left (fun d p2 =>
      aupsert pair_eqb (Pair (fst p1) (fst p2)) (k0 + snd p1 * snd p2)%K
              (fun old => (old + snd p1 * snd p2)%K) d) l2 d) l1 d) =
      tadd (G d) (tsum (flat_map (fun p1 : param * S => map (fun p2 : param * S =>
           tscale (snd p1 * snd p2)%K (X (Pair (fst p1) (fst p2)))) l2) l1))).
  { induction l1 as [|p1 l1 IH]; intros d; cbn [fold_left flat_map].
    - cbn [tsum fold_right]. now rewrite (tadd_t0_r S L).
    - rewrite IH, G_inner, tsum_app. now rewrite tadd_assoc. }
  rewrite H. unfold G. cbn [map tsum fold_right]. apply (tadd_t0_l S L).
Qed.
End DictSum.

Lemma in_params2 o a b cs p c q d :
  In ((a, b), cs) (d_order2 S o) -> In (p, c) (order1_get S o a) -> In (q, d) (order1_get S o b) ->
  existsb (pair_eqb (Pair p q)) (parameters_order2 S o) = existsb (pair_eqb (Pair p q)) (d_params2 S o).
Proof.
  intros Hvc Hp Hq.
  destruct (existsb (pair_eqb (Pair p q)) (d_params2 S o)) eqn:E.
  - apply (existsb_In_g pair_eqb pair_eqb_spec). unfold parameters_order2.
    apply (In_dedup pair_eqb pair_eqb_spec).
    apply in_flat_map. exists ((a, b), cs). split; auto. cbn [fst].
    apply in_flat_map. exists (p, c). split; auto.
    apply in_flat_map. exists (q, d). split; auto. cbn [fst]. rewrite E. now left.
  - destruct (existsb (pair_eqb (Pair p q)) (parameters_order2 S o)) eqn:E'; auto.
    apply (existsb_In_g pair_eqb pair_eqb_spec) in E'. unfold parameters_order2 in E'.
    apply (proj1 (In_dedup pair_eqb pair_eqb_spec _ _)) in E'.
    apply in_flat_map in E'. destruct E' as [[[a' b'] cs'] [_ E']]. cbn [fst] in E'.
    apply in_flat_map in E'. destruct E' as [p1 [_ E']].
    apply in_flat_map in E'. destruct E' as [p2 [_ E']].
    destruct (existsb (pair_eqb (Pair (fst p1) (fst p2))) (d_params2 S o)) eqn:E2; [|contradiction].
    destruct E' as [E'|[]]. rewrite E' in E2. congruence.
Qed.

Lemma cur_sem o s P n k : d2arrs_ok o -> shaped S s n ->
  opshaped S n (osum S (t_cur S o s P) None) /\
  oget S (osum S (t_cur S o s P) None) k = cuact o P (get s k) (gete s k).
Proof.
  intros Hd Hs. unfold t_cur.
  destruct (osum_scaled pair_eqb (partials2 S o s) (sel S pair_eqb P (coeffs2 S o)) n k) as [E1 E2].
  { intros pq c x _ Hx. unfold partials2 in Hx. rewrite (alookup_filter_some_g pair_eqb pair_eqb_spec) in Hx.
    destruct (existsb (pair_eqb pq) (parameters_order2 S o)); [|discriminate].
    exact (derive2_pshaped o s pq x n Hd Hs Hx). }
  split; auto. rewrite E2. clear E1 E2.
  unfold cuact, sel, coeffs2.
  (* only the membership of the entries in d_order2 matters *)
  assert (G : forall l, (forall vc, In vc l -> In vc (d_order2 S o)) ->
    tsum (map (fun pc : pair * S => tscale (snd pc) (oget S (alookup pair_eqb (fst pc) (partials2 S o s)) k))
       (flat_map (fun vp : pair * list (pair * S) => if pair_eqb P (fst vp) then snd vp else [])
          (map (fun vc : pair * list (param * S) => let '(v1, v2) := fst vc in
                  (Pair v1 v2, coefdict S (order1_get S o v1) (order1_get S o v2))) l))) =
    tsum (map (fun vc : pair * list (param * S) =>
          if pair_eqb P (Pair (fst (fst vc)) (snd (fst vc)))
          then pair_act o (fst (fst vc)) (snd (fst vc)) (get s k) (gete s k) else t0) l)).
  { induction l as [|[[a b] cs] l IH]; intros Hl; cbn [map flat_map]; auto.
    rewrite map_app, tsum_app. cbn [tsum fold_right fst snd].
    rewrite IH by (intros vc Hvc; apply Hl; now right). f_equal.
    destruct (pair_eqb P (Pair a b)); [|reflexivity].
    rewrite (G_coefdict (fun pq => oget S (alookup pair_eqb pq (partials2 S o s)) k)).
    unfold pair_act. f_equal.
    assert (Hin : In ((a, b), cs) (d_order2 S o)) by (apply Hl; now left).
    assert (Fe : forall (A B : Type) (f g : A -> list B) (l0 : list A),
               (forall x, In x l0 -> f x = g x) -> flat_map f l0 = flat_map g l0).
    { intros A B f g l0. induction l0 as [|y l0 IH0]; intros Hfg; simpl; auto.
      rewrite (Hfg y) by now left. f_equal. apply IH0. intros x Hx. apply Hfg. now right. }
    apply Fe. intros [p c] Hp. apply map_ext_in. intros [q d] Hq. cbn [fst snd]. f_equal.
    unfold partials2. rewrite (alookup_filter_some_g pair_eqb pair_eqb_spec).
    rewrite (in_params2 o a b cs p c q d Hin Hp Hq). unfold d2act.
    destruct (existsb (pair_eqb (Pair p q)) (d_params2 S o)); [|reflexivity].
    unfold derive2. rewrite Pair_idem.
    destruct (alookup pair_eqb (Pair p q) (d_d2arrs S o)) as [l0|] eqn:El; [|reflexivity].
    cbn [oget]. rewrite get_zero_equ. apply (get_lin S L _ _ n); auto. exact (Hd _ l0 El). }
  apply G. auto.
Qed.

(* ================= terms 3, 4: cross terms ================= *)
Lemma filter_some_app {A B} (l l' : list (A * option B)) :
  filter_some (l ++ l') = filter_some l ++ filter_some l'.
Proof. unfold filter_some. apply flat_map_app. Qed.

Lemma alookup_px_head {B} (f : nat -> option B) pcs p w v :
  alookup pair_eqb (p, w) (filter_some (map (fun p' => ((p', v), f p')) pcs)) =
  if Nat.eqb w v then (if existsb (Nat.eqb p) pcs then f p else None) else None.
Proof.
  induction pcs as [|q l IH]; cbn [map existsb].
  - now destruct (Nat.eqb w v).
  - unfold filter_some in *. cbn [flat_map snd fst].
    destruct (f q) as [b|] eqn:Fq; cbn [app alookup].
    + unfold pair_eqb at 1. cbn [fst snd].
      destruct (Nat.eqb_spec p q) as [->|Hne]; cbn [andb orb].
      * destruct (Nat.eqb w v); auto.
      * exact IH.
    + rewrite IH. destruct (Nat.eqb_spec p q) as [->|Hne]; cbn [orb]; auto.
      rewrite Fq. now destruct (Nat.eqb w v); destruct (existsb (Nat.eqb q) l).
Qed.

Lemma alookup_partialsx_gen o pcs (l : list (var * sm)) p w :
  alookup pair_eqb (p, w) (filter_some (flat_map (fun vs : var * sm =>
      map (fun p' => ((p', fst vs), derive1 S o (snd vs) p')) pcs) l)) =
  if existsb (Nat.eqb p) pcs
  then match alookup Nat.eqb w l with Some s' => derive1 S o s' p | None => None end
  else None.
Proof.
  induction l as [|[v s'] l IH]; cbn [flat_map alookup fst snd].
  - now destruct (existsb (Nat.eqb p) pcs).
  - rewrite filter_some_app, alookup_app, alookup_px_head, IH.
    destruct (Nat.eqb w v); [|reflexivity].
    destruct (existsb (Nat.eqb p) pcs); [|reflexivity].
    destruct (derive1 S o s' p) eqn:E; [reflexivity|].
    destruct (alookup Nat.eqb w l) as [s''|]; [|reflexivity].
    apply (derive1_None o s' s'' p E).
Qed.

Lemma alookup_partialsx o order1 p w :
  alookup pair_eqb (p, w) (partialsx S o order1) =
  if existsb (Nat.eqb p) (params_cross S o order1)
  then match alookup Nat.eqb w order1 with Some s' => derive1 S o s' p | None => None end
  else None.
Proof. apply alookup_partialsx_gen. Qed.

Lemma entries_get o v : wf1 o -> entries S o v = order1_get S o v.
Proof. intros Hw. unfold entries, order1_get. now apply (sel_alookup Nat.eqb nat_eqb_spec). Qed.

Lemma Pair_cases a b : Pair a b = (a, b) \/ Pair a b = (b, a).
Proof. unfold Pair. destruct (b <? a)%nat; auto. Qed.

Lemma vars_cross_auto o (order1 : list (var * sm)) u ps w s' :
  d_auto S o = true -> In (u, ps) (d_order1 S o) -> In (w, s') order1 -> In (Pair u w) (vars_cross S o order1).
Proof.
  intros Ha Hu Hw. unfold vars_cross. rewrite Ha.
  apply (In_dedup pair_eqb pair_eqb_spec).
  apply in_flat_map. exists (u, ps). split; auto.
  apply in_map_iff. exists (w, s'). auto.
Qed.

(* which of the alternatives makes the cross term of operator variable u complete *)
Definition cross_ok1 (o : dop S) (P : pair) (u : var) : Prop :=
  d_auto S o = true \/ In P (map fst (d_order2 S o)) \/ entries S o u = [].

(* operator variable u, state variable w, selected by the comparison cmp *)
Lemma cross_sem o (order1 : list (var * sm)) cmp P u w n k :
  wf1 o -> darrs_ok S o ->
  Pair w u = P -> cmp w u = true ->
  (forall a b, Pair a b = P -> cmp a b = true -> a = w /\ b = u) ->
  opshaped S n (alookup Nat.eqb w order1) ->
  cross_ok1 o P u ->
  opshaped S n (osum S (t_cross S o order1 cmp P) None) /\
  oget S (osum S (t_cross S o order1 cmp P) None) k =
    act1 o u (oget S (alookup Nat.eqb w order1) k) t0.
Proof.
  intros Hwf Hd HP Hcmp Huniq Hsh Hx.
  unfold t_cross. unfold sel.
  rewrite (sel_alookup pair_eqb pair_eqb_spec) by apply (as_dict_nodup pair_eqb pair_eqb_spec).
  (* the value read in a partial of the state variable *)
  assert (Val : forall p, opshaped S n (match alookup Nat.eqb w order1 with Some s' => derive1 S o s' p | None => None end) /\
           oget S (match alookup Nat.eqb w order1 with Some s' => derive1 S o s' p | None => None end) k =
           d1act o p (oget S (alookup Nat.eqb w order1) k) t0).
  { intros p. destruct (alookup Nat.eqb w order1) as [s'|]; cbn [oget opshaped].
    - destruct Hsh as [Hs1 Hs2]. destruct (derive1_sem o s' p n k Hd Hs1) as [A1 A2].
      split; auto. now rewrite A2, Hs2.
    - split; auto. now rewrite d1act_t0. }
  destruct (alookup pair_eqb P (as_dict pair_eqb (mkcross S o order1 cmp))) as [val|] eqn:ED.
  - apply (as_dict_Some pair_eqb pair_eqb_spec) in ED. unfold mkcross in ED.
    apply in_flat_map in ED. destruct ED as [[w' s'] [Hw' ED]].
    apply in_flat_map in ED. destruct ED as [[u' ps] [Hu' ED]]. cbn [fst snd] in ED.
    destruct (existsb (pair_eqb (Pair w' u')) (vars_cross S o order1)) eqn:Evc; [|contradiction].
    destruct (cmp w' u') eqn:Ec; [|contradiction]. cbn [andb] in ED.
    destruct ED as [ED|[]]. injection ED as EP Eval.
    destruct (Huniq w' u' EP Ec) as [-> ->].
    assert (Eg : order1_get S o u = ps).
    { unfold order1_get. now rewrite (NoDup_alookup Nat.eqb nat_eqb_spec u (d_order1 S o) ps Hwf Hu'). }
    assert (Hpc : forall p c, In (p, c) ps -> existsb (Nat.eqb p) (params_cross S o order1) = true).
    { intros p c Hin. apply existsb_In. unfold params_cross. apply (In_dedup Nat.eqb nat_eqb_spec).
      apply in_flat_map. exists P. split.
      - apply (existsb_In_g pair_eqb pair_eqb_spec). now rewrite <- EP.
      - apply in_or_app. rewrite <- HP.
        destruct (Pair_cases w u) as [E|E]; rewrite E; cbn [fst snd]; [right|left];
          rewrite Eg; apply in_map_iff; exists (p, c); auto. }
    subst val. cbv beta iota.
    destruct (osum_scaled pair_eqb (partialsx S o order1)
               (map (fun pc : param * S => ((fst pc, w), snd pc)) ps) n k) as [E1 E2].
    { intros pq c x Hin Hlk. apply in_map_iff in Hin. destruct Hin as [[p c'] [E Hin]]. cbn [fst snd] in E.
      injection E as <- <-. rewrite alookup_partialsx, (Hpc p c' Hin) in Hlk.
      destruct (Val p) as [V1 _]. rewrite Hlk in V1. exact V1. }
    split; [exact E1|]. refine (eq_trans E2 _). rewrite map_map. cbn [fst snd].
    unfold act1, lsum. rewrite (entries_get o u Hwf), Eg.
    apply tsum_map_ext_in. intros [p c] Hin. cbn [fst snd].
    rewrite alookup_partialsx, (Hpc p c Hin). destruct (Val p) as [_ V2]. now rewrite V2.
  - cbn [scaled flat_map osum fold_left opshaped oget]. split; auto.
    destruct (alookup Nat.eqb w order1) as [s'|] eqn:Ew; cbn [oget]; [|unfold act1; now rewrite lsum_t0].
    unfold act1. rewrite (entries_get o u Hwf). unfold order1_get.
    destruct (alookup Nat.eqb u (d_order1 S o)) as [ps|] eqn:Eu; [|reflexivity].
    apply (alookup_In Nat.eqb nat_eqb_spec) in Ew. apply (alookup_In Nat.eqb nat_eqb_spec) in Eu.
    pose proof (as_dict_None pair_eqb pair_eqb_spec P _ ED) as Hnone.
    (* both present: the entry is missing only if the pair is not in vars_cross *)
    assert (Evc : existsb (pair_eqb P) (vars_cross S o order1) = false).
    { destruct (existsb (pair_eqb P) (vars_cross S o order1)) eqn:Evc; auto. exfalso.
      apply (Hnone (map (fun pc : param * S => ((fst pc, w), snd pc)) ps)).
      unfold mkcross. apply in_flat_map. exists (w, s'). split; auto.
      apply in_flat_map. exists (u, ps). split; auto. cbn [fst snd].
      rewrite HP, Evc, Hcmp. now left. }
    destruct Hx as [Ha|[Hdecl|He]].
    + exfalso. pose proof (vars_cross_auto o order1 u ps w s' Ha Eu Ew) as Hin.
      rewrite Pair_comm, HP in Hin. apply (existsb_In_g pair_eqb pair_eqb_spec) in Hin. congruence.
    + exfalso. assert (Hin : In P (vars_cross S o order1)).
      { destruct (d_auto S o) eqn:Ha.
        - pose proof (vars_cross_auto o order1 u ps w s' Ha Eu Ew) as Hin. now rewrite Pair_comm, HP in Hin.
        - unfold vars_cross. now rewrite Ha. }
      apply (existsb_In_g pair_eqb pair_eqb_spec) in Hin. congruence.
    + rewrite (entries_get o u Hwf) in He. unfold order1_get in He.
      rewrite (NoDup_alookup Nat.eqb nat_eqb_spec u (d_order1 S o) ps Hwf Eu) in He. subst ps. reflexivity.
Qed.

End Sem2.

(* ================================================================================== *)
(* Part 2: two derivations; one step of the bookkeeping for variables v1 <= v2          *)
(* ================================================================================== *)
Section Exact2.
Variable S : ScalOps.
Hypothesis L : ScalLaws S.
Add Ring Kr3 : (k_ring S L).
Notation triple := (triple S).
Notation mat3 := (mat3 S).
Notation sm := (sm S).
Notation get := (get S).
Notation gete := (gete S).
Local Open Scope Z_scope.

Variables dv1 dv2 : S -> S.
Hypothesis dv1_add : forall x y, dv1 (x + y)%K = (dv1 x + dv1 y)%K.
Hypothesis dv1_mul : forall x y, dv1 (x * y)%K = (dv1 x * y + x * dv1 y)%K.
Hypothesis dv2_add : forall x y, dv2 (x + y)%K = (dv2 x + dv2 y)%K.
Hypothesis dv2_mul : forall x y, dv2 (x * y)%K = (dv2 x * y + x * dv2 y)%K.
Notation dT1 := (dT S dv1).
Notation dT2 := (dT S dv2).
Notation dM1 := (dM S dv1).
Notation dM2 := (dM S dv2).

(* second-order chain rule through the declared coefficients:
     d1 d2 (arrays) = sum_p c2_{(v1,v2),p} dO/dp  +  sum_{p,q} c_{v1,p} c_{v2,q} d2O/dp dq       *)
Definition coef2_ok (o : dop S) (v1 v2 : var) : Prop :=
  forall x e : triple,
    lact S (dM1 (dM2 (lmat S (d_lin S o)))) (dM1 (dM2 (lmat0 S (d_lin S o)))) x e =
    tadd (ctact S o (Pair v1 v2) x e) (cuact S o (Pair v1 v2) x e).

(* the cross terms (dO/dv1)(d state/dv2) + (dO/dv2)(d state/dv1) are computed by the code when the
   operator does not depend on v1, v2 at all, or cross derivatives are automatic and the second-order
   bookkeeping is not skipped (the operator declares some order2, or -- flag b -- the incoming state
   already carries second-order partials), or the pair is declared in order2 *)
Definition cross_ok (o : dop S) (v1 v2 : var) (b : bool) : Prop :=
  (entries S o v1 = [] /\ entries S o v2 = []) \/
  (d_auto S o = true /\ (d_order2 S o <> [] \/ b = true)) \/
  In (Pair v1 v2) (map fst (d_order2 S o)).

(* b: the state the instruction is applied to already carries second-order partials *)
Definition instr_ok2 (v1 v2 : var) (b : bool) (i : dinstr S) : Prop :=
  match i with
  | DOp o => if is_shift S (d_lin S o) then d_order2 S o = []
             else wf1 S o /\ d2arrs_ok S o /\ coef2_ok o v1 v2 /\ cross_ok o v1 v2 b
  | DPlain _ => True
  end.

Definition instr_ok12 (v1 v2 : var) (b : bool) (i : dinstr S) : Prop :=
  instr_ok S dv1 v1 i /\ instr_ok S dv2 v2 i /\ instr_ok2 v1 v2 b i.

Definition inv2 (v1 v2 : var) (n : nat) (ds : dstate S) : Prop :=
  opshaped S n (alookup pair_eqb (Pair v1 v2) (d_p2 ds)) /\
  forall k, oget S (alookup pair_eqb (Pair v1 v2) (d_p2 ds)) k = dT1 (dT2 (get (d_main ds) k)).

Definition inv12 (v1 v2 : var) (n : nat) (ds : dstate S) : Prop :=
  inv S dv1 v1 n ds /\ inv S dv2 v2 n ds /\ inv2 v1 v2 n ds.

(* d1 d2 (A s) = A (d1 d2 s) + (d1 d2 A) s + (d1 A)(d2 s) + (d2 A)(d1 s) *)
Lemma d12_lact o v1 v2 (x e : triple) :
  coef_ok S dv1 o v1 -> coef_ok S dv2 o v2 -> coef2_ok o v1 v2 -> dT1 e = t0 -> dT2 e = t0 ->
  dT1 (dT2 (lact S (lmat S (d_lin S o)) (lmat0 S (d_lin S o)) x e)) =
  tadd (tadd (tadd (tadd (lact S (lmat S (d_lin S o)) (lmat0 S (d_lin S o)) (dT1 (dT2 x)) t0)
                         (ctact S o (Pair v1 v2) x e))
                   (cuact S o (Pair v1 v2) x e))
             (act1 S o v1 (dT2 x) t0))
       (act1 S o v2 (dT1 x) t0).
Proof.
  intros Hc1 Hc2 Hc12 He1 He2.
  rewrite (dT_lact S L dv2 dv2_add dv2_mul), He2.
  rewrite (dT_tadd S dv1 dv1_add).
  rewrite !(dT_lact S L dv1 dv1_add dv1_mul), He1, (dT_t0 S L dv1 dv1_add).
  rewrite (Hc12 x e), (Hc2 (dT1 x) t0), (Hc1 (dT2 x) t0).
  rewrite <- !(act1_eff S L).
  generalize (lact S (lmat S (d_lin S o)) (lmat0 S (d_lin S o)) (dT1 (dT2 x)) t0) as a.
  generalize (ctact S o (Pair v1 v2) x e) as b. generalize (cuact S o (Pair v1 v2) x e) as c.
  generalize (act1 S o v1 (dT2 x) t0) as d. generalize (act1 S o v2 (dT1 x) t0) as f.
  intros f d c b a. apply (triple_ext S); simpl; ring.
Qed.

Lemma oadd_sem2 (a b : option sm) n k ta tb :
  opshaped S n a /\ oget S a k = ta -> opshaped S n b /\ oget S b k = tb ->
  opshaped S n (oadd S a b) /\ oget S (oadd S a b) k = tadd ta tb.
Proof.
  intros [Ha <-] [Hb <-]. destruct (oadd_sem S L a b n k Ha Hb) as [E1 E2]. auto.
Qed.

Lemma cmp_ge_uniq v1 v2 a b : Pair a b = (v1, v2) -> cmp_ge a b = true -> a = v2 /\ b = v1.
Proof.
  unfold cmp_ge. intros HP Hc. apply Nat.leb_le in Hc. rewrite (Pair_ge a b Hc) in HP.
  injection HP as -> ->. auto.
Qed.
Lemma cmp_le_uniq v1 v2 a b : Pair a b = (v1, v2) -> cmp_le a b = true -> a = v1 /\ b = v2.
Proof.
  unfold cmp_le. intros HP Hc. apply Nat.leb_le in Hc. rewrite (Pair_le a b Hc) in HP.
  injection HP as -> ->. auto.
Qed.

Lemma step2_nonshift v1 v2 n o ds : (v1 <= v2)%nat ->
  is_shift S (d_lin S o) = false -> darrs_ok S o ->
  coef_ok S dv1 o v1 -> coef_ok S dv2 o v2 ->
  wf1 S o -> d2arrs_ok S o -> coef2_ok o v1 v2 -> cross_ok o v1 v2 (nonempty (d_p2 ds)) ->
  inv S dv1 v1 n ds -> inv S dv2 v2 n ds -> inv2 v1 v2 n ds -> inv2 v1 v2 n (dapply o ds).
Proof.
  intros Hle Hl Hd Hc1 Hc2 Hwf Hd2 Hc12 Hx (Hs & He1 & Hp1 & Hv1) (_ & He2 & Hp2 & Hv2) (Hq & Hw).
  assert (EP : Pair v1 v2 = (v1, v2)) by (apply Pair_le; exact Hle).
  assert (Main : forall k,
     opshaped S n (alookup pair_eqb (Pair v1 v2) (d_p2 (dapply o ds))) /\
     oget S (alookup pair_eqb (Pair v1 v2) (d_p2 (dapply o ds))) k = dT1 (dT2 (get (d_main (dapply o ds)) k))).
  { intros k. unfold dapply; cbn [d_p2 d_main].
    rewrite (get_lin S L _ _ n k Hl Hs).
    rewrite (d12_lact o v1 v2 _ _ Hc1 Hc2 Hc12 (He1 k) (He2 k)).
    destruct (nonempty (d_p2 ds) || nonempty (d_order2 S o)) eqn:E.
    - rewrite lookup_order2.
      assert (X1 : cross_ok1 S o (Pair v1 v2) v1 /\ cross_ok1 S o (Pair v1 v2) v2).
      { unfold cross_ok1. destruct Hx as [[E1 E2]|[[Ha _]|Hin]]; auto. }
      destruct X1 as [X1 X2].
      repeat apply oadd_sem2.
      + (* previous second-order partial through the operator *)
        specialize (Hw k).
        destruct (alookup pair_eqb (Pair v1 v2) (d_p2 ds)) as [p|]; cbn [omap oget opshaped] in *.
        * destruct Hq as [Hq1 Hq2]. split.
          -- split; [now apply lin_shaped|]. intros j. unfold derive0. rewrite gete_lin by auto. apply Hq2.
          -- unfold derive0. now rewrite (get_lin S L _ _ n k Hl Hq1), Hq2, Hw.
        * split; auto. now rewrite <- Hw, (lact_t0 S L).
      + exact (coef_sem S L o (d_main ds) (Pair v1 v2) n k Hd Hs).
      + exact (cur_sem S L o (d_main ds) (Pair v1 v2) n k Hd2 Hs).
      + rewrite <- (Hv2 k).
        apply (cross_sem S L o (d_p1 ds) cmp_ge (Pair v1 v2) v1 v2 n k Hwf Hd); auto.
        * now rewrite Pair_comm.
        * unfold cmp_ge. now apply Nat.leb_le.
        * intros a b HP. rewrite EP in HP. now apply cmp_ge_uniq.
      + rewrite <- (Hv1 k).
        apply (cross_sem S L o (d_p1 ds) cmp_le (Pair v1 v2) v2 v1 n k Hwf Hd); auto.
        * unfold cmp_le. now apply Nat.leb_le.
        * intros a b HP. rewrite EP in HP. now apply cmp_le_uniq.
    - (* the operator is skipped by the second-order bookkeeping *)
      apply orb_false_elim in E. destruct E as [E1 E2].
      unfold cross_ok in Hx. rewrite E1 in Hx.
      specialize (Hw k).
      destruct (d_p2 ds); [|discriminate]. cbn [fst alookup opshaped oget] in *. split; auto.
      rewrite <- Hw. unfold ctact, cuact, sel.
      destruct (d_order2 S o) eqn:Eo2; [|discriminate]. cbn [flat_map map]. rewrite lsum_nil.
      destruct Hx as [[A1 A2]|[[_ [Hne|Hb]]|Hin]]; [|congruence|discriminate|destruct Hin].
      unfold act1. rewrite A1, A2, !lsum_nil. cbn [tsum fold_right].
      now rewrite (lact_t0 S L), !(tadd_t0 S L). }
  split; [apply (Main 0)|intros k; apply (Main k)].
Qed.

(* ---- shifts: no derivative arrays, nothing declared ---- *)
Lemma flat_map_nil {A B} (l : list A) : flat_map (fun _ : A => @nil B) l = [].
Proof. induction l; simpl; auto. Qed.

Lemma lookup_order2_inactive o ds P : d_order1 S o = [] -> d_order2 S o = [] ->
  alookup pair_eqb P (d_p2 (dapply o ds)) = omap (derive0 S o) (alookup pair_eqb P (d_p2 ds)).
Proof.
  intros Ho1 Ho2. unfold dapply. cbn [d_p2].
  destruct (nonempty (d_p2 ds) || nonempty (d_order2 S o)) eqn:E.
  - rewrite lookup_order2.
    unfold t_coef, t_cur, t_cross, coeffs2, mkcross, sel. rewrite Ho1, Ho2. cbn [flat_map map].
    rewrite !flat_map_nil. cbn [as_dict fold_left flat_map scaled osum].
    now destruct (omap (derive0 S o) (alookup pair_eqb P (d_p2 ds))).
  - apply orb_false_elim in E. destruct E as [E1 _].
    destruct (d_p2 ds); [reflexivity|discriminate].
Qed.

Lemma shift_tracks (dvv : S -> S) d nm (s : sm) (po : option sm) n :
  dvv k0 = k0 -> shaped S s n -> opshaped S n po -> (forall k, oget S po k = dT S dvv (get s k)) ->
  opshaped S (shift_n d nm n) (omap (apply_shift d nm) po) /\
  forall k, oget S (omap (apply_shift d nm) po) k = dT S dvv (get (apply_shift d nm s) k).
Proof.
  intros H0 Hs Hp Hv.
  assert (D0 : dT S dvv t0 = t0) by (unfold dT, t0; cbn [fp fm fz]; now rewrite H0).
  split.
  - destruct po as [p|]; cbn [omap opshaped]; auto.
    destruct Hp as [Hp1 Hp2]. split; [now apply shift_shaped|].
    intros k. rewrite (gete_shift S d nm _ n k Hp1), (gete_resize S _ n _ k Hp1).
    destruct (inwin (shift_n d nm n) k); [apply Hp2|reflexivity].
  - intros k. rewrite (get_shift S d nm _ n k Hs). cbv zeta.
    destruct po as [p|]; cbn [omap oget opshaped] in *.
    + destruct Hp as [Hp1 Hp2]. rewrite (get_shift S d nm _ n k Hp1). cbv zeta.
      assert (R : forall j, get (resize p (shift_n d nm n)) j = dT S dvv (get (resize s (shift_n d nm n)) j)).
      { intros j. rewrite (get_resize S p n _ j Hp1), (get_resize S s n _ j Hs).
        destruct (inwin _ j); [apply Hv|now rewrite D0]. }
      destruct (inwin (shift_n d nm n) k); [|now rewrite D0].
      rewrite !R. reflexivity.
    + assert (R : forall j, dT S dvv (get (resize s (shift_n d nm n)) j) = t0).
      { intros j. rewrite (get_resize S _ n _ j Hs). destruct (inwin _ j); [now rewrite <- Hv|apply D0]. }
      destruct (inwin (shift_n d nm n) k); [|now rewrite D0].
      unfold dT in *. cbn [fp fm fz].
      pose proof (R (k - d)) as R1. pose proof (R (k + d)) as R2. pose proof (R k) as R3.
      unfold t0 in *. injection R1 as A1 _ _. injection R2 as _ A2 _. injection R3 as _ _ A3.
      now rewrite A1, A2, A3.
Qed.

Lemma step2_shift v1 v2 n o ds d nm : d_lin S o = LShift d nm -> d_order1 S o = [] -> d_order2 S o = [] ->
  shaped S (d_main ds) n -> inv2 v1 v2 n ds -> inv2 v1 v2 (shift_n d nm n) (dapply o ds).
Proof.
  intros Hl Ho1 Ho2 Hs (Hq & Hw). unfold inv2.
  rewrite (lookup_order2_inactive o ds _ Ho1 Ho2).
  unfold dapply; cbn [d_main]. unfold derive0, apply_lin. rewrite Hl. cbn [lin_op apply].
  apply (shift_tracks (fun x => dv1 (dv2 x)) d nm (d_main ds) _ n); auto.
  now rewrite (dv_0 S L dv2 dv2_add), (dv_0 S L dv1 dv1_add).
Qed.

Lemma alookup_map_values_gen {Kt V W} (eqb : Kt -> Kt -> bool) (f : V -> W) k (d : list (Kt * V)) :
  alookup eqb k (map (fun kv => (fst kv, f (snd kv))) d) = omap f (alookup eqb k d).
Proof. induction d as [|[k' v] d IH]; simpl; auto. destruct (eqb k k'); auto. Qed.

Theorem order2_step_le v1 v2 n i ds : (v1 <= v2)%nat ->
  instr_ok12 v1 v2 (nonempty (d_p2 ds)) i -> inv12 v1 v2 n ds -> inv12 v1 v2 (instr_n S i n) (dstep i ds).
Proof.
  intros Hle (Hi1 & Hi2 & Hi12) (I1 & I2 & I12).
  split; [exact (order1_step S L dv1 dv1_add dv1_mul v1 n i ds Hi1 I1)|].
  split; [exact (order1_step S L dv2 dv2_add dv2_mul v2 n i ds Hi2 I2)|].
  destruct i as [o|o]; cbn [dstep instr_n].
  - destruct Hi1 as [Hd Hc1]. destruct Hi2 as [_ Hc2]. cbn [instr_ok2] in Hi12.
    destruct (d_lin S o) as [a a0|m m0|d nm] eqn:El; cbn [is_shift] in Hc1, Hc2, Hi12.
    + destruct Hi12 as (Hwf & Hd2 & Hc12 & Hx). apply step2_nonshift; auto. now rewrite El.
    + destruct Hi12 as (Hwf & Hd2 & Hc12 & Hx). apply step2_nonshift; auto. now rewrite El.
    + apply (step2_shift v1 v2 n o ds d nm); auto. apply I1.
  - destruct I1 as (Hs & He1 & _). destruct I2 as (_ & He2 & _). destruct I12 as (Hq & Hw).
    assert (D1 : dT1 t0 = t0) by apply (dT_t0 S L dv1 dv1_add).
    assert (D2 : dT2 t0 = t0) by apply (dT_t0 S L dv2 dv2_add).
    assert (Z1 : dv1 k0 = k0) by apply (dv_0 S L dv1 dv1_add).
    assert (Z2 : dv2 k0 = k0) by apply (dv_0 S L dv2 dv2_add).
    unfold inv2. cbn [d_main d_p2]. unfold map_partials. rewrite alookup_map_values_gen.
    destruct o as [| | | | |p r|]; try contradiction; cbn [op_n Views.op_n apply apply_partial instr_ok] in *.
    + (* SPOILER *)
      split.
      * destruct (alookup pair_eqb (Pair v1 v2) (d_p2 ds)) as [q|]; cbn [omap opshaped apply_partial apply]; auto.
        destruct Hq as [Hq1 Hq2]. split; [now apply spoil_shaped|exact Hq2].
      * intros k. rewrite get_spoil. specialize (Hw k).
        destruct (alookup pair_eqb (Pair v1 v2) (d_p2 ds)) as [q|]; cbn [omap oget apply_partial apply] in *.
        -- rewrite get_spoil, Hw. unfold dT; cbn [fp fm fz]. now rewrite Z2, Z1.
        -- unfold dT in *; cbn [fp fm fz] in *. unfold t0 in *. injection Hw as _ _ H3. now rewrite Z2, Z1, <- H3.
    + (* RESET *)
      assert (E : forall k, dT1 (dT2 (if k =? 0 then gete (d_main ds) 0 else t0)) = t0).
      { intros k. destruct (k =? 0); [now rewrite He2|now rewrite D2]. }
      split.
      * destruct (alookup pair_eqb (Pair v1 v2) (d_p2 ds)) as [q|]; cbn [omap opshaped apply_partial apply]; auto.
        destruct Hq as [Hq1 Hq2]. split; [now apply (reset_shaped S q n)|].
        intros k. rewrite (gete_reset S _ n k Hq1). destruct (k =? 0); auto.
      * intros k. rewrite (get_reset S _ n k Hs), E.
        destruct (alookup pair_eqb (Pair v1 v2) (d_p2 ds)) as [q|]; cbn [omap oget opshaped apply_partial apply] in *; auto.
        destruct Hq as [Hq1 Hq2]. rewrite (get_reset S _ n k Hq1). destruct (k =? 0); auto.
    + (* PD: the density is a constant for both derivations *)
      destruct r.
      * split.
        -- destruct (alookup pair_eqb (Pair v1 v2) (d_p2 ds)) as [q|]; cbn [omap opshaped apply_partial]; auto.
           destruct Hq as [[Hq1 Hq3] Hq2]. split; [split; cbn [st equ]; [now rewrite map_length|exact Hq3]|exact Hq2].
        -- intros k. rewrite (get_pd S p true _ n k Hs).
           assert (E : dT1 (dT2 (if k =? 0 then mk3 k0 k0 p else t0)) = t0).
           { destruct (k =? 0); [|now rewrite D2]. unfold dT; cbn [fp fm fz]. now rewrite Hi2, Z2, Z1. }
           rewrite E. destruct (alookup pair_eqb (Pair v1 v2) (d_p2 ds)) as [q|]; cbn [omap oget apply_partial]; auto.
           unfold Views.get. cbn [st].
           rewrite (getZ_map_st S q (fun _ => t0) k eq_refl). reflexivity.
      * split.
        -- destruct (alookup pair_eqb (Pair v1 v2) (d_p2 ds)) as [q|]; cbn [omap opshaped apply_partial]; auto.
        -- intros k. rewrite (get_pd S p false _ n k Hs). specialize (Hw k).
           destruct (alookup pair_eqb (Pair v1 v2) (d_p2 ds)) as [q|]; cbn [omap oget apply_partial] in *; auto.
    + (* Wait *)
      split.
      * destruct (alookup pair_eqb (Pair v1 v2) (d_p2 ds)) as [q|]; cbn [omap opshaped apply_partial apply]; auto.
      * intros k. specialize (Hw k). destruct (alookup pair_eqb (Pair v1 v2) (d_p2 ds)) as [q|]; cbn [omap oget apply_partial apply] in *; auto.
Qed.

End Exact2.

(* ================================================================================== *)
(* Part 3: variables in any order (commuting derivations), programs, Hessian probe      *)
(* ================================================================================== *)
Section Swap.
Variable S : ScalOps.
Variables da db : S -> S.
Hypothesis Hcomm : forall x, da (db x) = db (da x).

Lemma dT_comm t : dT S da (dT S db t) = dT S db (dT S da t).
Proof. unfold dT; cbn [fp fm fz]. now rewrite !Hcomm. Qed.
Lemma dM_comm m : dM S da (dM S db m) = dM S db (dM S da m).
Proof. unfold dM; cbn [row0 row1 row2]. now rewrite !dT_comm. Qed.

Lemma coef2_ok_swap o v1 v2 : coef2_ok S da db o v1 v2 -> coef2_ok S db da o v2 v1.
Proof.
  unfold coef2_ok. intros H x e. rewrite (Pair_comm v2 v1), <- (H x e), !dM_comm. reflexivity.
Qed.
Lemma cross_ok_swap o v1 v2 b : cross_ok S o v1 v2 b -> cross_ok S o v2 v1 b.
Proof. unfold cross_ok. rewrite (Pair_comm v2 v1). tauto. Qed.

Lemma instr_ok12_swap v1 v2 b i : instr_ok12 S da db v1 v2 b i -> instr_ok12 S db da v2 v1 b i.
Proof.
  intros (H1 & H2 & H12). split; [exact H2|split; [exact H1|]].
  destruct i as [o|o]; cbn [instr_ok2] in *; auto.
  destruct (is_shift S (d_lin S o)); auto.
  destruct H12 as (A & B & C & D).
  split; [exact A|split; [exact B|split; [now apply coef2_ok_swap|now apply cross_ok_swap]]].
Qed.

Lemma inv12_swap v1 v2 n ds : inv12 S da db v1 v2 n ds -> inv12 S db da v2 v1 n ds.
Proof.
  intros (I1 & I2 & Hq & Hw). split; [exact I2|split; [exact I1|]].
  unfold inv2. rewrite (Pair_comm v2 v1). split; auto.
  intros k. rewrite <- dT_comm. apply Hw.
Qed.
End Swap.

Section Main2.
Variable S : ScalOps.
Hypothesis L : ScalLaws S.
Variables dv1 dv2 : S -> S.
Hypothesis dv1_add : forall x y, dv1 (x + y)%K = (dv1 x + dv1 y)%K.
Hypothesis dv1_mul : forall x y, dv1 (x * y)%K = (dv1 x * y + x * dv1 y)%K.
Hypothesis dv2_add : forall x y, dv2 (x + y)%K = (dv2 x + dv2 y)%K.
Hypothesis dv2_mul : forall x y, dv2 (x * y)%K = (dv2 x * y + x * dv2 y)%K.
Hypothesis dv_comm : forall x, dv1 (dv2 x) = dv2 (dv1 x).
Notation instr_ok12 := (instr_ok12 S dv1 dv2).
Notation inv12 := (inv12 S dv1 dv2).

Theorem order2_step v1 v2 n i ds :
  instr_ok12 v1 v2 (nonempty (d_p2 ds)) i -> inv12 v1 v2 n ds -> inv12 v1 v2 (instr_n S i n) (dstep i ds).
Proof.
  intros Hi Hinv. destruct (le_ge_dec v1 v2) as [Hle|Hge].
  - exact (order2_step_le S L dv1 dv2 dv1_add dv1_mul dv2_add dv2_mul v1 v2 n i ds Hle Hi Hinv).
  - apply (inv12_swap S dv2 dv1 (fun x => eq_sym (dv_comm x))).
    apply (order2_step_le S L dv2 dv1 dv2_add dv2_mul dv1_add dv1_mul v2 v1 n i ds Hge).
    + now apply (instr_ok12_swap S dv1 dv2 dv_comm).
    + now apply (inv12_swap S dv1 dv2 dv_comm).
Qed.

(* the hypotheses along a run: each instruction meets the chain-rule conditions, the flag of
   [cross_ok] being read off the state the instruction is applied to *)
Fixpoint prog_ok (v1 v2 : var) (prog : list (dinstr S)) (ds : dstate S) : Prop :=
  match prog with
  | [] => True
  | i :: t => instr_ok12 v1 v2 (nonempty (d_p2 ds)) i /\ prog_ok v1 v2 t (dstep i ds)
  end.

(* every program: the second-order partial carried for (v1,v2) IS dv1 (dv2 (simulated state)),
   together with the two first-order invariants *)
Theorem order2_run v1 v2 prog n ds :
  prog_ok v1 v2 prog ds -> inv12 v1 v2 n ds -> inv12 v1 v2 (run_n S prog n) (drun prog ds).
Proof.
  revert n ds. induction prog as [|i prog IH]; intros n ds Hok Hinv; simpl; auto.
  destruct Hok as [Hi Hrest].
  unfold drun in *. simpl. apply IH; auto. now apply order2_step.
Qed.

(* purely per-instruction (state-independent) form of the hypotheses *)
Lemma cross_ok_mono o v1 v2 b : cross_ok S o v1 v2 false -> cross_ok S o v1 v2 b.
Proof. unfold cross_ok. intros [H|[[Ha [Hn|Hb]]|H]]; auto; discriminate. Qed.

Lemma instr_ok12_mono v1 v2 b i : instr_ok12 v1 v2 false i -> instr_ok12 v1 v2 b i.
Proof.
  intros (H1 & H2 & H12). split; [exact H1|split; [exact H2|]].
  destruct i as [o|o]; cbn [instr_ok2] in *; auto.
  destruct (is_shift S (d_lin S o)); auto.
  destruct H12 as (A & B & C & D).
  split; [exact A|split; [exact B|split; [exact C|now apply cross_ok_mono]]].
Qed.

Lemma prog_ok_static v1 v2 prog : List.Forall (instr_ok12 v1 v2 false) prog -> forall ds, prog_ok v1 v2 prog ds.
Proof.
  induction prog as [|i prog IH]; intros Hok ds; simpl; auto.
  inversion Hok as [|? ? Hi Hrest]; subst. split; [now apply instr_ok12_mono|now apply IH].
Qed.

Corollary order2_run_static v1 v2 prog n ds :
  List.Forall (instr_ok12 v1 v2 false) prog -> inv12 v1 v2 n ds -> inv12 v1 v2 (run_n S prog n) (drun prog ds).
Proof. intros Hok. apply order2_run. now apply prog_ok_static. Qed.

Lemma inv12_init v1 v2 pd : dv1 pd = k0 -> dv2 pd = k0 -> inv12 v1 v2 0 (dinit (init pd)).
Proof.
  intros H1 H2.
  pose proof (inv_init S L dv1 dv1_add v1 pd H1) as I1.
  pose proof (inv_init S L dv2 dv2_add v2 pd H2) as I2.
  split; [exact I1|split; [exact I2|]].
  destruct I2 as (_ & _ & _ & Hv). unfold inv2, dinit in *. cbn [d_p2 d_p1 d_main alookup opshaped oget] in *.
  split; auto. intros k. rewrite <- (Hv k). symmetry. apply (dT_t0 S L dv1 dv1_add).
Qed.

(* what the Hessian probe reads under the sorted pair *)
Theorem hessian_entry_exact v1 v2 prog pd :
  dv1 pd = k0 -> dv2 pd = k0 -> prog_ok v1 v2 prog (dinit (init pd)) ->
  match alookup pair_eqb (Pair v1 v2) (d_p2 (drun prog (dinit (init pd)))) with
  | Some s => f0 S s | None => k0 end
  = dv1 (dv2 (f0 S (d_main (drun prog (dinit (init pd)))))).
Proof.
  intros H1 H2 Hok.
  destruct (order2_run v1 v2 prog 0 _ Hok (inv12_init v1 v2 pd H1 H2)) as ((Hs & _) & _ & Hq & Hw).
  set (ds := drun prog (dinit (init pd))) in *. set (n := run_n S prog 0) in *.
  specialize (Hw 0%Z).
  assert (C : forall s, shaped S s n -> f0 S s = fp (get S s 0)).
  { intros s [A1 _]. unfold f0, centre, Views.get. rewrite (getZ_odd t0 _ n 0 A1), A1, half_odd.
    rewrite Z.add_0_l. now rewrite nthZ_nat. }
  rewrite (C _ Hs).
  destruct (alookup pair_eqb (Pair v1 v2) (d_p2 ds)) as [p|]; cbn [oget opshaped] in *.
  - destruct Hq as [Hq1 _]. rewrite (C _ Hq1), Hw. reflexivity.
  - unfold dT in Hw. unfold t0 in Hw. now injection Hw as <- _ _.
Qed.

(* Hessian probe for the variable list [v1; v2]: both mixed entries are dv1 (dv2 signal) *)
Theorem hessian_exact v1 v2 prog pd :
  dv1 pd = k0 -> dv2 pd = k0 -> prog_ok v1 v2 prog (dinit (init pd)) ->
  nth 1 (nth 0 (hessian (drun prog (dinit (init pd))) [v1; v2]) []) k0
    = dv1 (dv2 (f0 S (d_main (drun prog (dinit (init pd)))))) /\
  nth 0 (nth 1 (hessian (drun prog (dinit (init pd))) [v1; v2]) []) k0
    = dv1 (dv2 (f0 S (d_main (drun prog (dinit (init pd)))))).
Proof.
  intros H1 H2 Hok. pose proof (hessian_entry_exact v1 v2 prog pd H1 H2 Hok) as E.
  unfold hessian. cbn [map nth]. rewrite (Pair_comm v2 v1). auto.
Qed.

(* a single variable differentiated twice, in the style of jacobian_exact *)
Theorem hessian_exact_diag v prog pd :
  dv1 pd = k0 -> dv2 pd = k0 -> prog_ok v v prog (dinit (init pd)) ->
  hessian (drun prog (dinit (init pd))) [v] = [[dv1 (dv2 (f0 S (d_main (drun prog (dinit (init pd))))))]].
Proof.
  intros H1 H2 Hok. pose proof (hessian_entry_exact v v prog pd H1 H2 Hok) as E.
  unfold hessian. cbn [map]. now rewrite E.
Qed.

End Main2.
