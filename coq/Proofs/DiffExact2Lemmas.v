(* C03, second-order exactness -- part 1 (no derivation involved):
   generic association-list facts for any key type, and the characterisation of what a lookup of a
   (sorted) pair in the dictionary returned by [apply_order2] is: the option-sum of the previous
   entry pushed through the operator and of four term lists (coefficient term, current term, two
   cross terms), each read off the literal model. *)
From Coq Require Import List ZArith Lia Bool Arith.
From EPG Require Import Scalar State Ops ListLemmas Views Diff DiffLemmas DiffExact DiffOrder2.
Import ListNotations.

Lemma pair_eqb_spec (x y : pair) : reflect (x = y) (pair_eqb x y).
Proof.
  destruct x as [a b], y as [c d]. unfold pair_eqb; simpl.
  destruct (Nat.eqb_spec a c), (Nat.eqb_spec b d); simpl; constructor; congruence.
Qed.

Lemma Pair_le a b : a <= b -> Pair a b = (a, b).
Proof. intros H. unfold Pair. destruct (Nat.ltb_spec b a); [lia|reflexivity]. Qed.
Lemma Pair_ge a b : b <= a -> Pair a b = (b, a).
Proof. intros H. rewrite Pair_comm. now apply Pair_le. Qed.
Lemma Pair_sorted a b : fst (Pair a b) <= snd (Pair a b).
Proof. unfold Pair. destruct (Nat.ltb_spec b a); simpl; lia. Qed.

(* ================= generic association lists ================= *)
Section Keys2.
Context {Kt : Type} (eqb : Kt -> Kt -> bool).
Hypothesis eqb_spec : forall x y, reflect (x = y) (eqb x y).

Lemma alookup_In {V} k (d : list (Kt * V)) v : alookup eqb k d = Some v -> In (k, v) d.
Proof.
  induction d as [|[k' v'] d IH]; simpl; [discriminate|].
  destruct (eqb_spec k k') as [->|Hne].
  - intros H. injection H as ->. now left.
  - intros H. right. now apply IH.
Qed.

Lemma alookup_None_In {V} k (d : list (Kt * V)) : alookup eqb k d = None -> forall v, ~ In (k, v) d.
Proof.
  induction d as [|[k' v'] d IH]; simpl; auto.
  destruct (eqb_spec k k') as [->|Hne]; [discriminate|].
  intros H v [E|Hin]; [congruence|]. now apply (IH H v).
Qed.

Lemma In_alookup {V} k (d : list (Kt * V)) v : In (k, v) d -> exists v', alookup eqb k d = Some v'.
Proof.
  intros H. destruct (alookup eqb k d) as [v'|] eqn:E; [now exists v'|].
  exfalso. exact (alookup_None_In k d E v H).
Qed.

Lemma NoDup_alookup {V} k (d : list (Kt * V)) v :
  NoDup (map fst d) -> In (k, v) d -> alookup eqb k d = Some v.
Proof.
  induction d as [|[k' v'] d IH]; simpl; [intros _ []|].
  intros Hnd [E|Hin].
  - injection E as -> ->. now rewrite (eqb_refl eqb eqb_spec).
  - inversion Hnd as [|? ? Hnin Hnd']; subst.
    destruct (eqb_spec k k') as [->|Hne]; [|now apply IH].
    exfalso. apply Hnin. change k' with (fst (k', v)). now apply in_map.
Qed.

(* selecting the entries filed under a key: with unique keys this is the lookup *)
Lemma sel_alookup {V} k (d : list (Kt * list V)) :
  NoDup (map fst d) ->
  flat_map (fun vp => if eqb k (fst vp) then snd vp else []) d =
  match alookup eqb k d with Some l => l | None => [] end.
Proof.
  induction d as [|[k' l'] d IH]; simpl; auto.
  intros Hnd. inversion Hnd as [|? ? Hnin Hnd']; subst.
  destruct (eqb_spec k k') as [->|Hne]; [|now apply IH].
  rewrite IH by auto.
  destruct (alookup eqb k' d) as [l|] eqn:E; [|apply app_nil_r].
  exfalso. apply Hnin. apply alookup_In in E. change k' with (fst (k', l)). now apply in_map.
Qed.

Lemma aupsert_keys {V} k (v : V) f d x :
  In x (map fst (aupsert eqb k v f d)) -> x = k \/ In x (map fst d).
Proof.
  induction d as [|[k' v'] d IH]; simpl.
  - intros [E|[]]; auto.
  - destruct (eqb_spec k k') as [->|Hne]; simpl.
    + intros [E|H]; auto.
    + intros [E|H]; auto. destruct (IH H); auto.
Qed.

Lemma aupsert_nodup {V} k (v : V) f d : NoDup (map fst d) -> NoDup (map fst (aupsert eqb k v f d)).
Proof.
  induction d as [|[k' v'] d IH]; simpl; intros Hnd.
  - constructor; [intros []|constructor].
  - inversion Hnd as [|? ? Hnin Hnd']; subst.
    destruct (eqb_spec k k') as [->|Hne]; simpl.
    + now constructor.
    + constructor; [|now apply IH].
      intros H. apply aupsert_keys in H. destruct H as [E|H]; [congruence|contradiction].
Qed.

Lemma aupsert_absent {V} k (v : V) f d : alookup eqb k d = None -> aupsert eqb k v f d = d ++ [(k, v)].
Proof.
  induction d as [|[k' v'] d IH]; simpl; auto.
  destruct (eqb k k'); [discriminate|]. intros H. now rewrite IH.
Qed.

Lemma alookup_map_values_g {V W} (f : V -> W) k (d : list (Kt * V)) :
  alookup eqb k (map (fun kv => (fst kv, f (snd kv))) d) = omap f (alookup eqb k d).
Proof. induction d as [|[k' v] d IH]; simpl; auto. destruct (eqb k k'); auto. Qed.

Lemma alookup_filter_some_g {B} (f : Kt -> option B) l p :
  alookup eqb p (filter_some (map (fun q => (q, f q)) l)) = if existsb (eqb p) l then f p else None.
Proof.
  induction l as [|q l IH]; simpl; auto.
  unfold filter_some in *. simpl.
  destruct (f q) as [b|] eqn:Fq; simpl.
  - destruct (eqb_spec p q) as [->|Hne]; simpl; auto.
  - destruct (eqb_spec p q) as [->|Hne]; simpl; auto.
    rewrite IH. now destruct (existsb (eqb q) l).
Qed.

Lemma existsb_In_g p l : existsb (eqb p) l = true <-> In p l.
Proof.
  rewrite existsb_exists. split.
  - intros [x [Hx E]]. destruct (eqb_spec p x); [now subst|discriminate].
  - intros H. exists p. split; auto. apply (eqb_refl eqb eqb_spec).
Qed.

(* a dict comprehension: later entries overwrite *)
Definition as_dict {V} (l : list (Kt * V)) : list (Kt * V) :=
  fold_left (fun d kv => dict_set eqb (fst kv) (snd kv) d) l [].

Lemma alookup_dict_set {V} k k' (v : V) d :
  alookup eqb k (dict_set eqb k' v d) = if eqb k k' then Some v else alookup eqb k d.
Proof.
  unfold dict_set. rewrite (alookup_aupsert eqb eqb_spec).
  destruct (eqb k k'); auto. now destruct (alookup eqb k' d).
Qed.

Lemma alookup_fold_dict_set {V} k (l : list (Kt * V)) d0 :
  alookup eqb k (fold_left (fun d kv => dict_set eqb (fst kv) (snd kv) d) l d0) =
  match alookup eqb k (rev l) with Some v => Some v | None => alookup eqb k d0 end.
Proof.
  revert d0. induction l as [|[k' v] l IH]; intros d0; simpl; auto.
  rewrite IH, alookup_app. destruct (alookup eqb k (rev l)); auto.
  simpl. rewrite alookup_dict_set. now destruct (eqb k k').
Qed.

Lemma alookup_as_dict {V} k (l : list (Kt * V)) : alookup eqb k (as_dict l) = alookup eqb k (rev l).
Proof. unfold as_dict. rewrite alookup_fold_dict_set. now destruct (alookup eqb k (rev l)). Qed.

Lemma as_dict_nodup {V} (l : list (Kt * V)) : NoDup (map fst (as_dict l)).
Proof.
  unfold as_dict.
  assert (G : forall d0 : list (Kt * V), NoDup (map fst d0) ->
     NoDup (map fst (fold_left (fun d kv => dict_set eqb (fst kv) (snd kv) d) l d0))).
  { induction l as [|[k v] l IH]; intros d0 H; simpl; auto.
    apply IH. unfold dict_set. now apply aupsert_nodup. }
  apply G. constructor.
Qed.

(* a lookup in the comprehension: an entry of the source list under that key *)
Lemma as_dict_Some {V} k (l : list (Kt * V)) v : alookup eqb k (as_dict l) = Some v -> In (k, v) l.
Proof. rewrite alookup_as_dict. intros H. apply alookup_In in H. now apply in_rev. Qed.
Lemma as_dict_None {V} k (l : list (Kt * V)) : alookup eqb k (as_dict l) = None -> forall v, ~ In (k, v) l.
Proof.
  rewrite alookup_as_dict. intros H v Hin. apply (alookup_None_In k (rev l) H v). now apply -> in_rev.
Qed.

End Keys2.

(* ================= dictionaries of state matrices ================= *)
Section Acc.
Variable S : ScalOps.
Notation sm := (sm S).
Context {Kt : Type} (eqb : Kt -> Kt -> bool).
Hypothesis eqb_spec : forall x y, reflect (x = y) (eqb x y).

Lemma acc1_nodup_g k v (d : list (Kt * sm)) ok :
  NoDup (map fst d) -> NoDup (map fst (fst (acc1 S eqb k v (d, ok)))).
Proof.
  intros H. unfold acc1. destruct (alookup eqb k d) eqn:E; simpl.
  - now apply (aupsert_nodup eqb eqb_spec).
  - rewrite <- (aupsert_absent eqb k v (fun o => sm_add o v) d E). now apply (aupsert_nodup eqb eqb_spec).
Qed.

Lemma fold_acc1_nodup_g l (d : list (Kt * sm)) ok : NoDup (map fst d) ->
  NoDup (map fst (fst (fold_left (fun a kv => acc1 S eqb (fst kv) (snd kv) a) l (d, ok)))).
Proof.
  revert d ok. induction l as [|[k v] l IH]; intros d ok H; auto.
  cbn [fold_left fst snd].
  pose proof (acc1_nodup_g k v d ok H) as H'.
  destruct (acc1 S eqb k v (d, ok)) as [d' ok']. now apply IH.
Qed.

Lemma pick_unique_g k (d : list (Kt * sm)) : NoDup (map fst d) ->
  pick S eqb k d = match alookup eqb k d with Some x => [x] | None => [] end.
Proof.
  unfold pick. induction d as [|[k' v] d IH]; intros H; simpl; auto.
  inversion H as [|? ? Hnin Hnd]; subst.
  destruct (eqb_spec k k') as [->|Hne]; simpl.
  - rewrite IH by auto.
    destruct (alookup eqb k' d) eqn:E; auto.
    exfalso. apply Hnin. apply (alookup_In eqb eqb_spec) in E.
    change k' with (fst (k', s)). now apply in_map.
  - now apply IH.
Qed.

(* the scaled partials filed under key k by combine_partials *)
Definition sel {Kp} (k : Kt) (variables : list (Kt * list (Kp * S))) : list (Kp * S) :=
  flat_map (fun vp => if eqb k (fst vp) then snd vp else []) variables.
Definition scaled {Kp} (eqp : Kp -> Kp -> bool) (partials : list (Kp * sm)) (es : list (Kp * S)) : list sm :=
  flat_map (fun pc => match alookup eqp (fst pc) partials with
                      | Some x => [sm_scale (snd pc) x] | None => [] end) es.

Lemma pick_flat_terms_g {Kp} (eqp : Kp -> Kp -> bool) variables partials k :
  pick S eqb k (flat_terms S eqp variables partials) = scaled eqp partials (sel k variables).
Proof.
  unfold flat_terms, scaled, sel, pick.
  induction variables as [|[v' ps] vs IH]; cbn [flat_map]; auto.
  rewrite !flat_map_app, IH. f_equal. cbn [fst snd]. clear IH.
  destruct (eqb_spec k v') as [->|Hne].
  - induction ps as [|[p c] ps IH]; cbn [flat_map]; auto.
    rewrite flat_map_app, IH. f_equal. cbn [fst snd].
    destruct (alookup eqp p partials); cbn [flat_map fst snd app]; auto.
    now rewrite (eqb_refl eqb eqb_spec).
  - induction ps as [|[p c] ps IH]; cbn [flat_map]; auto.
    rewrite flat_map_app, IH. cbn [fst snd].
    destruct (alookup eqp p partials); cbn [flat_map fst snd app]; auto.
    destruct (eqb_spec k v'); [congruence|reflexivity].
Qed.

(* one "accumulate" step with a dictionary made by combine_partials *)
Lemma lookup_acc_combine {Kp} (eqp : Kp -> Kp -> bool) k acc variables partials :
  alookup eqb k (fst (fold_left (fun a kv => acc1 S eqb (fst kv) (snd kv) a)
                                (fst (combine_partials S eqb eqp variables partials)) acc)) =
  oadd S (alookup eqb k (fst acc)) (osum S (scaled eqp partials (sel k variables)) None).
Proof.
  rewrite (alookup_fold_acc1 S eqb eqb_spec).
  rewrite combine_partials_flat.
  rewrite pick_unique_g by (apply fold_acc1_nodup_g; constructor).
  rewrite (alookup_fold_acc1 S eqb eqb_spec). cbn [fst alookup].
  rewrite pick_flat_terms_g.
  destruct (osum S (scaled eqp partials (sel k variables)) None); destruct (alookup eqb k (fst acc)); reflexivity.
Qed.

End Acc.

(* ================= the pieces of apply_order2, named ================= *)
Section Order2Pieces.
Variable S : ScalOps.
Notation sm := (sm S).

Definition params1 (o : dop S) : list param :=
  dedup Nat.eqb (flat_map (fun pc : pair * list (param * S) => map fst (snd pc)) (d_order2 S o)).
Definition partials1 (o : dop S) (s : sm) : list (param * sm) :=
  filter_some (map (fun p => (p, derive1 S o s p)) (params1 o)).
Definition partials2 (o : dop S) (s : sm) : list (pair * sm) :=
  filter_some (map (fun pq => (pq, derive2 S o s pq)) (parameters_order2 S o)).
(* the products c1*c2 keyed by the sorted parameter pair; colliding keys accumulate *)
Definition coefdict (l1 l2 : list (param * S)) : list (pair * S) :=
  fold_left (fun d p1 => fold_left (fun d p2 =>
      aupsert pair_eqb (Pair (fst p1) (fst p2)) (kadd k0 (kmul (snd p1) (snd p2)))
              (fun old => kadd old (kmul (snd p1) (snd p2))) d) l2 d) l1 [].
Definition coeffs2 (o : dop S) : list (pair * list (pair * S)) :=
  map (fun vc : pair * list (param * S) =>
      let '(v1, v2) := fst vc in
      (Pair v1 v2, coefdict (order1_get S o v1) (order1_get S o v2))) (d_order2 S o).
Definition vars_cross (o : dop S) (order1 : list (var * sm)) : list pair :=
  if d_auto S o
  then dedup pair_eqb (flat_map (fun v1 : var * list (param * S) =>
                                   map (fun v2 : var * sm => Pair (fst v1) (fst v2)) order1) (d_order1 S o))
  else map fst (d_order2 S o).
Definition params_cross (o : dop S) (order1 : list (var * sm)) : list param :=
  dedup Nat.eqb (flat_map (fun pq : pair =>
      map fst (order1_get S o (fst pq)) ++ map fst (order1_get S o (snd pq))) (vars_cross o order1)).
Definition partialsx (o : dop S) (order1 : list (var * sm)) : list (pair * sm) :=
  filter_some (flat_map (fun vs : var * sm =>
      map (fun p => ((p, fst vs), derive1 S o (snd vs) p)) (params_cross o order1)) order1).
Definition mkcross (o : dop S) (order1 : list (var * sm)) (cmp : nat -> nat -> bool)
  : list (pair * list (pair * S)) :=
  flat_map (fun v1 : var * sm => flat_map (fun v2 : var * list (param * S) =>
     if existsb (pair_eqb (Pair (fst v1) (fst v2))) (vars_cross o order1) && cmp (fst v1) (fst v2)
     then [(Pair (fst v1) (fst v2), map (fun pc : param * S => ((fst pc, fst v1), snd pc)) (snd v2))] else [])
     (d_order1 S o)) order1.
Definition cmp_ge (a b : nat) : bool := b <=? a.
Definition cmp_le (a b : nat) : bool := a <=? b.

Lemma apply_order2_pieces o s order1 order2 :
  apply_order2 o s order1 order2 =
  accumulate S pair_eqb (map (fun ps => (fst ps, derive0 S o (snd ps))) order2, true)
    [combine_partials S pair_eqb Nat.eqb (d_order2 S o) (partials1 o s);
     combine_partials S pair_eqb pair_eqb (coeffs2 o) (partials2 o s);
     combine_partials S pair_eqb pair_eqb (as_dict pair_eqb (mkcross o order1 cmp_ge)) (partialsx o order1);
     combine_partials S pair_eqb pair_eqb (as_dict pair_eqb (mkcross o order1 cmp_le)) (partialsx o order1)].
Proof. reflexivity. Qed.

(* the four term lists seen by a lookup of key P *)
Definition t_coef (o : dop S) (s : sm) (P : pair) : list sm :=
  scaled S Nat.eqb (partials1 o s) (sel S pair_eqb P (d_order2 S o)).
Definition t_cur (o : dop S) (s : sm) (P : pair) : list sm :=
  scaled S pair_eqb (partials2 o s) (sel S pair_eqb P (coeffs2 o)).
Definition t_cross (o : dop S) (order1 : list (var * sm)) (cmp : nat -> nat -> bool) (P : pair) : list sm :=
  scaled S pair_eqb (partialsx o order1) (sel S pair_eqb P (as_dict pair_eqb (mkcross o order1 cmp))).

Theorem lookup_order2 o s order1 order2 P :
  alookup pair_eqb P (fst (apply_order2 o s order1 order2)) =
  oadd S (oadd S (oadd S (oadd S (omap (derive0 S o) (alookup pair_eqb P order2))
                                 (osum S (t_coef o s P) None))
                         (osum S (t_cur o s P) None))
                 (osum S (t_cross o order1 cmp_ge P) None))
         (osum S (t_cross o order1 cmp_le P) None).
Proof.
  rewrite apply_order2_pieces. unfold accumulate. cbn [fold_left fst snd].
  rewrite (lookup_acc_combine S pair_eqb pair_eqb_spec). cbn [fst].
  rewrite (lookup_acc_combine S pair_eqb pair_eqb_spec). cbn [fst].
  rewrite (lookup_acc_combine S pair_eqb pair_eqb_spec). cbn [fst].
  rewrite (lookup_acc_combine S pair_eqb pair_eqb_spec). cbn [fst].
  rewrite (alookup_map_values_g pair_eqb).
  reflexivity.
Qed.

End Order2Pieces.
