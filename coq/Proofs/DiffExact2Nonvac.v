(* Non-vacuity of the second-order exactness theorems (C03): over the ring of "double dual numbers"
   a + ax x + ay y + axy xy  (x^2 = y^2 = 0), the two Euler operators  dvx = x d/dx  and  dvy = y d/dy
   are commuting, non-trivial derivations.  A ScalarOp whose arrays are such polynomials and whose
   declared first / second derivative arrays are dvx, dvy, dvx dvy (dvx dvx, dvy dvy) of them meets the
   hypotheses [instr_ok12]; on an executed program (mixing, operator, shift, mixing, operator) the
   mixed Hessian entry is non-zero. *)
From Coq Require Import List ZArith Lia Bool Arith Ring.
From EPG Require Import Scalar QI Dual State Ops ListLemmas Views Diff DiffLemmas DiffExact DiffOrder2
  DiffExact2Lemmas DiffExact2.
Import ListNotations.

Section Nonvac2.
Variable S : ScalOps.
Hypothesis L : ScalLaws S.
Add Ring Kr4 : (k_ring S L).
Notation D1 := (DualOps S).
Notation D2 := (DualOps (DualOps S)).

Definition L1 : ScalLaws D1 := DualLaws S L.
Definition L2 : ScalLaws D2 := DualLaws D1 L1.

(* z = (a + ax x) + (ay + axy x) y *)
Definition dvy (z : D2) : D2 := dual_dv D1 z.
Definition dvx (z : D2) : D2 := ((dual_dv S (fst z), dual_dv S (snd z)) : dual D1).

Lemma d2_ext (z w : D2) :
  fst (fst z) = fst (fst w) -> snd (fst z) = snd (fst w) ->
  fst (snd z) = fst (snd w) -> snd (snd z) = snd (snd w) -> z = w.
Proof. intros A B C D. apply dual_ext; apply dual_ext; assumption. Qed.

Lemma dvy_add (z w : D2) : dvy (@kadd D2 z w) = @kadd D2 (dvy z) (dvy w).
Proof. apply (dual_dv_add D1 L1). Qed.
Lemma dvy_mul (z w : D2) : dvy (@kmul D2 z w) = @kadd D2 (@kmul D2 (dvy z) w) (@kmul D2 z (dvy w)).
Proof. apply (dual_dv_mul D1 L1). Qed.
Lemma dvx_add (z w : D2) : dvx (@kadd D2 z w) = @kadd D2 (dvx z) (dvx w).
Proof. apply d2_ext; simpl; ring. Qed.
Lemma dvx_mul (z w : D2) : dvx (@kmul D2 z w) = @kadd D2 (@kmul D2 (dvx z) w) (@kmul D2 z (dvx w)).
Proof. apply d2_ext; simpl; ring. Qed.
Lemma dvxy_comm (z : D2) : dvx (dvy z) = dvy (dvx z).
Proof. apply d2_ext; reflexivity. Qed.

Definition mk4 (a ax ay axy : S) : D2 := (((a, ax) : dual S, (ay, axy) : dual S) : dual D1).
Definition lift4 (a ax ay axy : triple S) : triple D2 :=
  @mk3 D2 (mk4 (fp a) (fp ax) (fp ay) (fp axy)) (mk4 (fm a) (fm ax) (fm ay) (fm axy))
          (mk4 (fz a) (fz ax) (fz ay) (fz axy)).
Notation z3 := (@t0 S).

(* ScalarOp(arr = a + ax x + ay y + axy xy, arr0 likewise;
            darrs = {p0: dvx arr, p1: dvy arr}; d2arrs = {(p0,p0), (p0,p1), (p1,p1)};
            order1 = {v0: {p0: 1}, v1: {p1: 1}}; order2 = True) *)
Definition nv2_op (a ax ay axy b bx by_ bxy : triple S) : dop D2 :=
  mkDop (LScalar (lift4 a ax ay axy) (Some (lift4 b bx by_ bxy)))
        [(0%nat, LScalar (lift4 z3 ax z3 axy) (Some (lift4 z3 bx z3 bxy)));
         (1%nat, LScalar (lift4 z3 z3 ay axy) (Some (lift4 z3 z3 by_ bxy)))]
        [((0%nat, 0%nat), LScalar (lift4 z3 ax z3 axy) (Some (lift4 z3 bx z3 bxy)));
         ((0%nat, 1%nat), LScalar (lift4 z3 z3 z3 axy) (Some (lift4 z3 z3 z3 bxy)));
         ((1%nat, 1%nat), LScalar (lift4 z3 z3 ay axy) (Some (lift4 z3 z3 by_ bxy)))]
        [(0%nat, [(0%nat, @k1 D2)]); (1%nat, [(1%nat, @k1 D2)])]
        [((0%nat, 0%nat), []); ((0%nat, 1%nat), []); ((1%nat, 1%nat), [])]
        true
        [(0%nat, 0%nat); (0%nat, 1%nat); (1%nat, 1%nat)].

Ltac d2_solve := apply (triple_ext D2); cbn; apply d2_ext; cbn; ring.

Lemma nv2_instr_ok a ax ay axy b bx by_ bxy bb :
  instr_ok12 D2 dvx dvy 0 1 bb (DOp (nv2_op a ax ay axy b bx by_ bxy)).
Proof.
  split; [|split].
  - split.
    + intros p l H. simpl in H. destruct (Nat.eqb p 0); [inversion H; reflexivity|].
      destruct (Nat.eqb p 1); inversion H. reflexivity.
    + cbn [is_shift nv2_op d_lin]. intros x e.
      unfold eff, entries, eff_step, lact. cbn. d2_solve.
  - split.
    + intros p l H. simpl in H. destruct (Nat.eqb p 0); [inversion H; reflexivity|].
      destruct (Nat.eqb p 1); inversion H. reflexivity.
    + cbn [is_shift nv2_op d_lin]. intros x e.
      unfold eff, entries, eff_step, lact. cbn. d2_solve.
  - cbn [instr_ok2 is_shift nv2_op d_lin]. split; [|split; [|split]].
    + unfold wf1. cbn. repeat constructor; simpl; intuition discriminate.
    + intros pq l H. cbn in H.
      repeat (match type of H with (if ?c then _ else _) = _ => destruct c end;
              [inversion H; reflexivity|]). discriminate H.
    + intros x e. unfold ctact, cuact, pair_act, lsum, sel, d2act, lapp, lact. cbn. d2_solve.
    + right. left. split; [reflexivity|left; discriminate].
Qed.

(* a constant (x- and y-free) MatrixOp without declarations *)
Definition clift4 (a : triple S) : triple D2 := lift4 a z3 z3 z3.
Definition nv2_const (m : mat3 S) : dop D2 :=
  mkDop (LMatrix (@mkM D2 (clift4 (row0 m)) (clift4 (row1 m)) (clift4 (row2 m))) None) [] [] [] [] true [].

Lemma nv2_const_ok m bb : instr_ok12 D2 dvx dvy 0 1 bb (DOp (nv2_const m)).
Proof.
  split; [|split].
  - split; [intros p l H; discriminate H|].
    cbn [is_shift nv2_const d_lin]. intros x e. unfold eff, entries, eff_step, lact. cbn. d2_solve.
  - split; [intros p l H; discriminate H|].
    cbn [is_shift nv2_const d_lin]. intros x e. unfold eff, entries, eff_step, lact. cbn. d2_solve.
  - cbn [instr_ok2 is_shift nv2_const d_lin]. split; [|split; [|split]].
    + constructor.
    + intros pq l H. discriminate H.
    + intros x e. unfold ctact, cuact, pair_act, lsum, sel, lact. cbn. d2_solve.
    + left. split; reflexivity.
Qed.

(* a shift: no derivative arrays, nothing declared *)
Definition nv2_shift (d : Z) : dop D2 := mkDop (LShift d None) [] [] [] [] true [].
Lemma nv2_shift_ok d bb : instr_ok12 D2 dvx dvy 0 1 bb (DOp (nv2_shift d)).
Proof.
  split; [|split]; cbn [instr_ok instr_ok2 nv2_shift d_lin is_shift d_order1 d_order2]; auto;
  split; auto; intros p l H; discriminate H.
Qed.

End Nonvac2.

(* executed instance over the Gaussian rationals: mixing, operator, shift, mixing, operator *)
Definition D2q : ScalOps := DualOps (DualOps QIops).
Definition nv2_prog : list (dinstr D2q) :=
  let a   := @mk3 QIops (qi 1 2 1 2) (qi 1 2 (-1) 2) (qr 1 2) in
  let ax  := @mk3 QIops (qi 1 1 0 1) (qi 1 1 0 1) (qr (-1) 2) in
  let ay  := @mk3 QIops (qi 0 1 1 1) (qi 0 1 (-1) 1) (qr 1 3) in
  let axy := @mk3 QIops (qr 1 2) (qr 1 2) (qr 2 1) in
  let b   := @mk3 QIops (qr 0 1) (qr 0 1) (qr 1 2) in
  let bx  := @mk3 QIops (qr 0 1) (qr 0 1) (qr 1 4) in
  let by_ := @mk3 QIops (qr 0 1) (qr 0 1) (qr (-1) 3) in
  let bxy := @mk3 QIops (qr 0 1) (qr 0 1) (qr 1 5) in
  let m := @mkM QIops (@mk3 QIops (qr 1 2) (qr 1 2) (qi 0 1 (-1) 1)) (@mk3 QIops (qr 1 2) (qr 1 2) (qi 0 1 1 1))
                      (@mk3 QIops (qi 0 1 (-1) 2) (qi 0 1 1 2) (qr 0 1)) in
  let op := nv2_op QIops a ax ay axy b bx by_ bxy in
  [DOp (nv2_const QIops m); DOp op; DOp (nv2_shift QIops 1); DOp (nv2_const QIops m); DOp op].
Definition nv2_pd : D2q := ((qr 1 1, qi0), (qi0, qi0)).

Lemma nv2_prog_ok : List.Forall (instr_ok12 D2q (dvx QIops) (dvy QIops) 0 1 false) nv2_prog.
Proof.
  unfold nv2_prog. cbv zeta.
  repeat (apply Forall_cons;
    [first [apply (nv2_const_ok QIops QIlaws)|apply (nv2_instr_ok QIops QIlaws)|apply (nv2_shift_ok QIops)]|]).
  apply Forall_nil.
Qed.

Lemma nv2_hessian_nonzero :
  nth 1 (nth 0 (hessian (drun nv2_prog (dinit (@init D2q nv2_pd))) [0%nat; 1%nat]) []) (@k0 D2q) <> @k0 D2q.
Proof. vm_compute. intros H. discriminate H. Qed.

(* the hypotheses of hessian_exact are satisfiable with a non-zero mixed second-order partial:
   two commuting derivations, a constant initial state, a program meeting instr_ok12 *)
Theorem nv2_witness :
  exists (S : ScalOps) (dv1 dv2 : S -> S) (prog : list (dinstr S)) (pd : S) (v1 v2 : var),
    ScalLaws S /\
    (forall x y, dv1 (x + y)%K = (dv1 x + dv1 y)%K) /\ (forall x y, dv1 (x * y)%K = (dv1 x * y + x * dv1 y)%K) /\
    (forall x y, dv2 (x + y)%K = (dv2 x + dv2 y)%K) /\ (forall x y, dv2 (x * y)%K = (dv2 x * y + x * dv2 y)%K) /\
    (forall x, dv1 (dv2 x) = dv2 (dv1 x)) /\
    dv1 pd = k0 /\ dv2 pd = k0 /\
    List.Forall (instr_ok12 S dv1 dv2 v1 v2 false) prog /\
    nth 1 (nth 0 (hessian (drun prog (dinit (init pd))) [v1; v2]) []) k0 <> k0 /\
    nth 1 (nth 0 (hessian (drun prog (dinit (init pd))) [v1; v2]) []) k0 =
      dv1 (dv2 (f0 S (d_main (drun prog (dinit (init pd)))))).
Proof.
  exists D2q, (dvx QIops), (dvy QIops), nv2_prog, nv2_pd, 0%nat, 1%nat.
  pose proof (L2 QIops QIlaws) as LL.
  pose proof (dvx_add QIops QIlaws) as A1. pose proof (dvx_mul QIops QIlaws) as M1.
  pose proof (dvy_add QIops QIlaws) as A2. pose proof (dvy_mul QIops QIlaws) as M2.
  pose proof (dvxy_comm QIops) as C.
  assert (P1 : dvx QIops nv2_pd = @k0 D2q) by reflexivity.
  assert (P2 : dvy QIops nv2_pd = @k0 D2q) by reflexivity.
  split; [exact LL|]. split; [exact A1|]. split; [exact M1|]. split; [exact A2|]. split; [exact M2|].
  split; [exact C|]. split; [exact P1|]. split; [exact P2|].
  split; [exact nv2_prog_ok|]. split; [exact nv2_hessian_nonzero|].
  pose proof (prog_ok_static D2q (dvx QIops) (dvy QIops) 0%nat 1%nat nv2_prog nv2_prog_ok
                (dinit (@init D2q nv2_pd))) as Hok.
  destruct (hessian_exact D2q LL (dvx QIops) (dvy QIops) A1 M1 A2 M2 C 0%nat 1%nat nv2_prog nv2_pd P1 P2 Hok)
    as [E _].
  exact E.
Qed.
