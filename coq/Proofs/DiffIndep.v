(* C19 (second half): each first-order partial depends only on its own variable's declarations:
   computed alone or together with any other variables, under any renaming, it is the same. *)
From Coq Require Import List ZArith Lia Bool Arith.
From EPG Require Import Scalar QI State Ops Diff DiffLemmas DiffBasic DiffExact.
Import ListNotations.

Section DiffIndep.
Variable S : ScalOps.
Notation sm := (sm S).

Lemma lookup_dapply o ds v :
  alookup Nat.eqb v (d_p1 (dapply o ds)) =
  oadd S (omap (derive0 S o) (alookup Nat.eqb v (d_p1 ds))) (osum S (terms S o (d_main ds) v) None).
Proof.
  unfold dapply. cbn [d_p1].
  destruct (nonempty (d_p1 ds) || nonempty (d_order1 S o)) eqn:E.
  - apply lookup_order1.
  - apply orb_false_elim in E. destruct E as [E1 E2].
    destruct (d_p1 ds); [|discriminate]. cbn [fst alookup omap].
    unfold terms, entries. destruct (d_order1 S o); [|discriminate]. reflexivity.
Qed.

(* two instructions agree "as far as variable v (renamed v') is concerned" *)
Definition same_for (v v' : var) (i i' : dinstr S) : Prop :=
  match i, i' with
  | DOp o, DOp o' => d_lin S o = d_lin S o' /\ d_darrs S o = d_darrs S o' /\ entries S o v = entries S o' v'
  | DPlain o, DPlain o' => o = o'
  | _, _ => False
  end.

Lemma terms_same v v' o o' s :
  d_darrs S o = d_darrs S o' -> entries S o v = entries S o' v' -> terms S o s v = terms S o' s v'.
Proof. intros Hd He. unfold terms, derive1. now rewrite He, Hd. Qed.

Theorem partial_independent_step v v' i i' ds ds' :
  same_for v v' i i' -> d_main ds = d_main ds' ->
  alookup Nat.eqb v (d_p1 ds) = alookup Nat.eqb v' (d_p1 ds') ->
  d_main (dstep i ds) = d_main (dstep i' ds') /\
  alookup Nat.eqb v (d_p1 (dstep i ds)) = alookup Nat.eqb v' (d_p1 (dstep i' ds')).
Proof.
  intros Hs Hm Hp. destruct i as [o|o], i' as [o'|o']; try contradiction; cbn [dstep].
  - destruct Hs as (Hl & Hd & He). split.
    + unfold dapply; cbn [d_main]. now rewrite Hl, Hm.
    + rewrite !lookup_dapply, Hp, Hm, (terms_same v v' o o' _ Hd He).
      unfold derive0. now rewrite Hl.
  - simpl in Hs. subst o'. cbn [d_main d_p1]. split; [now rewrite Hm|].
    unfold map_partials. now rewrite !alookup_map_values, Hp.
Qed.

Theorem partial_independent v v' prog prog' ds ds' :
  Forall2 (same_for v v') prog prog' -> d_main ds = d_main ds' ->
  alookup Nat.eqb v (d_p1 ds) = alookup Nat.eqb v' (d_p1 ds') ->
  d_main (drun prog ds) = d_main (drun prog' ds') /\
  alookup Nat.eqb v (d_p1 (drun prog ds)) = alookup Nat.eqb v' (d_p1 (drun prog' ds')).
Proof.
  intros H. revert ds ds'. induction H as [|i i' prog prog' Hi Hrest IH]; intros ds ds' Hm Hp; simpl; auto.
  unfold drun in *. simpl.
  destruct (partial_independent_step v v' i i' ds ds' Hi Hm Hp) as [E1 E2].
  now apply IH.
Qed.

(* in particular the Jacobian column of v is unaffected by what else is differentiated *)
Corollary jacobian_column_independent v v' prog prog' pd :
  Forall2 (same_for v v') prog prog' ->
  jacobian (drun prog (dinit (init pd))) [v] = jacobian (drun prog' (dinit (init pd))) [v'].
Proof.
  intros H. destruct (partial_independent v v' prog prog' (dinit (init pd)) (dinit (init pd)) H eq_refl eq_refl) as [_ E].
  unfold jacobian. cbn [map]. now rewrite E.
Qed.

End DiffIndep.

(* regression witness of the former finding (fixed by /repo 8521bf9): operators without differentiable parameter
   act on the partials too -- after a spoiler the signal is 0 and so is the carried Jacobian entry, which was
   non-zero just before it *)
Lemma spoiler_acts_on_partials :
  exists (prog : list (dinstr QIops)) (v : var),
    jacobian (drun prog (dinit (@init QIops (qr 1 1)))) [v] <> [qi0] /\
    f0 QIops (d_main (drun (prog ++ [DPlain (@OSpoil QIops)]) (dinit (@init QIops (qr 1 1))))) = qi0 /\
    jacobian (drun (prog ++ [DPlain (@OSpoil QIops)]) (dinit (@init QIops (qr 1 1)))) [v] = [qi0].
Proof.
  exists [DOp (mkDop (LMatrix (@mkM QIops (@mk3 QIops (qr 1 2) (qr 1 2) (qi 0 1 (-1) 1))
                                          (@mk3 QIops (qr 1 2) (qr 1 2) (qi 0 1 1 1))
                                          (@mk3 QIops (qi 0 1 (-1) 2) (qi 0 1 1 2) (qr 0 1))) None)
                     [(0%nat, LMatrix (@mkM QIops (@mk3 QIops (qr 0 1) (qr 0 1) (qr 1 1))
                                                  (@mk3 QIops (qr 0 1) (qr 0 1) (qr 1 1))
                                                  (@mk3 QIops (qr 0 1) (qr 0 1) (qr 0 1))) None)]
                     [] [(0%nat, [(0%nat, qr 1 1)])] [] true [])], 0%nat.
  split; [vm_compute; intros H; discriminate H|split; vm_compute; reflexivity].
Qed.
