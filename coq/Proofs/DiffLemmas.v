(* Characterisation of the dictionary bookkeeping of Model/Diff.v:
   what a lookup in the result of acc1 / accumulate / combine_partials / apply_order1 returns. *)
From Coq Require Import List ZArith Lia Bool Arith.
From EPG Require Import Scalar State Ops Diff.
Import ListNotations.

Section DiffLemmas.
Variable S : ScalOps.
Notation sm := (sm S).

(* option-sum of state matrices, left to right, as the in-place += does *)
Definition oadd (a : option sm) (b : option sm) : option sm :=
  match a, b with
  | Some x, Some y => Some (sm_add x y)
  | Some x, None => Some x
  | None, b => b
  end.
Definition osum (l : list sm) (init : option sm) : option sm :=
  fold_left (fun acc x => oadd acc (Some x)) l init.

Section Keys.
Context {Kt : Type} (eqb : Kt -> Kt -> bool).
Hypothesis eqb_spec : forall x y, reflect (x = y) (eqb x y).

Lemma eqb_refl x : eqb x x = true.
Proof. destruct (eqb_spec x x); congruence. Qed.

Lemma alookup_app {V} k (d d' : list (Kt * V)) :
  alookup eqb k (d ++ d') = match alookup eqb k d with Some v => Some v | None => alookup eqb k d' end.
Proof.
  induction d as [|[k' v] d IH]; simpl; auto.
  destruct (eqb k k'); auto.
Qed.

Lemma alookup_aupsert {V} k k' (v : V) f d :
  alookup eqb k (aupsert eqb k' v f d) =
  if eqb k k' then Some (match alookup eqb k' d with Some o => f o | None => v end)
  else alookup eqb k d.
Proof.
  induction d as [|[k2 v2] d IH]; simpl.
  - destruct (eqb k k'); auto.
  - destruct (eqb_spec k' k2) as [->|Hne]; simpl.
    + destruct (eqb_spec k k2) as [->|H2]; auto.
    + destruct (eqb_spec k k2) as [->|H2].
      * destruct (eqb_spec k2 k') as [E|_]; [congruence|reflexivity].
      * rewrite IH. reflexivity.
Qed.

(* one accumulation step *)
Lemma alookup_acc1 k k' (v : sm) d ok :
  alookup eqb k (fst (acc1 S eqb k' v (d, ok))) =
  if eqb k k' then oadd (alookup eqb k' d) (Some v) else alookup eqb k d.
Proof.
  unfold acc1. destruct (alookup eqb k' d) as [old|] eqn:E; simpl.
  - rewrite alookup_aupsert, E. reflexivity.
  - rewrite alookup_app. simpl.
    destruct (eqb_spec k k') as [->|Hne].
    + now rewrite E.
    + now destruct (alookup eqb k d).
Qed.

(* folding acc1 over a list of (key, value): a lookup sees exactly the values filed under its key *)
Definition pick (k : Kt) (l : list (Kt * sm)) : list sm :=
  flat_map (fun kv => if eqb k (fst kv) then [snd kv] else []) l.

Lemma osum_app l l' init : osum (l ++ l') init = osum l' (osum l init).
Proof. unfold osum. now rewrite fold_left_app. Qed.

Lemma alookup_fold_acc1 k (l : list (Kt * sm)) acc :
  alookup eqb k (fst (fold_left (fun a kv => acc1 S eqb (fst kv) (snd kv) a) l acc)) =
  osum (pick k l) (alookup eqb k (fst acc)).
Proof.
  revert acc. induction l as [|[k' v] l IH]; intros [d ok]; auto.
  cbn [fold_left fst snd]. rewrite IH.
  change (pick k ((k', v) :: l)) with ((if eqb k k' then [v] else []) ++ pick k l).
  rewrite osum_app. f_equal.
  rewrite (alookup_acc1 k k' v d ok).
  destruct (eqb_spec k k') as [->|Hne]; reflexivity.
Qed.

End Keys.

(* combine_partials = accumulation over the flattened list of scaled partials *)
Definition flat_terms {Kv Kp} (eqp : Kp -> Kp -> bool)
  (variables : list (Kv * list (Kp * S))) (partials : list (Kp * sm)) : list (Kv * sm) :=
  flat_map (fun vp => flat_map (fun pc =>
     match alookup eqp (fst pc) partials with
     | Some s => [(fst vp, sm_scale (snd pc) s)]
     | None => []
     end) (snd vp)) variables.

Lemma combine_partials_flat {Kv Kp} (eqv : Kv -> Kv -> bool) (eqp : Kp -> Kp -> bool) variables partials :
  combine_partials S eqv eqp variables partials =
  fold_left (fun a kv => acc1 S eqv (fst kv) (snd kv) a) (flat_terms eqp variables partials) ([], true).
Proof.
  unfold combine_partials, flat_terms.
  generalize (@nil (Kv * sm), true) as acc.
  induction variables as [|[v ps] vs IH]; intros acc; simpl; auto.
  rewrite fold_left_app, <- IH. f_equal.
  clear IH. revert acc. induction ps as [|[p c] ps IH2]; intros acc; simpl; auto.
  destruct (alookup eqp p partials); simpl; rewrite <- IH2; reflexivity.
Qed.

End DiffLemmas.
