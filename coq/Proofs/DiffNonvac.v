(* Non-vacuity of the derivation-exactness theorems (C02): over the dual numbers a + a' x with the
   Euler derivation, every ScalarOp whose arrays are  a + a' x  and whose declared derivative array is
   a' x  satisfies the chain-rule hypothesis [instr_ok]; on the executed instance the resulting
   Jacobian entry is non-zero. *)
From Coq Require Import List ZArith Lia Bool Arith Ring.
From EPG Require Import Scalar QI Dual State Ops ListLemmas Views Diff DiffLemmas DiffExact.
Import ListNotations.

Section Nonvac.
Variable S : ScalOps.
Hypothesis L : ScalLaws S.
Add Ring Kr : (k_ring S L).
Notation D := (DualOps S).

Definition lift (a a' : triple S) : triple D :=
  @mk3 D (fp a, fp a') (fm a, fm a') (fz a, fz a').
Definition dlift (a' : triple S) : triple D :=
  @mk3 D (k0, fp a') (k0, fm a') (k0, fz a').

(* ScalarOp(arr = a + a' x, arr0 = b + b' x, darrs = {p: (a' x, b' x)}, order1 = {v: {p: 1}}) *)
Definition nv_op (a a' b b' : triple S) : dop D :=
  mkDop (LScalar (lift a a') (Some (lift b b')))
        [(0%nat, LScalar (dlift a') (Some (dlift b')))] []
        [(0%nat, [(0%nat, @k1 D)])] [] true [].

Lemma nv_instr_ok a a' b b' : instr_ok D (dual_dv S) 0 (DOp (nv_op a a' b b')).
Proof.
  split.
  - intros p l H. simpl in H. destruct (Nat.eqb p 0); inversion H. reflexivity.
  - cbn [is_shift nv_op d_lin]. intros x e.
    unfold eff, entries, eff_step, lact. cbn.
    apply (triple_ext D); cbn; apply dual_ext; cbn; ring.
Qed.

(* a constant (x-free) MatrixOp without declarations also meets the hypothesis *)
Definition clift (a : triple S) : triple D := lift a (@t0 S).
Definition nv_const (m : mat3 S) : dop D :=
  mkDop (LMatrix (@mkM D (clift (row0 m)) (clift (row1 m)) (clift (row2 m))) None) [] [] [] [] true [].

Lemma nv_const_ok m : instr_ok D (dual_dv S) 0 (DOp (nv_const m)).
Proof.
  split.
  - intros p l H. discriminate H.
  - cbn [is_shift nv_const d_lin]. intros x e.
    unfold eff, entries, eff_step, lact. cbn.
    apply (triple_ext D); cbn; apply dual_ext; cbn; ring.
Qed.

End Nonvac.

(* executed instance: T-like mixing, then the differentiated operator, Jacobian entry <> 0 *)
Example nv_jacobian_nonzero :
  let a  := @mk3 QIops (qi 1 2 1 2) (qi 1 2 (-1) 2) (qr 1 2) in
  let a' := @mk3 QIops (qi 1 1 0 1) (qi 1 1 0 1) (qr (-1) 2) in
  let b  := @mk3 QIops (qr 0 1) (qr 0 1) (qr 1 2) in
  let b' := @mk3 QIops (qr 0 1) (qr 0 1) (qr 1 4) in
  let m := @mkM QIops (@mk3 QIops (qr 1 2) (qr 1 2) (qi 0 1 (-1) 1)) (@mk3 QIops (qr 1 2) (qr 1 2) (qi 0 1 1 1))
                      (@mk3 QIops (qi 0 1 (-1) 2) (qi 0 1 1 2) (qr 0 1)) in
  let prog := [DOp (nv_const QIops m); DOp (nv_op QIops a a' b b')] in
  List.Forall (instr_ok (DualOps QIops) (dual_dv QIops) 0) prog /\
  jacobian (drun prog (dinit (@init (DualOps QIops) ((qr 1 1, qi0) : DualOps QIops)))) [0%nat]
    <> [@k0 (DualOps QIops)].
Proof.
  cbv zeta. split.
  - repeat constructor; [apply (nv_const_ok QIops QIlaws)|apply (nv_instr_ok QIops QIlaws)].
  - vm_compute. intros H. discriminate H.
Qed.
