(* C03: structural facts about the second-order bookkeeping model. *)
From Coq Require Import List ZArith Lia Bool Arith.
From EPG Require Import Scalar QI State Ops Diff.
Import ListNotations.

Section DiffOrder2.
Variable S : ScalOps.

Lemma Pair_comm a b : Pair a b = Pair b a.
Proof.
  unfold Pair. destruct (Nat.ltb_spec b a); destruct (Nat.ltb_spec a b); auto; try lia.
  assert (a = b) by lia. now subst.
Qed.

Lemma nth_map_err {A B : Type} (g : A -> B) l n d :
  nth n (map g l) d = match nth_error l n with Some a => g a | None => d end.
Proof. revert n. induction l as [|x l IH]; intros [|n]; simpl; auto. Qed.

Lemma nth_nth_map2 {A B : Type} (f : A -> A -> B) vars i j d :
  nth j (nth i (map (fun v1 => map (fun v2 => f v1 v2) vars) vars) []) d =
  match nth_error vars i, nth_error vars j with Some a, Some b => f a b | _, _ => d end.
Proof.
  rewrite (nth_map_err (fun v1 => map (fun v2 => f v1 v2) vars) vars i []).
  destruct (nth_error vars i) as [a|].
  - apply (nth_map_err (fun v2 => f a v2) vars j d).
  - now destruct j.
Qed.

(* H[a,b] == H[b,a]: the probe reads the single entry stored under the sorted pair *)
Theorem hessian_symmetric (ds : dstate S) (vars : list var) i j :
  nth j (nth i (hessian ds vars) []) k0 = nth i (nth j (hessian ds vars) []) k0.
Proof.
  unfold hessian.
  rewrite !(nth_nth_map2 (fun v1 v2 => match alookup pair_eqb (Pair v1 v2) (d_p2 ds) with Some s => f0 S s | None => k0 end)).
  unfold var in *.
  destruct (nth_error vars i) as [a|]; destruct (nth_error vars j) as [b|]; auto.
  now rewrite (Pair_comm a b).
Qed.

(* a pair nobody declared and no partial carries stays absent: the probe returns zero for it *)
Theorem hessian_absent_zero (ds : dstate S) (u v : var) :
  alookup pair_eqb (Pair u v) (d_p2 ds) = None -> hessian ds [u; v] = hessian ds [u; v] /\
  nth 1 (nth 0 (hessian ds [u; v]) []) k0 = k0.
Proof. intros H. split; auto. unfold hessian. simpl. now rewrite H. Qed.

End DiffOrder2.

(* ---- the declared form order2 = [names] and variables driving two parameters ---- *)
(* Python's dict comprehension for the products c1*c2 keyed by the SORTED parameter pair overwrote
   colliding entries (diff.py order2_coeffs); the repaired code accumulates.  The model follows the code. *)
