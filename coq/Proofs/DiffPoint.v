(* C02, point derivations: the two-ring version of DiffExact.
   K = S1 is the ring in which the PLAIN simulation runs, L = S2 the ring in which diff.py's bookkeeping
   runs; ev : K -> L is a ring homomorphism ("value at the point") and dv : K -> L a point derivation
   over it (additive, dv(xy) = dv x * ev y + ev x * dv y: "derivative at the point").
   If every operator's arrays over L are the values of the arrays over K, and dv of the arrays over K
   is the declared combination of the derivative arrays (chain rule), then for EVERY program the state
   carried by the bookkeeping is ev of the plain state and the partial carried for variable v is dv of
   the plain state.  Instantiated at K = dual numbers over C, ev = value part, dv = dual part, this
   links the bookkeeping over C to forward-mode differentiation (Proofs/Jet.v does the analysis). *)
From Coq Require Import List ZArith Lia Bool Arith Ring.
From EPG Require Import Scalar State Ops ListLemmas Views Diff DiffLemmas DiffExact.
Import ListNotations.

Section DiffPoint.
Variable S1 S2 : ScalOps.
Hypothesis L1 : ScalLaws S1.
Hypothesis L2 : ScalLaws S2.
Add Ring Kr1 : (k_ring S1 L1).
Add Ring Kr2 : (k_ring S2 L2).
Local Open Scope Z_scope.

Variable ev dv : S1 -> S2.
Hypothesis ev_0 : ev k0 = k0.
Hypothesis ev_add : forall x y, ev (x + y)%K = (ev x + ev y)%K.
Hypothesis ev_mul : forall x y, ev (x * y)%K = (ev x * ev y)%K.
Hypothesis dv_add : forall x y, dv (x + y)%K = (dv x + dv y)%K.
Hypothesis dv_mul : forall x y, dv (x * y)%K = (dv x * ev y + ev x * dv y)%K.

Lemma pdv_0 : dv k0 = k0.
Proof.
  assert (H : dv k0 = (dv k0 + dv k0)%K) by (rewrite <- dv_add; f_equal; ring).
  transitivity ((dv k0 + dv k0) - dv k0)%K; [ring|rewrite <- H; ring].
Qed.

Definition evT (t : triple S1) : triple S2 := mk3 (ev (fp t)) (ev (fm t)) (ev (fz t)).
Definition dvT (t : triple S1) : triple S2 := mk3 (dv (fp t)) (dv (fm t)) (dv (fz t)).
Definition evM (m : mat3 S1) : mat3 S2 := mkM (evT (row0 m)) (evT (row1 m)) (evT (row2 m)).
Definition dvM (m : mat3 S1) : mat3 S2 := mkM (dvT (row0 m)) (dvT (row1 m)) (dvT (row2 m)).

Lemma evT_t0 : evT t0 = t0.
Proof. unfold evT, t0; simpl. now rewrite ev_0. Qed.
Lemma dvT_t0 : dvT t0 = t0.
Proof. unfold dvT, t0; simpl. now rewrite pdv_0. Qed.

Lemma evT_lact M M0 (x e : triple S1) :
  evT (lact S1 M M0 x e) = lact S2 (evM M) (evM M0) (evT x) (evT e).
Proof.
  unfold lact, evT, evM, mv, dot, tadd; simpl. rewrite !ev_add, !ev_mul.
  apply (triple_ext S2); simpl; ring.
Qed.
Lemma dvT_lact M M0 (x e : triple S1) :
  dvT (lact S1 M M0 x e) =
  tadd (lact S2 (dvM M) (dvM M0) (evT x) (evT e)) (lact S2 (evM M) (evM M0) (dvT x) (dvT e)).
Proof.
  unfold lact, dvT, evT, dvM, evM, mv, dot, tadd; simpl. rewrite !dv_add, !dv_mul.
  apply (triple_ext S2); simpl; ring.
Qed.

(* the operator over L is the value of the operator over K *)
Definition map_lin (l : lin S1) : lin S2 :=
  match l with
  | LScalar a a0 => LScalar (evT a) (option_map evT a0)
  | LMatrix m m0 => LMatrix (evM m) (option_map evM m0)
  | LShift d nm => LShift d nm
  end.

Lemma evM_mdiag a : evM (mdiag a) = mdiag (evT a).
Proof. unfold evM, evT, mdiag; simpl. now rewrite ev_0. Qed.
Lemma evM_mzero : evM (mzero S1) = mzero S2.
Proof. unfold evM, mzero; simpl. now rewrite evT_t0. Qed.
Lemma lmat_map l : is_shift S1 l = false -> lmat S2 (map_lin l) = evM (lmat S1 l).
Proof. destruct l as [a a0|m m0|d nm]; try discriminate; intros _; simpl; auto using evM_mdiag. Qed.
Lemma lmat0_map l : is_shift S1 l = false -> lmat0 S2 (map_lin l) = evM (lmat0 S1 l).
Proof.
  destruct l as [a [b|]|m [b|]|d nm]; try discriminate; intros _; simpl;
    auto using evM_mdiag, eq_sym, evM_mzero.
Qed.
Lemma is_shift_map l : is_shift S2 (map_lin l) = is_shift S1 l.
Proof. now destruct l. Qed.

(* chain rule hypothesis: dv of the arrays over K is the declared combination of derivative arrays over L *)
Definition coef_ok2 (o : dop S2) (v : var) (l1 : lin S1) : Prop :=
  forall x e : triple S2,
    lact S2 (dvM (lmat S1 l1)) (dvM (lmat0 S1 l1)) x e =
    lact S2 (fst (eff S2 o v)) (snd (eff S2 o v)) x e.

Definition pair_ok (v : var) (o1 : op S1) (i2 : dinstr S2) : Prop :=
  match i2 with
  | DOp o => exists l1, o1 = lin_op S1 l1 /\ d_lin S2 o = map_lin l1 /\ darrs_ok S2 o /\
             (if is_shift S1 l1 then d_order1 S2 o = [] else coef_ok2 o v l1)
  | DPlain OWait => o1 = @OWait S1
  | DPlain OSpoil => o1 = @OSpoil S1
  | DPlain OReset => o1 = @OReset S1
  | DPlain (OPD p r) => exists p1, o1 = @OPD S1 p1 r /\ p = ev p1 /\ dv p1 = k0   (* the density is a constant *)
  | DPlain _ => False      (* ScalarOp / MatrixOp / S are differentiable operators: DOp *)
  end.

Definition inv2 (v : var) (n : nat) (s1 : sm S1) (ds : dstate S2) : Prop :=
  shaped S1 s1 n /\ shaped S2 (d_main ds) n /\
  (forall k, get S2 (d_main ds) k = evT (get S1 s1 k)) /\
  (forall k, gete S2 (d_main ds) k = evT (gete S1 s1 k)) /\
  (forall k, dvT (gete S1 s1 k) = t0) /\
  opshaped S2 n (alookup Nat.eqb v (d_p1 ds)) /\
  (forall k, oget S2 (alookup Nat.eqb v (d_p1 ds)) k = dvT (get S1 s1 k)).

Lemma step2_nonshift v n o l1 s1 ds : is_shift S1 l1 = false -> d_lin S2 o = map_lin l1 ->
  darrs_ok S2 o -> coef_ok2 o v l1 ->
  inv2 v n s1 ds -> inv2 v n (apply_lin l1 s1) (dapply o ds).
Proof.
  intros Hl1 Hmap Hd Hc (Hs1 & Hs & Hm & Hme & He & Hp & Hv).
  assert (Hl : is_shift S2 (d_lin S2 o) = false) by (now rewrite Hmap, is_shift_map).
  assert (Hnew : alookup Nat.eqb v (d_p1 (dapply o ds)) =
     oadd S2 (omap (derive0 S2 o) (alookup Nat.eqb v (d_p1 ds))) (osum S2 (terms S2 o (d_main ds) v) None)).
  { unfold dapply. cbn [d_p1].
    destruct (nonempty (d_p1 ds) || nonempty (d_order1 S2 o)) eqn:E.
    - apply lookup_order1.
    - apply orb_false_elim in E. destruct E as [E1 E2].
      destruct (d_p1 ds); [|discriminate]. cbn [fst alookup omap].
      unfold terms, entries. destruct (d_order1 S2 o); [|discriminate]. reflexivity. }
  destruct (terms_sem S2 L2 o (d_main ds) v n 0 Hd Hs) as [Tsh _].
  assert (Hprev : opshaped S2 n (omap (derive0 S2 o) (alookup Nat.eqb v (d_p1 ds)))).
  { destruct (alookup Nat.eqb v (d_p1 ds)) as [p|]; simpl; auto. destruct Hp as [Hp1 Hp2]. split.
    - now apply lin_shaped.
    - intros k. unfold derive0. rewrite gete_lin by auto. apply Hp2. }
  assert (Hmain : forall k, get S2 (apply_lin (d_lin S2 o) (d_main ds)) k = evT (get S1 (apply_lin l1 s1) k)).
  { intros k. rewrite (get_lin S2 L2 _ _ n k Hl Hs), (get_lin S1 L1 _ _ n k Hl1 Hs1), evT_lact.
    now rewrite Hmap, lmat_map, lmat0_map, Hm, Hme by auto. }
  split; [|split; [|split; [|split; [|split; [|split]]]]].
  - now apply lin_shaped.
  - unfold dapply; cbn [d_main]. now apply lin_shaped.
  - intros k. unfold dapply; cbn [d_main]. apply Hmain.
  - intros k. unfold dapply; cbn [d_main]. rewrite !gete_lin by auto. apply Hme.
  - intros k. rewrite gete_lin by auto. apply He.
  - rewrite Hnew.
    destruct (osum_sem S2 L2 (terms S2 o (d_main ds) v) None n 0 I Tsh) as [_ Osh].
    apply (oadd_sem S2 L2 _ _ n 0 Hprev Osh).
  - intros k. rewrite Hnew.
    destruct (terms_sem S2 L2 o (d_main ds) v n k Hd Hs) as [_ Tsem].
    destruct (osum_sem S2 L2 (terms S2 o (d_main ds) v) None n k I Tsh) as [Osem Osh].
    destruct (oadd_sem S2 L2 _ _ n k Hprev Osh) as [E _]. rewrite E, Osem, Tsem. cbn [oget].
    rewrite (get_lin S1 L1 _ _ n k Hl1 Hs1), dvT_lact, He, Hc, Hm, Hme.
    specialize (Hv k).
    destruct (alookup Nat.eqb v (d_p1 ds)) as [p|]; cbn [omap oget] in *.
    + destruct Hp as [Hp1 Hp2]. unfold derive0. rewrite (get_lin S2 L2 _ _ n k Hl Hp1), Hp2, Hv.
      rewrite Hmap, lmat_map, lmat0_map by auto.
      unfold lact. rewrite !(mv_t0 S2 L2). apply (triple_ext S2); simpl; ring.
    + rewrite <- Hv. rewrite (lact_t0 S2 L2). apply (triple_ext S2); simpl; ring.
Qed.

Lemma evT_get_resize s1 s n n' : shaped S1 s1 n -> shaped S2 s n ->
  (forall k, get S2 s k = evT (get S1 s1 k)) ->
  forall k, get S2 (resize s n') k = evT (get S1 (resize s1 n') k).
Proof.
  intros H1 H2 H k. rewrite (get_resize S2 s n n' k H2), (get_resize S1 s1 n n' k H1).
  destruct (inwin n' k); [apply H|now rewrite evT_t0].
Qed.
Lemma dvT_get_resize s1 p n n' : shaped S1 s1 n -> shaped S2 p n ->
  (forall k, get S2 p k = dvT (get S1 s1 k)) ->
  forall k, get S2 (resize p n') k = dvT (get S1 (resize s1 n') k).
Proof.
  intros H1 H2 H k. rewrite (get_resize S2 p n n' k H2), (get_resize S1 s1 n n' k H1).
  destruct (inwin n' k); [apply H|now rewrite dvT_t0].
Qed.

Lemma step2_shift v n o s1 ds d nm : d_lin S2 o = LShift d nm -> d_order1 S2 o = [] ->
  inv2 v n s1 ds -> inv2 v (shift_n d nm n) (apply_shift d nm s1) (dapply o ds).
Proof.
  intros Hl Ho (Hs1 & Hs & Hm & Hme & He & Hp & Hv).
  assert (Hnew : alookup Nat.eqb v (d_p1 (dapply o ds)) = omap (derive0 S2 o) (alookup Nat.eqb v (d_p1 ds))).
  { unfold dapply. cbn [d_p1]. rewrite Ho.
    destruct (nonempty (d_p1 ds) || nonempty []) eqn:E.
    - rewrite lookup_order1. unfold terms, entries. rewrite Ho. cbn [flat_map osum fold_left].
      now destruct (omap (derive0 S2 o) (alookup Nat.eqb v (d_p1 ds))).
    - apply orb_false_elim in E. destruct E as [E1 _].
      destruct (d_p1 ds); [reflexivity|discriminate]. }
  unfold inv2. rewrite Hnew. unfold dapply; cbn [d_main]. unfold derive0, apply_lin. rewrite Hl. cbn [lin_op apply].
  split; [|split; [|split; [|split; [|split; [|split]]]]].
  - now apply shift_shaped.
  - now apply shift_shaped.
  - intros k. rewrite (get_shift S2 d nm _ n k Hs), (get_shift S1 d nm _ n k Hs1). cbv zeta.
    pose proof (evT_get_resize s1 _ n (shift_n d nm n) Hs1 Hs Hm) as R.
    destruct (inwin (shift_n d nm n) k); [|now rewrite evT_t0].
    rewrite !R. reflexivity.
  - intros k. rewrite (gete_shift S2 d nm _ n k Hs), (gete_resize S2 _ n _ k Hs).
    rewrite (gete_shift S1 d nm _ n k Hs1), (gete_resize S1 _ n _ k Hs1).
    destruct (inwin (shift_n d nm n) k); [apply Hme|now rewrite evT_t0].
  - intros k. rewrite (gete_shift S1 d nm _ n k Hs1), (gete_resize S1 _ n _ k Hs1).
    destruct (inwin (shift_n d nm n) k); [apply He|apply dvT_t0].
  - destruct (alookup Nat.eqb v (d_p1 ds)) as [p|]; cbn [omap opshaped]; auto.
    destruct Hp as [Hp1 Hp2]. split; [now apply shift_shaped|].
    intros k. rewrite (gete_shift S2 d nm _ n k Hp1), (gete_resize S2 _ n _ k Hp1).
    destruct (inwin (shift_n d nm n) k); [apply Hp2|reflexivity].
  - intros k. rewrite (get_shift S1 d nm _ n k Hs1). cbv zeta.
    destruct (alookup Nat.eqb v (d_p1 ds)) as [p|]; cbn [omap oget] in *.
    + destruct Hp as [Hp1 Hp2]. rewrite (get_shift S2 d nm _ n k Hp1). cbv zeta.
      pose proof (dvT_get_resize s1 p n (shift_n d nm n) Hs1 Hp1 Hv) as R.
      destruct (inwin (shift_n d nm n) k); [|now rewrite dvT_t0].
      rewrite !R. reflexivity.
    + assert (R : forall j, dvT (get S1 (resize s1 (shift_n d nm n)) j) = t0).
      { intros j. rewrite (get_resize S1 _ n _ j Hs1). destruct (inwin _ j); [now rewrite <- Hv|apply dvT_t0]. }
      destruct (inwin (shift_n d nm n) k); [|now rewrite dvT_t0].
      unfold dvT in *. cbn [fp fm fz].
      pose proof (R (k - d)) as R1. pose proof (R (k + d)) as R2. pose proof (R k) as R3.
      unfold t0 in *. injection R1 as A1 _ _. injection R2 as _ A2 _. injection R3 as _ _ A3.
      now rewrite A1, A2, A3.
Qed.

Theorem point_step v n o1 i2 s1 ds : pair_ok v o1 i2 -> inv2 v n s1 ds ->
  inv2 v (op_n S1 o1 n) (apply o1 s1) (dstep i2 ds).
Proof.
  intros Hi Hinv. destruct i2 as [o|o]; cbn [dstep pair_ok] in *.
  - destruct Hi as (l1 & -> & Hmap & Hd & Hc).
    destruct l1 as [a a0|m m0|d nm]; cbn [is_shift lin_op op_n] in *.
    + apply (step2_nonshift v n o (LScalar a a0)); auto.
    + apply (step2_nonshift v n o (LMatrix m m0)); auto.
    + now apply (step2_shift v n o s1 ds d nm).
  - destruct Hinv as (Hs1 & Hs & Hm & Hme & He & Hp & Hv).
    unfold inv2. cbn [d_main d_p1]. unfold map_partials. rewrite alookup_map_values.
    destruct o as [| | | | |p r|]; try contradiction.
    + (* SPOILER *)
      subst o1. cbn [op_n apply apply_partial].
      split; [now apply spoil_shaped|split; [now apply spoil_shaped|split; [|split; [exact Hme|split; [exact He|split]]]]].
      * intros k. rewrite !get_spoil, Hm. unfold evT; cbn [fp fm fz]. now rewrite ev_0.
      * destruct (alookup Nat.eqb v (d_p1 ds)) as [q|]; cbn [omap opshaped apply_partial apply]; auto.
        destruct Hp as [Hq1 Hq2]. split; [now apply spoil_shaped|exact Hq2].
      * intros k. rewrite get_spoil. specialize (Hv k).
        destruct (alookup Nat.eqb v (d_p1 ds)) as [q|]; cbn [omap oget apply_partial apply] in *.
        -- rewrite get_spoil, Hv. unfold dvT; cbn [fp fm fz]. now rewrite pdv_0.
        -- unfold dvT in *; cbn [fp fm fz]. unfold t0 in *. injection Hv as _ _ H3. now rewrite pdv_0, <- H3.
    + (* RESET *)
      subst o1. cbn [op_n apply apply_partial].
      split; [now apply (reset_shaped S1 s1 n)|split; [now apply (reset_shaped S2 (d_main ds) n)|split; [|split; [|split; [|split]]]]].
      * intros k. rewrite (get_reset S2 _ n k Hs), (get_reset S1 _ n k Hs1). destruct (k =? 0); [apply Hme|now rewrite evT_t0].
      * intros k. rewrite (gete_reset S2 _ n k Hs), (gete_reset S1 _ n k Hs1). destruct (k =? 0); [apply Hme|now rewrite evT_t0].
      * intros k. rewrite (gete_reset S1 _ n k Hs1). destruct (k =? 0); [apply He|apply dvT_t0].
      * destruct (alookup Nat.eqb v (d_p1 ds)) as [q|]; cbn [omap opshaped apply_partial apply]; auto.
        destruct Hp as [Hq1 Hq2]. split; [now apply (reset_shaped S2 q n)|].
        intros k. rewrite (gete_reset S2 _ n k Hq1). destruct (k =? 0); auto.
      * intros k. rewrite (get_reset S1 _ n k Hs1).
        assert (E : dvT (if k =? 0 then gete S1 s1 0 else t0) = t0) by (destruct (k =? 0); [apply He|apply dvT_t0]).
        rewrite E. destruct (alookup Nat.eqb v (d_p1 ds)) as [q|]; cbn [omap oget opshaped apply_partial apply] in *; auto.
        destruct Hp as [Hq1 Hq2]. rewrite (get_reset S2 _ n k Hq1). destruct (k =? 0); auto.
    + (* PD: the equilibrium changes by a constant; with reset the state becomes that constant, the partial zero *)
      destruct Hi as (p1 & -> & -> & Hdp). cbn [op_n apply apply_partial].
      assert (Ee : forall k, dvT (gete S1 (apply_pd p1 r s1) k) = t0).
      { intros k. rewrite (gete_pd S1 _ r _ n k Hs1). destruct (k =? 0); [|apply dvT_t0].
        unfold dvT; cbn [fp fm fz]. now rewrite Hdp, pdv_0. }
      assert (Eme : forall k, gete S2 (apply_pd (ev p1) r (d_main ds)) k = evT (gete S1 (apply_pd p1 r s1) k)).
      { intros k. rewrite (gete_pd S2 _ r _ n k Hs), (gete_pd S1 _ r _ n k Hs1).
        destruct (k =? 0); [|now rewrite evT_t0]. unfold evT; cbn [fp fm fz]. now rewrite ev_0. }
      split; [now apply pd_shaped|split; [now apply pd_shaped|]].
      destruct r.
      * split; [|split; [exact Eme|split; [exact Ee|split]]].
        -- intros k. rewrite (get_pd S2 _ true _ n k Hs), (get_pd S1 _ true _ n k Hs1).
           destruct (k =? 0); [|now rewrite evT_t0]. unfold evT; cbn [fp fm fz]. now rewrite ev_0.
        -- destruct (alookup Nat.eqb v (d_p1 ds)) as [q|]; cbn [omap opshaped apply_partial]; auto.
           destruct Hp as [[Hq1 Hq3] Hq2]. split; [split; cbn [st equ]; [now rewrite map_length|exact Hq3]|exact Hq2].
        -- intros k. rewrite (get_pd S1 _ true _ n k Hs1).
           assert (E : dvT (if k =? 0 then mk3 k0 k0 p1 else t0) = t0).
           { destruct (k =? 0); [|apply dvT_t0]. unfold dvT; cbn [fp fm fz]. now rewrite Hdp, pdv_0. }
           rewrite E. destruct (alookup Nat.eqb v (d_p1 ds)) as [q|]; cbn [omap oget apply_partial]; auto.
           unfold Views.get. cbn [st].
           rewrite (getZ_map_st S2 q (fun _ => t0) k eq_refl). reflexivity.
      * split; [|split; [exact Eme|split; [exact Ee|split]]].
        -- intros k. rewrite (get_pd S2 _ false _ n k Hs), (get_pd S1 _ false _ n k Hs1). apply Hm.
        -- destruct (alookup Nat.eqb v (d_p1 ds)) as [q|]; cbn [omap opshaped apply_partial]; auto.
        -- intros k. rewrite (get_pd S1 _ false _ n k Hs1). specialize (Hv k).
           destruct (alookup Nat.eqb v (d_p1 ds)) as [q|]; cbn [omap oget apply_partial] in *; auto.
    + (* Wait *)
      subst o1. cbn [op_n apply apply_partial].
      split; [exact Hs1|split; [exact Hs|split; [exact Hm|split; [exact Hme|split; [exact He|split]]]]].
      * destruct (alookup Nat.eqb v (d_p1 ds)) as [q|]; cbn [omap opshaped apply_partial apply]; auto.
      * intros k. specialize (Hv k). destruct (alookup Nat.eqb v (d_p1 ds)) as [q|]; cbn [omap oget apply_partial apply] in *; auto.
Qed.

Fixpoint prun_n (prog : list (op S1)) (n : nat) : nat :=
  match prog with [] => n | o :: t => prun_n t (op_n S1 o n) end.

(* every program: state = value of the plain state, partial for v = point derivative of the plain state *)
Theorem point_run v prog1 prog2 n s1 ds :
  Forall2 (pair_ok v) prog1 prog2 -> inv2 v n s1 ds ->
  inv2 v (prun_n prog1 n) (run prog1 s1) (drun prog2 ds).
Proof.
  intros H. revert n s1 ds. induction H as [|o1 i2 p1 p2 Hi _ IH]; intros n s1 ds Hinv; simpl; auto.
  unfold run, drun in *. simpl. apply IH. now apply point_step.
Qed.

Lemma inv2_init v pd : dv pd = k0 -> inv2 v 0 (init pd) (dinit (init (ev pd))).
Proof.
  intros Hpd. unfold inv2, dinit, init. cbn [d_main d_p1 alookup opshaped oget].
  split; [split; reflexivity|split; [split; reflexivity|split; [|split; [|split; [|split]]]]]; auto.
  - intros k. unfold Views.get. cbn [st]. rewrite !getZ_single.
    destruct (k =? 0); [|now rewrite evT_t0]. unfold evT; cbn [fp fm fz]. now rewrite ev_0.
  - intros k. unfold Views.gete. cbn [equ]. rewrite !getZ_single.
    destruct (k =? 0); [|now rewrite evT_t0]. unfold evT; cbn [fp fm fz]. now rewrite ev_0.
  - intros k. unfold Views.gete. cbn [equ]. rewrite getZ_single.
    destruct (k =? 0); [|apply dvT_t0]. unfold dvT; cbn [fp fm fz]. now rewrite Hpd, pdv_0.
  - intros k. unfold Views.get. cbn [st]. rewrite getZ_single.
    destruct (k =? 0); [|now rewrite dvT_t0]. unfold dvT; cbn [fp fm fz]. now rewrite Hpd, pdv_0.
Qed.

Lemma f0_get S (s : sm S) n : shaped S s n -> f0 S s = fp (get S s 0).
Proof.
  intros [H1 _]. unfold f0, centre, Views.get. rewrite (getZ_odd t0 _ n 0 H1), H1, half_odd.
  rewrite Z.add_0_l. now rewrite nthZ_nat.
Qed.

(* Jacobian probe of the bookkeeping over L = point derivative of the plain signal over K;
   the signal over L = value of the plain signal *)
Theorem jacobian_point v prog1 prog2 pd :
  dv pd = k0 -> Forall2 (pair_ok v) prog1 prog2 ->
  let ds := drun prog2 (dinit (init (ev pd))) in
  jacobian ds [v] = [dv (f0 S1 (run prog1 (init pd)))] /\
  f0 S2 (d_main ds) = ev (f0 S1 (run prog1 (init pd))).
Proof.
  intros Hpd Hok ds.
  destruct (point_run v prog1 prog2 0 _ _ Hok (inv2_init v pd Hpd)) as (Hs1 & Hs & Hm & _ & _ & Hp & Hv).
  fold ds in Hs, Hm, Hp, Hv. set (n := prun_n prog1 0) in *.
  split.
  - unfold jacobian. cbn [map]. f_equal. specialize (Hv 0).
    rewrite (f0_get S1 _ n Hs1).
    destruct (alookup Nat.eqb v (d_p1 ds)) as [p|]; cbn [oget opshaped] in *.
    + destruct Hp as [Hp1 _]. rewrite (f0_get S2 _ n Hp1), Hv. reflexivity.
    + unfold dvT in Hv. unfold t0 in Hv. now injection Hv as <- _ _.
  - rewrite (f0_get S2 _ n Hs), (f0_get S1 _ n Hs1), Hm. reflexivity.
Qed.

End DiffPoint.
