(* C03, point derivations of second order: the two-ring version of DiffExact2 (as DiffPoint is the
   two-ring version of DiffExact).
   K = S1 is the ring in which the PLAIN simulation runs, L = S2 the ring in which diff.py's bookkeeping
   (first AND second order) runs; ev : K -> L is a ring homomorphism ("value at the point"),
   dv1, dv2 : K -> L are point derivations over it ("first partial derivatives at the point") and
   dv12 : K -> L is additive with the second-order Leibniz rule
        dv12 (x y) = dv12 x * ev y + dv1 x * dv2 y + dv2 x * dv1 y + ev x * dv12 y
   ("second partial derivative d1 d2 at the point").  If every operator's arrays over L are the values of
   the arrays over K, dv1 / dv2 of the arrays over K are the declared first-order combinations of the
   derivative arrays (chain rule) and dv12 of the arrays is what _apply_order2 assembles from d_d2arrs
   through the products c_p c_q plus the coefficient term of d_order2 (second-order chain rule), then for
   EVERY program the state carried in d_p2 under Pair v1 v2 is dv12 of the plain state, phase state by
   phase state -- together with the two first-order facts and main state = ev (plain state).
   The axiomatisation covers the mixed case (v1 <> v2) and the diagonal case (v1 = v2; then the two
   first-order hypotheses say that dv1 and dv2 of the arrays are the same declared combination) alike:
   nothing relates dv1 to dv2.  Instantiated at K = double dual numbers over C (Proofs/Jet2.v) this
   links the bookkeeping over C to forward-mode second derivatives. *)
From Coq Require Import List ZArith Lia Bool Arith Ring.
From EPG Require Import Scalar State Ops ListLemmas Views Diff DiffLemmas DiffExact DiffPoint DiffOrder2
  DiffExact2Lemmas DiffExact2.
Import ListNotations.

(* ================================================================================== *)
(* Part 1: one step for variables v1 <= v2                                             *)
(* ================================================================================== *)
Section Point2.
Variable S1 S2 : ScalOps.
Hypothesis L1 : ScalLaws S1.
Hypothesis L2 : ScalLaws S2.
Add Ring Kq1 : (k_ring S1 L1).
Add Ring Kq2 : (k_ring S2 L2).
Local Open Scope Z_scope.

Variable ev dv1 dv2 dv12 : S1 -> S2.
Hypothesis ev_0 : ev k0 = k0.
Hypothesis ev_add : forall x y, ev (x + y)%K = (ev x + ev y)%K.
Hypothesis ev_mul : forall x y, ev (x * y)%K = (ev x * ev y)%K.
Hypothesis dv1_add : forall x y, dv1 (x + y)%K = (dv1 x + dv1 y)%K.
Hypothesis dv1_mul : forall x y, dv1 (x * y)%K = (dv1 x * ev y + ev x * dv1 y)%K.
Hypothesis dv2_add : forall x y, dv2 (x + y)%K = (dv2 x + dv2 y)%K.
Hypothesis dv2_mul : forall x y, dv2 (x * y)%K = (dv2 x * ev y + ev x * dv2 y)%K.
Hypothesis dv12_add : forall x y, dv12 (x + y)%K = (dv12 x + dv12 y)%K.
Hypothesis dv12_mul : forall x y,
  dv12 (x * y)%K = (dv12 x * ev y + dv1 x * dv2 y + dv2 x * dv1 y + ev x * dv12 y)%K.

Notation vT := (evT S1 S2 ev).
Notation vM := (evM S1 S2 ev).
Notation d1T := (dvT S1 S2 dv1).
Notation d2T := (dvT S1 S2 dv2).
Notation d12T := (dvT S1 S2 dv12).
Notation d1M := (dvM S1 S2 dv1).
Notation d2M := (dvM S1 S2 dv2).
Notation d12M := (dvM S1 S2 dv12).
Notation mlin := (map_lin S1 S2 ev).
Notation pinv := (DiffPoint.inv2 S1 S2 ev).

Lemma dv12_0 : dv12 k0 = k0.
Proof. exact (pdv_0 S1 S2 L1 L2 dv12 dv12_add). Qed.
Lemma d12T_t0 : d12T t0 = t0.
Proof. exact (dvT_t0 S1 S2 L1 L2 dv12 dv12_add). Qed.

(* d12 (A s) = (d12 A)(ev s) + (d1 A)(d2 s) + (d2 A)(d1 s) + (ev A)(d12 s) *)
Lemma d12T_lact M M0 (x e : triple S1) :
  d12T (lact S1 M M0 x e) =
  tadd (tadd (tadd (lact S2 (d12M M) (d12M M0) (vT x) (vT e))
                   (lact S2 (d1M M) (d1M M0) (d2T x) (d2T e)))
             (lact S2 (d2M M) (d2M M0) (d1T x) (d1T e)))
       (lact S2 (vM M) (vM M0) (d12T x) (d12T e)).
Proof.
  unfold lact, dvT, evT, dvM, evM, mv, dot, tadd; simpl. rewrite !dv12_add, !dv12_mul.
  apply (triple_ext S2); simpl; ring.
Qed.

(* second-order chain rule through the declared coefficients:
     dv12 (arrays) = sum_p c2_{(v1,v2),p} dO/dp  +  sum_{p,q} c_{v1,p} c_{v2,q} d2O/dp dq       *)
Definition coef2_ok2 (o : dop S2) (v1 v2 : var) (l1 : lin S1) : Prop :=
  forall x e : triple S2,
    lact S2 (d12M (lmat S1 l1)) (d12M (lmat0 S1 l1)) x e =
    tadd (ctact S2 o (Pair v1 v2) x e) (cuact S2 o (Pair v1 v2) x e).

(* o1: the plain operator over K; i2: the instruction handed to the bookkeeping over L;
   b: the state the instruction is applied to already carries second-order partials *)
Definition pair_ok12 (v1 v2 : var) (b : bool) (o1 : op S1) (i2 : dinstr S2) : Prop :=
  match i2 with
  | DOp o => exists l1, o1 = lin_op S1 l1 /\ d_lin S2 o = mlin l1 /\ darrs_ok S2 o /\
             (if is_shift S1 l1 then d_order1 S2 o = [] /\ d_order2 S2 o = []
              else coef_ok2 S1 S2 dv1 o v1 l1 /\ coef_ok2 S1 S2 dv2 o v2 l1 /\
                   wf1 S2 o /\ d2arrs_ok S2 o /\ coef2_ok2 o v1 v2 l1 /\ cross_ok S2 o v1 v2 b)
  | DPlain OWait => o1 = @OWait S1
  | DPlain OSpoil => o1 = @OSpoil S1
  | DPlain OReset => o1 = @OReset S1
  | DPlain (OPD p r) => exists p1, o1 = @OPD S1 p1 r /\ p = ev p1 /\
                                   dv1 p1 = k0 /\ dv2 p1 = k0 /\ dv12 p1 = k0   (* the density is a constant *)
  | DPlain _ => False      (* ScalarOp / MatrixOp / S are differentiable operators: DOp *)
  end.

(* the first-order hypotheses of DiffPoint are contained in it *)
Lemma pair_ok12_1 v1 v2 b o1 i2 : pair_ok12 v1 v2 b o1 i2 -> pair_ok S1 S2 ev dv1 v1 o1 i2.
Proof.
  destruct i2 as [o|o]; cbn [pair_ok12 pair_ok].
  - intros (l1 & E & Hm & Hd & H). exists l1. split; [exact E|split; [exact Hm|split; [exact Hd|]]].
    destruct (is_shift S1 l1); [exact (proj1 H)|exact (proj1 H)].
  - destruct o as [| | | | |p r|]; auto.
    intros (p1 & E & Ep & H1 & _). exists p1. auto.
Qed.
Lemma pair_ok12_2 v1 v2 b o1 i2 : pair_ok12 v1 v2 b o1 i2 -> pair_ok S1 S2 ev dv2 v2 o1 i2.
Proof.
  destruct i2 as [o|o]; cbn [pair_ok12 pair_ok].
  - intros (l1 & E & Hm & Hd & H). exists l1. split; [exact E|split; [exact Hm|split; [exact Hd|]]].
    destruct (is_shift S1 l1); [exact (proj1 H)|exact (proj1 (proj2 H))].
  - destruct o as [| | | | |p r|]; auto.
    intros (p1 & E & Ep & _ & H2 & _). exists p1. auto.
Qed.

(* the second-order part of the invariant *)
Definition inv2p (v1 v2 : var) (n : nat) (s1 : sm S1) (ds : dstate S2) : Prop :=
  (forall k, d12T (gete S1 s1 k) = t0) /\
  opshaped S2 n (alookup pair_eqb (Pair v1 v2) (d_p2 ds)) /\
  (forall k, oget S2 (alookup pair_eqb (Pair v1 v2) (d_p2 ds)) k = d12T (get S1 s1 k)).

Definition inv12p (v1 v2 : var) (n : nat) (s1 : sm S1) (ds : dstate S2) : Prop :=
  pinv dv1 v1 n s1 ds /\ pinv dv2 v2 n s1 ds /\ inv2p v1 v2 n s1 ds.

(* d12 (A s) in the form the bookkeeping assembles it *)
Lemma d12_lact_point o v1 v2 l1 (x e : triple S1) :
  is_shift S1 l1 = false -> d_lin S2 o = mlin l1 ->
  coef_ok2 S1 S2 dv1 o v1 l1 -> coef_ok2 S1 S2 dv2 o v2 l1 -> coef2_ok2 o v1 v2 l1 ->
  d1T e = t0 -> d2T e = t0 -> d12T e = t0 ->
  d12T (lact S1 (lmat S1 l1) (lmat0 S1 l1) x e) =
  tadd (tadd (tadd (tadd (lact S2 (lmat S2 (d_lin S2 o)) (lmat0 S2 (d_lin S2 o)) (d12T x) t0)
                         (ctact S2 o (Pair v1 v2) (vT x) (vT e)))
                   (cuact S2 o (Pair v1 v2) (vT x) (vT e)))
             (act1 S2 o v1 (d2T x) t0))
       (act1 S2 o v2 (d1T x) t0).
Proof.
  intros Hl1 Hmap Hc1 Hc2 Hc12 He1 He2 He12.
  rewrite d12T_lact, He1, He2, He12.
  rewrite (Hc12 (vT x) (vT e)), (Hc1 (d2T x) t0), (Hc2 (d1T x) t0).
  rewrite <- !(act1_eff S2 L2).
  rewrite Hmap, (lmat_map S1 S2 ev ev_0 l1 Hl1), (lmat0_map S1 S2 ev ev_0 l1 Hl1).
  generalize (lact S2 (vM (lmat S1 l1)) (vM (lmat0 S1 l1)) (d12T x) t0) as a.
  generalize (ctact S2 o (Pair v1 v2) (vT x) (vT e)) as b. generalize (cuact S2 o (Pair v1 v2) (vT x) (vT e)) as c.
  generalize (act1 S2 o v1 (d2T x) t0) as d. generalize (act1 S2 o v2 (d1T x) t0) as f.
  intros f d c b a. apply (triple_ext S2); simpl; ring.
Qed.

Lemma step12_nonshift v1 v2 n o l1 s1 ds : (v1 <= v2)%nat ->
  is_shift S1 l1 = false -> d_lin S2 o = mlin l1 -> darrs_ok S2 o ->
  coef_ok2 S1 S2 dv1 o v1 l1 -> coef_ok2 S1 S2 dv2 o v2 l1 ->
  wf1 S2 o -> d2arrs_ok S2 o -> coef2_ok2 o v1 v2 l1 -> cross_ok S2 o v1 v2 (nonempty (d_p2 ds)) ->
  pinv dv1 v1 n s1 ds -> pinv dv2 v2 n s1 ds -> inv2p v1 v2 n s1 ds ->
  inv2p v1 v2 n (apply_lin l1 s1) (dapply o ds).
Proof.
  intros Hle Hl1 Hmap Hd Hc1 Hc2 Hwf Hd2 Hc12 Hx
    (Hs1 & Hs & Hm & Hme & He1 & Hp1 & Hv1) (_ & _ & _ & _ & He2 & Hp2 & Hv2) (He12 & Hq & Hw).
  assert (Hl : is_shift S2 (d_lin S2 o) = false) by (now rewrite Hmap, is_shift_map).
  assert (EP : Pair v1 v2 = (v1, v2)) by (apply Pair_le; exact Hle).
  assert (Main : forall k,
     opshaped S2 n (alookup pair_eqb (Pair v1 v2) (d_p2 (dapply o ds))) /\
     oget S2 (alookup pair_eqb (Pair v1 v2) (d_p2 (dapply o ds))) k = d12T (get S1 (apply_lin l1 s1) k)).
  { intros k. unfold dapply; cbn [d_p2].
    rewrite (get_lin S1 L1 _ _ n k Hl1 Hs1).
    rewrite (d12_lact_point o v1 v2 l1 _ _ Hl1 Hmap Hc1 Hc2 Hc12 (He1 k) (He2 k) (He12 k)).
    rewrite <- (Hm k), <- (Hme k).
    destruct (nonempty (d_p2 ds) || nonempty (d_order2 S2 o)) eqn:E.
    - rewrite lookup_order2.
      assert (X1 : cross_ok1 S2 o (Pair v1 v2) v1 /\ cross_ok1 S2 o (Pair v1 v2) v2).
      { unfold cross_ok1. destruct Hx as [[E1 E2]|[[Ha _]|Hin]]; auto. }
      destruct X1 as [X1 X2].
      repeat apply (oadd_sem2 S2 L2).
      + (* previous second-order partial through the operator *)
        specialize (Hw k).
        destruct (alookup pair_eqb (Pair v1 v2) (d_p2 ds)) as [p|]; cbn [omap oget opshaped] in *.
        * destruct Hq as [Hq1 Hq2]. split.
          -- split; [now apply lin_shaped|]. intros j. unfold derive0. rewrite gete_lin by auto. apply Hq2.
          -- unfold derive0. now rewrite (get_lin S2 L2 _ _ n k Hl Hq1), Hq2, Hw.
        * split; auto. now rewrite <- Hw, (lact_t0 S2 L2).
      + exact (coef_sem S2 L2 o (d_main ds) (Pair v1 v2) n k Hd Hs).
      + exact (cur_sem S2 L2 o (d_main ds) (Pair v1 v2) n k Hd2 Hs).
      + rewrite <- (Hv2 k).
        apply (cross_sem S2 L2 o (d_p1 ds) cmp_ge (Pair v1 v2) v1 v2 n k Hwf Hd); auto.
        * now rewrite Pair_comm.
        * unfold cmp_ge. now apply Nat.leb_le.
        * intros a b HP. rewrite EP in HP. now apply cmp_ge_uniq.
      + rewrite <- (Hv1 k).
        apply (cross_sem S2 L2 o (d_p1 ds) cmp_le (Pair v1 v2) v2 v1 n k Hwf Hd); auto.
        * unfold cmp_le. now apply Nat.leb_le.
        * intros a b HP. rewrite EP in HP. now apply cmp_le_uniq.
    - (* the operator is skipped by the second-order bookkeeping *)
      apply orb_false_elim in E. destruct E as [E1 E2].
      unfold cross_ok in Hx. rewrite E1 in Hx.
      specialize (Hw k).
      destruct (d_p2 ds); [|discriminate]. cbn [fst alookup opshaped oget] in *. split; auto.
      rewrite <- Hw. unfold ctact, cuact, sel.
      destruct (d_order2 S2 o) eqn:Eo2; [|discriminate]. cbn [flat_map map]. rewrite lsum_nil.
      destruct Hx as [[A1 A2]|[[_ [Hne|Hb]]|Hin]]; [|congruence|discriminate|destruct Hin].
      unfold act1. rewrite A1, A2, !lsum_nil. cbn [tsum fold_right].
      now rewrite (lact_t0 S2 L2), !(tadd_t0 S2 L2). }
  split; [|split; [apply (Main 0)|intros k; apply (Main k)]].
  intros k. rewrite gete_lin by auto. apply He12.
Qed.

(* ---- shifts: no derivative arrays, nothing declared ---- *)
Lemma shift_tracks2 (dvv : S1 -> S2) d nm (s1 : sm S1) (po : option (sm S2)) n :
  dvv k0 = k0 -> shaped S1 s1 n -> opshaped S2 n po ->
  (forall k, oget S2 po k = dvT S1 S2 dvv (get S1 s1 k)) ->
  opshaped S2 (shift_n d nm n) (omap (apply_shift d nm) po) /\
  forall k, oget S2 (omap (apply_shift d nm) po) k = dvT S1 S2 dvv (get S1 (apply_shift d nm s1) k).
Proof.
  intros H0 Hs Hp Hv.
  assert (D0 : dvT S1 S2 dvv t0 = t0) by (unfold dvT, t0; cbn [fp fm fz]; now rewrite H0).
  split.
  - destruct po as [p|]; cbn [omap opshaped]; auto.
    destruct Hp as [Hp1 Hp2]. split; [now apply shift_shaped|].
    intros k. rewrite (gete_shift S2 d nm _ n k Hp1), (gete_resize S2 _ n _ k Hp1).
    destruct (inwin (shift_n d nm n) k); [apply Hp2|reflexivity].
  - intros k. rewrite (get_shift S1 d nm _ n k Hs). cbv zeta.
    destruct po as [p|]; cbn [omap oget opshaped] in *.
    + destruct Hp as [Hp1 Hp2]. rewrite (get_shift S2 d nm _ n k Hp1). cbv zeta.
      assert (R : forall j, get S2 (resize p (shift_n d nm n)) j =
                            dvT S1 S2 dvv (get S1 (resize s1 (shift_n d nm n)) j)).
      { intros j. rewrite (get_resize S2 p n _ j Hp1), (get_resize S1 s1 n _ j Hs).
        destruct (inwin _ j); [apply Hv|now rewrite D0]. }
      destruct (inwin (shift_n d nm n) k); [|now rewrite D0].
      rewrite !R. reflexivity.
    + assert (R : forall j, dvT S1 S2 dvv (get S1 (resize s1 (shift_n d nm n)) j) = t0).
      { intros j. rewrite (get_resize S1 _ n _ j Hs). destruct (inwin _ j); [now rewrite <- Hv|apply D0]. }
      destruct (inwin (shift_n d nm n) k); [|now rewrite D0].
      unfold dvT in *. cbn [fp fm fz].
      pose proof (R (k - d)) as R1. pose proof (R (k + d)) as R2. pose proof (R k) as R3.
      unfold t0 in *. injection R1 as A1 _ _. injection R2 as _ A2 _. injection R3 as _ _ A3.
      now rewrite A1, A2, A3.
Qed.

Lemma step12_shift v1 v2 n o s1 ds d nm : d_lin S2 o = LShift d nm -> d_order1 S2 o = [] -> d_order2 S2 o = [] ->
  shaped S1 s1 n -> inv2p v1 v2 n s1 ds -> inv2p v1 v2 (shift_n d nm n) (apply_shift d nm s1) (dapply o ds).
Proof.
  intros Hl Ho1 Ho2 Hs1 (He12 & Hq & Hw). unfold inv2p.
  rewrite (lookup_order2_inactive S2 o ds _ Ho1 Ho2).
  unfold derive0, apply_lin. rewrite Hl. cbn [lin_op apply].
  split.
  - intros k. rewrite (gete_shift S1 d nm _ n k Hs1), (gete_resize S1 _ n _ k Hs1).
    destruct (inwin (shift_n d nm n) k); [apply He12|apply d12T_t0].
  - exact (shift_tracks2 dv12 d nm s1 _ n dv12_0 Hs1 Hq Hw).
Qed.

Theorem point2_step_le v1 v2 n o1 i2 s1 ds : (v1 <= v2)%nat ->
  pair_ok12 v1 v2 (nonempty (d_p2 ds)) o1 i2 -> inv12p v1 v2 n s1 ds ->
  inv12p v1 v2 (op_n S1 o1 n) (apply o1 s1) (dstep i2 ds).
Proof.
  intros Hle Hi (I1 & I2 & I12).
  split; [exact (point_step S1 S2 L1 L2 ev dv1 ev_0 ev_add ev_mul dv1_add dv1_mul v1 n o1 i2 s1 ds
                   (pair_ok12_1 _ _ _ _ _ Hi) I1)|].
  split; [exact (point_step S1 S2 L1 L2 ev dv2 ev_0 ev_add ev_mul dv2_add dv2_mul v2 n o1 i2 s1 ds
                   (pair_ok12_2 _ _ _ _ _ Hi) I2)|].
  destruct i2 as [o|o]; cbn [dstep pair_ok12] in *.
  - destruct Hi as (l1 & -> & Hmap & Hd & Hc).
    destruct l1 as [a a0|m m0|d nm]; cbn [is_shift lin_op op_n] in *.
    + destruct Hc as (Hc1 & Hc2 & Hwf & Hd2 & Hc12 & Hx).
      apply (step12_nonshift v1 v2 n o (LScalar a a0)); auto.
    + destruct Hc as (Hc1 & Hc2 & Hwf & Hd2 & Hc12 & Hx).
      apply (step12_nonshift v1 v2 n o (LMatrix m m0)); auto.
    + destruct Hc as (Ho1 & Ho2). apply (step12_shift v1 v2 n o s1 ds d nm); auto. apply I1.
  - destruct I1 as (Hs1 & _). destruct I12 as (He12 & Hq & Hw).
    unfold inv2p. cbn [d_main d_p2]. unfold map_partials. rewrite alookup_map_values_gen.
    destruct o as [| | | | |p r|]; try contradiction.
    + (* SPOILER *)
      subst o1. cbn [op_n apply apply_partial]. split; [exact He12|split].
      * destruct (alookup pair_eqb (Pair v1 v2) (d_p2 ds)) as [q|]; cbn [omap opshaped apply_partial apply]; auto.
        destruct Hq as [Hq1 Hq2]. split; [now apply spoil_shaped|exact Hq2].
      * intros k. rewrite get_spoil. specialize (Hw k).
        destruct (alookup pair_eqb (Pair v1 v2) (d_p2 ds)) as [q|]; cbn [omap oget apply_partial apply] in *.
        -- rewrite get_spoil, Hw. unfold dvT; cbn [fp fm fz]. now rewrite dv12_0.
        -- unfold dvT in *; cbn [fp fm fz] in *. unfold t0 in *. injection Hw as _ _ H3. now rewrite dv12_0, <- H3.
    + (* RESET *)
      subst o1. cbn [op_n apply apply_partial].
      assert (E : forall k, d12T (if k =? 0 then gete S1 s1 0 else t0) = t0).
      { intros k. destruct (k =? 0); [apply He12|apply d12T_t0]. }
      split; [|split].
      * intros k. rewrite (gete_reset S1 _ n k Hs1). apply E.
      * destruct (alookup pair_eqb (Pair v1 v2) (d_p2 ds)) as [q|]; cbn [omap opshaped apply_partial apply]; auto.
        destruct Hq as [Hq1 Hq2]. split; [now apply (reset_shaped S2 q n)|].
        intros k. rewrite (gete_reset S2 _ n k Hq1). destruct (k =? 0); auto.
      * intros k. rewrite (get_reset S1 _ n k Hs1), E.
        destruct (alookup pair_eqb (Pair v1 v2) (d_p2 ds)) as [q|]; cbn [omap oget opshaped apply_partial apply] in *; auto.
        destruct Hq as [Hq1 Hq2]. rewrite (get_reset S2 _ n k Hq1). destruct (k =? 0); auto.
    + (* PD: the density is a constant; with reset the second-order partial becomes zero *)
      destruct Hi as (p1 & -> & -> & _ & _ & Hdp). cbn [op_n apply apply_partial].
      assert (Ee : forall k, d12T (gete S1 (apply_pd p1 r s1) k) = t0).
      { intros k. rewrite (gete_pd S1 _ r _ n k Hs1). destruct (k =? 0); [|apply d12T_t0].
        unfold dvT; cbn [fp fm fz]. now rewrite Hdp, dv12_0. }
      split; [exact Ee|]. destruct r.
      * split.
        -- destruct (alookup pair_eqb (Pair v1 v2) (d_p2 ds)) as [q|]; cbn [omap opshaped apply_partial]; auto.
           destruct Hq as [[Hq1 Hq3] Hq2]. split; [split; cbn [st equ]; [now rewrite map_length|exact Hq3]|exact Hq2].
        -- intros k. rewrite (get_pd S1 _ true _ n k Hs1).
           assert (E : d12T (if k =? 0 then mk3 k0 k0 p1 else t0) = t0).
           { destruct (k =? 0); [|apply d12T_t0]. unfold dvT; cbn [fp fm fz]. now rewrite Hdp, dv12_0. }
           rewrite E. destruct (alookup pair_eqb (Pair v1 v2) (d_p2 ds)) as [q|]; cbn [omap oget apply_partial]; auto.
           unfold Views.get. cbn [st].
           rewrite (getZ_map_st S2 q (fun _ => t0) k eq_refl). reflexivity.
      * split.
        -- destruct (alookup pair_eqb (Pair v1 v2) (d_p2 ds)) as [q|]; cbn [omap opshaped apply_partial]; auto.
        -- intros k. rewrite (get_pd S1 _ false _ n k Hs1). specialize (Hw k).
           destruct (alookup pair_eqb (Pair v1 v2) (d_p2 ds)) as [q|]; cbn [omap oget apply_partial] in *; auto.
    + (* Wait *)
      subst o1. cbn [op_n apply apply_partial]. split; [exact He12|split].
      * destruct (alookup pair_eqb (Pair v1 v2) (d_p2 ds)) as [q|]; cbn [omap opshaped apply_partial apply]; auto.
      * intros k. specialize (Hw k). destruct (alookup pair_eqb (Pair v1 v2) (d_p2 ds)) as [q|]; cbn [omap oget apply_partial apply] in *; auto.
Qed.

End Point2.

(* ================================================================================== *)
(* Part 2: variables in any order, programs, Hessian probe                             *)
(* ================================================================================== *)
Section Main12.
Variable S1 S2 : ScalOps.
Hypothesis L1 : ScalLaws S1.
Hypothesis L2 : ScalLaws S2.
Add Ring Kq3 : (k_ring S2 L2).

Variable ev dv1 dv2 dv12 : S1 -> S2.
Hypothesis ev_0 : ev k0 = k0.
Hypothesis ev_add : forall x y, ev (x + y)%K = (ev x + ev y)%K.
Hypothesis ev_mul : forall x y, ev (x * y)%K = (ev x * ev y)%K.
Hypothesis dv1_add : forall x y, dv1 (x + y)%K = (dv1 x + dv1 y)%K.
Hypothesis dv1_mul : forall x y, dv1 (x * y)%K = (dv1 x * ev y + ev x * dv1 y)%K.
Hypothesis dv2_add : forall x y, dv2 (x + y)%K = (dv2 x + dv2 y)%K.
Hypothesis dv2_mul : forall x y, dv2 (x * y)%K = (dv2 x * ev y + ev x * dv2 y)%K.
Hypothesis dv12_add : forall x y, dv12 (x + y)%K = (dv12 x + dv12 y)%K.
Hypothesis dv12_mul : forall x y,
  dv12 (x * y)%K = (dv12 x * ev y + dv1 x * dv2 y + dv2 x * dv1 y + ev x * dv12 y)%K.

(* the second-order Leibniz rule is symmetric in the two first-order derivations *)
Lemma dv12_mul_swap x y :
  dv12 (x * y)%K = (dv12 x * ev y + dv2 x * dv1 y + dv1 x * dv2 y + ev x * dv12 y)%K.
Proof. rewrite dv12_mul. ring. Qed.

Notation pair_ok12 := (pair_ok12 S1 S2 ev dv1 dv2 dv12).
Notation inv12p := (inv12p S1 S2 ev dv1 dv2 dv12).

Lemma pair_ok12_swap v1 v2 b o1 i2 :
  pair_ok12 v1 v2 b o1 i2 -> DiffPoint2.pair_ok12 S1 S2 ev dv2 dv1 dv12 v2 v1 b o1 i2.
Proof.
  destruct i2 as [o|o]; cbn [DiffPoint2.pair_ok12].
  - intros (l1 & E & Hm & Hd & H). exists l1. split; [exact E|split; [exact Hm|split; [exact Hd|]]].
    destruct (is_shift S1 l1); [exact H|].
    destruct H as (A & B & C & D & E2 & F).
    split; [exact B|split; [exact A|split; [exact C|split; [exact D|split]]]].
    + unfold coef2_ok2 in *. rewrite (Pair_comm v2 v1). exact E2.
    + now apply cross_ok_swap.
  - destruct o as [| | | | |p r|]; auto.
    intros (p1 & E & Ep & H1 & H2 & H12). exists p1. auto.
Qed.

Lemma inv12p_swap v1 v2 n s1 ds :
  DiffPoint2.inv12p S1 S2 ev dv2 dv1 dv12 v2 v1 n s1 ds -> inv12p v1 v2 n s1 ds.
Proof.
  intros (I2 & I1 & A & B & C). split; [exact I1|split; [exact I2|]].
  unfold inv2p. rewrite (Pair_comm v1 v2). auto.
Qed.
Lemma inv12p_swap' v1 v2 n s1 ds :
  inv12p v1 v2 n s1 ds -> DiffPoint2.inv12p S1 S2 ev dv2 dv1 dv12 v2 v1 n s1 ds.
Proof.
  intros (I1 & I2 & A & B & C). split; [exact I2|split; [exact I1|]].
  unfold inv2p. rewrite (Pair_comm v2 v1). auto.
Qed.

Theorem point2_step v1 v2 n o1 i2 s1 ds :
  pair_ok12 v1 v2 (nonempty (d_p2 ds)) o1 i2 -> inv12p v1 v2 n s1 ds ->
  inv12p v1 v2 (op_n S1 o1 n) (apply o1 s1) (dstep i2 ds).
Proof.
  intros Hi Hinv. destruct (le_ge_dec v1 v2) as [Hle|Hge].
  - exact (point2_step_le S1 S2 L1 L2 ev dv1 dv2 dv12 ev_0 ev_add ev_mul dv1_add dv1_mul dv2_add dv2_mul
             dv12_add dv12_mul v1 v2 n o1 i2 s1 ds Hle Hi Hinv).
  - apply inv12p_swap.
    exact (point2_step_le S1 S2 L1 L2 ev dv2 dv1 dv12 ev_0 ev_add ev_mul dv2_add dv2_mul dv1_add dv1_mul
             dv12_add dv12_mul_swap v2 v1 n o1 i2 s1 ds Hge (pair_ok12_swap _ _ _ _ _ Hi) (inv12p_swap' _ _ _ _ _ Hinv)).
Qed.

(* the hypotheses along a run, the flag of [cross_ok] being read off the state the instruction is applied to *)
Fixpoint prog_ok12 (v1 v2 : var) (prog1 : list (op S1)) (prog2 : list (dinstr S2)) (ds : dstate S2) : Prop :=
  match prog1, prog2 with
  | [], [] => True
  | o1 :: t1, i2 :: t2 => pair_ok12 v1 v2 (nonempty (d_p2 ds)) o1 i2 /\ prog_ok12 v1 v2 t1 t2 (dstep i2 ds)
  | _, _ => False
  end.

(* every program: main state = value, first-order partials = dv1 / dv2, second-order partial under
   Pair v1 v2 = dv12 of the plain state, phase state by phase state *)
Theorem point2_run v1 v2 prog1 prog2 n s1 ds :
  prog_ok12 v1 v2 prog1 prog2 ds -> inv12p v1 v2 n s1 ds ->
  inv12p v1 v2 (prun_n S1 prog1 n) (run prog1 s1) (drun prog2 ds).
Proof.
  revert prog2 n s1 ds. induction prog1 as [|o1 p1 IH]; intros [|i2 p2] n s1 ds Hok Hinv;
    cbn [prog_ok12] in Hok; try contradiction.
  - exact Hinv.
  - destruct Hok as [Hi Hrest]. unfold run, drun in *. cbn [fold_left prun_n].
    apply IH; [exact Hrest|]. now apply point2_step.
Qed.

(* purely per-instruction (state-independent) form of the hypotheses *)
Lemma pair_ok12_mono v1 v2 b o1 i2 : pair_ok12 v1 v2 false o1 i2 -> pair_ok12 v1 v2 b o1 i2.
Proof.
  destruct i2 as [o|o]; cbn [DiffPoint2.pair_ok12]; auto.
  intros (l1 & E & Hm & Hd & H). exists l1. split; [exact E|split; [exact Hm|split; [exact Hd|]]].
  destruct (is_shift S1 l1); [exact H|].
  destruct H as (A & B & C & D & E2 & F).
  split; [exact A|split; [exact B|split; [exact C|split; [exact D|split; [exact E2|now apply cross_ok_mono]]]]].
Qed.

Lemma prog_ok12_static v1 v2 prog1 prog2 :
  Forall2 (pair_ok12 v1 v2 false) prog1 prog2 -> forall ds, prog_ok12 v1 v2 prog1 prog2 ds.
Proof.
  intros H. induction H as [|o1 i2 p1 p2 Hi _ IH]; intros ds; cbn [prog_ok12]; auto.
  split; [now apply pair_ok12_mono|apply IH].
Qed.

Corollary point2_run_static v1 v2 prog1 prog2 n s1 ds :
  Forall2 (pair_ok12 v1 v2 false) prog1 prog2 -> inv12p v1 v2 n s1 ds ->
  inv12p v1 v2 (prun_n S1 prog1 n) (run prog1 s1) (drun prog2 ds).
Proof. intros Hok. apply point2_run. now apply prog_ok12_static. Qed.

Lemma inv12p_init v1 v2 pd : dv1 pd = k0 -> dv2 pd = k0 -> dv12 pd = k0 ->
  inv12p v1 v2 0 (init pd) (dinit (init (ev pd))).
Proof.
  intros H1 H2 H12.
  split; [exact (inv2_init S1 S2 L1 L2 ev dv1 ev_0 dv1_add v1 pd H1)|].
  split; [exact (inv2_init S1 S2 L1 L2 ev dv2 ev_0 dv2_add v2 pd H2)|].
  pose proof (dvT_t0 S1 S2 L1 L2 dv12 dv12_add) as D0.
  pose proof (pdv_0 S1 S2 L1 L2 dv12 dv12_add) as Z0.
  unfold inv2p, dinit, init. cbn [d_p2 alookup opshaped oget].
  split; [|split; [exact I|]].
  - intros k. unfold Views.gete. cbn [equ]. rewrite getZ_single.
    destruct (k =? 0)%Z; [|apply D0]. unfold dvT; cbn [fp fm fz]. now rewrite H12, Z0.
  - intros k. unfold Views.get. cbn [st]. rewrite getZ_single.
    destruct (k =? 0)%Z; [|now rewrite D0]. unfold dvT; cbn [fp fm fz]. now rewrite H12, Z0.
Qed.

Section Probe.
Variables (v1 v2 : var) (prog1 : list (op S1)) (prog2 : list (dinstr S2)) (pd : S1).
Hypothesis Hpd1 : dv1 pd = k0.
Hypothesis Hpd2 : dv2 pd = k0.
Hypothesis Hpd12 : dv12 pd = k0.
Hypothesis Hok : prog_ok12 v1 v2 prog1 prog2 (dinit (init (ev pd))).
Let ds := drun prog2 (dinit (init (ev pd))).
Let sig1 := f0 S1 (run prog1 (init pd)).

(* what the Hessian probe reads under the sorted pair *)
Theorem hessian_entry_point :
  match alookup pair_eqb (Pair v1 v2) (d_p2 ds) with Some s => f0 S2 s | None => k0 end = dv12 sig1.
Proof.
  destruct (point2_run v1 v2 prog1 prog2 0 _ _ Hok (inv12p_init v1 v2 pd Hpd1 Hpd2 Hpd12))
    as ((Hs1 & _) & _ & _ & Hq & Hw).
  fold ds in Hq, Hw. set (n := prun_n S1 prog1 0) in *.
  specialize (Hw 0%Z). unfold sig1. rewrite (f0_get S1 _ n Hs1).
  destruct (alookup pair_eqb (Pair v1 v2) (d_p2 ds)) as [p|]; cbn [oget opshaped] in *.
  - destruct Hq as [Hq1 _]. rewrite (f0_get S2 _ n Hq1), Hw. reflexivity.
  - unfold dvT in Hw. unfold t0 in Hw. now injection Hw as <- _ _.
Qed.

(* Hessian probe of the bookkeeping over L for [v1; v2]: both mixed entries are dv12 of the plain signal
   over K; the Jacobian entries are dv1, dv2 of it; the signal over L is its value *)
Theorem hessian_point :
  nth 1 (nth 0 (hessian ds [v1; v2]) []) k0 = dv12 sig1 /\
  nth 0 (nth 1 (hessian ds [v1; v2]) []) k0 = dv12 sig1 /\
  jacobian ds [v1; v2] = [dv1 sig1; dv2 sig1] /\
  f0 S2 (d_main ds) = ev sig1.
Proof.
  pose proof hessian_entry_point as E.
  destruct (point2_run v1 v2 prog1 prog2 0 _ _ Hok (inv12p_init v1 v2 pd Hpd1 Hpd2 Hpd12))
    as ((Hs1 & Hs & Hm & _ & _ & Hp1 & Hv1) & (_ & _ & _ & _ & _ & Hp2 & Hv2) & _).
  fold ds in Hs, Hm, Hp1, Hv1, Hp2, Hv2. set (n := prun_n S1 prog1 0) in *.
  split; [|split; [|split]].
  - unfold hessian. cbn [map nth]. exact E.
  - unfold hessian. cbn [map nth]. rewrite (Pair_comm v2 v1). exact E.
  - unfold jacobian. cbn [map]. unfold sig1. rewrite (f0_get S1 _ n Hs1).
    specialize (Hv1 0%Z). specialize (Hv2 0%Z). f_equal; [|f_equal].
    + destruct (alookup Nat.eqb v1 (d_p1 ds)) as [p|]; cbn [oget opshaped] in *.
      * destruct Hp1 as [Hq1 _]. rewrite (f0_get S2 _ n Hq1), Hv1. reflexivity.
      * unfold dvT in Hv1. unfold t0 in Hv1. now injection Hv1 as <- _ _.
    + destruct (alookup Nat.eqb v2 (d_p1 ds)) as [p|]; cbn [oget opshaped] in *.
      * destruct Hp2 as [Hq2 _]. rewrite (f0_get S2 _ n Hq2), Hv2. reflexivity.
      * unfold dvT in Hv2. unfold t0 in Hv2. now injection Hv2 as <- _ _.
  - unfold sig1. rewrite (f0_get S2 _ n Hs), (f0_get S1 _ n Hs1), Hm. reflexivity.
Qed.
End Probe.

(* a single variable differentiated twice (v1 = v2 = v), in the style of jacobian_point *)
Theorem hessian_point_diag v prog1 prog2 pd :
  dv1 pd = k0 -> dv2 pd = k0 -> dv12 pd = k0 -> prog_ok12 v v prog1 prog2 (dinit (init (ev pd))) ->
  let ds := drun prog2 (dinit (init (ev pd))) in
  hessian ds [v] = [[dv12 (f0 S1 (run prog1 (init pd)))]] /\
  jacobian ds [v] = [dv1 (f0 S1 (run prog1 (init pd)))] /\
  f0 S2 (d_main ds) = ev (f0 S1 (run prog1 (init pd))).
Proof.
  intros H1 H2 H12 Hok ds.
  pose proof (hessian_entry_point v v prog1 prog2 pd H1 H2 H12 Hok) as E.
  destruct (hessian_point v v prog1 prog2 pd H1 H2 H12 Hok) as (_ & _ & J & F).
  fold ds in E, J, F.
  split; [|split; [|exact F]].
  - unfold hessian. cbn [map]. now rewrite E.
  - unfold jacobian in *. cbn [map] in *. now injection J as -> _.
Qed.

End Main12.
