(* Non-vacuity of the two-ring second-order theorem (Proofs/DiffPoint2.v) on an EXECUTED instance:
   K = double dual numbers  a + ax e1 + ay e2 + axy e1e2  over the Gaussian rationals, L = the Gaussian
   rationals, ev / dv1 / dv2 / dv12 = the four coefficients.  The plain program over K (mixing matrix,
   ScalarOp with recovery, shift, mixing matrix, ScalarOp) and the program handed to the bookkeeping over L
   (the ScalarOps declared as Proofs/Shapes2.v dopXY: two variables on two parameters, mixed table) meet
   [pair_ok12]; both runs are executed with vm_compute: the mixed Hessian entry is non-zero and equals the
   e1e2 coefficient of the plain signal. *)
From Coq Require Import List ZArith Lia Bool Arith Ring.
From EPG Require Import Scalar QI Dual State Ops ListLemmas Views Diff DiffLemmas DiffExact DiffPoint DiffOrder2
  DiffExact2Lemmas DiffExact2 DiffPoint2 Shapes2.
Import ListNotations.

Section NonvacP.
Variable S : ScalOps.
Hypothesis L : ScalLaws S.
Add Ring Kn5 : (k_ring S L).
Notation D1 := (DualOps S).
Notation D2 := (DualOps (DualOps S)).

Definition LD1 : ScalLaws D1 := DualLaws S L.
Definition LD2 : ScalLaws D2 := DualLaws D1 LD1.

Definition q00 (z : D2) : S := fst (fst z).
Definition q10 (z : D2) : S := snd (fst z).
Definition q01 (z : D2) : S := fst (snd z).
Definition q11 (z : D2) : S := snd (snd z).

Lemma q00_0 : q00 k0 = k0. Proof. reflexivity. Qed.
Lemma q00_add x y : q00 (x + y)%K = (q00 x + q00 y)%K. Proof. reflexivity. Qed.
Lemma q00_mul x y : q00 (x * y)%K = (q00 x * q00 y)%K. Proof. reflexivity. Qed.
Lemma q10_add x y : q10 (x + y)%K = (q10 x + q10 y)%K. Proof. reflexivity. Qed.
Lemma q01_add x y : q01 (x + y)%K = (q01 x + q01 y)%K. Proof. reflexivity. Qed.
Lemma q11_add x y : q11 (x + y)%K = (q11 x + q11 y)%K. Proof. reflexivity. Qed.
Lemma q10_mul x y : q10 (x * y)%K = (q10 x * q00 y + q00 x * q10 y)%K.
Proof. unfold q10, q00. simpl. ring. Qed.
Lemma q01_mul x y : q01 (x * y)%K = (q01 x * q00 y + q00 x * q01 y)%K.
Proof. unfold q01, q00. simpl. ring. Qed.
Lemma q11_mul x y : q11 (x * y)%K = (q11 x * q00 y + q10 x * q01 y + q01 x * q10 y + q00 x * q11 y)%K.
Proof. unfold q11, q10, q01, q00. simpl. ring. Qed.

Definition mk4s (a ax ay axy : S) : D2 := (((a, ax) : dual S, (ay, axy) : dual S) : dual D1).
Definition lift4s (a ax ay axy : triple S) : triple D2 :=
  @mk3 D2 (mk4s (fp a) (fp ax) (fp ay) (fp axy)) (mk4s (fm a) (fm ax) (fm ay) (fm axy))
          (mk4s (fz a) (fz ax) (fz ay) (fz axy)).
Notation z3 := (@t0 S).
Notation zM := (mzero S).

Lemma mscale_1 (M : mat3 S) : mscale k1 M = M.
Proof. apply (mat3_ext2 S); apply (triple_ext S); unfold mscale, tscale; simpl; ring. Qed.
Lemma mscale_11 (M : mat3 S) : mscale (k1 * k1)%K M = M.
Proof. apply (mat3_ext2 S); apply (triple_ext S); unfold mscale, tscale; simpl; ring. Qed.

Lemma q_mdiag (f : D2 -> S) (a ax ay axy : triple S) (t : triple S) :
  f k0 = k0 ->
  f (mk4s (fp a) (fp ax) (fp ay) (fp axy)) = fp t -> f (mk4s (fm a) (fm ax) (fm ay) (fm axy)) = fm t ->
  f (mk4s (fz a) (fz ax) (fz ay) (fz axy)) = fz t ->
  dvM D2 S f (mdiag (lift4s a ax ay axy)) = mdiag t.
Proof.
  intros F0 A B C. destruct t as [t1 t2 t3]. unfold dvM, dvT, mdiag, lift4s. cbn [row0 row1 row2 fp fm fz] in *.
  now rewrite F0, A, B, C.
Qed.

(* plain ScalarOp over K and its declaration over L: variables 0 and 1 on parameters 0 and 1, mixed table *)
Definition nvp_lin1 (a ax ay axy b bx by_ bxy : triple S) : lin D2 :=
  LScalar (lift4s a ax ay axy) (Some (lift4s b bx by_ bxy)).
Definition nvp_dop (a ax ay axy b bx by_ bxy : triple S) : dop S :=
  dopXY S false (LScalar a (Some b)) 0 1 (LScalar ax (Some bx)) (LScalar ay (Some by_)) (LScalar axy (Some bxy))
        0 1 k1 k1.

Lemma nvp_op_ok a ax ay axy b bx by_ bxy bb :
  pair_ok12 D2 S q00 q10 q01 q11 0 1 bb (lin_op D2 (nvp_lin1 a ax ay axy b bx by_ bxy))
            (DOp (nvp_dop a ax ay axy b bx by_ bxy)).
Proof.
  assert (E : LScalar a (Some b) = map_lin D2 S q00 (nvp_lin1 a ax ay axy b bx by_ bxy)).
  { unfold nvp_lin1. cbn [map_lin option_map]. f_equal; [|f_equal]; [now destruct a|now destruct b]. }
  unfold nvp_dop. rewrite E.
  apply (dopXY_ok D2 S L q00 q10 q01 q11 false 0 1 bb (nvp_lin1 a ax ay axy b bx by_ bxy) 0 1);
    try reflexivity; try discriminate; unfold nvp_lin1; cbn [lmat lmat0]; rewrite ?mscale_1, ?mscale_11;
    apply q_mdiag; reflexivity.
Qed.

(* a constant mixing matrix *)
Definition clift4s (a : triple S) : triple D2 := lift4s a z3 z3 z3.
Definition nvp_mat1 (m : mat3 S) : lin D2 :=
  LMatrix (@mkM D2 (clift4s (row0 m)) (clift4s (row1 m)) (clift4s (row2 m))) None.
Lemma nvp_const_ok m bb :
  pair_ok12 D2 S q00 q10 q01 q11 0 1 bb (lin_op D2 (nvp_mat1 m)) (DOp (dop0 S (LMatrix m None))).
Proof.
  assert (E : LMatrix m None = map_lin D2 S q00 (nvp_mat1 m)).
  { unfold nvp_mat1. cbn [map_lin option_map]. f_equal. destruct m as [[a b c] [d e f] [g h i]]. reflexivity. }
  rewrite E. apply (dop0_ok D2 S L q00 q10 q01 q11 0 1 bb (nvp_mat1 m)); reflexivity.
Qed.

End NonvacP.

(* executed instance over the Gaussian rationals: mixing, operator, shift, mixing, operator *)
Definition D2p : ScalOps := DualOps (DualOps QIops).
Definition nvp_a   := @mk3 QIops (qi 1 2 1 2) (qi 1 2 (-1) 2) (qr 1 2).
Definition nvp_ax  := @mk3 QIops (qi 1 1 0 1) (qi 1 1 0 1) (qr (-1) 2).
Definition nvp_ay  := @mk3 QIops (qi 0 1 1 1) (qi 0 1 (-1) 1) (qr 1 3).
Definition nvp_axy := @mk3 QIops (qr 1 2) (qr 1 2) (qr 2 1).
Definition nvp_b   := @mk3 QIops (qr 0 1) (qr 0 1) (qr 1 2).
Definition nvp_bx  := @mk3 QIops (qr 0 1) (qr 0 1) (qr 1 4).
Definition nvp_by  := @mk3 QIops (qr 0 1) (qr 0 1) (qr (-1) 3).
Definition nvp_bxy := @mk3 QIops (qr 0 1) (qr 0 1) (qr 1 5).
Definition nvp_m   := @mkM QIops (@mk3 QIops (qr 1 2) (qr 1 2) (qi 0 1 (-1) 1)) (@mk3 QIops (qr 1 2) (qr 1 2) (qi 0 1 1 1))
                                 (@mk3 QIops (qi 0 1 (-1) 2) (qi 0 1 1 2) (qr 0 1)).

Definition nvp_prog1 : list (op D2p) :=
  let o := lin_op D2p (nvp_lin1 QIops nvp_a nvp_ax nvp_ay nvp_axy nvp_b nvp_bx nvp_by nvp_bxy) in
  let m := lin_op D2p (nvp_mat1 QIops nvp_m) in
  [m; o; OShift 1 None; m; o].
Definition nvp_prog2 : list (dinstr QIops) :=
  let o := DOp (nvp_dop QIops nvp_a nvp_ax nvp_ay nvp_axy nvp_b nvp_bx nvp_by nvp_bxy) in
  let m := DOp (dop0 QIops (LMatrix nvp_m None)) in
  [m; o; DOp (dop0 QIops (LShift 1 None)); m; o].
Definition nvp_pd : D2p := ((qr 1 1, qi0), (qi0, qi0)).

Lemma nvp_prog_ok :
  Forall2 (pair_ok12 D2p QIops (q00 QIops) (q10 QIops) (q01 QIops) (q11 QIops) 0 1 false) nvp_prog1 nvp_prog2.
Proof.
  unfold nvp_prog1, nvp_prog2. cbv zeta.
  repeat (apply Forall2_cons;
    [first [apply (nvp_const_ok QIops QIlaws)|apply (nvp_op_ok QIops QIlaws)
           |apply (dop0_shift_ok D2p QIops (q00 QIops) (q10 QIops) (q01 QIops) (q11 QIops))]|]).
  apply Forall2_nil.
Qed.

(* both runs executed: the entry the bookkeeping computes is non-zero and is the e1e2 coefficient of the plain run *)
Lemma nvp_hessian_nonzero :
  nth 1 (nth 0 (hessian (drun nvp_prog2 (dinit (@init QIops (q00 QIops nvp_pd)))) [0%nat; 1%nat]) []) (@k0 QIops)
    <> @k0 QIops.
Proof. vm_compute. intros H. discriminate H. Qed.
Lemma nvp_hessian_executed :
  keqb (nth 1 (nth 0 (hessian (drun nvp_prog2 (dinit (@init QIops (q00 QIops nvp_pd)))) [0%nat; 1%nat]) []) (@k0 QIops))
       (q11 QIops (f0 D2p (run nvp_prog1 (@init D2p nvp_pd)))) = true.
Proof. vm_compute. reflexivity. Qed.

Theorem nvp_witness :
  exists (S1 S2 : ScalOps) (ev dv1 dv2 dv12 : S1 -> S2) (prog1 : list (op S1)) (prog2 : list (dinstr S2)) (pd : S1)
         (v1 v2 : var),
    ScalLaws S1 /\ ScalLaws S2 /\
    ev k0 = k0 /\ (forall x y, ev (x + y)%K = (ev x + ev y)%K) /\ (forall x y, ev (x * y)%K = (ev x * ev y)%K) /\
    (forall x y, dv1 (x + y)%K = (dv1 x + dv1 y)%K) /\ (forall x y, dv1 (x * y)%K = (dv1 x * ev y + ev x * dv1 y)%K) /\
    (forall x y, dv2 (x + y)%K = (dv2 x + dv2 y)%K) /\ (forall x y, dv2 (x * y)%K = (dv2 x * ev y + ev x * dv2 y)%K) /\
    (forall x y, dv12 (x + y)%K = (dv12 x + dv12 y)%K) /\
    (forall x y, dv12 (x * y)%K = (dv12 x * ev y + dv1 x * dv2 y + dv2 x * dv1 y + ev x * dv12 y)%K) /\
    dv1 pd = k0 /\ dv2 pd = k0 /\ dv12 pd = k0 /\
    Forall2 (pair_ok12 S1 S2 ev dv1 dv2 dv12 v1 v2 false) prog1 prog2 /\
    nth 1 (nth 0 (hessian (drun prog2 (dinit (init (ev pd)))) [v1; v2]) []) k0 <> k0 /\
    nth 1 (nth 0 (hessian (drun prog2 (dinit (init (ev pd)))) [v1; v2]) []) k0 = dv12 (f0 S1 (run prog1 (init pd))).
Proof.
  exists D2p, QIops, (q00 QIops), (q10 QIops), (q01 QIops), (q11 QIops), nvp_prog1, nvp_prog2, nvp_pd, 0%nat, 1%nat.
  pose proof (LD2 QIops QIlaws) as LL.
  pose proof (q00_add QIops) as A0. pose proof (q00_mul QIops) as M0.
  pose proof (q10_add QIops) as A1. pose proof (q10_mul QIops QIlaws) as M1.
  pose proof (q01_add QIops) as A2. pose proof (q01_mul QIops QIlaws) as M2.
  pose proof (q11_add QIops) as A12. pose proof (q11_mul QIops QIlaws) as M12.
  assert (Z0 : q00 QIops (@k0 D2p) = @k0 QIops) by reflexivity.
  assert (P1 : q10 QIops nvp_pd = @k0 QIops) by reflexivity.
  assert (P2 : q01 QIops nvp_pd = @k0 QIops) by reflexivity.
  assert (P12 : q11 QIops nvp_pd = @k0 QIops) by reflexivity.
  split; [exact LL|]. split; [exact QIlaws|]. split; [exact Z0|]. split; [exact A0|]. split; [exact M0|].
  split; [exact A1|]. split; [exact M1|]. split; [exact A2|]. split; [exact M2|]. split; [exact A12|]. split; [exact M12|].
  split; [exact P1|]. split; [exact P2|]. split; [exact P12|].
  split; [exact nvp_prog_ok|]. split; [exact nvp_hessian_nonzero|].
  pose proof (prog_ok12_static D2p QIops (q00 QIops) (q10 QIops) (q01 QIops) (q11 QIops) 0%nat 1%nat
                nvp_prog1 nvp_prog2 nvp_prog_ok (dinit (@init QIops (q00 QIops nvp_pd)))) as Hok.
  destruct (hessian_point D2p QIops LL QIlaws (q00 QIops) (q10 QIops) (q01 QIops) (q11 QIops) Z0 A0 M0 A1 M1 A2 M2 A12 M12
              0%nat 1%nat nvp_prog1 nvp_prog2 nvp_pd P1 P2 P12 Hok) as [E _].
  exact E.
Qed.

(* ---- the same with operators applied through Operator.__call__ between the differentiated ones:
   mixing, operator, RESET, PD(2, reset=True), mixing, operator, shift, SPOILER, PD(1/2, reset=False), Wait,
   mixing, operator -- SPOILER / RESET / PD act on the first- and second-order partials too ---- *)
Definition nvq_pdT : D2p := ((qr 2 1, qi0), (qi0, qi0)).
Definition nvq_pdF : D2p := ((qr 1 2, qi0), (qi0, qi0)).
Definition nvq_prog1 : list (op D2p) :=
  let o := lin_op D2p (nvp_lin1 QIops nvp_a nvp_ax nvp_ay nvp_axy nvp_b nvp_bx nvp_by nvp_bxy) in
  let m := lin_op D2p (nvp_mat1 QIops nvp_m) in
  [m; o; OReset; OPD nvq_pdT true; m; o; OShift 1 None; OSpoil; OPD nvq_pdF false; OWait; m; o].
Definition nvq_prog2 : list (dinstr QIops) :=
  let o := DOp (nvp_dop QIops nvp_a nvp_ax nvp_ay nvp_axy nvp_b nvp_bx nvp_by nvp_bxy) in
  let m := DOp (dop0 QIops (LMatrix nvp_m None)) in
  [m; o; DPlain (@OReset QIops); DPlain (@OPD QIops (qr 2 1) true); m; o; DOp (dop0 QIops (LShift 1 None));
   DPlain (@OSpoil QIops); DPlain (@OPD QIops (qr 1 2) false); DPlain (@OWait QIops); m; o].

Lemma nvq_pd_ok (p1 : D2p) (r : bool) bb :
  q10 QIops p1 = @k0 QIops -> q01 QIops p1 = @k0 QIops -> q11 QIops p1 = @k0 QIops ->
  pair_ok12 D2p QIops (q00 QIops) (q10 QIops) (q01 QIops) (q11 QIops) 0 1 bb (@OPD D2p p1 r)
            (DPlain (@OPD QIops (q00 QIops p1) r)).
Proof.
  exact (plain_pd_ok D2p QIops (q00 QIops) (q10 QIops) (q01 QIops) (q11 QIops) 0 1 bb p1 r).
Qed.

Lemma nvq_prog_ok :
  Forall2 (pair_ok12 D2p QIops (q00 QIops) (q10 QIops) (q01 QIops) (q11 QIops) 0 1 false) nvq_prog1 nvq_prog2.
Proof.
  unfold nvq_prog1, nvq_prog2. cbv zeta.
  repeat (apply Forall2_cons;
    [first [apply (nvp_const_ok QIops QIlaws)|apply (nvp_op_ok QIops QIlaws)
           |apply (dop0_shift_ok D2p QIops (q00 QIops) (q10 QIops) (q01 QIops) (q11 QIops))
           |exact (nvq_pd_ok nvq_pdT true false eq_refl eq_refl eq_refl)
           |exact (nvq_pd_ok nvq_pdF false false eq_refl eq_refl eq_refl)
           |reflexivity]|]).
  apply Forall2_nil.
Qed.

Lemma nvq_hessian_nonzero :
  nth 1 (nth 0 (hessian (drun nvq_prog2 (dinit (@init QIops (q00 QIops nvp_pd)))) [0%nat; 1%nat]) []) (@k0 QIops)
    <> @k0 QIops.
Proof. vm_compute. intros H. discriminate H. Qed.

(* every plain operator of the program changes the result: the Hessian entry differs from the one of the
   program without the plain operators *)
Lemma nvq_hessian_differs :
  keqb (nth 1 (nth 0 (hessian (drun nvq_prog2 (dinit (@init QIops (q00 QIops nvp_pd)))) [0%nat; 1%nat]) []) (@k0 QIops))
       (nth 1 (nth 0 (hessian (drun (filter (fun i => match i with DOp _ => true | DPlain _ => false end) nvq_prog2)
                                    (dinit (@init QIops (q00 QIops nvp_pd)))) [0%nat; 1%nat]) []) (@k0 QIops)) = false.
Proof. vm_compute. reflexivity. Qed.

Theorem nvq_witness :
  Forall2 (pair_ok12 D2p QIops (q00 QIops) (q10 QIops) (q01 QIops) (q11 QIops) 0 1 false) nvq_prog1 nvq_prog2 /\
  In (DPlain (@OSpoil QIops)) nvq_prog2 /\ In (DPlain (@OReset QIops)) nvq_prog2 /\ In (DPlain (@OWait QIops)) nvq_prog2 /\
  In (DPlain (@OPD QIops (qr 2 1) true)) nvq_prog2 /\ In (DPlain (@OPD QIops (qr 1 2) false)) nvq_prog2 /\
  nth 1 (nth 0 (hessian (drun nvq_prog2 (dinit (@init QIops (q00 QIops nvp_pd)))) [0%nat; 1%nat]) []) (@k0 QIops)
    <> @k0 QIops /\
  nth 1 (nth 0 (hessian (drun nvq_prog2 (dinit (@init QIops (q00 QIops nvp_pd)))) [0%nat; 1%nat]) []) (@k0 QIops)
    = q11 QIops (f0 D2p (run nvq_prog1 (@init D2p nvp_pd))).
Proof.
  split; [exact nvq_prog_ok|].
  split; [unfold nvq_prog2; cbn [In]; tauto|]. split; [unfold nvq_prog2; cbn [In]; tauto|].
  split; [unfold nvq_prog2; cbn [In]; tauto|]. split; [unfold nvq_prog2; cbn [In]; tauto|].
  split; [unfold nvq_prog2; cbn [In]; tauto|]. split; [exact nvq_hessian_nonzero|].
  pose proof (LD2 QIops QIlaws) as LL.
  pose proof (prog_ok12_static D2p QIops (q00 QIops) (q10 QIops) (q01 QIops) (q11 QIops) 0%nat 1%nat
                nvq_prog1 nvq_prog2 nvq_prog_ok (dinit (@init QIops (q00 QIops nvp_pd)))) as Hok.
  destruct (hessian_point D2p QIops LL QIlaws (q00 QIops) (q10 QIops) (q01 QIops) (q11 QIops) eq_refl
              (q00_add QIops) (q00_mul QIops) (q10_add QIops) (q10_mul QIops QIlaws) (q01_add QIops) (q01_mul QIops QIlaws)
              (q11_add QIops) (q11_mul QIops QIlaws)
              0%nat 1%nat nvq_prog1 nvq_prog2 nvp_pd eq_refl eq_refl eq_refl Hok) as [E _].
  exact E.
Qed.
