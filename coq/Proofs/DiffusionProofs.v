(* C05 — proofs.  Part A: analytic facts about the GENERATED b-matrix / attenuation formulas (Gen/Diffusion.v).
   Part B: D._apply on the array model as a function of the phase-state number; one [RF, shift, D] block is a linear
   map with entries (RF entry) * (attenuation of the target state); the pathway sum for any number of blocks,
   generic in the scalars and in the attenuation functions.  Part C: K = C with the generated exp(-b:D). *)
From Coq Require Import Reals Lra Lia ZArith QArith Qreals List Bool Arith Ring.
From Coquelicot Require Import Coquelicot.
From EPG Require Import Scalar State Ops ListLemmas Views WfProof SynthStep CInst.
From EPG.Gen Require Import Diffusion.
From EPG.Model Require Import Diffusion.
Import ListNotations.

Section Analytic.
Local Open Scope R_scope.

(* unit factors exactly as the code has them: tau * 1e-3 (ms -> s), k * 1e-3 (rad/m -> rad/mm) *)
Definition ms_to_s : R := 1 / 1000.
Definition radm_to_radmm : R := 1 / 1000.
Definition unit_factor : R := ms_to_s * (radm_to_radmm * radm_to_radmm).

(* linear ramp of one wavenumber component during the interval [0, tau] *)
Definition kramp (tau k1 k2 t : R) : R := k1 + (k2 - k1) * (t / tau).

Definition prim (tau a1 b1 a2 b2 t : R) : R :=
  a1 * b1 * t + (a1 * (b2 - b1) + (a2 - a1) * b1) * (t * t / (2 * tau))
  + (a2 - a1) * (b2 - b1) * (t * t * t / (3 * (tau * tau))).

Lemma prim_derive tau a1 b1 a2 b2 t : tau <> 0 ->
  is_derive (prim tau a1 b1 a2 b2) t (kramp tau a1 a2 t * kramp tau b1 b2 t).
Proof.
  intros Ht. unfold prim, kramp. auto_derive.
  - repeat split; auto.
  - unfold Rdiv. field. exact Ht.
Qed.

(* closed form of the integral of a product of two ramps (Stejskal-Tanner type term) *)
Definition ramp_int (tau a1 b1 a2 b2 : R) : R :=
  tau * (a1 * b1 + (1 / 2) * (a1 * (b2 - b1)) + (1 / 2) * ((a2 - a1) * b1) + (1 / 3) * ((a2 - a1) * (b2 - b1))).

Lemma ramp_integral tau a1 b1 a2 b2 : tau <> 0 ->
  is_RInt (fun t => kramp tau a1 a2 t * kramp tau b1 b2 t) 0 tau (ramp_int tau a1 b1 a2 b2).
Proof.
  intros Ht.
  replace (ramp_int tau a1 b1 a2 b2) with (minus (prim tau a1 b1 a2 b2 tau) (prim tau a1 b1 a2 b2 0)).
  - apply (is_RInt_derive (prim tau a1 b1 a2 b2) (fun t => kramp tau a1 a2 t * kramp tau b1 b2 t)).
    + intros x _. exact (prim_derive tau a1 b1 a2 b2 x Ht).
    + intros x _. apply (ex_derive_continuous (fun t => kramp tau a1 a2 t * kramp tau b1 b2 t)).
      unfold kramp. auto_derive. repeat split; auto.
  - unfold minus, plus, opp; simpl. unfold prim, ramp_int. unfold Rdiv. field. exact Ht.
Qed.

(* the generated entry = unit factor * closed form, as a polynomial identity (no side condition) *)
Lemma bmat_closed_form tau k1i k1j k2i k2j :
  bmat tau k1i k1j k2i k2j = unit_factor * ramp_int tau k1i k1j k2i k2j.
Proof. unfold bmat, unit_factor, ms_to_s, radm_to_radmm, ramp_int. field. Qed.

(* (1) in the caller's units: tau in ms, k in rad/m *)
Theorem bmatrix_is_integral tau k1i k1j k2i k2j : tau <> 0 ->
  is_RInt (fun t => kramp tau k1i k2i t * kramp tau k1j k2j t) 0 tau
          (bmat tau k1i k1j k2i k2j / unit_factor).
Proof.
  intros Ht. rewrite bmat_closed_form.
  replace (unit_factor * ramp_int tau k1i k1j k2i k2j / unit_factor) with (ramp_int tau k1i k1j k2i k2j).
  - exact (ramp_integral tau k1i k1j k2i k2j Ht).
  - unfold unit_factor, ms_to_s, radm_to_radmm. field.
Qed.

(* (1') in the b-matrix's own units: t in s over [0, tau*1e-3], k in rad/mm: no factor at all *)
Theorem bmatrix_is_integral_si tau k1i k1j k2i k2j : tau <> 0 ->
  is_RInt (fun t => kramp (tau * ms_to_s) (k1i * radm_to_radmm) (k2i * radm_to_radmm) t *
                    kramp (tau * ms_to_s) (k1j * radm_to_radmm) (k2j * radm_to_radmm) t)
          0 (tau * ms_to_s) (bmat tau k1i k1j k2i k2j).
Proof.
  intros Ht.
  replace (bmat tau k1i k1j k2i k2j)
    with (ramp_int (tau * ms_to_s) (k1i * radm_to_radmm) (k1j * radm_to_radmm) (k2i * radm_to_radmm) (k2j * radm_to_radmm)).
  - apply ramp_integral. unfold ms_to_s. lra.
  - unfold bmat, ramp_int, ms_to_s, radm_to_radmm. field.
Qed.

(* (2) constant wavenumber: k2 = None, or the allclose branch, or the ramp formula at k2 = k1 all coincide *)
Theorem bmatrix_const tau k1i k1j :
  bmat tau k1i k1j k1i k1j = bmat_const tau k1i k1j /\
  bmat_const tau k1i k1j = unit_factor * (k1i * k1j * tau) /\
  is_RInt (fun _ => k1i * k1j) 0 tau (bmat_const tau k1i k1j / unit_factor).
Proof.
  split; [|split].
  - unfold bmat, bmat_const. field.
  - unfold bmat_const, unit_factor, ms_to_s, radm_to_radmm. field.
  - replace (bmat_const tau k1i k1j / unit_factor) with (scal (tau - 0) (k1i * k1j)).
    + apply (is_RInt_const 0 tau (k1i * k1j)).
    + unfold scal; simpl; unfold mult; simpl. unfold bmat_const, unit_factor, ms_to_s, radm_to_radmm. field.
Qed.

(* (3) evenness and symmetry *)
Theorem bmatrix_even tau k1i k1j k2i k2j :
  bmat tau (- k1i) (- k1j) (- k2i) (- k2j) = bmat tau k1i k1j k2i k2j /\
  bmat_const tau (- k1i) (- k1j) = bmat_const tau k1i k1j.
Proof. split; unfold bmat, bmat_const; field. Qed.

Theorem bmatrix_symmetric tau k1i k1j k2i k2j :
  bmat tau k1i k1j k2i k2j = bmat tau k1j k1i k2j k2i.
Proof. unfold bmat; field. Qed.

(* (4) scalar D behaves exactly as the isotropic tensor D*I *)
Theorem iso_equals_tensor (D : R) :
  (forall b00, att_iso1 b00 D = att_tensor1 b00 D) /\
  (forall b00 b01 b10 b11, att_iso2 b00 b01 b10 b11 D = att_tensor2 b00 b01 b10 b11 D 0 0 D) /\
  (forall b00 b01 b02 b10 b11 b12 b20 b21 b22,
     att_iso3 b00 b01 b02 b10 b11 b12 b20 b21 b22 D =
     att_tensor3 b00 b01 b02 b10 b11 b12 b20 b21 b22 D 0 0 0 D 0 0 0 D).
Proof.
  split; [|split]; intros; unfold att_iso1, att_tensor1, att_iso2, att_tensor2, att_iso3, att_tensor3; f_equal; ring.
Qed.

(* (5) the zero-wavenumber state is not attenuated in a gradient-free interval (any tau, any D) *)
Theorem k0_unattenuated tau :
  bmat_const tau 0 0 = 0 /\ bmat tau 0 0 0 0 = 0 /\
  (forall D, att_iso1 (bmat_const tau 0 0) D = 1) /\
  (forall D00, att_tensor1 (bmat_const tau 0 0) D00 = 1) /\
  (forall D, att_iso3 (bmat_const tau 0 0) (bmat_const tau 0 0) (bmat_const tau 0 0) (bmat_const tau 0 0) (bmat_const tau 0 0)
                      (bmat_const tau 0 0) (bmat_const tau 0 0) (bmat_const tau 0 0) (bmat_const tau 0 0) D = 1) /\
  (forall D00 D01 D02 D10 D11 D12 D20 D21 D22,
     att_tensor3 (bmat_const tau 0 0) (bmat_const tau 0 0) (bmat_const tau 0 0) (bmat_const tau 0 0) (bmat_const tau 0 0)
                 (bmat_const tau 0 0) (bmat_const tau 0 0) (bmat_const tau 0 0) (bmat_const tau 0 0)
                 D00 D01 D02 D10 D11 D12 D20 D21 D22 = 1).
Proof.
  assert (H0 : bmat_const tau 0 0 = 0) by (unfold bmat_const; field).
  split; [exact H0|]. split; [unfold bmat; field|].
  rewrite H0. unfold att_iso1, att_tensor1, att_iso3, att_tensor3.
  repeat split; intros; rewrite <- exp_0; f_equal; ring.
Qed.

(* (6) attenuation never exceeds 1 for positive semi-definite D and tau >= 0 *)
Lemma exp_neg_le_1 x : 0 <= x -> exp (- x) <= 1.
Proof.
  intros Hx. rewrite <- exp_0. destruct Hx as [Hx|<-].
  - left. apply exp_increasing. lra.
  - rewrite Ropp_0. right. reflexivity.
Qed.

Lemma bmat_diag_nonneg tau k1 k2 : 0 <= tau -> 0 <= bmat tau k1 k1 k2 k2.
Proof.
  intros Ht.
  replace (bmat tau k1 k1 k2 k2) with
    (tau * (/ 1000000000) * ((k1 + (k2 - k1) / 2) * (k1 + (k2 - k1) / 2) + (k2 - k1) * (k2 - k1) / 12))
    by (unfold bmat; field).
  apply Rmult_le_pos; [apply Rmult_le_pos; lra|].
  apply Rplus_le_le_0_compat; [apply Rle_0_sqr|].
  apply Rmult_le_pos; [apply Rle_0_sqr|lra].
Qed.

Theorem att_le_1_1d tau k1 k2 D : 0 <= tau -> 0 <= D ->
  att_tensor1 (bmat tau k1 k1 k2 k2) D <= 1 /\ att_iso1 (bmat tau k1 k1 k2 k2) D <= 1 /\
  att_tensor1 (bmat_const tau k1 k1) D <= 1.
Proof.
  intros Ht HD. pose proof (bmat_diag_nonneg tau k1 k2 Ht) as Hb.
  unfold att_tensor1, att_iso1. split; [|split].
  - apply exp_neg_le_1. now apply Rmult_le_pos.
  - replace (- bmat tau k1 k1 k2 k2 * D) with (- (bmat tau k1 k1 k2 k2 * D)) by ring.
    apply exp_neg_le_1. now apply Rmult_le_pos.
  - apply exp_neg_le_1. apply Rmult_le_pos; auto.
    destruct (bmatrix_const tau k1 k1) as [<- _]. now apply bmat_diag_nonneg.
Qed.

(* quadratic form of a 3x3 tensor *)
Definition qf (D00 D01 D02 D10 D11 D12 D20 D21 D22 x y z : R) : R :=
  x * (D00 * x + D01 * y + D02 * z) + y * (D10 * x + D11 * y + D12 * z) + z * (D20 * x + D21 * y + D22 * z).

(* b : D for the full 3-D ramp is  tau_s * ( u^T D u + (dk^T D dk)/12 ),  u = mid-point wavenumber *)
Lemma bD_sum_of_squares tau x1 y1 z1 x2 y2 z2 D00 D01 D02 D10 D11 D12 D20 D21 D22 :
  bmat tau x1 x1 x2 x2 * D00 + bmat tau x1 y1 x2 y2 * D01 + bmat tau x1 z1 x2 z2 * D02 +
  bmat tau y1 x1 y2 x2 * D10 + bmat tau y1 y1 y2 y2 * D11 + bmat tau y1 z1 y2 z2 * D12 +
  bmat tau z1 x1 z2 x2 * D20 + bmat tau z1 y1 z2 y2 * D21 + bmat tau z1 z1 z2 z2 * D22 =
  tau * (/ 1000000000) *
   (qf D00 D01 D02 D10 D11 D12 D20 D21 D22 ((x1 + x2) / 2) ((y1 + y2) / 2) ((z1 + z2) / 2) +
    qf D00 D01 D02 D10 D11 D12 D20 D21 D22 (x2 - x1) (y2 - y1) (z2 - z1) / 12).
Proof. unfold bmat, qf. field. Qed.

Theorem att_le_1_psd tau x1 y1 z1 x2 y2 z2 D00 D01 D02 D10 D11 D12 D20 D21 D22 :
  0 <= tau ->
  (forall x y z, 0 <= qf D00 D01 D02 D10 D11 D12 D20 D21 D22 x y z) ->
  att_tensor3 (bmat tau x1 x1 x2 x2) (bmat tau x1 y1 x2 y2) (bmat tau x1 z1 x2 z2)
              (bmat tau y1 x1 y2 x2) (bmat tau y1 y1 y2 y2) (bmat tau y1 z1 y2 z2)
              (bmat tau z1 x1 z2 x2) (bmat tau z1 y1 z2 y2) (bmat tau z1 z1 z2 z2)
              D00 D01 D02 D10 D11 D12 D20 D21 D22 <= 1.
Proof.
  intros Ht Hpsd. unfold att_tensor3. apply exp_neg_le_1.
  rewrite bD_sum_of_squares.
  apply Rmult_le_pos; [apply Rmult_le_pos; lra|].
  apply Rplus_le_le_0_compat; [apply Hpsd|].
  apply Rmult_le_pos; [apply Hpsd|lra].
Qed.

(* ---- rational twins: what the executed model computes is the generated real formula *)
Lemma Q2R_lit1000 : Q2R (1 # 1000) = 1 / 1000.
Proof. unfold Q2R; simpl. lra. Qed.
Lemma Q2R_lit2 : Q2R (1 # 2) = 1 / 2.
Proof. unfold Q2R; simpl. lra. Qed.
Lemma Q2R_lit3 : Q2R (1 # 3) = 1 / 3.
Proof. unfold Q2R; simpl. lra. Qed.

Theorem bmatQ_correct (tau a b c d : Q) :
  Q2R (bmatQ tau a b c d) = bmat (Q2R tau) (Q2R a) (Q2R b) (Q2R c) (Q2R d) /\
  Q2R (bmat_constQ tau a b) = bmat_const (Q2R tau) (Q2R a) (Q2R b).
Proof.
  unfold bmatQ, bmat, bmat_constQ, bmat_const.
  repeat (rewrite ?Q2R_plus, ?Q2R_mult, ?Q2R_minus).
  rewrite ?Q2R_lit1000, ?Q2R_lit2, ?Q2R_lit3. split; reflexivity.
Qed.
End Analytic.

Section Pathways.
Variable S : ScalOps.
Hypothesis L : ScalLaws S.
Add Ring Kr : (k_ring S L).
Notation triple := (triple S).
Notation sm := (sm S).
Notation get := (get S).
Notation gete := (gete S).
Notation block := (block S).
Local Open Scope Z_scope.

(* ---------- D._apply as a function of the phase-state number ---------- *)
Lemma d_apply_shaped aT aL (s : sm) n : shaped S s n -> shaped S (d_apply aT aL s) n.
Proof.
  intros [H1 H2]. split; simpl; auto. unfold d_apply_list. now rewrite length_tab.
Qed.

Lemma gete_d_apply aT aL (s : sm) k : gete (d_apply aT aL s) k = gete s k.
Proof. reflexivity. Qed.

Lemma get_d_apply aT aL (s : sm) n k : shaped S s n ->
  get (d_apply aT aL s) k =
  mk3 (aT k * fp (get s k))%K (kconj (aT (- k)%Z * fp (get s (- k)%Z))%K) (aL k * fz (get s k))%K.
Proof.
  intros [H1 H2]. unfold get, d_apply, d_apply_idx. cbn [st].
  rewrite (getZ_odd t0 _ n) by (unfold d_apply_list; now rewrite length_tab).
  unfold d_apply_list. rewrite nthZ_tab, H1, half_odd.
  rewrite !(getZ_odd t0 (st s) n _ H1).
  destruct (Z.leb_spec 0 (k + Z.of_nat n)); destruct (Z.ltb_spec (k + Z.of_nat n) (Z.of_nat (2 * n + 1))); cbn [andb].
  - rewrite <- !(nthZ_nat t0 (st s)). rewrite Z2Nat.id by lia.
    replace (Z.of_nat (2 * n + 1 - 1 - Z.to_nat (k + Z.of_nat n))) with (- k + Z.of_nat n) by lia.
    replace (k + Z.of_nat n - Z.of_nat n) with k by lia.
    replace (- k + Z.of_nat n - Z.of_nat n) with (- k) by lia. reflexivity.
  - rewrite (nthZ_out t0 (st s) (k + Z.of_nat n)) by lia. rewrite (nthZ_out t0 (st s) (- k + Z.of_nat n)) by lia.
    apply (triple_ext S); simpl; try ring. replace (aT (- k)%Z * k0)%K with (@k0 S) by ring. symmetry; apply (conj_0 S L).
  - rewrite (nthZ_out t0 (st s) (k + Z.of_nat n)) by lia. rewrite (nthZ_out t0 (st s) (- k + Z.of_nat n)) by lia.
    apply (triple_ext S); simpl; try ring. replace (aT (- k)%Z * k0)%K with (@k0 S) by ring. symmetry; apply (conj_0 S L).
  - lia.
Qed.

(* D keeps the state matrix well-formed when the longitudinal factor is conjugate-even
   (true for exp(-bL:D): real, and bL is even in k) *)
Lemma wf_d_apply aT aL (s : sm) : (forall k, aL (- k) = kconj (aL k)) -> wf S s -> wf S (d_apply aT aL s).
Proof.
  intros HaL W. destruct (wf_shape S s W) as [n Hs].
  constructor.
  - exists n. now apply d_apply_shaped.
  - intros k. rewrite !(get_d_apply aT aL s n _ Hs). simpl. reflexivity.
  - intros k. rewrite !(get_d_apply aT aL s n _ Hs). simpl.
    rewrite (conj_mul S L), (wf_fz S s W k), HaL. reflexivity.
  - intros k Hk. rewrite gete_d_apply. now apply (wf_eq_off S s W).
  - rewrite gete_d_apply. apply (wf_eq_c S s W).
  - rewrite gete_d_apply. apply (wf_eq_r S s W).
Qed.

(* ---------- components, matrix entries ---------- *)
Inductive comp : Type := Cp | Cm | Cz.
Definition cget (c : comp) (x : triple) : S := match c with Cp => fp x | Cm => fm x | Cz => fz x end.
Definition mrow (m : mat3 S) (c : comp) : triple := match c with Cp => row0 m | Cm => row1 m | Cz => row2 m end.
(* RF matrix entry: amplitude transferred from component c' to component c *)
Definition ment (m : mat3 S) (c c' : comp) : S := cget c' (mrow m c).
(* wavenumber gained by component c during a shift by d *)
Definition delta (c : comp) (d : Z) : Z := match c with Cp => d | Cm => - d | Cz => 0 end.
(* attenuation met by component c arriving at wavenumber k in block B
   (F-(k) is the conjugate mirror of F+(-k): it carries conj (aT (-k))) *)
Definition att (B : block) (c : comp) (k : Z) : S :=
  match c with Cp => b_aT B k | Cm => kconj (b_aT B (- k)) | Cz => b_aL B k end.
Definition sumc (f : comp -> S) : S := (f Cp + f Cm + f Cz)%K.

Definition block_ok (B : block) : Prop :=
  wf_mat S (b_rf B) /\ (forall k, b_aL B (- k) = kconj (b_aL B k)).

Lemma wf_apply_block B s : block_ok B -> wf S s -> wf S (apply_block B s).
Proof.
  intros [Hm Ha] W. unfold apply_block. apply wf_d_apply; auto.
  apply (wf_step S L (OShift (b_d B) None)); [exact I|].
  apply (wf_step S L (OMatrix (b_rf B) None)); [split; [exact Hm|exact I]|exact W].
Qed.

(* one block = linear map whose entries are (RF entry) * (attenuation of the target state) *)
Theorem block_step B s c k : block_ok B -> wf S s ->
  cget c (get (apply_block B s) k) =
  (att B c k * sumc (fun c' => ment (b_rf B) c c' * cget c' (get s (k - delta c (b_d B)))))%K.
Proof.
  intros [Hm Ha] W. destruct (wf_shape S s W) as [n Hs].
  set (s1 := apply (OMatrix (b_rf B) None) s).
  assert (W1 : wf S s1) by (apply (wf_step S L (OMatrix (b_rf B) None)); [split; [exact Hm|exact I]|exact W]).
  assert (Hs1 : shaped S s1 n) by (apply (matrix_shaped S); auto).
  set (s2 := apply (OShift (b_d B) None) s1).
  assert (Hs2 : shaped S s2 (n + Z.abs_nat (b_d B))) by (apply (shift_shaped S (b_d B) None s1 n Hs1)).
  unfold apply_block. fold s1. fold s2.
  rewrite (get_d_apply _ _ s2 _ k Hs2).
  assert (G2 : forall j, get s2 j = mk3 (fp (get s1 (j - b_d B))) (fm (get s1 (j + b_d B))) (fz (get s1 j))).
  { intros j. apply (get_shift_notrunc S (b_d B) None s1 n j Hs1). reflexivity. }
  assert (G1 : forall j, get s1 j = mv (b_rf B) (get s j)).
  { intros j. unfold s1. change (apply (OMatrix (b_rf B) None) s) with (apply_matrix (b_rf B) None s).
    rewrite (get_matrix S L (b_rf B) None s n j Hs). unfold opt_mv.
    apply (triple_ext S); simpl; ring. }
  rewrite !G2. simpl.
  destruct c; simpl; unfold sumc, ment, mrow, cget, att.
  - rewrite G1. simpl. unfold dot. ring.
  - rewrite (conj_mul S L). f_equal.
    replace (- k - b_d B) with (- (k + b_d B)) by lia.
    rewrite <- (wf_fm S s1 W1 (k + b_d B)). rewrite G1. simpl. unfold dot.
    replace (k - - b_d B) with (k + b_d B) by lia. ring.
  - rewrite G1. simpl. unfold dot. replace (k - 0) with k by lia. ring.
Qed.

(* ---------- function-level semantics of a sequence of blocks (last block first) ---------- *)
Definition fblock (B : block) (f : comp -> Z -> S) : comp -> Z -> S :=
  fun c k => (att B c k * sumc (fun c' => ment (b_rf B) c c' * f c' (k - delta c (b_d B))%Z))%K.
Fixpoint frun (br : list block) (f0 : comp -> Z -> S) : comp -> Z -> S :=
  match br with [] => f0 | B :: t => fblock B (frun t f0) end.

Fixpoint run_rev (br : list block) (s : sm) : sm :=
  match br with [] => s | B :: t => apply_block B (run_rev t s) end.
Lemma run_rev_app br1 br2 s : run_rev (br1 ++ br2) s = run_rev br1 (run_rev br2 s).
Proof. induction br1; simpl; auto. now rewrite IHbr1. Qed.
Lemma run_blocks_rev bs s : run_blocks bs s = run_rev (rev bs) s.
Proof.
  unfold run_blocks. revert s. induction bs as [|B t IH]; intros s; simpl; auto.
  rewrite IH, run_rev_app. reflexivity.
Qed.

Lemma wf_run_rev br s : List.Forall block_ok br -> wf S s -> wf S (run_rev br s).
Proof.
  intros H W. induction H; simpl; auto. now apply wf_apply_block.
Qed.

Definition fview (s : sm) : comp -> Z -> S := fun c k => cget c (get s k).

Lemma run_rev_frun br s c k : List.Forall block_ok br -> wf S s ->
  fview (run_rev br s) c k = frun br (fview s) c k.
Proof.
  intros H W. revert c k. induction H as [|B t HB Ht IH]; intros c k; simpl; auto.
  unfold fview at 1. rewrite (block_step B (run_rev t s) c k HB (wf_run_rev t s Ht W)).
  unfold fblock. f_equal. unfold sumc. rewrite <- !IH. reflexivity.
Qed.

(* ---------- pathways ---------- *)
Fixpoint lsum {A} (f : A -> S) (l : list A) : S :=
  match l with [] => k0 | a :: t => (f a + lsum f t)%K end.
Lemma lsum_app {A} (f : A -> S) l1 l2 : lsum f (l1 ++ l2) = (lsum f l1 + lsum f l2)%K.
Proof. induction l1; simpl; [ring|rewrite IHl1; ring]. Qed.
Lemma lsum_map {A B} (g : A -> B) (f : B -> S) l : lsum f (map g l) = lsum (fun a => f (g a)) l.
Proof. induction l; simpl; auto. now rewrite IHl. Qed.
Lemma lsum_scale {A} (c : S) (f : A -> S) l : lsum (fun a => c * f a)%K l = (c * lsum f l)%K.
Proof. induction l; simpl; [ring|rewrite IHl; ring]. Qed.
Lemma lsum_ext_in {A} (f g : A -> S) l : (forall a, In a l -> f a = g a) -> lsum f l = lsum g l.
Proof. intros H. induction l; simpl; auto. rewrite H, IHl; auto; [intros; apply H|]; simpl; auto. Qed.
Lemma lsum_ext {A} (f g : A -> S) l : (forall a, f a = g a) -> lsum f l = lsum g l.
Proof. intros H. induction l; simpl; auto. now rewrite H, IHl. Qed.

(* all component histories of length n: 3^n of them *)
Fixpoint allpaths (n : nat) : list (list comp) :=
  match n with
  | O => [[]]
  | Datatypes.S n' => map (cons Cp) (allpaths n') ++ map (cons Cm) (allpaths n') ++ map (cons Cz) (allpaths n')
  end.
Lemma allpaths_length n : length (allpaths n) = (3 ^ n)%nat.
Proof. induction n; simpl; auto. rewrite !app_length, !map_length, IHn. lia. Qed.
Lemma allpaths_in n p : In p (allpaths n) <-> length p = n.
Proof.
  revert p. induction n; intros p; simpl.
  - split; [intros [<-|[]]; reflexivity|]. destruct p; [auto|discriminate].
  - rewrite !in_app_iff, !in_map_iff. split.
    + intros [[q [<- Hq]]|[[q [<- Hq]]|[q [<- Hq]]]]; simpl; f_equal; now apply IHn.
    + destruct p as [|c q]; [discriminate|]. intros H. injection H as H. apply IHn in H.
      destruct c; [left|right; left|right; right]; exists q; auto.
Qed.

(* a pathway arriving in component c at wavenumber k after the blocks br (listed last first) is given by the
   components p held BEFORE each of these blocks (last first).  Its weight: *)
Fixpoint pw (br : list block) (p : list comp) (f0 : comp -> Z -> S) (c : comp) (k : Z) : S :=
  match br, p with
  | [], [] => f0 c k
  | B :: br', c' :: p' => (att B c k * (ment (b_rf B) c c' * pw br' p' f0 c' (k - delta c (b_d B))%Z))%K
  | _, _ => k0
  end.

Lemma lsum_pw_cons B t f0 c k c' l :
  lsum (fun a => pw (B :: t) (c' :: a) f0 c k) l =
  (att B c k * (ment (b_rf B) c c' * lsum (fun a => pw t a f0 c' (k - delta c (b_d B))%Z) l))%K.
Proof. induction l as [|a l IHl]; [simpl; ring|cbn [lsum]; rewrite IHl; cbn [pw]; ring]. Qed.

Theorem pathsum_fun br f0 c k :
  frun br f0 c k = lsum (fun p => pw br p f0 c k) (allpaths (length br)).
Proof.
  revert c k. induction br as [|B t IH]; intros c k; cbn [frun length allpaths].
  - simpl. ring.
  - unfold fblock, sumc. rewrite !lsum_app, !lsum_map. cbv beta. rewrite !lsum_pw_cons, <- !IH. ring.
Qed.

(* the weight factorises: (product of RF matrix entries) * (product of the attenuations met) * initial coefficient *)
Fixpoint amp (br : list block) (p : list comp) (c : comp) : S :=
  match br, p with
  | B :: br', c' :: p' => (ment (b_rf B) c c' * amp br' p' c')%K
  | _, _ => k1
  end.
Fixpoint attp (br : list block) (p : list comp) (c : comp) (k : Z) : S :=
  match br, p with
  | B :: br', c' :: p' => (att B c k * attp br' p' c' (k - delta c (b_d B))%Z)%K
  | _, _ => k1
  end.
(* wavenumber and component in which the pathway starts *)
Fixpoint kstart (br : list block) (p : list comp) (c : comp) (k : Z) : Z :=
  match br, p with
  | B :: br', c' :: p' => kstart br' p' c' (k - delta c (b_d B))
  | _, _ => k
  end.
Fixpoint cstart (p : list comp) (c : comp) : comp :=
  match p with [] => c | c' :: p' => cstart p' c' end.

Lemma pw_factor br p f0 c k : length p = length br ->
  pw br p f0 c k = (amp br p c * attp br p c k * f0 (cstart p c) (kstart br p c k))%K.
Proof.
  revert p c k. induction br as [|B t IH]; intros [|c' p'] c k H; simpl in H; try discriminate; simpl.
  - ring.
  - rewrite IH by lia. ring.
Qed.

(* attenuation is multiplicative along a pathway: if each step's factor is att_of (b) for a "b-value" in an additive
   structure and att_of turns sums into products, the pathway factor is att_of (accumulated b) *)
Section Additive.
Variable Bv : Type.
Variable bzero : Bv.
Variable bplus : Bv -> Bv -> Bv.
Variable att_of : Bv -> S.
Hypothesis att_of_0 : att_of bzero = k1.
Hypothesis att_of_plus : forall x y, att_of (bplus x y) = (att_of x * att_of y)%K.
(* blocks paired with the b-value of each of their steps *)
Fixpoint bacc (brb : list (block * (comp -> Z -> Bv))) (p : list comp) (c : comp) (k : Z) : Bv :=
  match brb, p with
  | Bb :: t, c' :: p' => bplus (snd Bb c k) (bacc t p' c' (k - delta c (b_d (fst Bb))))
  | _, _ => bzero
  end.
Lemma attp_additive brb p c k :
  List.Forall (fun Bb : block * (comp -> Z -> Bv) => forall c k, att (fst Bb) c k = att_of (snd Bb c k)) brb ->
  attp (map fst brb) p c k = att_of (bacc brb p c k).
Proof.
  intros H. revert p c k. induction H as [|Bb t HB Ht IH]; intros p c k; simpl; auto.
  destruct p as [|c' p']; auto. rewrite att_of_plus, HB, IH. reflexivity.
Qed.
End Additive.

(* ---------- the pathway theorem on the array model ---------- *)
Theorem pathsum (bs : list block) (s0 : sm) (c : comp) (k : Z) :
  List.Forall block_ok bs -> wf S s0 ->
  cget c (get (run_blocks bs s0) k) =
  lsum (fun p => (amp (rev bs) p c * attp (rev bs) p c k *
                  cget (cstart p c) (get s0 (kstart (rev bs) p c k)))%K)
       (allpaths (length bs)).
Proof.
  intros H W. rewrite run_blocks_rev.
  assert (H' : List.Forall block_ok (rev bs)) by (apply Forall_rev; exact H).
  change (cget c (get (run_rev (rev bs) s0) k)) with (fview (run_rev (rev bs) s0) c k).
  rewrite (run_rev_frun (rev bs) s0 c k H' W), pathsum_fun, rev_length.
  apply lsum_ext_in. intros p Hp. apply allpaths_in in Hp.
  rewrite pw_factor by (now rewrite rev_length). reflexivity.
Qed.

(* the same, from the equilibrium state (0, 0, pd) at k = 0: only pathways that start in Z at k = 0 contribute *)
Corollary pathsum_init (bs : list block) (pd : S) (c : comp) (k : Z) :
  List.Forall block_ok bs -> kreal S pd ->
  cget c (get (run_blocks bs (init pd)) k) =
  lsum (fun p => if (match cstart p c with Cz => true | _ => false end && (kstart (rev bs) p c k =? 0)%Z)%bool
                 then (amp (rev bs) p c * attp (rev bs) p c k * pd)%K else k0)
       (allpaths (length bs)).
Proof.
  intros H Hpd. rewrite (pathsum bs (init pd) c k H (wf_init S L pd Hpd)).
  apply lsum_ext. intros p. rewrite (get_init S pd).
  destruct (kstart (rev bs) p c k =? 0)%Z; destruct (cstart p c); simpl; ring.
Qed.
End Pathways.

(* part D: the pathway theorem at K = C with the generated attenuation formulas (1-D, integer states with kvalue) *)
Section Physical.
Local Open Scope R_scope.
Notation blockC := (block Cops).

(* b : D of one interval for the component c arriving at state k (1-D): the ramp runs from kv*(k - delta c d) to kv*k;
   delta Cz = 0 gives the constant-wavenumber case *)
Definition phys_b (tau D kv : R) (d : Z) (c : comp) (k : Z) : R :=
  bmat tau (kv * IZR (k - delta c d)) (kv * IZR (k - delta c d)) (kv * IZR k) (kv * IZR k) * D.

Definition phys_aT (tau D kv : R) (d k : Z) : C :=
  RtoC (att_tensor1 (bmat tau (kv * IZR (k - d)) (kv * IZR (k - d)) (kv * IZR k) (kv * IZR k)) D).
Definition phys_aL (tau D kv : R) (k : Z) : C :=
  RtoC (att_tensor1 (bmat_const tau (kv * IZR k) (kv * IZR k)) D).
(* the block [T-matrix m; S(d); D(tau, D, k=d)] on a state matrix with kvalue = kv *)
Definition phys_block (m : mat3 Cops) (d : Z) (tau D kv : R) : blockC :=
  mkB m d (phys_aT tau D kv d) (phys_aL tau D kv).

Lemma Cconj_RtoC x : Cconj (RtoC x) = RtoC x.
Proof. apply injective_projections; simpl; ring. Qed.

Lemma phys_block_ok m d tau D kv : wf_mat Cops m -> block_ok Cops (phys_block m d tau D kv).
Proof.
  intros Hm. split; [exact Hm|]. intros k. simpl. unfold phys_aL.
  change (@kconj Cops) with Cconj. rewrite Cconj_RtoC. f_equal. f_equal.
  rewrite opp_IZR. replace (kv * - IZR k) with (- (kv * IZR k)) by ring.
  apply (proj2 (bmatrix_even tau (kv * IZR k) (kv * IZR k) 0 0)).
Qed.

(* every attenuation met on a pathway is exp(-b:D) with b:D the generated ramp formula ... *)
Lemma phys_att m d tau D kv c k :
  att Cops (phys_block m d tau D kv) c k = RtoC (exp (- phys_b tau D kv d c k)).
Proof.
  destruct c; unfold att, phys_block, phys_b, delta; cbn [b_aT b_aL].
  - reflexivity.
  - unfold phys_aT. change (@kconj Cops) with Cconj. rewrite Cconj_RtoC. unfold att_tensor1. do 4 f_equal.
    replace (- k - d)%Z with (- (k - - d))%Z by lia. rewrite !opp_IZR.
    replace (kv * - IZR (k - - d)) with (- (kv * IZR (k - - d))) by ring.
    replace (kv * - IZR k) with (- (kv * IZR k)) by ring.
    apply (proj1 (bmatrix_even tau _ _ _ _)).
  - unfold phys_aL, att_tensor1. do 4 f_equal. replace (k - 0)%Z with k by lia.
    symmetry. apply (proj1 (bmatrix_const tau _ _)).
Qed.

(* ... and that b:D is the time integral of D k(t)^2 over the interval, k(t) the linear ramp of the wavenumber of
   the pathway during the interval (constant for Z storage), in the units of the code *)
Lemma phys_b_is_integral tau D kv d c k : tau <> 0 ->
  is_RInt (fun t => D * (kramp tau (kv * IZR (k - delta c d)) (kv * IZR k) t * kramp tau (kv * IZR (k - delta c d)) (kv * IZR k) t))
          0 tau (phys_b tau D kv d c k / unit_factor).
Proof.
  intros Ht. unfold phys_b.
  replace (bmat tau (kv * IZR (k - delta c d)) (kv * IZR (k - delta c d)) (kv * IZR k) (kv * IZR k) * D / unit_factor)
    with (scal D (bmat tau (kv * IZR (k - delta c d)) (kv * IZR (k - delta c d)) (kv * IZR k) (kv * IZR k) / unit_factor)).
  - apply (is_RInt_scal (fun t => kramp tau (kv * IZR (k - delta c d)) (kv * IZR k) t * kramp tau (kv * IZR (k - delta c d)) (kv * IZR k) t)).
    exact (bmatrix_is_integral tau _ _ _ _ Ht).
  - unfold scal; simpl; unfold mult; simpl. unfold unit_factor, ms_to_s, radm_to_radmm. field.
Qed.

(* accumulated b:D of a pathway (Chasles sum of the interval integrals) and the multiplicativity of exp *)
Definition att_exp (b : R) : C := RtoC (exp (- b)).
Lemma att_exp_0 : att_exp 0 = @k1 Cops.
Proof. unfold att_exp. rewrite Ropp_0, exp_0. reflexivity. Qed.
Lemma att_exp_plus x y : att_exp (x + y) = @kmul Cops (att_exp x) (att_exp y).
Proof.
  unfold att_exp. replace (- (x + y)) with (- x + - y) by ring. rewrite exp_plus.
  apply injective_projections; simpl; ring.
Qed.

(* sequences of physical blocks: parameters (matrix, shift, tau, D) *)
Definition pblock (kv : R) (q : mat3 Cops * Z * R * R) : blockC * (comp -> Z -> R) :=
  let '(m, d, tau, D) := q in (phys_block m d tau D kv, phys_b tau D kv d).

Theorem phys_pathway_attenuation kv (qs : list (mat3 Cops * Z * R * R)) p c k :
  attp Cops (map fst (map (pblock kv) qs)) p c k =
  att_exp (bacc Cops R 0 Rplus (map (pblock kv) qs) p c k).
Proof.
  apply (attp_additive Cops R 0 Rplus att_exp att_exp_0 att_exp_plus).
  induction qs as [|[[[m d] tau] D] t IH]; constructor; auto.
  intros c0 k0. simpl. apply phys_att.
Qed.
End Physical.
