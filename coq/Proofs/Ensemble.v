(* C01: EPG states are the discrete Fourier coefficients of an ensemble of N
   independently simulated Bloch isochromats with dephasing factors w^m. *)
From Coq Require Import List ZArith Lia Bool Arith Ring.
From EPG Require Import Scalar State Ops ListLemmas Views WfProof Synth Dft SynthStep.
Import ListNotations.

Section Ensemble.
Variable S : ScalOps.
Hypothesis L : ScalLaws S.
Variables w wi : S.
Hypothesis wwi : (w * wi)%K = k1.
Variable N : nat.
Hypothesis principal : forall j, (j <> 0)%Z -> (- Z.of_nat N < j < Z.of_nat N)%Z ->
  sumn S N (fun m => zpow S w wi (j * Z.of_nat m)) = k0.
Notation wpow := (zpow S w wi).
Local Open Scope Z_scope.

(* isochromat number m: dephasing factor z = w^m; it is simulated independently,
   from the synthesis of the initial state, by the Bloch semantics of each operator *)
Definition iso (m : nat) (ops : list (op S)) (s0 : sm S) : triple S :=
  fst (bloch_run S (wpow (Z.of_nat m)) (wpow (- Z.of_nat m)) ops
        (M S (wpow (Z.of_nat m)) (wpow (- Z.of_nat m)) s0,
         Me S (wpow (Z.of_nat m)) (wpow (- Z.of_nat m)) s0)).

Lemma iso_is_M m ops s0 :
  wf S s0 -> Forall (wf_op S) ops -> no_trunc_run S ops s0 ->
  iso m ops s0 = M S (wpow (Z.of_nat m)) (wpow (- Z.of_nat m)) (run ops s0).
Proof.
  intros W Ho Hn. unfold iso.
  assert (Hinv : (wpow (Z.of_nat m) * wpow (- Z.of_nat m))%K = k1)
    by apply (zpow_opp_cancel S L w wi wwi).
  now rewrite <- (synth_run S L _ _ Hinv ops s0 W Ho Hn).
Qed.

Theorem states_are_dft_of_isochromats ops s0 k :
  wf S s0 -> Forall (wf_op S) ops -> no_trunc_run S ops s0 ->
  (2 * nstate (run ops s0) < N)%nat ->
  - Z.of_nat (nstate (run ops s0)) <= k <= Z.of_nat (nstate (run ops s0)) ->
  let s := run ops s0 in
  sumn S N (fun m => kmul (wpow (- (Z.of_nat m * k))) (fp (iso m ops s0))) = kmul (kofnat S N) (fp (get S s k)) /\
  sumn S N (fun m => kmul (wpow (- (Z.of_nat m * k))) (fm (iso m ops s0))) = kmul (kofnat S N) (fm (get S s k)) /\
  sumn S N (fun m => kmul (wpow (- (Z.of_nat m * k))) (fz (iso m ops s0))) = kmul (kofnat S N) (fz (get S s k)).
Proof.
  intros W Ho Hn HN Hk s.
  pose proof (wf_run S L ops s0 Ho W) as Ws. fold s in Ws.
  destruct (wf_shape S s Ws) as [n Hs].
  assert (En : nstate s = n) by apply (shaped_nstate S s n Hs).
  fold s in HN, Hk. rewrite En in HN, Hk.
  assert (Hsup : suppT S n (get S s)) by now apply get_supp.
  assert (HM : forall m, iso m ops s0 = synT S (wpow (Z.of_nat m)) (wpow (- Z.of_nat m)) n (get S s)).
  { intros m. rewrite (iso_is_M m ops s0 W Ho Hn). fold s. unfold M. now rewrite En. }
  split; [|split].
  - rewrite <- (dft_inversion S L w wi wwi N principal n (fun j => fp (get S s j)) k); auto.
    + apply (sumn_ext S). intros m _. now rewrite HM.
    + now apply suppT_comp.
  - rewrite <- (dft_inversion S L w wi wwi N principal n (fun j => fm (get S s j)) k); auto.
    + apply (sumn_ext S). intros m _. now rewrite HM.
    + now apply suppT_comp.
  - rewrite <- (dft_inversion S L w wi wwi N principal n (fun j => fz (get S s j)) k); auto.
    + apply (sumn_ext S). intros m _. now rewrite HM.
    + now apply suppT_comp.
Qed.

(* F0 / Z0 returned by simulate() are N^-1 times the sum over the ensemble *)
Corollary F0_Z0_are_ensemble_means ops s0 :
  wf S s0 -> Forall (wf_op S) ops -> no_trunc_run S ops s0 ->
  (2 * nstate (run ops s0) < N)%nat ->
  sumn S N (fun m => fp (iso m ops s0)) = kmul (kofnat S N) (F0 S (run ops s0)) /\
  sumn S N (fun m => fz (iso m ops s0)) = kmul (kofnat S N) (Z0 S (run ops s0)).
Proof.
  intros W Ho Hn HN.
  destruct (states_are_dft_of_isochromats ops s0 0 W Ho Hn HN) as (H1 & _ & H3); [lia|].
  unfold F0, Z0. rewrite <- H1, <- H3.
  assert (R : forall m, wpow (- (Z.of_nat m * 0)) = k1) by (intros m; now rewrite Z.mul_0_r).
  split; apply (sumn_ext S); intros m _; rewrite R; destruct L as [RT]; now rewrite (Radd_0_l RT) || (symmetry; apply (Rmul_1_l RT)).
Qed.

End Ensemble.
