(* C06 -- proofs about Model/Exchange.v.
   Part 1: ring-level algebra (any scalar instance): sums, matrix-vector associativity, the
           affine action  M |-> A (M - Meq) + Meq,  exchange_matrix, guards.
   Part 2: over Coquelicot's C: the Bloch-McConnell ODE, semigroup, zero exchange, conservation,
           under the ORACLE predicate [is_expm] (the matrix exponential itself is LAPACK code).
   Part 3: the two-pool closed form satisfies [is_expm] -- no hypotheses. *)
From Coq Require Import List ZArith Lia Bool Arith Reals Lra Ring.
From Coquelicot Require Import Coquelicot.
From EPG Require Import Scalar State CInst Evolution CDeriv CoefPhys Exchange.
Import ListNotations.

(* ================================================================ Part 1 *)
Local Open Scope nat_scope.
Section Generic.
Variable S : ScalOps.
Hypothesis L : ScalLaws S.
Add Ring Kr : (k_ring S L).

Lemma ksum_ext n (f g : nat -> S) : (forall i, (i < n)%nat -> f i = g i) -> ksum n f = ksum n g.
Proof.
  induction n as [|n IH]; intros H; simpl; [reflexivity|].
  rewrite (IH (fun i Hi => H i (Nat.lt_lt_succ_r _ _ Hi))), (H n (Nat.lt_succ_diag_r n)). reflexivity.
Qed.
Lemma ksum_0 n : ksum n (fun _ => @k0 S) = k0.
Proof. induction n as [|n IH]; simpl; [reflexivity|]. rewrite IH. ring. Qed.
Lemma ksum_add n (f g : nat -> S) : ksum n (fun i => f i + g i)%K = (ksum n f + ksum n g)%K.
Proof. induction n as [|n IH]; simpl; [ring|]. rewrite IH. ring. Qed.
Lemma ksum_scale_l n c (f : nat -> S) : ksum n (fun i => c * f i)%K = (c * ksum n f)%K.
Proof. induction n as [|n IH]; simpl; [ring|]. rewrite IH. ring. Qed.
Lemma ksum_scale_r n c (f : nat -> S) : ksum n (fun i => f i * c)%K = (ksum n f * c)%K.
Proof. induction n as [|n IH]; simpl; [ring|]. rewrite IH. ring. Qed.
Lemma ksum_opp n (f : nat -> S) : ksum n (fun i => - f i)%K = (- ksum n f)%K.
Proof. induction n as [|n IH]; simpl; [ring|]. rewrite IH. ring. Qed.
Lemma ksum_swap n m (f : nat -> nat -> S) :
  ksum n (fun i => ksum m (fun j => f i j)) = ksum m (fun j => ksum n (fun i => f i j)).
Proof.
  induction n as [|n IH]; simpl.
  - symmetry. apply ksum_0.
  - rewrite IH. rewrite <- ksum_add. reflexivity.
Qed.
Lemma ksum_single n (f : nat -> S) j : (j < n)%nat -> (forall i, (i < n)%nat -> i <> j -> f i = k0) ->
  ksum n f = f j.
Proof.
  induction n as [|n IH]; intros Hj Hz; [lia|]. simpl.
  destruct (Nat.eq_dec j n) as [->|Hne].
  - rewrite (ksum_ext n f (fun _ => k0)), ksum_0; [ring|]. intros i Hi. apply Hz; lia.
  - rewrite IH; [|lia|intros i Hi Hd; apply Hz; lia]. rewrite (Hz n); [ring|lia|lia].
Qed.
Lemma ksum_conj n (f : nat -> S) : kconj (ksum n f) = ksum n (fun i => kconj (f i)).
Proof.
  induction n as [|n IH]; simpl; [apply (conj_0 S L)|]. rewrite (conj_add S L), IH. reflexivity.
Qed.
Lemma ksum_const n (c : S) : ksum n (fun _ => c) = (knat n * c)%K.
Proof. induction n as [|n IH]; simpl; [ring|]. rewrite IH. ring. Qed.

Lemma delta_refl i : @delta S i i = k1.
Proof. unfold delta. now rewrite Nat.eqb_refl. Qed.
Lemma delta_neq i j : i <> j -> @delta S i j = k0.
Proof. unfold delta. intros H. apply Nat.eqb_neq in H. now rewrite H. Qed.
Lemma delta_sym i j : @delta S i j = delta j i.
Proof. unfold delta. now rewrite Nat.eqb_sym. Qed.

Lemma ksum_delta_col n j : (j < n)%nat -> ksum n (fun i => @delta S i j) = k1.
Proof.
  intros Hj. rewrite (ksum_single n _ j Hj); [apply delta_refl|]. intros i _ Hd. now apply delta_neq.
Qed.

(* matrix . (matrix . vector) *)
Lemma mvN_assoc n (A B : matN S) (v : nat -> S) i :
  mvN n A (mvN n B v) i = mvN n (mmulN n A B) v i.
Proof.
  unfold mvN, mmulN.
  transitivity (ksum n (fun j => ksum n (fun l => A i j * (B j l * v l))%K)).
  - apply ksum_ext; intros j _. symmetry. apply ksum_scale_l.
  - rewrite ksum_swap. apply ksum_ext; intros l _.
    rewrite <- ksum_scale_r. apply ksum_ext; intros j _. ring.
Qed.

(* the affine action of X._apply on one component of one phase state *)
Definition aff (n : nat) (A : matN S) (x e : nat -> S) : nat -> S :=
  fun i => (ksum n (fun j => A i j * (x j - e j)) + e i)%K.

Lemma x_apply_fibre_fp n MT MC ML st eq i k :
  fp (x_apply_fibre n MT MC ML st eq i k) = aff n MT (fun j => fp (st j k)) (fun j => fp (eq j k)) i.
Proof. reflexivity. Qed.
Lemma x_apply_fibre_fm n MT MC ML st eq i k :
  fm (x_apply_fibre n MT MC ML st eq i k) = aff n MC (fun j => fm (st j k)) (fun j => fm (eq j k)) i.
Proof. reflexivity. Qed.
Lemma x_apply_fibre_fz n MT MC ML st eq i k :
  fz (x_apply_fibre n MT MC ML st eq i k) = aff n ML (fun j => fz (st j k)) (fun j => fz (eq j k)) i.
Proof. reflexivity. Qed.

Lemma triple_ext (a b : triple S) : fp a = fp b -> fm a = fm b -> fz a = fz b -> a = b.
Proof. destruct a, b; simpl; intros; subst; reflexivity. Qed.

Lemma aff_ext n (A B : matN S) x e i :
  (forall j, (j < n)%nat -> A i j = B i j) -> aff n A x e i = aff n B x e i.
Proof. intros H. unfold aff. f_equal. apply ksum_ext. intros j Hj. now rewrite H. Qed.

Lemma aff_ext_x n (A : matN S) x y e i :
  (forall j, (j < n)%nat -> x j = y j) -> aff n A x e i = aff n A y e i.
Proof. intros H. unfold aff. f_equal. apply ksum_ext. intros j Hj. now rewrite H. Qed.

Lemma aff_fixed n (A : matN S) e i : aff n A e e i = e i.
Proof.
  unfold aff. rewrite (ksum_ext n _ (fun _ => k0)), ksum_0; [ring|]. intros j _. ring.
Qed.

Lemma aff_compose n (A B : matN S) x e i :
  aff n A (aff n B x e) e i = aff n (mmulN n A B) x e i.
Proof.
  unfold aff. f_equal.
  transitivity (mvN n A (mvN n B (fun l => x l - e l)%K) i).
  - unfold mvN. apply ksum_ext; intros j _. f_equal. ring.
  - apply mvN_assoc.
Qed.

Lemma aff_rhs n (A E : matN S) x e i :
  ksum n (fun l => A i l * (aff n E x e l - e l))%K = ksum n (fun j => mmulN n A E i j * (x j - e j))%K.
Proof.
  transitivity (mvN n A (mvN n E (fun l => x l - e l)%K) i).
  - unfold mvN, aff. apply ksum_ext; intros j _. f_equal. ring.
  - apply mvN_assoc.
Qed.

Lemma aff_diag n (c : nat -> S) x e i : (i < n)%nat ->
  aff n (fun i j => c i * delta i j)%K x e i = (c i * (x i - e i) + e i)%K.
Proof.
  intros Hi. unfold aff. f_equal.
  rewrite (ksum_single n _ i Hi).
  - rewrite delta_refl. ring.
  - intros j _ Hd. rewrite delta_neq by congruence. ring.
Qed.

Lemma aff_id n x e i : (i < n)%nat -> aff n (@midN S) x e i = x i.
Proof.
  intros Hi. unfold aff, midN. rewrite (ksum_single n _ i Hi).
  - rewrite delta_refl. ring.
  - intros j _ Hd. rewrite delta_neq by congruence. ring.
Qed.

(* zero column sums => the total of A v vanishes *)
Lemma colsum_zero_total n (A : matN S) (v : nat -> S) :
  (forall l, (l < n)%nat -> colsum n A l = k0) -> ksum n (fun i => ksum n (fun l => A i l * v l)%K) = k0.
Proof.
  intros H. rewrite ksum_swap.
  rewrite (ksum_ext n _ (fun _ => k0)); [apply ksum_0|].
  intros l Hl. rewrite ksum_scale_r. unfold colsum in H. rewrite (H l Hl). ring.
Qed.

(* ---- fixed point and composition of X._apply on a fibre: no hypothesis on the matrices ---- *)
Theorem x_fixed_point n (MT MC ML : matN S) (eq : fibre S) i k :
  x_apply_fibre n MT MC ML eq eq i k = eq i k.
Proof.
  apply triple_ext; [rewrite x_apply_fibre_fp|rewrite x_apply_fibre_fm|rewrite x_apply_fibre_fz]; apply aff_fixed.
Qed.

Theorem x_compose n (AT AC AL BT BC BL : matN S) (st eq : fibre S) i k :
  x_apply_fibre n AT AC AL (x_apply_fibre n BT BC BL st eq) eq i k =
  x_apply_fibre n (mmulN n AT BT) (mmulN n AC BC) (mmulN n AL BL) st eq i k.
Proof.
  apply triple_ext.
  - rewrite !x_apply_fibre_fp. rewrite <- aff_compose. reflexivity.
  - rewrite !x_apply_fibre_fm. rewrite <- aff_compose. reflexivity.
  - rewrite !x_apply_fibre_fz. rewrite <- aff_compose. reflexivity.
Qed.

(* ---- exchange_matrix ---- *)
Variable inv : S -> S.

Lemma knat_pred n : (0 < n)%nat -> @knat S n = (knat (n - 1) + k1)%K.
Proof. destruct n; [lia|]. intros _. simpl. now rewrite Nat.sub_0_r. Qed.

(* columns of the generated kinetic matrix sum to zero (also with densities) *)
Theorem exchange_matrix_colsum k n dens j : (j < n)%nat ->
  (knat (n - 1) * inv (knat (n - 1)))%K = @k1 S ->
  colsum n (exchange_matrix S inv k n dens) j = k0.
Proof.
  intros Hj Hinv. unfold colsum, exchange_matrix, kron.
  set (c := inv (knat (n - 1))) in *.
  assert (E : ksum n (fun i => (delta i j + (delta i j - k1) * c)%K) = @k0 S).
  { rewrite (ksum_ext n _ (fun i => (k1 + c) * delta i j + (- c))%K) by (intros; ring).
    rewrite ksum_add, ksum_scale_l, ksum_delta_col, ksum_const by exact Hj.
    rewrite (knat_pred n) by lia.
    transitivity (k1 - knat (n - 1) * c)%K; [ring|]. rewrite Hinv. ring. }
  destruct dens as [d|].
  - rewrite (ksum_ext n _ (fun i => (k * inv (d j)) * (delta i j + (delta i j - k1) * c))%K) by (intros; ring).
    rewrite ksum_scale_l, E. ring.
  - rewrite ksum_scale_l, E. ring.
Qed.

(* without densities the matrix is symmetric; with densities it conserves them:  K . dens = 0 *)
Theorem exchange_matrix_sym k n i j :
  exchange_matrix S inv k n None i j = exchange_matrix S inv k n None j i.
Proof. unfold exchange_matrix, kron. now rewrite (delta_sym i j). Qed.

Theorem exchange_matrix_balance k n (d : nat -> S) i : (i < n)%nat ->
  (knat (n - 1) * inv (knat (n - 1)))%K = @k1 S -> (forall j, (j < n)%nat -> (d j * inv (d j))%K = k1) ->
  ksum n (fun j => exchange_matrix S inv k n (Some d) i j * d j)%K = k0.
Proof.
  intros Hi Hinv Hd.
  rewrite (ksum_ext n _ (fun j => exchange_matrix S inv k n None j i)).
  - exact (exchange_matrix_colsum k n None i Hi Hinv).
  - intros j Hj. rewrite <- exchange_matrix_sym. unfold exchange_matrix, kron.
    transitivity (k * (delta i j + (delta i j - k1) * inv (knat (n - 1))) * (d j * inv (d j)))%K; [ring|].
    rewrite (Hd j Hj). ring.
Qed.

(* ---- generators: pure exchange, zero exchange ---- *)
Variable twopii : S.

Lemma xiT_pure khi i j : xiT S inv twopii khi (fun _ => None) (fun _ => k0) i j = moppN khi i j.
Proof. unfold xiT, rateT, rate_inv, moppN. ring. Qed.
Lemma xiL_pure khi i j : xiL S inv khi (fun _ => None) i j = moppN khi i j.
Proof. unfold xiL, rateL, rate_inv, moppN. ring. Qed.
Lemma xiT_zero khi T2 g i j : (forall a b, khi a b = k0) ->
  xiT S inv twopii khi T2 g i j = (rateT S inv twopii (T2 i) (g i) * delta i j)%K.
Proof. intros H. unfold xiT. rewrite H. ring. Qed.
Lemma xiL_zero khi T1 i j : (forall a b, khi a b = k0) ->
  xiL S inv khi T1 i j = (rateL S inv (T1 i) * delta i j)%K.
Proof. intros H. unfold xiL. rewrite H. ring. Qed.

Lemma colsum_mopp n (A : matN S) l : colsum n A l = k0 -> colsum n (moppN A) l = k0.
Proof. unfold colsum, moppN. intros H. rewrite ksum_opp, H. ring. Qed.

(* ---- guards ---- *)
Lemma conservesb_spec n (khi : matN S) (dens : nat -> S) :
  conservesb n khi dens = true <-> forall i, (i < n)%nat -> ksum n (fun j => khi i j * dens j)%K = k0.
Proof.
  unfold conservesb. rewrite forallb_forall. split.
  - intros H i Hi. apply (keqb_eq S L). apply H. apply in_seq. lia.
  - intros H i Hi. apply in_seq in Hi. apply (keqb_eq S L). apply H. lia.
Qed.

(* X._apply accepted the state  =>  khi . density = 0 on every fibre; i.e. a kinetic matrix that does not
   conserve the state's equilibrium densities yields the error token *)
Theorem x_apply_rejects (o : xop S) (s : smN S) sh d : x_apply S o s = XOk S sh d ->
  forall b, In b (all_idx (cons_shape S o s)) ->
  forall i, (i < nth (x_ax S o) (x_shape S o) 0)%nat ->
  ksum (nth (x_ax S o) (x_shape S o) 0) (fun j =>
     get S (fst (x_khi S o)) (snd (x_khi S o))
         (firstn (length (removelast (fst (x_khi S o)))) (set_at (x_ax S o) i b) ++ [j]) *
     get S (s_shape S s) (s_dens S s) (set_at (x_ax S o) j b))%K = k0.
Proof.
  unfold x_apply. intros H b Hb i Hi.
  match type of H with (if negb ?c then _ else _) = _ => destruct c eqn:Hc end; [|discriminate].
  rewrite forallb_forall in Hc. specialize (Hc b Hb).
  rewrite conservesb_spec in Hc. exact (Hc i Hi).
Qed.

Theorem x_apply_conserve_error (o : xop S) (s : smN S) :
  forallb (fun b => conservesb (nth (x_ax S o) (x_shape S o) 0)
     (fun i j => get S (fst (x_khi S o)) (snd (x_khi S o))
         (firstn (length (removelast (fst (x_khi S o)))) (set_at (x_ax S o) i b) ++ [j]))
     (fun j => get S (s_shape S s) (s_dens S s) (set_at (x_ax S o) j b)))
     (all_idx (cons_shape S o s)) = false ->
  x_apply S o s = XErrConserve S.
Proof. unfold x_apply. intros ->. reflexivity. Qed.

(* every entry of the result array is the fibre operator applied to the fibres cut out of the arrays *)
Theorem x_apply_entry (o : xop S) (s : smN S) sh d m : x_apply S o s = XOk S sh d ->
  m < prodl (sh ++ [s_ns S s; 3]) -> nth m d k0 = x_entry S o s sh m.
Proof.
  unfold x_apply. intros H Hm.
  match type of H with (if negb ?c then _ else _) = _ => destruct c end; [|discriminate]. simpl in H.
  match type of H with (if negb ?c then _ else _) = _ => destruct c end; [|discriminate]. simpl in H.
  destruct (bshape (x_shape S o) (set_at (x_ax S o) (nth (x_ax S o) (x_shape S o) 0) (s_shape S s))) as [osh|]; [|discriminate].
  injection H as <- <-.
  rewrite (nth_indep _ k0 (x_entry S o s osh 0)) by (rewrite map_length, seq_length; exact Hm).
  rewrite (map_nth (x_entry S o s osh) (seq 0 _) 0 m), seq_nth by exact Hm. reflexivity.
Qed.

(* the constructor accepted khi  =>  it is square along the axis and every column sums to zero *)
Theorem x_guard_accepts khishape khi axis ax : x_guard S khishape khi axis = GOk ax ->
  (2 <= length khishape)%nat /\ nth ax (removelast khishape) 0 = last khishape 0 /\
  forall idx, In idx (all_idx (set_at ax 1 (removelast khishape))) ->
  forall j, (j < last khishape 0)%nat ->
    ksum (last khishape 0) (fun i => get S khishape khi (set_at ax i idx ++ [j])) = k0.
Proof.
  unfold x_guard.
  destruct (length khishape <? 2) eqn:E1; [discriminate|].
  apply Nat.ltb_ge in E1.
  set (a := norm_axis (length (removelast khishape)) axis).
  destruct (Nat.eqb (nth a (removelast khishape) 0) (last khishape 0)) eqn:E2; simpl; [|discriminate].
  apply Nat.eqb_eq in E2.
  match goal with |- (if ?c then _ else _) = _ -> _ => destruct c eqn:E3 end; [|discriminate].
  intros H. injection H as <-. split; [exact E1|split; [exact E2|]].
  intros idx Hidx j Hj. rewrite forallb_forall in E3. specialize (E3 idx Hidx).
  rewrite forallb_forall in E3. apply (keqb_eq S L). apply E3. apply in_seq. lia.
Qed.

Theorem x_guard_rejects_nonsquare khishape khi axis : (2 <= length khishape)%nat ->
  nth (norm_axis (length (removelast khishape)) axis) (removelast khishape) 0 <> last khishape 0 ->
  x_guard S khishape khi axis = GErrSquare.
Proof.
  intros H1 H2. unfold x_guard.
  destruct (length khishape <? 2) eqn:E1; [apply Nat.ltb_lt in E1; lia|].
  apply Nat.eqb_neq in H2. now rewrite H2.
Qed.

End Generic.

(* ================================================================ Part 2: complex numbers *)
Local Open Scope R_scope.

Definition twopii_C : C := (0, 2 * PI).
Notation xiT_C := (xiT Cops Cinv twopii_C).
Notation xiL_C := (xiL Cops Cinv).

(* complex exponential *)
Definition Cexp (z : C) : C := (exp (fst z) * cos (snd z), exp (fst z) * sin (snd z)).

Lemma derC_plus_const f x l c : derC f x l -> derC (fun t => Cplus (f t) c) x l.
Proof.
  intros H. apply (derC_eq _ _ (Cplus l (RtoC 0))); [apply injective_projections; simpl; ring|].
  exact (derC_plus f (fun _ => c) x l (RtoC 0) H (derC_const c x)).
Qed.

Lemma derC_scal_r f x l c : derC f x l -> derC (fun t => Cmult (f t) c) x (Cmult l c).
Proof.
  intros H. apply (derC_eq _ _ (Cplus (Cmult l c) (Cmult (f x) (RtoC 0)))); [apply injective_projections; simpl; ring|].
  exact (derC_mult f (fun _ => c) x l (RtoC 0) H (derC_const c x)).
Qed.

Lemma derC_conj f x l : derC f x l -> derC (fun t => Cconj (f t)) x (Cconj l).
Proof.
  intros [H1 H2]. split; simpl.
  - exact H1.
  - apply (is_derive_opp (fun t => snd (f t)) x (snd l)). exact H2.
Qed.

Lemma derC_ksum n (f : nat -> R -> C) x (l : nat -> C) :
  (forall j, (j < n)%nat -> derC (f j) x (l j)) ->
  derC (fun t => @ksum Cops n (fun j => f j t)) x (@ksum Cops n l).
Proof.
  induction n as [|n IH]; intros H.
  - simpl. exact (derC_const (RtoC 0) x).
  - simpl.
    exact (derC_plus (fun t => @ksum Cops n (fun j => f j t)) (f n) x (@ksum Cops n l) (l n)
             (IH (fun j Hj => H j (Nat.lt_lt_succ_r _ _ Hj))) (H n (Nat.lt_succ_diag_r n))).
Qed.

(* ---- the ORACLE predicate: E is "t |-> exp(t A)" on the n x n block ---- *)
Definition is_expm (n : nat) (A : matN Cops) (E : R -> matN Cops) : Prop :=
  (forall i j, (i < n)%nat -> (j < n)%nat -> E 0 i j = @midN Cops i j) /\
  (forall s t i j, (i < n)%nat -> (j < n)%nat -> E (s + t) i j = mmulN n (E s) (E t) i j) /\
  (forall t i j, (i < n)%nat -> (j < n)%nat -> derC (fun u => E u i j) t (mmulN n A (E t) i j)).

Lemma is_expm_ext n A B E : (forall i j, (i < n)%nat -> (j < n)%nat -> A i j = B i j) ->
  is_expm n A E -> is_expm n B E.
Proof.
  intros HAB (H0 & Hs & Hd). split; [exact H0|split; [exact Hs|]].
  intros t i j Hi Hj. apply (derC_eq _ _ (mmulN n A (E t) i j)); [|exact (Hd t i j Hi Hj)].
  unfold mmulN. apply (ksum_ext Cops). intros l Hl. now rewrite (HAB i l Hi Hl).
Qed.

Lemma conj_delta i j : Cconj (@delta Cops i j) = @delta Cops i j.
Proof. unfold delta. destruct (Nat.eqb i j); apply injective_projections; simpl; ring. Qed.

Lemma conj_mmulN n (A B : matN Cops) i j :
  Cconj (mmulN n A B i j) = mmulN n (conjN A) (conjN B) i j.
Proof.
  unfold mmulN, conjN. rewrite (ksum_conj Cops Claws). apply (ksum_ext Cops). intros l _.
  exact (conj_mul Cops Claws (A i l) (B l j)).
Qed.

Lemma is_expm_conj n A E : is_expm n A E -> is_expm n (conjN A) (fun t => conjN (E t)).
Proof.
  intros (H0 & Hs & Hd). split; [|split].
  - intros i j Hi Hj. unfold conjN. rewrite (H0 i j Hi Hj). apply conj_delta.
  - intros s t i j Hi Hj. unfold conjN at 1. rewrite (Hs s t i j Hi Hj). apply conj_mmulN.
  - intros t i j Hi Hj. unfold conjN at 1.
    apply (derC_eq _ _ (Cconj (mmulN n A (E t) i j))); [apply conj_mmulN|].
    exact (derC_conj (fun u => E u i j) t _ (Hd t i j Hi Hj)).
Qed.

(* ---- one block: M(t) = Meq + E(t) (M0 - Meq) solves  dM/dt = A (M - Meq) ---- *)
Lemma block_ode n A E (m0 e : nat -> C) i tau : is_expm n A E -> (i < n)%nat ->
  derC (fun t => aff Cops n (E t) m0 e i) tau
       (@ksum Cops n (fun l => Cmult (A i l) (Cminus (aff Cops n (E tau) m0 e l) (e l)))).
Proof.
  intros (_ & _ & Hd) Hi.
  apply (derC_eq _ _ (@ksum Cops n (fun j => Cmult (mmulN n A (E tau) i j) (Cminus (m0 j) (e j))))).
  { symmetry. exact (aff_rhs Cops Claws n A (E tau) m0 e i). }
  unfold aff.
  apply (derC_plus_const (fun t => @ksum Cops n (fun j => Cmult (E t i j) (Cminus (m0 j) (e j)))) tau _ (e i)).
  apply (derC_ksum n (fun j t => Cmult (E t i j) (Cminus (m0 j) (e j))) tau
           (fun j => Cmult (mmulN n A (E tau) i j) (Cminus (m0 j) (e j)))).
  intros j Hj.
  exact (derC_scal_r (fun t => E t i j) tau _ (Cminus (m0 j) (e j)) (Hd tau i j Hi Hj)).
Qed.

Lemma block_init n A E (m0 e : nat -> C) i : is_expm n A E -> (i < n)%nat -> aff Cops n (E 0) m0 e i = m0 i.
Proof.
  intros (H0 & _ & _) Hi. rewrite (aff_ext Cops n (E 0) (@midN Cops) m0 e i).
  - exact (aff_id Cops Claws n m0 e i Hi).
  - intros j Hj. exact (H0 i j Hi Hj).
Qed.

Lemma block_semigroup n A E (m0 e : nat -> C) i t1 t2 : is_expm n A E -> (i < n)%nat ->
  aff Cops n (E t2) (aff Cops n (E t1) m0 e) e i = aff Cops n (E (t1 + t2)) m0 e i.
Proof.
  intros (_ & Hs & _) Hi. rewrite (aff_compose Cops Claws). symmetry.
  apply (aff_ext Cops). intros j Hj. rewrite Rplus_comm. exact (Hs t2 t1 i j Hi Hj).
Qed.

(* zero column sums: the total over the compartments has zero derivative *)
Lemma block_conserves n A E (m0 e : nat -> C) tau : is_expm n A E ->
  (forall l, (l < n)%nat -> colsum n A l = RtoC 0) ->
  derC (fun t => @ksum Cops n (fun i => aff Cops n (E t) m0 e i)) tau (RtoC 0).
Proof.
  intros HE Hc.
  apply (derC_eq _ _ (@ksum Cops n (fun i => @ksum Cops n (fun l =>
           Cmult (A i l) (Cminus (aff Cops n (E tau) m0 e l) (e l)))))).
  { exact (colsum_zero_total Cops Claws n A (fun l => Cminus (aff Cops n (E tau) m0 e l) (e l)) Hc). }
  apply (derC_ksum n (fun i t => aff Cops n (E t) m0 e i) tau).
  intros i Hi. exact (block_ode n A E m0 e i tau HE Hi).
Qed.

(* a C-valued function of a real variable with zero derivative everywhere is constant *)
Lemma zero_derive_const (f : R -> R) : (forall x, is_derive f x 0) -> forall a b, f a = f b.
Proof.
  intros H.
  assert (pr : derivable f).
  { intros x. exists 0. apply is_derive_Reals. exact (H x). }
  assert (Hz : forall x, derive_pt f x (pr x) = 0).
  { intros x. apply derive_pt_eq_0. apply is_derive_Reals. exact (H x). }
  exact (null_derivative_1 f pr Hz).
Qed.

Lemma zero_derC_const (f : R -> C) : (forall x, derC f x (RtoC 0)) -> forall a b, f a = f b.
Proof.
  intros H a b. apply injective_projections.
  - apply (zero_derive_const (fun t => fst (f t))). intros x. exact (proj1 (H x)).
  - apply (zero_derive_const (fun t => snd (f t))). intros x. exact (proj2 (H x)).
Qed.

(* ---- the operator on a fibre, as a function of the mixing time ---- *)
Definition X_fibre (n : nat) (ET EL : R -> matN Cops) (st eq : fibre Cops) (t : R) : fibre Cops :=
  x_apply_fibre n (ET t) (conjN (ET t)) (EL t) st eq.

Section Blocks.
Variable n : nat.
Variables khi : matN Cops.
Variables T1 T2 : nat -> option C.
Variable g : nat -> C.
Variables ET EL : R -> matN Cops.
Hypothesis HT : is_expm n (xiT_C khi T2 g) ET.
Hypothesis HL : is_expm n (xiL_C khi T1) EL.
Variables st eq : fibre Cops.

Theorem X_solves_ode_blocks i k tau : (i < n)%nat ->
  let M := X_fibre n ET EL st eq in
  derC (fun t => fp (M t i k)) tau
       (@ksum Cops n (fun l => Cmult (xiT_C khi T2 g i l) (Cminus (fp (M tau l k)) (fp (eq l k))))) /\
  derC (fun t => fm (M t i k)) tau
       (@ksum Cops n (fun l => Cmult (Cconj (xiT_C khi T2 g i l)) (Cminus (fm (M tau l k)) (fm (eq l k))))) /\
  derC (fun t => fz (M t i k)) tau
       (@ksum Cops n (fun l => Cmult (xiL_C khi T1 i l) (Cminus (fz (M tau l k)) (fz (eq l k))))).
Proof.
  intros Hi M. split; [|split].
  - exact (block_ode n _ ET (fun j => fp (st j k)) (fun j => fp (eq j k)) i tau HT Hi).
  - exact (block_ode n _ (fun t => conjN (ET t)) (fun j => fm (st j k)) (fun j => fm (eq j k)) i tau
             (is_expm_conj n _ ET HT) Hi).
  - exact (block_ode n _ EL (fun j => fz (st j k)) (fun j => fz (eq j k)) i tau HL Hi).
Qed.

Theorem X_initial_blocks i k : (i < n)%nat -> X_fibre n ET EL st eq 0 i k = st i k.
Proof.
  intros Hi. unfold X_fibre. apply (triple_ext Cops).
  - rewrite x_apply_fibre_fp. exact (block_init n _ ET _ _ i HT Hi).
  - rewrite x_apply_fibre_fm. exact (block_init n _ (fun t => conjN (ET t)) _ _ i (is_expm_conj n _ ET HT) Hi).
  - rewrite x_apply_fibre_fz. exact (block_init n _ EL _ _ i HL Hi).
Qed.

Theorem X_semigroup_blocks i k t1 t2 : (i < n)%nat ->
  X_fibre n ET EL (X_fibre n ET EL st eq t1) eq t2 i k = X_fibre n ET EL st eq (t1 + t2) i k.
Proof.
  intros Hi. unfold X_fibre. apply (triple_ext Cops).
  - rewrite !x_apply_fibre_fp.
    exact (block_semigroup n _ ET (fun j => fp (st j k)) (fun j => fp (eq j k)) i t1 t2 HT Hi).
  - rewrite !x_apply_fibre_fm.
    exact (block_semigroup n _ (fun t => conjN (ET t)) (fun j => fm (st j k)) (fun j => fm (eq j k)) i t1 t2
             (is_expm_conj n _ ET HT) Hi).
  - rewrite !x_apply_fibre_fz.
    exact (block_semigroup n _ EL (fun j => fz (st j k)) (fun j => fz (eq j k)) i t1 t2 HL Hi).
Qed.

(* no relaxation, no precession, columns of khi sum to zero: the total magnetisation over the
   compartments has zero derivative in tau, hence is constant, for each component and phase state *)
Theorem X_conserves_total_blocks k :
  (forall l, (l < n)%nat -> colsum n khi l = RtoC 0) ->
  (forall i, T1 i = None) -> (forall i, T2 i = None) -> (forall i, g i = RtoC 0) ->
  let M := X_fibre n ET EL st eq in
  (forall tau, derC (fun t => @ksum Cops n (fun i => fp (M t i k))) tau (RtoC 0) /\
               derC (fun t => @ksum Cops n (fun i => fm (M t i k))) tau (RtoC 0) /\
               derC (fun t => @ksum Cops n (fun i => fz (M t i k))) tau (RtoC 0)) /\
  (forall tau, @ksum Cops n (fun i => fp (M tau i k)) = @ksum Cops n (fun i => fp (st i k)) /\
               @ksum Cops n (fun i => fm (M tau i k)) = @ksum Cops n (fun i => fm (st i k)) /\
               @ksum Cops n (fun i => fz (M tau i k)) = @ksum Cops n (fun i => fz (st i k))).
Proof.
  intros Hc H1 H2 Hg M.
  assert (CT : forall l, (l < n)%nat -> colsum n (xiT_C khi T2 g) l = RtoC 0).
  { intros l Hl. unfold colsum.
    rewrite (ksum_ext Cops n _ (fun i => moppN khi i l)).
    - exact (colsum_mopp Cops Claws n khi l (Hc l Hl)).
    - intros i _. unfold xiT, rateT, rate_inv, moppN. rewrite H2, Hg. cnorm.
      apply injective_projections; simpl; ring. }
  assert (CC : forall l, (l < n)%nat -> colsum n (conjN (xiT_C khi T2 g)) l = RtoC 0).
  { intros l Hl. unfold colsum, conjN. rewrite <- (ksum_conj Cops Claws).
    specialize (CT l Hl). unfold colsum in CT. rewrite CT. apply injective_projections; simpl; ring. }
  assert (CL : forall l, (l < n)%nat -> colsum n (xiL_C khi T1) l = RtoC 0).
  { intros l Hl. unfold colsum.
    rewrite (ksum_ext Cops n _ (fun i => moppN khi i l)).
    - exact (colsum_mopp Cops Claws n khi l (Hc l Hl)).
    - intros i _. unfold xiL, rateL, rate_inv, moppN. rewrite H1. cnorm.
      apply injective_projections; simpl; ring. }
  assert (D : forall tau, derC (fun t => @ksum Cops n (fun i => fp (M t i k))) tau (RtoC 0) /\
               derC (fun t => @ksum Cops n (fun i => fm (M t i k))) tau (RtoC 0) /\
               derC (fun t => @ksum Cops n (fun i => fz (M t i k))) tau (RtoC 0)).
  { intros tau. split; [|split].
    - exact (block_conserves n _ ET (fun j => fp (st j k)) (fun j => fp (eq j k)) tau HT CT).
    - exact (block_conserves n _ (fun t => conjN (ET t)) (fun j => fm (st j k)) (fun j => fm (eq j k)) tau
               (is_expm_conj n _ ET HT) CC).
    - exact (block_conserves n _ EL (fun j => fz (st j k)) (fun j => fz (eq j k)) tau HL CL). }
  split; [exact D|].
  intros tau.
  assert (I : forall i, (i < n)%nat -> M 0 i k = st i k) by (intros i Hi; exact (X_initial_blocks i k Hi)).
  split; [|split].
  - rewrite (zero_derC_const (fun t => @ksum Cops n (fun i => fp (M t i k))) (fun x => proj1 (D x)) tau 0).
    apply (ksum_ext Cops). intros i Hi. now rewrite (I i Hi).
  - rewrite (zero_derC_const (fun t => @ksum Cops n (fun i => fm (M t i k))) (fun x => proj1 (proj2 (D x))) tau 0).
    apply (ksum_ext Cops). intros i Hi. now rewrite (I i Hi).
  - rewrite (zero_derC_const (fun t => @ksum Cops n (fun i => fz (M t i k))) (fun x => proj2 (proj2 (D x))) tau 0).
    apply (ksum_ext Cops). intros i Hi. now rewrite (I i Hi).
Qed.

End Blocks.

Lemma rateT_real t2 gg : t2 <> 0 ->
  rateT Cops Cinv twopii_C (Some (RtoC t2)) (RtoC gg) = (- / t2, 2 * PI * gg).
Proof.
  intros H. unfold rateT, rate_inv, twopii_C. cnorm.
  apply injective_projections; simpl; field; exact H.
Qed.
Lemma rateL_real t1 : t1 <> 0 -> rateL Cops Cinv (Some (RtoC t1)) = (- / t1, 0).
Proof.
  intros H. unfold rateL, rate_inv. cnorm.
  apply injective_projections; simpl; field; exact H.
Qed.
Lemma Cexp_scal tau a b :
  Cexp (Cmult (RtoC tau) (a, b)) = (exp (tau * a) * cos (tau * b), exp (tau * a) * sin (tau * b)).
Proof.
  unfold Cexp. simpl.
  replace (tau * a - 0 * b) with (tau * a) by ring.
  replace (tau * b + 0 * a) with (tau * b) by ring. reflexivity.
Qed.

(* ---- with the oracle as ONE function expm : matrix -> (t |-> exp(t A)) ---- *)
Section Expm.
Variable n : nat.
Variable expm : matN Cops -> R -> matN Cops.
(* H0 + Hsemi + Hder *)
Hypothesis Hexpm : forall A, is_expm n A (expm A).
(* expm depends only on the n x n block *)
Hypothesis Hext : forall A B, (forall i j, (i < n)%nat -> (j < n)%nat -> A i j = B i j) ->
  forall t i j, (i < n)%nat -> (j < n)%nat -> expm A t i j = expm B t i j.
(* Hdiag: diagonal matrices exponentiate entry-wise *)
Hypothesis Hdiag : forall (d : nat -> C) t i j, (i < n)%nat -> (j < n)%nat ->
  expm (fun a b => Cmult (d a) (@delta Cops a b)) t i j = Cmult (Cexp (Cmult (RtoC t) (d i))) (@delta Cops i j).

Variables khi : matN Cops.
Variables T1 T2 : nat -> option C.
Variable g : nat -> C.

Definition X_op (st eq : fibre Cops) (tau : R) : fibre Cops :=
  X_fibre n (expm (xiT_C khi T2 g)) (expm (xiL_C khi T1)) st eq tau.

Theorem X_solves_ode st eq i k tau : (i < n)%nat ->
  derC (fun t => fp (X_op st eq t i k)) tau
       (@ksum Cops n (fun l => Cmult (xiT_C khi T2 g i l) (Cminus (fp (X_op st eq tau l k)) (fp (eq l k))))) /\
  derC (fun t => fm (X_op st eq t i k)) tau
       (@ksum Cops n (fun l => Cmult (Cconj (xiT_C khi T2 g i l)) (Cminus (fm (X_op st eq tau l k)) (fm (eq l k))))) /\
  derC (fun t => fz (X_op st eq t i k)) tau
       (@ksum Cops n (fun l => Cmult (xiL_C khi T1 i l) (Cminus (fz (X_op st eq tau l k)) (fz (eq l k))))).
Proof. exact (X_solves_ode_blocks n khi T1 T2 g _ _ (Hexpm _) (Hexpm _) st eq i k tau). Qed.

Theorem X_initial st eq i k : (i < n)%nat -> X_op st eq 0 i k = st i k.
Proof. exact (X_initial_blocks n khi T1 T2 g _ _ (Hexpm _) (Hexpm _) st eq i k). Qed.

Theorem X_fixed_point eq tau i k : X_op eq eq tau i k = eq i k.
Proof. unfold X_op, X_fibre. apply (x_fixed_point Cops Claws). Qed.

Theorem X_semigroup st eq i k t1 t2 : (i < n)%nat ->
  X_op (X_op st eq t1) eq t2 i k = X_op st eq (t1 + t2) i k.
Proof. exact (X_semigroup_blocks n khi T1 T2 g _ _ (Hexpm _) (Hexpm _) st eq i k t1 t2). Qed.

Theorem X_conserves_total st eq k :
  (forall l, (l < n)%nat -> colsum n khi l = RtoC 0) ->
  (forall i, T1 i = None) -> (forall i, T2 i = None) -> (forall i, g i = RtoC 0) ->
  forall tau, @ksum Cops n (fun i => fp (X_op st eq tau i k)) = @ksum Cops n (fun i => fp (st i k)) /\
              @ksum Cops n (fun i => fm (X_op st eq tau i k)) = @ksum Cops n (fun i => fm (st i k)) /\
              @ksum Cops n (fun i => fz (X_op st eq tau i k)) = @ksum Cops n (fun i => fz (st i k)).
Proof.
  intros Hc H1 H2 Hg.
  exact (proj2 (X_conserves_total_blocks n khi T1 T2 g _ _ (Hexpm _) (Hexpm _) st eq k Hc H1 H2 Hg)).
Qed.

(* zero exchange: every compartment relaxes / precesses on its own *)
Theorem X_zero_exchange st eq i k tau : (forall a b, khi a b = RtoC 0) -> (i < n)%nat ->
  let eT := Cexp (Cmult (RtoC tau) (rateT Cops Cinv twopii_C (T2 i) (g i))) in
  let eL := Cexp (Cmult (RtoC tau) (rateL Cops Cinv (T1 i))) in
  X_op st eq tau i k =
  @mk3 Cops (Cplus (Cmult eT (Cminus (fp (st i k)) (fp (eq i k)))) (fp (eq i k)))
            (Cplus (Cmult (Cconj eT) (Cminus (fm (st i k)) (fm (eq i k)))) (fm (eq i k)))
            (Cplus (Cmult eL (Cminus (fz (st i k)) (fz (eq i k)))) (fz (eq i k))).
Proof.
  intros Hk Hi eT eL.
  assert (ET : forall j, (j < n)%nat -> expm (xiT_C khi T2 g) tau i j = Cmult eT (@delta Cops i j)).
  { intros j Hj.
    rewrite (Hext _ (fun a b => Cmult (rateT Cops Cinv twopii_C (T2 a) (g a)) (@delta Cops a b))).
    - exact (Hdiag (fun a => rateT Cops Cinv twopii_C (T2 a) (g a)) tau i j Hi Hj).
    - intros a b _ _. exact (xiT_zero Cops Claws Cinv twopii_C khi T2 g a b Hk).
    - exact Hi.
    - exact Hj. }
  assert (EL : forall j, (j < n)%nat -> expm (xiL_C khi T1) tau i j = Cmult eL (@delta Cops i j)).
  { intros j Hj.
    rewrite (Hext _ (fun a b => Cmult (rateL Cops Cinv (T1 a)) (@delta Cops a b))).
    - exact (Hdiag (fun a => rateL Cops Cinv (T1 a)) tau i j Hi Hj).
    - intros a b _ _. exact (xiL_zero Cops Claws Cinv khi T1 a b Hk).
    - exact Hi.
    - exact Hj. }
  unfold X_op, X_fibre. apply (triple_ext Cops); cbn [fp fm fz].
  - rewrite x_apply_fibre_fp.
    rewrite (aff_ext Cops n _ (fun a b => Cmult ((fun _ => eT) a) (@delta Cops a b)) _ _ i ET).
    exact (aff_diag Cops Claws n (fun _ => eT) _ _ i Hi).
  - rewrite x_apply_fibre_fm.
    rewrite (aff_ext Cops n _ (fun a b => Cmult ((fun _ => Cconj eT) a) (@delta Cops a b)) _ _ i).
    + exact (aff_diag Cops Claws n (fun _ => Cconj eT) _ _ i Hi).
    + intros j Hj. unfold conjN. rewrite (ET j Hj).
      rewrite <- (conj_delta i j) at 2. exact (conj_mul Cops Claws eT (@delta Cops i j)).
  - rewrite x_apply_fibre_fz.
    rewrite (aff_ext Cops n _ (fun a b => Cmult ((fun _ => eL) a) (@delta Cops a b)) _ _ i EL).
    exact (aff_diag Cops Claws n (fun _ => eL) _ _ i Hi).
Qed.

(* ... and this is the E operator of the same compartment (generated coefficients of Gen/Evolution.v) *)
Theorem X_zero_exchange_is_E st eq i k tau (t1 t2 gg : R) (pd : C) :
  (forall a b, khi a b = RtoC 0) -> (i < n)%nat -> t1 <> 0 -> t2 <> 0 ->
  T1 i = Some (RtoC t1) -> T2 i = Some (RtoC t2) -> g i = RtoC gg ->
  eq i k = @mk3 Cops (RtoC 0) (RtoC 0) pd ->
  X_op st eq tau i k = evolve (E_op tau t1 t2 gg) (st i k) pd.
Proof.
  intros Hk Hi Ht1 Ht2 E1 E2 Eg Eeq.
  rewrite (X_zero_exchange st eq i k tau Hk Hi). rewrite E1, E2, Eg, Eeq.
  rewrite (rateT_real t2 gg Ht2), (rateL_real t1 Ht1), !Cexp_scal.
  destruct (st i k) as [[a b] [c d] [e f]]. destruct pd as [p q].
  unfold evolve, E_op, relaxation_operator, tadd, sv, opt0.
  cbn [fst snd fp fm fz]. cnorm.
  replace (tau * - / t2) with (- (tau * (1 / t2))) by (field; exact Ht2).
  replace (tau * - / t1) with (- (tau / t1)) by (field; exact Ht1).
  rewrite ?Rmult_0_r, ?cos_0, ?sin_0, ?cos_neg, ?sin_neg.
  apply (triple_ext Cops); cbn [fp fm fz]; apply injective_projections; simpl; ring.
Qed.

End Expm.

(* ================================================================ Part 3: two pools, scalar rate.
   exchange_matrix(kappa, ncomp=2) = kappa [[1,-1],[-1,1]]; the closed form
   exp(-K t) = 1/2 [[1+e, 1-e],[1-e, 1+e]], e = exp(-2 kappa t), satisfies the oracle predicate:
   the hypotheses are satisfiable and the pure-exchange 2-pool case needs none. *)
Definition K2 (kappa : R) : matN Cops := fun i j => RtoC (if Nat.eqb i j then kappa else - kappa).
Definition E2 (kappa t : R) : matN Cops := fun i j =>
  RtoC (if Nat.eqb i j then (1 + exp (-2 * kappa * t)) / 2 else (1 - exp (-2 * kappa * t)) / 2).

Ltac two_cases i j Hi Hj :=
  destruct i as [|[|i]]; [| |exfalso; lia]; (destruct j as [|[|j]]; [| |exfalso; lia]).

Lemma exchange_matrix_two kappa i j : (i < 2)%nat -> (j < 2)%nat ->
  exchange_matrix Cops Cinv (RtoC kappa) 2 None i j = K2 kappa i j.
Proof.
  intros Hi Hj. two_cases i j Hi Hj; unfold exchange_matrix, kron, K2, delta; simpl; cnorm;
    apply injective_projections; simpl; field; lra.
Qed.

Lemma two_pool_H0 kappa i j : (i < 2)%nat -> (j < 2)%nat -> E2 kappa 0 i j = @midN Cops i j.
Proof.
  intros Hi Hj. unfold E2, midN, delta.
  replace (-2 * kappa * 0) with 0 by ring. rewrite exp_0.
  two_cases i j Hi Hj; simpl; apply injective_projections; simpl; lra.
Qed.

Lemma two_pool_semigroup kappa s t i j : (i < 2)%nat -> (j < 2)%nat ->
  E2 kappa (s + t) i j = mmulN 2 (E2 kappa s) (E2 kappa t) i j.
Proof.
  intros Hi Hj. unfold E2, mmulN.
  replace (-2 * kappa * (s + t)) with (-2 * kappa * s + -2 * kappa * t) by ring. rewrite exp_plus.
  generalize (exp (-2 * kappa * s)) (exp (-2 * kappa * t)). intros a b.
  two_cases i j Hi Hj; simpl; cnorm; apply injective_projections; simpl; field.
Qed.

Lemma two_pool_deriv kappa t i j : (i < 2)%nat -> (j < 2)%nat ->
  derC (fun u => E2 kappa u i j) t (mmulN 2 (moppN (K2 kappa)) (E2 kappa t) i j).
Proof.
  intros Hi Hj. unfold derC, E2, mmulN, moppN, K2.
  two_cases i j Hi Hj; simpl; split; auto_derive; trivial; simpl; field.
Qed.

Theorem two_pool_is_expm kappa : is_expm 2 (moppN (K2 kappa)) (E2 kappa).
Proof.
  split; [|split].
  - exact (two_pool_H0 kappa).
  - exact (two_pool_semigroup kappa).
  - exact (two_pool_deriv kappa).
Qed.

(* the generators of X(tau, kappa) without relaxation are exactly -K2 *)
Lemma two_pool_generators kappa :
  is_expm 2 (xiT_C (exchange_matrix Cops Cinv (RtoC kappa) 2 None) (fun _ => None) (fun _ => RtoC 0)) (E2 kappa) /\
  is_expm 2 (xiL_C (exchange_matrix Cops Cinv (RtoC kappa) 2 None) (fun _ => None)) (E2 kappa).
Proof.
  split.
  - apply (is_expm_ext 2 (moppN (K2 kappa))); [|exact (two_pool_is_expm kappa)].
    intros i j Hi Hj. rewrite (xiT_pure Cops Claws). unfold moppN.
    now rewrite (exchange_matrix_two kappa i j Hi Hj).
  - apply (is_expm_ext 2 (moppN (K2 kappa))); [|exact (two_pool_is_expm kappa)].
    intros i j Hi Hj. rewrite (xiL_pure Cops Claws). unfold moppN.
    now rewrite (exchange_matrix_two kappa i j Hi Hj).
Qed.

Definition X2 (kappa : R) (st eq : fibre Cops) (t : R) : fibre Cops :=
  X_fibre 2 (E2 kappa) (E2 kappa) st eq t.

(* UNCONDITIONAL: the closed-form 2-pool operator solves the Bloch-McConnell equations of
   X(tau, kappa) (no relaxation), starts at the identity, is a semigroup and conserves the total *)
Theorem two_pool_solves_ode kappa st eq i k tau : (i < 2)%nat ->
  let Kx := exchange_matrix Cops Cinv (RtoC kappa) 2 None in
  let XT := xiT_C Kx (fun _ => None) (fun _ => RtoC 0) in
  let XL := xiL_C Kx (fun _ => None) in
  derC (fun t => fp (X2 kappa st eq t i k)) tau
       (@ksum Cops 2 (fun l => Cmult (XT i l) (Cminus (fp (X2 kappa st eq tau l k)) (fp (eq l k))))) /\
  derC (fun t => fm (X2 kappa st eq t i k)) tau
       (@ksum Cops 2 (fun l => Cmult (Cconj (XT i l)) (Cminus (fm (X2 kappa st eq tau l k)) (fm (eq l k))))) /\
  derC (fun t => fz (X2 kappa st eq t i k)) tau
       (@ksum Cops 2 (fun l => Cmult (XL i l) (Cminus (fz (X2 kappa st eq tau l k)) (fz (eq l k))))).
Proof.
  intros Hi Kx XT XL. destruct (two_pool_generators kappa) as [HT HL].
  exact (X_solves_ode_blocks 2 Kx (fun _ => None) (fun _ => None) (fun _ => RtoC 0) _ _ HT HL st eq i k tau Hi).
Qed.

Theorem two_pool_initial kappa st eq i k : (i < 2)%nat -> X2 kappa st eq 0 i k = st i k.
Proof.
  destruct (two_pool_generators kappa) as [HT HL].
  exact (X_initial_blocks 2 _ (fun _ => None) (fun _ => None) (fun _ => RtoC 0) _ _ HT HL st eq i k).
Qed.

Theorem two_pool_semigroup_X kappa st eq i k t1 t2 : (i < 2)%nat ->
  X2 kappa (X2 kappa st eq t1) eq t2 i k = X2 kappa st eq (t1 + t2) i k.
Proof.
  destruct (two_pool_generators kappa) as [HT HL].
  exact (X_semigroup_blocks 2 _ (fun _ => None) (fun _ => None) (fun _ => RtoC 0) _ _ HT HL st eq i k t1 t2).
Qed.

Theorem two_pool_conserves kappa st eq k tau :
  @ksum Cops 2 (fun i => fp (X2 kappa st eq tau i k)) = @ksum Cops 2 (fun i => fp (st i k)) /\
  @ksum Cops 2 (fun i => fm (X2 kappa st eq tau i k)) = @ksum Cops 2 (fun i => fm (st i k)) /\
  @ksum Cops 2 (fun i => fz (X2 kappa st eq tau i k)) = @ksum Cops 2 (fun i => fz (st i k)).
Proof.
  destruct (two_pool_generators kappa) as [HT HL].
  refine (proj2 (X_conserves_total_blocks 2 _ (fun _ => None) (fun _ => None) (fun _ => RtoC 0) _ _ HT HL st eq k
            _ (fun _ => eq_refl) (fun _ => eq_refl) (fun _ => eq_refl)) tau).
  intros l Hl.
  assert (N1 : (@knat Cops (2 - 1) * Cinv (@knat Cops (2 - 1)))%C = RtoC 1).
  { simpl. cnorm. apply injective_projections; simpl; field; lra. }
  exact (exchange_matrix_colsum Cops Claws Cinv (RtoC kappa) 2 None l Hl N1).
Qed.
