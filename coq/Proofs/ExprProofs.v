(* C11 -- proofs about Model/Expr.v and the generated tables Gen/SeqTables.v *)
From Coq Require Import List String ZArith QArith Qcanon Reals Bool Lia Lra Qreals.
From Coquelicot Require Import Coquelicot.
From EPG Require Import SeqTables Expr.
Import ListNotations.
Local Open Scope R_scope.

(* ------------------------------------------------------------------ induction on rose trees *)
Section ExprInd.
  Variable P : expr -> Prop.
  Hypothesis Hc : forall q, P (Const q).
  Hypothesis Hv : forall x, P (Var x).
  Hypothesis Hp : forall n, P (Proxy n).
  Hypothesis Ha : forall f args, List.Forall P args -> P (App f args).
  Fixpoint expr_ind' (e : expr) : P e :=
    match e with
    | Const q => Hc q
    | Var x => Hv x
    | Proxy n => Hp n
    | App f args =>
        Ha f args ((fix go (l : list expr) : List.Forall P l :=
                      match l with
                      | [] => List.Forall_nil P
                      | a :: l' => List.Forall_cons a (expr_ind' a) (go l')
                      end) args)
    end.
End ExprInd.

(* ------------------------------------------------------------------ numerals *)
Lemma Q2R_0 : Q2R 0 = 0. Proof. unfold Q2R; simpl; lra. Qed.
Lemma Q2R_1 : Q2R 1 = 1. Proof. unfold Q2R; simpl; lra. Qed.
Lemma Q2R_m1 : Q2R (-1) = -1. Proof. unfold Q2R; simpl; lra. Qed.
Lemma Q2R_2 : Q2R 2 = 2. Proof. unfold Q2R; simpl; lra. Qed.

(* ------------------------------------------------------------------ sign, power *)
Lemma sgn_sign x : sgn x = sign x.
Proof.
  unfold sgn, sign. destruct (total_order_T 0 x) as [[H|H]|H].
  - destruct (Rlt_dec 0 x); [reflexivity|contradiction].
  - subst. destruct (Rlt_dec 0 0); [lra|]. destruct (Rlt_dec 0 0); [lra|reflexivity].
  - destruct (Rlt_dec 0 x); [lra|]. destruct (Rlt_dec x 0); [reflexivity|lra].
Qed.

Lemma Int_part_IZR n : Int_part (IZR n) = n.
Proof.
  unfold Int_part. assert (H : (n + 1)%Z = up (IZR n)).
  { apply tech_up; rewrite plus_IZR; lra. }
  rewrite <- H. lia.
Qed.

Lemma int_of_IZR n : int_of (IZR n) = Some n.
Proof.
  unfold int_of. rewrite Int_part_IZR. destruct (Req_EM_T (IZR n) (IZR n)); [reflexivity|contradiction].
Qed.

Lemma powR_pos x y : 0 < x -> powR x y = Rpower x y.
Proof. intros H. unfold powR. destruct (Rlt_dec 0 x); [reflexivity|contradiction]. Qed.

Lemma powR_int x n : powR x (IZR n) = powerRZ x n.
Proof.
  unfold powR. destruct (Rlt_dec 0 x) as [H|H].
  - symmetry. apply powerRZ_Rpower. exact H.
  - rewrite int_of_IZR. reflexivity.
Qed.

Lemma powR_Qint x n : powR x (Q2R (n # 1)) = powerRZ x n.
Proof. replace (Q2R (n # 1)) with (IZR n) by (unfold Q2R; simpl; field). apply powR_int. Qed.

Lemma powR_2 x : powR x 2 = x * x.
Proof. change 2 with (IZR 2). rewrite powR_int. simpl. ring. Qed.

Lemma is_derive_powerRZ (n : Z) (x : R) :
  (x <> 0 \/ (1 <= n)%Z) -> is_derive (fun t => powerRZ t n) x (IZR n * powerRZ x (n - 1)).
Proof.
  intros H. destruct n as [|p|p].
  - simpl. rewrite Rmult_0_l.
    exact (is_derive_const 1 x).
  - simpl powerRZ at 1.
    replace (powerRZ x (Z.pos p - 1)) with (x ^ (pred (Pos.to_nat p))).
    2:{ destruct (Pos.to_nat p) eqn:E; [pose proof (Pos2Nat.is_pos p); lia|].
        replace (Z.pos p - 1)%Z with (Z.of_nat n) by lia. rewrite <- pow_powerRZ. reflexivity. }
    auto_derive; [trivial|].
    replace (IZR (Z.pos p)) with (INR (Pos.to_nat p)) by (rewrite INR_IZR_INZ, positive_nat_Z; reflexivity). ring.
  - destruct H as [H|H]; [|lia].
    simpl powerRZ at 1.
    replace (powerRZ x (Z.neg p - 1)) with (/ (x ^ (S (Pos.to_nat p)))).
    2:{ replace (Z.neg p - 1)%Z with (- Z.of_nat (S (Pos.to_nat p)))%Z by lia.
        rewrite powerRZ_neg', <- pow_powerRZ. reflexivity. }
    auto_derive.
    + apply pow_nonzero. exact H.
    + replace (IZR (Z.neg p)) with (- INR (Pos.to_nat p)).
      2:{ rewrite INR_IZR_INZ, positive_nat_Z. change (Z.neg p) with (- Z.pos p)%Z. rewrite opp_IZR. reflexivity. }
      destruct (Pos.to_nat p) eqn:E; [pose proof (Pos2Nat.is_pos p); lia|].
      simpl pred. rewrite S_INR. simpl pow. field. split; [apply pow_nonzero|]; exact H.
Qed.

(* ------------------------------------------------------------------ total differentials of the ten primitives *)
Section Diff.
  Variables (A B : R -> R) (x a' b' : R).
  Hypothesis HA : is_derive A x a'.
  Hypothesis HB : is_derive B x b'.

  Let exA : ex_derive A x := ex_intro _ a' HA.
  Let exB : ex_derive B x := ex_intro _ b' HB.
  Let DA : Derive (fun t : R => A t) x = a' := is_derive_unique _ _ _ HA.
  Let DB : Derive (fun t : R => B t) x = b' := is_derive_unique _ _ _ HB.

  Lemma d_add : is_derive (fun t => A t + B t) x (a' * 1 + b' * 1).
  Proof. auto_derive; [split; [exact exA|split; [exact exB|trivial]]|rewrite DA, DB; ring]. Qed.
  Lemma d_sub : is_derive (fun t => A t - B t) x (a' * 1 + b' * -1).
  Proof. auto_derive; [split; [exact exA|split; [exact exB|trivial]]|rewrite DA, DB; ring]. Qed.
  Lemma d_mul : is_derive (fun t => A t * B t) x (a' * B x + b' * A x).
  Proof. auto_derive; [split; [exact exA|split; [exact exB|trivial]]|rewrite DA, DB; ring]. Qed.
  Lemma d_div : B x <> 0 -> is_derive (fun t => A t / B t) x (a' * (1 / B x) + b' * (- A x / (B x * B x))).
  Proof.
    intros H. auto_derive; [split; [exact exA|split; [exact exB|split; [exact H|trivial]]]|rewrite DA, DB; field; exact H].
  Qed.
  Lemma d_inv : A x <> 0 -> is_derive (fun t => 1 / A t) x (a' * (-1 / (A x * A x))).
  Proof. intros H. auto_derive; [split; [exact exA|split; [exact H|trivial]]|rewrite DA; field; exact H]. Qed.
  Lemma d_neg : is_derive (fun t => - A t) x (a' * -1).
  Proof. auto_derive; [exact exA|rewrite DA; ring]. Qed.
  Lemma d_exp : is_derive (fun t => exp (A t)) x (a' * exp (A x)).
  Proof. auto_derive; [exact exA|rewrite DA; ring]. Qed.
  Lemma d_log : 0 < A x -> is_derive (fun t => ln (A t)) x (a' * (1 / A x)).
  Proof. intros H. auto_derive; [split; [exact exA|split; [exact H|trivial]]|rewrite DA; field; lra]. Qed.
  Lemma d_abs : A x <> 0 -> is_derive (fun t => Rabs (A t)) x (a' * sgn (A x)).
  Proof.
    intros H. rewrite sgn_sign, Rmult_comm. exact (is_derive_Rabs A x a' HA H).
  Qed.

  Lemma locally_pos : 0 < A x -> locally x (fun t => 0 < A t).
  Proof.
    intros H. pose proof (ex_derive_continuous A x exA) as C.
    exact (C (fun u => 0 < u) (open_gt 0 (A x) H)).
  Qed.

  (* variable exponent (or variable base and exponent): positive base *)
  Lemma d_pow_pos : 0 < A x ->
    is_derive (fun t => powR (A t) (B t)) x
      (a' * (B x * powR (A x) (B x + -1)) + b' * (ln (A x) * powR (A x) (B x))).
  Proof.
    intros H.
    apply (is_derive_ext_loc (fun t => exp (B t * ln (A t)))).
    - generalize (locally_pos H). apply filter_imp. intros t Ht. rewrite (powR_pos _ _ Ht). reflexivity.
    - rewrite !(powR_pos _ _ H). unfold Rpower.
      auto_derive; [split; [exact exB|split; [exact exA|split; [exact H|trivial]]]|].
      rewrite DA, DB. replace ((B x + -1) * ln (A x)) with (B x * ln (A x) + - ln (A x)) by ring.
      rewrite exp_plus, exp_Ropp, exp_ln by exact H. field. lra.
  Qed.

  (* constant integer exponent: any base (non-zero when the exponent is < 1) *)
  Lemma d_pow_int (n : Z) : (forall t, B t = IZR n) -> (A x <> 0 \/ (1 <= n)%Z) ->
    is_derive (fun t => powR (A t) (B t)) x (a' * (B x * powR (A x) (B x + -1))).
  Proof.
    intros Hn H.
    apply (is_derive_ext (fun t => powerRZ (A t) n)).
    - intros t. rewrite Hn, powR_int. reflexivity.
    - rewrite Hn. replace (IZR n + -1) with (IZR (n - 1)) by (rewrite minus_IZR; ring).
      rewrite powR_int.
      exact (is_derive_comp (fun u => powerRZ u n) A x _ _ (is_derive_powerRZ n (A x) H) HA).
  Qed.
End Diff.

(* ------------------------------------------------------------------ evaluation lemmas *)
Lemma eval_App rho f args :
  eval rho (App f args) = feval Q2R primR (map (eval rho) args) (fwd f).
Proof. reflexivity. Qed.

Lemma peval_App rho px f args :
  peval rho px (App f args) = feval Q2R primR (map (peval rho px) args) (fwd f).
Proof. reflexivity. Qed.

Lemma eval_ext rho rho' e :
  (forall y, In y (vars e) -> rho y = rho' y) -> eval rho e = eval rho' e.
Proof.
  induction e as [q|x|n|f args IH] using expr_ind'; intros H.
  - reflexivity.
  - apply H. simpl. left. reflexivity.
  - reflexivity.
  - rewrite !eval_App. f_equal. apply map_ext_in. intros a Ha.
    rewrite List.Forall_forall in IH. apply (IH a Ha). intros y Hy. apply H.
    simpl. apply in_flat_map. exists a. split; [exact Ha|exact Hy].
Qed.

Lemma has_var_false v e y : has_var v e = false -> In y (vars e) -> y <> v.
Proof.
  unfold has_var. intros H Hy E. subst y.
  assert (existsb (String.eqb v) (vars e) = true); [|congruence].
  apply existsb_exists. exists v. split; [exact Hy|apply String.eqb_refl].
Qed.

Lemma eval_upd_novar rho v t e : has_var v e = false -> eval (upd rho v t) e = eval rho e.
Proof.
  intros H. apply eval_ext. intros y Hy. unfold upd.
  destruct (String.eqb_spec y v) as [E|E]; [|reflexivity].
  exfalso. exact (has_var_false v e y H Hy E).
Qed.

Lemma eval_upd_same rho v e : eval (upd rho v (rho v)) e = eval rho e.
Proof.
  apply eval_ext. intros y _. unfold upd. destruct (String.eqb_spec y v) as [E|E]; [subst; reflexivity|reflexivity].
Qed.

(* substitution commutes with evaluation *)
Definition env_subst (rho : string -> R) (m : list (string * expr)) : string -> R :=
  fun x => match assoc x m with Some a => eval rho a | None => rho x end.

Lemma map_eval_lemma rho m e : eval rho (subst m e) = eval (env_subst rho m) e.
Proof.
  induction e as [q|x|n|f args IH] using expr_ind'.
  - reflexivity.
  - simpl subst. change (eval (env_subst rho m) (Var x)) with (env_subst rho m x). unfold env_subst.
    destruct (assoc x m); reflexivity.
  - reflexivity.
  - simpl subst. rewrite !eval_App. f_equal. rewrite map_map. apply map_ext_in. intros a Ha.
    rewrite List.Forall_forall in IH. exact (IH a Ha).
Qed.

Definition px_subst (rho : string -> R) (m : list (nat * expr)) : nat -> R :=
  fun n => match assoc_nat n m with Some a => eval rho a | None => 0 end.

Lemma eval_subst_proxies rho m t : eval rho (subst_proxies m t) = peval rho (px_subst rho m) t.
Proof.
  induction t as [q|x|n|f args IH] using expr_ind'.
  - reflexivity.
  - reflexivity.
  - simpl subst_proxies. change (peval rho (px_subst rho m) (Proxy n)) with (px_subst rho m n). unfold px_subst.
    destruct (assoc_nat n m); reflexivity.
  - simpl subst_proxies. rewrite eval_App, peval_App. f_equal. rewrite map_map. apply map_ext_in. intros a Ha.
    rewrite List.Forall_forall in IH. exact (IH a Ha).
Qed.

(* repeat(): the argument expressions of repetition n evaluate like the originals under the n-th mapping *)
Lemma repeat_spec_lemma rho ops maps :
  map (map (map (eval rho))) (repeat_ops ops maps) =
  map (fun m => map (map (eval (env_subst rho m))) ops) maps.
Proof.
  unfold repeat_ops. rewrite map_map. apply map_ext. intros m.
  rewrite map_map. apply map_ext. intros op. rewrite map_map. apply map_ext. intros e.
  apply map_eval_lemma.
Qed.

(* ------------------------------------------------------------------ shape of derive *)
Lemma eval_add rho a b : eval rho (App Fadd [a; b]) = eval rho a + eval rho b.
Proof. reflexivity. Qed.
Lemma eval_mul rho a b : eval rho (App Fmul [a; b]) = eval rho a * eval rho b.
Proof. reflexivity. Qed.
Lemma eval_c0 rho : eval rho (Const 0) = 0.
Proof. exact Q2R_0. Qed.

Definition dval (v : string) (rho : string -> R) (a : expr) : R :=
  if has_var v a then eval rho (derive v a) else 0.

Lemma eval_term v rho f args i a :
  has_var v a = true ->
  eval rho (term f args i a (derive v a)) = eval rho (derive v a) * eval rho (partial f args i).
Proof.
  intros H. unfold term. destruct a as [q|y|n|g l]; try (apply eval_mul).
  unfold has_var in H. simpl in H. rewrite orb_false_r in H. apply String.eqb_eq in H. subst y.
  simpl is_var. cbv iota. simpl derive. rewrite String.eqb_refl.
  change (eval rho (Const 1)) with (Q2R 1). rewrite Q2R_1. ring.
Qed.

Lemma eval_derive1 v rho f a :
  eval rho (derive v (App f [a])) = dval v rho a * eval rho (partial f [a] 0).
Proof.
  unfold dval. simpl derive. destruct (has_var v a) eqn:Ha.
  - rewrite eval_add, eval_c0, (eval_term v rho f [a] 0 a Ha). ring.
  - rewrite eval_c0. ring.
Qed.

Lemma eval_derive2 v rho f a b :
  eval rho (derive v (App f [a; b])) =
  dval v rho a * eval rho (partial f [a; b] 0) + dval v rho b * eval rho (partial f [a; b] 1).
Proof.
  unfold dval. simpl derive. destruct (has_var v a) eqn:Ha; destruct (has_var v b) eqn:Hb;
    rewrite ?eval_add, ?eval_c0, ?(eval_term v rho f [a; b] 0 a Ha), ?(eval_term v rho f [a; b] 1 b Hb); ring.
Qed.

(* ------------------------------------------------------------------ soundness of derive *)
Arguments powR : simpl never.
Arguments sgn : simpl never.
Arguments Q2R : simpl never.

Lemma is_derive_eq (f : R -> R) (x l l' : R) : is_derive f x l' -> l' = l -> is_derive f x l.
Proof. intros H E. rewrite <- E. exact H. Qed.

Ltac qnorm := rewrite ?Q2R_0, ?Q2R_1, ?Q2R_m1, ?Q2R_2, ?powR_2.

Section Sound.
  Variables (v : string) (rho : string -> R).
  Let x := rho v.
  Definition Fv (e : expr) : R -> R := fun t => eval (upd rho v t) e.

  Lemma Fv_at e : Fv e (rho v) = eval rho e.
  Proof. apply eval_upd_same. Qed.

  Lemma const_case e : has_var v e = false -> is_derive (Fv e) (rho v) 0.
  Proof.
    intros H. apply (is_derive_ext (fun _ => eval rho e)).
    - intros t. symmetry. apply eval_upd_novar. exact H.
    - exact (is_derive_const (eval rho e) (rho v)).
  Qed.

  Lemma dval_ok a :
    (has_var v a = true -> is_derive (Fv a) (rho v) (eval rho (derive v a))) ->
    is_derive (Fv a) (rho v) (dval v rho a).
  Proof.
    intros H. unfold dval. destruct (has_var v a) eqn:E; [exact (H eq_refl)|exact (const_case a E)].
  Qed.

  Lemma has_var_app1 f a : has_var v (App f [a]) = has_var v a.
  Proof. unfold has_var. simpl. rewrite app_nil_r. reflexivity. Qed.
  Lemma has_var_app2 f a b : has_var v (App f [a; b]) = has_var v a || has_var v b.
  Proof. unfold has_var. simpl. rewrite app_nil_r, existsb_app. reflexivity. Qed.

  Lemma app1_sound f a :
    arity f = 1%nat -> is_derive (Fv a) (rho v) (dval v rho a) ->
    derivs_defined f [has_var v a] -> fn_dom f [eval rho a] [has_var v a] ->
    is_derive (Fv (App f [a])) (rho v) (eval rho (derive v (App f [a]))).
  Proof.
    intros Har HA Hd Hdom. rewrite eval_derive1.
    destruct (has_var v a) eqn:Hv.
    2:{ unfold dval. rewrite Hv, Rmult_0_l. apply const_case. rewrite has_var_app1. exact Hv. }
    revert HA. generalize (dval v rho a). intros da HA.
    destruct f; try (vm_compute in Har; discriminate Har).
    - exfalso. apply (Hd 0%nat); reflexivity.
    - apply (is_derive_ext (fun t => - Fv a t)); [intros t; reflexivity|].
      refine (is_derive_eq _ _ _ _ (d_neg (Fv a) (rho v) da HA) _).
      cbn. qnorm. reflexivity.
    - apply (is_derive_ext (fun t => Rabs (Fv a t))); [intros t; reflexivity|].
      cbn in Hdom. specialize (Hdom eq_refl).
      refine (is_derive_eq _ _ _ _ (d_abs (Fv a) (rho v) da HA _) _); rewrite Fv_at; [exact Hdom|].
      cbn. reflexivity.
    - apply (is_derive_ext (fun t => 1 / Fv a t)).
      { intros t. unfold Fv. cbn. qnorm. reflexivity. }
      cbn in Hdom.
      refine (is_derive_eq _ _ _ _ (d_inv (Fv a) (rho v) da HA _) _); rewrite ?Fv_at; [exact Hdom|].
      cbn. qnorm. reflexivity.
    - apply (is_derive_ext (fun t => ln (Fv a t))); [intros t; reflexivity|].
      cbn in Hdom.
      refine (is_derive_eq _ _ _ _ (d_log (Fv a) (rho v) da HA _) _); rewrite ?Fv_at; [exact Hdom|].
      cbn. qnorm. reflexivity.
    - apply (is_derive_ext (fun t => exp (Fv a t))); [intros t; reflexivity|].
      refine (is_derive_eq _ _ _ _ (d_exp (Fv a) (rho v) da HA) _); rewrite ?Fv_at.
      cbn. reflexivity.
  Qed.

  Lemma app2_sound f a b :
    arity f = 2%nat ->
    is_derive (Fv a) (rho v) (dval v rho a) -> is_derive (Fv b) (rho v) (dval v rho b) ->
    derivs_defined f [has_var v a; has_var v b] ->
    fn_dom f [eval rho a; eval rho b] [has_var v a; has_var v b] ->
    is_derive (Fv (App f [a; b])) (rho v) (eval rho (derive v (App f [a; b]))).
  Proof.
    intros Har HA HB Hd Hdom. rewrite eval_derive2.
    destruct (has_var v a || has_var v b) eqn:Hv.
    2:{ apply orb_false_elim in Hv. destruct Hv as [Hva Hvb]. unfold dval. rewrite Hva, Hvb, !Rmult_0_l, Rplus_0_l.
        apply const_case. rewrite has_var_app2, Hva, Hvb. reflexivity. }
    destruct f; try (vm_compute in Har; discriminate Har).
    - (* left *)
      revert HA HB. generalize (dval v rho a) (dval v rho b). intros da db HA HB.
      apply (is_derive_ext (fun t => Fv a t)); [intros t; reflexivity|].
      refine (is_derive_eq _ _ _ _ HA _). cbn. qnorm. ring.
    - (* right *)
      revert HA HB. generalize (dval v rho a) (dval v rho b). intros da db HA HB.
      apply (is_derive_ext (fun t => Fv b t)); [intros t; reflexivity|].
      refine (is_derive_eq _ _ _ _ HB _). cbn. qnorm. ring.
    - (* add *)
      revert HA HB. generalize (dval v rho a) (dval v rho b). intros da db HA HB.
      apply (is_derive_ext (fun t => Fv a t + Fv b t)); [intros t; reflexivity|].
      refine (is_derive_eq _ _ _ _ (d_add _ _ _ _ _ HA HB) _). cbn. qnorm. reflexivity.
    - (* sub *)
      revert HA HB. generalize (dval v rho a) (dval v rho b). intros da db HA HB.
      apply (is_derive_ext (fun t => Fv a t - Fv b t)); [intros t; reflexivity|].
      refine (is_derive_eq _ _ _ _ (d_sub _ _ _ _ _ HA HB) _). cbn. qnorm. reflexivity.
    - (* mul *)
      revert HA HB. generalize (dval v rho a) (dval v rho b). intros da db HA HB.
      apply (is_derive_ext (fun t => Fv a t * Fv b t)); [intros t; reflexivity|].
      refine (is_derive_eq _ _ _ _ (d_mul _ _ _ _ _ HA HB) _). rewrite !Fv_at. cbn. reflexivity.
    - (* div *)
      revert HA HB. generalize (dval v rho a) (dval v rho b). intros da db HA HB.
      apply (is_derive_ext (fun t => Fv a t / Fv b t)); [intros t; reflexivity|].
      cbn in Hdom.
      refine (is_derive_eq _ _ _ _ (d_div _ _ _ _ _ HA HB _) _); rewrite ?Fv_at; [exact Hdom|].
      cbn. qnorm. reflexivity.
    - (* pow *)
      apply (is_derive_ext (fun t => powR (Fv a t) (Fv b t))); [intros t; reflexivity|].
      cbn in Hdom. destruct Hdom as [Hpos|[Hvb [n [Hn Hc]]]].
      + revert HA HB. generalize (dval v rho a) (dval v rho b). intros da db HA HB.
        refine (is_derive_eq _ _ _ _ (d_pow_pos _ _ _ _ _ HA HB _) _); rewrite ?Fv_at; [exact Hpos|].
        cbn. qnorm. reflexivity.
      + rewrite Hvb, orb_false_r in Hv.
        assert (Hb : forall t, Fv b t = IZR n).
        { intros t. unfold Fv. rewrite (eval_upd_novar rho v t b Hvb). exact Hn. }
        unfold dval at 2. rewrite Hvb, Rmult_0_l, Rplus_0_r.
        revert HA. generalize (dval v rho a). intros da HA.
        refine (is_derive_eq _ _ _ _ (d_pow_int _ (Fv b) _ _ HA n Hb _) _); rewrite ?Fv_at; [exact (Hc Hv)|].
        cbn. qnorm. reflexivity.
  Qed.

  Theorem derive_sound_lemma e :
    wd v rho e -> is_derive (fun t => eval (upd rho v t) e) (rho v) (eval rho (derive v e)).
  Proof.
    induction e as [q|y|n|f args IH] using expr_ind'; intros W.
    - apply (is_derive_eq _ _ _ 0); [exact (is_derive_const (Q2R q) (rho v))|symmetry; exact Q2R_0].
    - simpl derive. destruct (String.eqb_spec y v) as [E|E].
      + subst y. apply (is_derive_ext (fun t => t)).
        { intros t. unfold eval, upd. simpl. rewrite String.eqb_refl. reflexivity. }
        apply (is_derive_eq _ _ _ 1); [exact (is_derive_id (rho v))|symmetry; exact Q2R_1].
      + apply (is_derive_ext (fun t => rho y)).
        { intros t. unfold eval, upd. simpl. apply String.eqb_neq in E. rewrite E. reflexivity. }
        apply (is_derive_eq _ _ _ 0); [exact (is_derive_const (rho y) (rho v))|symmetry; exact Q2R_0].
    - destruct W.
    - simpl in W. destruct W as [Hlen [Hall [Hd Hdom]]].
      destruct args as [|a [|b [|c l]]].
      + (* no argument: no function of the table has arity 0 *)
        destruct f; vm_compute in Hlen; discriminate Hlen.
      + destruct Hall as [Wa _]. inversion IH as [|? ? IHa _]; subst.
        apply (app1_sound f a (eq_sym Hlen)); [|exact Hd|exact Hdom].
        apply dval_ok. intros _. exact (IHa Wa).
      + destruct Hall as [Wa [Wb _]]. inversion IH as [|? ? IHa IH']; subst. inversion IH' as [|? ? IHb _]; subst.
        apply (app2_sound f a b (eq_sym Hlen)); [| |exact Hd|exact Hdom].
        * apply dval_ok. intros _. exact (IHa Wa).
        * apply dval_ok. intros _. exact (IHb Wb).
      + destruct f; vm_compute in Hlen; discriminate Hlen.
  Qed.
End Sound.

(* ------------------------------------------------------------------ the generated derivative table, entry by entry *)
Ltac tbl_side := repeat split; trivial; try assumption; try lra.

Theorem deriv_table_sound_lemma f i T args :
  dtab f i = Some T -> List.length args = arity f -> entry_dom f i args ->
  is_derive (fun u => fn_sem f (set_nth i u args)) (nth i args 0) (template_val T args).
Proof.
  intros HT Hlen Hdom. unfold fn_sem, template_val.
  destruct f; vm_compute in Hlen;
    (destruct args as [|a [|b [|c l]]]; try discriminate Hlen);
    (destruct i as [|[|i]]; [| |exfalso; destruct i; vm_compute in HT; discriminate HT]; vm_compute in HT; try discriminate HT);
    injection HT as <-; cbn in Hdom |- *; qnorm.
  - (* left *) auto_derive; [trivial|ring].
  - auto_derive; [trivial|ring].
  - (* right *) auto_derive; [trivial|ring].
  - auto_derive; [trivial|ring].
  - (* neg *) auto_derive; [trivial|ring].
  - (* abs *)
    refine (is_derive_eq _ _ _ _ (d_abs (fun u => u) a 1 (is_derive_id a) Hdom) _). ring.
  - (* add *) auto_derive; [trivial|ring].
  - auto_derive; [trivial|ring].
  - (* sub *) auto_derive; [trivial|ring].
  - auto_derive; [trivial|ring].
  - (* mul *) auto_derive; [trivial|ring].
  - auto_derive; [trivial|ring].
  - (* inv *) auto_derive; [tbl_side|field; exact Hdom].
  - (* div *) auto_derive; [tbl_side|field; exact Hdom].
  - auto_derive; [tbl_side|field; exact Hdom].
  - (* pow, base *)
    destruct Hdom as [Hpos|[n [Hn Hc]]].
    + refine (is_derive_eq _ _ _ _ (d_pow_pos (fun u => u) (fun _ => b) a 1 0 (is_derive_id a) (is_derive_const b a) Hpos) _).
      ring.
    + refine (is_derive_eq _ _ _ _ (d_pow_int (fun u => u) (fun _ => b) a 1 (is_derive_id a) n (fun _ => Hn) Hc) _).
      ring.
  - (* pow, exponent *)
    refine (is_derive_eq _ _ _ _ (d_pow_pos (fun _ => a) (fun u => u) b 0 1 (is_derive_const a b) (is_derive_id b) Hdom) _).
    ring.
  - (* log *) auto_derive; [tbl_side|field; lra].
  - (* exp *) auto_derive; [trivial|ring].
Qed.

(* ------------------------------------------------------------------ finite checks on the generated tables *)
Lemma tables_closed_lemma : tables_closed = true.
Proof. vm_compute. reflexivity. Qed.

Lemma proxies_ok_lemma : proxies_ok = true.
Proof. vm_compute. reflexivity. Qed.

(* every entry of the virtual-operator table outside the computed list [vop_bad] binds correctly;
   every entry inside it does not *)
Lemma vop_verdict_lemma :
  forallb (fun v => Bool.eqb (vop_binding_ok v) (negb (mem (v_name v) vop_bad))) vop_table = true.
Proof. vm_compute. reflexivity. Qed.

Lemma vop_table_ok_lemma v :
  In v vop_table -> ~ In (v_name v) vop_bad -> vop_binding_ok v = true.
Proof.
  intros Hin Hbad. pose proof vop_verdict_lemma as H. rewrite forallb_forall in H.
  specialize (H v Hin). apply eqb_prop in H. rewrite H.
  destruct (mem (v_name v) vop_bad) eqn:E; [|reflexivity].
  exfalso. apply Hbad. unfold mem in E. apply existsb_exists in E. destruct E as [s [Hs Es]].
  apply String.eqb_eq in Es. subst s. exact Hs.
Qed.

Lemma vop_table_refuted_lemma n :
  In n vop_bad -> exists v, In v vop_table /\ v_name v = n /\ vop_binding_ok v = false.
Proof.
  intros Hn.
  assert (H : forallb (fun n => existsb (fun v => String.eqb (v_name v) n && negb (vop_binding_ok v)) vop_table) vop_bad = true)
    by (vm_compute; reflexivity).
  rewrite forallb_forall in H. specialize (H n Hn). apply existsb_exists in H.
  destruct H as [v [Hv Hc]]. apply andb_prop in Hc. destruct Hc as [H1 H2].
  exists v. split; [exact Hv|]. split; [apply String.eqb_eq; exact H1|].
  destruct (vop_binding_ok v); [discriminate H2|reflexivity].
Qed.

Lemma vop_options_verdict_lemma :
  forallb (fun v => Bool.eqb (vop_opt_ok v) (negb (mem (v_name v) vop_bad_options))) vop_table = true.
Proof. vm_compute. reflexivity. Qed.

(* ------------------------------------------------------------------ helpers of the Interval tie (Cases files) *)
Lemma sgn_pos a : 0 < a -> sgn a = 1.
Proof. intros H. unfold sgn. destruct (Rlt_dec 0 a); [reflexivity|contradiction]. Qed.
Lemma sgn_neg a : a < 0 -> sgn a = -1.
Proof. intros H. unfold sgn. destruct (Rlt_dec 0 a); [lra|]. destruct (Rlt_dec a 0); [reflexivity|contradiction]. Qed.
Lemma Q2R_int_plus n m : Q2R (n # 1) + Q2R (m # 1) = Q2R ((n + m) # 1).
Proof. unfold Q2R. simpl. rewrite plus_IZR. field. Qed.
