(* C15 -- proofs about the imaging model (Model/Imaging.v).
   Analysis: the 'box' form factor IS the voxel average of the plane wave (is_RInt through
   antiderivatives), per axis; linear combinations (whole state lists) by induction.
   Algebra: point probe = plain synthesis, imaginary modulation = time character / off-resonance,
   real modulation, masks (soundness + error bound), reduce, option resolution, repeated use. *)
From Coq Require Import Reals Lra Psatz List Bool.
From Coquelicot Require Import Coquelicot.
From EPG Require Import Scalar CInst Imaging.
Import ListNotations.
Local Open Scope R_scope.

Lemma sinc_np_0 u : u = 0 -> sinc_np u = 1.
Proof. intros ->. unfold sinc_np. destruct (Req_EM_T 0 0); [reflexivity|congruence]. Qed.
Lemma sinc_np_neq u : u <> 0 -> sinc_np u = sin (PI * u) / (PI * u).
Proof. intros H. unfold sinc_np. destruct (Req_EM_T u 0); [contradiction|reflexivity]. Qed.

Lemma int_cos k a b : k <> 0 -> is_RInt (fun u => cos (k * u)) a b (sin (k * b) / k - sin (k * a) / k).
Proof.
  intros Hk.
  apply (is_RInt_derive (fun u => sin (k * u) / k) (fun u => cos (k * u))).
  - intros x _. auto_derive; trivial. field. exact Hk.
  - intros x _. apply continuous_comp.
    + apply (continuous_scal_r k (fun u : R => u)). apply continuous_id.
    + apply continuity_pt_filterlim. apply continuity_cos.
Qed.

Lemma int_sin k a b : k <> 0 -> is_RInt (fun u => sin (k * u)) a b (- cos (k * b) / k - - cos (k * a) / k).
Proof.
  intros Hk.
  apply (is_RInt_derive (fun u => - cos (k * u) / k) (fun u => sin (k * u))).
  - intros x _. auto_derive; trivial. field. exact Hk.
  - intros x _. apply continuous_comp.
    + apply (continuous_scal_r k (fun u : R => u)). apply continuous_id.
    + apply continuity_pt_filterlim. apply continuity_sin.
Qed.

Lemma sinc_arg_neq0 k D : k <> 0 -> D <> 0 -> sinc_arg k D <> 0.
Proof.
  intros Hk HD. pose proof PI_RGT_0 as Hpi. unfold sinc_arg. intros E.
  apply (Rmult_integral_contrapositive_currified k D Hk HD).
  assert (E2 : k * D = (k * D / 2 / PI) * (2 * PI)) by (field; lra). rewrite E2, E. ring.
Qed.

(* the source's scaling: sinc_np (k * D / 2 / PI) = sin (k D / 2) / (k D / 2) *)
Lemma sinc_arg_val k D : k <> 0 -> D <> 0 ->
  sinc_np (sinc_arg k D) = 2 * sin (k * D / 2) / (k * D).
Proof.
  intros Hk HD. pose proof PI_RGT_0 as Hpi.
  assert (Hu : sinc_arg k D <> 0).
  { unfold sinc_arg. intros E. apply (Rmult_integral_contrapositive_currified k D Hk HD).
    assert (E2 : k * D = (k * D / 2 / PI) * (2 * PI)) by (field; lra). rewrite E2, E. ring. }
  rewrite (sinc_np_neq _ Hu). unfold sinc_arg.
  replace (PI * (k * D / 2 / PI)) with (k * D / 2) by (field; lra).
  field. split; assumption.
Qed.

Lemma box_cos k x D : k <> 0 -> D <> 0 ->
  is_RInt (fun u => cos (k * u)) (x - D / 2) (x + D / 2) (D * (cos (k * x) * sinc_np (sinc_arg k D))).
Proof.
  intros Hk HD. rewrite (sinc_arg_val k D Hk HD).
  replace (D * (cos (k * x) * (2 * sin (k * D / 2) / (k * D))))
    with (sin (k * (x + D / 2)) / k - sin (k * (x - D / 2)) / k).
  - apply int_cos; exact Hk.
  - replace (k * (x + D / 2)) with (k * x + k * D / 2) by field.
    replace (k * (x - D / 2)) with (k * x - k * D / 2) by field.
    rewrite sin_plus, sin_minus. field. split; assumption.
Qed.

Lemma box_sin k x D : k <> 0 -> D <> 0 ->
  is_RInt (fun u => sin (k * u)) (x - D / 2) (x + D / 2) (D * (sin (k * x) * sinc_np (sinc_arg k D))).
Proof.
  intros Hk HD. rewrite (sinc_arg_val k D Hk HD).
  replace (D * (sin (k * x) * (2 * sin (k * D / 2) / (k * D))))
    with (- cos (k * (x + D / 2)) / k - - cos (k * (x - D / 2)) / k).
  - apply int_sin; exact Hk.
  - replace (k * (x + D / 2)) with (k * x + k * D / 2) by field.
    replace (k * (x - D / 2)) with (k * x - k * D / 2) by field.
    rewrite cos_plus, cos_minus. field. split; assumption.
Qed.
Lemma box_cos_all k x D : D <> 0 ->
  is_RInt (fun u => cos (k * u)) (x - D / 2) (x + D / 2) (D * (cos (k * x) * sinc_np (sinc_arg k D))).
Proof.
  intros HD. destruct (Req_EM_T k 0) as [->|Hk]; [|now apply box_cos].
  rewrite (sinc_np_0 (sinc_arg 0 D)) by (unfold sinc_arg; field; apply PI_neq0).
  apply (is_RInt_ext (fun _ => 1)).
  - intros u _. now rewrite Rmult_0_l, cos_0.
  - rewrite Rmult_0_l, cos_0.
    replace (D * (1 * 1)) with (scal (x + D / 2 - (x - D / 2)) 1) by (unfold scal; simpl; unfold mult; simpl; field).
    apply (@is_RInt_const R_NormedModule).
Qed.

Lemma box_sin_all k x D : D <> 0 ->
  is_RInt (fun u => sin (k * u)) (x - D / 2) (x + D / 2) (D * (sin (k * x) * sinc_np (sinc_arg k D))).
Proof.
  intros HD. destruct (Req_EM_T k 0) as [->|Hk]; [|now apply box_sin].
  apply (is_RInt_ext (fun _ => 0)).
  - intros u _. now rewrite Rmult_0_l, sin_0.
  - rewrite Rmult_0_l, sin_0.
    replace (D * (0 * sinc_np (sinc_arg 0 D))) with (scal (x + D / 2 - (x - D / 2)) 0) by (unfold scal; simpl; unfold mult; simpl; ring).
    apply (@is_RInt_const R_NormedModule).
Qed.

(* componentwise integral of a C-valued function *)
Definition CInt (f : R -> C) (a b : R) (I : C) : Prop :=
  is_RInt (fun u => fst (f u)) a b (fst I) /\ is_RInt (fun u => snd (f u)) a b (snd I).

Lemma CInt_pair f a b I : CInt f a b I ->
  is_RInt (V := prod_NormedModule R_AbsRing R_NormedModule R_NormedModule) f a b I.
Proof. intros [H1 H2]. destruct I as [Ir Ii]. exact (is_RInt_fct_extend_pair f a b Ir Ii H1 H2). Qed.

Lemma RInt_zero_R a b : is_RInt (fun _ : R => 0) a b 0.
Proof.
  pose proof (@is_RInt_const R_NormedModule a b 0) as H.
  rewrite (@scal_zero_r _ R_NormedModule) in H. exact H.
Qed.

Lemma CInt_zero a b : CInt (fun _ => RtoC 0) a b (RtoC 0).
Proof. split; simpl; apply RInt_zero_R. Qed.

Lemma CInt_plus f g a b I J : CInt f a b I -> CInt g a b J ->
  CInt (fun u => Cplus (f u) (g u)) a b (Cplus I J).
Proof.
  intros [F1 F2] [G1 G2]. split; simpl.
  - exact (is_RInt_plus (V := R_NormedModule) _ _ a b _ _ F1 G1).
  - exact (is_RInt_plus (V := R_NormedModule) _ _ a b _ _ F2 G2).
Qed.

Lemma CInt_cmul c f a b I : CInt f a b I -> CInt (fun u => Cmult c (f u)) a b (Cmult c I).
Proof.
  intros [F1 F2]. split; simpl.
  - apply (is_RInt_minus (V := R_NormedModule) (fun u => fst c * fst (f u)) (fun u => snd c * snd (f u))).
    + exact (is_RInt_scal (V := R_NormedModule) _ a b (fst c) _ F1).
    + exact (is_RInt_scal (V := R_NormedModule) _ a b (snd c) _ F2).
  - apply (is_RInt_plus (V := R_NormedModule) (fun u => fst c * snd (f u)) (fun u => snd c * fst (f u))).
    + exact (is_RInt_scal (V := R_NormedModule) _ a b (fst c) _ F2).
    + exact (is_RInt_scal (V := R_NormedModule) _ a b (snd c) _ F1).
Qed.

Lemma CInt_ext f g a b I : (forall u, f u = g u) -> CInt f a b I -> CInt g a b I.
Proof.
  intros E [H1 H2]. split.
  - apply (is_RInt_ext (fun u => fst (f u))); [intros; now rewrite E|exact H1].
  - apply (is_RInt_ext (fun u => snd (f u))); [intros; now rewrite E|exact H2].
Qed.

(* the voxel average of the plane wave exp(i k u) *)
Lemma box_cis k x D : D <> 0 ->
  CInt (fun u => cis (k * u)) (x - D / 2) (x + D / 2)
       (Cmult (RtoC D) (Cmult (RtoC (sinc_np (sinc_arg k D))) (cis (k * x)))).
Proof.
  intros HD. split; simpl.
  - replace (D * (sinc_np (sinc_arg k D) * cos (k * x) - 0 * sin (k * x)) -
             0 * (sinc_np (sinc_arg k D) * sin (k * x) + 0 * cos (k * x)))
      with (D * (cos (k * x) * sinc_np (sinc_arg k D))) by ring.
    now apply box_cos_all.
  - replace (D * (sinc_np (sinc_arg k D) * sin (k * x) + 0 * cos (k * x)) +
             0 * (sinc_np (sinc_arg k D) * cos (k * x) - 0 * sin (k * x)))
      with (D * (sin (k * x) * sinc_np (sinc_arg k D))) by ring.
    now apply box_sin_all.
Qed.

(* ================= model level ================= *)

Definition as_point (c : icfg) : icfg :=
  mkCfg Point (vsize c) (tol c) (timed c) (modul c) (phase c) (weight c).
Definition as_box (c : icfg) (ds : list R) : icfg :=
  mkCfg Box ds (tol c) (timed c) (modul c) (phase c) (weight c).

(* everything of a term that does not depend on the position or the voxel *)
Definition coef (c : icfg) (s : pstate) : C := Cmult (Cmult (modfac c s) (sF s)) (wfac c).

Lemma term_split c x s :
  term c x s = Cmult (coef c s) (Cmult (RtoC (form c s)) (cis (kdot (sk s) x))).
Proof. unfold term, coef. ring. Qed.

Lemma coef_as_point c s : coef (as_point c) s = coef c s.
Proof. reflexivity. Qed.
Lemma coef_as_box c ds s : coef (as_box c ds) s = coef c s.
Proof. reflexivity. Qed.

Definition one_column (s : pstate) : Prop := exists k, sk s = [k].

(* box_is_average, whole probe, one spatial dimension, no masking:
   the 'box' value at x is the average over [x - D/2, x + D/2] of the 'point' values *)
Theorem box_is_average_1d c l x D : D <> 0 -> List.Forall one_column l ->
  CInt (fun u => img_all (as_point c) [u] l) (x - D / 2) (x + D / 2)
       (Cmult (RtoC D) (img_all (as_box c [D]) [x] l)).
Proof.
  intros HD Hl. induction Hl as [|s l [k Hk] Hl IH].
  - unfold img_all. simpl. replace (Cmult (RtoC D) (RtoC 0)) with (RtoC 0) by ring. apply CInt_zero.
  - unfold img_all in *. cbn [map sumC].
    replace (Cmult (RtoC D) (Cplus (term (as_box c [D]) [x] s) (sumC (map (term (as_box c [D]) [x]) l))))
      with (Cplus (Cmult (coef c s) (Cmult (RtoC D) (Cmult (RtoC (sinc_np (sinc_arg k D))) (cis (k * x)))))
                  (Cmult (RtoC D) (sumC (map (term (as_box c [D]) [x]) l)))).
    + apply CInt_plus; [|exact IH].
      apply (CInt_ext (fun u => Cmult (coef c s) (cis (k * u)))).
      * intros u. rewrite term_split, coef_as_point. unfold form. cbn [shape as_point]. rewrite Hk. cbn [kdot].
        rewrite Rplus_0_r. ring.
      * apply CInt_cmul. now apply box_cis.
    + rewrite (term_split (as_box c [D])), coef_as_box. unfold form, boxform. cbn [shape vsize as_box]. rewrite Hk.
      cbn [map2 prodR kdot]. rewrite Rplus_0_r, Rmult_1_r. ring.
Qed.

(* two dimensions: the box value is the ITERATED average (axis 1 inside, axis 2 outside) of the point
   values; that the iterated average equals the average for the area measure (Fubini) is not proved *)
Definition two_columns (s : pstate) : Prop := exists k1 k2, sk s = [k1; k2].

Theorem box_is_iterated_average_2d c l x1 x2 D1 D2 : D1 <> 0 -> D2 <> 0 -> List.Forall two_columns l ->
  exists inner : R -> C,
    (forall u2, CInt (fun u1 => img_all (as_point c) [u1; u2] l) (x1 - D1 / 2) (x1 + D1 / 2)
                     (Cmult (RtoC D1) (inner u2))) /\
    CInt inner (x2 - D2 / 2) (x2 + D2 / 2) (Cmult (RtoC D2) (img_all (as_box c [D1; D2]) [x1; x2] l)).
Proof.
  intros H1 H2 Hl. induction Hl as [|s l [k1 [k2 Hk]] Hl [inner [IHa IHb]]].
  - exists (fun _ => RtoC 0). unfold img_all. simpl. split; [intros u2|];
    (replace (Cmult (RtoC _) (RtoC 0)) with (RtoC 0) by ring); apply CInt_zero.
  - exists (fun u2 => Cplus (Cmult (Cmult (coef c s) (Cmult (RtoC (sinc_np (sinc_arg k1 D1))) (cis (k1 * x1))))
                                   (cis (k2 * u2))) (inner u2)).
    unfold img_all in *. cbn [map sumC]. split.
    + intros u2.
      replace (Cmult (RtoC D1) (Cplus (Cmult (Cmult (coef c s) (Cmult (RtoC (sinc_np (sinc_arg k1 D1))) (cis (k1 * x1)))) (cis (k2 * u2))) (inner u2)))
        with (Cplus (Cmult (Cmult (coef c s) (cis (k2 * u2))) (Cmult (RtoC D1) (Cmult (RtoC (sinc_np (sinc_arg k1 D1))) (cis (k1 * x1)))))
                    (Cmult (RtoC D1) (inner u2))) by ring.
      apply CInt_plus; [|exact (IHa u2)].
      apply (CInt_ext (fun u => Cmult (Cmult (coef c s) (cis (k2 * u2))) (cis (k1 * u)))).
      * intros u. rewrite term_split, coef_as_point. unfold form. cbn [shape as_point]. rewrite Hk. cbn [kdot].
        rewrite Rplus_0_r, cis_add. ring.
      * apply CInt_cmul. now apply box_cis.
    + replace (Cmult (RtoC D2) (Cplus (term (as_box c [D1; D2]) [x1; x2] s) (sumC (map (term (as_box c [D1; D2]) [x1; x2]) l))))
        with (Cplus (Cmult (Cmult (coef c s) (Cmult (RtoC (sinc_np (sinc_arg k1 D1))) (cis (k1 * x1))))
                           (Cmult (RtoC D2) (Cmult (RtoC (sinc_np (sinc_arg k2 D2))) (cis (k2 * x2)))))
                    (Cmult (RtoC D2) (sumC (map (term (as_box c [D1; D2]) [x1; x2]) l)))).
      * apply CInt_plus; [|exact IHb]. apply CInt_cmul. now apply box_cis.
      * rewrite (term_split (as_box c [D1; D2])), coef_as_box. unfold form, boxform. cbn [shape vsize as_box]. rewrite Hk.
        cbn [map2 prodR kdot]. rewrite Rplus_0_r, Rmult_1_r, cis_add.
        rewrite (RtoC_mult (sinc_np (sinc_arg k1 D1)) (sinc_np (sinc_arg k2 D2))). ring.
Qed.

(* the product form: one sinc per wavenumber column (definition of the separable average) *)
Lemma boxform_cons d ds k ks : boxform (d :: ds) (k :: ks) = sinc_np (sinc_arg k d) * boxform ds ks.
Proof. reflexivity. Qed.
Lemma kdot_cons k ks x xs : cis (kdot (k :: ks) (x :: xs)) = Cmult (cis (k * x)) (cis (kdot ks xs)).
Proof. cbn [kdot]. apply cis_add. Qed.

(* ---------- masks ---------- *)
Lemma keepb_true c s : keepP c s -> keepb c s = true.
Proof.
  unfold keepP, kkeepP, mkeepP, keepb, kkeepb, mkeepb. intros [Hk Hm].
  destruct (shape c).
  - destruct (modul_eff c); [destruct (Rlt_dec (tol c) (modre c s)); [reflexivity|contradiction]|reflexivity].
  - destruct (Rlt_dec (tol c) (Rabs (form c s))); [|contradiction].
    destruct (modul_eff c); [destruct (Rlt_dec (tol c) (modre c s)); [reflexivity|contradiction]|reflexivity].
Qed.

Lemma keepb_false c s : dropP c s -> keepb c s = false.
Proof.
  unfold dropP, kdropP, mdropP, keepb, kkeepb, mkeepb. intros [Hk|Hm].
  - destruct (shape c); [contradiction|].
    destruct (Rlt_dec (tol c) (Rabs (form c s))); [lra|reflexivity].
  - destruct (modul_eff c); [|contradiction].
    destruct (Rlt_dec (tol c) (modre c s)); [lra|]. apply andb_false_r.
Qed.

Definition mask_ok (c : icfg) (b : bool) (s : pstate) : Prop :=
  (b = true -> keepP c s) /\ (b = false -> dropP c s).

(* what the Interval tie establishes per case, transported to the model's own decision *)
Theorem img_of_masks c x keeps l : Forall2 (mask_ok c) keeps l -> img_list keeps c x l = img c x l.
Proof.
  unfold img. induction 1 as [|b s keeps l [Ht Hf] _ IH]; [reflexivity|].
  cbn [map img_list]. rewrite IH. destruct b.
  - now rewrite (keepb_true c s (Ht eq_refl)).
  - now rewrite (keepb_false c s (Hf eq_refl)).
Qed.

Lemma img_list_all c x l : img_list (map (fun _ => true) l) c x l = img_all c x l.
Proof. unfold img_all. induction l as [|s l IH]; [reflexivity|]. cbn [map img_list sumC]. now rewrite IH. Qed.

Lemma Cmod_cis t : Cmod (cis t) = 1.
Proof.
  unfold Cmod, cis. simpl. rewrite !Rmult_1_r.
  replace (cos t * cos t + sin t * sin t) with 1; [apply sqrt_1|].
  pose proof (sin2_cos2 t) as H. unfold Rsqr in H. lra.
Qed.

Lemma Cmod_RtoC r : Cmod (RtoC r) = Rabs r.
Proof. apply Cmod_R. Qed.

Lemma Cmod_phasefac c : Cmod (phasefac c) = 1.
Proof. unfold phasefac. destruct (phase c); [apply Cmod_cis|]. rewrite Cmod_RtoC. apply Rabs_R1. Qed.
Lemma Cmod_modim c s : Cmod (modim c s) = 1.
Proof.
  unfold modim. destruct (modul_eff c) as [[re [im|]]|]; [apply Cmod_cis| |]; rewrite Cmod_RtoC; apply Rabs_R1.
Qed.
Lemma modre_pos c s : 0 < modre c s.
Proof. unfold modre. destruct (modul_eff c) as [[re im]|]; [apply exp_pos|lra]. Qed.

Lemma Cmod_term c x s :
  Cmod (term c x s) = Rabs (form c s) * modre c s * Cmod (Cmult (wfac c) (sF s)).
Proof.
  unfold term, modfac. rewrite !Cmod_mult, Cmod_cis, Cmod_phasefac, Cmod_modim, !Cmod_RtoC.
  rewrite (Rabs_pos_eq (modre c s)) by (apply Rlt_le, modre_pos). ring.
Qed.

Definition dropped_weight (c : icfg) (keeps : list bool) (l : list pstate) : R :=
  sumR (map2 (fun (b : bool) s => if b then 0 else Cmod (Cmult (wfac c) (sF s))) keeps l).

(* mask_error_bound: dropping states whose |form * mod| <= eps changes the value by at most
   eps * (sum over the dropped states of |w F_j|) *)
Theorem mask_error_bound c x eps keeps l :
  Forall2 (fun (b : bool) s => b = false -> Rabs (form c s) * modre c s <= eps) keeps l ->
  Cmod (Cminus (img_all c x l) (img_list keeps c x l)) <= eps * dropped_weight c keeps l.
Proof.
  unfold img_all, dropped_weight. induction 1 as [|b s keeps l Hb _ IH].
  - simpl. replace (Cminus (RtoC 0) (RtoC 0)) with (RtoC 0) by ring. rewrite Cmod_RtoC, Rabs_R0. lra.
  - cbn [map sumC img_list map2 sumR].
    set (A := sumC (map (term c x) l)) in *. set (B := img_list keeps c x l) in *.
    destruct b.
    + replace (Cminus (Cplus (term c x s) A) (Cplus (term c x s) B)) with (Cminus A B) by ring. lra.
    + replace (Cminus (Cplus (term c x s) A) (Cplus (RtoC 0) B)) with (Cplus (term c x s) (Cminus A B)) by ring.
      eapply Rle_trans; [apply Cmod_triangle|].
      rewrite Cmod_term.
      assert (0 <= Cmod (Cmult (wfac c) (sF s))) by apply Cmod_ge_0.
      specialize (Hb eq_refl). nra.
Qed.

(* |numpy sinc| <= 1, so with a decaying modulation (re <= 0) the source's masks (|form| <= tol or
   exp(|t| re) <= tol, tol <= 1) satisfy the hypothesis of mask_error_bound with eps = tol *)
Lemma Rabs_sin_le x : Rabs (sin x) <= Rabs x.
Proof.
  destruct (Rtotal_order x 0) as [H|[->|H]].
  - rewrite (Rabs_left x H). pose proof (sin_lt_x (- x)) as L. rewrite sin_neg in L.
    pose proof (SIN_bound x). unfold Rabs. destruct (Rcase_abs (sin x)); [lra|].
    destruct (Rle_or_lt (- x) 1); [|lra].
    (* 0 <= sin x with -1 <= x < 0 : impossible unless ... use sin(-x) > 0 *)
    assert (0 < sin (- x)) by (apply sin_gt_0; [lra|pose proof PI_4; pose proof PI2_3_2; lra]).
    rewrite sin_neg in *. lra.
  - rewrite sin_0. lra.
  - rewrite (Rabs_right x) by lra. pose proof (sin_lt_x x H). pose proof (SIN_bound x).
    unfold Rabs. destruct (Rcase_abs (sin x)); [|lra].
    destruct (Rle_or_lt x 1); [|lra].
    assert (0 < sin x) by (apply sin_gt_0; [lra|pose proof PI2_3_2; lra]). lra.
Qed.

Lemma sinc_np_le_1 u : Rabs (sinc_np u) <= 1.
Proof.
  unfold sinc_np. destruct (Req_EM_T u 0); [rewrite Rabs_R1; lra|].
  assert (Hp : PI * u <> 0) by (apply Rmult_integral_contrapositive_currified; [apply PI_neq0|assumption]).
  unfold Rdiv. rewrite Rabs_mult, Rabs_inv.
  apply (Rmult_le_reg_r (Rabs (PI * u))); [now apply Rabs_pos_lt|].
  rewrite Rmult_assoc, Rinv_l, Rmult_1_r, Rmult_1_l by (now apply Rabs_no_R0).
  apply Rabs_sin_le.
Qed.

Lemma boxform_le_1 ds ks : Rabs (boxform ds ks) <= 1.
Proof.
  unfold boxform. revert ds. induction ks as [|k ks IH]; intros [|d ds]; cbn [map2 prodR]; try (rewrite Rabs_R1; lra).
  rewrite Rabs_mult. pose proof (sinc_np_le_1 (sinc_arg k d)). specialize (IH ds).
  pose proof (Rabs_pos (sinc_np (sinc_arg k d))). pose proof (Rabs_pos (prodR (map2 (fun k0 d0 => sinc_np (sinc_arg k0 d0)) ks ds))). nra.
Qed.

Lemma form_le_1 c s : Rabs (form c s) <= 1.
Proof. unfold form. destruct (shape c); [rewrite Rabs_R1; lra|apply boxform_le_1]. Qed.

Definition decaying (c : icfg) : Prop :=
  match modul_eff c with Some (re, _) => re <= 0 | None => True end.

Lemma modre_le_1 c s : decaying c -> modre c s <= 1.
Proof.
  unfold decaying, modre. destruct (modul_eff c) as [[re im]|]; [|lra]. intros Hre.
  rewrite <- exp_0. destruct (Req_EM_T (Rabs (st s) * re) 0) as [->|Hn]; [lra|].
  apply Rlt_le, exp_increasing. pose proof (Rabs_pos (st s)). nra.
Qed.

Theorem mask_error_bound_tol c x keeps l : decaying c -> 0 <= tol c ->
  Forall2 (mask_ok c) keeps l ->
  Cmod (Cminus (img_all c x l) (img c x l)) <= tol c * dropped_weight c keeps l.
Proof.
  intros Hd Ht Hm. rewrite <- (img_of_masks c x keeps l Hm). apply mask_error_bound.
  induction Hm as [|b s keeps l [_ Hf] _ IH]; constructor; [|exact IH].
  intros E. pose proof (form_le_1 c s) as F1. pose proof (modre_le_1 c s Hd) as M1.
  pose proof (modre_pos c s) as M0. pose proof (Rabs_pos (form c s)) as F0.
  destruct (Hf E) as [Hk|Hmm].
  - unfold kdropP in Hk. destruct (shape c); [contradiction|]. nra.
  - unfold mdropP in Hmm. destruct (modul_eff c); [|contradiction]. nra.
Qed.

(* ---------- point voxel, modulation ---------- *)
Definition plain : icfg -> Prop := fun c =>
  shape c = Point /\ modul_eff c = None /\ phase c = None /\ weight c = None.

(* point_is_isochromat: the 'point' probe without options is the plain synthesis sum_j F_j e^{i k_j.x},
   i.e. (C01/C04) the transverse magnetisation of the isochromat at x *)
Theorem point_is_isochromat c x l : plain c ->
  img c x l = sumC (map (fun s => Cmult (sF s) (cis (kdot (sk s) x))) l).
Proof.
  intros (Hs & Hm & Hp & Hw). unfold img.
  induction l as [|s l IH]; [reflexivity|]. cbn [map img_list sumC]. rewrite IH.
  unfold keepb, kkeepb, mkeepb. rewrite Hs, Hm. cbn [andb].
  unfold term, form, modfac, modre, modim, phasefac, wfac. rewrite Hs, Hm, Hp, Hw. f_equal. ring.
Qed.

Definition offres_cfg (c : icfg) (f : R) : Prop :=
  shape c = Point /\ timed c = true /\ modul c = Some (0, Some f) /\ phase c = None /\ weight c = None /\ tol c < 1.

Lemma offres_term c f x s : offres_cfg c f ->
  keepb c s = true /\ term c x s = Cmult (sF s) (cis (kdot (sk s) x + st s * (2 * PI * f))).
Proof.
  intros (Hs & Ht & Hm & Hp & Hw & Htol).
  assert (He : modul_eff c = Some (0, Some f)) by (unfold modul_eff; now rewrite Ht).
  split.
  - unfold keepb, kkeepb, mkeepb, modre. rewrite Hs, He. rewrite Rmult_0_r, exp_0.
    destruct (Rlt_dec (tol c) 1); [reflexivity|contradiction].
  - unfold term, form, modfac, modre, modim, phasefac, wfac. rewrite Hs, He, Hp, Hw.
    rewrite Rmult_0_r, exp_0, cis_add.
    replace (st s * 2 * PI * f) with (st s * (2 * PI * f)) by ring. ring.
Qed.

(* modulation_imag_is_offres (1): with modulation = i f every state carries the t-character of frequency f *)
Theorem modulation_imag_is_offres c f x l : offres_cfg c f ->
  img c x l = sumC (map (fun s => Cmult (sF s) (cis (kdot (sk s) x + st s * (2 * PI * f)))) l).
Proof.
  intros H. unfold img. induction l as [|s l IH]; [reflexivity|]. cbn [map img_list sumC]. rewrite IH.
  destruct (offres_term c f x s H) as [-> ->]. reflexivity.
Qed.

(* (2) ... which is the plain synthesis with the time axis as one more wavenumber column, evaluated at the
   extended position (x, 2 pi f): off-resonance is a position on the time axis *)
Definition lift_time (s : pstate) : pstate := mkPS (sF s) (sk s ++ [st s]) 0.

Lemma kdot_app ks xs t y : length ks = length xs -> kdot (ks ++ [t]) (xs ++ [y]) = kdot ks xs + t * y.
Proof.
  revert xs. induction ks as [|k ks IH]; intros [|x0 xs] H; try discriminate; cbn [app kdot].
  - ring.
  - rewrite IH by (simpl in H; congruence). ring.
Qed.

Theorem modulation_imag_is_time_character c c0 f x l : offres_cfg c f -> plain c0 ->
  List.Forall (fun s => length (sk s) = length x) l ->
  img c x l = img c0 (x ++ [2 * PI * f]) (map lift_time l).
Proof.
  intros H H0 Hl. rewrite (modulation_imag_is_offres c f x l H), (point_is_isochromat c0 _ _ H0).
  induction Hl as [|s l Hs Hl IH]; [reflexivity|]. cbn [map sumC]. rewrite IH. f_equal.
  unfold lift_time. cbn [sF sk]. now rewrite kdot_app.
Qed.

(* (3) one step of the off-resonance semantics: accumulating the time tau on every state (operator C(tau))
   multiplies the probed value by e^{2 pi i f tau} -- what P(tau, g = f) / E(tau, ., ., g = f) do to the
   transverse magnetisation of every isochromat *)
Definition shift_time (tau : R) (s : pstate) : pstate := mkPS (sF s) (sk s) (st s + tau).

Theorem time_shift_is_precession c f x tau l : offres_cfg c f ->
  img c x (map (shift_time tau) l) = Cmult (cis (2 * PI * f * tau)) (img c x l).
Proof.
  intros H. rewrite !(modulation_imag_is_offres c f x _ H).
  induction l as [|s l IH]; [cbn [map sumC]; ring|]. cbn [map sumC]. rewrite IH.
  unfold shift_time at 1 2 3. cbn [sF sk st].
  replace (kdot (sk s) x + (st s + tau) * (2 * PI * f)) with (2 * PI * f * tau + (kdot (sk s) x + st s * (2 * PI * f))) by ring.
  rewrite cis_add. ring.
Qed.

(* modulation_real: a real modulation r multiplies state j by exp(r |t_j|) and nothing else *)
Definition no_modul (c : icfg) : icfg :=
  mkCfg (shape c) (vsize c) (tol c) (timed c) None (phase c) (weight c).
Definition damp (r : R) (s : pstate) : pstate :=
  mkPS (Cmult (RtoC (exp (r * Rabs (st s)))) (sF s)) (sk s) (st s).

Lemma no_modul_eff c : modul_eff (no_modul c) = None.
Proof. unfold modul_eff, no_modul. cbn. now destruct (timed c). Qed.

Theorem modulation_real c r x keeps l : timed c = true -> modul c = Some (r, None) ->
  img_list keeps c x l = img_list keeps (no_modul c) x (map (damp r) l).
Proof.
  intros Ht Hm. assert (He : modul_eff c = Some (r, None)) by (unfold modul_eff; now rewrite Ht).
  revert keeps. induction l as [|s l IH]; intros [|b keeps]; try reflexivity.
  cbn [map img_list]. rewrite IH. f_equal. destruct b; [|reflexivity].
  unfold term, form, modfac, modre, modim, phasefac, wfac. rewrite He, no_modul_eff.
  cbn [shape vsize phase weight no_modul damp sF sk st].
  replace (Rabs (st s) * r) with (r * Rabs (st s)) by ring. ring.
Qed.

(* ---------- weights and reduce ---------- *)
Definition no_weight (c : icfg) : icfg :=
  mkCfg (shape c) (vsize c) (tol c) (timed c) (modul c) (phase c) None.

Theorem weights_scale_output c x keeps l :
  img_list keeps c x l = Cmult (wfac c) (img_list keeps (no_weight c) x l).
Proof.
  revert keeps. induction l as [|s l IH]; intros [|b keeps]; cbn [img_list]; try ring.
  rewrite IH. destruct b; [|ring].
  unfold term. change (form (no_weight c) s) with (form c s). change (modfac (no_weight c) s) with (modfac c s).
  change (wfac (no_weight c)) with (RtoC 1). ring.
Qed.

Lemma sumC_addrows a b : length a = length b -> sumC (addrows a b) = Cplus (sumC a) (sumC b).
Proof.
  revert b. induction a as [|x a IH]; intros [|y b] H; try discriminate; cbn [addrows sumC]; [ring|].
  rewrite IH by (simpl in H; congruence). ring.
Qed.
Lemma length_reduce_ax0 n m : List.Forall (fun r => length r = n) m -> length (reduce_ax0 n m) = n.
Proof.
  induction 1 as [|r m Hr _ IH]; cbn [reduce_ax0]; [apply repeat_length|].
  revert IH. generalize (reduce_ax0 n m). revert Hr. revert n. induction r as [|x r IHr]; intros n Hr [|y q] Hq; simpl in *; try congruence.
  destruct n; [discriminate|]. f_equal. apply IHr; congruence.
Qed.
Lemma sumC_repeat0 n : sumC (repeat (RtoC 0) n) = RtoC 0.
Proof. induction n; cbn [repeat sumC]; [reflexivity|]. rewrite IHn. ring. Qed.

(* reduce_only_sums: reduce=True is the sum of every entry of the un-reduced output; reducing one axis and
   then the other gives the same, in either order; reduce never changes an entry *)
Theorem reduce_only_sums n m : List.Forall (fun r => length r = n) m ->
  reduce_all m = sumC (reduce_ax1 m) /\ reduce_all m = sumC (reduce_ax0 n m).
Proof.
  intros H. split; [reflexivity|]. unfold reduce_all.
  induction H as [|r m Hr Hm IH]; cbn [map sumC reduce_ax0]; [now rewrite sumC_repeat0|].
  rewrite sumC_addrows by (now rewrite length_reduce_ax0). now rewrite IH.
Qed.

(* ---------- Imaging._acquire / System ---------- *)
Theorem args_equal_system base m w x l :
  fst (acquire base (mkOpts m w) (mkSys None None) x l) =
  fst (acquire base (mkOpts None None) (mkSys m w) x l).
Proof. unfold acquire, resolve_cfg, resolve. cbn. destruct m, w; reflexivity. Qed.

Theorem arg_overrides_system base m w sys x l :
  fst (acquire base (mkOpts (Some m) (Some w)) sys x l) =
  fst (acquire base (mkOpts (Some m) (Some w)) (mkSys None None) x l).
Proof. reflexivity. Qed.

(* repeated use of one probe instance: the second acquisition equals the first, and the probe keeps its options *)
Theorem repeated_use_stable base o sys x l :
  let '(v1, v2) := acquire2 base o sys x l in v1 = v2.
Proof. reflexivity. Qed.

Theorem acquire_keeps_options base o sys x l : snd (acquire base o sys x l) = o.
Proof. reflexivity. Qed.

Definition witness_base : icfg := mkCfg Point [] 0 false None None None.

(* non-vacuity of box_is_average_1d *)
Example box_nonvacuous :
  CInt (fun u => img_all (as_point witness_base) [u] [mkPS (RtoC 1) [2] 0]) (1 - 3 / 2) (1 + 3 / 2)
       (Cmult (RtoC 3) (img_all (as_box witness_base [3]) [1] [mkPS (RtoC 1) [2] 0])).
Proof. apply box_is_average_1d; [lra|]. constructor; [now exists 2|constructor]. Qed.

(* ---------- polar form used by the Interval tie ---------- *)
Lemma term_polar_eq c x s : term c x s = term_polar c x s.
Proof.
  unfold term, term_polar, modfac, amp, theta, modim, phasefac.
  destruct (modul_eff c) as [[re [im|]]|]; destruct (phase c) as [p|];
    rewrite ?Rplus_0_r, ?cos_plus, ?sin_plus, ?cos_plus, ?sin_plus; unfold cis; apply C_ext; simpl; ring.
Qed.

Theorem img_list_polar keeps c x l : img_list keeps c x l = img_polar keeps c x l.
Proof.
  revert keeps. induction l as [|s l IH]; intros [|b keeps]; try reflexivity.
  cbn [img_list img_polar]. now rewrite IH, term_polar_eq.
Qed.

(* ---------- box_is_average in RInt form (statement as in the property) ---------- *)
Theorem box_is_average_cos k x D : D <> 0 ->
  RInt (fun u => cos (k * u)) (x - D / 2) (x + D / 2) / D = cos (k * x) * sinc_np (k * D / 2 / PI).
Proof.
  intros HD. rewrite (is_RInt_unique _ _ _ _ (box_cos_all k x D HD)). unfold sinc_arg. field. exact HD.
Qed.

Theorem box_is_average_sin k x D : D <> 0 ->
  RInt (fun u => sin (k * u)) (x - D / 2) (x + D / 2) / D = sin (k * x) * sinc_np (k * D / 2 / PI).
Proof.
  intros HD. rewrite (is_RInt_unique _ _ _ _ (box_sin_all k x D HD)). unfold sinc_arg. field. exact HD.
Qed.

(* k = 0: the form factor is 1 *)
Theorem box_is_average_k0 x D : D <> 0 ->
  RInt (fun u => cos (0 * u)) (x - D / 2) (x + D / 2) / D = 1 /\ sinc_np (0 * D / 2 / PI) = 1.
Proof.
  intros HD. split.
  - rewrite (box_is_average_cos 0 x D HD), Rmult_0_l, cos_0.
    rewrite sinc_np_0; [ring|unfold Rdiv; ring].
  - apply sinc_np_0. unfold Rdiv; ring.
Qed.

(* the complex plane wave, as one integral with values in the normed module R x R (= C) *)
Theorem box_is_average_cis k x D : D <> 0 ->
  is_RInt (V := prod_NormedModule R_AbsRing R_NormedModule R_NormedModule)
       (fun u => cis (k * u)) (x - D / 2) (x + D / 2)
       (Cmult (RtoC D) (Cmult (RtoC (sinc_np (k * D / 2 / PI))) (cis (k * x)))).
Proof. intros HD. exact (CInt_pair _ _ _ _ (box_cis k x D HD)). Qed.
