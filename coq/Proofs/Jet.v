(* C02, analysis: forward-mode soundness of the plain simulation.
   A family of programs x |-> prog(x) over C whose coefficient arrays are differentiable at x0 and the
   ONE program over the dual numbers C[e]/(e^2) made of the 1-jets (value, derivative) of those arrays:
   every phase state of the plain run over the duals is the 1-jet at x0 of the corresponding phase state
   of the family (value part = state at x0, dual part = d/dx at x0).  With Proofs/DiffPoint.v (the
   bookkeeping of diff.py over C computes the dual part) this gives: the Jacobian entry computed by
   diff.py IS the derivative of the simulated signal -- theorem jacobian_is_derivative. *)
From Coq Require Import List ZArith Lia Bool Reals.
From Coquelicot Require Import Coquelicot.
From EPG Require Import Scalar State Ops ListLemmas Views Diff DiffLemmas DiffExact DiffPoint Dual CInst CDeriv.
Import ListNotations.

Definition DC : ScalOps := DualOps Cops.
Definition DCLaws : ScalLaws DC := DualLaws Cops Claws.
Definition jv (x : DC) : Cops := fst x.    (* value part *)
Definition jd (x : DC) : Cops := snd x.    (* dual part *)

Lemma jv_0 : jv k0 = k0. Proof. reflexivity. Qed.
Lemma jv_add x y : jv (x + y)%K = (jv x + jv y)%K. Proof. reflexivity. Qed.
Lemma jv_mul x y : jv (x * y)%K = (jv x * jv y)%K. Proof. reflexivity. Qed.
Lemma jd_add x y : jd (x + y)%K = (jd x + jd y)%K. Proof. reflexivity. Qed.
Lemma jd_mul x y : jd (x * y)%K = (jd x * jv y + jv x * jd y)%K.
Proof. unfold jd, jv. simpl. cnorm. ring. Qed.

Notation vT := (evT DC Cops jv).
Notation dT := (dvT DC Cops jd).
Notation vM := (evM DC Cops jv).
Notation dM := (dvM DC Cops jd).

Lemma derT_eq f x l l' : l = l' -> derT f x l -> derT f x l'.
Proof. now intros ->. Qed.

Lemma derT_tadd (a b : R -> triple Cops) x la lb : derT a x la -> derT b x lb ->
  derT (fun t => tadd (a t) (b t)) x (tadd la lb).
Proof.
  intros (A1 & A2 & A3) (B1 & B2 & B3). unfold derT, tadd. cbn [fp fm fz].
  change (@kadd Cops) with Cplus.
  split; [|split].
  - exact (derC_plus _ _ x _ _ A1 B1).
  - exact (derC_plus _ _ x _ _ A2 B2).
  - exact (derC_plus _ _ x _ _ A3 B3).
Qed.

Lemma derT_mv (M : R -> mat3 Cops) (u : R -> triple Cops) x lM lu : derM M x lM -> derT u x lu ->
  derT (fun t => mv (M t) (u t)) x (tadd (mv lM (u x)) (mv (M x) lu)).
Proof.
  intros (M0 & M1 & M2) Hu. unfold mv, derT, tadd. cbn [fp fm fz].
  change (@kadd Cops) with Cplus.
  split; [|split].
  - exact (derC_dot _ u x _ lu M0 Hu).
  - exact (derC_dot _ u x _ lu M1 Hu).
  - exact (derC_dot _ u x _ lu M2 Hu).
Qed.

Lemma derT_lact (M M0 : R -> mat3 Cops) (u e : R -> triple Cops) x lM lM0 lu le :
  derM M x lM -> derM M0 x lM0 -> derT u x lu -> derT e x le ->
  derT (fun t => lact Cops (M t) (M0 t) (u t) (e t)) x
       (tadd (lact Cops lM lM0 (u x) (e x)) (lact Cops (M x) (M0 x) lu le)).
Proof.
  intros HM HM0 Hu He. unfold lact.
  pose proof (derT_tadd _ _ x _ _ (derT_mv M u x lM lu HM Hu) (derT_mv M0 e x lM0 le HM0 He)) as P.
  eapply derT_eq; [|exact P].
  apply (triple_ext Cops); unfold tadd; cbn [fp fm fz]; cnorm; ring.
Qed.

Section Jet.
Variable x0 : R.

Definition jetC (f : R -> C) (j : DC) : Prop := f x0 = jv j /\ derC f x0 (jd j).
Definition jetT (f : R -> triple Cops) (j : triple DC) : Prop :=
  jetC (fun t => fp (f t)) (fp j) /\ jetC (fun t => fm (f t)) (fm j) /\ jetC (fun t => fz (f t)) (fz j).
Definition jetM (f : R -> mat3 Cops) (j : mat3 DC) : Prop :=
  jetT (fun t => row0 (f t)) (row0 j) /\ jetT (fun t => row1 (f t)) (row1 j) /\ jetT (fun t => row2 (f t)) (row2 j).

Lemma jetT_split f j : jetT f j <-> (f x0 = vT j /\ derT f x0 (dT j)).
Proof.
  unfold jetT, jetC, derT. split.
  - intros ((A1 & A2) & (B1 & B2) & (C1 & C2)). split.
    + apply (triple_ext Cops); assumption.
    + split; [|split]; assumption.
  - intros (V & D1 & D2 & D3). rewrite V. split; [|split]; split; try reflexivity; assumption.
Qed.
Lemma jetM_split f j : jetM f j <-> (f x0 = vM j /\ derM f x0 (dM j)).
Proof.
  unfold jetM, derM. rewrite !jetT_split. split.
  - intros ((A1 & A2) & (B1 & B2) & (C1 & C2)). split.
    + destruct (f x0) as [r0 r1 r2]. cbn [row0 row1 row2] in *. unfold evM. now rewrite A1, B1, C1.
    + split; [|split]; assumption.
  - intros (V & D1 & D2 & D3). rewrite V. split; [|split]; split; try reflexivity; assumption.
Qed.

Lemma jetC_const (c : C) : jetC (fun _ => c) ((c, RtoC 0) : DC).
Proof. split; [reflexivity|]. exact (derC_const c x0). Qed.
Lemma jetT_t0 : jetT (fun _ => t0) t0.
Proof. split; [|split]; exact (jetC_const (RtoC 0)). Qed.
Lemma jetT_ext f g j : (forall t, f t = g t) -> jetT f j -> jetT g j.
Proof.
  intros H. rewrite !jetT_split. intros [V D]. split; [now rewrite <- H|].
  exact (derT_ext f g x0 _ H D).
Qed.

Lemma jet_lact M M0 u e jM jM0 ju je :
  jetM M jM -> jetM M0 jM0 -> jetT u ju -> jetT e je ->
  jetT (fun t => lact Cops (M t) (M0 t) (u t) (e t)) (lact DC jM jM0 ju je).
Proof.
  rewrite !jetM_split, !jetT_split. intros [VM DM] [VM0 DM0] [Vu Du] [Ve De]. split.
  - rewrite (evT_lact DC Cops Claws jv jv_add jv_mul). now rewrite VM, VM0, Vu, Ve.
  - rewrite (dvT_lact DC Cops Claws jv jd jd_add jd_mul).
    rewrite <- VM, <- VM0, <- Vu, <- Ve.
    exact (derT_lact M M0 u e x0 _ _ _ _ DM DM0 Du De).
Qed.

Lemma jetM_mdiag a ja : jetT a ja -> jetM (fun t => mdiag (a t)) (mdiag ja).
Proof.
  intros (A & B & C). pose proof (jetC_const (RtoC 0)) as Z.
  unfold jetM, mdiag, jetT. cbn [row0 row1 row2 fp fm fz].
  split; [|split]; (split; [|split]); assumption.
Qed.
Lemma jetM_mzero : jetM (fun _ => mzero Cops) (mzero DC).
Proof. split; [|split]; exact jetT_t0. Qed.

(* ---------------- families of programs and their jet program ---------------- *)
Inductive fop : Type :=
| FScalar (a : R -> triple Cops) (a0 : option (R -> triple Cops))
| FMatrix (m : R -> mat3 Cops) (m0 : option (R -> mat3 Cops))
| FShift (d : Z) (nm : option nat)
| FPD (p : C) (r : bool)
| FSpoil
| FReset
| FWait.

Definition inst (f : fop) (x : R) : op Cops :=
  match f with
  | FScalar a a0 => OScalar (a x) (option_map (fun g => g x) a0)
  | FMatrix m m0 => OMatrix (m x) (option_map (fun g => g x) m0)
  | FShift d nm => OShift d nm
  | FPD p r => @OPD Cops p r
  | FSpoil => OSpoil
  | FReset => OReset
  | FWait => OWait
  end.

Definition ojet {A B} (Rel : A -> B -> Prop) (a : option A) (b : option B) : Prop :=
  match a, b with Some x, Some y => Rel x y | None, None => True | _, _ => False end.

Definition is_jet (f : fop) (o : op DC) : Prop :=
  match f, o with
  | FScalar a a0, OScalar ja ja0 => jetT a ja /\ ojet jetT a0 ja0
  | FMatrix m m0, OMatrix jm jm0 => jetM m jm /\ ojet jetM m0 jm0
  | FShift d nm, OShift d' nm' => d = d' /\ nm = nm'
  | FPD p r, OPD jp r' => jp = ((p, RtoC 0) : DC) /\ r = r'
  | FSpoil, OSpoil => True
  | FReset, OReset => True
  | FWait, OWait => True
  | _, _ => False
  end.

Definition jinv (n : nat) (sf : R -> sm Cops) (sj : sm DC) : Prop :=
  (forall x, shaped Cops (sf x) n) /\ shaped DC sj n /\
  (forall k, jetT (fun x => get Cops (sf x) k) (get DC sj k)) /\
  (forall k, jetT (fun x => gete Cops (sf x) k) (gete DC sj k)).

Lemma jet_resize sf sj n n' : (forall x, shaped Cops (sf x) n) -> shaped DC sj n ->
  (forall k, jetT (fun x => get Cops (sf x) k) (get DC sj k)) ->
  forall k, jetT (fun x => get Cops (resize (sf x) n') k) (get DC (resize sj n') k).
Proof.
  intros Hf Hj H k. rewrite (get_resize DC sj n n' k Hj).
  apply (jetT_ext (fun x => if inwin n' k then get Cops (sf x) k else t0)).
  - intros t. now rewrite (get_resize Cops (sf t) n n' k (Hf t)).
  - destruct (inwin n' k); [apply H|apply jetT_t0].
Qed.
Lemma jete_resize sf sj n n' : (forall x, shaped Cops (sf x) n) -> shaped DC sj n ->
  (forall k, jetT (fun x => gete Cops (sf x) k) (gete DC sj k)) ->
  forall k, jetT (fun x => gete Cops (resize (sf x) n') k) (gete DC (resize sj n') k).
Proof.
  intros Hf Hj H k. rewrite (gete_resize DC sj n n' k Hj).
  apply (jetT_ext (fun x => if inwin n' k then gete Cops (sf x) k else t0)).
  - intros t. now rewrite (gete_resize Cops (sf t) n n' k (Hf t)).
  - destruct (inwin n' k); [apply H|apply jetT_t0].
Qed.

Lemma jet_lin_step n sf sj (lf : R -> lin Cops) (lj : lin DC) :
  (forall x, is_shift Cops (lf x) = false) -> is_shift DC lj = false ->
  jetM (fun x => lmat Cops (lf x)) (lmat DC lj) -> jetM (fun x => lmat0 Cops (lf x)) (lmat0 DC lj) ->
  jinv n sf sj -> jinv n (fun x => apply_lin (lf x) (sf x)) (apply_lin lj sj).
Proof.
  intros Hlf Hlj HM HM0 (Hf & Hj & Hg & He).
  split; [|split; [|split]].
  - intros x. apply lin_shaped; auto.
  - apply lin_shaped; auto.
  - intros k. rewrite (get_lin DC DCLaws lj sj n k Hlj Hj).
    apply (jetT_ext (fun x => lact Cops (lmat Cops (lf x)) (lmat0 Cops (lf x)) (get Cops (sf x) k) (gete Cops (sf x) k))).
    + intros t. now rewrite (get_lin Cops Claws (lf t) (sf t) n k (Hlf t) (Hf t)).
    + exact (jet_lact _ _ _ _ _ _ _ _ HM HM0 (Hg k) (He k)).
  - intros k. rewrite (gete_lin DC lj sj k Hlj).
    apply (jetT_ext (fun x => gete Cops (sf x) k)); [|apply He].
    intros t. now rewrite (gete_lin Cops (lf t) (sf t) k (Hlf t)).
Qed.

Lemma jet_step n f o sf sj : is_jet f o -> jinv n sf sj ->
  jinv (op_n DC o n) (fun x => apply (inst f x) (sf x)) (apply o sj).
Proof.
  intros Hj Hinv.
  destruct f as [a a0|m m0|d nm|p r| | |]; destruct o as [ja ja0|jm jm0|d' nm'| | |jp r'|]; cbn [is_jet] in Hj; try contradiction.
  - (* ScalarOp *)
    destruct Hj as [Ha Ha0]. cbn [op_n inst apply].
    apply (jet_lin_step n sf sj (fun x => LScalar (a x) (option_map (fun g => g x) a0)) (LScalar ja ja0)); auto.
    + cbn [lmat]. now apply jetM_mdiag.
    + destruct a0 as [b|], ja0 as [jb|]; cbn [ojet option_map lmat0] in *; try contradiction.
      * now apply jetM_mdiag.
      * exact jetM_mzero.
  - (* MatrixOp *)
    destruct Hj as [Hm Hm0]. cbn [op_n inst apply].
    apply (jet_lin_step n sf sj (fun x => LMatrix (m x) (option_map (fun g => g x) m0)) (LMatrix jm jm0)); auto.
    destruct m0 as [b|], jm0 as [jb|]; cbn [ojet option_map lmat0] in *; try contradiction; auto.
    exact jetM_mzero.
  - (* shift *)
    destruct Hj as [<- <-]. destruct Hinv as (Hf & Hs & Hg & He). cbn [op_n inst apply].
    split; [|split; [|split]].
    + intros x. now apply shift_shaped.
    + now apply shift_shaped.
    + intros k. rewrite (get_shift DC d nm sj n k Hs). cbv zeta.
      pose proof (jet_resize sf sj n (shift_n d nm n) Hf Hs Hg) as Rz.
      apply (jetT_ext (fun x => if inwin (shift_n d nm n) k
               then mk3 (fp (get Cops (resize (sf x) (shift_n d nm n)) (k - d)))
                        (fm (get Cops (resize (sf x) (shift_n d nm n)) (k + d)))
                        (fz (get Cops (resize (sf x) (shift_n d nm n)) k)) else t0)).
      * intros t. now rewrite (get_shift Cops d nm (sf t) n k (Hf t)).
      * destruct (inwin (shift_n d nm n) k); [|apply jetT_t0].
        destruct (Rz (k - d)%Z) as (A & _ & _). destruct (Rz (k + d)%Z) as (_ & B & _). destruct (Rz k) as (_ & _ & C).
        split; [|split]; cbn [fp fm fz]; assumption.
    + intros k. rewrite (gete_shift DC d nm sj n k Hs).
      apply (jetT_ext (fun x => gete Cops (resize (sf x) (shift_n d nm n)) k)).
      * intros t. now rewrite (gete_shift Cops d nm (sf t) n k (Hf t)).
      * exact (jete_resize sf sj n _ Hf Hs He k).
  - (* PD(pd, reset): the density is a constant *)
    destruct Hj as [-> <-]. destruct Hinv as (Hf & Hs & Hg & He). cbn [op_n inst apply].
    assert (Jc : forall k : Z, jetT (fun _ : R => if (k =? 0)%Z then @mk3 Cops (RtoC 0) (RtoC 0) p else t0)
                                  (if (k =? 0)%Z then @mk3 DC k0 k0 ((p, RtoC 0) : DC) else t0)).
    { intros k. destruct (k =? 0)%Z; [|apply jetT_t0].
      split; [|split]; cbn [fp fm fz]; [exact (jetC_const (RtoC 0))|exact (jetC_const (RtoC 0))|exact (jetC_const p)]. }
    split; [|split; [|split]].
    + intros x. now apply pd_shaped.
    + now apply pd_shaped.
    + intros k. rewrite (get_pd DC _ r sj n k Hs). destruct r.
      * apply (jetT_ext (fun x => if (k =? 0)%Z then @mk3 Cops (RtoC 0) (RtoC 0) p else t0)); [|apply Jc].
        intros t. now rewrite (get_pd Cops p true (sf t) n k (Hf t)).
      * apply (jetT_ext (fun x => get Cops (sf x) k)); [|apply Hg].
        intros t. now rewrite (get_pd Cops p false (sf t) n k (Hf t)).
    + intros k. rewrite (gete_pd DC _ r sj n k Hs).
      apply (jetT_ext (fun x => if (k =? 0)%Z then @mk3 Cops (RtoC 0) (RtoC 0) p else t0)); [|apply Jc].
      intros t. now rewrite (gete_pd Cops p r (sf t) n k (Hf t)).
  - (* SPOILER *)
    destruct Hinv as (Hf & Hs & Hg & He). cbn [op_n inst apply].
    split; [|split; [|split]].
    + intros x. now apply spoil_shaped.
    + now apply spoil_shaped.
    + intros k. rewrite (get_spoil DC sj k).
      apply (jetT_ext (fun x => @mk3 Cops (RtoC 0) (RtoC 0) (fz (get Cops (sf x) k)))).
      * intros t. now rewrite (get_spoil Cops (sf t) k).
      * destruct (Hg k) as (_ & _ & C3).
        split; [|split]; cbn [fp fm fz]; [exact (jetC_const (RtoC 0))|exact (jetC_const (RtoC 0))|exact C3].
    + exact He.
  - (* RESET *)
    destruct Hinv as (Hf & Hs & Hg & He). cbn [op_n inst apply].
    split; [|split; [|split]].
    + intros x. now apply (reset_shaped Cops (sf x) n).
    + now apply (reset_shaped DC sj n).
    + intros k. rewrite (get_reset DC sj n k Hs).
      apply (jetT_ext (fun x => if (k =? 0)%Z then gete Cops (sf x) 0 else t0)).
      * intros t. now rewrite (get_reset Cops (sf t) n k (Hf t)).
      * destruct (k =? 0)%Z; [apply He|apply jetT_t0].
    + intros k. rewrite (gete_reset DC sj n k Hs).
      apply (jetT_ext (fun x => if (k =? 0)%Z then gete Cops (sf x) 0 else t0)).
      * intros t. now rewrite (gete_reset Cops (sf t) n k (Hf t)).
      * destruct (k =? 0)%Z; [apply He|apply jetT_t0].
  - (* Wait *)
    exact Hinv.
Qed.

Definition frun (fprog : list fop) (x : R) (s : sm Cops) : sm Cops := run (map (fun f => inst f x) fprog) s.

Lemma jet_run fprog jprog : Forall2 is_jet fprog jprog -> forall n sf sj, jinv n sf sj ->
  exists n', jinv n' (fun x => frun fprog x (sf x)) (run jprog sj).
Proof.
  intros H. induction H as [|f o fp jp Hj _ IH]; intros n sf sj Hinv.
  - exists n. exact Hinv.
  - destruct (IH _ _ _ (jet_step n f o sf sj Hj Hinv)) as [n' Hn']. exists n'.
    unfold frun, run in *. cbn [map fold_left]. exact Hn'.
Qed.

Lemma jinv_init (pd : C) : jinv 0 (fun _ => @init Cops pd) (@init DC ((pd, RtoC 0) : DC)).
Proof.
  unfold jinv, init. split; [intros _; split; reflexivity|split; [split; reflexivity|split]].
  - intros k. unfold Views.get. cbn [st]. rewrite !getZ_single.
    destruct (k =? 0)%Z; [|apply jetT_t0].
    split; [|split]; cbn [fp fm fz]; [exact (jetC_const (RtoC 0))|exact (jetC_const (RtoC 0))|exact (jetC_const pd)].
  - intros k. unfold Views.gete. cbn [equ]. rewrite !getZ_single.
    destruct (k =? 0)%Z; [|apply jetT_t0].
    split; [|split]; cbn [fp fm fz]; [exact (jetC_const (RtoC 0))|exact (jetC_const (RtoC 0))|exact (jetC_const pd)].
Qed.

(* the plain run over the duals carries the 1-jet of the signal *)
Theorem signal_jet fprog jprog pd : Forall2 is_jet fprog jprog ->
  jetC (fun x => f0 Cops (frun fprog x (@init Cops pd))) (f0 DC (run jprog (@init DC ((pd, RtoC 0) : DC)))).
Proof.
  intros H. destruct (jet_run fprog jprog H 0 _ _ (jinv_init pd)) as (n & Hf & Hs & Hg & _).
  destruct (Hg 0%Z) as ((V & D) & _).
  pose proof (f0_get DC _ n Hs) as E.
  split.
  - rewrite (f0_get Cops _ n (Hf x0)). etransitivity; [exact V|]. apply (f_equal jv). symmetry. exact E.
  - eapply derC_eq; [apply (f_equal jd); symmetry; exact E|].
    apply (derC_ext (fun x => fp (get Cops (frun fprog x (@init Cops pd)) 0))); [|exact D].
    intros t. now rewrite (f0_get Cops _ n (Hf t)).
Qed.

(* ---------------- composition with the bookkeeping of diff.py ---------------- *)
Theorem jacobian_is_derivative (v : var) fprog jprog (prog2 : list (dinstr Cops)) (pd : C) :
  Forall2 is_jet fprog jprog ->
  Forall2 (pair_ok DC Cops jv jd v) jprog prog2 ->
  let ds := drun prog2 (dinit (@init Cops pd)) in
  exists j, jacobian ds [v] = [j] /\
            derC (fun x => f0 Cops (frun fprog x (@init Cops pd))) x0 j /\
            f0 Cops (d_main ds) = f0 Cops (frun fprog x0 (@init Cops pd)).
Proof.
  intros Hjet Hpair ds.
  destruct (jacobian_point DC Cops DCLaws Claws jv jd jv_0 jv_add jv_mul jd_add jd_mul v jprog prog2
              ((pd, RtoC 0) : DC) eq_refl Hpair) as [J F].
  destruct (signal_jet fprog jprog pd Hjet) as [V D].
  exists (jd (f0 DC (run jprog (@init DC ((pd, RtoC 0) : DC))))). split; [exact J|split; [exact D|]].
  rewrite V. exact F.
Qed.

End Jet.
