(* C03, analysis: forward-mode soundness of the plain simulation at SECOND order.
   Part A (generic): for any family index type I, any ring J and any relation  jC : (I -> C) -> J -> Prop
   ("j is the jet of the C-valued family f") that contains the constants and is closed under sums and
   products, every phase state of the plain run over J of the jet program is the jet of the
   corresponding phase state of the family of runs over C  (induction over programs on the function view).
   Part B: J = double dual numbers over C,  a + ax e1 + ay e2 + axy e1e2  (e1^2 = e2^2 = 0) with
     - the MIXED 2-jet at (x0, y0) of a family f(x, y):  a = f(x0,y0), ax = d/dx f(.,y0) at x0,
       ay = fy(x0), axy = d/dx fy at x0, where fy(x) = d/dy f(x,.) at y0 for x near x0;
     - the DIAGONAL 2-jet at x0 of a family f(x): a = f(x0), ax = ay = f'(x0), axy = f''(x0), where
       f' is the derivative of f near x0
   (Coquelicot is_derive on real and imaginary part).  Both are closed under sums and products.
   Part C: with Proofs/DiffPoint2.v (the bookkeeping of diff.py over C computes the e1e2 part of the plain
   run over the double duals) this gives: the Hessian entry computed by diff.py IS the second (mixed)
   derivative of the simulated signal -- theorems hessian_is_mixed_derivative, hessian_is_second_derivative. *)
From Coq Require Import List ZArith Lia Bool Reals Lra.
From Coquelicot Require Import Coquelicot.
From EPG Require Import Scalar State Ops ListLemmas Views Diff DiffLemmas DiffExact DiffPoint DiffPoint2
  Dual CInst CDeriv Jet.
Import ListNotations.

(* ================================================================================== *)
(* Part A: generic jets                                                               *)
(* ================================================================================== *)
Section GenJet.
Variable I : Type.
Variable J : ScalOps.
Hypothesis LJ : ScalLaws J.
Variable jC : (I -> C) -> J -> Prop.
Variable inj : C -> J.
Hypothesis inj_0 : inj (RtoC 0) = k0.
Hypothesis jC_const : forall c, jC (fun _ => c) (inj c).
Hypothesis jC_plus : forall f g a b, jC f a -> jC g b -> jC (fun i => Cplus (f i) (g i)) (a + b)%K.
Hypothesis jC_mult : forall f g a b, jC f a -> jC g b -> jC (fun i => Cmult (f i) (g i)) (a * b)%K.
Hypothesis jC_ext : forall f g a, (forall i, f i = g i) -> jC f a -> jC g a.

Definition jT (f : I -> triple Cops) (j : triple J) : Prop :=
  jC (fun i => fp (f i)) (fp j) /\ jC (fun i => fm (f i)) (fm j) /\ jC (fun i => fz (f i)) (fz j).
Definition jM (f : I -> mat3 Cops) (j : mat3 J) : Prop :=
  jT (fun i => row0 (f i)) (row0 j) /\ jT (fun i => row1 (f i)) (row1 j) /\ jT (fun i => row2 (f i)) (row2 j).

Lemma jC_0 : jC (fun _ => RtoC 0) k0.
Proof. rewrite <- inj_0. exact (jC_const (RtoC 0)). Qed.
Lemma jT_t0 : jT (fun _ => t0) t0.
Proof. split; [|split]; exact jC_0. Qed.
Lemma jT_ext f g j : (forall i, f i = g i) -> jT f j -> jT g j.
Proof.
  intros H (A & B & D). split; [|split].
  - exact (jC_ext _ _ _ (fun i => f_equal fp (H i)) A).
  - exact (jC_ext _ _ _ (fun i => f_equal fm (H i)) B).
  - exact (jC_ext _ _ _ (fun i => f_equal fz (H i)) D).
Qed.

Lemma jC_dot (a b : I -> triple Cops) ja jb : jT a ja -> jT b jb ->
  jC (fun i => @dot Cops (a i) (b i)) (dot ja jb).
Proof.
  intros (A1 & A2 & A3) (B1 & B2 & B3). unfold dot.
  exact (jC_plus _ _ _ _ (jC_plus _ _ _ _ (jC_mult _ _ _ _ A1 B1) (jC_mult _ _ _ _ A2 B2)) (jC_mult _ _ _ _ A3 B3)).
Qed.
Lemma jT_mv (M : I -> mat3 Cops) (u : I -> triple Cops) jm ju : jM M jm -> jT u ju ->
  jT (fun i => mv (M i) (u i)) (mv jm ju).
Proof.
  intros (M0 & M1 & M2) Hu. unfold mv, jT. cbn [fp fm fz].
  split; [|split].
  - exact (jC_dot _ u _ ju M0 Hu).
  - exact (jC_dot _ u _ ju M1 Hu).
  - exact (jC_dot _ u _ ju M2 Hu).
Qed.
Lemma jT_tadd (a b : I -> triple Cops) ja jb : jT a ja -> jT b jb ->
  jT (fun i => tadd (a i) (b i)) (tadd ja jb).
Proof.
  intros (A1 & A2 & A3) (B1 & B2 & B3). unfold tadd, jT. cbn [fp fm fz].
  split; [|split].
  - exact (jC_plus _ _ _ _ A1 B1).
  - exact (jC_plus _ _ _ _ A2 B2).
  - exact (jC_plus _ _ _ _ A3 B3).
Qed.
Lemma j_lact M M0 u e jm jm0 ju je : jM M jm -> jM M0 jm0 -> jT u ju -> jT e je ->
  jT (fun i => lact Cops (M i) (M0 i) (u i) (e i)) (lact J jm jm0 ju je).
Proof.
  intros HM HM0 Hu He. unfold lact.
  exact (jT_tadd _ _ _ _ (jT_mv M u jm ju HM Hu) (jT_mv M0 e jm0 je HM0 He)).
Qed.

Lemma jM_mdiag a ja : jT a ja -> jM (fun i => mdiag (a i)) (mdiag ja).
Proof.
  intros (A & B & D). pose proof jC_0 as Z.
  unfold jM, mdiag, jT. cbn [row0 row1 row2 fp fm fz].
  split; [|split]; (split; [|split]); assumption.
Qed.
Lemma jM_mzero : jM (fun _ => mzero Cops) (mzero J).
Proof. split; [|split]; exact jT_t0. Qed.

(* ---------------- families of programs and their jet program ---------------- *)
Inductive fop : Type :=
| FScalar (a : I -> triple Cops) (a0 : option (I -> triple Cops))
| FMatrix (m : I -> mat3 Cops) (m0 : option (I -> mat3 Cops))
| FShift (d : Z) (nm : option nat)
| FPD (p : C) (r : bool)
| FSpoil
| FReset
| FWait.

Definition inst (f : fop) (x : I) : op Cops :=
  match f with
  | FScalar a a0 => OScalar (a x) (option_map (fun g => g x) a0)
  | FMatrix m m0 => OMatrix (m x) (option_map (fun g => g x) m0)
  | FShift d nm => OShift d nm
  | FPD p r => @OPD Cops p r
  | FSpoil => OSpoil
  | FReset => OReset
  | FWait => OWait
  end.

Definition is_jet (f : fop) (o : op J) : Prop :=
  match f, o with
  | FScalar a a0, OScalar ja ja0 => jT a ja /\ ojet jT a0 ja0
  | FMatrix m m0, OMatrix jm jm0 => jM m jm /\ ojet jM m0 jm0
  | FShift d nm, OShift d' nm' => d = d' /\ nm = nm'
  | FPD p r, OPD jp r' => jp = inj p /\ r = r'
  | FSpoil, OSpoil => True
  | FReset, OReset => True
  | FWait, OWait => True
  | _, _ => False
  end.

Definition jinv (n : nat) (sf : I -> sm Cops) (sj : sm J) : Prop :=
  (forall x, shaped Cops (sf x) n) /\ shaped J sj n /\
  (forall k, jT (fun x => get Cops (sf x) k) (get J sj k)) /\
  (forall k, jT (fun x => gete Cops (sf x) k) (gete J sj k)).

Lemma j_resize sf sj n n' : (forall x, shaped Cops (sf x) n) -> shaped J sj n ->
  (forall k, jT (fun x => get Cops (sf x) k) (get J sj k)) ->
  forall k, jT (fun x => get Cops (resize (sf x) n') k) (get J (resize sj n') k).
Proof.
  intros Hf Hj H k. rewrite (get_resize J sj n n' k Hj).
  apply (jT_ext (fun x => if inwin n' k then get Cops (sf x) k else t0)).
  - intros t. now rewrite (get_resize Cops (sf t) n n' k (Hf t)).
  - destruct (inwin n' k); [apply H|apply jT_t0].
Qed.
Lemma je_resize sf sj n n' : (forall x, shaped Cops (sf x) n) -> shaped J sj n ->
  (forall k, jT (fun x => gete Cops (sf x) k) (gete J sj k)) ->
  forall k, jT (fun x => gete Cops (resize (sf x) n') k) (gete J (resize sj n') k).
Proof.
  intros Hf Hj H k. rewrite (gete_resize J sj n n' k Hj).
  apply (jT_ext (fun x => if inwin n' k then gete Cops (sf x) k else t0)).
  - intros t. now rewrite (gete_resize Cops (sf t) n n' k (Hf t)).
  - destruct (inwin n' k); [apply H|apply jT_t0].
Qed.

Lemma j_lin_step n sf sj (lf : I -> lin Cops) (lj : lin J) :
  (forall x, is_shift Cops (lf x) = false) -> is_shift J lj = false ->
  jM (fun x => lmat Cops (lf x)) (lmat J lj) -> jM (fun x => lmat0 Cops (lf x)) (lmat0 J lj) ->
  jinv n sf sj -> jinv n (fun x => apply_lin (lf x) (sf x)) (apply_lin lj sj).
Proof.
  intros Hlf Hlj HM HM0 (Hf & Hj & Hg & He).
  split; [|split; [|split]].
  - intros x. apply lin_shaped; auto.
  - apply lin_shaped; auto.
  - intros k. rewrite (get_lin J LJ lj sj n k Hlj Hj).
    apply (jT_ext (fun x => lact Cops (lmat Cops (lf x)) (lmat0 Cops (lf x)) (get Cops (sf x) k) (gete Cops (sf x) k))).
    + intros t. now rewrite (get_lin Cops Claws (lf t) (sf t) n k (Hlf t) (Hf t)).
    + exact (j_lact _ _ _ _ _ _ _ _ HM HM0 (Hg k) (He k)).
  - intros k. rewrite (gete_lin J lj sj k Hlj).
    apply (jT_ext (fun x => gete Cops (sf x) k)); [|apply He].
    intros t. now rewrite (gete_lin Cops (lf t) (sf t) k (Hlf t)).
Qed.

Lemma j_step n f o sf sj : is_jet f o -> jinv n sf sj ->
  jinv (op_n J o n) (fun x => apply (inst f x) (sf x)) (apply o sj).
Proof.
  intros Hj Hinv.
  destruct f as [a a0|m m0|d nm|p r| | |]; destruct o as [ja ja0|jm jm0|d' nm'| | |jp r'|]; cbn [is_jet] in Hj; try contradiction.
  - (* ScalarOp *)
    destruct Hj as [Ha Ha0]. cbn [op_n inst apply].
    apply (j_lin_step n sf sj (fun x => LScalar (a x) (option_map (fun g => g x) a0)) (LScalar ja ja0)); auto.
    + cbn [lmat]. now apply jM_mdiag.
    + destruct a0 as [b|], ja0 as [jb|]; cbn [ojet option_map lmat0] in *; try contradiction.
      * now apply jM_mdiag.
      * exact jM_mzero.
  - (* MatrixOp *)
    destruct Hj as [Hm Hm0]. cbn [op_n inst apply].
    apply (j_lin_step n sf sj (fun x => LMatrix (m x) (option_map (fun g => g x) m0)) (LMatrix jm jm0)); auto.
    destruct m0 as [b|], jm0 as [jb|]; cbn [ojet option_map lmat0] in *; try contradiction; auto.
    exact jM_mzero.
  - (* shift *)
    destruct Hj as [<- <-]. destruct Hinv as (Hf & Hs & Hg & He). cbn [op_n inst apply].
    split; [|split; [|split]].
    + intros x. now apply shift_shaped.
    + now apply shift_shaped.
    + intros k. rewrite (get_shift J d nm sj n k Hs). cbv zeta.
      pose proof (j_resize sf sj n (shift_n d nm n) Hf Hs Hg) as Rz.
      apply (jT_ext (fun x => if inwin (shift_n d nm n) k
               then mk3 (fp (get Cops (resize (sf x) (shift_n d nm n)) (k - d)))
                        (fm (get Cops (resize (sf x) (shift_n d nm n)) (k + d)))
                        (fz (get Cops (resize (sf x) (shift_n d nm n)) k)) else t0)).
      * intros t. now rewrite (get_shift Cops d nm (sf t) n k (Hf t)).
      * destruct (inwin (shift_n d nm n) k); [|apply jT_t0].
        destruct (Rz (k - d)%Z) as (A & _ & _). destruct (Rz (k + d)%Z) as (_ & B & _). destruct (Rz k) as (_ & _ & D).
        split; [|split]; cbn [fp fm fz]; assumption.
    + intros k. rewrite (gete_shift J d nm sj n k Hs).
      apply (jT_ext (fun x => gete Cops (resize (sf x) (shift_n d nm n)) k)).
      * intros t. now rewrite (gete_shift Cops d nm (sf t) n k (Hf t)).
      * exact (je_resize sf sj n _ Hf Hs He k).
  - (* PD(pd, reset): the density is a constant *)
    destruct Hj as [-> <-]. destruct Hinv as (Hf & Hs & Hg & He). cbn [op_n inst apply].
    assert (Jc : forall k : Z, jT (fun _ : I => if (k =? 0)%Z then @mk3 Cops (RtoC 0) (RtoC 0) p else t0)
                                  (if (k =? 0)%Z then @mk3 J k0 k0 (inj p) else t0)).
    { intros k. destruct (k =? 0)%Z; [|apply jT_t0].
      split; [|split]; cbn [fp fm fz]; [exact jC_0|exact jC_0|exact (jC_const p)]. }
    split; [|split; [|split]].
    + intros x. now apply pd_shaped.
    + now apply pd_shaped.
    + intros k. rewrite (get_pd J _ r sj n k Hs). destruct r.
      * apply (jT_ext (fun x => if (k =? 0)%Z then @mk3 Cops (RtoC 0) (RtoC 0) p else t0)); [|apply Jc].
        intros t. now rewrite (get_pd Cops p true (sf t) n k (Hf t)).
      * apply (jT_ext (fun x => get Cops (sf x) k)); [|apply Hg].
        intros t. now rewrite (get_pd Cops p false (sf t) n k (Hf t)).
    + intros k. rewrite (gete_pd J _ r sj n k Hs).
      apply (jT_ext (fun x => if (k =? 0)%Z then @mk3 Cops (RtoC 0) (RtoC 0) p else t0)); [|apply Jc].
      intros t. now rewrite (gete_pd Cops p r (sf t) n k (Hf t)).
  - (* SPOILER *)
    destruct Hinv as (Hf & Hs & Hg & He). cbn [op_n inst apply].
    split; [|split; [|split]].
    + intros x. now apply spoil_shaped.
    + now apply spoil_shaped.
    + intros k. rewrite (get_spoil J sj k).
      apply (jT_ext (fun x => @mk3 Cops (RtoC 0) (RtoC 0) (fz (get Cops (sf x) k)))).
      * intros t. now rewrite (get_spoil Cops (sf t) k).
      * destruct (Hg k) as (_ & _ & C3).
        split; [|split]; cbn [fp fm fz]; [exact jC_0|exact jC_0|exact C3].
    + exact He.
  - (* RESET *)
    destruct Hinv as (Hf & Hs & Hg & He). cbn [op_n inst apply].
    split; [|split; [|split]].
    + intros x. now apply (reset_shaped Cops (sf x) n).
    + now apply (reset_shaped J sj n).
    + intros k. rewrite (get_reset J sj n k Hs).
      apply (jT_ext (fun x => if (k =? 0)%Z then gete Cops (sf x) 0 else t0)).
      * intros t. now rewrite (get_reset Cops (sf t) n k (Hf t)).
      * destruct (k =? 0)%Z; [apply He|apply jT_t0].
    + intros k. rewrite (gete_reset J sj n k Hs).
      apply (jT_ext (fun x => if (k =? 0)%Z then gete Cops (sf x) 0 else t0)).
      * intros t. now rewrite (gete_reset Cops (sf t) n k (Hf t)).
      * destruct (k =? 0)%Z; [apply He|apply jT_t0].
  - (* Wait *)
    exact Hinv.
Qed.

Definition frun (fprog : list fop) (x : I) (s : sm Cops) : sm Cops := run (map (fun f => inst f x) fprog) s.

Lemma j_run fprog jprog : Forall2 is_jet fprog jprog -> forall n sf sj, jinv n sf sj ->
  exists n', jinv n' (fun x => frun fprog x (sf x)) (run jprog sj).
Proof.
  intros H. induction H as [|f o fp jp Hj _ IH]; intros n sf sj Hinv.
  - exists n. exact Hinv.
  - destruct (IH _ _ _ (j_step n f o sf sj Hj Hinv)) as [n' Hn']. exists n'.
    unfold frun, run in *. cbn [map fold_left]. exact Hn'.
Qed.

Lemma jinv_init (pd : C) : jinv 0 (fun _ => @init Cops pd) (@init J (inj pd)).
Proof.
  unfold jinv, init. split; [intros _; split; reflexivity|split; [split; reflexivity|split]].
  - intros k. unfold Views.get. cbn [st]. rewrite !getZ_single.
    destruct (k =? 0)%Z; [|apply jT_t0].
    split; [|split]; cbn [fp fm fz]; [exact jC_0|exact jC_0|exact (jC_const pd)].
  - intros k. unfold Views.gete. cbn [equ]. rewrite !getZ_single.
    destruct (k =? 0)%Z; [|apply jT_t0].
    split; [|split]; cbn [fp fm fz]; [exact jC_0|exact jC_0|exact (jC_const pd)].
Qed.

(* the plain run over J carries the jet of the signal *)
Theorem signal_jet_gen fprog jprog pd : Forall2 is_jet fprog jprog ->
  jC (fun x => f0 Cops (frun fprog x (@init Cops pd))) (f0 J (run jprog (@init J (inj pd)))).
Proof.
  intros H. destruct (j_run fprog jprog H 0 _ _ (jinv_init pd)) as (n & Hf & Hs & Hg & _).
  destruct (Hg 0%Z) as (A & _).
  rewrite (f0_get J _ n Hs).
  apply (jC_ext (fun x => fp (get Cops (frun fprog x (@init Cops pd)) 0))); [|exact A].
  intros t. now rewrite (f0_get Cops _ n (Hf t)).
Qed.

End GenJet.

Arguments FScalar {I}. Arguments FMatrix {I}. Arguments FShift {I}. Arguments FPD {I}. Arguments FSpoil {I}. Arguments FReset {I}. Arguments FWait {I}.

(* ================================================================================== *)
(* Part B: double dual numbers over C and the two second-order jets                   *)
(* ================================================================================== *)
Definition DDC : ScalOps := DualOps DC.
Definition DDCLaws : ScalLaws DDC := DualLaws DC DCLaws.
Definition mk4 (a ax ay axy : C) : DDC := (((a, ax) : DC), ((ay, axy) : DC)).
Definition e00 (z : DDC) : Cops := fst (fst z).     (* value *)
Definition e10 (z : DDC) : Cops := snd (fst z).     (* e1 part: d/dx *)
Definition e01 (z : DDC) : Cops := fst (snd z).     (* e2 part: d/dy *)
Definition e11 (z : DDC) : Cops := snd (snd z).     (* e1 e2 part: d2/dxdy *)
Definition inj4 (c : C) : DDC := mk4 c (RtoC 0) (RtoC 0) (RtoC 0).

Lemma e00_0 : e00 k0 = k0. Proof. reflexivity. Qed.
Lemma e00_add x y : e00 (x + y)%K = (e00 x + e00 y)%K. Proof. reflexivity. Qed.
Lemma e00_mul x y : e00 (x * y)%K = (e00 x * e00 y)%K. Proof. reflexivity. Qed.
Lemma e10_add x y : e10 (x + y)%K = (e10 x + e10 y)%K. Proof. reflexivity. Qed.
Lemma e01_add x y : e01 (x + y)%K = (e01 x + e01 y)%K. Proof. reflexivity. Qed.
Lemma e11_add x y : e11 (x + y)%K = (e11 x + e11 y)%K. Proof. reflexivity. Qed.
Lemma e10_mul x y : e10 (x * y)%K = (e10 x * e00 y + e00 x * e10 y)%K.
Proof. unfold e10, e00. simpl. cnorm. ring. Qed.
Lemma e01_mul x y : e01 (x * y)%K = (e01 x * e00 y + e00 x * e01 y)%K.
Proof. unfold e01, e00. simpl. cnorm. ring. Qed.
Lemma e11_mul x y :
  e11 (x * y)%K = (e11 x * e00 y + e10 x * e01 y + e01 x * e10 y + e00 x * e11 y)%K.
Proof. unfold e11, e10, e01, e00. simpl. cnorm. ring. Qed.
Lemma inj4_0 : inj4 (RtoC 0) = k0. Proof. reflexivity. Qed.

(* filters, stated for arbitrary predicates so that no is_derive is ever unified *)
Lemma loc_and x0 (P Q : R -> Prop) : locally x0 P -> locally x0 Q -> locally x0 (fun x => P x /\ Q x).
Proof. apply filter_and. Qed.
Lemma loc_imp x0 (P Q : R -> Prop) : (forall x, P x -> Q x) -> locally x0 P -> locally x0 Q.
Proof. apply filter_imp. Qed.
Lemma loc_all x0 (P : R -> Prop) : (forall x, P x) -> locally x0 P.
Proof. apply filter_forall. Qed.
Lemma loc_at x0 (P : R -> Prop) : locally x0 P -> P x0.
Proof. apply locally_singleton. Qed.

(* ---------------- the mixed 2-jet at (x0, y0) ---------------- *)
Section Mixed.
Variables x0 y0 : R.

Definition jet2 (f : R * R -> C) (z : DDC) : Prop :=
  f (x0, y0) = e00 z /\
  derC (fun x => f (x, y0)) x0 (e10 z) /\
  exists fy : R -> C,
    locally x0 (fun x => derC (fun y => f (x, y)) y0 (fy x)) /\ fy x0 = e01 z /\ derC fy x0 (e11 z).

Lemma jet2_const c : jet2 (fun _ => c) (inj4 c).
Proof.
  split; [reflexivity|split; [exact (derC_const c x0)|]].
  exists (fun _ => RtoC 0). split; [|split; [reflexivity|exact (derC_const (RtoC 0) x0)]].
  apply loc_all. intros x. exact (derC_const c y0).
Qed.

Lemma jet2_ext f g z : (forall i, f i = g i) -> jet2 f z -> jet2 g z.
Proof.
  intros H (V & Dx & fy & Ly & Vy & Dxy).
  split; [now rewrite <- H|split].
  - exact (derC_ext (fun x => f (x, y0)) (fun x => g (x, y0)) x0 _ (fun t => H (t, y0)) Dx).
  - exists fy. split; [|split; [exact Vy|exact Dxy]].
    apply (loc_imp x0 (fun x => derC (fun y => f (x, y)) y0 (fy x))); [|exact Ly].
    intros x Hx. exact (derC_ext (fun y => f (x, y)) (fun y => g (x, y)) y0 _ (fun t => H (x, t)) Hx).
Qed.

Lemma jet2_plus f g a b : jet2 f a -> jet2 g b -> jet2 (fun i => Cplus (f i) (g i)) (a + b)%K.
Proof.
  intros (Vf & Dxf & fy & Lf & Vfy & Dxyf) (Vg & Dxg & gy & Lg & Vgy & Dxyg).
  split; [|split].
  - rewrite e00_add. cbv beta. rewrite Vf, Vg. reflexivity.
  - rewrite e10_add. exact (derC_plus _ _ x0 _ _ Dxf Dxg).
  - exists (fun x => Cplus (fy x) (gy x)). split; [|split].
    + apply (loc_imp x0 (fun x => derC (fun y => f (x, y)) y0 (fy x) /\ derC (fun y => g (x, y)) y0 (gy x)));
        [|exact (loc_and x0 _ _ Lf Lg)].
      intros x [H1 H2]. exact (derC_plus _ _ y0 _ _ H1 H2).
    + rewrite e01_add, Vfy, Vgy. reflexivity.
    + rewrite e11_add. exact (derC_plus _ _ x0 _ _ Dxyf Dxyg).
Qed.

Lemma jet2_mult f g a b : jet2 f a -> jet2 g b -> jet2 (fun i => Cmult (f i) (g i)) (a * b)%K.
Proof.
  intros (Vf & Dxf & fy & Lf & Vfy & Dxyf) (Vg & Dxg & gy & Lg & Vgy & Dxyg).
  split; [|split].
  - rewrite e00_mul. cbv beta. rewrite Vf, Vg. reflexivity.
  - rewrite e10_mul. eapply derC_eq; [|exact (derC_mult _ _ x0 _ _ Dxf Dxg)].
    cbv beta. rewrite Vf, Vg. reflexivity.
  - exists (fun x => Cplus (Cmult (fy x) (g (x, y0))) (Cmult (f (x, y0)) (gy x))). split; [|split].
    + apply (loc_imp x0 (fun x => derC (fun y => f (x, y)) y0 (fy x) /\ derC (fun y => g (x, y)) y0 (gy x)));
        [|exact (loc_and x0 _ _ Lf Lg)].
      intros x [H1 H2]. exact (derC_mult _ _ y0 _ _ H1 H2).
    + rewrite e01_mul, Vfy, Vgy, Vf, Vg. reflexivity.
    + rewrite e11_mul.
      eapply derC_eq; [|exact (derC_plus _ _ x0 _ _ (derC_mult fy (fun x => g (x, y0)) x0 _ _ Dxyf Dxg)
                                                     (derC_mult (fun x => f (x, y0)) gy x0 _ _ Dxf Dxyg))].
      cbv beta. rewrite Vfy, Vgy, Vf, Vg. cnorm. ring.
Qed.

(* forward-mode soundness, mixed second order *)
Theorem signal_jet2 (fprog : list (fop (R * R))) (jprog : list (op DDC)) pd :
  Forall2 (is_jet (R * R) DDC jet2 inj4) fprog jprog ->
  jet2 (fun i => f0 Cops (frun (R * R) fprog i (@init Cops pd))) (f0 DDC (run jprog (@init DDC (inj4 pd)))).
Proof.
  exact (signal_jet_gen (R * R) DDC DDCLaws jet2 inj4 inj4_0 jet2_const jet2_plus jet2_mult jet2_ext fprog jprog pd).
Qed.
End Mixed.

(* ---------------- the diagonal 2-jet at x0 ---------------- *)
Section Diag.
Variable x0 : R.

Definition jet1 (f : R -> C) (z : DDC) : Prop :=
  f x0 = e00 z /\
  exists f' : R -> C,
    locally x0 (fun x => derC f x (f' x)) /\ f' x0 = e10 z /\ f' x0 = e01 z /\ derC f' x0 (e11 z).

Lemma jet1_const c : jet1 (fun _ => c) (inj4 c).
Proof.
  split; [reflexivity|]. exists (fun _ => RtoC 0).
  split; [|split; [reflexivity|split; [reflexivity|exact (derC_const (RtoC 0) x0)]]].
  apply loc_all. intros x. exact (derC_const c x).
Qed.

Lemma jet1_ext f g z : (forall i, f i = g i) -> jet1 f z -> jet1 g z.
Proof.
  intros H (V & f' & Lf & V1 & V2 & D2).
  split; [now rewrite <- H|]. exists f'. split; [|split; [exact V1|split; [exact V2|exact D2]]].
  apply (loc_imp x0 (fun x => derC f x (f' x))); [|exact Lf].
  intros x Hx. exact (derC_ext f g x _ H Hx).
Qed.

Lemma jet1_plus f g a b : jet1 f a -> jet1 g b -> jet1 (fun i => Cplus (f i) (g i)) (a + b)%K.
Proof.
  intros (Vf & f' & Lf & Vf1 & Vf2 & Df) (Vg & g' & Lg & Vg1 & Vg2 & Dg).
  split; [rewrite e00_add; cbv beta; now rewrite Vf, Vg|].
  exists (fun x => Cplus (f' x) (g' x)). split; [|split; [|split]].
  - apply (loc_imp x0 (fun x => derC f x (f' x) /\ derC g x (g' x))); [|exact (loc_and x0 _ _ Lf Lg)].
    intros x [H1 H2]. exact (derC_plus _ _ x _ _ H1 H2).
  - rewrite e10_add, Vf1, Vg1. reflexivity.
  - rewrite e01_add, Vf2, Vg2. reflexivity.
  - rewrite e11_add. exact (derC_plus _ _ x0 _ _ Df Dg).
Qed.

Lemma jet1_mult f g a b : jet1 f a -> jet1 g b -> jet1 (fun i => Cmult (f i) (g i)) (a * b)%K.
Proof.
  intros (Vf & f' & Lf & Vf1 & Vf2 & Df) (Vg & g' & Lg & Vg1 & Vg2 & Dg).
  pose proof (loc_at x0 _ Lf) as Df0. pose proof (loc_at x0 _ Lg) as Dg0. cbv beta in Df0, Dg0.
  split; [rewrite e00_mul; cbv beta; now rewrite Vf, Vg|].
  exists (fun x => Cplus (Cmult (f' x) (g x)) (Cmult (f x) (g' x))). split; [|split; [|split]].
  - apply (loc_imp x0 (fun x => derC f x (f' x) /\ derC g x (g' x))); [|exact (loc_and x0 _ _ Lf Lg)].
    intros x [H1 H2]. exact (derC_mult _ _ x _ _ H1 H2).
  - rewrite e10_mul, Vf1, Vg1, Vf, Vg. reflexivity.
  - rewrite e01_mul, Vf2, Vg2, Vf, Vg. reflexivity.
  - rewrite e11_mul.
    eapply derC_eq; [|exact (derC_plus _ _ x0 _ _ (derC_mult f' g x0 _ _ Df Dg0) (derC_mult f g' x0 _ _ Df0 Dg))].
    rewrite <- Vf, <- Vg, <- Vf1, <- Vg1, <- Vf2, <- Vg2. cnorm. ring.
Qed.

(* forward-mode soundness, second order in one variable *)
Theorem signal_jet1 (fprog : list (fop R)) (jprog : list (op DDC)) pd :
  Forall2 (is_jet R DDC jet1 inj4) fprog jprog ->
  jet1 (fun i => f0 Cops (frun R fprog i (@init Cops pd))) (f0 DDC (run jprog (@init DDC (inj4 pd)))).
Proof.
  exact (signal_jet_gen R DDC DDCLaws jet1 inj4 inj4_0 jet1_const jet1_plus jet1_mult jet1_ext fprog jprog pd).
Qed.
End Diag.

(* ================================================================================== *)
(* Part C: composition with the bookkeeping of diff.py                                *)
(* ================================================================================== *)
Notation pair_ok12C := (pair_ok12 DDC Cops e00 e10 e01 e11).
Notation prog_ok12C := (prog_ok12 DDC Cops e00 e10 e01 e11).

(* mixed entry: H[v1,v2] = H[v2,v1] = d/dx (d/dy signal) at (x0,y0); the Jacobian entries are the two
   first partial derivatives; the simulated signal is the signal of the family at the point *)
Theorem hessian_is_mixed_derivative (x0 y0 : R) (v1 v2 : var) (fprog : list (fop (R * R)))
  (jprog : list (op DDC)) (prog2 : list (dinstr Cops)) (pd : C) :
  Forall2 (is_jet (R * R) DDC (jet2 x0 y0) inj4) fprog jprog ->
  prog_ok12C v1 v2 jprog prog2 (dinit (@init Cops pd)) ->
  let ds := drun prog2 (dinit (@init Cops pd)) in
  let sig := fun x y => f0 Cops (frun (R * R) fprog (x, y) (@init Cops pd)) in
  exists h j1 j2 : C,
    nth 1 (nth 0 (hessian ds [v1; v2]) []) k0 = h /\
    nth 0 (nth 1 (hessian ds [v1; v2]) []) k0 = h /\
    jacobian ds [v1; v2] = [j1; j2] /\
    derC (fun x => sig x y0) x0 j1 /\
    (exists sy : R -> C, locally x0 (fun x => derC (fun y => sig x y) y0 (sy x)) /\ sy x0 = j2 /\ derC sy x0 h) /\
    f0 Cops (d_main ds) = sig x0 y0.
Proof.
  intros Hjet Hok ds sig.
  destruct (hessian_point DDC Cops DDCLaws Claws e00 e10 e01 e11 e00_0 e00_add e00_mul e10_add e10_mul
              e01_add e01_mul e11_add e11_mul v1 v2 jprog prog2 (inj4 pd) eq_refl eq_refl eq_refl Hok)
    as (H1 & H2 & Jc & F).
  destruct (signal_jet2 x0 y0 fprog jprog pd Hjet) as (V & Dx & sy & Ly & Vy & Dxy).
  set (z := f0 DDC (run jprog (@init DDC (inj4 pd)))) in *.
  exists (e11 z), (e10 z), (e01 z).
  split; [exact H1|split; [exact H2|split; [exact Jc|split; [exact Dx|split]]]].
  - exists sy. split; [exact Ly|split; [exact Vy|exact Dxy]].
  - unfold sig. rewrite V. exact F.
Qed.

(* diagonal entry: H[v,v] = second derivative of the signal at x0 *)
Theorem hessian_is_second_derivative (x0 : R) (v : var) (fprog : list (fop R))
  (jprog : list (op DDC)) (prog2 : list (dinstr Cops)) (pd : C) :
  Forall2 (is_jet R DDC (jet1 x0) inj4) fprog jprog ->
  prog_ok12C v v jprog prog2 (dinit (@init Cops pd)) ->
  let ds := drun prog2 (dinit (@init Cops pd)) in
  let sig := fun x => f0 Cops (frun R fprog x (@init Cops pd)) in
  exists h j : C,
    hessian ds [v] = [[h]] /\ jacobian ds [v] = [j] /\
    (exists sig' : R -> C, locally x0 (fun x => derC sig x (sig' x)) /\ sig' x0 = j /\ derC sig' x0 h) /\
    f0 Cops (d_main ds) = sig x0.
Proof.
  intros Hjet Hok ds sig.
  destruct (hessian_point_diag DDC Cops DDCLaws Claws e00 e10 e01 e11 e00_0 e00_add e00_mul e10_add e10_mul
              e01_add e01_mul e11_add e11_mul v jprog prog2 (inj4 pd) eq_refl eq_refl eq_refl Hok)
    as (H1 & Jc & F).
  destruct (signal_jet1 x0 fprog jprog pd Hjet) as (V & s' & Ls & V1 & V2 & D2).
  set (z := f0 DDC (run jprog (@init DDC (inj4 pd)))) in *.
  exists (e11 z), (e10 z).
  split; [exact H1|split; [exact Jc|split]].
  - exists s'. split; [exact Ls|split; [exact V1|exact D2]].
  - unfold sig. rewrite V. exact F.
Qed.

(* ---------------- the same conclusions in Coquelicot's vocabulary ---------------- *)
(* f' = f' near x0 and f'' at x0  ==>  is_derive_n f 2 x0 f''  (real and imaginary part) *)
Lemma second_derivative_n (f f' : R -> C) x0 h :
  locally x0 (fun x => derC f x (f' x)) -> derC f' x0 h ->
  is_derive_n (fun x => fst (f x)) 2 x0 (fst h) /\ is_derive_n (fun x => snd (f x)) 2 x0 (snd h).
Proof.
  intros Lf [D1 D2]. split.
  - change (is_derive (fun x => Derive (fun t => fst (f t)) x) x0 (fst h)).
    apply (is_derive_ext_loc (fun x => fst (f' x))); [|exact D1].
    apply (loc_imp x0 (fun x => derC f x (f' x))); [|exact Lf].
    intros x Hx. symmetry. exact (is_derive_unique (fun t => fst (f t)) x _ (proj1 Hx)).
  - change (is_derive (fun x => Derive (fun t => snd (f t)) x) x0 (snd h)).
    apply (is_derive_ext_loc (fun x => snd (f' x))); [|exact D2].
    apply (loc_imp x0 (fun x => derC f x (f' x))); [|exact Lf].
    intros x Hx. symmetry. exact (is_derive_unique (fun t => snd (f t)) x _ (proj2 Hx)).
Qed.

(* fy = df/dy(., y0) near x0 and d/dx fy at x0  ==>  d/dx (Derive_y f) at x0 *)
Lemma mixed_derivative_Derive (f : R -> R -> C) (fy : R -> C) x0 y0 h :
  locally x0 (fun x => derC (fun y => f x y) y0 (fy x)) -> derC fy x0 h ->
  is_derive (fun x => Derive (fun y => fst (f x y)) y0) x0 (fst h) /\
  is_derive (fun x => Derive (fun y => snd (f x y)) y0) x0 (snd h).
Proof.
  intros Lf [D1 D2]. split.
  - apply (is_derive_ext_loc (fun x => fst (fy x))); [|exact D1].
    apply (loc_imp x0 (fun x => derC (fun y => f x y) y0 (fy x))); [|exact Lf].
    intros x Hx. symmetry. exact (is_derive_unique (fun t => fst (f x t)) y0 _ (proj1 Hx)).
  - apply (is_derive_ext_loc (fun x => snd (fy x))); [|exact D2].
    apply (loc_imp x0 (fun x => derC (fun y => f x y) y0 (fy x))); [|exact Lf].
    intros x Hx. symmetry. exact (is_derive_unique (fun t => snd (f x t)) y0 _ (proj2 Hx)).
Qed.
