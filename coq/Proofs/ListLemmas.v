From Coq Require Import List ZArith Lia Bool Arith.
From EPG Require Import Scalar State.
Import ListNotations.

Lemma length_tab {A} n (f : nat -> A) : length (tab n f) = n.
Proof. unfold tab. now rewrite map_length, seq_length. Qed.

Lemma nth_tab {A} n (f : nat -> A) i d : (i < n)%nat -> nth i (tab n f) d = f i.
Proof.
  intros Hi. unfold tab.
  rewrite (nth_indep _ d (f 0%nat)) by now rewrite map_length, seq_length.
  rewrite map_nth. now rewrite seq_nth.
Qed.

Lemma nthZ_in {A} (d : A) l j :
  (0 <= j < Z.of_nat (length l))%Z -> nthZ d l j = nth (Z.to_nat j) l d.
Proof.
  intros H. unfold nthZ.
  destruct (Z.leb_spec 0 j); destruct (Z.ltb_spec j (Z.of_nat (length l))); simpl; auto; lia.
Qed.

Lemma nthZ_out {A} (d : A) l j :
  (j < 0 \/ Z.of_nat (length l) <= j)%Z -> nthZ d l j = d.
Proof.
  intros H. unfold nthZ.
  destruct (Z.leb_spec 0 j); destruct (Z.ltb_spec j (Z.of_nat (length l))); simpl; auto; lia.
Qed.

Lemma nthZ_tab {A} (d : A) n f j :
  nthZ d (tab n f) j =
  if ((0 <=? j) && (j <? Z.of_nat n))%Z then f (Z.to_nat j) else d.
Proof.
  unfold nthZ. rewrite length_tab.
  destruct (Z.leb_spec 0 j); destruct (Z.ltb_spec j (Z.of_nat n)); simpl; auto.
  apply nth_tab. lia.
Qed.

Lemma nthZ_map {A B} (f : A -> B) d d' l j :
  f d = d' -> nthZ d' (map f l) j = f (nthZ d l j).
Proof.
  intros Hd. unfold nthZ. rewrite map_length.
  destruct ((0 <=? j)%Z && (j <? Z.of_nat (length l))%Z) eqn:E; auto.
  rewrite <- Hd. apply map_nth.
Qed.

Lemma nthZ_nat {A} (d : A) l i : nthZ d l (Z.of_nat i) = nth i l d.
Proof.
  destruct (Nat.lt_ge_cases i (length l)).
  - rewrite nthZ_in by lia. now rewrite Nat2Z.id.
  - rewrite nthZ_out by lia. now rewrite nth_overflow.
Qed.

(* odd lengths *)
Lemma half_odd n : ((2 * n + 1 - 1) / 2 = n)%nat.
Proof. replace (2 * n + 1 - 1)%nat with (n * 2)%nat by lia. apply Nat.div_mul. lia. Qed.

Lemma getZ_odd {A} (d : A) l n k :
  length l = (2 * n + 1)%nat -> getZ d l k = nthZ d l (k + Z.of_nat n).
Proof. intros H. unfold getZ. now rewrite H, half_odd. Qed.

Lemma getZ_out {A} (d : A) l n k :
  length l = (2 * n + 1)%nat -> (k < - Z.of_nat n \/ Z.of_nat n < k)%Z -> getZ d l k = d.
Proof. intros H Hk. rewrite (getZ_odd d l n k H). apply nthZ_out. lia. Qed.

Lemma resize_off_odd n n' :
  resize_off (2 * n + 1) (2 * n' + 1) = (Z.of_nat n - Z.of_nat n')%Z.
Proof.
  unfold resize_off.
  destruct (Nat.leb_spec (2 * n' + 1) (2 * n + 1)).
  - replace (2 * n + 1 - (2 * n' + 1))%nat with ((n - n') * 2)%nat by lia.
    rewrite Nat.div_mul by lia. lia.
  - replace (2 * n' + 1 - (2 * n + 1))%nat with ((n' - n) * 2)%nat by lia.
    rewrite Nat.div_mul by lia. lia.
Qed.

Lemma length_resize_list {A} (pad : A) l size : length (resize_list pad l size) = size.
Proof. apply length_tab. Qed.

(* resizing an odd-length array keeps the phase states it can hold, centred *)
Lemma getZ_resize_list {A} (pad : A) l n n' k :
  length l = (2 * n + 1)%nat ->
  getZ pad (resize_list pad l (2 * n' + 1)) k =
  if ((- Z.of_nat n' <=? k) && (k <=? Z.of_nat n'))%Z then getZ pad l k else pad.
Proof.
  intros Hl.
  rewrite (getZ_odd pad _ n') by apply length_resize_list.
  unfold resize_list. rewrite nthZ_tab, Hl, resize_off_odd.
  destruct (Z.leb_spec (- Z.of_nat n') k); destruct (Z.leb_spec k (Z.of_nat n'));
  destruct (Z.leb_spec 0 (k + Z.of_nat n')); destruct (Z.ltb_spec (k + Z.of_nat n') (Z.of_nat (2 * n' + 1)));
  simpl; try lia; auto.
  rewrite (getZ_odd pad l n k Hl). f_equal. lia.
Qed.

Lemma getZ_single {A} (d x : A) k : getZ d [x] k = if (k =? 0)%Z then x else d.
Proof.
  rewrite (getZ_odd d [x] 0 k) by reflexivity.
  destruct (Z.eqb_spec k 0) as [->|Hk].
  - reflexivity.
  - apply nthZ_out. simpl. lia.
Qed.
