(* Lemmas on the numpy primitives of Model/NdArray.v; resize_centre. *)
From Coq Require Import List ZArith Lia Bool Arith.
From EPG Require Import Scalar State ListLemmas NdArray.
Import ListNotations.

Lemma nth_firstn' {A} (l : list A) i j d : i < j -> nth i (firstn j l) d = nth i l d.
Proof.
  revert i j. induction l as [|x l IH]; intros i j H.
  - rewrite firstn_nil. reflexivity.
  - destruct j; [lia|]. destruct i; simpl; auto. apply IH. lia.
Qed.

Lemma nth_skipn' {A} (l : list A) i n d : nth i (skipn n l) d = nth (n + i) l d.
Proof.
  revert l. induction n; intros l; simpl; auto.
  destruct l; simpl; auto. destruct i; reflexivity.
Qed.

Lemma nth_repeat' {A} (a d : A) m i : i < m -> nth i (repeat a m) d = a.
Proof. revert i. induction m; intros i H; [lia|]. destruct i; simpl; auto. apply IHm. lia. Qed.

Lemma half_sum k : k / 2 + (k + 1) / 2 = k.
Proof.
  pose proof (Nat.div_mod k 2 ltac:(lia)). pose proof (Nat.div_mod (k + 1) 2 ltac:(lia)).
  pose proof (Nat.mod_upper_bound k 2 ltac:(lia)). pose proof (Nat.mod_upper_bound (k + 1) 2 ltac:(lia)).
  assert ((k + 1) mod 2 = 1 - k mod 2).
  { replace (k + 1) with (1 + k) by lia.
    rewrite <- Nat.add_mod_idemp_r by lia.
    destruct (k mod 2) as [|[|]] eqn:E; try lia; reflexivity. }
  lia.
Qed.

Lemma length_slice {A} lo hi (l : list A) : hi <= length l -> length (slice lo hi l) = hi - lo.
Proof. intros H. unfold slice. rewrite firstn_length, skipn_length. lia. Qed.

Lemma nth_slice {A} lo hi (l : list A) i d : i < hi - lo -> nth i (slice lo hi l) d = nth (lo + i) l d.
Proof. intros H. unfold slice. rewrite nth_firstn' by lia. apply nth_skipn'. Qed.

(* ---- resize_array along one axis = State.resize_list on the list of sub-blocks.
   Index-wise statement: new entry i is old entry i + off, the constant outside *)
Lemma resize_list_nth {A} (pad : A) l size i :
  i < size ->
  nth i (resize_list pad l size) pad = nthZ pad l (Z.of_nat i + resize_off (length l) size).
Proof. intros H. unfold resize_list. now rewrite nth_tab. Qed.

(* crop: python  array[(-diff)//2 : n - (-diff+1)//2]  with -diff = n - size *)
Lemma resize_crop {A} (pad : A) l size :
  size <= length l ->
  resize_list pad l size = slice ((length l - size) / 2) (length l - (length l - size + 1) / 2) l.
Proof.
  intros H. set (n := length l). pose proof (half_sum (n - size)) as Hs.
  apply (nth_ext _ _ pad pad).
  - rewrite length_resize_list, length_slice by (fold n; lia). lia.
  - intros i Hi. rewrite length_resize_list in Hi.
    rewrite resize_list_nth by assumption.
    rewrite nth_slice by lia.
    unfold resize_off. fold n. destruct (Nat.leb_spec size n); [|lia].
    rewrite <- Nat2Z.inj_add. rewrite nthZ_nat. f_equal. lia.
Qed.

(* pad: numpy.pad(array, (diff//2, (diff+1)//2), constant_values=constant) with diff = size - n *)
Lemma resize_pad {A} (pad : A) l size :
  length l <= size ->
  resize_list pad l size =
  repeat pad ((size - length l) / 2) ++ l ++ repeat pad ((size - length l + 1) / 2).
Proof.
  intros H. set (n := length l). pose proof (half_sum (size - n)) as Hs.
  apply (nth_ext _ _ pad pad).
  - rewrite length_resize_list, !app_length, !repeat_length. fold n. lia.
  - intros i Hi. rewrite length_resize_list in Hi.
    rewrite resize_list_nth by assumption. fold n.
    destruct (Nat.eq_dec n size) as [E|NE].
    + unfold resize_off. destruct (Nat.leb_spec size n); [|lia].
      replace ((size - n) / 2) with 0 by (replace (size - n) with 0 by lia; reflexivity).
      replace ((n - size) / 2) with 0 by (replace (n - size) with 0 by lia; reflexivity).
      simpl. rewrite Z.add_0_r, nthZ_nat.
      destruct (Nat.lt_ge_cases i n).
      * now rewrite app_nth1 by (fold n; lia).
      * lia.
    + unfold resize_off. destruct (Nat.leb_spec size n); [lia|].
      set (b := (size - n) / 2) in *.
      destruct (Nat.lt_ge_cases i b) as [Hb|Hb].
      * rewrite app_nth1 by (rewrite repeat_length; lia).
        rewrite nth_repeat' by lia. apply nthZ_out. lia.
      * rewrite app_nth2 by (rewrite repeat_length; lia). rewrite repeat_length.
        replace (Z.of_nat i + - Z.of_nat b)%Z with (Z.of_nat (i - b)) by lia.
        rewrite nthZ_nat.
        destruct (Nat.lt_ge_cases (i - b) n) as [Hn|Hn].
        -- now rewrite app_nth1 by (fold n; lia).
        -- rewrite app_nth2 by (fold n; lia). rewrite nth_overflow by (fold n; lia).
           fold n. destruct (Nat.lt_ge_cases (i - b - n) ((size - n + 1) / 2)).
           ++ now rewrite nth_repeat' by lia.
           ++ now rewrite nth_overflow by (rewrite repeat_length; lia).
Qed.

(* The property's clause: resizing pads with the constant / crops symmetrically about the
   centre and preserves the retained values; any lengths, any parity of the difference. *)
Theorem resize_centre {A} (pad : A) (l : list A) (size : nat) :
  let n := length l in
  length (resize_list pad l size) = size /\
  (size <= n ->
     resize_list pad l size = slice ((n - size) / 2) (n - (n - size + 1) / 2) l /\
     (n - size) / 2 + (n - size + 1) / 2 = n - size /\
     forall i, i < size -> nth i (resize_list pad l size) pad = nth ((n - size) / 2 + i) l pad) /\
  (n <= size ->
     resize_list pad l size = repeat pad ((size - n) / 2) ++ l ++ repeat pad ((size - n + 1) / 2) /\
     (size - n) / 2 + (size - n + 1) / 2 = size - n /\
     (forall j, j < n -> nth ((size - n) / 2 + j) (resize_list pad l size) pad = nth j l pad) /\
     (forall i, i < size -> (i < (size - n) / 2 \/ (size - n) / 2 + n <= i) ->
                nth i (resize_list pad l size) pad = pad)).
Proof.
  intros n. split; [apply length_resize_list|]. split.
  - intros H. split; [now apply resize_crop|]. split; [apply half_sum|].
    intros i Hi. rewrite resize_crop by assumption. fold n.
    pose proof (half_sum (n - size)). apply nth_slice. lia.
  - intros H. pose proof (half_sum (size - n)) as Hs.
    split; [now apply resize_pad|]. split; [assumption|]. split.
    + intros j Hj. rewrite resize_pad by assumption. fold n.
      rewrite app_nth2 by (rewrite repeat_length; lia). rewrite repeat_length.
      replace ((size - n) / 2 + j - (size - n) / 2) with j by lia.
      now rewrite app_nth1 by (fold n; lia).
    + intros i Hi Hout. rewrite resize_pad by assumption. fold n.
      destruct Hout as [Hl|Hr].
      * rewrite app_nth1 by (rewrite repeat_length; lia). now apply nth_repeat'.
      * rewrite app_nth2 by (rewrite repeat_length; lia). rewrite repeat_length.
        rewrite app_nth2 by (fold n; lia). fold n.
        apply nth_repeat'. lia.
Qed.

(* the N-d resize is that list operation on the sub-blocks along the axis *)
Lemma resize_axis_shape a axis size c :
  shp (resize_axis a axis size c) = firstn axis (shp a) ++ size :: skipn (S axis) (shp a).
Proof. reflexivity. Qed.

Lemma resize_axis_blocks a axis size c :
  dat (resize_axis a axis size c) =
  concat (map (fun b => concat (resize_list (repeat c (prod (skipn (S axis) (shp a))))
                                  (chunksN (nth axis (shp a) 0) (prod (skipn (S axis) (shp a))) b) size))
              (chunksN (prod (firstn axis (shp a))) (nth axis (shp a) 0 * prod (skipn (S axis) (shp a))) (dat a))).
Proof. reflexivity. Qed.

Lemma length_chunksN {A} k m (l : list A) : length (chunksN k m l) = k.
Proof. apply length_tab. Qed.

Lemma length_resize_axis_shape a axis size c :
  axis < length (shp a) -> length (shp (resize_axis a axis size c)) = length (shp a).
Proof.
  intros H. rewrite resize_axis_shape, app_length, firstn_length.
  change (length (size :: skipn (S axis) (shp a))) with (S (length (skipn (S axis) (shp a)))).
  rewrite skipn_length. lia.
Qed.

Lemma nth_resize_axis_shape a axis size c j :
  axis < length (shp a) ->
  nth j (shp (resize_axis a axis size c)) 0 = if j =? axis then size else nth j (shp a) 0.
Proof.
  intros H. rewrite resize_axis_shape.
  destruct (Nat.eqb_spec j axis) as [->|NE].
  - rewrite app_nth2 by (rewrite firstn_length; lia). rewrite firstn_length.
    replace (axis - Nat.min axis (length (shp a))) with 0 by lia. reflexivity.
  - destruct (Nat.lt_ge_cases j axis).
    + rewrite app_nth1 by (rewrite firstn_length; lia). now apply nth_firstn'.
    + rewrite app_nth2 by (rewrite firstn_length; lia). rewrite firstn_length.
      replace (j - Nat.min axis (length (shp a))) with (S (j - axis - 1)) by lia.
      change (nth (S (j - axis - 1)) (size :: skipn (S axis) (shp a)) 0)
        with (nth (j - axis - 1) (skipn (S axis) (shp a)) 0).
      rewrite nth_skipn'. f_equal. lia.
Qed.
