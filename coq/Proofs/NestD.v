(* C10 with derivatives: nesting / '*' grouping of a sequence of differentiable and plain operators gives the same
   state AND the same first- and second-order partials as the flat sequence.  A '*' group called as an operator
   applies its members in turn (MultiOperator.__call__ since /repo c26a99a); simulate() flattens it: both are the
   fold below. *)
From Coq Require Import List.
From EPG Require Import Scalar State Ops Diff.
Import ListNotations.

Section NestD.
Variable S : ScalOps.

Inductive dtree : Type :=
| DLeaf (i : dinstr S)
| DNode (items : list dtree)          (* a (nested) Python list *)
| DMulti (items : list dtree).        (* a MultiOperator *)

Fixpoint dflatten (t : dtree) : list (dinstr S) :=
  match t with
  | DLeaf i => [i]
  | DNode l => flat_map dflatten l
  | DMulti l => flat_map dflatten l
  end.

Fixpoint drun_tree (t : dtree) (ds : dstate S) : dstate S :=
  match t with
  | DLeaf i => dstep i ds
  | DNode l => fold_left (fun d t' => drun_tree t' d) l ds
  | DMulti l => fold_left (fun d t' => drun_tree t' d) l ds
  end.

Lemma drun_app (a b : list (dinstr S)) ds : drun (a ++ b) ds = drun b (drun a ds).
Proof. unfold drun. apply fold_left_app. Qed.

Section TreeInd.
Variable P : dtree -> Prop.
Hypothesis HL : forall i, P (DLeaf i).
Hypothesis HN : forall l, List.Forall P l -> P (DNode l).
Hypothesis HM : forall l, List.Forall P l -> P (DMulti l).
Fixpoint dtree_ind' (t : dtree) : P t :=
  match t with
  | DLeaf i => HL i
  | DNode l => HN l ((fix go (l : list dtree) : List.Forall P l :=
                      match l with [] => Forall_nil _ | x :: r => Forall_cons _ (dtree_ind' x) (go r) end) l)
  | DMulti l => HM l ((fix go (l : list dtree) : List.Forall P l :=
                      match l with [] => Forall_nil _ | x :: r => Forall_cons _ (dtree_ind' x) (go r) end) l)
  end.
End TreeInd.

Lemma drun_flat_map (l : list dtree) ds :
  List.Forall (fun t => forall ds, drun_tree t ds = drun (dflatten t) ds) l ->
  fold_left (fun d t' => drun_tree t' d) l ds = drun (flat_map dflatten l) ds.
Proof.
  intros H. revert ds. induction H as [|t l Ht Hl IH]; intros ds; simpl; auto.
  rewrite drun_app, <- Ht. apply IH.
Qed.

Theorem dsimulate_nested_eq_flat (t : dtree) ds : drun_tree t ds = drun (dflatten t) ds.
Proof.
  revert ds. induction t using dtree_ind'; intros ds; simpl.
  - reflexivity.
  - now apply drun_flat_map.
  - now apply drun_flat_map.
Qed.

(* hence the probes: Jacobian columns and Hessian entries do not depend on the writing *)
Corollary nested_probes_eq_flat (t : dtree) ds vars :
  f0 S (d_main (drun_tree t ds)) = f0 S (d_main (drun (dflatten t) ds)) /\
  jacobian (drun_tree t ds) vars = jacobian (drun (dflatten t) ds) vars /\
  hessian (drun_tree t ds) vars = hessian (drun (dflatten t) ds) vars.
Proof. now rewrite dsimulate_nested_eq_flat. Qed.

Corollary dregrouping_immaterial (t t' : dtree) ds : dflatten t = dflatten t' -> drun_tree t ds = drun_tree t' ds.
Proof. intros H. now rewrite !dsimulate_nested_eq_flat, H. Qed.

End NestD.
