(* C14 — proofs: the weighted norm of a state matrix, isometries (T, Phi, P, untruncated S),
   contractions (E on the deviation, spoiler, diffusion), the signal bound |F0| <= PD. *)
From Coq Require Import Reals ZArith List Bool Lia Lra Psatz RealField.
From Coquelicot Require Import Coquelicot.
From EPG Require Import Scalar State Ops ListLemmas CInst Synth Dft Views WfProof SynthStep
  Transition Evolution CoefPhys Norms.
From EPG.Model Require Import Diffusion.
From EPG Require Import DiffusionProofs Ensemble.
Import ListNotations.
Local Open Scope R_scope.

(* ------------------------------------------------------------------ the reals as scalars *)
Lemma Rlaws : ScalLaws Rops.
Proof.
  constructor; simpl; try reflexivity.
  - exact RTheory.
  - intros x y. unfold Reqb. destruct (Req_EM_T x y); split; auto; discriminate.
Qed.

Ltac rnorm := change (K Rops) with R in *; change (@kmul Rops) with Rmult in *;
  change (@kadd Rops) with Rplus in *; change (@ksub Rops) with Rminus in *;
  change (@kopp Rops) with Ropp in *; change (@k0 Rops) with 0 in *; change (@k1 Rops) with 1 in *.

(* ------------------------------------------------------------------ finite real sums *)
Lemma rsum_ext lo n f g :
  (forall k, (lo <= k < lo + Z.of_nat n)%Z -> f k = g k) -> rsum lo n f = rsum lo n g.
Proof. exact (sumZ_ext Rops lo n f g). Qed.
Lemma rsum_add lo n f g : rsum lo n (fun k => f k + g k) = rsum lo n f + rsum lo n g.
Proof. exact (sumZ_add Rops Rlaws lo n f g). Qed.
Lemma rsum_scale lo n c f : rsum lo n (fun k => c * f k) = c * rsum lo n f.
Proof. exact (sumZ_scale Rops Rlaws lo n c f). Qed.
Lemma rsum_reindex lo n d f : rsum lo n (fun k => f (k - d)%Z) = rsum (lo - d) n f.
Proof. exact (sumZ_reindex Rops lo n d f). Qed.
Lemma rsum_widen lo m a n f :
  (forall k, (k < a)%Z \/ (a + Z.of_nat n <= k)%Z -> f k = 0) ->
  (lo <= a)%Z -> (a + Z.of_nat n <= lo + Z.of_nat m)%Z -> rsum lo m f = rsum a n f.
Proof. exact (sumZ_widen Rops Rlaws lo m a n f). Qed.
Lemma rsum_single lo n f k' :
  (lo <= k' < lo + Z.of_nat n)%Z -> (forall k, k <> k' -> f k = 0) -> rsum lo n f = f k'.
Proof. exact (sumZ_single Rops Rlaws lo n f k'). Qed.

Lemma sumn_le n (f g : nat -> R) :
  (forall i, (i < n)%nat -> f i <= g i) -> sumn Rops n f <= sumn Rops n g.
Proof.
  induction n as [|n IH]; intros H; cbn [sumn]; rnorm; [lra|].
  pose proof (H n (Nat.lt_succ_diag_r n)). assert (sumn Rops n f <= sumn Rops n g) by (apply IH; auto). lra.
Qed.
Lemma rsum_le lo n f g :
  (forall k, (lo <= k < lo + Z.of_nat n)%Z -> f k <= g k) -> rsum lo n f <= rsum lo n g.
Proof. intros H. apply sumn_le. intros i Hi. apply H. lia. Qed.
Lemma rsum_nonneg lo n f : (forall k, (lo <= k < lo + Z.of_nat n)%Z -> 0 <= f k) -> 0 <= rsum lo n f.
Proof.
  intros H. replace 0 with (rsum lo n (fun _ => 0)).
  - now apply rsum_le.
  - apply (sumZ_zero Rops Rlaws). auto.
Qed.

(* reversal of the summation order *)
Lemma sumn_first n (f : nat -> R) : sumn Rops (S n) f = f 0%nat + sumn Rops n (fun i => f (S i)).
Proof.
  change (S n) with (1 + n)%nat. rewrite (sumn_app Rops Rlaws 1 n f). cbn [sumn]. rnorm.
  replace (sumn Rops n (fun i => f (1 + i)%nat)) with (sumn Rops n (fun i => f (S i))) by reflexivity. ring.
Qed.
Lemma sumn_rev n : forall f : nat -> R, sumn Rops n (fun i => f (n - 1 - i)%nat) = sumn Rops n f.
Proof.
  induction n as [|n IH]; intros f; [reflexivity|].
  rewrite sumn_first. cbn [sumn]. rnorm.
  rewrite (sumn_ext Rops n _ (fun i => f (n - 1 - i)%nat)) by (intros i _; f_equal; lia).
  rewrite IH. replace (S n - 1 - 0)%nat with n by lia. ring.
Qed.

(* ---- sums over the symmetric window [-n, n] ---- *)
Lemma win_ext n f g : (forall k, (- Z.of_nat n <= k <= Z.of_nat n)%Z -> f k = g k) -> win n f = win n g.
Proof. intros H. apply rsum_ext. intros k Hk. apply H. lia. Qed.
Lemma win_add n f g : win n (fun k => f k + g k) = win n f + win n g.
Proof. apply rsum_add. Qed.
Lemma win_scale n c f : win n (fun k => c * f k) = c * win n f.
Proof. apply rsum_scale. Qed.
Lemma win_le n f g : (forall k, (- Z.of_nat n <= k <= Z.of_nat n)%Z -> f k <= g k) -> win n f <= win n g.
Proof. intros H. apply rsum_le. intros k Hk. apply H. lia. Qed.
Lemma win_nonneg n f : (forall k, 0 <= f k) -> 0 <= win n f.
Proof. intros H. apply rsum_nonneg. auto. Qed.
Lemma win_delta n c : win n (fun k => if (k =? 0)%Z then c else 0) = c.
Proof.
  unfold win. rewrite (rsum_single _ _ _ 0%Z); [reflexivity|lia|].
  intros k Hk. destruct (Z.eqb_spec k 0); [contradiction|reflexivity].
Qed.
Lemma win_term_le n f k' : (forall k, 0 <= f k) -> (- Z.of_nat n <= k' <= Z.of_nat n)%Z -> f k' <= win n f.
Proof.
  intros Hf Hk.
  replace (f k') with (win n (fun k => if (k =? k')%Z then f k' else 0)).
  - apply win_le. intros k _. destruct (k =? k')%Z eqn:E; [apply Z.eqb_eq in E; subst; lra|apply Hf].
  - unfold win. rewrite (rsum_single _ _ _ k'); [now rewrite Z.eqb_refl|lia|].
    intros k Hne. destruct (Z.eqb_spec k k'); [contradiction|reflexivity].
Qed.

(* k -> -k *)
Lemma win_reflect n f : win n (fun k => f (- k)%Z) = win n f.
Proof.
  unfold win, rsum, sumZ.
  rewrite <- (sumn_rev (2 * n + 1) (fun i => f (- Z.of_nat n + Z.of_nat i)%Z)).
  apply (sumn_ext Rops). intros i Hi. f_equal. lia.
Qed.

(* a family supported in [-n, n], shifted by d, summed over a window that contains the shifted support *)
Lemma win_shift n n' d f :
  (forall k, (k < - Z.of_nat n)%Z \/ (Z.of_nat n < k)%Z -> f k = 0) -> (n + Z.abs_nat d <= n')%nat ->
  win n' (fun k => f (k - d)%Z) = win n f.
Proof.
  intros Hf Hn. unfold win. rewrite rsum_reindex.
  apply rsum_widen; try lia. intros k Hk. apply Hf. lia.
Qed.
Lemma win_widen n n' f :
  (forall k, (k < - Z.of_nat n)%Z \/ (Z.of_nat n < k)%Z -> f k = 0) -> (n <= n')%nat -> win n' f = win n f.
Proof.
  intros Hf Hn. unfold win. apply rsum_widen; try lia. intros k Hk. apply Hf. lia.
Qed.

(* ------------------------------------------------------------------ per-state facts *)
Lemma cnorm2_nonneg x : 0 <= cnorm2 x.
Proof. unfold cnorm2. nra. Qed.
Lemma cnorm2_mult x y : cnorm2 (Cmult x y) = cnorm2 x * cnorm2 y.
Proof. destruct x, y. unfold cnorm2. simpl. ring. Qed.
Lemma cnorm2_conj x : cnorm2 (Cconj x) = cnorm2 x.
Proof. destruct x. unfold cnorm2. simpl. ring. Qed.
Lemma cnorm2_RtoC a : cnorm2 (RtoC a) = a * a.
Proof. unfold cnorm2. simpl. ring. Qed.
Lemma cnorm2_0 : cnorm2 (RtoC 0) = 0.
Proof. rewrite cnorm2_RtoC. ring. Qed.
Lemma wnorm2_nonneg v : 0 <= wnorm2 v.
Proof.
  unfold wnorm2. pose proof (cnorm2_nonneg (fp v)). pose proof (cnorm2_nonneg (fm v)).
  pose proof (cnorm2_nonneg (fz v)). lra.
Qed.
Lemma wnorm2_t0 : wnorm2 (@t0 Cops) = 0.
Proof. unfold wnorm2, t0. cbn [fp fm fz]. cnorm. rewrite cnorm2_0. ring. Qed.
Lemma Cmod_cnorm2 x : Cmod x = sqrt (cnorm2 x).
Proof. unfold Cmod, cnorm2. f_equal. ring. Qed.

(* ------------------------------------------------------------------ shape bookkeeping *)
Local Notation get := (get Cops).
Local Notation gete := (gete Cops).
Local Notation shaped := (shaped Cops).
Local Notation wf := (wf Cops).

Lemma norm2_shaped s n : shaped s n -> norm2 s = win n (fun k => wnorm2 (get s k)).
Proof. intros H. unfold norm2. now rewrite (shaped_nstate Cops s n H). Qed.
Lemma dev2_shaped s n : shaped s n -> dev2 s = win n (fun k => wnorm2 (dev s k)).
Proof. intros H. unfold dev2. now rewrite (shaped_nstate Cops s n H). Qed.

Lemma get_zero_out s n k : shaped s n -> (k < - Z.of_nat n)%Z \/ (Z.of_nat n < k)%Z -> get s k = t0.
Proof. intros Hs Hk. exact (get_supp Cops s n Hs k Hk). Qed.

Lemma norm2_nonneg s : 0 <= norm2 s.
Proof. apply win_nonneg. intros k. apply wnorm2_nonneg. Qed.

(* norm2 = 1/2 sum|F+|^2 + 1/2 sum|F-|^2 + sum|Z|^2 *)
Lemma norm2_split s : norm2 s = / 2 * tp2 s + / 2 * tm2 s + zz2 s.
Proof.
  unfold norm2, tp2, tm2, zz2, wnorm2.
  rewrite <- !win_scale, <- !win_add. reflexivity.
Qed.

(* for well-formed states the two transverse sums agree: F-(k) = conj F+(-k), re-index k -> -k *)
Lemma tp2_eq_tm2 s : wf s -> tp2 s = tm2 s.
Proof.
  intros W. unfold tp2, tm2.
  rewrite <- (win_reflect _ (fun k => cnorm2 (fp (get s k)))).
  apply win_ext. intros k _. rewrite (wf_fm Cops s W k). symmetry. apply cnorm2_conj.
Qed.

(* (a) what utils.get_norm sums equals the physical norm on well-formed states *)
Theorem norm_code_eq s : wf s -> code_norm2 s = norm2 s.
Proof.
  intros W. rewrite norm2_split, (tp2_eq_tm2 s W).
  unfold code_norm2. rewrite win_add. fold (tm2 s) (zz2 s). lra.
Qed.

(* ------------------------------------------------------------------ (b) isometries *)
Lemma nstate_map (f : triple Cops -> triple Cops) s e : nstate (mkSM (map f (st s)) e) = nstate s.
Proof. unfold nstate. cbn [st]. now rewrite map_length. Qed.

Lemma norm2_matrix_iso m s :
  (forall v, wnorm2 (mv m v) = wnorm2 v) -> norm2 (apply (OMatrix m None) s) = norm2 s.
Proof.
  intros H. unfold norm2. cbn [apply apply_matrix]. rewrite nstate_map.
  apply win_ext. intros k _. unfold Views.get at 1. cbn [st].
  rewrite (getZ_map_st Cops s (mv m) k (mv_t0 Cops Claws m)). apply H.
Qed.
Lemma norm2_scalar_iso a s :
  (forall v, wnorm2 (sv a v) = wnorm2 v) -> norm2 (apply (OScalar a None) s) = norm2 s.
Proof.
  intros H. unfold norm2. cbn [apply apply_scalar]. rewrite nstate_map.
  apply win_ext. intros k _. unfold Views.get at 1. cbn [st].
  rewrite (getZ_map_st Cops s (sv a) k (sv_t0 Cops Claws a)). apply H.
Qed.

Theorem T_state_isometry alpha phi s : norm2 (apply (op_T alpha phi) s) = norm2 s.
Proof. apply norm2_matrix_iso. apply T_isometry. Qed.
Theorem Phi_state_isometry phi s : norm2 (apply (op_Phi phi) s) = norm2 s.
Proof. apply norm2_matrix_iso. apply Phi_isometry. Qed.
Theorem P_state_isometry tau g s : norm2 (apply (op_P tau g) s) = norm2 s.
Proof.
  unfold op_P. change (snd (P_op tau g)) with (@None (triple Cops)).
  apply norm2_scalar_iso. apply P_isometry.
Qed.

(* untruncated shift *)
Theorem S_isometry d s n : shaped s n -> norm2 (apply (OShift d None) s) = norm2 s.
Proof.
  intros Hs. cbn [apply].
  pose proof (shift_shaped Cops d None s n Hs) as Hs'. cbn [shift_n] in Hs'.
  rewrite (norm2_shaped _ _ Hs'), (norm2_shaped _ _ Hs).
  rewrite (win_ext _ _ (fun k => / 2 * cnorm2 (fp (get s (k - d))) + / 2 * cnorm2 (fm (get s (k - - d))) + cnorm2 (fz (get s k)))).
  2:{ intros k _. rewrite (get_shift_notrunc Cops d None s n k Hs eq_refl). unfold wnorm2. cbn [fp fm fz].
      replace (k - - d)%Z with (k + d)%Z by lia. reflexivity. }
  rewrite !win_add, !win_scale.
  rewrite (win_shift n _ d (fun k => cnorm2 (fp (get s k)))).
  2:{ intros k Hk. rewrite (get_zero_out s n k Hs Hk). apply cnorm2_0. } 2:lia.
  rewrite (win_shift n _ (- d) (fun k => cnorm2 (fm (get s k)))).
  2:{ intros k Hk. rewrite (get_zero_out s n k Hs Hk). apply cnorm2_0. } 2:lia.
  rewrite (win_widen n _ (fun k => cnorm2 (fz (get s k)))).
  2:{ intros k Hk. rewrite (get_zero_out s n k Hs Hk). apply cnorm2_0. } 2:lia.
  unfold wnorm2. rewrite !win_add, !win_scale. reflexivity.
Qed.

(* ------------------------------------------------------------------ (c) contractions *)
(* the generated relaxation arrays in closed form *)
Definition relax_arr (c s e2 e1 : R) : triple Cops :=
  @mk3 Cops (e2 * c, - (e2 * s)) (e2 * c, e2 * s) (e1, 0).
Definition relax_arr0 (e1 : R) : triple Cops := @mk3 Cops (0, 0) (0, 0) (1 - e1, 0).

Lemma E_op_form tau T1 T2 g :
  E_op tau T1 T2 g =
  (relax_arr (cos (- (tau * (2 * PI * g)))) (sin (- (tau * (2 * PI * g))))
             (exp (- (tau * (1 / T2)))) (exp (- (tau / T1))),
   Some (relax_arr0 (exp (- (tau / T1))))).
Proof. reflexivity. Qed.

Lemma exp_le_mono x y : x <= y -> exp x <= exp y.
Proof. intros [H| ->]; [left; now apply exp_increasing|right; reflexivity]. Qed.

Lemma e1_range tau T1 : 0 <= tau -> 0 < T1 -> 0 < exp (- (tau / T1)) <= 1.
Proof.
  intros Ht H1. split; [apply exp_pos|]. apply exp_neg_le_1.
  unfold Rdiv. apply Rmult_le_pos; [exact Ht|]. left. now apply Rinv_0_lt_compat.
Qed.
Lemma e2_range tau T2 : 0 <= tau -> 0 < T2 -> 0 < exp (- (tau * (1 / T2))) <= 1.
Proof.
  intros Ht H2. split; [apply exp_pos|]. apply exp_neg_le_1.
  apply Rmult_le_pos; [exact Ht|]. unfold Rdiv. rewrite Rmult_1_l. left. now apply Rinv_0_lt_compat.
Qed.
(* T2 <= 2 T1  ==>  exp(-tau/T2)^2 <= exp(-tau/T1) *)
Lemma e2sq_le_e1 tau T1 T2 : 0 <= tau -> 0 < T1 -> 0 < T2 -> T2 <= 2 * T1 ->
  exp (- (tau * (1 / T2))) * exp (- (tau * (1 / T2))) <= exp (- (tau / T1)).
Proof.
  intros Ht H1 H2 H12. rewrite <- exp_plus. apply exp_le_mono.
  assert (Hi : / T1 <= 2 * / T2).
  { assert (/ (2 * T1) <= / T2) by (apply Rinv_le_contravar; lra).
    rewrite Rinv_mult in H. assert (0 < / T1) by now apply Rinv_0_lt_compat. lra. }
  unfold Rdiv. rewrite Rmult_1_l.
  assert (tau * / T1 <= tau * (2 * / T2)) by (apply Rmult_le_compat_l; assumption). lra.
Qed.

Lemma cnorm2_rot c s e2 : c * c + s * s = 1 ->
  cnorm2 (e2 * c, - (e2 * s)) = e2 * e2 /\ cnorm2 (e2 * c, e2 * s) = e2 * e2.
Proof.
  intros H. unfold cnorm2; simpl. split.
  - replace (e2 * c * (e2 * c) + - (e2 * s) * - (e2 * s)) with (e2 * e2 * (c * c + s * s)) by ring. rewrite H. ring.
  - replace (e2 * c * (e2 * c) + e2 * s * (e2 * s)) with (e2 * e2 * (c * c + s * s)) by ring. rewrite H. ring.
Qed.

Lemma wnorm2_sv_relax c s e2 e1 v : c * c + s * s = 1 ->
  wnorm2 (sv (relax_arr c s e2 e1) v) =
  / 2 * ((e2 * e2) * cnorm2 (fp v)) + / 2 * ((e2 * e2) * cnorm2 (fm v)) + (e1 * e1) * cnorm2 (fz v).
Proof.
  intros H. destruct (cnorm2_rot c s e2 H) as [R1 R2].
  unfold wnorm2, sv, relax_arr. cbn [fp fm fz]. cnorm.
  rewrite !cnorm2_mult, R1, R2. f_equal. unfold cnorm2 at 1. simpl. ring.
Qed.

(* relaxation acts on the deviation from equilibrium by its diagonal factors alone *)
Lemma relax_dev c s e2 e1 (v e : triple Cops) : fp e = RtoC 0 -> fm e = RtoC 0 ->
  tsub (tadd (sv (relax_arr c s e2 e1) v) (sv (relax_arr0 e1) e)) e = sv (relax_arr c s e2 e1) (tsub v e).
Proof.
  destruct v as [[a b] [c' d] [x y]], e as [ep em [p q]]. cbn [fp fm fz]. intros -> ->.
  unfold tsub, tadd, sv, relax_arr, relax_arr0. cbn [fp fm fz]. cnorm.
  f_equal; apply injective_projections; simpl; ring.
Qed.

Lemma gete_transverse s k : wf s -> fp (gete s k) = RtoC 0 /\ fm (gete s k) = RtoC 0.
Proof.
  intros W. rewrite (gete_cases Cops s k W). destruct (k =? 0)%Z; cbn [fp fm t0]; split; reflexivity.
Qed.

Theorem E_contracts_deviation tau T1 T2 g s : 0 <= tau -> 0 < T1 -> 0 < T2 -> wf s ->
  dev2 (apply (op_E tau T1 T2 g) s) <= dev2 s.
Proof.
  intros Ht H1 H2 W. destruct (wf_shape Cops s W) as [n Hs].
  unfold op_E. rewrite E_op_form. cbn [fst snd apply].
  set (a := relax_arr _ _ _ _). set (b := relax_arr0 _).
  pose proof (scalar_shaped Cops a (Some b) s n Hs) as Hs'.
  rewrite (dev2_shaped _ _ Hs'), (dev2_shaped _ _ Hs).
  apply win_le. intros k _. unfold dev.
  rewrite (get_scalar Cops Claws a (Some b) s n k Hs), gete_scalar. cbn [opt_sv].
  destruct (gete_transverse s k W) as [E1 E2].
  unfold a, b. rewrite (relax_dev _ _ _ _ _ _ E1 E2).
  assert (Hcs : cos (- (tau * (2 * PI * g))) * cos (- (tau * (2 * PI * g))) +
                sin (- (tau * (2 * PI * g))) * sin (- (tau * (2 * PI * g))) = 1).
  { pose proof (sin2_cos2 (- (tau * (2 * PI * g)))) as Hsc. unfold Rsqr in Hsc. lra. }
  rewrite (wnorm2_sv_relax _ _ _ _ _ Hcs). unfold wnorm2.
  destruct (e1_range tau T1 Ht H1) as [P1 Q1]. destruct (e2_range tau T2 Ht H2) as [P2 Q2].
  set (e1 := exp (- (tau / T1))) in *. set (e2 := exp (- (tau * (1 / T2)))) in *.
  set (d := tsub (get s k) (gete s k)).
  pose proof (cnorm2_nonneg (fp d)) as N1. pose proof (cnorm2_nonneg (fm d)) as N2. pose proof (cnorm2_nonneg (fz d)) as N3.
  assert (e2 * e2 <= 1) by nra. assert (e1 * e1 <= 1) by nra.
  assert (e2 * e2 * cnorm2 (fp d) <= cnorm2 (fp d)) by nra.
  assert (e2 * e2 * cnorm2 (fm d) <= cnorm2 (fm d)) by nra.
  assert (e1 * e1 * cnorm2 (fz d) <= cnorm2 (fz d)) by nra.
  lra.
Qed.

(* spoiler: the transverse part is discarded *)
Lemma get_spoil_C s k : get (apply OSpoil s) k = @mk3 Cops (RtoC 0) (RtoC 0) (fz (get s k)).
Proof. exact (get_spoil Cops s k). Qed.
Lemma nstate_spoil (s : sm Cops) : nstate (apply OSpoil s) = nstate s.
Proof. cbn [apply apply_spoil]. apply nstate_map. Qed.

Theorem spoiler_contracts s :
  norm2 (apply OSpoil s) <= norm2 s /\ (wf s -> dev2 (apply OSpoil s) <= dev2 s).
Proof.
  split.
  - unfold norm2. rewrite nstate_spoil. apply win_le. intros k _. rewrite get_spoil_C.
    unfold wnorm2. cbn [fp fm fz]. rewrite cnorm2_0.
    pose proof (cnorm2_nonneg (fp (get s k))). pose proof (cnorm2_nonneg (fm (get s k))). lra.
  - intros W. unfold dev2. rewrite nstate_spoil. apply win_le. intros k _. unfold dev.
    rewrite get_spoil_C. change (gete (apply OSpoil s) k) with (gete s k).
    destruct (gete_transverse s k W) as [E1 E2].
    unfold wnorm2, tsub. cbn [fp fm fz]. rewrite E1, E2. cnorm.
    replace (Cminus (RtoC 0) (RtoC 0)) with (RtoC 0) by (apply injective_projections; simpl; ring).
    rewrite cnorm2_0.
    pose proof (cnorm2_nonneg (Cminus (fp (get s k)) (RtoC 0))).
    pose proof (cnorm2_nonneg (Cminus (fm (get s k)) (RtoC 0))). lra.
Qed.

(* diffusion, abstract form: real factors in [0,1] per phase state *)
Lemma get_atten aT aL s n k : shaped s n ->
  get (apply_atten aT aL s) k =
  @mk3 Cops (Cmult (RtoC (aT k)) (fp (get s k)))
            (Cconj (Cmult (RtoC (aT (- k)%Z)) (fp (get s (- k)%Z))))
            (Cmult (RtoC (aL k)) (fz (get s k))).
Proof. intros Hs. exact (get_d_apply Cops Claws _ _ s n k Hs). Qed.

Lemma sq_le_1 a : 0 <= a <= 1 -> 0 <= a * a <= 1.
Proof. intros [H1 H2]. split; nra. Qed.

Lemma atten_pointwise aT aL s n k : shaped s n -> wf s ->
  (forall j, 0 <= aT j <= 1) -> (forall j, 0 <= aL j <= 1) ->
  wnorm2 (get (apply_atten aT aL s) k) <= wnorm2 (get s k).
Proof.
  intros Hs W HT HL. rewrite (get_atten aT aL s n k Hs).
  unfold wnorm2. cbn [fp fm fz].
  rewrite cnorm2_conj, !cnorm2_mult, !cnorm2_RtoC.
  rewrite (wf_fm Cops s W k), cnorm2_conj.
  pose proof (sq_le_1 _ (HT k)). pose proof (sq_le_1 _ (HT (- k)%Z)). pose proof (sq_le_1 _ (HL k)).
  pose proof (cnorm2_nonneg (fp (get s k))). pose proof (cnorm2_nonneg (fp (get s (- k)%Z))).
  pose proof (cnorm2_nonneg (fz (get s k))).
  assert (aT k * aT k * cnorm2 (fp (get s k)) <= cnorm2 (fp (get s k))) by nra.
  assert (aT (- k)%Z * aT (- k)%Z * cnorm2 (fp (get s (- k)%Z)) <= cnorm2 (fp (get s (- k)%Z))) by nra.
  assert (aL k * aL k * cnorm2 (fz (get s k)) <= cnorm2 (fz (get s k))) by nra.
  lra.
Qed.

Theorem D_contracts aT aL s : wf s ->
  (forall k, 0 <= aT k <= 1) -> (forall k, 0 <= aL k <= 1) ->
  norm2 (apply_atten aT aL s) <= norm2 s.
Proof.
  intros W HT HL. destruct (wf_shape Cops s W) as [n Hs].
  pose proof (d_apply_shaped Cops (fun k => RtoC (aT k)) (fun k => RtoC (aL k)) s n Hs) as Hs'.
  fold (apply_atten aT aL s) in Hs'.
  rewrite (norm2_shaped _ _ Hs'), (norm2_shaped _ _ Hs).
  apply win_le. intros k _. now apply (atten_pointwise aT aL s n k).
Qed.

(* the deviation: the equilibrium sits in Z(0), which diffusion leaves alone (b = 0 at k = 0) *)
Theorem D_contracts_deviation aT aL s : wf s ->
  (forall k, 0 <= aT k <= 1) -> (forall k, 0 <= aL k <= 1) -> aL 0%Z = 1 ->
  dev2 (apply_atten aT aL s) <= dev2 s.
Proof.
  intros W HT HL H0. destruct (wf_shape Cops s W) as [n Hs].
  pose proof (d_apply_shaped Cops (fun k => RtoC (aT k)) (fun k => RtoC (aL k)) s n Hs) as Hs'.
  fold (apply_atten aT aL s) in Hs'.
  rewrite (dev2_shaped _ _ Hs'), (dev2_shaped _ _ Hs).
  apply win_le. intros k _. unfold dev.
  rewrite (get_atten aT aL s n k Hs). change (gete (apply_atten aT aL s) k) with (gete s k).
  rewrite (gete_cases Cops s k W).
  unfold wnorm2, tsub. cbn [fp fm fz].
  rewrite (wf_fm Cops s W k). change (@kconj Cops) with Cconj.
  assert (Hm : forall x : C, Cminus x (RtoC 0) = x) by (intros x; apply injective_projections; simpl; ring).
  destruct (Z.eqb_spec k 0) as [->|Hk]; cbn [fp fm fz t0]; cnorm.
  - change (- 0)%Z with 0%Z. rewrite H0.
    replace (Cmult (RtoC 1) (fz (get s 0))) with (fz (get s 0)) by (apply injective_projections; simpl; ring).
    rewrite !Hm, !cnorm2_conj, !cnorm2_mult, !cnorm2_RtoC.
    pose proof (sq_le_1 _ (HT 0%Z)). pose proof (cnorm2_nonneg (fp (get s 0))).
    assert (aT 0%Z * aT 0%Z * cnorm2 (fp (get s 0)) <= cnorm2 (fp (get s 0))) by nra. lra.
  - rewrite !Hm, !cnorm2_conj, !cnorm2_mult, !cnorm2_RtoC.
    pose proof (sq_le_1 _ (HT k)). pose proof (sq_le_1 _ (HT (- k)%Z)). pose proof (sq_le_1 _ (HL k)).
    pose proof (cnorm2_nonneg (fp (get s k))). pose proof (cnorm2_nonneg (fp (get s (- k)%Z))).
    pose proof (cnorm2_nonneg (fz (get s k))).
    assert (aT k * aT k * cnorm2 (fp (get s k)) <= cnorm2 (fp (get s k))) by nra.
    assert (aT (- k)%Z * aT (- k)%Z * cnorm2 (fp (get s (- k)%Z)) <= cnorm2 (fp (get s (- k)%Z))) by nra.
    assert (aL k * aL k * cnorm2 (fz (get s k)) <= cnorm2 (fz (get s k))) by nra.
    lra.
Qed.

(* ------------------------------------------------------------------ (d) the signal bound *)
Lemma win0 f : win 0 f = f 0%Z.
Proof. unfold win, rsum, sumZ. cbn. rnorm. ring. Qed.

Lemma norm2_init PD : norm2 (@init Cops (RtoC PD)) = PD * PD.
Proof.
  assert (Hs : shaped (@init Cops (RtoC PD)) 0) by (split; reflexivity).
  rewrite (norm2_shaped _ _ Hs), win0, (get_init Cops). cbn.
  unfold wnorm2. cbn [fp fm fz]. cnorm. rewrite cnorm2_0, cnorm2_RtoC. ring.
Qed.

Lemma kreal_RtoC x : kreal Cops (RtoC x).
Proof. unfold kreal. apply injective_projections; simpl; ring. Qed.

Lemma bounded_init PD : bounded PD (@init Cops (RtoC PD)).
Proof.
  split; [|split].
  - apply (wf_init Cops Claws). apply kreal_RtoC.
  - rewrite (gete_init Cops). reflexivity.
  - rewrite norm2_init. lra.
Qed.

(* operators that keep wf, the equilibrium and do not increase norm2 keep the invariant *)
Lemma bounded_mono PD s s' :
  wf s' -> gete s' 0 = gete s 0 -> norm2 s' <= norm2 s -> bounded PD s -> bounded PD s'.
Proof.
  intros W' He Hn (W & Hp & Hb). split; [exact W'|split]; [now rewrite He|lra].
Qed.

Lemma bounded_T PD a p s : bounded PD s -> bounded PD (apply (op_T a p) s).
Proof.
  intros B. apply (bounded_mono PD s); [| | |exact B].
  - apply (wf_matrix Cops Claws); [apply T_wf|exact I|apply B].
  - reflexivity.
  - rewrite T_state_isometry. lra.
Qed.
Lemma bounded_Phi PD p s : bounded PD s -> bounded PD (apply (op_Phi p) s).
Proof.
  intros B. apply (bounded_mono PD s); [| | |exact B].
  - apply (wf_matrix Cops Claws); [apply Phi_wf|exact I|apply B].
  - reflexivity.
  - rewrite Phi_state_isometry. lra.
Qed.
Lemma bounded_P PD tau g s : bounded PD s -> bounded PD (apply (op_P tau g) s).
Proof.
  intros B. apply (bounded_mono PD s); [| | |exact B].
  - destruct (P_wf tau g) as [Q1 Q2]. apply (wf_scalar Cops Claws); [exact Q1|exact Q2|apply B].
  - unfold op_P. cbn [apply]. apply gete_scalar.
  - rewrite P_state_isometry. lra.
Qed.
Lemma bounded_S PD d s : bounded PD s -> bounded PD (apply (OShift d None) s).
Proof.
  intros B. destruct B as (W & Hp & Hb). destruct (wf_shape Cops s W) as [n Hs].
  apply (bounded_mono PD s); [| | |split; [exact W|split; assumption]].
  - now apply (wf_shift Cops Claws).
  - apply (only_pd_changes_equilibrium Cops (OShift d None) s W). intros p r; discriminate.
  - rewrite (S_isometry d s n Hs). lra.
Qed.
Lemma bounded_spoil PD s : bounded PD s -> bounded PD (apply OSpoil s).
Proof.
  intros B. apply (bounded_mono PD s); [| | |exact B].
  - apply (wf_spoil Cops Claws). apply B.
  - reflexivity.
  - apply spoiler_contracts.
Qed.
Lemma bounded_D PD aT aL s :
  (forall k, 0 <= aT k <= 1) -> (forall k, 0 <= aL k <= 1) -> (forall k, aL (- k)%Z = aL k) ->
  bounded PD s -> bounded PD (apply_atten aT aL s).
Proof.
  intros HT HL Hev B. apply (bounded_mono PD s); [| | |exact B].
  - apply (wf_d_apply Cops Claws); [|apply B]. intros k. cbn. rewrite Hev.
    apply injective_projections; simpl; ring.
  - reflexivity.
  - apply D_contracts; auto. apply B.
Qed.
Lemma bounded_reset PD s : bounded PD s -> bounded PD (apply OReset s).
Proof.
  intros (W & Hp & Hb). destruct (wf_shape Cops s W) as [n Hs].
  assert (Hg : gete (apply OReset s) 0 = gete s 0).
  { cbn [apply]. rewrite (gete_reset Cops s n 0 Hs). reflexivity. }
  split; [now apply (wf_reset Cops Claws)|split; [now rewrite Hg|]].
  cbn [apply]. rewrite (norm2_shaped _ 0%nat (reset_shaped Cops s n Hs)), win0.
  rewrite (get_reset Cops s n 0 Hs). cbn.
  rewrite (gete_cases Cops s 0 W). cbn. rewrite Hp.
  unfold wnorm2. cbn [fp fm fz]. cnorm. rewrite cnorm2_0, cnorm2_RtoC. lra.
Qed.

(* relaxation: one state *)
Lemma wnorm2_relax_step c s e2 e1 (v : triple Cops) p : c * c + s * s = 1 ->
  wnorm2 (tadd (sv (relax_arr c s e2 e1) v) (sv (relax_arr0 e1) (@mk3 Cops (RtoC 0) (RtoC 0) (RtoC p)))) =
  / 2 * ((e2 * e2) * cnorm2 (fp v)) + / 2 * ((e2 * e2) * cnorm2 (fm v)) +
  ((e1 * fst (fz v) + (1 - e1) * p) * (e1 * fst (fz v) + (1 - e1) * p) + (e1 * snd (fz v)) * (e1 * snd (fz v))).
Proof.
  intros H. destruct (cnorm2_rot c s e2 H) as [R1 R2].
  unfold wnorm2, tadd, sv, relax_arr, relax_arr0. cbn [fp fm fz]. cnorm.
  assert (Hz : forall x : C, Cplus x (Cmult (0, 0) (RtoC 0)) = x) by (intros x; apply injective_projections; simpl; ring).
  rewrite !Hz, !cnorm2_mult, R1, R2. f_equal.
  destruct (fz v) as [z y]. unfold cnorm2. simpl. ring.
Qed.

Lemma relax_pointwise c s e2 e1 (v : triple Cops) p : c * c + s * s = 1 ->
  0 <= e1 <= 1 -> e2 * e2 <= e1 ->
  wnorm2 (tadd (sv (relax_arr c s e2 e1) v) (sv (relax_arr0 e1) (@mk3 Cops (RtoC 0) (RtoC 0) (RtoC p)))) <=
  e1 * wnorm2 v +
  ((e1 * fst (fz v) + (1 - e1) * p) * (e1 * fst (fz v) + (1 - e1) * p) - e1 * (fst (fz v) * fst (fz v))).
Proof.
  intros H He1 He2. rewrite (wnorm2_relax_step c s e2 e1 v p H).
  unfold wnorm2. pose proof (cnorm2_nonneg (fp v)) as N1. pose proof (cnorm2_nonneg (fm v)) as N2.
  assert (e2 * e2 * cnorm2 (fp v) <= e1 * cnorm2 (fp v)) by nra.
  assert (e2 * e2 * cnorm2 (fm v) <= e1 * cnorm2 (fm v)) by nra.
  set (z := fst (fz v)). set (y := snd (fz v)).
  assert (Hzz : cnorm2 (fz v) = z * z + y * y) by reflexivity. rewrite Hzz.
  assert (0 <= e1 * (1 - e1) * (y * y)) by (apply Rmult_le_pos; nra).
  assert (e1 * y * (e1 * y) <= e1 * (y * y)) by nra.
  generalize dependent (cnorm2 (fp v)). generalize dependent (cnorm2 (fm v)). intros. nra.
Qed.

(* norm2 after E <= e1 * norm2 + [(e1 z0 + (1 - e1) PD)^2 - e1 z0^2],  z0 = Re Z(0) *)
Lemma E_norm2_bound tau T1 T2 g PD s : 0 <= tau -> 0 < T1 -> 0 < T2 -> T2 <= 2 * T1 ->
  wf s -> fz (gete s 0) = RtoC PD ->
  let e1 := exp (- (tau / T1)) in let z0 := fst (fz (get s 0)) in
  norm2 (apply (op_E tau T1 T2 g) s) <=
  e1 * norm2 s + ((e1 * z0 + (1 - e1) * PD) * (e1 * z0 + (1 - e1) * PD) - e1 * (z0 * z0)).
Proof.
  intros Ht H1 H2 H12 W Hp e1 z0. destruct (wf_shape Cops s W) as [n Hs].
  unfold op_E. rewrite E_op_form. cbn [fst snd apply]. fold e1.
  set (a := relax_arr _ _ _ _). set (b := relax_arr0 _).
  pose proof (scalar_shaped Cops a (Some b) s n Hs) as Hs'.
  rewrite (norm2_shaped _ _ Hs'), (norm2_shaped _ _ Hs).
  set (X := (e1 * z0 + (1 - e1) * PD) * (e1 * z0 + (1 - e1) * PD) - e1 * (z0 * z0)).
  rewrite <- (win_delta n X), <- win_scale, <- win_add.
  apply win_le. intros k _.
  rewrite (get_scalar Cops Claws a (Some b) s n k Hs). cbn [opt_sv].
  rewrite (gete_cases Cops s k W), Hp.
  assert (Hcs : cos (- (tau * (2 * PI * g))) * cos (- (tau * (2 * PI * g))) +
                sin (- (tau * (2 * PI * g))) * sin (- (tau * (2 * PI * g))) = 1).
  { pose proof (sin2_cos2 (- (tau * (2 * PI * g)))) as Hsc. unfold Rsqr in Hsc. lra. }
  destruct (e1_range tau T1 Ht H1) as [P1 Q1]. fold e1 in P1, Q1.
  pose proof (e2sq_le_e1 tau T1 T2 Ht H1 H2 H12) as He2. fold e1 in He2.
  assert (He1 : 0 <= e1 <= 1) by lra.
  destruct (Z.eqb_spec k 0) as [->|Hk].
  - unfold a, b. cnorm. apply (relax_pointwise _ _ _ e1 (get s 0) PD Hcs He1 He2).
  - unfold a, b. change (@t0 Cops) with (@mk3 Cops (RtoC 0) (RtoC 0) (RtoC 0)).
    pose proof (relax_pointwise _ _ _ e1 (get s k) 0 Hcs He1 He2) as Hpw.
    eapply Rle_trans; [exact Hpw|].
    set (z := fst (fz (get s k))). assert (e1 * z * (e1 * z) <= e1 * (z * z)) by nra. nra.
Qed.

Lemma E_bound_arith e1 N P z : 0 <= e1 <= 1 -> N <= P * P ->
  e1 * N + ((e1 * z + (1 - e1) * P) * (e1 * z + (1 - e1) * P) - e1 * (z * z)) <= P * P.
Proof.
  intros He HN.
  assert (0 <= e1 * (P * P - N)) by (apply Rmult_le_pos; lra).
  assert (0 <= (e1 * (1 - e1)) * ((P - z) * (P - z))) by (apply Rmult_le_pos; [apply Rmult_le_pos; lra|apply Rle_0_sqr]).
  nra.
Qed.

Lemma bounded_E PD tau T1 T2 g s : 0 <= tau -> 0 < T1 -> 0 < T2 -> T2 <= 2 * T1 ->
  bounded PD s -> bounded PD (apply (op_E tau T1 T2 g) s).
Proof.
  intros Ht H1 H2 H12 (W & Hp & Hb).
  split; [|split].
  - destruct (E_wf tau T1 T2 g) as [Q1 Q2]. now apply (wf_scalar Cops Claws).
  - unfold op_E. cbn [apply]. now rewrite gete_scalar.
  - eapply Rle_trans; [exact (E_norm2_bound tau T1 T2 g PD s Ht H1 H2 H12 W Hp)|].
    cbv zeta. destruct (e1_range tau T1 Ht H1). apply E_bound_arith; [lra|exact Hb].
Qed.

Theorem bounded_step PD o s : rvalid o -> bounded PD s -> bounded PD (rapply o s).
Proof.
  intros Hv B. destruct o; cbn [rapply rvalid] in *.
  - now apply bounded_T.
  - now apply bounded_Phi.
  - now apply bounded_P.
  - destruct Hv as (A1 & A2 & A3 & A4). now apply bounded_E.
  - now apply bounded_S.
  - now apply bounded_spoil.
  - now apply bounded_reset.
  - exact B.
  - destruct Hv as (A1 & A2 & A3). now apply bounded_D.
Qed.

(* every program of T / Phi / P / E (T2 <= 2 T1) / untruncated S / SPOILER / RESET / Wait / D *)
Theorem signal_le_PD_run PD ops s : List.Forall rvalid ops -> bounded PD s -> bounded PD (rrun ops s).
Proof.
  revert s. induction ops as [|o ops IH]; intros s Hv B; [exact B|].
  inversion Hv as [|? ? Ho Hr]; subst. cbn [rrun fold_left]. apply IH; auto. now apply bounded_step.
Qed.

(* |F0|^2 <= norm2 on well-formed states *)
Theorem F0_le_norm s : wf s -> cnorm2 (F0 Cops s) <= norm2 s.
Proof.
  intros W. destruct (wf_shape Cops s W) as [n Hs]. rewrite (norm2_shaped _ _ Hs).
  apply Rle_trans with (wnorm2 (get s 0)).
  - unfold wnorm2, F0. pose proof (wf_fm Cops s W 0) as H. change (- 0)%Z with 0%Z in H.
    rewrite H. change (@kconj Cops) with Cconj. rewrite cnorm2_conj.
    pose proof (cnorm2_nonneg (fz (get s 0))). lra.
  - apply (win_term_le n (fun k => wnorm2 (get s k)) 0%Z); [intros; apply wnorm2_nonneg|lia].
Qed.

Theorem signal_le_PD PD ops : 0 <= PD -> List.Forall rvalid ops ->
  Cmod (F0 Cops (rrun ops (@init Cops (RtoC PD)))) <= PD.
Proof.
  intros HP Hv.
  destruct (signal_le_PD_run PD ops _ Hv (bounded_init PD)) as (W & _ & Hb).
  pose proof (F0_le_norm _ W) as HF.
  rewrite Cmod_cnorm2. apply Rle_trans with (sqrt (PD * PD)).
  - apply sqrt_le_1_alt. lra.
  - rewrite (sqrt_square PD HP). lra.
Qed.

(* ------------------------------------------------------------------ link of the abstract D to the generated formulas *)
(* 1-D state matrix, scalar diffusivity D >= 0, duration tau >= 0: sm.k = k * kv; longitudinal factor
   exp(-bL D) with bL = bmat_const(k kv); transverse factor exp(-bT D) with bT = bmat over the ramp
   (k kv - sh) -> k kv  (sh = D.k * kvalue, 0 when D.k is None).  These are the GENERATED formulas of Gen/Diffusion.v. *)
Definition diff1d_aT (tau D kv sh : R) (k : Z) : R :=
  Gen.Diffusion.att_iso1 (Gen.Diffusion.bmat tau (IZR k * kv - sh) (IZR k * kv - sh) (IZR k * kv) (IZR k * kv)) D.
Definition diff1d_aL (tau D kv : R) (k : Z) : R :=
  Gen.Diffusion.att_iso1 (Gen.Diffusion.bmat_const tau (IZR k * kv) (IZR k * kv)) D.

Theorem diff1d_valid tau D kv sh : 0 <= tau -> 0 <= D ->
  rvalid (RD (diff1d_aT tau D kv sh) (diff1d_aL tau D kv)) /\ diff1d_aL tau D kv 0%Z = 1.
Proof.
  intros Ht HD. split; [split; [|split]|].
  - intros k. unfold diff1d_aT. split; [left; apply exp_pos|].
    destruct (att_le_1_1d tau (IZR k * kv - sh) (IZR k * kv) D Ht HD) as (_ & H & _). exact H.
  - intros k. unfold diff1d_aL. split; [left; apply exp_pos|].
    destruct (att_le_1_1d tau (IZR k * kv) (IZR k * kv) D Ht HD) as (_ & _ & H).
    destruct (iso_equals_tensor D) as (E & _). rewrite E. exact H.
  - intros k. unfold diff1d_aL. rewrite opp_IZR.
    replace (- IZR k * kv) with (- (IZR k * kv)) by ring.
    destruct (bmatrix_even tau (IZR k * kv) (IZR k * kv) 0 0) as [_ E]. now rewrite E.
  - unfold diff1d_aL. replace (IZR 0 * kv) with 0 by ring.
    destruct (k0_unattenuated tau) as (_ & _ & E & _). apply E.
Qed.

(* ------------------------------------------------------------------ (e) Parseval: the norm is the RMS magnetisation *)
Section Parseval.
Variable S : ScalOps.
Hypothesis L : ScalLaws S.
Add Ring Kr : (k_ring S L).
Variables w wi : S.
Hypothesis wwi : (w * wi)%K = k1.
Hypothesis wconj : kconj w = wi.                 (* w on the unit circle *)
Notation wpow := (zpow S w wi).
Variable N : nat.
Hypothesis principal : forall j, (j <> 0)%Z -> (- Z.of_nat N < j < Z.of_nat N)%Z ->
  sumn S N (fun m => wpow (j * Z.of_nat m)%Z) = k0.

Lemma conj_kpow x n : kconj (kpow S x n) = kpow S (kconj x) n.
Proof.
  induction n as [|n IH]; simpl; [apply (conj_1 S L)|].
  now rewrite (conj_mul S L), IH.
Qed.
Lemma wiconj : kconj wi = w.
Proof. rewrite <- wconj. apply (conj_invol S L). Qed.
Lemma conj_wpow m : kconj (wpow m) = wpow (- m)%Z.
Proof.
  destruct m; simpl.
  - apply (conj_1 S L).
  - now rewrite conj_kpow, wconj.
  - now rewrite conj_kpow, wiconj.
Qed.
Lemma conj_sumn n (f : nat -> S) : kconj (sumn S n f) = sumn S n (fun i => kconj (f i)).
Proof.
  induction n as [|n IH]; simpl; [apply (conj_0 S L)|].
  now rewrite (conj_add S L), IH.
Qed.

(* magnetisation component of isochromat m *)
Definition Gm (n : nat) (g : Z -> S) (m : nat) : S :=
  syn S (wpow (Z.of_nat m)) (wpow (- Z.of_nat m)) n g.

Lemma conj_Gm n g m :
  kconj (Gm n g m) =
  sumn S (2 * n + 1) (fun i => (wpow (- (Z.of_nat m * (- Z.of_nat n + Z.of_nat i))) *
                                 kconj (g (- Z.of_nat n + Z.of_nat i)%Z))%K).
Proof.
  unfold Gm, syn, sumZ. rewrite conj_sumn. apply (sumn_ext S). intros i _.
  rewrite (conj_mul S L), (zpow_mul S L w wi wwi), conj_wpow. reflexivity.
Qed.

Theorem parseval_gen n g : supp S n g -> (2 * n < N)%nat ->
  sumn S N (fun m => (Gm n g m * kconj (Gm n g m))%K) =
  (kofnat S N * sumZ S (- Z.of_nat n) (2 * n + 1) (fun k => (g k * kconj (g k))%K))%K.
Proof.
  intros Hg HN. symmetry.
  rewrite <- (sumZ_scale S L). unfold sumZ.
  rewrite (sumn_ext S (2 * n + 1) _ (fun i => sumn S N (fun m =>
     (Gm n g m * (wpow (- (Z.of_nat m * (- Z.of_nat n + Z.of_nat i))) * kconj (g (- Z.of_nat n + Z.of_nat i)%Z)))%K))).
  2:{ intros i Hi. set (k := (- Z.of_nat n + Z.of_nat i)%Z).
      transitivity ((kofnat S N * g k) * kconj (g k))%K; [ring|].
      rewrite <- (dft_inversion S L w wi wwi N principal n g k Hg HN) by (unfold k; lia).
      transitivity (kconj (g k) * sumn S N (fun m => (wpow (- (Z.of_nat m * k)) * Gm n g m)%K))%K; [unfold Gm; ring|].
      rewrite <- (sumn_scale S L). apply (sumn_ext S). intros m _. ring. }
  rewrite (sumn_swap S L).
  apply (sumn_ext S). intros m Hm. rewrite (sumn_scale S L), conj_Gm. reflexivity.
Qed.

End Parseval.

(* ---- at K = C ---- *)
Lemma Cmult_conj x : Cmult x (Cconj x) = RtoC (cnorm2 x).
Proof. destruct x. unfold cnorm2. apply injective_projections; simpl; ring. Qed.
Lemma sumn_RtoC n (f : nat -> R) : sumn Cops n (fun i => RtoC (f i)) = RtoC (sumn Rops n f).
Proof.
  induction n as [|n IH]; cbn [sumn]; [reflexivity|].
  rewrite IH. cnorm. rnorm. apply injective_projections; simpl; ring.
Qed.
Lemma sumn_const1 n : sumn Rops n (fun _ => 1) = INR n.
Proof.
  induction n as [|n IH]; [reflexivity|]. cbn [sumn]. rewrite IH, S_INR. rnorm. ring.
Qed.
Lemma kofnat_C n : kofnat Cops n = RtoC (INR n).
Proof. unfold kofnat. change (@k1 Cops) with (RtoC 1). now rewrite sumn_RtoC, sumn_const1. Qed.
Lemma sumn_R_add n f g : sumn Rops n (fun i => f i + g i) = sumn Rops n f + sumn Rops n g.
Proof. exact (sumn_add Rops Rlaws n f g). Qed.
Lemma sumn_R_scale n c f : sumn Rops n (fun i => c * f i) = c * sumn Rops n f.
Proof. exact (sumn_scale Rops Rlaws n c f). Qed.

Section ParsevalC.
Variables w wi : C.
Hypothesis wwi : Cmult w wi = RtoC 1.
Hypothesis wconj : Cconj w = wi.
Variable N : nat.
Hypothesis principal : forall j, (j <> 0)%Z -> (- Z.of_nat N < j < Z.of_nat N)%Z ->
  sumn Cops N (fun m => zpow Cops w wi (j * Z.of_nat m)%Z) = @k0 Cops.

(* one component: sum over the ensemble of |M_c|^2 = N * sum over the states of |c(k)|^2 *)
Lemma parseval_C n (g : Z -> C) : supp Cops n g -> (2 * n < N)%nat ->
  sumn Rops N (fun m => cnorm2 (Gm Cops w wi n g m)) = INR N * win n (fun k => cnorm2 (g k)).
Proof.
  intros Hg HN.
  pose proof (parseval_gen Cops Claws w wi wwi wconj N principal n g Hg HN) as P.
  rewrite kofnat_C in P. cnorm. change (@kconj Cops) with Cconj in P.
  rewrite (sumn_ext Cops N _ (fun m => RtoC (cnorm2 (Gm Cops w wi n g m)))) in P by (intros; apply Cmult_conj).
  rewrite sumn_RtoC in P.
  unfold sumZ in P.
  rewrite (sumn_ext Cops (2 * n + 1) _ (fun i => RtoC (cnorm2 (g (- Z.of_nat n + Z.of_nat i)%Z)))) in P by (intros; apply Cmult_conj).
  rewrite sumn_RtoC in P. rewrite <- RtoC_mult in P.
  apply (f_equal fst) in P. exact P.
Qed.

(* (e) the squared norm is the ensemble mean of the squared weighted length of the magnetisation
   M(w^m) = sum_k w^(m k) state(k) of the N isochromats *)
Theorem norm_is_rms (s : sm Cops) n : shaped s n -> (2 * n < N)%nat ->
  INR N * norm2 s =
  sumn Rops N (fun m => wnorm2 (M Cops (zpow Cops w wi (Z.of_nat m)) (zpow Cops w wi (- Z.of_nat m)) s)).
Proof.
  intros Hs HN. unfold M. rewrite (shaped_nstate Cops s n Hs).
  assert (Hsupp : forall c : triple Cops -> C, c t0 = RtoC 0 -> supp Cops n (fun k => c (get s k))).
  { intros c Hc. exact (suppT_comp Cops n (get s) c Hc (get_supp Cops s n Hs)). }
  rewrite (sumn_ext Rops N _ (fun m => / 2 * cnorm2 (Gm Cops w wi n (fun k => fp (get s k)) m) +
                                       / 2 * cnorm2 (Gm Cops w wi n (fun k => fm (get s k)) m) +
                                       cnorm2 (Gm Cops w wi n (fun k => fz (get s k)) m))) by reflexivity.
  rewrite !sumn_R_add, !sumn_R_scale.
  rewrite !parseval_C by (auto; apply Hsupp; reflexivity).
  rewrite (norm2_shaped s n Hs). unfold wnorm2. rewrite !win_add, !win_scale. ring.
Qed.

End ParsevalC.

(* the ensemble exists: w = exp(2 pi i / N) *)
Theorem norm_is_rms_omega N (s : sm Cops) n : shaped s n -> (2 * n < N)%nat ->
  norm2 s = / INR N *
  sumn Rops N (fun m => wnorm2 (M Cops (zpow Cops (omega N) (omega_inv N) (Z.of_nat m))
                                      (zpow Cops (omega N) (omega_inv N) (- Z.of_nat m)) s)).
Proof.
  intros Hs HN. assert (HNpos : (0 < N)%nat) by lia.
  rewrite <- (norm_is_rms (omega N) (omega_inv N) (omega_inv_ok N) (cis_conj _) N (omega_principal N HNpos) s n Hs HN).
  field. apply Rgt_not_eq, lt_0_INR, HNpos.
Qed.

(* weighted length of (M+, M-, Mz) = squared length of the real magnetisation vector *)
Lemma wnorm2_of_xyz x y z : wnorm2 (of_xyz (x, y, z)) = x * x + y * y + z * z.
Proof. unfold wnorm2, of_xyz, cnorm2. cbn [fp fm fz fst snd]. field. Qed.

(* in terms of the N independently simulated isochromats of C01 (Proofs/Ensemble.v): for every program of
   valid operators without truncation, the squared norm of the final state matrix is the ensemble mean of
   the squared (weighted) magnetisation length *)
Theorem norm_is_rms_of_isochromats N (ops : list (op Cops)) (s0 : sm Cops) :
  wf s0 -> List.Forall (wf_op Cops) ops -> no_trunc_run Cops ops s0 ->
  (2 * nstate (run ops s0) < N)%nat ->
  norm2 (run ops s0) =
  / INR N * sumn Rops N (fun m => wnorm2 (Ensemble.iso Cops (omega N) (omega_inv N) m ops s0)).
Proof.
  intros W Ho Hn HN.
  destruct (wf_shape Cops _ (wf_run Cops Claws ops s0 Ho W)) as [n Hs].
  rewrite (shaped_nstate Cops _ n Hs) in HN.
  rewrite (norm_is_rms_omega N _ n Hs HN). f_equal.
  apply (sumn_ext Rops). intros m _.
  now rewrite (Ensemble.iso_is_M Cops Claws (omega N) (omega_inv N) (omega_inv_ok N) m ops s0 W Ho Hn).
Qed.

(* ------------------------------------------------------------------ utils.get_norm on the stored array *)
Lemma sumn_fold (S : ScalOps) (L : ScalLaws S) (h : triple S -> S) (l : list (triple S)) :
  sumn S (length l) (fun i => h (nth i l t0)) = fold_right (fun x acc => kadd (h x) acc) k0 l.
Proof.
  induction l as [|x l IH]; [reflexivity|].
  cbn [length fold_right]. change (Datatypes.S (length l)) with (1 + length l)%nat.
  rewrite (sumn_app S L 1 (length l)). cbn [sumn nth].
  rewrite <- IH.
  replace (sumn S (length l) (fun i => h (nth (1 + i) (x :: l) t0))) with (sumn S (length l) (fun i => h (nth i l t0))) by reflexivity.
  pose proof (k_ring S L) as Rr. rewrite (Radd_0_l Rr). reflexivity.
Qed.

(* code_norm2, defined on the function view, is the sum utils.get_norm takes over the stored rows *)
Theorem code_norm2_list (s : sm Cops) n : shaped s n -> RtoC (code_norm2 s) = @list_norm2 Cops (st s).
Proof.
  intros Hs. destruct Hs as [H1 H2]. unfold list_norm2.
  rewrite <- (sumn_fold Cops Claws (@sq2 Cops) (st s)).
  unfold code_norm2. rewrite (shaped_nstate Cops s n (conj H1 H2)). unfold win, rsum, sumZ.
  rewrite <- sumn_RtoC. rewrite H1. apply (sumn_ext Cops). intros i Hi.
  unfold Views.get. rewrite (getZ_odd t0 (st s) n _ H1).
  replace (- Z.of_nat n + Z.of_nat i + Z.of_nat n)%Z with (Z.of_nat i) by lia.
  rewrite nthZ_nat. unfold sq2. cnorm. change (@kconj Cops) with Cconj.
  rewrite !Cmult_conj. apply injective_projections; simpl; ring.
Qed.
