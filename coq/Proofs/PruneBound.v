(* C13, pruning bound for ONE pruning step, over the complex numbers (Coquelicot):
   a value reconstructed from the states is  sum_j chi_j * F_j  with |chi_j| <= 1 (chi_j = exp(i k_j x), or 1 at
   position 0); removing the states selected by a mask whose removed entries all satisfy |F_j| <= eps changes the
   value by at most eps * (number of removed states).  The mask / select are those of Model/ShiftND.v. *)
From Coq Require Import List Reals Lra Lia Bool Arith.
From Coquelicot Require Import Coquelicot.
From EPG Require Import ShiftND.
Import ListNotations.
Local Open Scope R_scope.

Fixpoint psum (l : list (C * C)) : C :=
  match l with [] => RtoC 0 | (c, f) :: t => Cplus (Cmult c f) (psum t) end.

Fixpoint nremoved (m : list bool) : nat :=
  match m with [] => 0%nat | true :: t => nremoved t | false :: t => Datatypes.S (nremoved t) end.

Lemma Cmod_0' : Cmod (RtoC 0) = 0. Proof. apply Cmod_0. Qed.

Theorem prune_value_bound (eps : R) (m : list bool) (l : list (C * C)) :
  0 <= eps -> length m = length l ->
  (forall j, (j < length l)%nat -> Cmod (fst (nth j l (RtoC 0, RtoC 0))) <= 1) ->
  (forall j, (j < length l)%nat -> nth j m true = false -> Cmod (snd (nth j l (RtoC 0, RtoC 0))) <= eps) ->
  Cmod (Cminus (psum l) (psum (select m l))) <= eps * INR (nremoved m).
Proof.
  intros Heps. revert l. induction m as [|b m IH]; intros [|[c f] l] Hlen Hc Hf; simpl in Hlen; try lia.
  - simpl. replace (Cminus (RtoC 0) (RtoC 0)) with (RtoC 0) by (apply injective_projections; simpl; ring).
    rewrite Cmod_0. lra.
  - assert (Cmod (Cminus (psum l) (psum (select m l))) <= eps * INR (nremoved m)) as H.
    { apply IH; [lia| |].
      - intros j Hj. apply (Hc (Datatypes.S j)). simpl; lia.
      - intros j Hj Hm. apply (Hf (Datatypes.S j)); [simpl; lia|exact Hm]. }
    destruct b.
    + cbn [select psum nremoved].
      replace (Cminus (Cplus (Cmult c f) (psum l)) (Cplus (Cmult c f) (psum (select m l))))
        with (Cminus (psum l) (psum (select m l))) by (apply injective_projections; simpl; ring).
      exact H.
    + cbn [select psum nremoved]. rewrite S_INR.
      replace (Cminus (Cplus (Cmult c f) (psum l)) (psum (select m l)))
        with (Cplus (Cmult c f) (Cminus (psum l) (psum (select m l)))) by (apply injective_projections; simpl; ring).
      eapply Rle_trans; [apply Cmod_triangle|].
      rewrite Cmod_mult.
      assert (Cmod c <= 1) as H1 by (apply (Hc 0%nat); simpl; lia).
      assert (Cmod f <= eps) as H2 by (apply (Hf 0%nat); [simpl; lia|reflexivity]).
      pose proof (Cmod_ge_0 c) as H3. pose proof (Cmod_ge_0 f) as H4.
      assert (Cmod c * Cmod f <= eps) by nra. lra.
Qed.

(* with tolerance 0 nothing but exact zeros is removed and the value is unchanged *)
Corollary prune_value_exact_tol0 (m : list bool) (l : list (C * C)) :
  length m = length l ->
  (forall j, (j < length l)%nat -> Cmod (fst (nth j l (RtoC 0, RtoC 0))) <= 1) ->
  (forall j, (j < length l)%nat -> nth j m true = false -> Cmod (snd (nth j l (RtoC 0, RtoC 0))) <= 0) ->
  psum (select m l) = psum l.
Proof.
  intros Hlen Hc Hf. pose proof (prune_value_bound 0 m l (Rle_refl 0) Hlen Hc Hf) as H.
  rewrite Rmult_0_l in H.
  assert (Cmod (Cminus (psum l) (psum (select m l))) = 0) as H0 by (pose proof (Cmod_ge_0 (Cminus (psum l) (psum (select m l)))); lra).
  apply Cmod_eq_0 in H0. symmetry.
  replace (psum l) with (Cplus (Cminus (psum l) (psum (select m l))) (psum (select m l))) by (apply injective_projections; simpl; ring).
  rewrite H0. apply injective_projections; simpl; ring.
Qed.
