(* C13, pruning bound for ONE pruning step, over the complex numbers (Coquelicot):
   a value reconstructed from the states is  sum_j chi_j * F_j  with |chi_j| <= 1 (chi_j = exp(i k_j x), or 1 at
   position 0); removing the states selected by a mask whose removed entries all satisfy |F_j| <= eps changes the
   value by at most eps * (number of removed states).  The mask / select are those of Model/ShiftND.v. *)
From Coq Require Import List Reals Lra Lia Bool Arith.
From Coquelicot Require Import Coquelicot.
From EPG Require Import ShiftND.
Import ListNotations.
Local Open Scope R_scope.

Fixpoint psum (l : list (C * C)) : C :=
  match l with [] => RtoC 0 | (c, f) :: t => Cplus (Cmult c f) (psum t) end.

Fixpoint nremoved (m : list bool) : nat :=
  match m with [] => 0%nat | true :: t => nremoved t | false :: t => Datatypes.S (nremoved t) end.

Lemma Cmod_0' : Cmod (RtoC 0) = 0. Proof. apply Cmod_0. Qed.

Theorem prune_value_bound (eps : R) (m : list bool) (l : list (C * C)) :
  0 <= eps -> length m = length l ->
  (forall j, (j < length l)%nat -> Cmod (fst (nth j l (RtoC 0, RtoC 0))) <= 1) ->
  (forall j, (j < length l)%nat -> nth j m true = false -> Cmod (snd (nth j l (RtoC 0, RtoC 0))) <= eps) ->
  Cmod (Cminus (psum l) (psum (select m l))) <= eps * INR (nremoved m).
Proof.
  intros Heps. revert l. induction m as [|b m IH]; intros [|[c f] l] Hlen Hc Hf; simpl in Hlen; try lia.
  - simpl. replace (Cminus (RtoC 0) (RtoC 0)) with (RtoC 0) by (apply injective_projections; simpl; ring).
    rewrite Cmod_0. lra.
  - assert (Cmod (Cminus (psum l) (psum (select m l))) <= eps * INR (nremoved m)) as H.
    { apply IH; [lia| |].
      - intros j Hj. apply (Hc (Datatypes.S j)). simpl; lia.
      - intros j Hj Hm. apply (Hf (Datatypes.S j)); [simpl; lia|exact Hm]. }
    destruct b.
    + cbn [select psum nremoved].
      replace (Cminus (Cplus (Cmult c f) (psum l)) (Cplus (Cmult c f) (psum (select m l))))
        with (Cminus (psum l) (psum (select m l))) by (apply injective_projections; simpl; ring).
      exact H.
    + cbn [select psum nremoved]. rewrite S_INR.
      replace (Cminus (Cplus (Cmult c f) (psum l)) (psum (select m l)))
        with (Cplus (Cmult c f) (Cminus (psum l) (psum (select m l)))) by (apply injective_projections; simpl; ring).
      eapply Rle_trans; [apply Cmod_triangle|].
      rewrite Cmod_mult.
      assert (Cmod c <= 1) as H1 by (apply (Hc 0%nat); simpl; lia).
      assert (Cmod f <= eps) as H2 by (apply (Hf 0%nat); [simpl; lia|reflexivity]).
      pose proof (Cmod_ge_0 c) as H3. pose proof (Cmod_ge_0 f) as H4.
      assert (Cmod c * Cmod f <= eps) by nra. lra.
Qed.

(* with tolerance 0 nothing but exact zeros is removed and the value is unchanged *)
Corollary prune_value_exact_tol0 (m : list bool) (l : list (C * C)) :
  length m = length l ->
  (forall j, (j < length l)%nat -> Cmod (fst (nth j l (RtoC 0, RtoC 0))) <= 1) ->
  (forall j, (j < length l)%nat -> nth j m true = false -> Cmod (snd (nth j l (RtoC 0, RtoC 0))) <= 0) ->
  psum (select m l) = psum l.
Proof.
  intros Hlen Hc Hf. pose proof (prune_value_bound 0 m l (Rle_refl 0) Hlen Hc Hf) as H.
  rewrite Rmult_0_l in H.
  assert (Cmod (Cminus (psum l) (psum (select m l))) = 0) as H0 by (pose proof (Cmod_ge_0 (Cminus (psum l) (psum (select m l)))); lra).
  apply Cmod_eq_0 in H0. symmetry.
  replace (psum l) with (Cplus (Cminus (psum l) (psum (select m l))) (psum (select m l))) by (apply injective_projections; simpl; ring).
  rewrite H0. apply injective_projections; simpl; ring.
Qed.

(* ---------------------------------------------------------------- the bound on the MODEL's own pruning mask
   [shiftnd] over the complex instance: for any batch entry o of the relocated amplitudes, the value
   sum_j chi_j F+_j(o) reconstructed before and after pruning with the mask keep_centre (nonzero_mask negl ..)
   differs by at most eps per removed state, provided the tolerance test [negl] implies |F+| <= eps *)
From EPG Require Import Scalar State CInst ListLemmas PruneProofs.

Lemma nth_map_seq {B} (f : nat -> B) n j d : (j < n)%nat -> nth j (map f (seq 0 n)) d = f j.
Proof.
  intros Hj. rewrite (nth_indep _ d (f 0%nat)) by now rewrite map_length, seq_length.
  rewrite (map_nth f (seq 0 n) 0%nat j). now rewrite seq_nth.
Qed.

Theorem prune_step_bound_model (negl : triple Cops -> bool) (eps : R) (keys : list key)
    (amps : list (list (triple Cops))) (dk : key) (kdim : nat) (nmax : option Z) (chi : nat -> C) (o : list (triple Cops)) :
  let p := shiftnd_plan keys dk kdim nmax in
  let n2 := length (pk p) in
  let outs := map (relocate p) amps in
  let mask := keep_centre (nonzero_mask negl n2 outs) in
  let l := map (fun j => (chi j, fp (nth j o t0))) (seq 0 n2) in
  0 <= eps ->
  (forall t : triple Cops, negl t = true -> Cmod (fp t) <= eps) ->
  (forall j, Cmod (chi j) <= 1) ->
  In o outs ->
  Cmod (Cminus (psum l) (psum (select mask l))) <= eps * INR (nremoved mask).
Proof.
  intros p n2 outs mask l Heps Hnegl Hchi Ho.
  assert (length l = n2) as Hl by (unfold l; now rewrite map_length, seq_length).
  assert (length mask = n2) as Hm by (unfold mask; now rewrite keep_centre_length, nonzero_mask_length).
  apply prune_value_bound; [exact Heps|transitivity n2; [exact Hm|symmetry; exact Hl]| |].
  - intros j Hj0. assert (j < n2)%nat as Hj by (rewrite <- Hl; exact Hj0). unfold l. rewrite nth_map_seq by exact Hj. apply Hchi.
  - intros j Hj0 Hf. assert (j < n2)%nat as Hj by (rewrite <- Hl; exact Hj0). unfold l. rewrite nth_map_seq by exact Hj. cbn [snd].
    apply Hnegl.
    apply (prune_removes_only_negligible Cops negl keys amps dk kdim nmax j Hj); [|exact Ho].
    rewrite (nth_indep _ false true) by (fold p; fold n2; fold outs; fold mask; lia). exact Hf.
Qed.
