(* C13, state pruning of the n-D shift (Model/ShiftND.v, [shiftnd] with prune = true):
   the zero state is never removed, only states that are negligible in EVERY batch entry are removed,
   and when nothing is negligible the pruned result is the unpruned one. *)
From Coq Require Import List ZArith Lia Bool Arith.
From EPG Require Import Scalar State ListLemmas ShiftND ShiftNDProofs.
Import ListNotations.

Section Prune.
Variable S : ScalOps.
Notation triple := (triple S).

Lemma select_in {B} (m : list bool) (l : list B) i d :
  length m = length l -> (i < length l)%nat -> nth i m false = true -> In (nth i l d) (select m l).
Proof.
  revert l i. induction m as [|b m IH]; intros [|x l] i Hlen Hi Hb; simpl in *; try lia.
  destruct i as [|i].
  - subst b. left. reflexivity.
  - assert (In (nth i l d) (select m l)) as H by (apply IH; auto; lia).
    destruct b; [right|]; exact H.
Qed.

Lemma select_all_true {B} (m : list bool) (l : list B) :
  length m = length l -> (forall i, (i < length m)%nat -> nth i m false = true) -> select m l = l.
Proof.
  revert l. induction m as [|b m IH]; intros [|x l] Hlen H; simpl in *; try lia; auto.
  assert (b = true) as -> by (apply (H 0%nat); lia).
  f_equal. apply IH; [lia|]. intros i Hi. apply (H (Datatypes.S i)). lia.
Qed.

Lemma keep_centre_length m : length (keep_centre m) = length m.
Proof. unfold keep_centre. apply length_tab. Qed.

Lemma keep_centre_nth m j : (j < length m)%nat ->
  nth j (keep_centre m) false = (Nat.eqb j ((length m - 1) / 2) || nth j m false).
Proof. intros Hj. unfold keep_centre. now rewrite nth_tab. Qed.

(* the mask always keeps the centre (zero) state *)
Lemma keep_centre_centre m : (0 < length m)%nat -> nth ((length m - 1) / 2) (keep_centre m) false = true.
Proof.
  intros H. rewrite keep_centre_nth.
  - now rewrite Nat.eqb_refl.
  - apply Nat.le_lt_trans with (length m - 1)%nat; [apply Nat.div_le_upper_bound; lia|lia].
Qed.

Lemma nonzero_mask_length (negl : triple -> bool) n2 outs : length (nonzero_mask negl n2 outs) = n2.
Proof. unfold nonzero_mask. apply length_tab. Qed.

Lemma relocate_length p (amps : list triple) : length (relocate p amps) = length (pk p).
Proof. unfold relocate. apply length_tab. Qed.

Section OneShift.
Variables (negl : triple -> bool) (keys : list key) (amps : list (list triple)) (dk : key) (kdim : nat) (nmax : option Z).
Let p := shiftnd_plan keys dk kdim nmax.
Let n2 := length (pk p).
Let outs := map (relocate p) amps.
Let mask := keep_centre (nonzero_mask negl n2 outs).

Lemma mask_length : length mask = n2.
Proof. unfold mask. now rewrite keep_centre_length, nonzero_mask_length. Qed.

(* (1) pruning never removes the zero state: the centre wavenumber of the shifted set is in the pruned set *)
Theorem prune_keeps_centre : (0 < n2)%nat ->
  In (nth ((n2 - 1) / 2) (pk p) []) (fst (shiftnd negl keys amps dk kdim nmax true)).
Proof.
  intros Hn. unfold shiftnd. fold p. fold n2. fold outs. fold mask. cbn [fst].
  apply select_in.
  - apply mask_length.
  - fold n2. apply Nat.le_lt_trans with (n2 - 1)%nat; [apply Nat.div_le_upper_bound; lia|lia].
  - unfold mask. pose proof (keep_centre_centre (nonzero_mask negl n2 outs)) as H.
    rewrite nonzero_mask_length in H. now apply H.
Qed.

(* (2) a state is removed only when it is negligible in every batch entry *)
Theorem prune_removes_only_negligible j : (j < n2)%nat -> nth j mask false = false ->
  forall o, In o outs -> negl (nth j o t0) = true.
Proof.
  intros Hj Hm o Ho. unfold mask in Hm.
  rewrite keep_centre_nth in Hm by now rewrite nonzero_mask_length.
  apply orb_false_elim in Hm. destruct Hm as [_ Hm].
  unfold nonzero_mask in Hm. rewrite nth_tab in Hm by exact Hj.
  destruct (negl (nth j o t0)) eqn:E; [reflexivity|].
  exfalso. assert (existsb (fun o0 => negb (negl (nth j o0 t0))) outs = true) as H.
  { apply existsb_exists. exists o. split; [exact Ho|]. now rewrite E. }
  congruence.
Qed.

(* (3) when no state is negligible in all entries (in particular with tolerance 0 on non-zero states) pruning is exact *)
Theorem prune_nothing_negligible :
  (forall j, (j < n2)%nat -> exists o, In o outs /\ negl (nth j o t0) = false) ->
  shiftnd negl keys amps dk kdim nmax true = shiftnd negl keys amps dk kdim nmax false.
Proof.
  intros H. unfold shiftnd. fold p. fold n2. fold outs. fold mask.
  assert (forall i, (i < length mask)%nat -> nth i mask false = true) as Hall.
  { intros i Hi. rewrite mask_length in Hi. unfold mask.
    rewrite keep_centre_nth by now rewrite nonzero_mask_length.
    unfold nonzero_mask. rewrite nth_tab by exact Hi.
    destruct (H i Hi) as [o [Ho Hn]].
    assert (existsb (fun o0 => negb (negl (nth i o0 t0))) outs = true) as ->.
    { apply existsb_exists. exists o. split; [exact Ho|]. now rewrite Hn. }
    apply orb_true_r. }
  f_equal.
  - apply select_all_true; [apply mask_length|exact Hall].
  - rewrite <- (map_id outs) at 2. apply map_ext_in. intros o Ho.
    apply select_all_true; [|exact Hall].
    rewrite mask_length. unfold outs in Ho. apply in_map_iff in Ho. destruct Ho as [a [<- _]].
    now rewrite relocate_length.
Qed.

(* ---------- n-D truncation: with a cap m, every wavenumber kept by the shift satisfies the cap test
   ([within kdim m]: all |components| <= m, in at least one batch entry), pruned or not ---------- *)
End OneShift.

Lemma select_subset {B} (m : list bool) (l : list B) x : In x (select m l) -> In x l.
Proof.
  revert l. induction m as [|b m IH]; intros [|y l] H; simpl in *; try contradiction.
  - destruct b; contradiction.
  - destruct b; [destruct H as [->|H]; [now left|right; now apply IH]|right; now apply IH].
Qed.

Lemma select_map_true {B} (f : B -> bool) (l : list B) x : In x (select (map f l) l) -> f x = true.
Proof.
  induction l as [|y l IH]; simpl; [contradiction|].
  destruct (f y) eqn:E; [intros [<-|H]; [exact E|now apply IH]|exact IH].
Qed.

Theorem nd_cap_plan (keys : list key) (dk : key) (kdim : nat) (m : Z) (k : key) :
  In k (pk (shiftnd_plan keys dk kdim (Some m))) -> within kdim m k = true.
Proof.
  unfold shiftnd_plan. destruct (unique_keys _) as [k2 idx].
  destruct (forallb (fun b : bool => b) (map (within kdim m) k2)) eqn:E; cbn [pk]; intros H.
  - rewrite forallb_forall in E. apply E. now apply in_map.
  - now apply select_map_true in H.
Qed.

Theorem nd_cap (negl : triple -> bool) (keys : list key) (amps : list (list triple)) (dk : key) (kdim : nat)
    (m : Z) (prune : bool) (k : key) :
  In k (fst (shiftnd negl keys amps dk kdim (Some m) prune)) -> within kdim m k = true.
Proof.
  unfold shiftnd. destruct prune; cbn [fst]; intros H.
  - apply select_subset in H. now apply nd_cap_plan in H.
  - now apply nd_cap_plan in H.
Qed.

(* [within] for an un-batched wavenumber (one chunk): every component is within the cap *)
Lemma within_single (kdim : nat) (m : Z) (k : key) : (0 < kdim)%nat -> length k = kdim ->
  within kdim m k = true -> forall x, In x k -> (Z.abs x <= m)%Z.
Proof.
  intros Hk Hl H x Hx. unfold within in H. rewrite Nat.max_l in H by lia.
  destruct k as [|y k']; [contradiction|].
  rewrite Hl in H. destruct kdim as [|d]; [lia|]. cbn [chunks] in H.
  rewrite <- Hl in H. rewrite firstn_all, skipn_all in H.
  assert (chunks d (length (y :: k')) [] = []) as Hc by (destruct d; reflexivity).
  rewrite Hc in H. cbn [existsb] in H. rewrite orb_false_r in H.
  rewrite forallb_forall in H. apply Z.leb_le. now apply H.
Qed.

(* ---------- the n-D shift rebuilds F- as the mirror conjugate of the relocated F+ (C08 mechanism) ---------- *)
Theorem relocate_fm_mirror (p : plan) (amps : list triple) (j : nat) : (j < length (pk p))%nat ->
  fm (nth j (relocate p amps) t0) = kconj (fp (nth (length (pk p) - 1 - j) (relocate p amps) t0)).
Proof.
  intros Hj. unfold relocate. rewrite !nth_tab by lia. cbn [fm fp].
  replace (length (pk p) - 1 - (length (pk p) - 1 - j))%nat with j by lia. reflexivity.
Qed.

(* Z clause of the n-D shift: when the scatter list (target cell, Z amplitude) has distinct targets and is closed
   under (cell j |-> mirror cell n2-1-j, value |-> conjugate) -- true for a well-formed input on an antisymmetric
   sorted wavenumber table -- the relocated Z satisfies Z(-k) = conj Z(k).  The closure of the plan itself is
   NOT proved here (it is what wfb_obs observes on the implementation). *)
Hypothesis L : ScalLaws S.

Theorem assign_mirror (ps : list (nat * S)) (n2 j : nat) :
  NoDup (map fst ps) ->
  (forall a v, In (a, v) ps -> (a < n2)%nat /\ In ((n2 - 1 - a)%nat, kconj v) ps) ->
  (j < n2)%nat ->
  assign_fn ps (n2 - 1 - j) = kconj (assign_fn ps j).
Proof.
  intros Hnd Hcl Hj.
  destruct (in_dec Nat.eq_dec j (map fst ps)) as [Hin|Hnin].
  - apply in_map_iff in Hin. destruct Hin as [[a v] [Ha Hin]]. simpl in Ha. subst a.
    rewrite (assign_at S ps j v Hnd Hin).
    apply (assign_at S ps _ _ Hnd). apply (Hcl j v Hin).
  - rewrite (assign_none S ps j Hnin).
    rewrite (assign_none S ps (n2 - 1 - j)).
    + symmetry. apply (conj_0 S L).
    + intros Hin. apply Hnin. apply in_map_iff in Hin. destruct Hin as [[a v] [Ha Hin]]. simpl in Ha.
      destruct (Hcl a v Hin) as [_ Hm]. subst a.
      replace (n2 - 1 - (n2 - 1 - j))%nat with j in Hm by lia.
      now apply (in_map fst) in Hm.
Qed.

Theorem relocate_fz_mirror (p : plan) (amps : list triple) (j : nat) :
  let ps := opairs (pL p) (map (@fz S) amps) in
  NoDup (map fst ps) ->
  (forall a v, In (a, v) ps -> (a < length (pk p))%nat /\ In ((length (pk p) - 1 - a)%nat, kconj v) ps) ->
  (j < length (pk p))%nat ->
  fz (nth (length (pk p) - 1 - j) (relocate p amps) t0) = kconj (fz (nth j (relocate p amps) t0)).
Proof.
  intros ps Hnd Hcl Hj. unfold relocate. rewrite !nth_tab by lia. cbn [fz].
  now apply assign_mirror.
Qed.

End Prune.
