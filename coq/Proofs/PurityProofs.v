(* C09 -- properties of the PURE model of the API (Model/Purity.v).
   These are theorems about the model: memory aliasing and process state are outside Gallina; the
   history correspondence (props/c09.py) checks that the implementation behaves like this model. *)
From Coq Require Import List ZArith Lia Bool Arith.
From EPG Require Import Scalar QI State Ops Diff Purity.
Import ListNotations.

Section PurityProofs.
Variable S : ScalOps.
Notation store := (store S).
Notation value := (value S).

(* ---- list update ---- *)
Lemma length_upd {A} k (v : A) l : length (upd k v l) = length l.
Proof. revert k; induction l as [|x l IH]; intros [|k]; simpl; auto. Qed.

Lemma nth_upd_other {A} k j (v d : A) l : k <> j -> nth j (upd k v l) d = nth j l d.
Proof.
  revert k j; induction l as [|x l IH]; intros [|k] [|j] H; simpl; auto; try lia.
  all: try (apply IH; lia).
Qed.

Lemma nth_upd_same {A} k (v d : A) l : k < length l -> nth k (upd k v l) d = v.
Proof.
  revert k; induction l as [|x l IH]; intros [|k] H; simpl in *; auto; try lia.
  all: try (apply IH; lia).
Qed.

(* ---- one call ---- *)
Lemma sem_result (st : store) c : snd (sem st c) = result st c.
Proof. unfold sem. destruct (inplace_target st c); reflexivity. Qed.

Lemma sem_length (st : store) c : length (fst (sem st c)) = Datatypes.S (length st).
Proof.
  unfold sem. destruct (inplace_target st c); simpl; rewrite app_length; simpl.
  - rewrite length_upd. lia.
  - lia.
Qed.

Lemma out_of_place_no_target (st : store) c : out_of_place c = true -> inplace_target st c = None.
Proof. destruct c as [o s [|]| | | | |]; simpl; auto; discriminate. Qed.

(* frame: a call changes at most the entry it is entitled to change *)
Lemma store_frame_step (st : store) c k :
  k < length st -> inplace_target st c <> Some k -> look (fst (sem st c)) k = look st k.
Proof.
  intros Hk Ht. unfold sem, look. destruct (inplace_target st c) as [s|] eqn:E; simpl.
  - rewrite app_nth1 by (rewrite length_upd; exact Hk).
    apply nth_upd_other. intro; subst; apply Ht; reflexivity.
  - now rewrite app_nth1.
Qed.

Lemma store_monotone_step (st : store) c k :
  out_of_place c = true -> k < length st -> look (fst (sem st c)) k = look st k.
Proof.
  intros Ho Hk. apply store_frame_step; auto. rewrite out_of_place_no_target by exact Ho. discriminate.
Qed.

(* the new entry: the result, unless the call was an in-place application (placeholder) *)
Lemma sem_new_entry (st : store) c :
  out_of_place c = true -> look (fst (sem st c)) (length st) = result st c.
Proof.
  intros Ho. unfold sem, look. rewrite out_of_place_no_target by exact Ho. simpl.
  rewrite app_nth2 by lia. now rewrite Nat.sub_diag.
Qed.

Lemma run_hist_cons (st : store) c h :
  run_hist st (c :: h) =
  (fst (run_hist (fst (sem st c)) h), snd (sem st c) :: snd (run_hist (fst (sem st c)) h)).
Proof.
  simpl. destruct (sem st c) as [st' v]. simpl. destruct (run_hist st' h); reflexivity.
Qed.

Lemma run_hist_length (st : store) h : length (fst (run_hist st h)) = length st + length h.
Proof.
  revert st; induction h as [|c h IH]; intros st.
  - simpl. lia.
  - rewrite run_hist_cons. simpl fst. rewrite IH, sem_length. simpl. lia.
Qed.

(* ---- store_monotone: out-of-place calls never change an existing entry, for every history ---- *)
Theorem store_monotone (st : store) (h : history) k :
  forallb out_of_place h = true -> k < length st ->
  look (fst (run_hist st h)) k = look st k.
Proof.
  revert st; induction h as [|c h IH]; intros st Hh Hk; [reflexivity|].
  simpl in Hh. apply andb_true_iff in Hh as [Hc Hh].
  rewrite run_hist_cons. simpl fst. rewrite IH; auto.
  - apply store_monotone_step; auto.
  - rewrite sem_length. lia.
Qed.

(* with in-place calls in the history: every entry that is not the state-matrix argument of an
   in-place application is unchanged; in particular operators, probes, sequences and recorded
   results (all the non-state-matrix values) are never changed by ANY history *)
Theorem nonsm_immutable (st : store) (h : history) k :
  k < length st -> is_sm (look st k) = false ->
  look (fst (run_hist st h)) k = look st k.
Proof.
  revert st; induction h as [|c h IH]; intros st Hk Hv; [reflexivity|].
  rewrite run_hist_cons. simpl fst.
  assert (E : look (fst (sem st c)) k = look st k).
  { apply store_frame_step; auto. intro Ht.
    destruct c as [o s [|]| | | | |]; try discriminate Ht.
    unfold inplace_target in Ht.
    destruct (is_sm (result st (CApply o s true)) && is_sm (look st s)) eqn:B; try discriminate Ht.
    apply andb_true_iff in B as [_ B]. injection Ht as Ht. rewrite Ht in B. rewrite B in Hv. discriminate Hv. }
  rewrite IH.
  - exact E.
  - rewrite sem_length. lia.
  - now rewrite E.
Qed.

(* ---- history_independent: the result of a call is a function of its argument values ---- *)
Theorem history_independent_step (st1 st2 : store) c :
  (forall r, In r (refs c) -> look st1 r = look st2 r) ->
  snd (sem st1 c) = snd (sem st2 c).
Proof.
  intros H. rewrite !sem_result. unfold result. f_equal. now apply map_ext_in.
Qed.

(* whatever two histories did before, if they left equal values at the referenced indices *)
Theorem history_independent (st1 st2 : store) (h1 h2 : history) c :
  (forall r, In r (refs c) -> look (fst (run_hist st1 h1)) r = look (fst (run_hist st2 h2)) r) ->
  snd (sem (fst (run_hist st1 h1)) c) = snd (sem (fst (run_hist st2 h2)) c).
Proof. apply history_independent_step. Qed.

(* after any out-of-place history, a call on earlier values returns what it would have returned before *)
Theorem history_independent_after (st : store) (h : history) c :
  forallb out_of_place h = true -> (forall r, In r (refs c) -> r < length st) ->
  snd (sem (fst (run_hist st h)) c) = snd (sem st c).
Proof.
  intros Hh Hr. apply history_independent_step. intros r Hin. apply store_monotone; auto.
Qed.

(* ---- reuse_equals_fresh ---- *)
(* using the operator stored at r or any other entry holding an equal value gives the same result *)
Theorem reuse_equals_fresh_apply (st : store) r r' s inplace :
  look st r = look st r' ->
  result st (CApply r s inplace) = result st (CApply r' s inplace).
Proof. intros H. unfold result. simpl. now rewrite H. Qed.

(* a sequence that uses one instance at several positions equals the sequence of fresh equal instances *)
Theorem reuse_equals_fresh_seq (st : store) (l l' : list nat) :
  map (look st) l = map (look st) l' ->
  result st (CMkSeq l) = result st (CMkSeq l').
Proof. intros H. unfold result. simpl. now rewrite H. Qed.

Theorem reuse_equals_fresh_simulate (st : store) q q' i n p :
  look st q = look st q' ->
  result st (CSimulate q i n p) = result st (CSimulate q' i n p).
Proof. intros H. unfold result. simpl. rewrite H. destruct i, p; reflexivity. Qed.

(* ---- repeated calls ---- *)
Theorem repeat_call (st : store) (h : history) c :
  out_of_place c = true -> forallb out_of_place h = true ->
  (forall r, In r (refs c) -> r < length st) ->
  snd (sem (fst (run_hist (fst (sem st c)) h)) c) = snd (sem st c)
  /\ forall k, k < length st -> look (fst (run_hist (fst (sem st c)) h)) k = look st k.
Proof.
  intros Hc Hh Hr. split.
  - apply history_independent_step. intros r Hin.
    rewrite store_monotone; auto.
    + apply store_monotone_step; auto.
    + rewrite sem_length. specialize (Hr r Hin). lia.
  - intros k Hk. rewrite store_monotone; auto.
    + apply store_monotone_step; auto.
    + rewrite sem_length. lia.
Qed.

Theorem simulate_idempotent (st : store) (h : history) q i n p :
  forallb out_of_place h = true ->
  (forall r, In r (refs (CSimulate q i n p)) -> r < length st) ->
  let c := CSimulate q i n p in
  snd (sem (fst (run_hist (fst (sem st c)) h)) c) = snd (sem st c)
  /\ forall k, k < length st -> look (fst (run_hist (fst (sem st c)) h)) k = look st k.
Proof. intros Hh Hr c. apply repeat_call; auto. Qed.

(* ---- probe_snapshot: a recorded value is unaffected by ANY later call (in place or not) ---- *)
Theorem result_snapshot (st : store) (h : history) c :
  out_of_place c = true -> is_sm (result st c) = false ->
  look (fst (run_hist (fst (sem st c)) h)) (length st) = result st c.
Proof.
  intros Hc Hv. rewrite nonsm_immutable.
  - apply sem_new_entry; auto.
  - rewrite sem_length. lia.
  - rewrite sem_new_entry; auto.
Qed.

Lemma acquire_not_sm (st : store) p s : is_sm (result st (CAcquire p s)) = false.
Proof.
  unfold result. simpl. destruct (look st p); simpl; auto. destruct (look st s); reflexivity.
Qed.

Lemma simulate_not_sm (st : store) q i n p : is_sm (result st (CSimulate q i n p)) = false.
Proof.
  assert (G : forall vq vi vp, is_sm (@simulate_value S vq vi n vp) = false).
  { intros vq vi vp. unfold simulate_value.
    destruct vq; try reflexivity; destruct vi as [[]|]; destruct vp as [[]|]; reflexivity. }
  unfold result. simpl. destruct i, p; simpl; apply G.
Qed.

Theorem probe_snapshot (st : store) (h : history) p s :
  look (fst (run_hist (fst (sem st (CAcquire p s))) h)) (length st) = result st (CAcquire p s).
Proof. apply result_snapshot; [reflexivity | apply acquire_not_sm]. Qed.

Theorem simulate_snapshot (st : store) (h : history) q i n p :
  look (fst (run_hist (fst (sem st (CSimulate q i n p))) h)) (length st) = result st (CSimulate q i n p).
Proof. apply result_snapshot; [reflexivity | apply simulate_not_sm]. Qed.

(* ---- in place vs out of place ---- *)
(* one semantics for both modes, for every operator (differentiable, plain, MultiOperator) and every state
   matrix, partials included (plain operators: since /repo 8521bf9) *)
Theorem inplace_equals_outofplace (vo vs : value) :
  apply_value vo vs true = apply_value vo vs false.
Proof. destruct vo; try reflexivity; destruct vs; reflexivity. Qed.

Lemma with_nmax_plain n (p : op S) : exists q, with_nmax n (DPlain p) = DPlain q /\ (n = None -> q = p).
Proof.
  destruct n as [m|]; simpl.
  - destruct p; eexists; (split; [reflexivity | discriminate]).
  - exists p. split; auto.
Qed.

(* out-of-place application of a non-differentiable operator: the input entry (state AND partials) is preserved,
   and the result carries the transformed state together with every partial of the input, each transformed by
   the operator (Diff.apply_partial); nothing is dropped *)
Theorem plain_outofplace_keeps_partials (st : store) (o s : nat) (p : op S) (sv : smval S) :
  look st o = VOp (DPlain p) -> look st s = VSm sv -> s < length st ->
  look (fst (sem st (CApply o s false))) s = VSm sv /\
  exists q, (sv_nmax sv = None -> q = p) /\
    snd (sem st (CApply o s false)) =
    VSm (mkSmv (mkD (apply q (d_main (sv_d sv))) (map_partials q (d_p1 (sv_d sv))) (map_partials q (d_p2 (sv_d sv)))
                    (d_ok (sv_d sv))) (sv_nmax sv)) /\
    length (map_partials q (d_p1 (sv_d sv))) = length (d_p1 (sv_d sv)) /\
    length (map_partials q (d_p2 (sv_d sv))) = length (d_p2 (sv_d sv)).
Proof.
  intros Ho Hs Hlt. split.
  - rewrite store_monotone_step; auto.
  - destruct (with_nmax_plain (sv_nmax sv) p) as [q [Hq Hn]]. exists q. split; [exact Hn|]. split.
    + rewrite sem_result. unfold result. simpl. rewrite Ho, Hs. simpl. unfold apply_out. rewrite Hq. reflexivity.
    + unfold map_partials. rewrite !map_length. split; reflexivity.
Qed.

End PurityProofs.

(* non-vacuity: a small history evaluates, the repeated simulate gives the same non-trivial value *)
Definition ex_rot : mat3 QIops :=
  @mkM QIops (@mk3 QIops (qr 1 2) (qr 1 2) (qr 1 1)) (@mk3 QIops (qr 1 2) (qr 1 2) (qr 1 1))
             (@mk3 QIops (qr (-1) 2) (qr (-1) 2) (qr 0 1)).
Definition ex_store : list (value QIops) :=
  [VOp (DOp (mkDop (LMatrix ex_rot None) [] [] [] [] true [])); VProbe PF0;
   VSm (mkSmv (dinit (init k1)) None)].
Definition ex_hist : history :=
  [CMkSeq [0; 1]%nat; CSimulate 3 (Some 2%nat) None None; CApply 0 2 false; CSimulate 3 (Some 2%nat) None None].
Lemma purity_example :
  @hist_ok QIops ex_store ex_hist [ObNone; ObRes [[qr 1 1 : QIops]]; ObNone; ObRes [[qr 1 1 : QIops]]]
          [(2%nat, ObSm (init k1) [] [])] = true.
Proof. vm_compute. reflexivity. Qed.
