(* C09 -- properties of the PURE model of the API (Model/Purity.v).
   These are theorems about the model: memory aliasing and process state are outside Gallina; the
   history correspondence (props/c09.py) checks that the implementation behaves like this model. *)
From Coq Require Import List ZArith Lia Bool Arith.
From EPG Require Import Scalar QI State Ops Diff Purity.
Import ListNotations.

Section PurityProofs.
Variable S : ScalOps.
Notation store := (store S).
Notation value := (value S).

(* ---- list update ---- *)
Lemma length_upd {A} k (v : A) l : length (upd k v l) = length l.
Proof. revert k; induction l as [|x l IH]; intros [|k]; simpl; auto. Qed.

Lemma nth_upd_other {A} k j (v d : A) l : k <> j -> nth j (upd k v l) d = nth j l d.
Proof.
  revert k j; induction l as [|x l IH]; intros [|k] [|j] H; simpl; auto; try lia.
  all: try (apply IH; lia).
Qed.

Lemma nth_upd_same {A} k (v d : A) l : k < length l -> nth k (upd k v l) d = v.
Proof.
  revert k; induction l as [|x l IH]; intros [|k] H; simpl in *; auto; try lia.
  all: try (apply IH; lia).
Qed.

(* ---- one call ---- *)
Lemma sem_result (st : store) c : snd (sem st c) = result st c.
Proof. unfold sem. destruct (inplace_target st c); reflexivity. Qed.

Lemma sem_length (st : store) c : length (fst (sem st c)) = Datatypes.S (length st).
Proof.
  unfold sem. destruct (inplace_target st c); simpl; rewrite app_length; simpl.
  - rewrite length_upd. lia.
  - lia.
Qed.

Lemma out_of_place_no_target (st : store) c : out_of_place c = true -> inplace_target st c = None.
Proof. destruct c as [o s [|]| | | | |]; simpl; auto; discriminate. Qed.

(* frame: a call changes at most the entry it is entitled to change *)
Lemma store_frame_step (st : store) c k :
  k < length st -> inplace_target st c <> Some k -> look (fst (sem st c)) k = look st k.
Proof.
  intros Hk Ht. unfold sem, look. destruct (inplace_target st c) as [s|] eqn:E; simpl.
  - rewrite app_nth1 by (rewrite length_upd; exact Hk).
    apply nth_upd_other. intro; subst; apply Ht; reflexivity.
  - now rewrite app_nth1.
Qed.

Lemma store_monotone_step (st : store) c k :
  out_of_place c = true -> k < length st -> look (fst (sem st c)) k = look st k.
Proof.
  intros Ho Hk. apply store_frame_step; auto. rewrite out_of_place_no_target by exact Ho. discriminate.
Qed.

(* the new entry: the result, unless the call was an in-place application (placeholder) *)
Lemma sem_new_entry (st : store) c :
  out_of_place c = true -> look (fst (sem st c)) (length st) = result st c.
Proof.
  intros Ho. unfold sem, look. rewrite out_of_place_no_target by exact Ho. simpl.
  rewrite app_nth2 by lia. now rewrite Nat.sub_diag.
Qed.

Lemma run_hist_cons (st : store) c h :
  run_hist st (c :: h) =
  (fst (run_hist (fst (sem st c)) h), snd (sem st c) :: snd (run_hist (fst (sem st c)) h)).
Proof.
  simpl. destruct (sem st c) as [st' v]. simpl. destruct (run_hist st' h); reflexivity.
Qed.

Lemma run_hist_length (st : store) h : length (fst (run_hist st h)) = length st + length h.
Proof.
  revert st; induction h as [|c h IH]; intros st.
  - simpl. lia.
  - rewrite run_hist_cons. simpl fst. rewrite IH, sem_length. simpl. lia.
Qed.

(* ---- store_monotone: out-of-place calls never change an existing entry, for every history ---- *)
Theorem store_monotone (st : store) (h : history) k :
  forallb out_of_place h = true -> k < length st ->
  look (fst (run_hist st h)) k = look st k.
Proof.
  revert st; induction h as [|c h IH]; intros st Hh Hk; [reflexivity|].
  simpl in Hh. apply andb_true_iff in Hh as [Hc Hh].
  rewrite run_hist_cons. simpl fst. rewrite IH; auto.
  - apply store_monotone_step; auto.
  - rewrite sem_length. lia.
Qed.

(* with in-place calls in the history: every entry that is not the state-matrix argument of an
   in-place application is unchanged; in particular operators, probes, sequences and recorded
   results (all the non-state-matrix values) are never changed by ANY history *)
Theorem nonsm_immutable (st : store) (h : history) k :
  k < length st -> is_sm (look st k) = false ->
  look (fst (run_hist st h)) k = look st k.
Proof.
  revert st; induction h as [|c h IH]; intros st Hk Hv; [reflexivity|].
  rewrite run_hist_cons. simpl fst.
  assert (E : look (fst (sem st c)) k = look st k).
  { apply store_frame_step; auto. intro Ht.
    destruct c as [o s [|]| | | | |]; try discriminate Ht.
    unfold inplace_target in Ht.
    destruct (is_sm (result st (CApply o s true)) && is_sm (look st s)) eqn:B; try discriminate Ht.
    apply andb_true_iff in B as [_ B]. injection Ht as Ht. rewrite Ht in B. rewrite B in Hv. discriminate Hv. }
  rewrite IH.
  - exact E.
  - rewrite sem_length. lia.
  - now rewrite E.
Qed.

(* ---- history_independent: the result of a call is a function of its argument values ---- *)
Theorem history_independent_step (st1 st2 : store) c :
  (forall r, In r (refs c) -> look st1 r = look st2 r) ->
  snd (sem st1 c) = snd (sem st2 c).
Proof.
  intros H. rewrite !sem_result. unfold result. f_equal. now apply map_ext_in.
Qed.

(* whatever two histories did before, if they left equal values at the referenced indices *)
Theorem history_independent (st1 st2 : store) (h1 h2 : history) c :
  (forall r, In r (refs c) -> look (fst (run_hist st1 h1)) r = look (fst (run_hist st2 h2)) r) ->
  snd (sem (fst (run_hist st1 h1)) c) = snd (sem (fst (run_hist st2 h2)) c).
Proof. apply history_independent_step. Qed.

(* after any out-of-place history, a call on earlier values returns what it would have returned before *)
Theorem history_independent_after (st : store) (h : history) c :
  forallb out_of_place h = true -> (forall r, In r (refs c) -> r < length st) ->
  snd (sem (fst (run_hist st h)) c) = snd (sem st c).
Proof.
  intros Hh Hr. apply history_independent_step. intros r Hin. apply store_monotone; auto.
Qed.

(* ---- reuse_equals_fresh ---- *)
(* using the operator stored at r or any other entry holding an equal value gives the same result *)
Theorem reuse_equals_fresh_apply (st : store) r r' s inplace :
  look st r = look st r' ->
  result st (CApply r s inplace) = result st (CApply r' s inplace).
Proof. intros H. unfold result. simpl. now rewrite H. Qed.

(* a sequence that uses one instance at several positions equals the sequence of fresh equal instances *)
Theorem reuse_equals_fresh_seq (st : store) (l l' : list nat) :
  map (look st) l = map (look st) l' ->
  result st (CMkSeq l) = result st (CMkSeq l').
Proof. intros H. unfold result. simpl. now rewrite H. Qed.

Theorem reuse_equals_fresh_simulate (st : store) q q' i n p :
  look st q = look st q' ->
  result st (CSimulate q i n p) = result st (CSimulate q' i n p).
Proof. intros H. unfold result. simpl. rewrite H. destruct i, p; reflexivity. Qed.

(* ---- repeated calls ---- *)
Theorem repeat_call (st : store) (h : history) c :
  out_of_place c = true -> forallb out_of_place h = true ->
  (forall r, In r (refs c) -> r < length st) ->
  snd (sem (fst (run_hist (fst (sem st c)) h)) c) = snd (sem st c)
  /\ forall k, k < length st -> look (fst (run_hist (fst (sem st c)) h)) k = look st k.
Proof.
  intros Hc Hh Hr. split.
  - apply history_independent_step. intros r Hin.
    rewrite store_monotone; auto.
    + apply store_monotone_step; auto.
    + rewrite sem_length. specialize (Hr r Hin). lia.
  - intros k Hk. rewrite store_monotone; auto.
    + apply store_monotone_step; auto.
    + rewrite sem_length. lia.
Qed.

Theorem simulate_idempotent (st : store) (h : history) q i n p :
  forallb out_of_place h = true ->
  (forall r, In r (refs (CSimulate q i n p)) -> r < length st) ->
  let c := CSimulate q i n p in
  snd (sem (fst (run_hist (fst (sem st c)) h)) c) = snd (sem st c)
  /\ forall k, k < length st -> look (fst (run_hist (fst (sem st c)) h)) k = look st k.
Proof. intros Hh Hr c. apply repeat_call; auto. Qed.

(* ---- probe_snapshot: a recorded value is unaffected by ANY later call (in place or not) ---- *)
Theorem result_snapshot (st : store) (h : history) c :
  out_of_place c = true -> is_sm (result st c) = false ->
  look (fst (run_hist (fst (sem st c)) h)) (length st) = result st c.
Proof.
  intros Hc Hv. rewrite nonsm_immutable.
  - apply sem_new_entry; auto.
  - rewrite sem_length. lia.
  - rewrite sem_new_entry; auto.
Qed.

Lemma acquire_not_sm (st : store) p s : is_sm (result st (CAcquire p s)) = false.
Proof.
  unfold result. simpl. destruct (look st p); simpl; auto. destruct (look st s); reflexivity.
Qed.

Lemma simulate_not_sm (st : store) q i n p : is_sm (result st (CSimulate q i n p)) = false.
Proof.
  assert (G : forall vq vi vp, is_sm (@simulate_value S vq vi n vp) = false).
  { intros vq vi vp. unfold simulate_value.
    destruct vq; try reflexivity; destruct vi as [[]|]; destruct vp as [[]|]; reflexivity. }
  unfold result. simpl. destruct i, p; simpl; apply G.
Qed.

Theorem probe_snapshot (st : store) (h : history) p s :
  look (fst (run_hist (fst (sem st (CAcquire p s))) h)) (length st) = result st (CAcquire p s).
Proof. apply result_snapshot; [reflexivity | apply acquire_not_sm]. Qed.

Theorem simulate_snapshot (st : store) (h : history) q i n p :
  look (fst (run_hist (fst (sem st (CSimulate q i n p))) h)) (length st) = result st (CSimulate q i n p).
Proof. apply result_snapshot; [reflexivity | apply simulate_not_sm]. Qed.

(* ---- in place vs out of place ---- *)
(* a differentiable operator (T, E, P, R, S, ScalarOp, MatrixOp): one semantics, [dstep] *)
Theorem inplace_equals_outofplace_diffop (o : dop S) (vs : value) :
  apply_value (VOp (DOp o)) vs true = apply_value (VOp (DOp o)) vs false.
Proof. destruct vs; reflexivity. Qed.

Lemma drop_partials_id (d : dstate S) : d_p1 d = [] -> d_p2 d = [] -> drop_partials d = d.
Proof. destruct d; simpl; intros -> ->; reflexivity. Qed.

(* any operator, on a state matrix that carries no partials *)
Theorem inplace_equals_outofplace_nopartials (vo : value) (s : smval S) :
  d_p1 (sv_d s) = [] -> d_p2 (sv_d s) = [] ->
  apply_value vo (VSm s) true = apply_value vo (VSm s) false.
Proof.
  intros H1 H2. destruct vo; try reflexivity; simpl.
  - destruct i; [reflexivity|]. unfold apply_in, apply_out. now rewrite drop_partials_id.
  - unfold multi_in, multi_out. now rewrite H1, H2.
Qed.

(* any operator, any state matrix: the zeroth-order state never depends on the mode *)
Definition main_of (v : value) : option (sm S) :=
  match v with VSm s => Some (d_main (sv_d s)) | _ => None end.
Theorem inplace_equals_outofplace_main (vo vs : value) :
  main_of (apply_value vo vs true) = main_of (apply_value vo vs false).
Proof.
  destruct vo; try reflexivity; destruct vs; try reflexivity; simpl.
  - destruct i; [reflexivity|]. unfold apply_in, apply_out.
    destruct (with_nmax (sv_nmax s) (DPlain o)); reflexivity.
Qed.

End PurityProofs.

(* the full statement "in place = out of place" is FALSE for the code that exists: a non-differentiable
   operator applied out of place returns a state matrix WITHOUT the partials of its input
   (Operator.prepare -> StateMatrix.copy has no order1/order2), in place it keeps them (untouched).
   Witness over the executable instance: SPOILER on a state carrying one first-order partial. *)
Definition wit_sm : sm QIops := init k1.
Definition wit_val : value QIops := VSm (mkSmv (mkD wit_sm [(0%nat, wit_sm)] [] true) None).
Definition npartials (v : value QIops) : nat :=
  match v with VSm s => length (d_p1 (sv_d s)) | _ => 0 end.
Theorem inplace_equals_outofplace_refuted :
  exists (vo vs : value QIops), apply_value vo vs true <> apply_value vo vs false.
Proof.
  exists (VOp (DPlain OSpoil)), wit_val. intro H. apply (f_equal npartials) in H.
  vm_compute in H. discriminate H.
Qed.

(* non-vacuity: a small history evaluates, the repeated simulate gives the same non-trivial value *)
Definition ex_rot : mat3 QIops :=
  @mkM QIops (@mk3 QIops (qr 1 2) (qr 1 2) (qr 1 1)) (@mk3 QIops (qr 1 2) (qr 1 2) (qr 1 1))
             (@mk3 QIops (qr (-1) 2) (qr (-1) 2) (qr 0 1)).
Definition ex_store : list (value QIops) :=
  [VOp (DOp (mkDop (LMatrix ex_rot None) [] [] [] [] true [])); VProbe PF0;
   VSm (mkSmv (dinit (init k1)) None)].
Definition ex_hist : history :=
  [CMkSeq [0; 1]%nat; CSimulate 3 (Some 2%nat) None None; CApply 0 2 false; CSimulate 3 (Some 2%nat) None None].
Lemma purity_example :
  @hist_ok QIops ex_store ex_hist [ObNone; ObRes [[qr 1 1 : QIops]]; ObNone; ObRes [[qr 1 1 : QIops]]]
          [(2%nat, ObSm (init k1) [] [])] = true.
Proof. vm_compute. reflexivity. Qed.
