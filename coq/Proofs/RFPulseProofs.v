(* C18 — proofs about the shaped-RF-pulse model (Model/RFPulse.v) with the GENERATED matrices
   T_op / Phi_op (Gen/Transition.v) and coefficient arrays E_op / P_op (Gen/Evolution.v). *)
From Coq Require Import List ZArith Reals Lra Lia Psatz Bool.
From Coquelicot Require Import Coquelicot.
From EPG Require Import Scalar State Ops CInst Transition Evolution CoefT ListLemmas RFPulse.
Import ListNotations.
Local Open Scope R_scope.

(* ------------------------------------------------------------------ 3x3 algebra *)
Ltac mat_alg1 :=
  apply mat3_eq; apply triple_eq;
  cbn [mmul madd msub mscale rowmul dot col0 col1 col2 row0 row1 row2 fp fm fz tadd tsub tscale mzero t0 mid mv sv];
  change (@kmul Cops) with Cmult; change (@kadd Cops) with Cplus; change (@ksub Cops) with Cminus;
  change (@k0 Cops) with (RtoC 0); change (@k1 Cops) with (RtoC 1); apply C_eq; simpl; ring.
Ltac tri_alg :=
  apply triple_eq;
  cbn [mmul rowmul dot col0 col1 col2 row0 row1 row2 fp fm fz tadd tsub tscale t0 mid mv sv];
  change (@kmul Cops) with Cmult; change (@kadd Cops) with Cplus; change (@ksub Cops) with Cminus;
  change (@k0 Cops) with (RtoC 0); change (@k1 Cops) with (RtoC 1); apply C_eq; simpl; ring.

Ltac mat_algf :=
  apply mat3_eq; apply triple_eq;
  cbn [mmul madd msub mscale rowmul dot col0 col1 col2 row0 row1 row2 fp fm fz tadd tsub tscale mzero t0 mid mv sv];
  change (@kmul Cops) with Cmult; change (@kadd Cops) with Cplus; change (@ksub Cops) with Cminus;
  change (@k0 Cops) with (RtoC 0); change (@k1 Cops) with (RtoC 1); apply C_eq; simpl; field.

Lemma mmul_assoc (A B D : mat3 Cops) : mmul A (mmul B D) = mmul (mmul A B) D.
Proof. mat_alg1. Qed.
Lemma mmul_id_l (A : mat3 Cops) : mmul mid A = A.
Proof. mat_alg1. Qed.
Lemma mmul_id_r (A : mat3 Cops) : mmul A mid = A.
Proof. mat_alg1. Qed.
Lemma mv_mmul (A B : mat3 Cops) x : mv (mmul A B) x = mv A (mv B x).
Proof. tri_alg. Qed.
Lemma mv_mid (x : triple Cops) : mv mid x = x.
Proof. tri_alg. Qed.

(* ------------------------------------------------------------------ z-rotations compose *)
Lemma rotation_phi_add x y : mmul (rotation_phi x) (rotation_phi y) = rotation_phi (x + y).
Proof.
  unfold rotation_phi.
  replace ((x + y) * PI / 180) with (x * PI / 180 + y * PI / 180) by field.
  rewrite ?cos_neg, ?sin_neg, cos_plus, sin_plus. mat_alg1.
Qed.

Lemma rotation_phi_0 : rotation_phi 0 = mid.
Proof.
  unfold rotation_phi. replace (0 * PI / 180) with 0 by field.
  rewrite ?Ropp_0, cos_0, sin_0. reflexivity.
Qed.

Lemma rotation_phi_inv_l x : mmul (rotation_phi (- x)) (rotation_phi x) = mid.
Proof. rewrite rotation_phi_add. replace (- x + x) with 0 by ring. apply rotation_phi_0. Qed.
Lemma rotation_phi_inv_r x : mmul (rotation_phi x) (rotation_phi (- x)) = mid.
Proof. rewrite rotation_phi_add. replace (x + - x) with 0 by ring. apply rotation_phi_0. Qed.

(* ------------------------------------------------------------------ x-rotations compose *)
Lemma rotation_alpha_add a b : mmul (rotation_alpha a) (rotation_alpha b) = rotation_alpha (a + b).
Proof.
  unfold rotation_alpha.
  set (ha := PI / 180 * a / 2). set (hb := PI / 180 * b / 2).
  replace (PI / 180 * (a + b) / 2) with (ha + hb) by (unfold ha, hb; field).
  replace (PI / 180 * (a + b)) with (2 * (ha + hb)) by (unfold ha, hb; field).
  replace (PI / 180 * a) with (2 * ha) by (unfold ha; field).
  replace (PI / 180 * b) with (2 * hb) by (unfold hb; field).
  rewrite !sin_2a, !cos_2a, !cos_plus, !sin_plus.
  generalize (sin ha) (cos ha) (sin hb) (cos hb). intros sa ca sb cb.
  mat_algf.
Qed.

Lemma rotation_alpha_0 : rotation_alpha 0 = mid.
Proof.
  unfold rotation_alpha. replace (PI / 180 * 0 / 2) with 0 by field.
  replace (PI / 180 * 0) with 0 by field. rewrite cos_0, sin_0.
  apply mat3_eq; apply triple_eq; cbn [row0 row1 row2 fp fm fz mid];
    change (@k0 Cops) with (RtoC 0); change (@k1 Cops) with (RtoC 1); apply C_eq; simpl; ring.
Qed.

(* ------------------------------------------------------------------ T_op: same axis => angles add *)
Lemma sandwich_mul (P Pm A B : mat3 Cops) : mmul Pm P = mid ->
  mmul (mmul P (mmul A Pm)) (mmul P (mmul B Pm)) = mmul P (mmul (mmul A B) Pm).
Proof.
  intros H.
  rewrite <- (mmul_assoc P (mmul A Pm) _), <- (mmul_assoc A Pm _), (mmul_assoc Pm P _), H, mmul_id_l.
  rewrite <- (mmul_assoc A B Pm). reflexivity.
Qed.

Theorem T_same_axis a1 a2 p : mmul (T_op a1 p) (T_op a2 p) = T_op (a1 + a2) p.
Proof.
  unfold T_op. rewrite !rotation_operator_struct.
  rewrite (sandwich_mul _ _ _ _ (rotation_phi_inv_l p)), rotation_alpha_add. reflexivity.
Qed.

Lemma T_op_0 p : T_op 0 p = mid.
Proof.
  unfold T_op. rewrite rotation_operator_struct, rotation_alpha_0, mmul_id_l. apply rotation_phi_inv_r.
Qed.

(* ------------------------------------------------------------------ phase offset = conjugation by Phi *)
Theorem phase_offset_identity o a p :
  mmul (Phi_op o) (mmul (T_op a p) (Phi_op (- o))) = T_op a (p + o).
Proof.
  unfold Phi_op, T_op. rewrite !rotation_operator_struct.
  replace (p + o) with (o + p) by ring.
  replace (- (o + p)) with (- p + - o) by ring.
  rewrite <- !rotation_phi_add, <- !mmul_assoc. reflexivity.
Qed.

(* T(-a, p +/- 180) = T(a, p): a negative real amplitude is a rotation about the same axis *)
Lemma flip_alpha_pos a :
  mmul (rotation_phi 180) (mmul (rotation_alpha (- a)) (rotation_phi (- 180))) = rotation_alpha a.
Proof.
  unfold rotation_phi, rotation_alpha.
  replace (180 * PI / 180) with PI by field. replace (- 180 * PI / 180) with (- PI) by field.
  replace (PI / 180 * - a / 2) with (- (PI / 180 * a / 2)) by field.
  replace (PI / 180 * - a) with (- (PI / 180 * a)) by field.
  rewrite ?Ropp_involutive, ?cos_neg, ?sin_neg, ?cos_PI, ?sin_PI.
  mat_alg1.
Qed.
Lemma flip_alpha_neg a :
  mmul (rotation_phi (- 180)) (mmul (rotation_alpha (- a)) (rotation_phi (- - 180))) = rotation_alpha a.
Proof.
  unfold rotation_phi, rotation_alpha.
  replace (- - 180 * PI / 180) with PI by field. replace (- 180 * PI / 180) with (- PI) by field.
  replace (PI / 180 * - a / 2) with (- (PI / 180 * a / 2)) by field.
  replace (PI / 180 * - a) with (- (PI / 180 * a)) by field.
  rewrite ?Ropp_involutive, ?cos_neg, ?sin_neg, ?cos_PI, ?sin_PI.
  mat_alg1.
Qed.

Lemma T_flip_pos a p : T_op (- a) (p + 180) = T_op a p.
Proof.
  unfold T_op. rewrite !rotation_operator_struct.
  replace (- (p + 180)) with (- 180 + - p) by ring.
  rewrite <- !rotation_phi_add, <- !mmul_assoc.
  rewrite (mmul_assoc (rotation_alpha (- a))), (mmul_assoc (rotation_phi 180)), flip_alpha_pos. reflexivity.
Qed.
Lemma T_flip_neg a p : T_op (- a) (p - 180) = T_op a p.
Proof.
  unfold T_op. rewrite !rotation_operator_struct.
  replace (p - 180) with (p + - 180) by ring.
  replace (- (p + - 180)) with (- - 180 + - p) by ring.
  rewrite <- !rotation_phi_add, <- !mmul_assoc.
  rewrite (mmul_assoc (rotation_alpha (- a))), (mmul_assoc (rotation_phi (- 180))), flip_alpha_neg. reflexivity.
Qed.
(* ------------------------------------------------------------------ ordered products *)
Lemma mprod_fold ms : forall A, fold_left (fun acc m => mmul m acc) ms A = mmul (mprod ms) A.
Proof.
  induction ms as [|m t IH]; intros A.
  - unfold mprod. simpl. now rewrite mmul_id_l.
  - unfold mprod. simpl. rewrite (IH (mmul m A)), (IH (mmul m mid)), mmul_id_r, <- mmul_assoc. reflexivity.
Qed.

Lemma mprod_nil : mprod [] = mid. Proof. reflexivity. Qed.
Lemma mprod_cons m t : mprod (m :: t) = mmul (mprod t) m.
Proof. unfold mprod at 1. simpl. now rewrite mprod_fold, mmul_id_r. Qed.
Lemma mprod_app a b : mprod (a ++ b) = mmul (mprod b) (mprod a).
Proof.
  induction a as [|m t IH]; simpl.
  - now rewrite mprod_nil, mmul_id_r.
  - now rewrite !mprod_cons, IH, mmul_assoc.
Qed.
Lemma combine_multi_mprod ms : combine_multi ms = mprod ms.
Proof. destruct ms as [|h t]; [reflexivity|]. simpl. now rewrite mprod_fold, mprod_cons. Qed.

Lemma act_list_cons o t e x : act_list (o :: t) e x = act_list t e (act o e x).
Proof. reflexivity. Qed.
Lemma act_list_app a b e x : act_list (a ++ b) e x = act_list b e (act_list a e x).
Proof. unfold act_list. now rewrite fold_left_app. Qed.

Lemma act_rot o e x : is_rot o -> act o e x = mv (mat_of o) x.
Proof. destruct o; simpl; intros H; try reflexivity; contradiction. Qed.

(* a relaxation-free operator list acts as the ordered matrix product *)
Lemma act_list_mprod ops e x : List.Forall is_rot ops ->
  act_list ops e x = mv (mprod (map mat_of ops)) x.
Proof.
  revert x. induction ops as [|o t IH]; intros x H.
  - simpl. now rewrite mprod_nil, mv_mid.
  - inversion H; subst. rewrite act_list_cons, IH by assumption.
    simpl map. rewrite mprod_cons, mv_mmul, act_rot by assumption. reflexivity.
Qed.

(* ------------------------------------------------------------------ phase offset on products *)
Theorem phase_offset_product o (ts : list (R * R)) :
  mmul (Phi_op o) (mmul (mprod (map (fun t => T_op (fst t) (snd t)) ts)) (Phi_op (- o)))
  = mprod (map (fun t => T_op (fst t) (snd t + o)) ts).
Proof.
  induction ts as [|t r IH].
  - simpl. rewrite mprod_nil, mmul_id_l. apply rotation_phi_inv_r.
  - simpl map. rewrite !mprod_cons, <- IH, <- phase_offset_identity.
    rewrite <- !mmul_assoc. f_equal. f_equal.
    rewrite (mmul_assoc (Phi_op (- o))). unfold Phi_op. now rewrite rotation_phi_inv_l, mmul_id_l.
Qed.

(* ------------------------------------------------------------------ constant phase *)
Lemma T_cp c p s v : cp_sample p s v -> T_op (c * fst v) (snd v) = T_op (c * s) p.
Proof.
  intros [Hm [H0|[[Hs Hp]|[Hs [Hp|Hp]]]]]; rewrite Hm.
  - subst s. rewrite Rabs_R0, Rmult_0_r, !T_op_0. reflexivity.
  - rewrite Hp, Rabs_pos_eq by lra. reflexivity.
  - rewrite Hp, Rabs_left by assumption.
    replace (c * - s) with (- (c * s)) by ring. apply T_flip_pos.
  - rewrite Hp, Rabs_left by assumption.
    replace (c * - s) with (- (c * s)) by ring. apply T_flip_neg.
Qed.

Theorem const_phase_product c p ss vals : Forall2 (cp_sample p) ss vals ->
  mprod (map (fun v => T_op (c * fst v) (snd v)) vals) = T_op (c * rsum ss) p.
Proof.
  induction 1 as [|s v ss vals Hv _ IH].
  - simpl. now rewrite mprod_nil, Rmult_0_r, T_op_0.
  - simpl map. rewrite mprod_cons, IH, (T_cp c p s v Hv), T_same_axis.
    f_equal. simpl. ring.
Qed.
(* ------------------------------------------------------------------ the estimate_* pair *)
Lemma clip1_id z : -1 <= z <= 1 -> clip1 z = z.
Proof. intros [H0 H1]. unfold clip1. rewrite Rmax_left by lra. apply Rmin_left. lra. Qed.

Lemma Z_of_M (M : mat3 Cops) : fst (fz (mv M e3)) = fst (fz (row2 M)).
Proof.
  unfold mv, dot, e3. cbn [fp fm fz]. change (@kmul Cops) with Cmult; change (@kadd Cops) with Cplus.
  simpl. ring.
Qed.

Lemma Z_of_T a p : fst (fz (row2 (T_op a p))) = cos (PI / 180 * a).
Proof. reflexivity. Qed.

Lemma estimate_alpha_cp p ss vals rf : Forall2 (cp_sample p) ss vals ->
  estimate_alpha vals rf = estimate_alpha_post (cos (PI / 180 * (rf * 180 * rsum ss))).
Proof.
  intros H. unfold estimate_alpha. cbv zeta.
  rewrite combine_multi_mprod, Z_of_M.
  change rotation_operator with T_op.
  rewrite (const_phase_product (rf * 180) p ss vals H), Z_of_T. reflexivity.
Qed.

Lemma estimate_alpha_post_closed t : 0 <= t <= 180 ->
  estimate_alpha_post (cos (PI / 180 * t)) = t.
Proof.
  intros [H0 H1]. pose proof PI_RGT_0 as Hpi.
  assert (Hx : 0 <= PI / 180 * t <= PI).
  { split; [apply Rmult_le_pos; lra|].
    replace PI with (PI / 180 * 180) at 2 by field. apply Rmult_le_compat_l; lra. }
  unfold estimate_alpha_post.
  rewrite clip1_id by (pose proof (COS_bound (PI / 180 * t)); lra).
  rewrite acos_cos by assumption. field. lra.
Qed.

(* a zero pulse (rf = 0), any waveform, is reported as 0 degree (formerly -180: DESIGN section 9 item 9) *)
Theorem estimate_alpha_zero_rf vals : estimate_alpha vals 0 = 0.
Proof.
  unfold estimate_alpha. cbv zeta. rewrite combine_multi_mprod, Z_of_M.
  assert (E : mprod (map (fun v : R * R => rotation_operator (0 * 180 * fst v) (snd v)) vals) = mid).
  { induction vals as [|v t IH]; [reflexivity|]. simpl map. rewrite mprod_cons, IH, mmul_id_l.
    replace (0 * 180 * fst v) with 0 by ring. apply T_op_0. }
  rewrite E. cbn [mid row2 fz]. change (fst (@k1 Cops)) with 1.
  unfold estimate_alpha_post. rewrite clip1_id by lra. rewrite acos_1. unfold Rdiv. ring.
Qed.

(* ---- |sum of a constant-phase waveform| ---- *)
Lemma polar_cp p s v : cp_sample p s v -> polar v = Cmult (RtoC s) (cis (p * PI / 180)).
Proof.
  unfold polar, cis.
  intros [Hm [H0|[[Hs Hp]|[Hs [Hp|Hp]]]]]; rewrite Hm.
  - subst s. rewrite Rabs_R0. apply C_eq; simpl; ring.
  - rewrite Hp, Rabs_pos_eq by lra. apply C_eq; simpl; ring.
  - rewrite Hp, Rabs_left by assumption.
    replace ((p + 180) * PI / 180) with (p * PI / 180 + PI) by field.
    rewrite neg_cos, neg_sin. apply C_eq; simpl; ring.
  - rewrite Hp, Rabs_left by assumption.
    replace ((p - 180) * PI / 180) with (p * PI / 180 - PI) by field.
    rewrite cos_minus, sin_minus, cos_PI, sin_PI. apply C_eq; simpl; ring.
Qed.

Lemma csum_cp p ss vals : Forall2 (cp_sample p) ss vals ->
  csum vals = Cmult (RtoC (rsum ss)) (cis (p * PI / 180)).
Proof.
  induction 1 as [|s v ss vals Hv _ IH]; unfold csum in *; simpl.
  - apply C_eq; simpl; ring.
  - rewrite IH, (polar_cp p s v Hv). apply C_eq; simpl; ring.
Qed.

Lemma Cmod_cis t : Cmod (cis t) = 1.
Proof.
  unfold Cmod, cis. simpl. rewrite !Rmult_1_r.
  pose proof (sin2_cos2 t) as H. unfold Rsqr in H.
  replace (cos t * cos t + sin t * sin t) with 1 by lra. apply sqrt_1.
Qed.

Lemma abs_sum_cp p ss vals : Forall2 (cp_sample p) ss vals -> Cmod (csum vals) = Rabs (rsum ss).
Proof. intros H. now rewrite (csum_cp p ss vals H), Cmod_mult, Cmod_R, Cmod_cis, Rmult_1_r. Qed.

(* ---- the two estimators are mutual inverses on the constant-phase branch ---- *)
Theorem estimate_alpha_of_rf p ss vals alpha : Forall2 (cp_sample p) ss vals -> rsum ss <> 0 ->
  0 <= alpha <= 180 -> estimate_alpha vals (estimate_rf vals alpha) = alpha.
Proof.
  intros H HS Ha. rewrite (estimate_alpha_cp p ss vals _ H).
  unfold estimate_rf, estimate_rf_const. cbn [ndiv RNum nofZ].
  rewrite (abs_sum_cp p ss vals H).
  rewrite <- (estimate_alpha_post_closed alpha Ha) at 2. f_equal.
  destruct (Rle_dec 0 (rsum ss)) as [Hp|Hn].
  - rewrite Rabs_pos_eq by assumption. f_equal. field. assumption.
  - rewrite Rabs_left by lra.
    replace (PI / 180 * (alpha / 180 / - rsum ss * 180 * rsum ss)) with (- (PI / 180 * alpha)) by (field; lra).
    apply cos_neg.
Qed.

Theorem estimate_rf_of_alpha p ss vals rf : Forall2 (cp_sample p) ss vals -> rsum ss <> 0 ->
  0 <= rf * Rabs (rsum ss) <= 1 -> estimate_rf vals (estimate_alpha vals rf) = rf.
Proof.
  intros H HS Hr.
  assert (Hab : 0 < Rabs (rsum ss)) by (apply Rabs_pos_lt; assumption).
  rewrite (estimate_alpha_cp p ss vals _ H).
  assert (Ec : cos (PI / 180 * (rf * 180 * rsum ss)) = cos (PI / 180 * (180 * (rf * Rabs (rsum ss))))).
  { destruct (Rle_dec 0 (rsum ss)) as [Hp|Hn].
    - rewrite Rabs_pos_eq by assumption. f_equal. ring.
    - rewrite Rabs_left by lra.
      replace (PI / 180 * (180 * (rf * - rsum ss))) with (- (PI / 180 * (rf * 180 * rsum ss))) by field.
      now rewrite cos_neg. }
  rewrite Ec, estimate_alpha_post_closed by lra.
  unfold estimate_rf, estimate_rf_const. cbn [ndiv RNum nofZ].
  rewrite (abs_sum_cp p ss vals H). field. lra.
Qed.

Notation RPhi := (@PPhi RNum).
Notation RT := (@PT RNum).
Notation RE := (@PE RNum).
Notation RP := (@PP RNum).
(* ------------------------------------------------------------------ phase offset with relaxation / precession in between *)
Lemma act_Phi_inv (o : R) e x : act (RPhi o) e (act (RPhi (- o)) e x) = x.
Proof. simpl. unfold Phi_op. now rewrite <- mv_mmul, rotation_phi_inv_r, mv_mid. Qed.
Lemma act_Phi_inv' (o : R) e x : act (RPhi (- o)) e (act (RPhi o) e x) = x.
Proof. simpl. unfold Phi_op. now rewrite <- mv_mmul, rotation_phi_inv_l, mv_mid. Qed.

Lemma Phi_commutes_E (o tau T1 T2 g : R) e x :
  mv (Phi_op o) (act_coef (E_op tau T1 T2 g) e x) = act_coef (E_op tau T1 T2 g) e (mv (Phi_op o) x).
Proof.
  unfold act_coef, E_op, relaxation_operator, Phi_op, rotation_phi. cbn [fst snd].
  destruct x as [x1 x2 x3], e as [e1 e2 e3].
  apply triple_eq; cbn [mv sv tadd dot row0 row1 row2 fp fm fz];
    change (@kmul Cops) with Cmult; change (@kadd Cops) with Cplus; apply C_eq; simpl; ring.
Qed.
Lemma Phi_commutes_P (o tau g : R) e x :
  mv (Phi_op o) (act_coef (P_op tau g) e x) = act_coef (P_op tau g) e (mv (Phi_op o) x).
Proof.
  unfold act_coef, P_op, precession_operator, Phi_op, rotation_phi. cbn [fst snd].
  destruct x as [x1 x2 x3].
  apply triple_eq; cbn [mv sv tadd dot row0 row1 row2 fp fm fz];
    change (@kmul Cops) with Cmult; change (@kadd Cops) with Cplus; apply C_eq; simpl; ring.
Qed.

Lemma conj_op (o : R) (b : pop RNum) e x :
  act (RPhi o) e (act b e (act (RPhi (- o)) e x)) = act (shift_phase o b) e x.
Proof.
  destruct b as [q|a p d|tau T1 T2 g|tau g]; cbn [act shift_phase].
  - unfold Phi_op. rewrite <- !mv_mmul, !rotation_phi_add. f_equal. f_equal. ring.
  - now rewrite <- !mv_mmul, <- mmul_assoc, phase_offset_identity.
  - rewrite Phi_commutes_E. f_equal. apply (act_Phi_inv o e x).
  - rewrite Phi_commutes_P. f_equal. apply (act_Phi_inv o e x).
Qed.

Theorem phase_offset_act (o : R) (body : list (pop RNum)) e x :
  act_list (RPhi (- o) :: body ++ [RPhi o]) e x = act_list (map (shift_phase o) body) e x.
Proof.
  rewrite act_list_cons, act_list_app. cbn [act_list fold_left].
  fold (act_list body e (act (RPhi (- o)) e x)).
  revert x. induction body as [|b t IH]; intros x.
  - apply act_Phi_inv.
  - cbn [map]. rewrite !act_list_cons.
    rewrite <- (conj_op o b e x).
    rewrite <- IH. f_equal. f_equal. symmetry. apply act_Phi_inv'.
Qed.
(* ------------------------------------------------------------------ structure of make_pulse_sequence (any number type) *)
Section Struct.
Variable N : NumOps.

Lemma mps_inv vals dur rf off ops : make_pulse_sequence N vals dur rf off = Some ops ->
  length vals <> 0%nat /\ existsb (fun v => nltb N (nofZ N 1) (fst v)) vals = false /\
  exists ds, sample_durations N (length vals) dur = Some ds /\
             existsb (fun d => nltb N d (nofZ N 0)) ds = false /\
             ops = wrap_offset N off (pulse_body N vals ds rf).
Proof.
  unfold make_pulse_sequence.
  destruct (Nat.eqb (length vals) 0) eqn:E0; [discriminate|].
  destruct (existsb (fun v => nltb N (nofZ N 1) (fst v)) vals) eqn:E1; [discriminate|].
  destruct (sample_durations N (length vals) dur) as [ds|] eqn:E2; [|discriminate].
  destruct (existsb (fun d => nltb N d (nofZ N 0)) ds) eqn:E3; [discriminate|].
  intros H. injection H as <-. apply Nat.eqb_neq in E0.
  split; [assumption|]. split; [reflexivity|]. exists ds. auto.
Qed.

Lemma mps_intro vals dur rf off ds : length vals <> 0%nat ->
  existsb (fun v => nltb N (nofZ N 1) (fst v)) vals = false ->
  sample_durations N (length vals) dur = Some ds ->
  existsb (fun d => nltb N d (nofZ N 0)) ds = false ->
  make_pulse_sequence N vals dur rf off = Some (wrap_offset N off (pulse_body N vals ds rf)).
Proof.
  intros H0 H1 H2 H3. unfold make_pulse_sequence, sample in *.
  destruct (Nat.eqb_neq (length vals) 0) as [_ K]. now rewrite (K H0), H1, H2, H3.
Qed.

Lemma sample_durations_length n dur ds : sample_durations N n dur = Some ds -> length ds = n.
Proof.
  destruct dur as [d|l]; simpl.
  - intros H. injection H as <-. apply repeat_length.
  - destruct (Nat.eqb (length l) n) eqn:E; [|discriminate]. intros H. injection H as <-. now apply Nat.eqb_eq.
Qed.

Lemma pulse_body_length vals ds rf : length ds = length vals ->
  length (pulse_body N vals ds rf) = length vals.
Proof. intros H. unfold pulse_body. rewrite map_length, combine_length, H. apply Nat.min_id. Qed.

(* the i-th operator is T(180 |v_i| rf, arg v_i, duration = d_i) *)
Lemma pulse_body_nth vals : forall ds rf i v d,
  nth_error vals i = Some v -> nth_error ds i = Some d ->
  nth_error (pulse_body N vals ds rf) i =
    Some (PT (nmul N (nmul N (nofZ N 180) (fst v)) rf) (snd v) d).
Proof.
  induction vals as [|v0 t IH]; intros ds rf i v d Hv Hd; destruct i; simpl in Hv; try discriminate.
  - destruct ds; simpl in Hd; [discriminate|]. injection Hv as <-. injection Hd as <-. reflexivity.
  - destruct ds as [|d0 ds]; simpl in Hd; [discriminate|]. unfold pulse_body. simpl.
    apply (IH ds rf i v d Hv Hd).
Qed.

Lemma pulse_body_durations vals : forall ds rf, length ds = length vals ->
  map (pop_duration N) (pulse_body N vals ds rf) = ds.
Proof.
  induction vals as [|v t IH]; intros [|d ds] rf H; simpl in H; try discriminate; [reflexivity|].
  unfold pulse_body. simpl. f_equal. apply IH. now injection H.
Qed.

(* operator list: exact shape, length and order *)
Theorem pulse_structure vals dur rf off ops : make_pulse_sequence N vals dur rf off = Some ops ->
  exists ds, sample_durations N (length vals) dur = Some ds /\ length ds = length vals /\
    let body := pulse_body N vals ds rf in
    length body = length vals /\
    (forall i v d, nth_error vals i = Some v -> nth_error ds i = Some d ->
       nth_error body i = Some (PT (nmul N (nmul N (nofZ N 180) (fst v)) rf) (snd v) d)) /\
    ops = match off with
          | None => body
          | Some o => if neqb N o (nofZ N 0) then body else PPhi (nopp N o) :: body ++ [PPhi o]
          end.
Proof.
  intros H. apply mps_inv in H. destruct H as (_ & _ & ds & Hd & _ & ->).
  exists ds. pose proof (sample_durations_length _ _ _ Hd) as L.
  split; [assumption|]. split; [assumption|]. cbv zeta.
  split; [now apply pulse_body_length|]. split; [intros; now apply pulse_body_nth|].
  destruct off; reflexivity.
Qed.
End Struct.

(* ------------------------------------------------------------------ durations *)
Lemma total_duration_sum (ops : list (pop RNum)) :
  total_duration RNum ops = rsum (map (pop_duration RNum) ops).
Proof.
  unfold total_duration. cbn [nofZ nadd RNum].
  assert (G : forall acc : R, fold_left (fun (a : R) o => a + pop_duration RNum o) ops acc
                          = acc + rsum (map (pop_duration RNum) ops)).
  { induction ops as [|o t IH]; intros acc; simpl; [symmetry; apply Rplus_0_r|]. rewrite IH. apply Rplus_assoc. }
  rewrite G. apply Rplus_0_l.
Qed.

Lemma rsum_app a b : rsum (a ++ b) = rsum a + rsum b.
Proof. induction a; simpl; [ring|]. rewrite IHa. ring. Qed.

Lemma rsum_repeat c n : rsum (repeat c n) = INR n * c.
Proof. induction n; [simpl; ring|]. rewrite S_INR. simpl repeat. simpl rsum. rewrite IHn. ring. Qed.

Lemma wrap_offset_durations off (body : list (pop RNum)) :
  rsum (map (pop_duration RNum) (wrap_offset RNum off body)) = rsum (map (pop_duration RNum) body).
Proof.
  unfold wrap_offset. destruct off as [o|]; [|reflexivity].
  destruct (neqb RNum o (nofZ RNum 0)); [reflexivity|].
  simpl. rewrite map_app, rsum_app. simpl. ring.
Qed.

Definition nominal_duration (n : nat) (dur : dspec RNum) : R :=
  match dur with DScalar d => d | DList ds => rsum ds end.

Theorem pulse_duration vals dur rf off ops :
  make_pulse_sequence RNum vals dur rf off = Some ops ->
  total_duration RNum ops = nominal_duration (length vals) dur.
Proof.
  intros H. apply mps_inv in H. destruct H as (Hn & _ & ds & Hd & _ & ->).
  pose proof (sample_durations_length _ _ _ _ Hd) as L.
  rewrite total_duration_sum, wrap_offset_durations, pulse_body_durations by assumption.
  destruct dur as [d|l]; simpl in Hd |- *.
  - injection Hd as <-. rewrite rsum_repeat, <- INR_IZR_INZ.
    assert (INR (length vals) <> 0) by (apply not_0_INR; assumption). field. assumption.
  - revert Hd. destruct (Nat.eqb _ _); intros Hd; [|discriminate]. now injection Hd as <-.
Qed.

Lemma modify_op_durations T1 T2 g (o : pop RNum) :
  rsum (map (pop_duration RNum) (modify_op RNum T1 T2 g o)) = pop_duration RNum o.
Proof.
  unfold modify_op. destruct (nltb RNum (nofZ RNum 0) (pop_duration RNum o)); [|simpl; ring].
  destruct T1, T2, g; simpl; ring.
Qed.

Lemma modify_durations T1 T2 g (ops : list (pop RNum)) :
  rsum (map (pop_duration RNum) (modify RNum T1 T2 g ops)) = rsum (map (pop_duration RNum) ops).
Proof.
  unfold modify. induction ops as [|o t IH]; [reflexivity|].
  cbn [flat_map map]. rewrite map_app, rsum_app, modify_op_durations, IH. reflexivity.
Qed.

Theorem rfpulse_duration vals dur rf alpha phi T1 T2 g S ops :
  rfpulse RNum vals dur rf alpha phi T1 T2 g S = Some ops ->
  total_duration RNum ops = nominal_duration (length vals) dur.
Proof.
  unfold rfpulse. destruct (resolve_rf RNum S rf alpha) as [r|]; [|discriminate].
  destruct (make_pulse_sequence RNum vals dur r phi) as [seq|] eqn:E; [|discriminate].
  intros H. injection H as <-. rewrite <- (pulse_duration _ _ _ _ _ E), !total_duration_sum.
  destruct T1, T2, g; try reflexivity; apply modify_durations.
Qed.

Theorem encode_phase_duration (ops : list (pop RNum)) D grad gamma x rw :
  total_duration RNum (encode_phase RNum ops D grad gamma x rw) = total_duration RNum ops.
Proof.
  unfold encode_phase. cbv zeta. rewrite !total_duration_sum, map_app, rsum_app, modify_durations.
  destruct rw; simpl; ring.
Qed.
(* ------------------------------------------------------------------ modify() and the Phi pair, phase offset on whole pulses *)
Lemma nltb_0_0 : nltb RNum (nofZ RNum 0) (nofZ RNum 0) = false.
Proof. cbn. destruct (Rlt_dec 0 0); [lra|reflexivity]. Qed.

Lemma modify_op_Phi T1 T2 g (p : R) : modify_op RNum T1 T2 g (RPhi p) = [RPhi p].
Proof. unfold modify_op. cbn [pop_duration]. now rewrite nltb_0_0. Qed.

Lemma modify_app T1 T2 g (a b : list (pop RNum)) :
  modify RNum T1 T2 g (a ++ b) = modify RNum T1 T2 g a ++ modify RNum T1 T2 g b.
Proof. apply flat_map_app. Qed.

Lemma modify_single_Phi T1 T2 g (p : R) : modify RNum T1 T2 g [RPhi p] = [RPhi p].
Proof. unfold modify. cbn [flat_map]. now rewrite modify_op_Phi. Qed.

Lemma modify_wrap T1 T2 g (a b : R) (body : list (pop RNum)) :
  modify RNum T1 T2 g (RPhi a :: body ++ [RPhi b]) = RPhi a :: modify RNum T1 T2 g body ++ [RPhi b].
Proof.
  change (RPhi a :: body ++ [RPhi b]) with ([RPhi a] ++ body ++ [RPhi b]).
  now rewrite !modify_app, !modify_single_Phi.
Qed.

Lemma modify_op_shift T1 T2 g (o : R) (b : pop RNum) :
  modify_op RNum T1 T2 g (shift_phase o b) = map (shift_phase o) (modify_op RNum T1 T2 g b).
Proof.
  destruct b as [q|a p d|tau U1 U2 f|tau f]; unfold modify_op; cbn [shift_phase pop_duration];
    try (rewrite nltb_0_0; reflexivity).
  destruct (nltb RNum (nofZ RNum 0) d); [|reflexivity]. destruct T1, T2, g; reflexivity.
Qed.

Lemma modify_shift T1 T2 g (o : R) (body : list (pop RNum)) :
  modify RNum T1 T2 g (map (shift_phase o) body) = map (shift_phase o) (modify RNum T1 T2 g body).
Proof.
  unfold modify. induction body as [|b t IH]; [reflexivity|].
  cbn [map flat_map]. now rewrite map_app, modify_op_shift, IH.
Qed.

Lemma wrap_offset_some (o : R) (body : list (pop RNum)) : o <> 0 ->
  wrap_offset RNum (Some o) body = RPhi (- o) :: body ++ [RPhi o].
Proof.
  intros H. unfold wrap_offset. cbn [neqb RNum nofZ nopp].
  destruct (Req_EM_T o 0); [contradiction|reflexivity].
Qed.

Definition shift_sample (o : R) (v : R * R) : R * R := (fst v, snd v + o).

Lemma pulse_body_shift (o : R) (vals : list (R * R)) : forall (ds : list R) (rf : R),
  pulse_body RNum (map (shift_sample o) vals) ds rf = map (shift_phase o) (pulse_body RNum vals ds rf).
Proof.
  induction vals as [|v t IH]; intros [|d ds] rf; try reflexivity.
  unfold pulse_body in *. cbn [map combine]. f_equal. apply IH.
Qed.

Lemma mps_offset (vals : list (R * R)) dur (r o : R) ops : o <> 0 ->
  make_pulse_sequence RNum vals dur r (Some o) = Some ops ->
  exists body, make_pulse_sequence RNum vals dur r None = Some body /\ ops = RPhi (- o) :: body ++ [RPhi o].
Proof.
  intros Ho H. apply mps_inv in H. destruct H as (H0 & H1 & ds & H2 & H3 & ->).
  exists (pulse_body RNum vals ds r). split.
  - apply (mps_intro RNum vals dur r None ds H0 H1 H2 H3).
  - now apply wrap_offset_some.
Qed.

Lemma mps_shift (vals : list (R * R)) dur (r o : R) body :
  make_pulse_sequence RNum vals dur r None = Some body ->
  make_pulse_sequence RNum (map (shift_sample o) vals) dur r None = Some (map (shift_phase o) body).
Proof.
  intros H. apply mps_inv in H. destruct H as (H0 & H1 & ds & H2 & H3 & ->). cbn [wrap_offset].
  rewrite <- pulse_body_shift.
  apply (mps_intro RNum (map (shift_sample o) vals) dur r None ds).
  - now rewrite map_length.
  - rewrite <- H1. clear. induction vals as [|v t IH]; [reflexivity|]. cbn [map existsb]. now rewrite IH.
  - now rewrite map_length.
  - assumption.
Qed.

Lemma polar_shift (o : R) v : polar (shift_sample o v) = Cmult (cis (o * PI / 180)) (polar v).
Proof.
  unfold polar, shift_sample, cis. cbn [fst snd].
  replace ((snd v + o) * PI / 180) with (snd v * PI / 180 + o * PI / 180) by field.
  rewrite cos_plus, sin_plus. apply C_eq; simpl; ring.
Qed.

(* a phase offset phi = o acts exactly as the pulse whose samples are all multiplied by exp(i o) *)
Theorem phase_offset_is_sample_rotation (vals : list (R * R)) dur rf alpha (o : R) T1 T2 g S ops : o <> 0 ->
  rfpulse RNum vals dur rf alpha (Some o) T1 T2 g S = Some ops ->
  exists ops', rfpulse RNum (map (shift_sample o) vals) dur rf alpha None T1 T2 g S = Some ops' /\
    (forall e x, act_list ops e x = act_list ops' e x) /\
    (forall v, polar (shift_sample o v) = Cmult (cis (o * PI / 180)) (polar v)).
Proof.
  intros Ho. unfold rfpulse. destruct (resolve_rf RNum S rf alpha) as [r|]; [|discriminate].
  destruct (make_pulse_sequence RNum vals dur r (Some o)) as [seq|] eqn:E; [|discriminate].
  intros H. injection H as <-.
  destruct (mps_offset vals dur r o seq Ho E) as (body & Hb & ->).
  rewrite (mps_shift vals dur r o body Hb). eexists. split; [reflexivity|]. split; [|apply polar_shift].
  intros e x.
  destruct T1, T2, g; rewrite ?modify_wrap, ?modify_shift; apply phase_offset_act.
Qed.

(* ------------------------------------------------------------------ the pulse is the ordered product *)
Lemma pulse_body_rot (vals : list (R * R)) : forall ds rf, List.Forall is_rot (pulse_body RNum vals ds rf).
Proof.
  induction vals as [|v t IH]; intros [|d ds] rf; try constructor.
  - exact I.
  - apply IH.
Qed.

Lemma mat_of_pulse_body (vals : list (R * R)) : forall (ds : list R) (rf : R), length ds = length vals ->
  map mat_of (pulse_body RNum vals ds rf) = map (fun v => T_op (180 * fst v * rf) (snd v)) vals.
Proof.
  induction vals as [|v t IH]; intros [|d ds] rf H; simpl in H; try discriminate; [reflexivity|].
  unfold pulse_body in *. cbn [map combine]. f_equal. apply IH. now injection H.
Qed.

Lemma wrap_offset_rot off (body : list (pop RNum)) : List.Forall is_rot body ->
  List.Forall is_rot (wrap_offset RNum off body).
Proof.
  intros H. unfold wrap_offset. destruct off as [o|]; [|assumption].
  destruct (neqb RNum o (nofZ RNum 0)); [assumption|].
  constructor; [exact I|]. apply Forall_app. split; [assumption|]. constructor; [exact I|constructor].
Qed.

(* without relaxation: the list built by make_pulse_sequence acts as  Phi(o) . T_n ... T_1 . Phi(-o)  *)
Theorem pulse_is_product (vals : list (R * R)) dur (rf : R) off ops :
  make_pulse_sequence RNum vals dur rf off = Some ops ->
  let Ts := map (fun v => T_op (180 * fst v * rf) (snd v)) vals in
  (forall e x, act_list ops e x = mv (mprod (map mat_of ops)) x) /\
  mprod (map mat_of ops) =
    match off with
    | None => mprod Ts
    | Some o => if neqb RNum o 0 then mprod Ts else mmul (Phi_op o) (mmul (mprod Ts) (Phi_op (- o)))
    end.
Proof.
  intros H. apply mps_inv in H. destruct H as (_ & _ & ds & Hd & _ & ->).
  pose proof (sample_durations_length _ _ _ _ Hd) as L. cbv zeta. split.
  - intros e x. apply act_list_mprod, wrap_offset_rot, pulse_body_rot.
  - unfold wrap_offset. destruct off as [o|]; [|now rewrite mat_of_pulse_body].
    cbn [nofZ RNum]. destruct (neqb RNum o 0); [now rewrite mat_of_pulse_body|].
    cbn [map]. rewrite mprod_cons, map_app, mprod_app. cbn [map]. rewrite mprod_cons, mprod_nil, mmul_id_l.
    rewrite mat_of_pulse_body by assumption. cbn [mat_of nopp RNum]. now rewrite mmul_assoc.
Qed.

(* with T1/T2/g: every sample with a positive duration is followed by the evolution over that duration *)
Lemma act_list_modify T1 T2 g (ops : list (pop RNum)) e x :
  act_list (modify RNum T1 T2 g ops) e x =
  fold_left (fun y o => act_list (modify_op RNum T1 T2 g o) e y) ops x.
Proof.
  unfold modify. revert x. induction ops as [|o t IH]; intros x; [reflexivity|].
  cbn [flat_map fold_left]. now rewrite act_list_app, IH.
Qed.

Lemma modify_op_T (T1 T2 g a p d : R) :
  modify_op RNum (Some T1) (Some T2) (Some g) (RT a p d) =
  if Rlt_dec 0 d then [RT a p d; RE d T1 T2 g] else [RT a p d].
Proof. unfold modify_op. cbn. destruct (Rlt_dec 0 d); reflexivity. Qed.

Lemma modify_op_T_g (g a p d : R) :
  modify_op RNum None None (Some g) (RT a p d) =
  if Rlt_dec 0 d then [RT a p d; RP d g] else [RT a p d].
Proof. unfold modify_op. cbn. destruct (Rlt_dec 0 d); reflexivity. Qed.

(* ------------------------------------------------------------------ constant phase: a single rotation *)
Theorem const_phase_single_rotation p ss (vals : list (R * R)) dur (rf : R) ops :
  Forall2 (cp_sample p) ss vals ->
  make_pulse_sequence RNum vals dur rf None = Some ops ->
  forall e x, act_list ops e x = mv (T_op (180 * rf * rsum ss) p) x.
Proof.
  intros Hcp H e x. destruct (pulse_is_product vals dur rf None ops H) as [Ha Hm].
  rewrite Ha, Hm. f_equal.
  rewrite <- (const_phase_product (180 * rf) p ss vals Hcp). f_equal.
  apply map_ext. intros v. f_equal. ring.
Qed.

(* ... by the target angle when rf is resolved from alpha *)
Theorem const_phase_target_angle p ss (vals : list (R * R)) dur (alpha : R) ops :
  Forall2 (cp_sample p) ss vals -> rsum ss <> 0 ->
  rfpulse RNum vals dur None (Some alpha) None None None None (Cmod (csum vals)) = Some ops ->
  forall e x, act_list ops e x =
     mv (T_op (if Rle_dec 0 (rsum ss) then alpha else - alpha) p) x.
Proof.
  intros Hcp HS. unfold rfpulse, resolve_rf.
  destruct (make_pulse_sequence RNum vals dur _ None) as [seq|] eqn:E; [|discriminate].
  intros H. injection H as <-. intros e x.
  rewrite (const_phase_single_rotation p ss vals dur _ seq Hcp E). f_equal. f_equal.
  unfold estimate_rf_const. cbn [ndiv RNum nofZ]. rewrite (abs_sum_cp p ss vals Hcp).
  destruct (Rle_dec 0 (rsum ss)).
  - rewrite Rabs_pos_eq by assumption. field. assumption.
  - rewrite Rabs_left by lra. field. lra.
Qed.

(* ------------------------------------------------------------------ encode_phase *)
Theorem encode_phase_is_modify (N : NumOps) (ops : list (pop N)) D grad gamma x rw :
  encode_phase N ops D grad gamma x rw =
  modify N None None (Some (space_to_freq N grad gamma x)) ops ++
  match rw with None => [] | Some r => [PP (nmul N D r) (nopp N (space_to_freq N grad gamma x))] end.
Proof. reflexivity. Qed.

(* ------------------------------------------------------------------ link with the state-matrix model (Model/Ops.v) *)
Definition pw (F : triple Cops -> triple Cops -> triple Cops) (s : sm Cops) : sm Cops :=
  mkSM (tab (length (st s)) (fun i => F (nth i (equ s) t0) (nth i (st s) t0))) (equ s).

Lemma map_tab {A B} (f : A -> B) (l : list A) d : map f l = tab (length l) (fun i => f (nth i l d)).
Proof.
  unfold tab. induction l as [|a t IH]; [reflexivity|].
  cbn [length seq map nth]. f_equal. rewrite <- seq_shift, map_map. exact IH.
Qed.

Lemma apply_to_op o s : apply (to_op o) s = pw (act o) s.
Proof.
  destruct o as [q|a p d|tau T1 T2 g|tau g]; unfold pw; cbn [to_op apply act apply_matrix].
  - now rewrite (map_tab _ _ t0).
  - now rewrite (map_tab _ _ t0).
  - reflexivity.
  - unfold act_coef, P_op, precession_operator. cbn [fst snd apply_scalar]. now rewrite (map_tab _ _ t0).
Qed.

Lemma pw_pw F G s : pw F (pw G s) = pw (fun e x => F e (G e x)) s.
Proof.
  unfold pw. cbn [st equ]. rewrite length_tab. f_equal.
  unfold tab. apply map_ext_in. intros i Hi. apply in_seq in Hi.
  fold (tab (length (st s)) (fun i0 : nat => G (nth i0 (equ s) t0) (nth i0 (st s) t0))).
  rewrite nth_tab by lia. reflexivity.
Qed.

Lemma pw_id s : pw (fun _ x => x) s = s.
Proof. unfold pw. rewrite <- (map_tab (fun x => x) (st s) t0), map_id. now destruct s. Qed.

Theorem run_act_list ops s : run (map to_op ops) s = pw (act_list ops) s.
Proof.
  revert s. induction ops as [|o t IH]; intros s.
  - simpl. symmetry. apply pw_id.
  - cbn [map]. unfold run in *. cbn [fold_left]. rewrite IH, apply_to_op, pw_pw. reflexivity.
Qed.
