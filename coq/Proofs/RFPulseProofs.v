(* C18 — proofs about the shaped-RF-pulse model (Model/RFPulse.v) with the GENERATED matrices
   T_op / Phi_op (Gen/Transition.v) and coefficient arrays E_op / P_op (Gen/Evolution.v). *)
From Coq Require Import List ZArith Reals Lra Lia Psatz Bool.
From Coquelicot Require Import Coquelicot.
From EPG Require Import Scalar State Ops CInst Transition Evolution CoefT RFPulse.
Import ListNotations.
Local Open Scope R_scope.

(* ------------------------------------------------------------------ 3x3 algebra *)
Ltac mat_alg1 :=
  apply mat3_eq; apply triple_eq;
  cbn [mmul madd msub mscale rowmul dot col0 col1 col2 row0 row1 row2 fp fm fz tadd tsub tscale mzero t0 mid mv sv];
  change (@kmul Cops) with Cmult; change (@kadd Cops) with Cplus; change (@ksub Cops) with Cminus;
  change (@k0 Cops) with (RtoC 0); change (@k1 Cops) with (RtoC 1); apply C_eq; simpl; ring.
Ltac tri_alg :=
  apply triple_eq;
  cbn [mmul rowmul dot col0 col1 col2 row0 row1 row2 fp fm fz tadd tsub tscale t0 mid mv sv];
  change (@kmul Cops) with Cmult; change (@kadd Cops) with Cplus; change (@ksub Cops) with Cminus;
  change (@k0 Cops) with (RtoC 0); change (@k1 Cops) with (RtoC 1); apply C_eq; simpl; ring.

Ltac mat_algf :=
  apply mat3_eq; apply triple_eq;
  cbn [mmul madd msub mscale rowmul dot col0 col1 col2 row0 row1 row2 fp fm fz tadd tsub tscale mzero t0 mid mv sv];
  change (@kmul Cops) with Cmult; change (@kadd Cops) with Cplus; change (@ksub Cops) with Cminus;
  change (@k0 Cops) with (RtoC 0); change (@k1 Cops) with (RtoC 1); apply C_eq; simpl; field.

Lemma mmul_assoc (A B D : mat3 Cops) : mmul A (mmul B D) = mmul (mmul A B) D.
Proof. mat_alg1. Qed.
Lemma mmul_id_l (A : mat3 Cops) : mmul mid A = A.
Proof. mat_alg1. Qed.
Lemma mmul_id_r (A : mat3 Cops) : mmul A mid = A.
Proof. mat_alg1. Qed.
Lemma mv_mmul (A B : mat3 Cops) x : mv (mmul A B) x = mv A (mv B x).
Proof. tri_alg. Qed.
Lemma mv_mid (x : triple Cops) : mv mid x = x.
Proof. tri_alg. Qed.

(* ------------------------------------------------------------------ z-rotations compose *)
Lemma rotation_phi_add x y : mmul (rotation_phi x) (rotation_phi y) = rotation_phi (x + y).
Proof.
  unfold rotation_phi.
  replace ((x + y) * PI / 180) with (x * PI / 180 + y * PI / 180) by field.
  rewrite ?cos_neg, ?sin_neg, cos_plus, sin_plus. mat_alg1.
Qed.

Lemma rotation_phi_0 : rotation_phi 0 = mid.
Proof.
  unfold rotation_phi. replace (0 * PI / 180) with 0 by field.
  rewrite ?Ropp_0, cos_0, sin_0. reflexivity.
Qed.

Lemma rotation_phi_inv_l x : mmul (rotation_phi (- x)) (rotation_phi x) = mid.
Proof. rewrite rotation_phi_add. replace (- x + x) with 0 by ring. apply rotation_phi_0. Qed.
Lemma rotation_phi_inv_r x : mmul (rotation_phi x) (rotation_phi (- x)) = mid.
Proof. rewrite rotation_phi_add. replace (x + - x) with 0 by ring. apply rotation_phi_0. Qed.

(* ------------------------------------------------------------------ x-rotations compose *)
Lemma rotation_alpha_add a b : mmul (rotation_alpha a) (rotation_alpha b) = rotation_alpha (a + b).
Proof.
  unfold rotation_alpha.
  set (ha := PI / 180 * a / 2). set (hb := PI / 180 * b / 2).
  replace (PI / 180 * (a + b) / 2) with (ha + hb) by (unfold ha, hb; field).
  replace (PI / 180 * (a + b)) with (2 * (ha + hb)) by (unfold ha, hb; field).
  replace (PI / 180 * a) with (2 * ha) by (unfold ha; field).
  replace (PI / 180 * b) with (2 * hb) by (unfold hb; field).
  rewrite !sin_2a, !cos_2a, !cos_plus, !sin_plus.
  generalize (sin ha) (cos ha) (sin hb) (cos hb). intros sa ca sb cb.
  mat_algf.
Qed.

Lemma rotation_alpha_0 : rotation_alpha 0 = mid.
Proof.
  unfold rotation_alpha. replace (PI / 180 * 0 / 2) with 0 by field.
  replace (PI / 180 * 0) with 0 by field. rewrite cos_0, sin_0.
  apply mat3_eq; apply triple_eq; cbn [row0 row1 row2 fp fm fz mid];
    change (@k0 Cops) with (RtoC 0); change (@k1 Cops) with (RtoC 1); apply C_eq; simpl; ring.
Qed.

(* ------------------------------------------------------------------ T_op: same axis => angles add *)
Lemma sandwich_mul (P Pm A B : mat3 Cops) : mmul Pm P = mid ->
  mmul (mmul P (mmul A Pm)) (mmul P (mmul B Pm)) = mmul P (mmul (mmul A B) Pm).
Proof.
  intros H.
  rewrite <- (mmul_assoc P (mmul A Pm) _), <- (mmul_assoc A Pm _), (mmul_assoc Pm P _), H, mmul_id_l.
  rewrite <- (mmul_assoc A B Pm). reflexivity.
Qed.

Theorem T_same_axis a1 a2 p : mmul (T_op a1 p) (T_op a2 p) = T_op (a1 + a2) p.
Proof.
  unfold T_op. rewrite !rotation_operator_struct.
  rewrite (sandwich_mul _ _ _ _ (rotation_phi_inv_l p)), rotation_alpha_add. reflexivity.
Qed.

Lemma T_op_0 p : T_op 0 p = mid.
Proof.
  unfold T_op. rewrite rotation_operator_struct, rotation_alpha_0, mmul_id_l. apply rotation_phi_inv_r.
Qed.

(* ------------------------------------------------------------------ phase offset = conjugation by Phi *)
Theorem phase_offset_identity o a p :
  mmul (Phi_op o) (mmul (T_op a p) (Phi_op (- o))) = T_op a (p + o).
Proof.
  unfold Phi_op, T_op. rewrite !rotation_operator_struct.
  replace (p + o) with (o + p) by ring.
  replace (- (o + p)) with (- p + - o) by ring.
  rewrite <- !rotation_phi_add, <- !mmul_assoc. reflexivity.
Qed.

(* T(-a, p +/- 180) = T(a, p): a negative real amplitude is a rotation about the same axis *)
Lemma flip_alpha_pos a :
  mmul (rotation_phi 180) (mmul (rotation_alpha (- a)) (rotation_phi (- 180))) = rotation_alpha a.
Proof.
  unfold rotation_phi, rotation_alpha.
  replace (180 * PI / 180) with PI by field. replace (- 180 * PI / 180) with (- PI) by field.
  replace (PI / 180 * - a / 2) with (- (PI / 180 * a / 2)) by field.
  replace (PI / 180 * - a) with (- (PI / 180 * a)) by field.
  rewrite ?Ropp_involutive, ?cos_neg, ?sin_neg, ?cos_PI, ?sin_PI.
  mat_alg1.
Qed.
Lemma flip_alpha_neg a :
  mmul (rotation_phi (- 180)) (mmul (rotation_alpha (- a)) (rotation_phi (- - 180))) = rotation_alpha a.
Proof.
  unfold rotation_phi, rotation_alpha.
  replace (- - 180 * PI / 180) with PI by field. replace (- 180 * PI / 180) with (- PI) by field.
  replace (PI / 180 * - a / 2) with (- (PI / 180 * a / 2)) by field.
  replace (PI / 180 * - a) with (- (PI / 180 * a)) by field.
  rewrite ?Ropp_involutive, ?cos_neg, ?sin_neg, ?cos_PI, ?sin_PI.
  mat_alg1.
Qed.

Lemma T_flip_pos a p : T_op (- a) (p + 180) = T_op a p.
Proof.
  unfold T_op. rewrite !rotation_operator_struct.
  replace (- (p + 180)) with (- 180 + - p) by ring.
  rewrite <- !rotation_phi_add, <- !mmul_assoc.
  rewrite (mmul_assoc (rotation_alpha (- a))), (mmul_assoc (rotation_phi 180)), flip_alpha_pos. reflexivity.
Qed.
Lemma T_flip_neg a p : T_op (- a) (p - 180) = T_op a p.
Proof.
  unfold T_op. rewrite !rotation_operator_struct.
  replace (p - 180) with (p + - 180) by ring.
  replace (- (p + - 180)) with (- - 180 + - p) by ring.
  rewrite <- !rotation_phi_add, <- !mmul_assoc.
  rewrite (mmul_assoc (rotation_alpha (- a))), (mmul_assoc (rotation_phi (- 180))), flip_alpha_neg. reflexivity.
Qed.
