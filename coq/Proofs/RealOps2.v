(* C03, end to end: the side conditions of Proofs/RealSeq2.v discharged for the TRANSLATED arrays of the
   package (Gen/Transition.v, Gen/Evolution.v) with the derivative tables of Proofs/CoefT.v, CoefE.v.
   Diagonal entry H[v,v]: T in alpha or phi, Phi, E in tau, T1, T2 or g, P in tau or g, R in Re rT, rL or r0,
   constants, shifts, and the operators without differentiable parameter SPOILER, RESET, PD(pd, reset), Wait.
   Mixed entry H[u,w]: any two such operators (or constants, shifts, SPOILER, RESET, PD, Wait: the items of
   RealSeq.real_item) driven by u resp. w, and TWO parameters
   of the SAME operator through the mixed tables: T (alpha, phi), E (T2, tau), (T1, tau), (g, tau), (T2, g),
   P (g, tau) -- in both assignments of the two variables.
   Ranks of the parameters as in the classes' PARAMETERS lists; for two parameters of one operator the flag sw of
   IMxy / IAxy is set so that the order1 dictionary lists the variables in the order of their parameters, as
   Sequence.build does. *)
From Coq Require Import List ZArith Lia Bool Reals Lra.
From Coquelicot Require Import Coquelicot.
From EPG Require Import Scalar State Ops ListLemmas Views Diff DiffLemmas DiffExact DiffPoint DiffExact2 DiffPoint2
  Dual CInst CDeriv.
From EPG Require Import Transition Evolution CoefT CoefE Jet RealSeq Jet2 Shapes2 RealSeq2.
Import ListNotations.
Local Open Scope R_scope.

(* ================================================================================== *)
(* Diagonal entry                                                                     *)
(* ================================================================================== *)
Definition dT_const (alpha phi : R) : ritem1 := R1Mc (T_op alpha phi).
Definition dT_alpha (c b phi : R) : ritem1 :=
  R1Mv (fun a => T_op a phi) (fun a => T_d_alpha a phi) (fun a => T_d2_alpha_alpha a phi) 0%nat c b.
Definition dT_phi (alpha c b : R) : ritem1 :=
  R1Mv (fun p => T_op alpha p) (fun p => T_d_phi alpha p) (fun p => T_d2_phi_phi alpha p) 1%nat c b.
Definition dPhi_phi (c b : R) : ritem1 := R1Mv Phi_op Phi_d_phi Phi_d2_phi_phi 0%nat c b.
Definition dE_const (tau T1 T2 g : R) : ritem1 := R1Ac (E_op tau T1 T2 g).
Definition dE_tau (T1 T2 g c b : R) : ritem1 :=
  R1Av (fun u => E_op u T1 T2 g) (fun u => E_d_tau u T1 T2 g) (fun u => E_d2_tau_tau u T1 T2 g) true 0%nat c b.
Definition dE_T1 (tau T2 g c b : R) : ritem1 :=
  R1Av (fun u => E_op tau u T2 g) (fun u => E_d_T1 tau u T2 g) (fun u => E_d2_T1_T1 tau u T2 g) true 1%nat c b.
Definition dE_T2 (tau T1 g c b : R) : ritem1 :=
  R1Av (fun u => E_op tau T1 u g) (fun u => E_d_T2 tau T1 u g) (fun u => E_d2_T2_T2 tau T1 u g) true 2%nat c b.
Definition dE_g (tau T1 T2 c b : R) : ritem1 :=
  R1Av (fun u => E_op tau T1 T2 u) (fun u => E_d_g tau T1 T2 u) (fun u => E_d2_g_g tau T1 T2 u) true 3%nat c b.
Definition dP_const (tau g : R) : ritem1 := R1Ac (P_op tau g).
Definition dP_tau (g c b : R) : ritem1 :=
  R1Av (fun u => P_op u g) (fun u => P_d_tau u g) (fun u => P_d2_tau_tau u g) false 0%nat c b.
Definition dP_g (tau c b : R) : ritem1 :=
  R1Av (fun u => P_op tau u) (fun u => P_d_g tau u) (fun u => P_d2_g_g tau u) false 1%nat c b.
Definition dR_rT (rT_im rL r0 c b : R) : ritem1 :=
  R1Av (fun u => R_op u rT_im rL r0) (fun u => R_d_rT u rT_im rL r0) (fun u => R_d2_rT_rT u rT_im rL r0) true 0%nat c b.
Definition dR_rL (rT_re rT_im r0 c b : R) : ritem1 :=
  R1Av (fun u => R_op rT_re rT_im u r0) (fun u => R_d_rL rT_re rT_im u r0) (fun u => R_d2_rL_rL rT_re rT_im u r0)
       true 1%nat c b.
Definition dR_r0 (rT_re rT_im rL c b : R) : ritem1 :=
  R1Av (fun u => R_op rT_re rT_im rL u) (fun u => R_d_r0 rT_re rT_im rL u) (fun u => R_d2_r0_r0 rT_re rT_im rL u)
       true 2%nat c b.

Lemma hfalse_true (P : Prop) : true = false -> P.
Proof. intros H. discriminate H. Qed.

Lemma dT_alpha_ok x0 c b phi : item1_ok x0 (dT_alpha c b phi).
Proof.
  split; [|exact (T_d2_alpha_alpha_correct (c * x0 + b) phi)].
  apply loc_all. intros x. exact (T_d_alpha_correct (c * x + b) phi).
Qed.
Lemma dT_phi_ok x0 alpha c b : item1_ok x0 (dT_phi alpha c b).
Proof.
  split; [|exact (T_d2_phi_phi_correct alpha (c * x0 + b))].
  apply loc_all. intros x. exact (T_d_phi_correct alpha (c * x + b)).
Qed.
Lemma dPhi_phi_ok x0 c b : item1_ok x0 (dPhi_phi c b).
Proof.
  split; [|exact (Phi_d2_phi_phi_correct (c * x0 + b))].
  apply loc_all. intros x. exact (Phi_d_phi_correct (c * x + b)).
Qed.
Lemma dE_tau_ok x0 T1 T2 g c b : T1 <> 0 -> T2 <> 0 -> item1_ok x0 (dE_tau T1 T2 g c b).
Proof.
  intros H1 H2. split; [|split; [exact (E_d2_tau_tau_correct (c * x0 + b) T1 T2 g H1 H2)|split; [reflexivity|apply hfalse_true]]].
  apply loc_all. intros x. exact (E_d_tau_correct (c * x + b) T1 T2 g H1 H2).
Qed.
Lemma dE_T1_ok x0 tau T2 g c b : c * x0 + b <> 0 -> item1_ok x0 (dE_T1 tau T2 g c b).
Proof.
  intros H1. split; [|split; [exact (E_d2_T1_T1_correct tau (c * x0 + b) T2 g H1)|split; [reflexivity|apply hfalse_true]]].
  apply (loc_imp x0 (fun x => c * x + b <> 0)); [|exact (affine_nz_loc c b x0 H1)].
  intros x Hx. exact (E_d_T1_correct tau (c * x + b) T2 g Hx).
Qed.
Lemma dE_T2_ok x0 tau T1 g c b : c * x0 + b <> 0 -> item1_ok x0 (dE_T2 tau T1 g c b).
Proof.
  intros H2. split; [|split; [exact (E_d2_T2_T2_correct tau T1 (c * x0 + b) g H2)|split; [reflexivity|apply hfalse_true]]].
  apply (loc_imp x0 (fun x => c * x + b <> 0)); [|exact (affine_nz_loc c b x0 H2)].
  intros x Hx. exact (E_d_T2_correct tau T1 (c * x + b) g Hx).
Qed.
Lemma dE_g_ok x0 tau T1 T2 c b : item1_ok x0 (dE_g tau T1 T2 c b).
Proof.
  split; [|split; [exact (E_d2_g_g_correct tau T1 T2 (c * x0 + b))|split; [reflexivity|apply hfalse_true]]].
  apply loc_all. intros x. exact (E_d_g_correct tau T1 T2 (c * x + b)).
Qed.
Lemma dP_tau_ok x0 g c b : item1_ok x0 (dP_tau g c b).
Proof.
  split; [|split; [exact (P_d2_tau_tau_correct (c * x0 + b) g)|split; [reflexivity|intros _; split; reflexivity]]].
  apply loc_all. intros x. exact (P_d_tau_correct (c * x + b) g).
Qed.
Lemma dP_g_ok x0 tau c b : item1_ok x0 (dP_g tau c b).
Proof.
  split; [|split; [exact (P_d2_g_g_correct tau (c * x0 + b))|split; [reflexivity|intros _; split; reflexivity]]].
  apply loc_all. intros x. exact (P_d_g_correct tau (c * x + b)).
Qed.
Lemma dR_rT_ok x0 rT_im rL r0 c b : item1_ok x0 (dR_rT rT_im rL r0 c b).
Proof.
  split; [|split; [exact (R_d2_rT_rT_correct (c * x0 + b) rT_im rL r0)|split; [reflexivity|apply hfalse_true]]].
  apply loc_all. intros x. exact (R_d_rT_correct (c * x + b) rT_im rL r0).
Qed.
Lemma dR_rL_ok x0 rT_re rT_im r0 c b : item1_ok x0 (dR_rL rT_re rT_im r0 c b).
Proof.
  split; [|split; [exact (R_d2_rL_rL_correct rT_re rT_im (c * x0 + b) r0)|split; [reflexivity|apply hfalse_true]]].
  apply loc_all. intros x. exact (R_d_rL_correct rT_re rT_im (c * x + b) r0).
Qed.
Lemma dR_r0_ok x0 rT_re rT_im rL c b : item1_ok x0 (dR_r0 rT_re rT_im rL c b).
Proof.
  split; [|split; [exact (R_d2_r0_r0_correct rT_re rT_im rL (c * x0 + b))|split; [reflexivity|apply hfalse_true]]].
  apply loc_all. intros x. exact (R_d_r0_correct rT_re rT_im rL (c * x + b)).
Qed.

(* the items a sequence of real operators is made of, with the side condition each needs *)
Inductive real_item1 (x0 : R) : ritem1 -> Prop :=
| r1_T_const alpha phi : real_item1 x0 (dT_const alpha phi)
| r1_T_alpha c b phi : real_item1 x0 (dT_alpha c b phi)
| r1_T_phi alpha c b : real_item1 x0 (dT_phi alpha c b)
| r1_Phi_phi c b : real_item1 x0 (dPhi_phi c b)
| r1_E_const tau T1 T2 g : real_item1 x0 (dE_const tau T1 T2 g)
| r1_E_tau T1 T2 g c b : T1 <> 0 -> T2 <> 0 -> real_item1 x0 (dE_tau T1 T2 g c b)
| r1_E_T1 tau T2 g c b : c * x0 + b <> 0 -> real_item1 x0 (dE_T1 tau T2 g c b)
| r1_E_T2 tau T1 g c b : c * x0 + b <> 0 -> real_item1 x0 (dE_T2 tau T1 g c b)
| r1_E_g tau T1 T2 c b : real_item1 x0 (dE_g tau T1 T2 c b)
| r1_P_const tau g : real_item1 x0 (dP_const tau g)
| r1_P_tau g c b : real_item1 x0 (dP_tau g c b)
| r1_P_g tau c b : real_item1 x0 (dP_g tau c b)
| r1_R_rT rT_im rL r0 c b : real_item1 x0 (dR_rT rT_im rL r0 c b)
| r1_R_rL rT_re rT_im r0 c b : real_item1 x0 (dR_rL rT_re rT_im r0 c b)
| r1_R_r0 rT_re rT_im rL c b : real_item1 x0 (dR_r0 rT_re rT_im rL c b)
| r1_S d nm : real_item1 x0 (R1S d nm)
| r1_Spoiler : real_item1 x0 R1Spoil
| r1_Reset : real_item1 x0 R1Reset
| r1_PD pd reset : real_item1 x0 (R1PD pd reset)
| r1_Wait : real_item1 x0 R1Wait.

Lemma real_item1_ok x0 it : real_item1 x0 it -> item1_ok x0 it.
Proof.
  intros H. destruct H; try exact I.
  - apply dT_alpha_ok. - apply dT_phi_ok. - apply dPhi_phi_ok.
  - now apply dE_tau_ok. - now apply dE_T1_ok. - now apply dE_T2_ok. - apply dE_g_ok.
  - apply dP_tau_ok. - apply dP_g_ok.
  - apply dR_rT_ok. - apply dR_rL_ok. - apply dR_r0_ok.
Qed.

Theorem real_operators_hessian_diag (x0 : R) (v : var) (items : list ritem1) (pd : C) :
  List.Forall (real_item1 x0) items ->
  let ds := drun (map (dop1_of x0 v) items) (dinit (@init Cops pd)) in
  let sig := fun x => f0 Cops (run (map (real1_of x) items) (@init Cops pd)) in
  exists h j : C,
    hessian ds [v] = [[h]] /\ jacobian ds [v] = [j] /\
    (exists sig' : R -> C, locally x0 (fun x => derC sig x (sig' x)) /\ sig' x0 = j /\ derC sig' x0 h) /\
    f0 Cops (d_main ds) = sig x0.
Proof.
  intros H. apply real_sequence_hessian_diag.
  induction H as [|it its Hi _ IH]; constructor; [exact (real_item1_ok x0 it Hi)|exact IH].
Qed.

(* ================================================================================== *)
(* Mixed entry: two parameters of the same operator                                   *)
(* ================================================================================== *)
(* naming: m<Op>_<p>_<q>  =  x drives p, y drives q *)
Definition mT_alpha_phi (c1 b1 c2 b2 : R) : ritem2 :=
  IMxy false (fun a p => T_op a p) (fun a p => T_d_alpha a p) (fun a p => T_d_phi a p) (fun a p => T_d2_alpha_phi a p)
       0%nat 1%nat c1 b1 c2 b2.
Definition mT_phi_alpha (c1 b1 c2 b2 : R) : ritem2 :=
  IMxy true (fun p a => T_op a p) (fun p a => T_d_phi a p) (fun p a => T_d_alpha a p) (fun p a => T_d2_alpha_phi a p)
       1%nat 0%nat c1 b1 c2 b2.
Definition mE_T2_tau (T1 g c1 b1 c2 b2 : R) : ritem2 :=
  IAxy true (fun s t => E_op t T1 s g) (fun s t => E_d_T2 t T1 s g) (fun s t => E_d_tau t T1 s g)
       (fun s t => E_d2_T2_tau t T1 s g) true 2%nat 0%nat c1 b1 c2 b2.
Definition mE_tau_T2 (T1 g c1 b1 c2 b2 : R) : ritem2 :=
  IAxy false (fun s t => E_op s T1 t g) (fun s t => E_d_tau s T1 t g) (fun s t => E_d_T2 s T1 t g)
       (fun s t => E_d2_T2_tau s T1 t g) true 0%nat 2%nat c1 b1 c2 b2.
Definition mE_T1_tau (T2 g c1 b1 c2 b2 : R) : ritem2 :=
  IAxy true (fun s t => E_op t s T2 g) (fun s t => E_d_T1 t s T2 g) (fun s t => E_d_tau t s T2 g)
       (fun s t => E_d2_T1_tau t s T2 g) true 1%nat 0%nat c1 b1 c2 b2.
Definition mE_tau_T1 (T2 g c1 b1 c2 b2 : R) : ritem2 :=
  IAxy false (fun s t => E_op s t T2 g) (fun s t => E_d_tau s t T2 g) (fun s t => E_d_T1 s t T2 g)
       (fun s t => E_d2_T1_tau s t T2 g) true 0%nat 1%nat c1 b1 c2 b2.
Definition mE_g_tau (T1 T2 c1 b1 c2 b2 : R) : ritem2 :=
  IAxy true (fun s t => E_op t T1 T2 s) (fun s t => E_d_g t T1 T2 s) (fun s t => E_d_tau t T1 T2 s)
       (fun s t => E_d2_g_tau t T1 T2 s) true 3%nat 0%nat c1 b1 c2 b2.
Definition mE_tau_g (T1 T2 c1 b1 c2 b2 : R) : ritem2 :=
  IAxy false (fun s t => E_op s T1 T2 t) (fun s t => E_d_tau s T1 T2 t) (fun s t => E_d_g s T1 T2 t)
       (fun s t => E_d2_g_tau s T1 T2 t) true 0%nat 3%nat c1 b1 c2 b2.
Definition mE_T2_g (tau T1 c1 b1 c2 b2 : R) : ritem2 :=
  IAxy false (fun s t => E_op tau T1 s t) (fun s t => E_d_T2 tau T1 s t) (fun s t => E_d_g tau T1 s t)
       (fun s t => E_d2_T2_g tau T1 s t) true 2%nat 3%nat c1 b1 c2 b2.
Definition mE_g_T2 (tau T1 c1 b1 c2 b2 : R) : ritem2 :=
  IAxy true (fun s t => E_op tau T1 t s) (fun s t => E_d_g tau T1 t s) (fun s t => E_d_T2 tau T1 t s)
       (fun s t => E_d2_T2_g tau T1 t s) true 3%nat 2%nat c1 b1 c2 b2.
Definition mP_g_tau (c1 b1 c2 b2 : R) : ritem2 :=
  IAxy true (fun s t => P_op t s) (fun s t => P_d_g t s) (fun s t => P_d_tau t s) (fun s t => P_d2_g_tau t s)
       false 1%nat 0%nat c1 b1 c2 b2.
Definition mP_tau_g (c1 b1 c2 b2 : R) : ritem2 :=
  IAxy false (fun s t => P_op s t) (fun s t => P_d_tau s t) (fun s t => P_d_g s t) (fun s t => P_d2_g_tau s t)
       false 0%nat 1%nat c1 b1 c2 b2.

Lemma mT_alpha_phi_ok x0 y0 c1 b1 c2 b2 : item2_ok x0 y0 (mT_alpha_phi c1 b1 c2 b2).
Proof.
  split; [discriminate|split; [exact (T_d_alpha_correct _ _)|split; [|exact (T_d2_phi_alpha_correct _ _)]]].
  apply loc_all. intros x. exact (T_d_phi_correct _ _).
Qed.
Lemma mT_phi_alpha_ok x0 y0 c1 b1 c2 b2 : item2_ok x0 y0 (mT_phi_alpha c1 b1 c2 b2).
Proof.
  split; [discriminate|split; [exact (T_d_phi_correct _ _)|split; [|exact (T_d2_alpha_phi_correct _ _)]]].
  apply loc_all. intros x. exact (T_d_alpha_correct _ _).
Qed.

Ltac fin_E := split; [intros s t; reflexivity|apply hfalse_true].

Lemma mE_T2_tau_ok x0 y0 T1 g c1 b1 c2 b2 : T1 <> 0 -> c1 * x0 + b1 <> 0 -> item2_ok x0 y0 (mE_T2_tau T1 g c1 b1 c2 b2).
Proof.
  intros H1 Hp. split; [discriminate|split; [exact (E_d_T2_correct _ T1 _ g Hp)|split; [|split;
    [exact (E_d2_tau_T2_correct _ T1 _ g Hp)|fin_E]]]].
  apply (loc_imp x0 (fun x => c1 * x + b1 <> 0)); [|exact (affine_nz_loc c1 b1 x0 Hp)].
  intros x Hx. exact (E_d_tau_correct _ T1 _ g H1 Hx).
Qed.
Lemma mE_tau_T2_ok x0 y0 T1 g c1 b1 c2 b2 : T1 <> 0 -> c2 * y0 + b2 <> 0 -> item2_ok x0 y0 (mE_tau_T2 T1 g c1 b1 c2 b2).
Proof.
  intros H1 Hq. split; [discriminate|split; [exact (E_d_tau_correct _ T1 _ g H1 Hq)|split; [|split;
    [exact (E_d2_T2_tau_correct _ T1 _ g Hq)|fin_E]]]].
  apply loc_all. intros x. exact (E_d_T2_correct _ T1 _ g Hq).
Qed.
Lemma mE_T1_tau_ok x0 y0 T2 g c1 b1 c2 b2 : T2 <> 0 -> c1 * x0 + b1 <> 0 -> item2_ok x0 y0 (mE_T1_tau T2 g c1 b1 c2 b2).
Proof.
  intros H2 Hp. split; [discriminate|split; [exact (E_d_T1_correct _ _ T2 g Hp)|split; [|split;
    [exact (E_d2_tau_T1_correct _ _ T2 g Hp)|fin_E]]]].
  apply (loc_imp x0 (fun x => c1 * x + b1 <> 0)); [|exact (affine_nz_loc c1 b1 x0 Hp)].
  intros x Hx. exact (E_d_tau_correct _ _ T2 g Hx H2).
Qed.
Lemma mE_tau_T1_ok x0 y0 T2 g c1 b1 c2 b2 : T2 <> 0 -> c2 * y0 + b2 <> 0 -> item2_ok x0 y0 (mE_tau_T1 T2 g c1 b1 c2 b2).
Proof.
  intros H2 Hq. split; [discriminate|split; [exact (E_d_tau_correct _ _ T2 g Hq H2)|split; [|split;
    [exact (E_d2_T1_tau_correct _ _ T2 g Hq)|fin_E]]]].
  apply loc_all. intros x. exact (E_d_T1_correct _ _ T2 g Hq).
Qed.
Lemma mE_g_tau_ok x0 y0 T1 T2 c1 b1 c2 b2 : T1 <> 0 -> T2 <> 0 -> item2_ok x0 y0 (mE_g_tau T1 T2 c1 b1 c2 b2).
Proof.
  intros H1 H2. split; [discriminate|split; [exact (E_d_g_correct _ T1 T2 _)|split; [|split;
    [exact (E_d2_tau_g_correct _ T1 T2 _ H2)|fin_E]]]].
  apply loc_all. intros x. exact (E_d_tau_correct _ T1 T2 _ H1 H2).
Qed.
Lemma mE_tau_g_ok x0 y0 T1 T2 c1 b1 c2 b2 : T1 <> 0 -> T2 <> 0 -> item2_ok x0 y0 (mE_tau_g T1 T2 c1 b1 c2 b2).
Proof.
  intros H1 H2. split; [discriminate|split; [exact (E_d_tau_correct _ T1 T2 _ H1 H2)|split; [|split;
    [exact (E_d2_g_tau_correct _ T1 T2 _ H2)|fin_E]]]].
  apply loc_all. intros x. exact (E_d_g_correct _ T1 T2 _).
Qed.
Lemma mE_T2_g_ok x0 y0 tau T1 c1 b1 c2 b2 : c1 * x0 + b1 <> 0 -> item2_ok x0 y0 (mE_T2_g tau T1 c1 b1 c2 b2).
Proof.
  intros Hp. split; [discriminate|split; [exact (E_d_T2_correct tau T1 _ _ Hp)|split; [|split;
    [exact (E_d2_g_T2_correct tau T1 _ _ Hp)|fin_E]]]].
  apply loc_all. intros x. exact (E_d_g_correct tau T1 _ _).
Qed.
Lemma mE_g_T2_ok x0 y0 tau T1 c1 b1 c2 b2 : c2 * y0 + b2 <> 0 -> item2_ok x0 y0 (mE_g_T2 tau T1 c1 b1 c2 b2).
Proof.
  intros Hq. split; [discriminate|split; [exact (E_d_g_correct tau T1 _ _)|split; [|split;
    [exact (E_d2_T2_g_correct tau T1 _ _ Hq)|fin_E]]]].
  apply loc_all. intros x. exact (E_d_T2_correct tau T1 _ _ Hq).
Qed.
Lemma mP_g_tau_ok x0 y0 c1 b1 c2 b2 : item2_ok x0 y0 (mP_g_tau c1 b1 c2 b2).
Proof.
  split; [discriminate|split; [exact (P_d_g_correct _ _)|split; [|split;
    [exact (P_d2_tau_g_correct _ _)|split; [intros s t; reflexivity|intros _; split; [|split]; reflexivity]]]]].
  apply loc_all. intros x. exact (P_d_tau_correct _ _).
Qed.
Lemma mP_tau_g_ok x0 y0 c1 b1 c2 b2 : item2_ok x0 y0 (mP_tau_g c1 b1 c2 b2).
Proof.
  split; [discriminate|split; [exact (P_d_tau_correct _ _)|split; [|split;
    [exact (P_d2_g_tau_correct _ _)|split; [intros s t; reflexivity|intros _; split; [|split]; reflexivity]]]]].
  apply loc_all. intros x. exact (P_d_g_correct _ _).
Qed.

Inductive real_item2 (x0 y0 : R) : ritem2 -> Prop :=
| r2_X it : real_item x0 it -> real_item2 x0 y0 (IX it)
| r2_Y it : real_item y0 it -> real_item2 x0 y0 (IY it)
| r2_T_alpha_phi c1 b1 c2 b2 : real_item2 x0 y0 (mT_alpha_phi c1 b1 c2 b2)
| r2_T_phi_alpha c1 b1 c2 b2 : real_item2 x0 y0 (mT_phi_alpha c1 b1 c2 b2)
| r2_E_T2_tau T1 g c1 b1 c2 b2 : T1 <> 0 -> c1 * x0 + b1 <> 0 -> real_item2 x0 y0 (mE_T2_tau T1 g c1 b1 c2 b2)
| r2_E_tau_T2 T1 g c1 b1 c2 b2 : T1 <> 0 -> c2 * y0 + b2 <> 0 -> real_item2 x0 y0 (mE_tau_T2 T1 g c1 b1 c2 b2)
| r2_E_T1_tau T2 g c1 b1 c2 b2 : T2 <> 0 -> c1 * x0 + b1 <> 0 -> real_item2 x0 y0 (mE_T1_tau T2 g c1 b1 c2 b2)
| r2_E_tau_T1 T2 g c1 b1 c2 b2 : T2 <> 0 -> c2 * y0 + b2 <> 0 -> real_item2 x0 y0 (mE_tau_T1 T2 g c1 b1 c2 b2)
| r2_E_g_tau T1 T2 c1 b1 c2 b2 : T1 <> 0 -> T2 <> 0 -> real_item2 x0 y0 (mE_g_tau T1 T2 c1 b1 c2 b2)
| r2_E_tau_g T1 T2 c1 b1 c2 b2 : T1 <> 0 -> T2 <> 0 -> real_item2 x0 y0 (mE_tau_g T1 T2 c1 b1 c2 b2)
| r2_E_T2_g tau T1 c1 b1 c2 b2 : c1 * x0 + b1 <> 0 -> real_item2 x0 y0 (mE_T2_g tau T1 c1 b1 c2 b2)
| r2_E_g_T2 tau T1 c1 b1 c2 b2 : c2 * y0 + b2 <> 0 -> real_item2 x0 y0 (mE_g_T2 tau T1 c1 b1 c2 b2)
| r2_P_g_tau c1 b1 c2 b2 : real_item2 x0 y0 (mP_g_tau c1 b1 c2 b2)
| r2_P_tau_g c1 b1 c2 b2 : real_item2 x0 y0 (mP_tau_g c1 b1 c2 b2).

Lemma real_item2_ok x0 y0 it : real_item2 x0 y0 it -> item2_ok x0 y0 it.
Proof.
  intros H. destruct H.
  - exact (real_item_ok x0 it H).
  - exact (real_item_ok y0 it H).
  - apply mT_alpha_phi_ok. - apply mT_phi_alpha_ok.
  - now apply mE_T2_tau_ok. - now apply mE_tau_T2_ok.
  - now apply mE_T1_tau_ok. - now apply mE_tau_T1_ok.
  - now apply mE_g_tau_ok. - now apply mE_tau_g_ok.
  - now apply mE_T2_g_ok. - now apply mE_g_T2_ok.
  - apply mP_g_tau_ok. - apply mP_tau_g_ok.
Qed.

Theorem real_operators_hessian_mixed (x0 y0 : R) (u w : var) (items : list ritem2) (pd : C) :
  u <> w -> List.Forall (real_item2 x0 y0) items ->
  let ds := drun (map (dop2_of x0 y0 u w) items) (dinit (@init Cops pd)) in
  let sig := fun x y => f0 Cops (run (map (real2_of x y) items) (@init Cops pd)) in
  exists h j1 j2 : C,
    nth 1 (nth 0 (hessian ds [u; w]) []) k0 = h /\
    nth 0 (nth 1 (hessian ds [u; w]) []) k0 = h /\
    jacobian ds [u; w] = [j1; j2] /\
    derC (fun x => sig x y0) x0 j1 /\
    (exists sy : R -> C, locally x0 (fun x => derC (fun y => sig x y) y0 (sy x)) /\ sy x0 = j2 /\ derC sy x0 h) /\
    f0 Cops (d_main ds) = sig x0 y0.
Proof.
  intros Hne H. apply real_sequence_hessian_mixed; [exact Hne|].
  induction H as [|it its Hi _ IH]; constructor; [exact (real_item2_ok x0 y0 it Hi)|exact IH].
Qed.

(* ================================================================================== *)
(* The same two statements in Coquelicot's vocabulary                                 *)
(* ================================================================================== *)
(* H[v,v] is the second derivative (is_derive_n ... 2) of real and imaginary part of the simulated signal *)
Theorem real_operators_hessian_diag_n (x0 : R) (v : var) (items : list ritem1) (pd : C) :
  List.Forall (real_item1 x0) items ->
  let ds := drun (map (dop1_of x0 v) items) (dinit (@init Cops pd)) in
  let sig := fun x => f0 Cops (run (map (real1_of x) items) (@init Cops pd)) in
  exists h : C, hessian ds [v] = [[h]] /\
    is_derive_n (fun x => fst (sig x)) 2 x0 (fst h) /\ is_derive_n (fun x => snd (sig x)) 2 x0 (snd h).
Proof.
  intros H ds sig.
  destruct (real_operators_hessian_diag x0 v items pd H) as (h & j & E & _ & (s' & Ls & _ & Ds) & _).
  exists h. split; [exact E|]. exact (second_derivative_n sig s' x0 h Ls Ds).
Qed.

(* H[u,w] = H[w,u] is d/dx at x0 of x |-> Derive (y |-> signal x y) y0, real and imaginary part *)
Theorem real_operators_hessian_mixed_Derive (x0 y0 : R) (u w : var) (items : list ritem2) (pd : C) :
  u <> w -> List.Forall (real_item2 x0 y0) items ->
  let ds := drun (map (dop2_of x0 y0 u w) items) (dinit (@init Cops pd)) in
  let sig := fun x y => f0 Cops (run (map (real2_of x y) items) (@init Cops pd)) in
  exists h : C,
    nth 1 (nth 0 (hessian ds [u; w]) []) k0 = h /\ nth 0 (nth 1 (hessian ds [u; w]) []) k0 = h /\
    is_derive (fun x => Derive (fun y => fst (sig x y)) y0) x0 (fst h) /\
    is_derive (fun x => Derive (fun y => snd (sig x y)) y0) x0 (snd h).
Proof.
  intros Hne H ds sig.
  destruct (real_operators_hessian_mixed x0 y0 u w items pd Hne H) as (h & j1 & j2 & E1 & E2 & _ & _ & (sy & Ly & _ & Dy) & _).
  exists h. split; [exact E1|split; [exact E2|]]. exact (mixed_derivative_Derive sig sy x0 y0 h Ly Dy).
Qed.

(* ================================================================================== *)
(* Non-vacuity: concrete sequences meeting the side conditions                        *)
(* ================================================================================== *)
(* T(alpha = 2x + 30, phi = 10);  E(tau = 5, T1 = 1000, T2 = x + 80, g = 0);  S(1);  T(alpha = 60, phi = -x);
   E(tau = 3x + 1, ...): the variable drives alpha, T2, phi and tau of five operators, at x0 = 20 *)
Definition nv_items1 : list ritem1 :=
  [dT_alpha 2 30 10; dE_T2 5 1000 0 1 80; R1S 1 None; dT_phi 60 (-1) 0; dE_tau 1000 100 0 3 1; dP_g 2 1 0].
Lemma nv_items1_ok : List.Forall (real_item1 20) nv_items1.
Proof.
  unfold nv_items1.
  repeat (apply Forall_cons; [constructor; lra|]). apply Forall_nil.
Qed.

(* T(alpha = x + 30, phi = 2y);  E(tau = y + 5, T1 = 1000, T2 = 2x + 60, g = 0);  S(1);  T(alpha = 60, phi = y);
   E(T2 = x + 90) -- x0 = 20, y0 = 3: mixed tables of T and E, plus operators driven by one variable each *)
Definition nv_items2 : list ritem2 :=
  [mT_alpha_phi 1 30 2 0; mE_T2_tau 1000 0 2 60 1 5; IX (RS 1 None); IY (iT_phi 60 1 0); IX (iE_T2 5 1000 0 1 90);
   mP_tau_g 1 0 1 1].
Lemma nv_items2_ok : List.Forall (real_item2 20 3) nv_items2.
Proof.
  unfold nv_items2.
  repeat (apply Forall_cons; [first [constructor; lra|constructor; constructor; lra]|]). apply Forall_nil.
Qed.

(* ... and sequences in which SPOILER, PD(reset=True), PD(reset=False), RESET and Wait stand between the
   differentiated operators (x0 = 20, resp. x0 = 20, y0 = 3) *)
Definition nv_items1_plain : list ritem1 :=
  [dT_alpha 2 30 10; dE_T2 5 1000 0 1 80; R1S 1 None; R1Spoil; dT_phi 60 (-1) 0; R1PD (RtoC 2) true;
   dE_tau 1000 100 0 3 1; R1S 1 None; R1PD (RtoC (1/2)) false; dT_alpha 1 0 0; R1Wait; dE_T2 5 1000 0 1 80;
   R1Reset; dT_alpha 2 30 10; dP_g 2 1 0; dE_T2 5 1000 0 1 80].
Lemma nv_items1_plain_ok : List.Forall (real_item1 20) nv_items1_plain.
Proof.
  unfold nv_items1_plain.
  repeat (apply Forall_cons; [constructor; lra|]). apply Forall_nil.
Qed.

Definition nv_items2_plain : list ritem2 :=
  [mT_alpha_phi 1 30 2 0; mE_T2_tau 1000 0 2 60 1 5; IX (RS 1 None); IX RSpoil; IY (iT_phi 60 1 0);
   IY (RPD (RtoC 2) true); IX (iE_T2 5 1000 0 1 90); IX (RS 1 None); IX (RPD (RtoC (1/2)) false);
   mT_alpha_phi 1 30 2 0; IY RWait; mE_T2_tau 1000 0 2 60 1 5; IX RReset; mT_alpha_phi 1 30 2 0;
   mP_tau_g 1 0 1 1; IY (iE_T2 5 1000 0 1 90)].
Lemma nv_items2_plain_ok : List.Forall (real_item2 20 3) nv_items2_plain.
Proof.
  unfold nv_items2_plain.
  repeat (apply Forall_cons; [first [constructor; lra|constructor; constructor; lra]|]). apply Forall_nil.
Qed.

Lemma nv_items_plain_ok :
  List.Forall (real_item1 20) nv_items1_plain /\ List.Forall (real_item2 20 3) nv_items2_plain /\
  In R1Spoil nv_items1_plain /\ In R1Reset nv_items1_plain /\ In R1Wait nv_items1_plain /\
  In (R1PD (RtoC 2) true) nv_items1_plain /\ In (R1PD (RtoC (1/2)) false) nv_items1_plain /\
  In (IX RSpoil) nv_items2_plain /\ In (IX RReset) nv_items2_plain /\ In (IY RWait) nv_items2_plain /\
  In (IY (RPD (RtoC 2) true)) nv_items2_plain /\ In (IX (RPD (RtoC (1/2)) false)) nv_items2_plain.
Proof.
  split; [exact nv_items1_plain_ok|]. split; [exact nv_items2_plain_ok|].
  unfold nv_items1_plain, nv_items2_plain. cbn [In]. tauto.
Qed.
