(* C02, end to end for the real operators: sequences of RF pulses T(alpha, phi), relaxation/precession
   E(tau, T1, T2, g) and 1-D shifts in which ONE real variable x drives the flip angles
   (alpha_i = c_i x + b_i) and/or the transverse relaxation times (T2_i = c_i x + b_i), each such
   operator declared to diff.py as order1 = {v: {alpha: c_i}} resp. {v: {T2: c_i}} with the derivative
   array the package computes (T_d_alpha, E_d_T2: TRANSLATED from /repo, Gen/*.v).
   Theorem: the Jacobian entry the bookkeeping of diff.py returns at x0 is the derivative at x0 of
   x |-> simulated signal -- Coquelicot is_derive on real and imaginary part -- for every such sequence. *)
From Coq Require Import List ZArith Lia Bool Reals Lra.
From Coquelicot Require Import Coquelicot.
From EPG Require Import Scalar State Ops ListLemmas Views Diff DiffLemmas DiffExact DiffPoint Dual CInst CDeriv.
From EPG Require Import Transition Evolution CoefT CoefE Jet.
Import ListNotations.
Local Open Scope R_scope.

(* ---- chain rule with an affine reparametrisation ---- *)
Lemma derC_affine f c b x l : derC f (c * x + b) l -> derC (fun t => f (c * t + b)) x (Cmult (RtoC c) l).
Proof.
  intros [F1 F2].
  assert (G : is_derive (fun t : R => c * t + b) x c) by (auto_derive; [trivial|ring]).
  split; simpl.
  - evar_last.
    + exact (is_derive_comp (fun u => fst (f u)) (fun t => c * t + b) x (fst l) c F1 G).
    + unfold scal; simpl; unfold mult; simpl; ring.
  - evar_last.
    + exact (is_derive_comp (fun u => snd (f u)) (fun t => c * t + b) x (snd l) c F2 G).
    + unfold scal; simpl; unfold mult; simpl; ring.
Qed.
Lemma derT_affine f c b x l : derT f (c * x + b) l ->
  derT (fun t => f (c * t + b)) x (@tscale Cops (RtoC c) l).
Proof.
  intros (A & B & C). unfold derT, tscale. cbn [fp fm fz]. change (@kmul Cops) with Cmult.
  split; [|split].
  - exact (derC_affine (fun u => fp (f u)) c b x _ A).
  - exact (derC_affine (fun u => fm (f u)) c b x _ B).
  - exact (derC_affine (fun u => fz (f u)) c b x _ C).
Qed.
Lemma derM_affine f c b x l : derM f (c * x + b) l ->
  derM (fun t => f (c * t + b)) x (@mscale Cops (RtoC c) l).
Proof.
  intros (A & B & C). unfold derM, mscale. cbn [row0 row1 row2].
  split; [|split].
  - exact (derT_affine (fun u => row0 (f u)) c b x _ A).
  - exact (derT_affine (fun u => row1 (f u)) c b x _ B).
  - exact (derT_affine (fun u => row2 (f u)) c b x _ C).
Qed.

(* ---- building a dual-number array from value and derivative ---- *)
Definition zipC (a b : C) : DC := (a, b).
Definition zipT (a b : triple Cops) : triple DC :=
  mk3 (zipC (fp a) (fp b)) (zipC (fm a) (fm b)) (zipC (fz a) (fz b)).
Definition zipM (a b : mat3 Cops) : mat3 DC :=
  mkM (zipT (row0 a) (row0 b)) (zipT (row1 a) (row1 b)) (zipT (row2 a) (row2 b)).

Lemma vT_zip a b : evT DC Cops jv (zipT a b) = a. Proof. now destruct a. Qed.
Lemma dT_zip a b : dvT DC Cops jd (zipT a b) = b. Proof. now destruct b. Qed.
Lemma vM_zip a b : evM DC Cops jv (zipM a b) = a.
Proof. destruct a as [r0 r1 r2]. unfold evM, zipM. cbn [row0 row1 row2]. now rewrite !vT_zip. Qed.
Lemma dM_zip a b : dvM DC Cops jd (zipM a b) = b.
Proof. destruct b as [r0 r1 r2]. unfold dvM, zipM. cbn [row0 row1 row2]. now rewrite !dT_zip. Qed.

Lemma jetT_zip x0 f a b : f x0 = a -> derT f x0 b -> jetT x0 f (zipT a b).
Proof. intros V D. apply jetT_split. now rewrite vT_zip, dT_zip. Qed.
Lemma jetM_zip x0 f a b : f x0 = a -> derM f x0 b -> jetM x0 f (zipM a b).
Proof. intros V D. apply jetM_split. now rewrite vM_zip, dM_zip. Qed.

Notation opt0 := CoefE.opt0.
Definition tz : triple Cops := t0.
Definition mz : mat3 Cops := mkM t0 t0 t0.

(* an (arr, arr0) pair as the generated evolution functions return it *)
Definition arr2 : Type := (triple Cops * option (triple Cops))%type.
Definition has0 (a : arr2) : bool := match snd a with Some _ => true | None => false end.

(* ---- sequences of operators driven by one real variable x ----
   RMv F D p c b : MatrixOp with arrays F(c x + b), derivative arrays D(c x + b) for its parameter p,
                   declared order1 = {v: {p: c}}           (T, Phi)
   RAv A D h p c b : ScalarOp with (arr, arr0) = A(c x + b), derivative pair D(c x + b), declared
                   order1 = {v: {p: c}}; h says whether the operator has a recovery array   (E, P, R)
   RMc / RAc : constant operators, not differentiated;  RS : 1-D shift with optional nmax
   RSpoil / RReset / RPD pd reset / RWait : SPOILER, RESET, PD(pd, reset), Wait -- operators without a
                   differentiable parameter, applied through Operator.__call__ (state and partials) *)
Inductive ritem : Type :=
| RMc (M : mat3 Cops)
| RMv (F D : R -> mat3 Cops) (p : param) (c b : R)
| RAc (A : arr2)
| RAv (A D : R -> arr2) (h : bool) (p : param) (c b : R)
| RS (d : Z) (nm : option nat)
| RSpoil
| RReset
| RPD (p : C) (r : bool)
| RWait.

(* the operator epgpy applies at parameter value x *)
Definition real_of (x : R) (it : ritem) : op Cops :=
  match it with
  | RMc M => OMatrix M None
  | RMv F D p c b => OMatrix (F (c * x + b)) None
  | RAc A => OScalar (fst A) (snd A)
  | RAv A D h p c b => OScalar (fst (A (c * x + b))) (snd (A (c * x + b)))
  | RS d nm => OShift d nm
  | RSpoil => OSpoil
  | RReset => OReset
  | RPD p r => @OPD Cops p r
  | RWait => OWait
  end.

Definition fam_of (it : ritem) : fop :=
  match it with
  | RMc M => FMatrix (fun _ => M) None
  | RMv F D p c b => FMatrix (fun x => F (c * x + b)) None
  | RAc A => FScalar (fun _ => fst A) (option_map (fun a _ => a) (snd A))
  | RAv A D h p c b => FScalar (fun x => fst (A (c * x + b)))
                         (if h then Some (fun x => opt0 (snd (A (c * x + b)))) else None)
  | RS d nm => FShift d nm
  | RSpoil => FSpoil
  | RReset => FReset
  | RPD p r => FPD p r
  | RWait => FWait
  end.

(* the differentiation operator handed to diff.py's bookkeeping at x0 *)
Definition dop_of (x0 : R) (v : var) (it : ritem) : dinstr Cops :=
  match it with
  | RMc M => DOp (mkDop (LMatrix M None) [] [] [] [] true [])
  | RMv F D p c b =>
      DOp (mkDop (LMatrix (F (c * x0 + b)) None) [(p, LMatrix (D (c * x0 + b)) None)] []
                 [(v, [(p, RtoC c)])] [] true [])
  | RAc A => DOp (mkDop (LScalar (fst A) (snd A)) [] [] [] [] true [])
  | RAv A D h p c b =>
      DOp (mkDop (LScalar (fst (A (c * x0 + b))) (snd (A (c * x0 + b))))
                 [(p, LScalar (fst (D (c * x0 + b))) (snd (D (c * x0 + b))))] []
                 [(v, [(p, RtoC c)])] [] true [])
  | RS d nm => DOp (mkDop (LShift d nm) [] [] [] [] true [])
  | RSpoil => DPlain (@OSpoil Cops)
  | RReset => DPlain (@OReset Cops)
  | RPD p r => DPlain (@OPD Cops p r)
  | RWait => DPlain (@OWait Cops)
  end.

(* the 1-jets of the arrays *)
Definition jet_of (x0 : R) (it : ritem) : op DC :=
  match it with
  | RMc M => OMatrix (zipM M mz) None
  | RMv F D p c b => OMatrix (zipM (F (c * x0 + b)) (@mscale Cops (RtoC c) (D (c * x0 + b)))) None
  | RAc A => OScalar (zipT (fst A) tz) (option_map (fun a => zipT a tz) (snd A))
  | RAv A D h p c b =>
      OScalar (zipT (fst (A (c * x0 + b))) (@tscale Cops (RtoC c) (fst (D (c * x0 + b)))))
              (if h then Some (zipT (opt0 (snd (A (c * x0 + b))))
                                    (@tscale Cops (RtoC c) (opt0 (snd (D (c * x0 + b)))))) else None)
  | RS d nm => OShift d nm
  | RSpoil => OSpoil
  | RReset => OReset
  | RPD p r => @OPD DC ((p, RtoC 0) : DC) r
  | RWait => OWait
  end.

(* side conditions: D is the derivative of the arrays at the point; the recovery array is present for
   every parameter value or for none *)
Definition item_ok (x0 : R) (it : ritem) : Prop :=
  match it with
  | RMv F D p c b => derM F (c * x0 + b) (D (c * x0 + b))
  | RAv A D h p c b => derA A (c * x0 + b) (D (c * x0 + b)) /\ (forall u, has0 (A u) = h) /\
                       (h = false -> snd (D (c * x0 + b)) = None)
  | _ => True
  end.

Lemma inst_fam x0 it x : item_ok x0 it -> inst (fam_of it) x = real_of x it.
Proof.
  destruct it as [M|F D p c b|A|A D h p c b|d nm| | |q r|]; cbn [item_ok fam_of inst real_of]; intros Hok; try reflexivity.
  - destruct A as [a [a0|]]; reflexivity.
  - destruct Hok as (_ & Hh & _). specialize (Hh (c * x + b)). unfold has0 in Hh.
    destruct h; cbn [option_map]; cbv beta; destruct (snd (A (c * x + b))); try discriminate; reflexivity.
Qed.

Lemma item_jet x0 it : item_ok x0 it -> is_jet x0 (fam_of it) (jet_of x0 it).
Proof.
  destruct it as [M|F D p c b|A|A D h p c b|d nm| | |q r|]; cbn [item_ok fam_of jet_of is_jet ojet]; intros Hok.
  - split; auto. apply jetM_zip; [reflexivity|]. exact (derM_const _ x0).
  - split; auto. apply jetM_zip; [reflexivity|]. exact (derM_affine F c b x0 _ Hok).
  - split; [apply jetT_zip; [reflexivity|exact (derT_const _ x0)]|].
    destruct (snd A) as [a0|]; cbn [option_map ojet]; auto.
    apply jetT_zip; [reflexivity|exact (derT_const _ x0)].
  - destruct Hok as ((Da & Da0) & _ & _). split.
    + apply jetT_zip; [reflexivity|]. exact (derT_affine (fun u => fst (A u)) c b x0 _ Da).
    + destruct h; cbn [ojet]; auto.
      apply jetT_zip; [reflexivity|]. exact (derT_affine (fun u => opt0 (snd (A u))) c b x0 _ Da0).
  - split; reflexivity.
  - exact I.
  - exact I.
  - split; reflexivity.
  - exact I.
Qed.

Lemma lact_eq (A A0 B B0 : mat3 Cops) (x e : triple Cops) : A = B -> A0 = B0 ->
  lact Cops A A0 x e = lact Cops B B0 x e.
Proof. now intros -> ->. Qed.

Lemma madd_mzero_l (A : mat3 Cops) : madd (DiffExact.mzero Cops) A = A.
Proof.
  destruct A as [[a b c] [d e f] [g h i]]. unfold madd, DiffExact.mzero, tadd, t0. cbn [row0 row1 row2 fp fm fz].
  cnorm. f_equal; f_equal; ring.
Qed.
Lemma mscale_mzero (c : C) : @mscale Cops c (DiffExact.mzero Cops) = DiffExact.mzero Cops.
Proof.
  unfold mscale, DiffExact.mzero, tscale, t0. cbn [row0 row1 row2 fp fm fz]. cnorm. f_equal; f_equal; ring.
Qed.
Lemma mdiag_tscale (c : C) (a : triple Cops) : mdiag (@tscale Cops c a) = @mscale Cops c (mdiag a).
Proof.
  destruct a as [x y z]. unfold mdiag, mscale, tscale. cbn [row0 row1 row2 fp fm fz]. cnorm.
  f_equal; f_equal; ring.
Qed.
Lemma dM_mdiag_zip (a b : triple Cops) : dvM DC Cops jd (mdiag (zipT a b)) = mdiag b.
Proof. destruct b. reflexivity. Qed.
Lemma lmat0_opt (a : triple Cops) (o : option (triple Cops)) : lmat0 Cops (LScalar a o) = mdiag (opt0 o).
Proof. destruct o; reflexivity. Qed.

Lemma item_pair x0 v it : item_ok x0 it -> pair_ok DC Cops jv jd v (jet_of x0 it) (dop_of x0 v it).
Proof.
  destruct it as [M|F D p c b|A|A D h p c b|d nm| | |q r|]; cbn [item_ok jet_of dop_of pair_ok]; intros Hok.
  - exists (LMatrix (zipM M mz) None). cbn [lin_op map_lin option_map d_lin is_shift d_order1].
    rewrite vM_zip. split; [reflexivity|split; [reflexivity|split]].
    + intros q l H. discriminate H.
    + intros x e. unfold eff, entries. cbn [d_order1 flat_map fold_left fst snd lmat lmat0].
      rewrite dM_zip. apply lact_eq; reflexivity.
  - exists (LMatrix (zipM (F (c * x0 + b)) (@mscale Cops (RtoC c) (D (c * x0 + b)))) None).
    cbn [lin_op map_lin option_map d_lin is_shift d_order1].
    rewrite vM_zip. split; [reflexivity|split; [reflexivity|split]].
    + intros q l H. cbn [d_darrs alookup] in H. destruct (Nat.eqb q p); [|discriminate H]. now injection H as <-.
    + intros x e. unfold eff, entries. cbn [d_order1 flat_map fst snd]. rewrite Nat.eqb_refl.
      cbn [app fold_left]. unfold eff_step. cbn [fst snd d_darrs alookup]. rewrite Nat.eqb_refl.
      cbn [lmat lmat0 fst snd]. rewrite dM_zip.
      apply lact_eq; [now rewrite madd_mzero_l|].
      now rewrite mscale_mzero, madd_mzero_l.
  - exists (LScalar (zipT (fst A) tz) (option_map (fun a => zipT a tz) (snd A))).
    cbn [lin_op map_lin d_lin is_shift d_order1].
    split; [reflexivity|split; [|split]].
    + rewrite vT_zip. destruct (snd A) as [a0|]; cbn [option_map]; [now rewrite vT_zip|reflexivity].
    + intros q l H. discriminate H.
    + intros x e. unfold eff, entries. cbn [d_order1 flat_map fold_left fst snd lmat].
      rewrite dM_mdiag_zip. apply lact_eq; [reflexivity|].
      destruct (snd A) as [a0|]; cbn [option_map lmat0]; [now rewrite dM_mdiag_zip|reflexivity].
  - destruct Hok as (_ & Hh & Hd). pose proof (Hh (c * x0 + b)) as Hh0. unfold has0 in Hh0.
    exists (LScalar (zipT (fst (A (c * x0 + b))) (@tscale Cops (RtoC c) (fst (D (c * x0 + b)))))
              (if h then Some (zipT (opt0 (snd (A (c * x0 + b))))
                                    (@tscale Cops (RtoC c) (opt0 (snd (D (c * x0 + b)))))) else None)).
    cbn [lin_op map_lin d_lin is_shift d_order1].
    split; [reflexivity|split; [|split]].
    + rewrite vT_zip. destruct h; destruct (snd (A (c * x0 + b))) as [a0|]; try discriminate; cbn [option_map opt0];
        [now rewrite vT_zip|reflexivity].
    + intros q l H. cbn [d_darrs alookup] in H. destruct (Nat.eqb q p); [|discriminate H]. now injection H as <-.
    + intros x e. unfold eff, entries. cbn [d_order1 flat_map fst snd]. rewrite Nat.eqb_refl.
      cbn [app fold_left]. unfold eff_step. cbn [fst snd d_darrs alookup]. rewrite Nat.eqb_refl.
      cbn [lmat fst snd]. rewrite lmat0_opt, dM_mdiag_zip, mdiag_tscale.
      apply lact_eq; [now rewrite madd_mzero_l|].
      destruct h; cbn [lmat0].
      * now rewrite dM_mdiag_zip, mdiag_tscale, madd_mzero_l.
      * rewrite (Hd eq_refl). cbn [opt0]. change (mdiag (@t0 Cops)) with (DiffExact.mzero Cops).
        now rewrite mscale_mzero, madd_mzero_l.
  - exists (LShift d nm). cbn [lin_op map_lin d_lin is_shift d_order1 d_darrs].
    split; [reflexivity|split; [reflexivity|split; [|reflexivity]]].
    intros q l H. discriminate H.
  - reflexivity.
  - reflexivity.
  - exists ((q, RtoC 0) : DC). split; [reflexivity|split; reflexivity].
  - reflexivity.
Qed.

(* ================= the end-to-end statement ================= *)
Theorem real_sequence_jacobian (x0 : R) (v : var) (items : list ritem) (pd : C) :
  List.Forall (item_ok x0) items ->
  let ds := drun (map (dop_of x0 v) items) (dinit (@init Cops pd)) in
  exists j : C, jacobian ds [v] = [j] /\
    derC (fun x => f0 Cops (run (map (real_of x) items) (@init Cops pd))) x0 j /\
    f0 Cops (d_main ds) = f0 Cops (run (map (real_of x0) items) (@init Cops pd)).
Proof.
  intros Hok ds.
  assert (J : Forall2 (is_jet x0) (map fam_of items) (map (jet_of x0) items)).
  { clear ds. induction Hok as [|it its H _ IH]; cbn [map]; constructor; auto. now apply item_jet. }
  assert (P : Forall2 (pair_ok DC Cops jv jd v) (map (jet_of x0) items) (map (dop_of x0 v) items)).
  { clear ds J. induction Hok as [|it its H _ IH]; cbn [map]; constructor; auto. now apply item_pair. }
  destruct (jacobian_is_derivative x0 v _ _ _ pd J P) as (j & E & D & F).
  assert (R1 : forall x, frun (map fam_of items) x (@init Cops pd) = run (map (real_of x) items) (@init Cops pd)).
  { intros x. unfold frun. f_equal. rewrite map_map.
    clear - Hok. induction Hok as [|it its H _ IH]; cbn [map]; [reflexivity|].
    now rewrite IH, (inst_fam x0 it x H). }
  exists j. split; [exact E|split].
  - apply (derC_ext (fun x => f0 Cops (frun (map fam_of items) x (@init Cops pd)))); [|exact D].
    intros t. now rewrite R1.
  - unfold ds. rewrite <- R1. exact F.
Qed.

(* ================= the real operators, parameter by parameter ================= *)
(* parameter ranks as in the classes' PARAMETERS lists *)
Definition iT_const (alpha phi : R) : ritem := RMc (T_op alpha phi).
Definition iT_alpha (c b phi : R) : ritem := RMv (fun a => T_op a phi) (fun a => T_d_alpha a phi) 0%nat c b.
Definition iT_phi (alpha c b : R) : ritem := RMv (fun p => T_op alpha p) (fun p => T_d_phi alpha p) 1%nat c b.
Definition iPhi_phi (c b : R) : ritem := RMv Phi_op Phi_d_phi 0%nat c b.
Definition iE_const (tau T1 T2 g : R) : ritem := RAc (E_op tau T1 T2 g).
Definition iE_tau (T1 T2 g c b : R) : ritem := RAv (fun u => E_op u T1 T2 g) (fun u => E_d_tau u T1 T2 g) true 0%nat c b.
Definition iE_T1 (tau T2 g c b : R) : ritem := RAv (fun u => E_op tau u T2 g) (fun u => E_d_T1 tau u T2 g) true 1%nat c b.
Definition iE_T2 (tau T1 g c b : R) : ritem := RAv (fun u => E_op tau T1 u g) (fun u => E_d_T2 tau T1 u g) true 2%nat c b.
Definition iE_g (tau T1 T2 c b : R) : ritem := RAv (fun u => E_op tau T1 T2 u) (fun u => E_d_g tau T1 T2 u) true 3%nat c b.
Definition iP_const (tau g : R) : ritem := RAc (P_op tau g).
Definition iP_tau (g c b : R) : ritem := RAv (fun u => P_op u g) (fun u => P_d_tau u g) false 0%nat c b.
Definition iP_g (tau c b : R) : ritem := RAv (fun u => P_op tau u) (fun u => P_d_g tau u) false 1%nat c b.
Definition iR_rT (rT_im rL r0 c b : R) : ritem :=
  RAv (fun u => R_op u rT_im rL r0) (fun u => R_d_rT u rT_im rL r0) true 0%nat c b.
Definition iR_rL (rT_re rT_im r0 c b : R) : ritem :=
  RAv (fun u => R_op rT_re rT_im u r0) (fun u => R_d_rL rT_re rT_im u r0) true 1%nat c b.
Definition iR_r0 (rT_re rT_im rL c b : R) : ritem :=
  RAv (fun u => R_op rT_re rT_im rL u) (fun u => R_d_r0 rT_re rT_im rL u) true 2%nat c b.

Lemma iT_alpha_ok x0 c b phi : item_ok x0 (iT_alpha c b phi).
Proof. exact (T_d_alpha_correct (c * x0 + b) phi). Qed.
Lemma iT_phi_ok x0 alpha c b : item_ok x0 (iT_phi alpha c b).
Proof. exact (T_d_phi_correct alpha (c * x0 + b)). Qed.
Lemma iPhi_phi_ok x0 c b : item_ok x0 (iPhi_phi c b).
Proof. exact (Phi_d_phi_correct (c * x0 + b)). Qed.
Lemma iE_tau_ok x0 T1 T2 g c b : T1 <> 0 -> T2 <> 0 -> item_ok x0 (iE_tau T1 T2 g c b).
Proof.
  intros H1 H2. split; [exact (E_d_tau_correct (c * x0 + b) T1 T2 g H1 H2)|split; [reflexivity|discriminate]].
Qed.
Lemma iE_T1_ok x0 tau T2 g c b : c * x0 + b <> 0 -> item_ok x0 (iE_T1 tau T2 g c b).
Proof.
  intros H1. split; [exact (E_d_T1_correct tau (c * x0 + b) T2 g H1)|split; [reflexivity|discriminate]].
Qed.
Lemma iE_T2_ok x0 tau T1 g c b : c * x0 + b <> 0 -> item_ok x0 (iE_T2 tau T1 g c b).
Proof.
  intros H2. split; [exact (E_d_T2_correct tau T1 (c * x0 + b) g H2)|split; [reflexivity|discriminate]].
Qed.
Lemma iE_g_ok x0 tau T1 T2 c b : item_ok x0 (iE_g tau T1 T2 c b).
Proof. split; [exact (E_d_g_correct tau T1 T2 (c * x0 + b))|split; [reflexivity|discriminate]]. Qed.
Lemma iP_tau_ok x0 g c b : item_ok x0 (iP_tau g c b).
Proof. split; [exact (P_d_tau_correct (c * x0 + b) g)|split; reflexivity]. Qed.
Lemma iP_g_ok x0 tau c b : item_ok x0 (iP_g tau c b).
Proof. split; [exact (P_d_g_correct tau (c * x0 + b))|split; reflexivity]. Qed.
Lemma iR_rT_ok x0 rT_im rL r0 c b : item_ok x0 (iR_rT rT_im rL r0 c b).
Proof. split; [exact (R_d_rT_correct (c * x0 + b) rT_im rL r0)|split; [reflexivity|discriminate]]. Qed.
Lemma iR_rL_ok x0 rT_re rT_im r0 c b : item_ok x0 (iR_rL rT_re rT_im r0 c b).
Proof. split; [exact (R_d_rL_correct rT_re rT_im (c * x0 + b) r0)|split; [reflexivity|discriminate]]. Qed.
Lemma iR_r0_ok x0 rT_re rT_im rL c b : item_ok x0 (iR_r0 rT_re rT_im rL c b).
Proof. split; [exact (R_d_r0_correct rT_re rT_im rL (c * x0 + b))|split; [reflexivity|discriminate]]. Qed.

(* the items a sequence of real operators is made of, with the side condition each needs *)
Inductive real_item (x0 : R) : ritem -> Prop :=
| ri_T_const alpha phi : real_item x0 (iT_const alpha phi)
| ri_T_alpha c b phi : real_item x0 (iT_alpha c b phi)
| ri_T_phi alpha c b : real_item x0 (iT_phi alpha c b)
| ri_Phi_phi c b : real_item x0 (iPhi_phi c b)
| ri_E_const tau T1 T2 g : real_item x0 (iE_const tau T1 T2 g)
| ri_E_tau T1 T2 g c b : T1 <> 0 -> T2 <> 0 -> real_item x0 (iE_tau T1 T2 g c b)
| ri_E_T1 tau T2 g c b : c * x0 + b <> 0 -> real_item x0 (iE_T1 tau T2 g c b)
| ri_E_T2 tau T1 g c b : c * x0 + b <> 0 -> real_item x0 (iE_T2 tau T1 g c b)
| ri_E_g tau T1 T2 c b : real_item x0 (iE_g tau T1 T2 c b)
| ri_P_const tau g : real_item x0 (iP_const tau g)
| ri_P_tau g c b : real_item x0 (iP_tau g c b)
| ri_P_g tau c b : real_item x0 (iP_g tau c b)
| ri_R_rT rT_im rL r0 c b : real_item x0 (iR_rT rT_im rL r0 c b)
| ri_R_rL rT_re rT_im r0 c b : real_item x0 (iR_rL rT_re rT_im r0 c b)
| ri_R_r0 rT_re rT_im rL c b : real_item x0 (iR_r0 rT_re rT_im rL c b)
| ri_S d nm : real_item x0 (RS d nm)
| ri_Spoiler : real_item x0 RSpoil
| ri_Reset : real_item x0 RReset
| ri_PD pd reset : real_item x0 (RPD pd reset)
| ri_Wait : real_item x0 RWait.

Lemma real_item_ok x0 it : real_item x0 it -> item_ok x0 it.
Proof.
  intros H. destruct H; try exact I.
  - apply iT_alpha_ok. - apply iT_phi_ok. - apply iPhi_phi_ok.
  - now apply iE_tau_ok. - now apply iE_T1_ok. - now apply iE_T2_ok. - apply iE_g_ok.
  - apply iP_tau_ok. - apply iP_g_ok.
  - apply iR_rT_ok. - apply iR_rL_ok. - apply iR_r0_ok.
Qed.

Theorem real_operators_jacobian (x0 : R) (v : var) (items : list ritem) (pd : C) :
  List.Forall (real_item x0) items ->
  let ds := drun (map (dop_of x0 v) items) (dinit (@init Cops pd)) in
  exists j : C, jacobian ds [v] = [j] /\
    derC (fun x => f0 Cops (run (map (real_of x) items) (@init Cops pd))) x0 j /\
    f0 Cops (d_main ds) = f0 Cops (run (map (real_of x0) items) (@init Cops pd)).
Proof.
  intros H. apply real_sequence_jacobian.
  induction H as [|it its Hi _ IH]; constructor; auto. now apply real_item_ok.
Qed.
