(* C02, end to end for the real operators: sequences of RF pulses T(alpha, phi), relaxation/precession
   E(tau, T1, T2, g) and 1-D shifts in which ONE real variable x drives the flip angles
   (alpha_i = c_i x + b_i) and/or the transverse relaxation times (T2_i = c_i x + b_i), each such
   operator declared to diff.py as order1 = {v: {alpha: c_i}} resp. {v: {T2: c_i}} with the derivative
   array the package computes (T_d_alpha, E_d_T2: TRANSLATED from /repo, Gen/*.v).
   Theorem: the Jacobian entry the bookkeeping of diff.py returns at x0 is the derivative at x0 of
   x |-> simulated signal -- Coquelicot is_derive on real and imaginary part -- for every such sequence. *)
From Coq Require Import List ZArith Lia Bool Reals Lra.
From Coquelicot Require Import Coquelicot.
From EPG Require Import Scalar State Ops ListLemmas Views Diff DiffLemmas DiffExact DiffPoint Dual CInst CDeriv.
From EPG Require Import Transition Evolution CoefT CoefE Jet.
Import ListNotations.
Local Open Scope R_scope.

(* ---- chain rule with an affine reparametrisation ---- *)
Lemma derC_affine f c b x l : derC f (c * x + b) l -> derC (fun t => f (c * t + b)) x (Cmult (RtoC c) l).
Proof.
  intros [F1 F2].
  assert (G : is_derive (fun t : R => c * t + b) x c) by (auto_derive; [trivial|ring]).
  split; simpl.
  - evar_last.
    + exact (is_derive_comp (fun u => fst (f u)) (fun t => c * t + b) x (fst l) c F1 G).
    + unfold scal; simpl; unfold mult; simpl; ring.
  - evar_last.
    + exact (is_derive_comp (fun u => snd (f u)) (fun t => c * t + b) x (snd l) c F2 G).
    + unfold scal; simpl; unfold mult; simpl; ring.
Qed.
Lemma derT_affine f c b x l : derT f (c * x + b) l ->
  derT (fun t => f (c * t + b)) x (@tscale Cops (RtoC c) l).
Proof.
  intros (A & B & C). unfold derT, tscale. cbn [fp fm fz]. change (@kmul Cops) with Cmult.
  split; [|split].
  - exact (derC_affine (fun u => fp (f u)) c b x _ A).
  - exact (derC_affine (fun u => fm (f u)) c b x _ B).
  - exact (derC_affine (fun u => fz (f u)) c b x _ C).
Qed.
Lemma derM_affine f c b x l : derM f (c * x + b) l ->
  derM (fun t => f (c * t + b)) x (@mscale Cops (RtoC c) l).
Proof.
  intros (A & B & C). unfold derM, mscale. cbn [row0 row1 row2].
  split; [|split].
  - exact (derT_affine (fun u => row0 (f u)) c b x _ A).
  - exact (derT_affine (fun u => row1 (f u)) c b x _ B).
  - exact (derT_affine (fun u => row2 (f u)) c b x _ C).
Qed.

(* ---- building a dual-number array from value and derivative ---- *)
Definition zipC (a b : C) : DC := (a, b).
Definition zipT (a b : triple Cops) : triple DC :=
  mk3 (zipC (fp a) (fp b)) (zipC (fm a) (fm b)) (zipC (fz a) (fz b)).
Definition zipM (a b : mat3 Cops) : mat3 DC :=
  mkM (zipT (row0 a) (row0 b)) (zipT (row1 a) (row1 b)) (zipT (row2 a) (row2 b)).

Lemma vT_zip a b : evT DC Cops jv (zipT a b) = a. Proof. now destruct a. Qed.
Lemma dT_zip a b : dvT DC Cops jd (zipT a b) = b. Proof. now destruct b. Qed.
Lemma vM_zip a b : evM DC Cops jv (zipM a b) = a.
Proof. destruct a as [r0 r1 r2]. unfold evM, zipM. cbn [row0 row1 row2]. now rewrite !vT_zip. Qed.
Lemma dM_zip a b : dvM DC Cops jd (zipM a b) = b.
Proof. destruct b as [r0 r1 r2]. unfold dvM, zipM. cbn [row0 row1 row2]. now rewrite !dT_zip. Qed.

Lemma jetT_zip x0 f a b : f x0 = a -> derT f x0 b -> jetT x0 f (zipT a b).
Proof. intros V D. apply jetT_split. now rewrite vT_zip, dT_zip. Qed.
Lemma jetM_zip x0 f a b : f x0 = a -> derM f x0 b -> jetM x0 f (zipM a b).
Proof. intros V D. apply jetM_split. now rewrite vM_zip, dM_zip. Qed.

Notation opt0 := CoefE.opt0.
Definition tz : triple Cops := t0.
Definition mz : mat3 Cops := mkM t0 t0 t0.

(* ---- sequences of real operators driven by one variable ---- *)
Inductive ritem : Type :=
| RTc (alpha phi : R)               (* T(alpha, phi), not differentiated *)
| RTv (c b phi : R)                 (* T(c x + b, phi, order1={v: {"alpha": c}}) *)
| REc (tau T1 T2 g : R)             (* E(tau, T1, T2, g), not differentiated *)
| REv (tau T1 g c b : R)            (* E(tau, T1, c x + b, g, order1={v: {"T2": c}}) *)
| RS (d : Z) (nm : option nat).     (* S(d, nmax=nm) *)

Definition palpha : param := 0%nat.
Definition pT2 : param := 2%nat.

Definition Earr (tau T1 T2 g : R) : triple Cops := fst (E_op tau T1 T2 g).
Definition Earr0 (tau T1 T2 g : R) : triple Cops := opt0 (snd (E_op tau T1 T2 g)).
Definition dEarr (tau T1 T2 g : R) : triple Cops := fst (E_d_T2 tau T1 T2 g).
Definition dEarr0 (tau T1 T2 g : R) : triple Cops := opt0 (snd (E_d_T2 tau T1 T2 g)).

(* the operator epgpy applies at parameter value x *)
Definition real_of (x : R) (it : ritem) : op Cops :=
  match it with
  | RTc alpha phi => OMatrix (T_op alpha phi) None
  | RTv c b phi => OMatrix (T_op (c * x + b) phi) None
  | REc tau T1 T2 g => OScalar (Earr tau T1 T2 g) (Some (Earr0 tau T1 T2 g))
  | REv tau T1 g c b => OScalar (Earr tau T1 (c * x + b) g) (Some (Earr0 tau T1 (c * x + b) g))
  | RS d nm => OShift d nm
  end.

(* what (fst, snd) of the translated E_op is: the recovery array is always present *)
Lemma E_op_some tau T1 T2 g : snd (E_op tau T1 T2 g) = Some (Earr0 tau T1 T2 g).
Proof. reflexivity. Qed.

Definition fam_of (it : ritem) : fop :=
  match it with
  | RTc alpha phi => FMatrix (fun _ => T_op alpha phi) None
  | RTv c b phi => FMatrix (fun x => T_op (c * x + b) phi) None
  | REc tau T1 T2 g => FScalar (fun _ => Earr tau T1 T2 g) (Some (fun _ => Earr0 tau T1 T2 g))
  | REv tau T1 g c b => FScalar (fun x => Earr tau T1 (c * x + b) g) (Some (fun x => Earr0 tau T1 (c * x + b) g))
  | RS d nm => FShift d nm
  end.

Lemma inst_fam it x : inst (fam_of it) x = real_of x it.
Proof. destruct it; reflexivity. Qed.

(* the differentiation operator handed to diff.py's bookkeeping at x0 *)
Definition dop_of (x0 : R) (v : var) (it : ritem) : dinstr Cops :=
  match it with
  | RTc alpha phi => DOp (mkDop (LMatrix (T_op alpha phi) None) [] [] [] [] true [])
  | RTv c b phi =>
      DOp (mkDop (LMatrix (T_op (c * x0 + b) phi) None)
                 [(palpha, LMatrix (T_d_alpha (c * x0 + b) phi) None)] []
                 [(v, [(palpha, RtoC c)])] [] true [])
  | REc tau T1 T2 g => DOp (mkDop (LScalar (Earr tau T1 T2 g) (Some (Earr0 tau T1 T2 g))) [] [] [] [] true [])
  | REv tau T1 g c b =>
      DOp (mkDop (LScalar (Earr tau T1 (c * x0 + b) g) (Some (Earr0 tau T1 (c * x0 + b) g)))
                 [(pT2, LScalar (dEarr tau T1 (c * x0 + b) g) (Some (dEarr0 tau T1 (c * x0 + b) g)))] []
                 [(v, [(pT2, RtoC c)])] [] true [])
  | RS d nm => DOp (mkDop (LShift d nm) [] [] [] [] true [])
  end.

(* the 1-jets of the arrays *)
Definition jet_of (x0 : R) (it : ritem) : op DC :=
  match it with
  | RTc alpha phi => OMatrix (zipM (T_op alpha phi) mz) None
  | RTv c b phi => OMatrix (zipM (T_op (c * x0 + b) phi) (@mscale Cops (RtoC c) (T_d_alpha (c * x0 + b) phi))) None
  | REc tau T1 T2 g => OScalar (zipT (Earr tau T1 T2 g) tz) (Some (zipT (Earr0 tau T1 T2 g) tz))
  | REv tau T1 g c b =>
      OScalar (zipT (Earr tau T1 (c * x0 + b) g) (@tscale Cops (RtoC c) (dEarr tau T1 (c * x0 + b) g)))
              (Some (zipT (Earr0 tau T1 (c * x0 + b) g) (@tscale Cops (RtoC c) (dEarr0 tau T1 (c * x0 + b) g))))
  | RS d nm => OShift d nm
  end.

(* side conditions: relaxation times are not zero where E is differentiated *)
Definition item_ok (x0 : R) (it : ritem) : Prop :=
  match it with
  | REv tau T1 g c b => T1 <> 0 /\ c * x0 + b <> 0
  | _ => True
  end.

Lemma item_jet x0 it : item_ok x0 it -> is_jet x0 (fam_of it) (jet_of x0 it).
Proof.
  destruct it as [alpha phi|c b phi|tau T1 T2 g|tau T1 g c b|d nm]; cbn [item_ok fam_of jet_of is_jet ojet]; intros Hok.
  - split; auto. apply jetM_zip; [reflexivity|]. exact (derM_const _ x0).
  - split; auto. apply jetM_zip; [reflexivity|].
    exact (derM_affine (fun a => T_op a phi) c b x0 _ (T_d_alpha_correct (c * x0 + b) phi)).
  - split; (apply jetT_zip; [reflexivity|exact (derT_const _ x0)]).
  - destruct Hok as [H1 H2].
    destruct (E_d_T2_correct tau T1 (c * x0 + b) g H2) as [D D0].
    split; (apply jetT_zip; [reflexivity|]).
    + exact (derT_affine (fun u => fst (E_op tau T1 u g)) c b x0 _ D).
    + exact (derT_affine (fun u => opt0 (snd (E_op tau T1 u g))) c b x0 _ D0).
  - split; reflexivity.
Qed.

Lemma lact_eq (A A0 B B0 : mat3 Cops) (x e : triple Cops) : A = B -> A0 = B0 ->
  lact Cops A A0 x e = lact Cops B B0 x e.
Proof. now intros -> ->. Qed.

Lemma madd_mzero_l (A : mat3 Cops) : madd (DiffExact.mzero Cops) A = A.
Proof.
  destruct A as [[a b c] [d e f] [g h i]]. unfold madd, DiffExact.mzero, tadd, t0. cbn [row0 row1 row2 fp fm fz].
  cnorm. f_equal; f_equal; ring.
Qed.
Lemma mscale_mzero (c : C) : @mscale Cops c (DiffExact.mzero Cops) = DiffExact.mzero Cops.
Proof.
  unfold mscale, DiffExact.mzero, tscale, t0. cbn [row0 row1 row2 fp fm fz]. cnorm. f_equal; f_equal; ring.
Qed.
Lemma mdiag_tscale (c : C) (a : triple Cops) : mdiag (@tscale Cops c a) = @mscale Cops c (mdiag a).
Proof.
  destruct a as [x y z]. unfold mdiag, mscale, tscale. cbn [row0 row1 row2 fp fm fz]. cnorm.
  f_equal; f_equal; ring.
Qed.
Lemma mdiag_tz : mdiag tz = DiffExact.mzero Cops. Proof. reflexivity. Qed.

Lemma dM_mdiag_zip (a b : triple Cops) : dvM DC Cops jd (mdiag (zipT a b)) = mdiag b.
Proof. destruct b. reflexivity. Qed.

Lemma item_pair x0 v it : pair_ok DC Cops jv jd v (jet_of x0 it) (dop_of x0 v it).
Proof.
  destruct it as [alpha phi|c b phi|tau T1 T2 g|tau T1 g c b|d nm]; cbn [jet_of dop_of pair_ok].
  - exists (LMatrix (zipM (T_op alpha phi) mz) None). cbn [lin_op map_lin option_map d_lin is_shift d_order1].
    rewrite vM_zip. split; [reflexivity|split; [reflexivity|split]].
    + intros p l H. discriminate H.
    + intros x e. unfold eff, entries. cbn [d_order1 flat_map fold_left fst snd lmat lmat0].
      rewrite dM_zip. apply lact_eq; reflexivity.
  - exists (LMatrix (zipM (T_op (c * x0 + b) phi) (@mscale Cops (RtoC c) (T_d_alpha (c * x0 + b) phi))) None).
    cbn [lin_op map_lin option_map d_lin is_shift d_order1].
    rewrite vM_zip. split; [reflexivity|split; [reflexivity|split]].
    + intros p l H. cbn [d_darrs alookup] in H. destruct (Nat.eqb p palpha); [|discriminate H]. now injection H as <-.
    + intros x e. unfold eff, entries. cbn [d_order1 flat_map fst snd]. rewrite Nat.eqb_refl.
      cbn [app fold_left]. unfold eff_step. cbn [fst snd d_darrs alookup]. rewrite Nat.eqb_refl.
      cbn [lmat lmat0 fst snd]. rewrite dM_zip.
      apply lact_eq; [now rewrite madd_mzero_l|].
      now rewrite mscale_mzero, madd_mzero_l.
  - exists (LScalar (zipT (Earr tau T1 T2 g) tz) (Some (zipT (Earr0 tau T1 T2 g) tz))).
    cbn [lin_op map_lin option_map d_lin is_shift d_order1].
    rewrite !vT_zip. split; [reflexivity|split; [reflexivity|split]].
    + intros p l H. discriminate H.
    + intros x e. unfold eff, entries. cbn [d_order1 flat_map fold_left fst snd lmat lmat0].
      rewrite !dM_mdiag_zip. apply lact_eq; reflexivity.
  - exists (LScalar (zipT (Earr tau T1 (c * x0 + b) g) (@tscale Cops (RtoC c) (dEarr tau T1 (c * x0 + b) g)))
              (Some (zipT (Earr0 tau T1 (c * x0 + b) g) (@tscale Cops (RtoC c) (dEarr0 tau T1 (c * x0 + b) g))))).
    cbn [lin_op map_lin option_map d_lin is_shift d_order1].
    rewrite !vT_zip. split; [reflexivity|split; [reflexivity|split]].
    + intros p l H. cbn [d_darrs alookup] in H. destruct (Nat.eqb p pT2); [|discriminate H]. now injection H as <-.
    + intros x e. unfold eff, entries. cbn [d_order1 flat_map fst snd]. rewrite Nat.eqb_refl.
      cbn [app fold_left]. unfold eff_step. cbn [fst snd d_darrs alookup]. rewrite Nat.eqb_refl.
      cbn [lmat lmat0 fst snd]. rewrite !dM_mdiag_zip, !mdiag_tscale.
      apply lact_eq; now rewrite madd_mzero_l.
  - exists (LShift d nm). cbn [lin_op map_lin d_lin is_shift d_order1 d_darrs].
    split; [reflexivity|split; [reflexivity|split; [|reflexivity]]].
    intros p l H. discriminate H.
Qed.

(* ================= the end-to-end statement ================= *)
Theorem real_sequence_jacobian (x0 : R) (v : var) (items : list ritem) (pd : C) :
  List.Forall (item_ok x0) items ->
  let ds := drun (map (dop_of x0 v) items) (dinit (@init Cops pd)) in
  exists j : C, jacobian ds [v] = [j] /\
    derC (fun x => f0 Cops (run (map (real_of x) items) (@init Cops pd))) x0 j /\
    f0 Cops (d_main ds) = f0 Cops (run (map (real_of x0) items) (@init Cops pd)).
Proof.
  intros Hok ds.
  assert (J : Forall2 (is_jet x0) (map fam_of items) (map (jet_of x0) items)).
  { induction Hok as [|it its H _ IH]; cbn [map]; constructor; auto. now apply item_jet. }
  assert (P : Forall2 (pair_ok DC Cops jv jd v) (map (jet_of x0) items) (map (dop_of x0 v) items)).
  { clear. induction items as [|it its IH]; cbn [map]; constructor; auto. apply item_pair. }
  destruct (jacobian_is_derivative x0 v _ _ _ pd J P) as (j & E & D & F).
  assert (R1 : forall x, frun (map fam_of items) x (@init Cops pd) = run (map (real_of x) items) (@init Cops pd)).
  { intros x. unfold frun. f_equal. rewrite map_map. apply map_ext. intros it. apply inst_fam. }
  exists j. split; [exact E|split].
  - apply (derC_ext (fun x => f0 Cops (frun (map fam_of items) x (@init Cops pd)))); [|exact D].
    intros t. now rewrite R1.
  - unfold ds. rewrite <- R1. exact F.
Qed.
